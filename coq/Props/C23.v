(* C23 Compile pipelines compose transforms and route results correctly.
   Statements only; every proof is `exact <lemma>` from Disc/PipelineProofs.v. *)
From Coq Require Import List ZArith Bool.
From PLV Require Import Disc.PipelineModel Disc.PipelineProofs.
Import ListNotations.
Open Scope Z_scope.

Theorem pipeline_is_manual_composition :
  forall (T R : Type) (p : list (@transform T R)) (batch : list T) (run : T -> R),
    snd (call_tapes p batch) (map run (fst (call_tapes p batch))) = map (by_hand p run) batch.
Proof. intros T R; exact call_tapes_spec. Qed.
Print Assumptions pipeline_is_manual_composition.
