(* C23 Compile pipelines compose transforms and route results correctly.
   Statements only; every proof is `exact <lemma>` from Disc/PipelineProofs.v (or a closed computation
   for the *_refuted / *_documented statements about concrete pipelines). *)
From Coq Require Import List ZArith Bool.
From PLV Require Import Disc.PipelineModel Disc.PipelineProofs.
Import ListNotations.
Open Scope Z_scope.

(* ============================== (a) ROUTING ============================== *)
(* For ALL pipelines of arbitrary transforms (any fan-out, including 0), all batches, all executors:
   post-processing the executed output batch = applying the transforms by hand to each input tape,
   one value per input tape, in input order. *)
Theorem pipeline_is_manual_composition :
  forall (T R : Type) (p : list (@transform T R)) (batch : list T) (run : T -> R),
    snd (call_tapes p batch) (map run (fst (call_tapes p batch))) = map (by_hand p run) batch.
Proof. intros T R; exact call_tapes_spec. Qed.
Print Assumptions pipeline_is_manual_composition.

(* the execution batch is, in order, the concatenation of the leaves of the by-hand application *)
Theorem execution_tapes_are_leaves :
  forall (T R : Type) (p : list (@transform T R)) (batch : list T),
    fst (call_tapes p batch) = flat_map (leaves p) batch.
Proof. intros T R; exact call_tapes_leaves. Qed.
Print Assumptions execution_tapes_are_leaves.

(* the slice lemma used by the induction: the recorded slices cut the results back per input tape *)
Theorem batch_slices_regroup :
  forall (T R : Type) (f : @transform T R) (g : T -> R) (tapes : list T) (pre : list R),
    batch_post (snd (step_loop f tapes (length pre)))
               (pre ++ map g (fst (step_loop f tapes (length pre))))
    = map (fun t => snd (f t) (map g (fst (f t)))) tapes.
Proof. intros T R; exact step_loop_spec. Qed.
Print Assumptions batch_slices_regroup.

(* ============================== (b) CONTAINER ============================== *)
(* len(pipeline) and iteration are those of the list `items` by definition of the model (they are
   compared with the implementation after every step of the correspondence run). *)

Theorem container_refines_list_append : forall p t,
  (snd (append p t) = true <-> has_final (items p) = true /\ b_final t = true) /\
  (snd (append p t) = true -> fst (append p t) = p) /\
  (snd (append p t) = false ->
     items (fst (append p t)) = items p ++ with_expand t /\ marks (fst (append p t)) = marks p).
Proof. exact append_spec. Qed.
Print Assumptions container_refines_list_append.

Theorem container_refines_list_iadd : forall p q,
  (snd (iadd_pipe p q) = true <-> has_final (items p) = true /\ has_final (items q) = true) /\
  (snd (iadd_pipe p q) = true -> items (fst (iadd_pipe p q)) = items p) /\
  (snd (iadd_pipe p q) = false -> items (fst (iadd_pipe p q)) = items p ++ items q).
Proof. exact iadd_spec. Qed.
Print Assumptions container_refines_list_iadd.

Theorem container_refines_list_iadd_transform : forall p t,
  snd (iadd_t p t) = false -> items (fst (iadd_t p t)) = items p ++ with_expand t.
Proof. exact iadd_t_spec. Qed.
Print Assumptions container_refines_list_iadd_transform.

Theorem container_refines_list_add : forall p q,
  (add_pipe p q = None <-> has_final (items p) = true /\ has_final (items q) = true) /\
  (forall r, add_pipe p q = Some r -> items r = items p ++ items q).
Proof. exact add_spec. Qed.
Print Assumptions container_refines_list_add.

Theorem container_refines_list_add_transform : forall p t r,
  add_t p t = Some r -> items r = items p ++ with_expand t.
Proof. exact add_t_spec. Qed.
Print Assumptions container_refines_list_add_transform.

(* transform + pipeline: list part as for lists; the markers are dropped (see finding) *)
Theorem container_refines_list_radd : forall t p,
  (radd t p = None <-> has_final (items p) = true /\ b_final t = true) /\
  (forall r, radd t p = Some r -> items r = with_expand t ++ items p /\ marks r = []).
Proof. exact radd_spec. Qed.
Print Assumptions container_refines_list_radd.

Theorem container_refines_list_mul : forall p n,
  (mul p n = None <-> n < 0 \/ has_final (items p) = true) /\
  (forall r, mul p n = Some r ->
     items r = concat (repeat (items p) (Z.to_nat n)) /\ marks r = marks p).
Proof. exact mul_spec. Qed.
Print Assumptions container_refines_list_mul.

(* insert with 0 <= index <= len: the transform together with its expand_transform goes to `index` *)
Theorem container_refines_list_insert : forall p i t,
  0 <= i <= zlen (items p) -> snd (insert p i t) = false ->
  items (fst (insert p i t)) =
    firstn (Z.to_nat i) (items p) ++ with_expand t ++ skipn (Z.to_nat i) (items p).
Proof. exact insert_spec. Qed.
Print Assumptions container_refines_list_insert.

Theorem insert_raises_iff : forall p i t,
  snd (insert p i t) = true <-> items p <> [] /\ b_final t = true.
Proof. exact insert_raises. Qed.
Print Assumptions insert_raises_iff.

(* pop with any valid (also negative) index j: returns l[j]; removes l[j], and l[j-1] too exactly
   when that entry equals the expand_transform of the popped transform *)
Theorem container_refines_list_pop : forall p i j,
  py_index (zlen (items p)) i = Some j ->
  snd (pop p i) = Some (nthz (items p) j) /\
  items (fst (pop p i)) =
    (if pop_partner (items p) j
     then firstn (Z.to_nat (j - 1)) (items p) ++ skipn (Z.to_nat (j + 1)) (items p)
     else del_at (Z.to_nat j) (items p)).
Proof. exact pop_items. Qed.
Print Assumptions container_refines_list_pop.

Theorem pop_index_error_is_noop : forall p i,
  py_index (zlen (items p)) i = None -> pop p i = (p, None).
Proof. exact pop_index_error. Qed.
Print Assumptions pop_index_error_is_noop.

Theorem container_refines_list_getitem : forall p i j,
  py_index (zlen (items p)) i = Some j -> getitem p i = Some (nth (Z.to_nat j) (items p) dflt).
Proof. exact getitem_spec. Qed.
Print Assumptions container_refines_list_getitem.

(* pipeline[a:b] with normalised bounds 0 <= a <= b <= len: the list slice, and the marker rule *)
Theorem container_refines_list_slice : forall p a b,
  0 <= a <= b -> b <= zlen (items p) ->
  exists r, getslice p (Some a) (Some b) 1 = Some r /\
    items r = firstn (Z.to_nat (b - a)) (skipn (Z.to_nat a) (items p)) /\
    marks r = map_levels (fun v => v - a)
                (filter (fun kv => (a <=? snd kv) &&
                                   (snd kv <? (if b =? zlen (items p) then b + 1 else b))) (marks p)).
Proof. exact getslice_step1. Qed.
Print Assumptions container_refines_list_slice.

(* remove: PARTIAL - only when no removed transform carries an expand_transform (then it is the list
   filter); the interplay of remove with expand partners is covered by the correspondence run only *)
Theorem container_refines_list_remove_partial : forall p o,
  (forall x, In x (items p) -> rmatch o x = true -> expand_of x = None) ->
  items (remove p o) = filter (fun x => negb (rmatch o x)) (items p).
Proof. exact remove_filter. Qed.
Print Assumptions container_refines_list_remove_partial.

(* terminal-transform rule: at most one terminal transform, preserved by every growing operation *)
Theorem terminal_transform_rule : forall p, one_final p ->
  (forall t, one_final (fst (append p t))) /\
  (forall q, one_final q -> one_final (fst (iadd_pipe p q))) /\
  (forall q r, one_final q -> add_pipe p q = Some r -> one_final r) /\
  (forall t r, radd t p = Some r -> one_final r) /\
  (forall n r, mul p n = Some r -> one_final r) /\
  (forall i t, one_final (fst (insert p i t))).
Proof. exact one_final_preserved. Qed.
Print Assumptions terminal_transform_rule.

(* ============================== (c) MARKERS ============================== *)
(* A marker at level v stands at the boundary (firstn v l | skipn v l).  For the operations below the
   implementation's arithmetic keeps every marker attached: same prefix or same suffix. *)

(* insert of ONE entry (transform without expand_transform) at 0 <= i <= len *)
Theorem markers_insert_in_range : forall p i t v,
  0 <= i <= zlen (items p) -> 0 <= v <= zlen (items p) ->
  marks (fst (insert p i t)) = map_levels (fun v => if v >=? i then v + 1 else v) (marks p) /\
  (v < i -> firstn (Z.to_nat (if v >=? i then v + 1 else v)) (list_insert i t (items p))
            = firstn (Z.to_nat v) (items p)) /\
  (i <= v -> skipn (Z.to_nat (if v >=? i then v + 1 else v)) (list_insert i t (items p))
             = skipn (Z.to_nat v) (items p)).
Proof. exact insert_marks_in_range. Qed.
Print Assumptions markers_insert_in_range.

Theorem markers_pop : forall p i j,
  py_index (zlen (items p)) i = Some j ->
  marks (fst (pop p i)) =
    if pop_partner (items p) j
    then map_levels (fun v => let v1 := if v >? j then v - 1 else v in
                              if v1 >? j - 1 then v1 - 1 else v1) (marks p)
    else map_levels (fun v => if v >? j then v - 1 else v) (marks p).
Proof. exact pop_marks. Qed.
Print Assumptions markers_pop.

Theorem markers_pop_boundaries_single : forall (l : list bt) j v,
  0 <= j < zlen l -> 0 <= v <= zlen l ->
  (v <= j -> firstn (Z.to_nat (if v >? j then v - 1 else v)) (del_at (Z.to_nat j) l) = firstn (Z.to_nat v) l) /\
  (j < v -> skipn (Z.to_nat (if v >? j then v - 1 else v)) (del_at (Z.to_nat j) l) = skipn (Z.to_nat v) l).
Proof. exact delete_boundaries. Qed.
Print Assumptions markers_pop_boundaries_single.

Theorem markers_pop_boundaries_pair : forall (l : list bt) j v,
  0 < j < zlen l -> 0 <= v <= zlen l ->
  let v2 := (let v1 := if v >? j then v - 1 else v in if v1 >? j - 1 then v1 - 1 else v1) in
  let l2 := firstn (Z.to_nat (j - 1)) l ++ skipn (Z.to_nat (j + 1)) l in
  (v <= j - 1 -> firstn (Z.to_nat v2) l2 = firstn (Z.to_nat v) l) /\
  (j < v -> skipn (Z.to_nat v2) l2 = skipn (Z.to_nat v) l) /\
  (v = j -> v2 = j - 1).
Proof. exact delete_pair_boundaries. Qed.
Print Assumptions markers_pop_boundaries_pair.

(* + and += : left markers keep their level (same prefix), right markers move by len(left) (same
   suffix); a label present on both sides takes the right operand's (shifted) level *)
Theorem markers_add : forall p q r k, add_pipe p q = Some r -> NoDup (map fst (marks q)) ->
  dict_get k (marks r) =
  match dict_get k (marks q) with Some v => Some (v + zlen (items p)) | None => dict_get k (marks p) end.
Proof. exact add_marks. Qed.
Print Assumptions markers_add.

Theorem markers_iadd : forall p q k, NoDup (map fst (marks q)) ->
  dict_get k (marks (fst (iadd_pipe p q))) =
  match dict_get k (marks q) with Some v => Some (v + zlen (items p)) | None => dict_get k (marks p) end.
Proof. exact iadd_marks. Qed.
Print Assumptions markers_iadd.

Theorem markers_concat_boundaries : forall (l1 l2 : list bt) v,
  (0 <= v <= zlen l1 -> firstn (Z.to_nat v) (l1 ++ l2) = firstn (Z.to_nat v) l1) /\
  (0 <= v -> skipn (Z.to_nat (v + zlen l1)) (l1 ++ l2) = skipn (Z.to_nat v) l2).
Proof. exact app_boundaries. Qed.
Print Assumptions markers_concat_boundaries.

(* pipeline * n (documented: "markers are not duplicated"): same level, same prefix for n >= 1 *)
Theorem markers_mul_keep_prefix : forall (l : list bt) n v, (1 <= n)%nat -> 0 <= v <= zlen l ->
  firstn (Z.to_nat v) (repeat_list l n) = firstn (Z.to_nat v) l.
Proof. exact mul_boundaries. Qed.
Print Assumptions markers_mul_keep_prefix.

(* slicing: a kept marker (a <= v <= b) has the same transforms between the cut and itself *)
Theorem markers_slice_boundaries : forall (l : list bt) s e v, 0 <= s <= v -> v <= e ->
  firstn (Z.to_nat (v - s)) (firstn (Z.to_nat (e - s)) (skipn (Z.to_nat s) l))
  = skipn (Z.to_nat s) (firstn (Z.to_nat v) l).
Proof. exact slice_boundaries. Qed.
Print Assumptions markers_slice_boundaries.

(* ---- where the transcribed arithmetic does NOT keep markers / pairs attached (reported as findings) ---- *)
Definition tA := mkBT 0 0 None false.
Definition tB := mkBT 1 1 None false.
Definition tC := mkBT 2 2 None false.
Definition tX := mkBT 3 3 (Some 20) false.
Definition tE := mkBT (-1) 20 None false.
Definition pAB := mkP [tA; tB] [(0, 0); (1, 1); (2, 2)].

(* insert(-1, c) into [a, b] puts c at position 1, yet the marker at level 0 moves to level 1 *)
Theorem markers_insert_negative_index_refuted :
  fst (insert pAB (-1) tC) = mkP [tA; tC; tB] [(0, 1); (1, 2); (2, 3)].
Proof. reflexivity. Qed.
Print Assumptions markers_insert_negative_index_refuted.

(* insert(1, x) with an expand_transform adds two entries; the end marker (level 2 of 2) ends at 3 of 4 *)
Theorem markers_insert_expand_refuted :
  fst (insert pAB 1 tX) = mkP [tA; tE; tX; tB] [(0, 0); (1, 2); (2, 3)].
Proof. reflexivity. Qed.
Print Assumptions markers_insert_expand_refuted.

(* insert with an index outside 0..len puts the expand_transform AFTER its transform *)
Theorem insert_expand_order_refuted :
  items (fst (insert pAB (-1) tX)) = [tA; tX; tE; tB] /\ items (fst (insert pAB 5 tX)) = [tA; tB; tX; tE].
Proof. split; reflexivity. Qed.
Print Assumptions insert_expand_order_refuted.

(* non-vacuity: the hypotheses used above are satisfiable, and a stacked uneven fan-out example *)
Example hyps_satisfiable :
  one_final pAB /\ py_index (zlen (items pAB)) (-1) = Some 1 /\
  pop_partner [tA; tE; tX; tB] 2 = true /\
  fst (pop (mkP [tA; tE; tX; tB] [(0, 0); (1, 2); (2, 4)]) (-2)) = mkP [tA; tB] [(0, 0); (1, 1); (2, 2)].
Proof. repeat split; try reflexivity. unfold one_final; cbn; auto. Qed.

Example routing_example :
  let p := map syn_transform [mkSyn 1 0 0 [2; 0; 1]; mkSyn 2 0 0 [1; 3]] in
  let r := call_tapes p [TBase 0; TBase 1; TBase 2] in
  length (fst r) = 7%nat /\
  snd r (map RRun (fst r)) = map (by_hand p RRun) [TBase 0; TBase 1; TBase 2] /\
  nth 1 (snd r (map RRun (fst r))) (RRun (TBase 0)) = RPost 1 (TBase 1) [].
Proof. repeat split; reflexivity. Qed.
