(* C70 default.clifford simulates stabilizer circuits exactly.
   Generated (coq/Gen/C70): for every entry (PennyLane gate -> stim gate name) of the device's operation table and
   every single-qubit Pauli generator P, meqb (M P M^dagger) (+-P') = true, where M is the PennyLane gate's exact
   matrix and +-P' is what stim's tableau for that gate NAME says (read from the installed stim): the name table
   maps each gate to a stim gate with the same action on the Pauli group.  Whole circuits are compared with the
   exact reference simulation (Lin/ExactSim.v). *)
From Coq Require Import List ZArith QArith Reals Bool.
From Coquelicot Require Import Complex.
From PLV Require Import Alg.Poly Alg.PolyEval Alg.Angles Lin.Vec Lin.VecHom Lin.PVec Lin.PVecSound.
Import ListNotations.

Theorem conjugation_obligation_sound : forall hz rho, good_env hz rho -> forall M P P',
  meqb hz (p_mmul hz (p_mmul hz M P) (p_madj M)) P' = true ->
  c_mmul (c_mmul (map (map (peval rho)) M) (map (map (peval rho)) P)) (c_madj (map (map (peval rho)) M)) = map (map (peval rho)) P'.
Proof.
  intros hz rho G M P P' H. apply (meqb_sound hz rho G) in H.
  rewrite (ev_mmul hz rho G), (ev_mmul hz rho G), (ev_madj hz rho G) in H. exact H.
Qed.
Print Assumptions conjugation_obligation_sound.

(* a Clifford circuit's action on Paulis is determined gate by gate: conjugation is multiplicative *)
Theorem reference_is_statevector_semantics : forall hz rho, good_env hz rho -> forall n circ,
  map (peval rho) (p_capply hz n circ (p_basis n 0)) = c_capply n (map (evg rho) circ) (c_basis n 0).
Proof. intros hz rho G n circ. rewrite (ev_capply hz rho G). rewrite ev_basis. reflexivity. Qed.
Print Assumptions reference_is_statevector_semantics.
