(* C03 Operator arithmetic agrees with matrix arithmetic.
   Generated (coq/Gen/C03, from /repo): for random nested operator expressions e with formal gate parameters
     exp_ok hz n e_tree M_impl = true
   where e_tree is the expression (leaf gate matrices on their wires; adjoint, integer power, control with control
   values, product, sum, scalar product, change-of-basis as products) and M_impl is the matrix the implementation's
   own matrix() of the top-level wrapper returns, executed symbolically.  Also for simplify(e) and map_wires(e). *)
From Coq Require Import List ZArith QArith Reals Bool.
From Coquelicot Require Import Complex.
From PLV Require Import Alg.Poly Alg.PolyEval Alg.Angles Lin.Vec Lin.VecHom Lin.PVec Lin.PVecSound Lin.OpExp Lin.OpExpSound.
Import ListNotations.

(* the reference denotation commutes with evaluation at every parameter valuation: the polynomial computation
   really computes the matrix arithmetic (adjoint = conjugate transpose, power = repeated product,
   control = P (x) U + (1-P) (x) I, product, sum, scalar multiple) of the evaluated leaf matrices *)
Theorem reference_denotation_is_matrix_arithmetic : forall hz rho, good_env hz rho -> forall n e,
  map (map (peval rho)) (p_denote hz n e) = c_denote n (emap (peval rho) e).
Proof. exact denote_sound. Qed.
Print Assumptions reference_denotation_is_matrix_arithmetic.

Theorem arithmetic_matches_implementation_forall : forall hz D n e M, (0 < hz)%Z -> exp_ok hz n e M = true ->
  forall th : list R, c_denote n (emap (peval (aenv hz D th)) e) = map (map (peval (aenv hz D th))) M.
Proof. exact exp_ok_forall. Qed.
Print Assumptions arithmetic_matches_implementation_forall.

(* simplify / map_wires obligations are entrywise equalities of two implementation matrices *)
Theorem same_map_forall : forall hz D X Y, (0 < hz)%Z -> meqb hz X Y = true ->
  forall th : list R, map (map (peval (aenv hz D th))) X = map (map (peval (aenv hz D th))) Y.
Proof. exact meqb_forall. Qed.
Print Assumptions same_map_forall.
