(* C01 Operator representations describe one and the same linear map.
   Generated (coq/Gen/C01, rebuilt from /repo), all with formal gate parameters:
     dec_k  : cols_ok ... (op.decomposition()) acts as the matrix
     diag_k : cols_ok ... (diagonalizing gates^dagger ; diag(eigvals) ; diagonalizing gates) acts as the matrix
     pr_k   : meqb (matrix of pauli_rep) M = true
     gen_k  : meqb M (sum_k z^(D lambda_k) P_k) = true   with P_k the spectral projectors of the generator G,
              plus  annihilator_k : prod_k (G - lambda_k) = 0   and  resolution_k : sum_k P_k = I
     wo_k   : cols_ok ... M on permuted positions = qp.matrix(op, wire_order=sigma)
     pow_k  : meqb (M^k) (matrix of op**k) = true *)
From Coq Require Import List ZArith QArith Reals Bool.
From Coquelicot Require Import Complex.
From PLV Require Import Alg.Poly Alg.PolyEval Alg.Angles Lin.Vec Lin.VecHom Lin.PVec Lin.PVecSound.
Import ListNotations.

Theorem representation_circuit_forall : forall hz D n circ ows M cols, (0 < hz)%Z -> cols_ok hz n circ ows M cols = true ->
  forall (th : list R) c, In c cols ->
    c_capply n (map (evg (aenv hz D th)) circ) (c_basis n c) = c_apply_gate n ows (map (map (peval (aenv hz D th))) M) (c_basis n c).
Proof. exact cols_ok_forall. Qed.
Print Assumptions representation_circuit_forall.

Theorem representation_matrix_forall : forall hz D X Y, (0 < hz)%Z -> meqb hz X Y = true ->
  forall th : list R, map (map (peval (aenv hz D th))) X = map (map (peval (aenv hz D th))) Y.
Proof. exact meqb_forall. Qed.
Print Assumptions representation_matrix_forall.

Theorem product_representation_forall : forall hz D X Y Z, (0 < hz)%Z -> meqb hz (p_mmul hz X Y) Z = true ->
  forall th : list R, c_mmul (map (map (peval (aenv hz D th))) X) (map (map (peval (aenv hz D th))) Y) = map (map (peval (aenv hz D th))) Z.
Proof. intros hz D X Y Z H E th. exact (mmul_eq_sound hz _ (aenv_good hz D th H) X Y Z E). Qed.
Print Assumptions product_representation_forall.

(* spectral form: if P_j P_k = delta_jk P_k and sum P_k = I then (sum a_k P_k)(sum b_k P_k) = sum a_k b_k P_k;
   in particular theta |-> sum_k exp(i theta lambda_k) P_k is a one-parameter group with generator sum lambda_k P_k.
   Stated for two projectors over any commutative ring of scalars acting on matrices is beyond this file; the
   generated obligations check the three matrix identities (annihilator, resolution, spectral form) exactly. *)
