(* C14 Unitary synthesis reproduces any unitary.
   Static part.  (1) The circuit skeletons emitted by two_qubit_decomposition are the four templates transcribed in
   Num/SynthModel.v; they contain 0,1,2,3 CNOTs and no other two-wire operator.  (2) Soundness of the fixed-point interval
   checker that bounds |circuit - U| per instance (tie V): intervals of integers scaled by K = 2^60, outward rounding.
   Generated part (coq/Gen/C14/*.v, every run): skeleton checks and distance checks evaluated by vm_compute on the circuits
   returned by the real implementation, and reflection obligations  cols_ok ... = true  for the circuit templates with
   FORMAL angles (universal in the angles through Lin/PVecSound.cols_ok_forall, re-exported below). *)
From Coq Require Import List Arith ZArith Bool Reals.
From Coquelicot Require Import Complex.
From PLV Require Import Alg.Poly Alg.PolyEval Alg.Angles Lin.Vec Lin.VecHom Lin.PVec Lin.PVecSound Num.SynthModel Num.SynthProofs.
Import ListNotations.

(* ---- at most three CNOTs *)
Theorem two_qubit_templates_at_most_three_cnots : forall t, In t two_qubit_templates -> (cnot_count t <= 3)%nat.
Proof. exact templates_cnot_le3. Qed.
Print Assumptions two_qubit_templates_at_most_three_cnots.

Theorem template_k_has_k_cnots : forall k, (k <= 3)%nat -> cnot_count (template_of k) = k.
Proof. exact template_cnot_count. Qed.
Print Assumptions template_k_has_k_cnots.

(* any emitted skeleton accepted by the per-run check (global phase optional) is one of the templates, hence <= 3 CNOTs *)
Theorem accepted_two_qubit_skeleton_is_a_template : forall s, two_qubit_skeleton_ok s = true ->
  exists k, (k <= 3)%nat /\ strip_phase s = template_of k /\ cnot_count s = k.
Proof. exact two_qubit_skeleton_class. Qed.
Print Assumptions accepted_two_qubit_skeleton_is_a_template.

Theorem accepted_two_qubit_skeleton_at_most_three_cnots : forall s, two_qubit_skeleton_ok s = true -> (cnot_count s <= 3)%nat.
Proof. exact two_qubit_skeleton_cnots. Qed.
Print Assumptions accepted_two_qubit_skeleton_at_most_three_cnots.

Theorem template_two_wire_operators_are_cnots : forall t o, In t two_qubit_templates -> In o t -> multiwire o = true -> fst o = GCNOT.
Proof. exact templates_only_cnot. Qed.
Print Assumptions template_two_wire_operators_are_cnots.

Theorem cnot_count_additive : forall a b, cnot_count (a ++ b) = (cnot_count a + cnot_count b)%nat.
Proof. exact cnot_count_app. Qed.
Print Assumptions cnot_count_additive.

(* ---- interval arithmetic: x is enclosed by (lo, hi) when lo <= x * 2^60 <= hi *)
Theorem interval_add_sound : forall x y a b, inF x a -> inF y b -> inF (x + y) (fadd a b).
Proof. exact fadd_sound. Qed.
Print Assumptions interval_add_sound.

Theorem interval_mul_sound : forall x y a b, inF x a -> inF y b -> inF (x * y) (fmul a b).
Proof. exact fmul_sound. Qed.
Print Assumptions interval_mul_sound.

Theorem exact_rational_enclosed : forall a d, (0 < d)%Z -> inF (IZR a / IZR d) (f_of_qz (a, d)).
Proof. exact f_of_qz_sound. Qed.
Print Assumptions exact_rational_enclosed.

(* ---- the per-instance check: for ALL complex gate matrices and unitaries lying in the given enclosures, a passed check
   means every entry of (circuit - U) has squared modulus <= b2 / K^2.  c_capply / c_basis is the circuit semantics over
   Coquelicot's C that the symbolic engine (C10) is also proved against. *)
Theorem interval_check_sound : forall n gatesI gatesC UI UC b2,
  Forall2 gate_in gatesI gatesC ->
  Forall2 (Forall2 (fun a z => inC z a)) UI UC ->
  dist_check n gatesI UI b2 = true ->
  length UC = (2 ^ n)%nat /\
  forall c colC, nth_error UC c = Some colC ->
    Forall2 (fun g w => (Cmod2 (Cminus g w) * (KR * KR) <= IZR b2)%R) (c_capply n gatesC (c_basis n c)) colC.
Proof. exact SynthProofs.interval_check_sound. Qed.
Print Assumptions interval_check_sound.

Theorem distance_bound_meaning : forall z, (Cmod2 z * (KR * KR) <= IZR bound2)%R -> (Cmod2 z <= 1 / 100000000000000)%R.
Proof. exact interval_check_entry_bound. Qed.
Print Assumptions distance_bound_meaning.

(* ---- the check as evaluated per run (check_case of tie V): U is the EXACT matrix over Q(zeta_8) written in the case
   (z8C: a + b z + c z^2 + d z^3 with z = exp(i pi/4), rational a,b,c,d); the enclosure of sqrt(1/2) is verified by the
   check itself.  Only hypothesis left: the true gate matrices lie in the supplied gate enclosures. *)
Theorem check_dist_sound : forall x gatesC, check_dist x = true -> Forall2 gate_in (dc_gates x) gatesC ->
  forall c colX, nth_error (dc_U x) c = Some colX ->
    Forall2 (fun g w => (Cmod2 (Cminus g (z8C w)) <= 1 / 100000000000000)%R) (c_capply (dc_n x) gatesC (c_basis (dc_n x) c)) colX.
Proof. exact SynthProofs.check_dist_sound. Qed.
Print Assumptions check_dist_sound.

Theorem sqrt_half_enclosure_verified : forall h, half_ok h = true -> inF (sqrt (1 / 2)) h.
Proof. exact half_ok_sound. Qed.
Print Assumptions sqrt_half_enclosure_verified.

(* ---- template identities with formal angles: what a generated obligation means (for every real value of the angles) *)
Theorem template_identity_forall_angles :
  forall hz D n circ ows M cols, (0 < hz)%Z -> cols_ok hz n circ ows M cols = true ->
  forall (thetas : list R) c, In c cols ->
    c_capply n (map (evg (aenv hz D thetas)) circ) (c_basis n c)
    = c_apply_gate n ows (map (map (peval (aenv hz D thetas))) M) (c_basis n c).
Proof. exact cols_ok_forall. Qed.
Print Assumptions template_identity_forall_angles.

Theorem template_unitary_forall_angles : forall hz D M, (0 < hz)%Z -> is_unitary hz M = true ->
  forall thetas : list R, let Mc := map (map (peval (aenv hz D thetas))) M in c_mmul (c_madj Mc) Mc = c_mident (length M).
Proof. exact is_unitary_forall. Qed.
Print Assumptions template_unitary_forall_angles.

(* ---- non-vacuity *)
Example identity_circuit_accepted : dist_check 1 [] [[cone; czero]; [czero; cone]] bound2 = true.
Proof. vm_compute. reflexivity. Qed.
Example wrong_circuit_rejected : dist_check 1 [] [[czero; cone]; [cone; czero]] bound2 = false.
Proof. vm_compute. reflexivity. Qed.
Example three_cnot_skeleton_accepted : check_skel (ETwo, tmpl3 ++ [(GPhase, [])], 3%nat) = true.
Proof. vm_compute. reflexivity. Qed.
Example four_cnot_skeleton_rejected : check_skel (ETwo, tmpl3 ++ [(GCNOT, [0%nat; 1%nat])], 4%nat) = false.
Proof. vm_compute. reflexivity. Qed.
