From PLV Require Import Num.SynthModel.
Theorem placeholder_c14 : True. Proof. exact I. Qed.
