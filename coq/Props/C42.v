(* C42 Program capture round-trips quantum functions.
   Statements only; every proof is `exact <lemma>` from Disc/CaptureProofs.v.
   Model: Disc/CaptureModel.v --
     d_block fuel quirk : DIRECT tape semantics of a structured program (quirk = true: qp.ctrl(qfunc) in tape mode
                          exactly as coded, i.e. X flips on zero-valued control wires around an all-ones controlled
                          body when the body recorded > 1 op; quirk = false: every op controlled with the values);
     capture_block      : the plxpr the program is traced to (shape only; JAX tracing is an oracle);
     i_jaxpr            : the interpreter rules of plxpr_to_tape (CollectOpsandMeas / FlattenedInterpreter);
     flat_R             : expands CollectedSubroutine nodes (adjoint = reversed adjoints, ctrl = ctrl of each op).
   Outcomes are Ok (recorded ops, variables) | Err (Python exception) | Fuel (while-loop fuel exhausted); every
   statement below covers all three, so "static bounds / terminating loops" is not an extra hypothesis.
   NOT stated here (differential test only in the harness): equality of default.qubit results, and the second clause
   (decompose through its plxpr implementation vs on the tape). *)
From Coq Require Import List ZArith Bool.
From PLV Require Import Disc.ControlFlowModel Disc.CaptureModel Disc.CaptureProofs.
Import ListNotations.
Open Scope Z_scope.

(* ---- capture -> plxpr_to_tape = direct tape, for ALL programs, inputs, environments, fuel ---- *)
Theorem interp_capture_eq_direct : forall b fuel xs env,
  flat_R (i_jaxpr fuel xs (capture_block b) env) = d_block fuel false xs b env.
Proof. exact interp_capture_block. Qed.
Print Assumptions interp_capture_eq_direct.

(* when the captured tape contains no CollectedSubroutine node nothing needs expanding: the lists are identical *)
Theorem interp_capture_eq_direct_exact : forall b fuel xs env ops e,
  i_jaxpr fuel xs (capture_block b) env = Ok (ops, e) -> forallb sub_free ops = true ->
  d_block fuel false xs b env = Ok (ops, e).
Proof. exact interp_capture_exact. Qed.
Print Assumptions interp_capture_eq_direct_exact.

(* against the tape-mode code AS WRITTEN (with the X-flip quirk): same failure behaviour, same final variables and
   the same denotation in every semantics obeying the control-value law (sem_laws) *)
Theorem interp_capture_same_results_as_tape_mode : forall G mul one inv C den, sem_laws G mul one inv C den ->
  forall b fuel xs env,
  req G mul one den (d_block fuel true xs b env) (flat_R (i_jaxpr fuel xs (capture_block b) env)).
Proof. exact roundtrip_sem_laws. Qed.
Print Assumptions interp_capture_same_results_as_tape_mode.

Theorem tape_mode_ctrl_quirk_is_invisible : forall G mul one inv C den, sem_laws G mul one inv C den ->
  forall b fuel xs env,
  req G mul one den (d_block fuel true xs b env) (d_block fuel false xs b env).
Proof. exact quirk_sem_laws. Qed.
Print Assumptions tape_mode_ctrl_quirk_is_invisible.

(* ---- adjoint_transform: ops reversed and each adjointed; positions; nested adjoints restore the order ---- *)
Theorem adjoint_transform_reverses : forall fuel xs body env ops env',
  i_jaxpr fuel xs body env = Ok (ops, env') ->
  i_eqn fuel xs (JAdj body) env = Ok (map op_adj (rev ops), env).
Proof. exact adj_rule. Qed.
Print Assumptions adjoint_transform_reverses.

Theorem adjoint_transform_positions : forall (ops : list op) k d, (k < length ops)%nat ->
  nth k (map op_adj (rev ops)) d = op_adj (nth (length ops - 1 - k) ops d) /\
  length (map op_adj (rev ops)) = length ops.
Proof. exact adj_rule_nth. Qed.
Print Assumptions adjoint_transform_positions.

Theorem nested_adjoint_restores_order : forall fuel xs body env ops env',
  i_jaxpr fuel xs body env = Ok (ops, env') ->
  i_eqn fuel xs (JAdj (JCons (JAdj body) JNil)) env = Ok (map (fun o => op_adj (op_adj o)) ops, env).
Proof. exact adj_rule_nested. Qed.
Print Assumptions nested_adjoint_restores_order.

(* ---- ctrl_transform: every op controlled with the given wires / values (as the OUTER controls), order kept ---- *)
Theorem ctrl_transform_wraps : forall fuel xs cw cv body env ops env',
  i_jaxpr fuel xs body env = Ok (ops, env') ->
  i_eqn fuel xs (JCtrl cw cv body) env = Ok (map (op_ctrl cw cv) ops, env).
Proof. exact ctrl_rule. Qed.
Print Assumptions ctrl_transform_wraps.

Theorem ctrl_transform_each_op : forall cw cv (ops : list op) k d, (k < length ops)%nat ->
  length (map (op_ctrl cw cv) ops) = length ops /\
  exists cw' cv' base, nth k (map (op_ctrl cw cv) ops) d = OCtrl (cw ++ cw') (cv_resolve cw cv ++ cv') base /\
    (nth k ops d = base /\ cw' = [] /\ cv' = [] \/ nth k ops d = OCtrl cw' cv' base).
Proof. exact ctrl_rule_nth. Qed.
Print Assumptions ctrl_transform_each_op.

(* ---- for_loop: unrolled over Python's range(start, stop, step) (py_range: see C43), carried value folded ---- *)
Theorem for_loop_unrolls_like_range : forall fuel xs lo hi step init upd body env l (g : Z -> list op),
  py_range (eval lo env) (eval hi env) (eval step env) = Some l ->
  (forall i a, exists e', i_jaxpr fuel xs body (i :: a :: env) = Ok (g i, e')) ->
  i_eqn fuel xs (JFor lo hi step init upd body) env
  = Ok (flat_map g l, fold_left (fun a i => eval upd (i :: a :: env)) l (eval init env) :: env).
Proof. exact for_rule. Qed.
Print Assumptions for_loop_unrolls_like_range.

Theorem for_loop_zero_step_raises : forall fuel xs lo hi step init upd body env,
  eval step env = 0 -> i_eqn fuel xs (JFor lo hi step init upd body) env = Err.
Proof. exact for_rule_step0. Qed.
Print Assumptions for_loop_zero_step_raises.

(* ---- non-vacuity ---- *)
(* the semantic hypotheses are satisfiable by a non-trivial semantics (signed count of non-X leaf gates in (Z,+)) *)
Example sem_laws_satisfiable : sem_laws Z Z.add 0 Z.opp (fun _ g => g) cnt.
Proof. exact cnt_laws. Qed.

(* a concrete program: for i in range(0,3): RX(i/8) on wire i; ctrl(control=[3], values=[0]) of (S(0); CNOT(0,1));
   adjoint of a captured subroutine -- tape mode queues X(3) .. X(3), the captured tape does not, and its
   subroutine node expands to the reversed adjoints *)
Definition ex_prog : qblock :=
  QCons (PFor (EConst 0) (EConst 3) (EConst 1) (EConst 0) (EVar 1)
              (QCons (POp 0 [EVar 0] [(0, 0%nat, EVar 0)]) QNil))
 (QCons (PCtrl [3] (Some [false]) (QCons (POp 8 [EConst 0] []) (QCons (POp 10 [EConst 0; EConst 1] []) QNil)))
 (QCons (PAdj (QCons (PCall true 7 (QCons (POp 9 [EConst 0] []) (QCons (POp 7 [EConst 1] []) QNil))) QNil))
  QNil)).
Example ex_direct : run_direct ex_prog [] [] 5 =
  (0, [Gate 0 [0] [0]; Gate 0 [1] [1]; Gate 0 [2] [2];
       Gate 4 [3] []; OCtrl [3] [true] (Gate 8 [0] []); OCtrl [3; 0] [true; true] (Gate 4 [1] []); Gate 4 [3] [];
       OAdj (Gate 7 [1] []); OAdj (Gate 9 [0] [])]).
Proof. vm_compute. reflexivity. Qed.
Example ex_capture : run_capture ex_prog [] [] 5 =
  (0, [Gate 0 [0] [0]; Gate 0 [1] [1]; Gate 0 [2] [2];
       OCtrl [3] [false] (Gate 8 [0] []); OCtrl [3; 0] [false; true] (Gate 4 [1] []);
       OAdj (OSub 7 [Gate 9 [0] []; Gate 7 [1] []])]).
Proof. vm_compute. reflexivity. Qed.
