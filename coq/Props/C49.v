(* C49 Quantum-information functions match their definitions.
   Statements only; every proof is `exact <lemma>` from Num/QInfoProofs.v.
   Exact model: matrices = quad-trees over Gaussian rationals (wf n t: t is a 2^n x 2^n matrix), state vectors =
   binary trees (vwf n v); teq / ceq / == are entrywise equality of rationals.
   Everything below holds for ALL qubit numbers n unless the name carries a bound (_le3).
   NOT proved here (validated numerically by the harness only): von Neumann / max / min entropy, mutual information,
   relative entropy, trace distance, mixed-state fidelity and their inequalities. *)
From Coq Require Import List ZArith QArith Bool Arith.
From PLV Require Import Num.QInfoModel Num.QInfoProofs.
Import ListNotations.
Local Close Scope Q_scope.
Local Open Scope nat_scope.

(* ---------------------------------------------------------------- partial trace / reduce_dm *)
(* the transcribed loop of partial_trace (sort, shifted target index, one einsum per wire) preserves the trace,
   for every index list *)
Theorem partial_trace_trace_preserved : forall n t idxs, wf n t ->
  ceq (ttrace (partial_trace t idxs)) (ttrace t).
Proof. exact partial_trace_trace. Qed.
Print Assumptions partial_trace_trace_preserved.

(* ... and equals the mask contraction: trace out exactly the wires in idxs (distinct, in range, any order) *)
Theorem partial_trace_is_mask_contraction : forall n t idxs, wf n t ->
  strictb (isort idxs) = true -> Forall (fun x => x < n) idxs ->
  teq (partial_trace t idxs) (ptrace_mask (mask_of n idxs) t).
Proof. exact partial_trace_mask. Qed.
Print Assumptions partial_trace_is_mask_contraction.

(* entries of the mask contraction are the explicit index-contraction sum over the traced bits *)
Theorem mask_contraction_entries : forall m n t r c, length m = n -> wf n t ->
  length r = count_false m -> length c = count_false m ->
  ceq (tget (ptrace_mask m t) r c)
      (csum (map (fun s => tget t (interleave m r s) (interleave m c s)) (all_bits (count_true m)))).
Proof. exact ptm_contraction. Qed.
Print Assumptions mask_contraction_entries.

(* reduce_dm, kept wires listed in increasing order (not all wires): explicit contraction *)
Theorem reduce_dm_is_contraction_sorted : forall n t ix r c, wf n t -> strictb ix = true -> length ix <> n ->
  length r = count_false (traced_mask n ix) -> length c = count_false (traced_mask n ix) ->
  ceq (tget (reduce_dm n t ix) r c) (contraction (traced_mask n ix) t r c).
Proof. exact reduce_dm_sorted_contraction. Qed.
Print Assumptions reduce_dm_is_contraction_sorted.

(* reduce_dm, kept wires in any other order (distinct; `length ix = count_false ..` says they are in range):
   output bit j is wire ix[j], i.e. the contraction is read at the re-ordered bit strings *)
Theorem reduce_dm_is_contraction_unsorted : forall n t ix r c, wf n t -> strictb (isort ix) = true ->
  length ix <> n -> list_eqb (isort ix) ix = false ->
  length ix = count_false (traced_mask n ix) -> length r = length ix -> length c = length ix ->
  ceq (tget (reduce_dm n t ix) r c)
      (contraction (traced_mask n ix) t (gather (isort ix) ix r) (gather (isort ix) ix c)).
Proof. exact reduce_dm_unsorted_contraction. Qed.
Print Assumptions reduce_dm_is_contraction_unsorted.

(* tr(reduce_dm rho) = tr(rho).  PARTIAL: proved for kept wires listed in increasing order; for other orders the
   result is the axes permutation of this one (reduce_dm_unsorted, entry formula above) whose trace invariance
   (a re-indexing of the diagonal sum) is not mechanised. *)
Theorem reduce_dm_trace_preserved_partial : forall n t ix, wf n t -> strictb ix = true -> length ix <> n ->
  ceq (ttrace (reduce_dm n t ix)) (ttrace t).
Proof. exact reduce_dm_sorted_trace. Qed.
Print Assumptions reduce_dm_trace_preserved_partial.

(* tracing out A (mask m1) and then B (mask m2 on the remaining wires) = tracing out A u B at once *)
Theorem partial_trace_compose : forall m1 n t m2, length m1 = n -> length m2 = count_false m1 -> wf n t ->
  teq (ptrace_mask m2 (ptrace_mask m1 t)) (ptrace_mask (mask_merge m1 m2) t).
Proof. exact ptm_compose. Qed.
Print Assumptions partial_trace_compose.

(* hence the order in which two sets of wires are traced out does not matter *)
Theorem partial_trace_order_independent : forall n t m1 m2 m1' m2', wf n t ->
  length m1 = n -> length m2 = count_false m1 -> length m1' = n -> length m2' = count_false m1' ->
  mask_merge m1 m2 = mask_merge m1' m2' ->
  teq (ptrace_mask m2 (ptrace_mask m1 t)) (ptrace_mask m2' (ptrace_mask m1' t)).
Proof. exact ptm_order_independent. Qed.
Print Assumptions partial_trace_order_independent.

(* reduced states of a product: rho_A (x) rho_B reduced to A gives tr(rho_B) rho_A, reduced to B gives tr(rho_A) rho_B *)
Theorem reduce_dm_of_product : forall k j A B, wf k A -> wf j B ->
  (0 < j -> teq (reduce_dm (k + j) (tkron A B) (seq 0 k)) (tscale (ttrace B) A)) /\
  (0 < k -> teq (reduce_dm (k + j) (tkron A B) (seq k j)) (tscale (ttrace A) B)).
Proof.
  intros k j A B HA HB; split; intros H;
    [exact (reduce_dm_product_left k j A B HA HB H) | exact (reduce_dm_product_right k j A B HA HB H)].
Qed.
Print Assumptions reduce_dm_of_product.

(* reduce_statevector's joint einsum = partial trace of |psi><psi| (before the final axes permutation);
   dm_from_state_vector = |psi><psi| *)
Theorem reduce_statevector_is_partial_trace_of_projector : forall m n u v, length m = n -> vwf n u -> vwf n v ->
  rsv m u v = ptrace_mask m (vouter u v).
Proof. exact rsv_is_ptm. Qed.
Print Assumptions reduce_statevector_is_partial_trace_of_projector.

Theorem dm_from_state_vector_is_outer : forall n psi, vwf n psi ->
  dm_from_state_vector n psi = vouter psi (vconj psi).
Proof. exact dm_from_state_vector_outer. Qed.
Print Assumptions dm_from_state_vector_is_outer.

(* ---------------------------------------------------------------- expand_matrix *)
(* the axes transposition of _permute_dense_matrix is the tensor re-indexing r |-> gather wires wire_order r *)
Theorem permute_dense_is_reindexing : forall t wires wo r c, length r = length wo -> length c = length wo ->
  list_eqb wires wo = false ->
  tget (permute_dense t wires wo) r c = tget t (gather wires wo r) (gather wires wo c).
Proof. exact permute_dense_entry. Qed.
Print Assumptions permute_dense_is_reindexing.

(* entries of the Kronecker factors used by expand_matrix.  PARTIAL for `expand_matrix_is_reindexing`: the three
   entry laws (permutation, Kronecker product, identity) are proved for all sizes; their composition along the
   branches of expand_matrix is compared with the explicit re-indexing only by the correspondence run. *)
Theorem expand_matrix_is_reindexing_partial :
  (forall k s t r1 c1 r2 c2, wf k s -> length r1 = k -> length c1 = k ->
     ceq (tget (tkron s t) (r1 ++ r2) (c1 ++ c2)) (cmul (tget s r1 c1) (tget t r2 c2))) /\
  (forall n r c, length r = n -> length c = n -> tget (teye n) r c = if bits_eqb r c then c1 else c0) /\
  (forall n f r c, length r = n -> length c = n -> tget (tbuild n f) r c = f r c) /\
  (forall n t, wf n t -> tbuild n (tget t) = t).
Proof. exact (conj tget_tkron (conj tget_teye (conj tget_tbuild tbuild_tget))). Qed.
Print Assumptions expand_matrix_is_reindexing_partial.

(* on an ordered contiguous block of wires expand_matrix is I_p (x) M (x) I_q  (all sizes up to 3+3+3 wires) *)
Theorem expand_matrix_contiguous_is_kron_le3 : forall p k q t, p <= 3 -> 1 <= k <= 3 -> q <= 3 ->
  expand_matrix t (seq p k) (Some (seq 0 (p + k + q))) = expand_contiguous_spec p q t.
Proof. exact expand_matrix_contiguous_le3. Qed.
Print Assumptions expand_matrix_contiguous_is_kron_le3.

(* Kronecker expansion with identities is multiplicative and unital, for all sizes *)
Theorem expand_matrix_hom : forall p q n A B, wf n A -> wf n B ->
  teq (expand_contiguous_spec p q (tmul A B))
      (tmul (expand_contiguous_spec p q A) (expand_contiguous_spec p q B)).
Proof. exact expand_contiguous_hom. Qed.
Print Assumptions expand_matrix_hom.

Theorem expand_matrix_unit : forall p q, teq (tkron (teye p) (teye q)) (teye (p + q)).
Proof. exact kron_eye_eye. Qed.
Print Assumptions expand_matrix_unit.

(* the same for the transcribed expand_matrix itself (bounded sizes) *)
Theorem expand_matrix_hom_le3 : forall p k q A B, p <= 3 -> 1 <= k <= 3 -> q <= 3 -> wf k A -> wf k B ->
  teq (expand_matrix (tmul A B) (seq p k) (Some (seq 0 (p + k + q))))
      (tmul (expand_matrix A (seq p k) (Some (seq 0 (p + k + q))))
            (expand_matrix B (seq p k) (Some (seq 0 (p + k + q))))).
Proof. exact expand_matrix_hom_contiguous_le3. Qed.
Print Assumptions expand_matrix_hom_le3.

(* expanding by k further wires and reducing back gives 2^k times the operator *)
Theorem expand_then_reduce : forall n k A, wf n A ->
  teq (ptrace_mask (repeat false n ++ repeat true k) (tkron A (teye k))) (tscale (cofq (qpow2 k)) A).
Proof. exact expand_then_reduce_kron. Qed.
Print Assumptions expand_then_reduce.

(* ---------------------------------------------------------------- pure-state fidelity, purity *)
Theorem pure_fidelity_symmetric : forall n u v, vwf n u -> vwf n v ->
  (fidelity_statevector u v == fidelity_statevector v u)%Q.
Proof. exact fidelity_sym. Qed.
Print Assumptions pure_fidelity_symmetric.

(* F = |<phi|psi>|^2 by definition of the model; 0 <= F <= <psi|psi><phi|phi> (Cauchy-Schwarz), so F in [0,1]
   for normalised states *)
Theorem pure_fidelity_bounds : forall n u v, vwf n u -> vwf n v ->
  (0 <= fidelity_statevector u v)%Q /\
  (fidelity_statevector u v <= vnorm2 u * vnorm2 v)%Q /\
  ((vnorm2 u == 1)%Q -> (vnorm2 v == 1)%Q -> (fidelity_statevector u v <= 1)%Q).
Proof.
  intros n u v Hu Hv; split; [exact (fidelity_nonneg u v) | split;
    [exact (fidelity_le_norms n u v Hu Hv) | exact (fidelity_le_1 n u v Hu Hv)]].
Qed.
Print Assumptions pure_fidelity_bounds.

Theorem purity_of_pure_state_is_one : forall n psi, vwf n psi ->
  (compute_purity (dm_from_state_vector n psi) == vnorm2 psi * vnorm2 psi)%Q /\
  ((vnorm2 psi == 1)%Q -> (compute_purity (vouter psi (vconj psi)) == 1)%Q).
Proof.
  intros n psi H; split; [exact (purity_of_dm_from_state_vector n psi H) | exact (purity_pure_normalised n psi H)].
Qed.
Print Assumptions purity_of_pure_state_is_one.

(* ---------------------------------------------------------------- non-vacuity *)
Example hyps_satisfiable :
  let psi := VN (VN (VL (1 # 2, 1 # 2)%Q) (VL c0)) (VN (VL c0) (VL (1 # 2, -1 # 2)%Q)) in
  let rho := dm_from_state_vector 2 psi in
  vwf 2 psi /\ wf 2 rho /\ (vnorm2 psi == 1)%Q /\ strictb (isort [1; 0]) = true /\
  list_eqb (isort [1; 0]) [1; 0] = false /\ length [0] = count_false (traced_mask 2 [0]) /\
  cmat_eqb (rows_of_qt 1 (reduce_dm 2 rho [1%nat])) [[(1 # 2, 0)%Q; c0]; [c0; (1 # 2, 0)%Q]] = true /\
  (compute_purity (reduce_dm 2 rho [1%nat]) == 1 # 2)%Q.
Proof. vm_compute. repeat split; reflexivity. Qed.
