From Coq Require Import List ZArith QArith.
From PLV Require Import Num.QInfoModel Num.QInfoProofs.
Theorem stub : True. Proof. exact stub_true. Qed.
Print Assumptions stub.
