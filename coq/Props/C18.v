(* C18 Transforms never modify their input circuit.
   Statements only; every proof is `exact <lemma>` from Disc/AliasProofs.v.
   The theorems are about the heap model Disc/AliasModel.v of QuantumScript's list aliasing (tape.operations
   returns the tape's own list object; QuantumScript.copy; the list idioms used by the transforms); the model is
   tied to /repo on every run by executing the same idiom programs on real QuantumScript objects.  The behaviour
   of the individual transforms is covered by the differential part of the check, not by these theorems. *)
From Coq Require Import List ZArith Bool Lia.
From PLV Require Import Disc.AliasModel Disc.AliasProofs.
Import ListNotations.
Open Scope Z_scope.

(* the good idiom: `ops = tape.operations.copy()` (or list(...), [:]) followed by ANY sequence of in-place
   mutations of `ops` (pop/del/insert/append/setitem/reverse/clear, raising or not): every tape of every
   well-formed heap reads exactly as before (operations, measurements, trainable params, shots) *)
Theorem copy_then_mutate_preserves_input : forall s e t x y muts s' e' ok,
  wf s ->
  run (CGetOps x t :: CCopyList y x :: map (CMut y) muts) (s, e) = (s', e', ok) ->
  forall t0, read_tape s' t0 = read_tape s t0.
Proof. exact copy_then_mutate. Qed.
Print Assumptions copy_then_mutate_preserves_input.

Theorem copy_measurements_then_mutate_preserves_input : forall s e t x y muts s' e' ok,
  wf s ->
  run (CGetMeas x t :: CCopyList y x :: map (CMut y) muts) (s, e) = (s', e', ok) ->
  forall t0, read_tape s' t0 = read_tape s t0.
Proof. exact copy_meas_then_mutate. Qed.
Print Assumptions copy_measurements_then_mutate_preserves_input.

(* the bad idiom (`list_copy = tape.operations; list_copy.pop(0)`, as merge_rotations did before repair):
   for EVERY heap and every tape with a non-empty operations list the caller's tape loses its first operation *)
Theorem alias_mutation_changes_input : forall s e t tp x v ops,
  nth_error (tapes s) t = Some tp -> h_get (lists s) (t_ops tp) = Some (v :: ops) ->
  exists s' e', run [CGetOps x t; CMut x (MPop 0)] (s, e) = (s', e', true) /\
                tape_ops s' t = Some ops /\ tape_ops s t = Some (v :: ops).
Proof. exact alias_pop_changes. Qed.
Print Assumptions alias_mutation_changes_input.

(* QuantumScript.copy(copy_operations, **update), all argument combinations: the new tape's operations and
   measurements lists are FRESH distinct list objects (content = the update, or the source's content); every
   existing list object is untouched; shots are shared/updated; the only pre-existing list object the copy
   can reference is the source's own _trainable_params list, and only when neither operations, measurements
   nor trainable_params were updated. *)
Theorem qscript_copy_shares_only_immutables : forall s e t tp uo um us ut co s' e',
  wf s -> nth_error (tapes s) t = Some tp ->
  exec (CTapeCopy t uo um us ut co) (s, e) = Some (s', e') ->
  exists tp', tapes s' = tapes s ++ [tp'] /\ e' = e /\
    (length (lists s) <= t_ops tp')%nat /\ (length (lists s) <= t_meas tp')%nat /\ t_ops tp' <> t_meas tp' /\
    (t_ops tp' < length (lists s'))%nat /\ (t_meas tp' < length (lists s'))%nat /\
    (forall a, t_tp tp' = Some a -> (a < length (lists s'))%nat) /\
    (forall a, t_tp tp' = Some a -> (a < length (lists s))%nat ->
               uo = None /\ um = None /\ ut = None /\ t_tp tp = Some a) /\
    t_shots tp' = match us with Some v => v | None => t_shots tp end /\
    (forall b, (b < length (lists s))%nat -> h_get (lists s') b = h_get (lists s) b) /\
    (uo = None -> h_get (lists s') (t_ops tp') = h_get (lists s) (t_ops tp)) /\
    (um = None -> h_get (lists s') (t_meas tp') = h_get (lists s) (t_meas tp)).
Proof. exact tape_copy_spec. Qed.
Print Assumptions qscript_copy_shares_only_immutables.

(* `new_tape = tape.copy(...)` and then any in-place mutation of new_tape.operations: all old tapes read as before *)
Theorem tape_copy_then_mutate_preserves_input : forall s e t uo um us ut co x muts s' e' ok,
  wf s ->
  run (CTapeCopy t uo um us ut co :: CGetOps x (length (tapes s)) :: map (CMut x) muts) (s, e) = (s', e', ok) ->
  forall t0, (t0 < length (tapes s))%nat -> read_tape s' t0 = read_tape s t0.
Proof. exact tape_copy_then_mutate. Qed.
Print Assumptions tape_copy_then_mutate_preserves_input.

(* the one in-place write of CompilePipeline (`tape.trainable_params = argnums[i]`) is executed only when a
   cotransform cache supplied argnums; without it the prologue is the empty program ... *)
Theorem pipeline_sets_trainable_only_with_cotransform : forall t se,
  run (pipeline_prologue None t) se = (se, true).
Proof. exact pipeline_prologue_none. Qed.
Print Assumptions pipeline_sets_trainable_only_with_cotransform.

(* ... and with argnums it does overwrite the caller's tape attribute (the documented exception) *)
Theorem pipeline_with_cotransform_writes_input : forall l t s e tp n,
  nth_error (tapes s) t = Some tp -> npar_of s tp = Some n ->
  existsb (fun i => (i <? 0) || (n <? i)) l = false ->
  exists s' e', run (pipeline_prologue (Some l) t) (s, e) = (s', e', true) /\
    tape_tp s' t = Some (Some (sorted_set l)).
Proof. exact pipeline_prologue_some_writes. Qed.
Print Assumptions pipeline_with_cotransform_writes_input.

(* non-vacuity / witnesses *)
Definition ex_state := init_state [([10; 11; 12], [0], Some 100, Some [0; 2])].

Example ex_state_wf : wf ex_state.
Proof.
  intros t tp H. destruct t as [|[|t]]; cbn in H; try discriminate.
  inversion H; subst; cbn. repeat split; try lia. intros a Ha. inversion Ha. lia.
Qed.

(* good idiom on a concrete tape: the caller reads the same *)
Example good_idiom_witness :
  let '(s', _, ok) := run [CGetOps 0%nat 0%nat; CCopyList 1%nat 0%nat; CMut 1%nat (MPop 0); CMut 1%nat (MInsert 5 7)] (ex_state, []) in
  ok = true /\ read_tape s' 0%nat = read_tape ex_state 0%nat /\ tape_ops s' 0%nat = Some [10; 11; 12].
Proof. vm_compute. repeat split. Qed.

(* bad idiom on the same tape: the caller's tape changed *)
Example bad_idiom_witness :
  let '(s', _, ok) := run [CGetOps 0%nat 0%nat; CMut 0%nat (MPop 0); CMut 0%nat (MInsert 5 7)] (ex_state, []) in
  ok = true /\ tape_ops s' 0%nat = Some [11; 12; 7] /\ tape_ops ex_state 0%nat = Some [10; 11; 12].
Proof. vm_compute. repeat split. Qed.

(* caveat made explicit: a plain tape.copy() shares the _trainable_params LIST OBJECT, so an in-place mutation
   of copy.trainable_params is visible through the original (the setter rebinds, it never mutates in place) *)
Example copy_shares_trainable_list_witness :
  let '(s', _, ok) := run [CTapeCopy 0%nat None None None None false; CGetTP 0%nat 1%nat; CMut 0%nat (MAppend 1)] (ex_state, []) in
  ok = true /\ tape_tp s' 0%nat = Some (Some [0; 2; 1]) /\ tape_tp ex_state 0%nat = Some (Some [0; 2]).
Proof. vm_compute. repeat split. Qed.
