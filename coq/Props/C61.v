(* C61 Optimizers apply their documented update rules.
   Statements only; every proof is `exact <lemma>` from Num/OptimizersProofs.v.
   Vocabulary (Num/OptimizersModel.v): an argument is (requires_grad, flat vector); `run k h nm orc n t0 args st`
   performs n calls of opt.step with the step-indexed gradient oracle orc, `trace ...` is the list of gradient
   tuples the optimizer received, `gseq r c tr` coordinate c of the r-th gradient of each tuple, rank i args the
   position of argument i's gradient in the tuple, acc1/acc2 the accumulator entries of argument i, coord c v the
   c-th entry of v; nm = (sqrt, rounding of the quotient term) is arbitrary. *)
From Coq Require Import List QArith Reals.
From PLV Require Import Num.OptimizersModel Num.OptimizersProofs.
Import ListNotations.
Open Scope Q_scope.

(* x_n = x_0 - eta * sum_i g_i  (every trainable argument, every coordinate, any oracle, any start state) *)
Theorem gd_closed_form : forall h nm orc n t0 args st i c, trainable i args = true ->
  coord c (argv i (fst (run GD h nm orc n t0 args st))) ==
  coord c (argv i args) - eta h * qsum (gseq (rank i args) c (trace GD h nm orc n t0 args st)).
Proof. exact gd_closed. Qed.
Print Assumptions gd_closed_form.

(* a_n = m^n a_0 + sum_i m^(n-i) * eta * g_i  (Momentum and Nesterov; a_0 = 0 on a fresh/reset optimizer) *)
Theorem momentum_acc_closed_form : forall k h nm orc n t0 args st i c, k = Momentum \/ k = Nesterov ->
  trainable i args = true ->
  coord c (acc1 i (snd (run k h nm orc n t0 args st))) ==
  qpow (gam h) n * coord c (acc1 i st) +
  wsum (gam h) (map (fun g => eta h * g) (gseq (rank i args) c (trace k h nm orc n t0 args st))).
Proof. exact momentum_acc_closed. Qed.
Print Assumptions momentum_acc_closed_form.

(* x^(t+1) = x^(t) - a^(t+1) *)
Theorem momentum_param_update : forall k h nm gradf args st i c, k = Momentum \/ k = Nesterov ->
  trainable i args = true ->
  coord c (argv i (fst (step k h nm gradf args st))) ==
  coord c (argv i args) - coord c (acc1 i (snd (step k h nm gradf args st))).
Proof. exact momentum_step_arg. Qed.
Print Assumptions momentum_param_update.

(* the j-th gradient of a history is the oracle's answer at the query point of the j-th state, and for Nesterov that
   point is x - m * a on trainable arguments (a = 0 while the memory is empty), x itself on the others *)
Theorem nesterov_uses_lookahead_gradient : forall h nm orc n t0 args st j, (j < n)%nat ->
  let aj := fst (run Nesterov h nm orc j t0 args st) in
  let sj := snd (run Nesterov h nm orc j t0 args st) in
  nth j (trace Nesterov h nm orc n t0 args st) [] = orc (t0 + j)%nat (query Nesterov h aj sj) /\
  forall i c, coord c (argv i (query Nesterov h aj sj)) ==
              if trainable i aj then coord c (argv i aj) - gam h * coord c (acc1 i sj) else coord c (argv i aj).
Proof. intros; split; [now apply trace_nth | intros; apply nesterov_query]. Qed.
Print Assumptions nesterov_uses_lookahead_gradient.

(* all other optimizers ask the oracle at the current arguments *)
Theorem others_query_current_point : forall k h args st, k <> Nesterov \/ st = None -> query k h args st = args.
Proof. exact query_id. Qed.
Print Assumptions others_query_current_point.

Theorem adagrad_acc_is_sum_squares : forall h nm orc n t0 args st i c, trainable i args = true ->
  coord c (acc1 i (snd (run Adagrad h nm orc n t0 args st))) ==
  coord c (acc1 i st) + qsum (map (fun g => g * g) (gseq (rank i args) c (trace Adagrad h nm orc n t0 args st))).
Proof. exact adagrad_acc_closed. Qed.
Print Assumptions adagrad_acc_is_sum_squares.

Theorem rmsprop_acc_recurrence_closed_form : forall h nm orc n t0 args st i c, trainable i args = true ->
  coord c (acc1 i (snd (run RMSProp h nm orc n t0 args st))) ==
  qpow (gam h) n * coord c (acc1 i st) +
  wsum (gam h) (map (fun g => (1 - gam h) * (g * g)) (gseq (rank i args) c (trace RMSProp h nm orc n t0 args st))).
Proof. exact rmsprop_acc_closed. Qed.
Print Assumptions rmsprop_acc_recurrence_closed_form.

Theorem adam_moments_closed_form : forall h nm orc n t0 args st i c, trainable i args = true ->
  let tr := trace Adam h nm orc n t0 args st in
  coord c (acc1 i (snd (run Adam h nm orc n t0 args st))) ==
    qpow (gam h) n * coord c (acc1 i st) + wsum (gam h) (map (fun g => (1 - gam h) * g) (gseq (rank i args) c tr)) /\
  coord c (acc2 i (snd (run Adam h nm orc n t0 args st))) ==
    qpow (beta2 h) n * coord c (acc2 i st) + wsum (beta2 h) (map (fun g => (1 - beta2 h) * (g * g)) (gseq (rank i args) c tr)) /\
  st_t (snd (run Adam h nm orc n t0 args st)) = (n + st_t st)%nat.
Proof. intros; repeat split; [now apply adam_fm_closed | now apply adam_sm_closed | apply run_t]. Qed.
Print Assumptions adam_moments_closed_form.

(* bias correction: (a) under a constant gradient the moments are (1 - beta^n) g and (1 - beta2^n) g^2 - the factors
   the step size divides out; (b) for any multiplicative square root the rescaled step size is the textbook
   bias-corrected update  eta * mhat / (sqrt vhat + eps / sqrt(1 - beta2^t)) *)
Theorem adam_bias_correction :
  (forall alpha g (phi : Q -> Q) l, (forall x, In x l -> phi x == phi g) ->
     wsum alpha (map (fun x => (1 - alpha) * phi x) l) == (1 - qpow alpha (length l)) * phi g) /\
  (forall h (sq : Q -> Q) t f v,
     (forall a b, sq (a * b) == sq a * sq b) -> Proper (Qeq ==> Qeq) sq ->
     ~ 1 - qpow (gam h) t == 0 -> ~ 1 - qpow (beta2 h) t == 0 -> ~ sq (1 - qpow (beta2 h) t) == 0 -> ~ sq v + eps h == 0 ->
     adam_stepsize h sq t * f / (sq v + eps h) ==
     eta h * (f / (1 - qpow (gam h) t)) / (sq (v / (1 - qpow (beta2 h) t)) + eps h / sq (1 - qpow (beta2 h) t))).
Proof. split; [exact wsum_const | exact adam_bias_algebra]. Qed.
Print Assumptions adam_bias_correction.

(* parameter updates of the square-root optimizers (rnd = identity is the documented formula) *)
Theorem adagrad_rmsprop_update_formula : forall k h nm gradf args st i c, k = Adagrad \/ k = RMSProp -> good_rnd nm ->
  trainable i args = true ->
  coord c (argv i (fst (step k h nm gradf args st))) ==
  coord c (argv i args) -
  rnd nm (eta h / sq nm (coord c (acc1 i (snd (step k h nm gradf args st))) + eps h)
          * coord c (nth (rank i args) (gradf (query k h args st)) [])).
Proof. exact adagrad_like_update. Qed.
Print Assumptions adagrad_rmsprop_update_formula.

Theorem adam_update_formula : forall h nm gradf args st i c, good_rnd nm -> trainable i args = true ->
  coord c (argv i (fst (step Adam h nm gradf args st))) ==
  coord c (argv i args) -
  rnd nm (adam_stepsize h (sq nm) (S (st_t st)) * coord c (acc1 i (snd (step Adam h nm gradf args st)))
          / (sq nm (coord c (acc2 i (snd (step Adam h nm gradf args st)))) + eps h)).
Proof. exact adam_update. Qed.
Print Assumptions adam_update_formula.

(* step_and_cost performs exactly the update of step ... *)
Theorem step_and_cost_same_update : forall k h nm ag gradf costf args st,
  fst (step_and_cost k h nm ag gradf costf args st) = step k h nm gradf args st.
Proof. exact sc_same_update. Qed.
Print Assumptions step_and_cost_same_update.

(* ... and returns the cost at the pre-step arguments, for every optimizer except Nesterov with grad_fn=None on a
   non-empty memory *)
Theorem step_and_cost_returns_prestep_cost_partial : forall k h nm ag gradf costf args st,
  k <> Nesterov \/ ag = false \/ st = None ->
  snd (step_and_cost k h nm ag gradf costf args st) = costf args.
Proof. exact sc_prestep. Qed.
Print Assumptions step_and_cost_returns_prestep_cost_partial.

(* the faithful model REFUTES the clause for NesterovMomentumOptimizer with grad_fn=None: the value returned is the
   objective at the look-ahead point *)
Theorem nesterov_step_and_cost_prestep_refuted :
  exists h gradf costf args st, ~ snd (step_and_cost Nesterov h nm_id true gradf costf args st) == costf args.
Proof. exact nesterov_sc_refuted. Qed.
Print Assumptions nesterov_step_and_cost_prestep_refuted.

Theorem nontrainable_untouched : forall k h nm orc n t0 args st i,
  trainable i args = false -> nth i (fst (run k h nm orc n t0 args st)) dflt_arg = nth i args dflt_arg.
Proof. exact run_untouched. Qed.
Print Assumptions nontrainable_untouched.

(* argument i is updated from ITS gradient (the rank(i)-th of the tuple) and ITS accumulator entry only, by the
   optimizer's per-argument rule; flags and the number of arguments are preserved *)
Theorem multi_arg_independent : forall k h nm gradf args st i,
  let g := nth (rank i args) (gradf (query k h args st)) [] in
  let u := upd k h nm (S (st_t st)) (argv i args) g (acc1 i st, acc2 i st) in
  nth i (fst (step k h nm gradf args st)) dflt_arg = (if trainable i args then (true, fst u) else nth i args dflt_arg) /\
  (acc1 i (snd (step k h nm gradf args st)), acc2 i (snd (step k h nm gradf args st))) =
    (if trainable i args then snd u else (acc1 i st, acc2 i st)) /\
  map fst (fst (step k h nm gradf args st)) = map fst args.
Proof. intros; repeat split; [apply step_arg | apply step_acc | apply step_flags]. Qed.
Print Assumptions multi_arg_independent.

(* reset() erases the memory: every accumulator coordinate restarts from 0 and Adam's t from 0 *)
Theorem reset_forgets : forall st i c,
  reset st = None /\ coord c (acc1 i (reset st)) = 0 /\ coord c (acc2 i (reset st)) = 0 /\ st_t (reset st) = 0%nat.
Proof. intros; repeat split; apply acc_fresh. Qed.
Print Assumptions reset_forgets.

(* the rational square root used by the correspondence run encloses the real one *)
Theorem qsqrt_encloses : forall p x, 0 < x ->
  let lo := qsqrt p x in let hi := lo + (1 # (Qden x * 2 ^ p)) in
  0 <= lo /\ lo * lo <= x /\ x < hi * hi.
Proof. exact qsqrt_enclosure. Qed.
Print Assumptions qsqrt_encloses.

(* Rotoselect keeps a candidate whose optimum is <= the initial cost and <= every other candidate's optimum *)
Theorem rotoselect_picks_minimum : forall cands bi bt bc i,
  let r := roto_select bi bt bc i cands in
  snd r <= bc /\ (forall th c, In (th, c) cands -> snd r <= c).
Proof. exact roto_select_min. Qed.
Print Assumptions rotoselect_picks_minimum.

(* Rotosolve (min_analytic transcribed as roto_xmin / roto_ymin; Rotoselect._rotosolve is the case freq = 1):
   for every single-frequency sinusoid the closed-form angle is a global minimiser and y_min is the minimum *)
Theorem rotosolve_minimises : forall (f : R -> R) (C p q freq : R), (0 < freq)%R ->
  (forall t, f t = C + p * sin (freq * t) + q * cos (freq * t))%R ->
  (forall t, f (roto_xmin f freq) <= f t)%R /\ roto_ymin f freq = f (roto_xmin f freq).
Proof. intros f C p q freq H1 H2; split; [exact (rotosolve_min f C p q freq H1 H2) | exact (rotosolve_ymin f C p q freq H1 H2)]. Qed.
Print Assumptions rotosolve_minimises.

Theorem rotosolve_minimises_amplitude_phase : forall (f : R -> R) (A phi C freq : R), (0 < freq)%R ->
  (forall t, f t = A * sin (freq * t + phi) + C)%R -> forall t, (f (roto_xmin f freq) <= f t)%R.
Proof. exact rotosolve_min_phase. Qed.
Print Assumptions rotosolve_minimises_amplitude_phase.

(* non-vacuity: a two-argument Momentum history meets the hypotheses and gives the documented numbers *)
Example hyps_satisfiable :
  let h := mkH (1 # 2) (1 # 2) 0 0 in
  let args := [(false, [5]); (true, [1; 2])] in
  let orc := fun (_ : nat) (a : list arg) => [map (fun x => 2 * x) (argv 1 a)] in
  trainable 1 args = true /\ rank 1 args = 0%nat /\
  run Momentum h nm_id orc 2 0 args None = ([(false, [5]); (true, [-1 # 2; -1])], Some (2%nat, [([], []); ([1 # 2; 1], [])])) /\
  good_rnd nm_id.
Proof. repeat split; try reflexivity. intros x y E; exact E. Qed.
