(* C61 placeholder while the tie is being developed *)
From PLV Require Import Num.OptimizersModel.
