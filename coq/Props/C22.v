(* C22 Dynamic wire allocation never aliases live wires.
   Statements only; every proof is `exact <lemma>` from Disc/WireManagerProofs.v.

   `steps prog (init z a mi ar) = Some x` : the op stream `prog` was processed by _new_ops without an
   exception, starting from _WireManager(zeroed=z, any_state=a, min_int=mi, allow_resets=ar), and x is the
   state reached (manager registers + loans, wire_map, deallocated set, emitted ops, ghost |0>-flags, and
   the log `events x` of every single-wire allocation made so far).  `prog` is universally quantified, so
   every statement holds after every step of every history (see `holds_at_every_step`).
   `pre_ok` is the boolean precondition: registers duplicate free, static labels not in a register,
   min_int (if given) above every register and static label.

   NOT stated here: equality of measurement results with a fresh-wire circuit (there is no quantum
   semantics in the model; the check compares default.qubit results numerically instead). *)
From Coq Require Import List ZArith Bool.
From PLV Require Import Disc.WireManagerModel Disc.WireManagerProofs.
Import ListNotations.
Open Scope Z_scope.

(* registers, loans and static wires are pairwise disjoint and duplicate free *)
Theorem inv_disjoint : forall z a mi ar prog meas x, pre_ok z a mi prog meas = true ->
  steps prog (init z a mi ar) = Some x ->
  NoDup (zeroed (mg x) ++ anyst (mg x) ++ map fst (loaned (mg x))) /\
  Forall (fun s => ~ In s (zeroed (mg x) ++ anyst (mg x) ++ map fst (loaned (mg x)))) (statics prog meas).
Proof. exact inv_disjoint_lemma. Qed.
Print Assumptions inv_disjoint.

(* wire_map is injective on the live dynamic wires (its keys) *)
Theorem no_alias : forall z a mi ar prog meas x, pre_ok z a mi prog meas = true ->
  steps prog (init z a mi ar) = Some x ->
  forall d1 d2 c, aget d1 (wmap x) = Some c -> aget d2 (wmap x) = Some c -> d1 = d2.
Proof. exact no_alias_lemma. Qed.
Print Assumptions no_alias.

(* a dynamic wire maps only into zeroed ∪ any_state ∪ [min_int, ∞) and never onto a static label:
   for the current wire_map and for every allocation made in the history *)
Theorem never_on_static : forall z a mi ar prog meas x, pre_ok z a mi prog meas = true ->
  steps prog (init z a mi ar) = Some x ->
  (forall d c, aget d (wmap x) = Some c ->
     (In c (z ++ a) \/ exists m0, mi = Some m0 /\ m0 <= c) /\ ~ In c (statics prog meas)) /\
  Forall (fun e => match e with EvAlloc _ c _ _ =>
     (In c (z ++ a) \/ exists m0, mi = Some m0 /\ m0 <= c) /\ ~ In c (statics prog meas) end) (events x).
Proof. exact never_on_static_lemma. Qed.
Print Assumptions never_on_static.

(* whenever state=ZERO was requested, the ghost flag of the wire handed out was Zero at that point
   (f is the flag recorded at hand-out, after the emitted reset if there was one) *)
Theorem zero_on_request : forall z a mi ar prog meas x, pre_ok z a mi prog meas = true ->
  steps prog (init z a mi ar) = Some x ->
  forall d c f, In (EvAlloc d c AZero f) (events x) -> f = FZero.
Proof. exact zero_on_request_lemma. Qed.
Print Assumptions zero_on_request.

(* the same, stated on a single allocation made in any reachable state: the wire handed out is not the
   wire of any live dynamic wire, is flagged Zero if zero was requested, and at most one reset on that
   very wire is emitted *)
Theorem allocation_step : forall z a mi ar prog meas x s rst d x', pre_ok z a mi prog meas = true ->
  steps prog (init z a mi ar) = Some x -> alloc_one s rst d x = Some x' ->
  exists c, aget d (wmap x') = Some c /\
    ~ In c (map snd (wmap x)) /\
    (s = AZero -> gget (gdef x') (ghost x') c = FZero) /\
    (out x' = out x \/ out x' = (RESET, [St c]) :: out x).
Proof. exact alloc_step_lemma. Qed.
Print Assumptions allocation_step.

(* every prefix of a successful history is a successful history meeting the precondition: the four
   statements above therefore hold at every step *)
Theorem holds_at_every_step : forall z a mi ar p q meas x', pre_ok z a mi (p ++ q) meas = true ->
  steps (p ++ q) (init z a mi ar) = Some x' ->
  exists y, steps p (init z a mi ar) = Some y /\ steps q y = Some x' /\ pre_ok z a mi p meas = true.
Proof. exact every_step_lemma. Qed.
Print Assumptions holds_at_every_step.

(* resolve_dynamic_wires returns a circuit only if the op stream was processed by `steps` *)
Theorem resolve_is_steps : forall z a mi ar prog meas r, resolve z a mi ar prog meas = Some r ->
  exists x, steps prog (init z a mi ar) = Some x.
Proof. exact resolve_runs_steps. Qed.
Print Assumptions resolve_is_steps.

(* device_resolve_dynamic_wires establishes the precondition by itself (device wires duplicate free) *)
Theorem device_path_meets_precondition : forall dw prog meas z mi,
  NoDup (match dw with Some l => l | None => [] end) ->
  dev_registers dw prog meas = (z, mi) -> pre_ok z [] mi prog meas = true.
Proof. exact device_pre_lemma. Qed.
Print Assumptions device_path_meets_precondition.

(* non-vacuity: a history with nested scopes, a restored ancilla, a reuse through the any-state register
   with an emitted reset, and a fresh label from min_int meets the precondition and runs *)
Example hyps_satisfiable :
  let prog := [Gate 0 [St 0]; Alloc [0] AZero true; Gate 3 [St 0; Dy 0]; Alloc [1; 2] AAny false;
               Gate 5 [Dy 0; Dy 1; Dy 2]; Dealloc [2; 1]; Dealloc [0]; Alloc [3; 4; 5] AZero false;
               Gate 5 [Dy 3; Dy 4; Dy 5]] in
  pre_ok [10] [11] (Some 20) prog [[St 0]] = true /\
  exists x, steps prog (init [10] [11] (Some 20) true) = Some x /\
    rev (out x) = [(0, [St 0]); (3, [St 0; St 10]); (5, [St 10; St 11; St 20]); (RESET, [St 11]);
                   (RESET, [St 20]); (5, [St 10; St 11; St 20])] /\
    map snd (wmap x) = [20; 11; 10] /\ length (events x) = 6%nat.
Proof. split; [vm_compute; reflexivity | eexists; split; [vm_compute; reflexivity | repeat split]]. Qed.
