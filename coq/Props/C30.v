(* C30 Sample post-processing is exact.
   Statements only; every proof is `exact <lemma>` from Disc/SamplesProofs.v.
   Conventions of the model (Disc/SamplesModel.v): eigenvalues are integers in units of 1/one; a mean is
   returned as RQ numerator denominator; samples are rows of bits, `selected idxs r rows` is the array
   after shot_range r and wire selection (idxs = positions of the measured wires in wire_order, in the
   order of the measurement's wires: any subset, any order). *)
From Coq Require Import List ZArith Bool.
From PLV Require Import Disc.SamplesModel Disc.SamplesProofs.
Import ListNotations.
Open Scope Z_scope.

(* basis-state index: samples @ 2**arange(w)[::-1] = int(bitstring, 2) (big endian), within range,
   and the bit-string formatter is its inverse (so the index identifies the sample) *)
Theorem index_is_big_endian_value : forall row,
  index_row (length row) row = int2 row /\ 0 <= int2 row < 2 ^ lenZ row /\ bits_of (length row) (int2 row) = row.
Proof. intros row; split; [exact (dot_int2 row) | split; [exact (int2_range row) | exact (bits_of_int2 row)]]. Qed.
Print Assumptions index_is_big_endian_value.

Theorem index_formatter_inverse : forall w i, 0 <= i < 2 ^ Z.of_nat w -> int2 (bits_of w i) = i.
Proof. exact int2_bits_of. Qed.
Print Assumptions index_formatter_inverse.

(* the +-1 fast path  1 - 2*bit  equals the eigenvalue lookup eigvals[index] *)
Theorem fastpath_eq_lookup : forall one b,
  row_value one [one; - one] 1 [b] = nth_error [one; - one] (Z.to_nat (index_row 1 [b])).
Proof. exact fastpath_lookup. Qed.
Print Assumptions fastpath_eq_lookup.

(* on either path a sample's value is eigvals[int(bits,2)] *)
Theorem sample_value_is_lookup : forall one ev row,
  (eq_lz ev [one; - one] = true -> length row = 1%nat) ->
  row_value one ev (length row) row = nth_error ev (Z.to_nat (int2 row)).
Proof. exact row_value_lookup. Qed.
Print Assumptions sample_value_is_lookup.

(* mid-circuit measurement values: the branch table looked up at the sample's index is the arithmetic
   expression evaluated directly on the sampled bits *)
Theorem mcm_value_is_direct : forall one n e row, length row = n ->
  nth_error (mv_eigvals one n e) (Z.to_nat (int2 row)) = Some (one * meval e row).
Proof. exact mcm_direct. Qed.
Print Assumptions mcm_value_is_direct.

(* expval = direct mean: numerator = sum of the per-sample eigenvalues, denominator = number of shots used;
   for every array, shot_range, wire order and wire subset (unbatched, no bin_size) *)
Theorem expval_is_direct_mean : forall one o ev order r rows idxs vals,
  o_eigvals one o = Some ev ->
  mapped_wires order (o_wires o) = Some idxs -> idxs <> [] ->
  (eq_lz ev [one; - one] = true -> length idxs = 1%nat) ->
  direct_vals ev (selected idxs r rows) = Some vals ->
  process_samples one KExp o false order r None [rows] = RQ (TZ (sumZ vals)) (lenZ vals).
Proof. intros one o ev order r rows idxs vals. exact (stat_ps_direct sumZ one o ev order r rows idxs vals). Qed.
Print Assumptions expval_is_direct_mean.

(* var: numerator n^3 var = n (n sum x^2 - (sum x)^2), i.e. var = mean(x^2) - mean(x)^2 on the same values *)
Theorem var_is_direct : forall one o ev order r rows idxs vals,
  o_eigvals one o = Some ev ->
  mapped_wires order (o_wires o) = Some idxs -> idxs <> [] ->
  (eq_lz ev [one; - one] = true -> length idxs = 1%nat) ->
  direct_vals ev (selected idxs r rows) = Some vals ->
  process_samples one KVar o false order r None [rows] = RQ (TZ (var_num vals)) (lenZ vals) /\
  var_num vals = lenZ vals * (lenZ vals * sumZ (map (fun x => x * x) vals) - sumZ vals * sumZ vals).
Proof.
  intros one o ev order r rows idxs vals H1 H2 H3 H4 H5.
  split; [exact (stat_ps_direct var_num one o ev order r rows idxs vals H1 H2 H3 H4 H5) | exact (var_num_direct vals)].
Qed.
Print Assumptions var_is_direct.

(* probs = frequency of each basis index among the selected samples (denominator = shots used) *)
Theorem probs_is_frequency : forall o order r rows idxs,
  mapped_wires order (o_wires o) = Some idxs -> idxs <> [] -> selected idxs r rows <> [] ->
  probs_ps o false order r None [rows]
  = RQ (tvec (map (fun p => count_eq p (map int2 (selected idxs r rows))) (all_indices (length idxs))))
       (lenZ (selected idxs r rows)).
Proof. exact probs_ps_direct. Qed.
Print Assumptions probs_is_frequency.

(* ... it has 2^k entries and they add up to the number of shots (probabilities sum to 1) *)
Theorem probs_length_and_total : forall w rows, Forall (fun r => length r = w) rows ->
  lenZ (all_indices w) = 2 ^ Z.of_nat w /\
  sumZ (map (fun p => count_eq p (map int2 rows)) (all_indices w)) = lenZ rows.
Proof.
  intros w rows H. split; [exact (length_all_indices w)|].
  rewrite (count_total w (map int2 rows) (rows_in_range w rows H)). unfold lenZ. now rewrite map_length.
Qed.
Print Assumptions probs_length_and_total.

(* counts (wires / all wires): every bit string maps to its multiplicity among the selected samples; only
   observed strings are present unless all_outcomes, in which case ALL 2^k strings are; total = shots *)
Theorem counts_is_multiset : forall one ao ws order r rows idxs,
  mapped_wires order ws = Some idxs -> idxs <> [] ->
  exists d, counts_ps one ao (OWires ws) false order r None [rows] = RD d /\
    (forall b, length b = length idxs ->
       dget (inl b) d = if ao || (0 <? mult b (selected idxs r rows))
                        then Some (mult b (selected idxs r rows)) else None) /\
    dtotal d = lenZ (selected idxs r rows).
Proof. exact counts_ps_wires. Qed.
Print Assumptions counts_is_multiset.

Theorem all_outcomes_total : forall ws w rows, (ws = [] \/ length ws = w) -> Forall (fun r => length r = w) rows ->
  exists d, s2c_raw true ws None w rows = Some d /\
    (forall b, length b = w -> dget (inl b) d = Some (mult b rows)) /\ dtotal d = lenZ rows.
Proof. intros ws w rows H1 H2. exact (s2c_raw_spec true ws w rows H1 H2). Qed.
Print Assumptions all_outcomes_total.

(* CountsMP(eigvals=.., wires=..).process_samples relabels bit strings by eigenvalue, summing the counts of
   repeated eigenvalues (remap_merge = Z.add since the fix: commit in /repo): the total is kept for any eigenvalues. *)
Theorem counts_eigvals_summing_keeps_total : forall ev d acc r,
  remap_with Z.add ev d acc = Some r -> dtotal r = dtotal acc + dtotal d.
Proof. exact remap_sum_total. Qed.
Print Assumptions counts_eigvals_summing_keeps_total.

(* process_counts(counts s) vs process_samples s.  PARTIAL: proved = the wire mapping of process_counts keeps
   the number of shots, and the round trip  CountsMP(wires).process_counts(CountsMP().process_samples(s))
   has total = shots for every subset/order; missing = per-key equality with counts_is_multiset and the
   probs/expval/var round trips (covered only by the correspondence run). *)
Theorem counts_samples_consistent_partial : forall ao0 order ws rows h d,
  Forall (fun r => length r = length order) rows ->
  full_counts ao0 order rows = Some h ->
  counts_pc_gen false ws None order h = Some d -> dtotal d = lenZ rows.
Proof. exact roundtrip_total. Qed.
Print Assumptions counts_samples_consistent_partial.

Theorem map_counts_keeps_total : forall order ws c d, map_counts order ws c = Some d -> dtotal d = sumZ (map snd c).
Proof. exact map_counts_total. Qed.
Print Assumptions map_counts_keeps_total.

(* non-vacuity: the hypotheses are satisfiable and the statements compute on a concrete array *)
Example hyps_satisfiable :
  let rows := [[false; false; true]; [false; true; true]; [true; true; false]; [true; false; false]] in
  mapped_wires [2; 1; 0] [0; 1] = Some [2; 1]%nat /\
  direct_vals [-4; 4; 0; 8] (selected [2; 1]%nat None rows) = Some [0; 8; 4; -4] /\
  process_samples 4 KExp (OMV [0; 1] (MSub (MAdd (MVar 0) (MMul (MConst 2) (MVar 1))) (MConst 1)))
                  false [2; 1; 0] None None [rows] = RQ (TZ 8) 4 /\
  o_eigvals 4 (OMV [0; 1] (MSub (MAdd (MVar 0) (MMul (MConst 2) (MVar 1))) (MConst 1))) = Some [-4; 4; 0; 8].
Proof. vm_compute. repeat split; reflexivity. Qed.
