(* C56 Arithmetic templates compute their documented functions. *)
From Coq Require Import List ZArith Bool.
From PLV Require Import Disc.ArithModel Disc.ArithProofs.
Import ListNotations.
Open Scope Z_scope.

Theorem upd_reads_back : forall s i b, upd s i b i = b.
Proof. exact upd_same. Qed.
Print Assumptions upd_reads_back.
