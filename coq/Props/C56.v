(* C56 Arithmetic templates compute their documented functions.
   Statements only; every proof is `exact <lemma>` from Disc/ArithProofs.v.
   Model: classical reversible semantics of the decompositions (Disc/ArithModel.v); states are maps
   wire -> bit, registers are big-endian wire lists of ARBITRARY length and layout (NoDup). *)
From Coq Require Import List ZArith Bool.
From PLV Require Import Disc.ArithModel Disc.ArithProofs.
Import ListNotations.
Open Scope Z_scope.

(* SemiAdder |x>|y>|0..0> -> |x>|x+y mod 2^len(y)>|0..0>, every register size, every wire layout,
   at least len(y)-1 zeroed work wires (ripple-carry invariant: work wire i holds carry i) *)
Theorem semi_adder_adds : forall xw yw ww s,
  NoDup (xw ++ yw ++ ww) -> xw <> [] -> (length yw <= S (length ww))%nat -> zeroed s ww ->
  exists s', run (semi_adder xw yw ww) s = Some s' /\
    (forall i, ~ In i yw -> s' i = s i) /\
    val_be s' yw = (val_be s xw + val_be s yw) mod 2 ^ Z.of_nat (length yw).
Proof. exact semi_adder_spec. Qed.
Print Assumptions semi_adder_adds.

(* ... the work wires are returned in |0> and the x register is unchanged; all TemporaryAND /
   Adjoint(TemporaryAND) gates of the decomposition are used inside their documented domain
   (otherwise `run` would answer None) *)
Theorem work_wires_restored : forall xw yw ww s,
  NoDup (xw ++ yw ++ ww) -> xw <> [] -> (length yw <= S (length ww))%nat -> zeroed s ww ->
  exists s', run (semi_adder xw yw ww) s = Some s' /\ zeroed s' ww /\ val_be s' xw = val_be s xw.
Proof. exact semi_adder_restores. Qed.
Print Assumptions work_wires_restored.

(* one ripple step: carry wire c holds the carry-in; the block adds x + y + carry on the remaining bits *)
Theorem ripple_carry_invariant : forall ys c xs ws s,
  NoDup xs -> NoDup ys -> NoDup ws -> ~ In c xs -> ~ In c ys -> ~ In c ws ->
  (forall w, In w xs -> ~ In w ys) -> (forall w, In w xs -> ~ In w ws) -> (forall w, In w ys -> ~ In w ws) ->
  (length ys <= S (length ws))%nat -> zeroed s ws ->
  exists s', run (adder_body c xs ys ws) s = Some s' /\
    (forall i, ~ In i ys -> s' i = s i) /\
    val_le s' ys = (val_le s (firstn (length ys) xs) + val_le s ys + b2z (s c)) mod 2 ^ Z.of_nat (length ys).
Proof. exact adder_body_spec. Qed.
Print Assumptions ripple_carry_invariant.

(* Incrementer (elbow ladder rule, >= n-1 zeroed work wires): +1 mod 2^n, all sizes and layouts *)
Theorem incrementer_adds_one : forall wires work s,
  NoDup (wires ++ work) -> (length wires <= S (length work))%nat -> zeroed s work ->
  exists s', run (incrementer wires work) s = Some s' /\
    (forall i, ~ In i wires -> s' i = s i) /\
    val_be s' wires = (val_be s wires + 1) mod 2 ^ Z.of_nat (length wires).
Proof. exact incrementer_spec. Qed.
Print Assumptions incrementer_adds_one.

Theorem incrementer_work_wires_restored : forall wires work s,
  NoDup (wires ++ work) -> (length wires <= S (length work))%nat -> zeroed s work ->
  exists s', run (incrementer wires work) s = Some s' /\ zeroed s' work.
Proof. exact incrementer_restores. Qed.
Print Assumptions incrementer_work_wires_restored.

(* Incrementer fallback rule (fewer than n-1 work wires): MultiControlledX ladder from the most significant
   wire (n-1 controls) down to 1 control, then X on the least significant wire: +1 mod 2^n, all n, all layouts *)
Theorem incrementer_fallback_adds_one : forall wires s, NoDup wires ->
  exists s', run (incrementer_fallback wires) s = Some s' /\
    (forall i, ~ In i wires -> s' i = s i) /\
    val_be s' wires = (val_be s wires + 1) mod 2 ^ Z.of_nat (length wires).
Proof. exact incrementer_fallback_spec. Qed.
Print Assumptions incrementer_fallback_adds_one.

(* QubitSum |a,b,c> -> |a,b,a^b^c>; QubitCarry |a,b,c,d> -> |a,b,b^c,bc^d^(b^c)a> : one full-adder step *)
Theorem qubit_sum_spec : forall a b c s, a <> c -> b <> c ->
  exists s', run (qubit_sum a b c) s = Some s' /\
             s' c = xorb (s a) (xorb (s b) (s c)) /\ (forall i, i <> c -> s' i = s i).
Proof. exact qubit_sum_ok. Qed.
Print Assumptions qubit_sum_spec.

Theorem qubit_carry_spec : forall a b c d s, a <> c -> a <> d -> b <> c -> b <> d -> c <> d ->
  exists s', run (qubit_carry a b c d) s = Some s' /\
             s' c = xorb (s b) (s c) /\
             s' d = xorb (andb (s b) (s c)) (xorb (s d) (andb (xorb (s b) (s c)) (s a))) /\
             (forall i, i <> c -> i <> d -> s' i = s i).
Proof. exact qubit_carry_ok. Qed.
Print Assumptions qubit_carry_spec.

(* TemporaryAND on its documented domain (target |0>) is the reversible AND of the controls (with control
   values); its adjoint returns the target to |0> when it holds that AND *)
Theorem temporary_and_spec : forall cv0 cv1 a b t s, a <> t -> b <> t -> s t = false ->
  exists s', run (temporary_and cv0 cv1 a b t) s = Some s' /\
             s' t = andb (Bool.eqb (s a) cv0) (Bool.eqb (s b) cv1) /\ (forall i, i <> t -> s' i = s i).
Proof. exact temporary_and_ok. Qed.
Print Assumptions temporary_and_spec.

Theorem temporary_and_adjoint_spec : forall cv0 cv1 a b t s, a <> t -> b <> t ->
  s t = andb (Bool.eqb (s a) cv0) (Bool.eqb (s b) cv1) ->
  exists s', run [GAndAdj [(a, cv0); (b, cv1)] t] s = Some s' /\ s' t = false /\ (forall i, i <> t -> s' i = s i).
Proof. exact temporary_and_adj_ok. Qed.
Print Assumptions temporary_and_adjoint_spec.

(* IntegerComparator, PARTIAL: only the finite family n <= 4 control wires (canonical layout), every value
   0 .. 2^n+1, both polarities, every basis input is decided (by evaluation); the statement for all n is
   not proved.  The flip condition is  x >= L  resp.  x < L , control wires unchanged. *)
Theorem comparator_spec_partial : cmp_all_ok 4 = true.
Proof. exact comparator_upto4. Qed.
Print Assumptions comparator_spec_partial.

(* non-vacuity: the hypotheses are satisfiable and the circuits really run *)
Example semi_adder_3_plus_6 :
  let s := set_be (set_be zero_st [0; 1]%nat 3) [2; 3; 4]%nat 6 in
  NoDup ([0; 1] ++ [2; 3; 4] ++ [5; 6])%nat /\ zeroed s [5; 6]%nat /\
  match run (semi_adder [0; 1] [2; 3; 4] [5; 6])%nat s with
  | Some s' => val_be s' [2; 3; 4]%nat = 1 /\ val_be s' [0; 1]%nat = 3 /\ s' 5%nat = false /\ s' 6%nat = false
  | None => False
  end.
Proof.
  cbv zeta. split; [repeat constructor; cbn; intuition discriminate|]. split.
  - intros w [<-|[<-|[]]]; reflexivity.
  - vm_compute. repeat split; reflexivity.
Qed.

Example incrementer_7_wraps :
  match run (incrementer [0; 1; 2] [3; 4])%nat (set_be zero_st [0; 1; 2]%nat 7) with
  | Some s' => val_be s' [0; 1; 2]%nat = 0 | None => False end.
Proof. vm_compute. reflexivity. Qed.
