(* C08 Commutation checks are sound.
   Generated obligations (coq/Gen/C08, rebuilt from /repo): for every enumerated pair of operators on
   overlapping wires for which qp.is_commuting answers True (with generic parameter values),
     circ_cols_eq hz n [g1; g2] [g2; g1] (all_cols n) = true
   with g1, g2 the exact symbolic matrices (independent formal parameters) on their wire positions. *)
From Coq Require Import List ZArith QArith Reals Bool.
From Coquelicot Require Import Complex.
From PLV Require Import Alg.Poly Alg.PolyEval Alg.Angles Lin.Vec Lin.VecHom Lin.PVec Lin.PVecSound.
Import ListNotations.

(* For all real parameter values of both operators, applying them in either order to any basis state of the
   joint register gives the same vector: the matrices on the joint wire set commute. *)
Theorem reported_commuting_pairs_commute :
  forall hz D n g1 g2, (0 < hz)%Z -> circ_cols_eq hz n [g1; g2] [g2; g1] (all_cols n) = true ->
  forall (th : list R) c, In c (all_cols n) ->
    c_capply n (map (evg (aenv hz D th)) [g1; g2]) (c_basis n c) = c_capply n (map (evg (aenv hz D th)) [g2; g1]) (c_basis n c).
Proof. intros hz D n g1 g2 H E th. exact (circ_cols_eq_sound hz _ (aenv_good hz D th H) n _ _ _ E). Qed.
Print Assumptions reported_commuting_pairs_commute.

(* every basis column is covered: all_cols n enumerates 0 .. 2^n - 1 *)
Theorem all_columns_covered : forall n c, (c < 2 ^ n)%nat -> In c (all_cols n).
Proof. intros n c H. unfold all_cols. apply in_seq. split; [apply Nat.le_0_l | exact H]. Qed.
Print Assumptions all_columns_covered.

Theorem matrix_commutation_forall : forall hz D X Y, (0 < hz)%Z -> commute hz X Y = true ->
  forall th : list R, c_mmul (map (map (peval (aenv hz D th))) X) (map (map (peval (aenv hz D th))) Y)
                    = c_mmul (map (map (peval (aenv hz D th))) Y) (map (map (peval (aenv hz D th))) X).
Proof. intros hz D X Y H E th. exact (commute_sound hz _ (aenv_good hz D th H) X Y E). Qed.
Print Assumptions matrix_commutation_forall.
