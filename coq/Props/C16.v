(* C16 Exact ring arithmetic behind gridsynth is lawful.
   Statements only; every proof is `exact <lemma>` from Disc/RingsProofs.v.
   zs = ZSqrtTwo (a + b sqrt2), zo = ZOmega (a w^3 + b w^2 + c w + d), dm = DyadicMatrix, res = Ok | Err (raised). *)
From Coq Require Import List ZArith Bool Znumtheory.
From PLV Require Import Disc.RingsModel Disc.RingsProofs.
Import ListNotations.
Open Scope Z_scope.

(* ---------------- Z[sqrt2]: commutative ring *)
Theorem zsqrt2_add_laws : forall x y z,
  zs_add x y = zs_add y x /\ zs_add (zs_add x y) z = zs_add x (zs_add y z) /\
  zs_add x zs_zero = x /\ zs_add zs_zero x = x /\ zs_add x (zs_neg x) = zs_zero /\ zs_sub x y = zs_add x (zs_neg y).
Proof. intros x y z. exact (conj (zs_add_comm x y) (conj (zs_add_assoc x y z) (conj (zs_add_0_r x) (conj (zs_add_0_l x) (conj (zs_add_neg x) eq_refl))))). Qed.
Print Assumptions zsqrt2_add_laws.

Theorem zsqrt2_mul_laws : forall x y z,
  zs_mul x y = zs_mul y x /\ zs_mul (zs_mul x y) z = zs_mul x (zs_mul y z) /\
  zs_mul x zs_one = x /\ zs_mul zs_one x = x /\
  zs_mul x (zs_add y z) = zs_add (zs_mul x y) (zs_mul x z) /\
  zs_mul (zs_add x y) z = zs_add (zs_mul x z) (zs_mul y z).
Proof. intros x y z. exact (conj (zs_mul_comm x y) (conj (zs_mul_assoc x y z) (conj (zs_mul_1_r x) (conj (zs_mul_1_l x) (conj (zs_distr_l x y z) (zs_distr_r x y z)))))). Qed.
Print Assumptions zsqrt2_mul_laws.

(* the int-operand forms of + * - are the ring operations with the embedded integer *)
Theorem zsqrt2_int_operands : forall x n,
  zs_mulz x n = zs_mul x (ZS n 0) /\ zs_addz x n = zs_add x (ZS n 0) /\ zs_rsubz n x = zs_sub (ZS n 0) x.
Proof. intros x n. exact (conj (zs_mulz_embed x n) (conj (zs_addz_embed x n) (zs_rsubz_embed x n))). Qed.
Print Assumptions zsqrt2_int_operands.

Theorem zsqrt2_pow_laws : forall x,
  zs_pow x 0 = Ok zs_one /\ zs_pow x 1 = Ok x /\ (forall p, p < 0 -> zs_pow x p = Err) /\
  (forall p q r s, 0 < p -> 0 < q -> zs_pow x p = Ok r -> zs_pow x q = Ok s -> zs_pow x (p + q) = Ok (zs_mul r s)).
Proof. intros x. exact (conj (zs_pow_0 x) (conj (zs_pow_1 x) (conj (zs_pow_neg x) (zs_pow_add x)))). Qed.
Print Assumptions zsqrt2_pow_laws.

(* conj is the identity, adj2 (sqrt2 -> -sqrt2) is an involutive ring homomorphism *)
Theorem zsqrt2_conjugations : forall x y,
  zs_conj x = x /\ zs_adj2 (zs_adj2 x) = x /\ zs_adj2 (zs_add x y) = zs_add (zs_adj2 x) (zs_adj2 y) /\
  zs_adj2 (zs_mul x y) = zs_mul (zs_adj2 x) (zs_adj2 y) /\ zs_adj2 (zs_neg x) = zs_neg (zs_adj2 x) /\ zs_adj2 zs_one = zs_one.
Proof. intros x y. exact (conj (zs_conj_id x) (conj (zs_adj2_invol x) (conj (zs_adj2_add x y) (conj (zs_adj2_mul x y) (conj (zs_adj2_neg x) zs_adj2_one))))). Qed.
Print Assumptions zsqrt2_conjugations.

Theorem zsqrt2_norm_multiplicative : forall x y,
  zs_abs (zs_mul x y) = zs_abs x * zs_abs y /\ zs_abs zs_one = 1 /\ zs_abs (zs_adj2 x) = zs_abs x /\
  zs_mul x (zs_adj2 x) = ZS (zs_abs x) 0.
Proof. intros x y. exact (conj (zs_abs_mul x y) (conj zs_abs_one (conj (zs_abs_adj2 x) (zs_mul_adj2 x)))). Qed.
Print Assumptions zsqrt2_norm_multiplicative.

(* exact division, square root and % *)
Theorem zsqrt2_truediv_sound : forall x y q, zs_truediv x y = Ok q -> zs_mul q y = x.
Proof. exact zs_truediv_sound. Qed.
Print Assumptions zsqrt2_truediv_sound.

Theorem zsqrt2_sqrt_sound : forall x y, zs_sqrt x = Ok (Some y) -> zs_mul y y = x.
Proof. exact zs_sqrt_sound. Qed.
Print Assumptions zsqrt2_sqrt_sound.

(* __mod__ returns r with x = q*y + r or x = q*y - r (sign quirk); no size claim is made: the
   remainder's norm is not always below the divisor's *)
Theorem zsqrt2_mod_congruent_partial : forall x y r, zs_mod x y = Ok r ->
  exists q, x = zs_add (zs_mul q y) r \/ x = zs_sub (zs_mul q y) r.
Proof. exact zs_mod_congruent. Qed.
Print Assumptions zsqrt2_mod_congruent_partial.

(* ---------------- Z[omega]: commutative ring *)
Theorem zomega_add_laws : forall x y z,
  zo_add x y = zo_add y x /\ zo_add (zo_add x y) z = zo_add x (zo_add y z) /\
  zo_add x zo_zero = x /\ zo_add zo_zero x = x /\ zo_add x (zo_neg x) = zo_zero /\ zo_sub x y = zo_add x (zo_neg y).
Proof. intros x y z. exact (conj (zo_add_comm x y) (conj (zo_add_assoc x y z) (conj (zo_add_0_r x) (conj (zo_add_0_l x) (conj (zo_add_neg x) eq_refl))))). Qed.
Print Assumptions zomega_add_laws.

Theorem zomega_mul_laws : forall x y z,
  zo_mul x y = zo_mul y x /\ zo_mul (zo_mul x y) z = zo_mul x (zo_mul y z) /\
  zo_mul x zo_one = x /\ zo_mul zo_one x = x /\
  zo_mul x (zo_add y z) = zo_add (zo_mul x y) (zo_mul x z) /\
  zo_mul (zo_add x y) z = zo_add (zo_mul x z) (zo_mul y z).
Proof. intros x y z. exact (conj (zo_mul_comm x y) (conj (zo_mul_assoc x y z) (conj (zo_mul_1_r x) (conj (zo_mul_1_l x) (conj (zo_distr_l x y z) (zo_distr_r x y z)))))). Qed.
Print Assumptions zomega_mul_laws.

Theorem zomega_int_operands : forall x n,
  zo_mulz x n = zo_mul x (ZO 0 0 0 n) /\ zo_addz x n = zo_add x (ZO 0 0 0 n) /\ zo_rsubz n x = zo_sub (ZO 0 0 0 n) x.
Proof. intros x n. exact (conj (zo_mulz_embed x n) (conj (zo_addz_embed x n) (zo_rsubz_embed x n))). Qed.
Print Assumptions zomega_int_operands.

Theorem zomega_pow_laws : forall x,
  zo_pow x 0 = Ok zo_one /\ zo_pow x 1 = Ok x /\ (forall p, p < 0 -> zo_pow x p = Err) /\
  (forall p q r s, 0 < p -> 0 < q -> zo_pow x p = Ok r -> zo_pow x q = Ok s -> zo_pow x (p + q) = Ok (zo_mul r s)) /\
  zo_pow (ZO 0 0 1 0) 4 = Ok (zo_neg zo_one).
Proof. intros x. exact (conj (zo_pow_0 x) (conj (zo_pow_1 x) (conj (zo_pow_neg x) (conj (zo_pow_add x) zo_omega4)))). Qed.
Print Assumptions zomega_pow_laws.

(* complex conjugation and sqrt2-conjugation: commuting involutive ring homomorphisms *)
Theorem zomega_conj_hom : forall x y,
  zo_conj (zo_conj x) = x /\ zo_conj (zo_add x y) = zo_add (zo_conj x) (zo_conj y) /\
  zo_conj (zo_mul x y) = zo_mul (zo_conj x) (zo_conj y) /\ zo_conj (zo_neg x) = zo_neg (zo_conj x) /\ zo_conj zo_one = zo_one.
Proof. intros x y. exact (conj (zo_conj_invol x) (conj (zo_conj_add x y) (conj (zo_conj_mul x y) (conj (zo_conj_neg x) zo_conj_one)))). Qed.
Print Assumptions zomega_conj_hom.

Theorem zomega_adj2_hom : forall x y,
  zo_adj2 (zo_adj2 x) = x /\ zo_adj2 (zo_add x y) = zo_add (zo_adj2 x) (zo_adj2 y) /\
  zo_adj2 (zo_mul x y) = zo_mul (zo_adj2 x) (zo_adj2 y) /\ zo_adj2 (zo_neg x) = zo_neg (zo_adj2 x) /\
  zo_adj2 zo_one = zo_one /\ zo_conj (zo_adj2 x) = zo_adj2 (zo_conj x).
Proof. intros x y. exact (conj (zo_adj2_invol x) (conj (zo_adj2_add x y) (conj (zo_adj2_mul x y) (conj (zo_adj2_neg x) (conj zo_adj2_one (zo_conj_adj2 x)))))). Qed.
Print Assumptions zomega_adj2_hom.

Theorem zomega_norm_multiplicative : forall x y,
  zo_abs (zo_mul x y) = zo_abs x * zo_abs y /\ zo_abs zo_one = 1 /\ zo_abs (zo_conj x) = zo_abs x /\
  zo_norm (zo_mul x y) = zo_mul (zo_norm x) (zo_norm y) /\ zo_conj (zo_norm x) = zo_norm x.
Proof. intros x y. exact (conj (zo_abs_mul x y) (conj zo_abs_one (conj (zo_abs_conj x) (conj (zo_norm_mul x y) (zo_norm_real x))))). Qed.
Print Assumptions zomega_norm_multiplicative.

(* x * conj x lies in Z[sqrt2] and abs x is its Z[sqrt2]-norm *)
Theorem zomega_abs_is_norm_of_norm : forall x,
  exists s, zo_to_sqrt_two (zo_norm x) = Ok s /\ zs_abs s = zo_abs x /\ zs_to_omega s = zo_norm x.
Proof. exact zo_abs_via_norm. Qed.
Print Assumptions zomega_abs_is_norm_of_norm.

Theorem zomega_mod_congruent_partial : forall x y r, zo_mod x y = Ok r ->
  exists q, x = zo_add (zo_mul q y) r \/ x = zo_sub (zo_mul q y) r.
Proof. exact zo_mod_congruent. Qed.
Print Assumptions zomega_mod_congruent_partial.

(* ---------------- conversions: mutually inverse, homomorphic embeddings *)
Theorem to_omega_embedding : forall x y,
  zs_to_omega (zs_add x y) = zo_add (zs_to_omega x) (zs_to_omega y) /\
  zs_to_omega (zs_mul x y) = zo_mul (zs_to_omega x) (zs_to_omega y) /\
  zs_to_omega (zs_neg x) = zo_neg (zs_to_omega x) /\ zs_to_omega zs_one = zo_one /\ zs_to_omega zs_zero = zo_zero /\
  zo_conj (zs_to_omega x) = zs_to_omega x /\ zo_adj2 (zs_to_omega x) = zs_to_omega (zs_adj2 x) /\
  (zs_to_omega x = zs_to_omega y -> x = y).
Proof. intros x y. exact (conj (to_omega_add x y) (conj (to_omega_mul x y) (conj (to_omega_neg x) (conj to_omega_one (conj to_omega_zero (conj (to_omega_conj x) (conj (to_omega_adj2 x) (to_omega_inj x y)))))))). Qed.
Print Assumptions to_omega_embedding.

Theorem to_sqrt_two_inverse : forall x z s w t,
  zo_to_sqrt_two (zs_to_omega x) = Ok x /\
  (zo_to_sqrt_two z = Ok s -> zs_to_omega s = z) /\
  (zo_to_sqrt_two z = Ok s -> zo_to_sqrt_two w = Ok t -> zo_to_sqrt_two (zo_mul z w) = Ok (zs_mul s t)) /\
  (zo_to_sqrt_two z = Ok s -> zo_to_sqrt_two w = Ok t -> zo_to_sqrt_two (zo_add z w) = Ok (zs_add s t)).
Proof. intros x z s w t. exact (conj (to_sqrt_two_to_omega x) (conj (to_omega_to_sqrt_two z s) (conj (to_sqrt_two_mul z w s t) (to_sqrt_two_add z w s t)))). Qed.
Print Assumptions to_sqrt_two_inverse.

(* ---------------- normalisation keeps the denoted value (cross-multiplied: A = sqrt2^j * A', k' = k - j) *)
Theorem zomega_normalize_sound : forall x r ix, zo_normalize x = Ok (r, ix) ->
  exists j, ix = Z.of_nat j /\ x = zo_mul (sq2pow j) r /\ zo_sqrt2able r = false.
Proof. exact zo_normalize_sound. Qed.
Print Assumptions zomega_normalize_sound.

Theorem dyadic_normalize_sound : forall m m', dm_normalize m = Ok m' ->
  (dm_is_zero m /\ dm_is_zero m' /\ mk m' = 0) \/ exists j, dm_scaled j m m'.
Proof. exact dm_normalize_sound. Qed.
Print Assumptions dyadic_normalize_sound.

(* ---------------- matrix products (before normalisation) *)
Theorem dyadic_matmul_laws : forall x y z,
  dm_matmul_raw (dm_matmul_raw x y) z = dm_matmul_raw x (dm_matmul_raw y z) /\
  dm_matmul_raw dm_id x = x /\ dm_matmul_raw x dm_id = x /\
  (mk y = mk z -> dm_matmul_raw x (dm_add_same y z) = dm_add_same (dm_matmul_raw x y) (dm_matmul_raw x z)) /\
  dm_map zo_conj (dm_matmul_raw x y) (mk x + mk y) = dm_matmul_raw (dm_map zo_conj x (mk x)) (dm_map zo_conj y (mk y)).
Proof. intros x y z. exact (conj (dm_matmul_raw_assoc x y z) (conj (dm_matmul_raw_id_l x) (conj (dm_matmul_raw_id_r x) (conj (dm_matmul_raw_distr_l x y z) (dm_matmul_raw_conj x y))))). Qed.
Print Assumptions dyadic_matmul_laws.

Theorem so3_matmul_assoc :
  forall u0 u1 u2 u3 u4 u5 u6 u7 u8 v0 v1 v2 v3 v4 v5 v6 v7 v8 w0 w1 w2 w3 w4 w5 w6 w7 w8,
  so3_matmul_raw (so3_matmul_raw [u0;u1;u2;u3;u4;u5;u6;u7;u8] [v0;v1;v2;v3;v4;v5;v6;v7;v8]) [w0;w1;w2;w3;w4;w5;w6;w7;w8]
  = so3_matmul_raw [u0;u1;u2;u3;u4;u5;u6;u7;u8] (so3_matmul_raw [v0;v1;v2;v3;v4;v5;v6;v7;v8] [w0;w1;w2;w3;w4;w5;w6;w7;w8]).
Proof. exact so3_matmul_raw_assoc. Qed.
Print Assumptions so3_matmul_assoc.

(* ---------------- norm-equation solver: every returned solution satisfies t^dagger t = xi,
   whatever the (randomised) factoring produced: any loop outcome, any list of factors, any scale *)
Theorem diophantine_tail_sound : forall scale xi t, dioph_tail scale xi = Ok (Some t) ->
  zo_mul (zo_conj t) t = zs_to_omega xi.
Proof. exact dioph_tail_sound. Qed.
Print Assumptions diophantine_tail_sound.

Theorem solve_diophantine_returns_solutions : forall xi loop_ok ts t, solve_dioph xi loop_ok ts = Ok (Some t) ->
  is_solution xi t = true /\ zo_mul (zo_conj t) t = zs_to_omega xi.
Proof. intros xi ok ts t H. split; [apply is_solution_spec|]; exact (solve_dioph_sound xi ok ts t H). Qed.
Print Assumptions solve_diophantine_returns_solutions.

(* ---------------- primality: the oracle is exactly Znumtheory.prime; the Miller-Rabin transcription
   agrees with it for every n below the stated bound (vm_compute); beyond: correspondence + oracle only *)
Theorem primeb_is_prime : forall n, primeb n = true <-> prime n.
Proof. exact primeb_correct. Qed.
Print Assumptions primeb_is_prime.

Theorem miller_rabin_exact_below_12000_partial : forall n, n < 12000 -> (primality_test n = Ok true <-> prime n).
Proof. exact primality_test_prime_below. Qed.
Print Assumptions miller_rabin_exact_below_12000_partial.

(* non-vacuity *)
Example solver_hyp_satisfiable :
  dioph_tail (ZO 0 0 1 1) (ZS 10 7) = Ok (Some (ZO (-1) 1 2 2)) /\ is_solution (ZS 10 7) (ZO (-1) 1 2 2) = true.
Proof. split; reflexivity. Qed.
Example normalize_hyp_satisfiable :
  exists m', dm_normalize (DM (ZO 0 0 0 2) (ZO 0 0 0 2) (ZO 0 0 0 2) (ZO 0 0 0 2) 4) = Ok m' /\ mk m' = 2 /\ ma m' = zo_one /\
             zs_sqrt (ZS 3 2) = Ok (Some (ZS 1 1)) /\ zs_truediv (ZS 4 3) (ZS 1 1) = Ok (ZS 2 1).
Proof. eexists; repeat split; reflexivity. Qed.
