(* C35 Generated shift rules are exact for their frequency spectra.
   Statements only; every proof is `exact <lemma>` from Num/ShiftRulesProofs.v.
   A rule is a list of (coefficient, shift); rapply rl f x = sum_k c_k f(x + s_k);
   mom_cos rl w = sum_k c_k cos(w s_k), mom_sin rl w = sum_k c_k sin(w s_k), mom0 rl = sum_k c_k.
   NOT proved here (validated per instance by the harness): that the equidistant closed-form coefficients
   of _get_shift_rule satisfy the moment conditions for general R, and that the linear solve succeeds. *)
From Coq Require Import List ZArith QArith Bool Reals Morphisms.
From PLV Require Import Num.ShiftRulesModel Num.ShiftRulesProofs.
Import ListNotations.

(* ------------------------------------------------------------------ (a) exactness <-> moments (over R) *)
Open Scope R_scope.

(* the rule reproduces f' for f = cos(w.) and f = sin(w.) at ALL x  iff  the two moment conditions hold *)
Theorem rule_exact_on_trig_monomials_iff_moments : forall (rl : rrule) (w : R),
  ((forall x, rapply rl (fun t => cos (w * t)) x = - w * sin (w * x)) /\
   (forall x, rapply rl (fun t => sin (w * t)) x = w * cos (w * x)))
  <-> (mom_cos rl w = 0 /\ mom_sin rl w = w).
Proof. exact exact_iff_moments1. Qed.
Print Assumptions rule_exact_on_trig_monomials_iff_moments.

(* ... and the right-hand sides above are the derivatives *)
Theorem trig_monomial_derivatives : forall w x,
  derivable_pt_lim (fun t => cos (w * t)) x (- w * sin (w * x)) /\
  derivable_pt_lim (fun t => sin (w * t)) x (w * cos (w * x)).
Proof. intros w x; split; [exact (dlim_cosw w x) | exact (dlim_sinw w x)]. Qed.
Print Assumptions trig_monomial_derivatives.

(* <= for every finite linear combination a0 + sum_j a_j cos(w_j x) + b_j sin(w_j x): if every w_j satisfies
   the moment conditions and a0 * (sum of coefficients) = 0, the value of the rule IS the derivative *)
Theorem rule_exact_on_trig_polynomials : forall (rl : rrule) (a0 : R) (ts : list tterm),
  a0 * mom0 rl = 0 ->
  Forall (fun t => mom_cos rl (tw t) = 0 /\ mom_sin rl (tw t) = tw t) ts ->
  forall x, rapply rl (tpoly a0 ts) x = tderiv ts x /\
            derivable_pt_lim (tpoly a0 ts) x (rapply rl (tpoly a0 ts) x).
Proof. exact rule_exact_trig_poly1. Qed.
Print Assumptions rule_exact_on_trig_polynomials.

(* the condition on the constant term is exactly what is needed: on the constant a0 the rule returns a0 * sum c *)
Theorem constant_term_condition : forall (rl : rrule) (a0 x : R), rapply rl (tpoly a0 []) x = a0 * mom0 rl.
Proof. exact const_term_needs_mom0. Qed.
Print Assumptions constant_term_condition.

(* PennyLane's first-order rules are antisymmetric (concatenate((c,-c)), concatenate((s,-s))): the constant
   and the cosine moment vanish automatically and ONE condition per frequency remains *)
Theorem antisymmetric_rule_moments : forall (h : rrule) (w : R),
  mom0 (antisym h) = 0 /\ mom_cos (antisym h) w = 0 /\ mom_sin (antisym h) w = 2 * mom_sin h w.
Proof. exact antisym_moments. Qed.
Print Assumptions antisymmetric_rule_moments.

Theorem antisymmetric_rule_exact : forall (h : rrule) (a0 : R) (ts : list tterm),
  Forall (fun t => 2 * mom_sin h (tw t) = tw t) ts ->
  forall x, derivable_pt_lim (tpoly a0 ts) x (rapply (antisym h) (tpoly a0 ts) x).
Proof. exact antisym_rule_exact. Qed.
Print Assumptions antisymmetric_rule_exact.

(* (b) the two-term rule; w = 1 is c = +-1/2 at s = +-pi/2 *)
Theorem two_term_rule_exact : forall w, w <> 0 ->
  two_term w = [(w / 2, PI / (2 * w)); (- (w / 2), - (PI / (2 * w)))] /\
  mom_cos (two_term w) w = 0 /\ mom_sin (two_term w) w = w.
Proof. intros w Hw; split; [reflexivity | exact (two_term_moments w Hw)]. Qed.
Print Assumptions two_term_rule_exact.

(* second derivative: moments (-w^2, 0) *)
Theorem rule_exact_order2_iff_moments : forall (rl : rrule) (w : R),
  ((forall x, rapply rl (fun t => cos (w * t)) x = - (w * w) * cos (w * x)) /\
   (forall x, rapply rl (fun t => sin (w * t)) x = - (w * w) * sin (w * x)))
  <-> (mom_cos rl w = - (w * w) /\ mom_sin rl w = 0).
Proof. exact exact_iff_moments2. Qed.
Print Assumptions rule_exact_order2_iff_moments.

Theorem rule_exact_order2_on_trig_polynomials : forall (rl : rrule) (a0 : R) (ts : list tterm),
  a0 * mom0 rl = 0 ->
  Forall (fun t => mom_cos rl (tw t) = - (tw t * tw t) /\ mom_sin rl (tw t) = 0) ts ->
  forall x, rapply rl (tpoly a0 ts) x = tderiv2 ts x /\
            derivable_pt_lim (tpoly a0 ts) x (tderiv ts x) /\
            derivable_pt_lim (tderiv ts) x (rapply rl (tpoly a0 ts) x).
Proof. exact rule_exact_trig_poly2. Qed.
Print Assumptions rule_exact_order2_on_trig_polynomials.

(* _iterate_shift_rule (order 2, before the period wrap): products of coefficients, sums of shifts *)
Theorem iterated_rule_exact : forall (r1 r2 : rrule) (w : R),
  (mom_cos r1 w = 0 /\ mom_sin r1 w = w) -> (mom_cos r2 w = 0 /\ mom_sin r2 w = w) ->
  mom_cos (iterate2 r1 r2) w = - (w * w) /\ mom_sin (iterate2 r1 r2) w = 0.
Proof. exact iterate2_exact. Qed.
Print Assumptions iterated_rule_exact.

Theorem iterated_rule_constant : forall (r1 r2 : rrule), mom0 r1 = 0 -> mom0 (iterate2 r1 r2) = 0.
Proof. exact iterate2_mom0. Qed.
Print Assumptions iterated_rule_constant.

(* the period wrap np.mod(s + T/2, T) - T/2 moves a shift by an integer multiple of T: no moment changes
   provided T is a true period of the frequency (w * T in 2 pi Z) *)
Theorem period_wrap_sound : forall w T s (m k : Z), w * T = 2 * PI * IZR m ->
  cos (w * (s + IZR k * T)) = cos (w * s) /\ sin (w * (s + IZR k * T)) = sin (w * s).
Proof. exact wrap_shift_sound. Qed.
Print Assumptions period_wrap_sound.

(* ------------------------------------------------------------------ (c) the branch test (over Q) *)
Open Scope Q_scope.

(* REFUTED as a criterion for the closed form: frequencies (1,3) pass the equidistant test of _get_shift_rule
   but are not of the form {w,2w,..,Rw}; with the pinned test the call takes the closed-form branch
   (with the repaired test, REPAIRED_BRANCH_TEST = true, it goes to the linear solve) *)
Theorem branch_test_refuted : exists fs : list Q,
  equidistant_test (sortQ fs) = true /\ is_multiples (sortQ fs) = false /\
  generate_branch fs None = (if REPAIRED_BRANCH_TEST then BSolve else BEqui).
Proof. exists [1 # 1; 3 # 1]. exact branch_refuted_13. Qed.
Print Assumptions branch_test_refuted.

(* the repaired criterion (exact form): equal spacing AND smallest frequency = spacing implies {w,2w,..,Rw} *)
Theorem repaired_branch_test_sound : forall sorted : list Q,
  equally_spaced_exact sorted = true -> min_is_spacing_exact sorted = true -> is_multiples sorted = true.
Proof. exact repaired_test_sound_exact. Qed.
Print Assumptions repaired_branch_test_sound.

(* ------------------------------------------------------------------ (d) process_shifts (over Q) *)
(* merging rows whose shifts agree after rounding to 10 decimals preserves sum c g(s) taken at the rounded
   shifts, for every function g and every rule *)
Theorem merge_preserves_sum_rounded : forall (g : Q -> Q) (r : qrule),
  qsum g (merge_always r) == qsum g (rounded r).
Proof. exact merge_always_sum. Qed.
Print Assumptions merge_preserves_sum_rounded.

(* merging equal shifts (shifts on the 1e-10 grid) preserves sum c g(s) for every g and every rule *)
Theorem merge_preserves_sum_on_grid : forall (g : Q -> Q), Proper (Qeq ==> Qeq) g ->
  forall r : qrule, on_grid r -> qsum g (merge r) == qsum g r.
Proof. exact merge_preserves_sum. Qed.
Print Assumptions merge_preserves_sum_on_grid.

(* dropping zero coefficients, merging and the final lexsort together *)
Theorem process_core_preserves_sum_on_grid : forall (g : Q -> Q), Proper (Qeq ==> Qeq) g ->
  forall r : qrule, on_grid r -> qsum g (process_core r) == qsum g r.
Proof. exact process_core_preserves_sum. Qed.
Print Assumptions process_core_preserves_sum_on_grid.

Theorem sort_is_permutation : forall r : qrule, Permutation.Permutation (sort_rule r) r.
Proof. exact sort_rule_perm. Qed.
Print Assumptions sort_is_permutation.

(* ------------------------------------------------------------------ non-vacuity *)
Open Scope R_scope.
(* the hypotheses of rule_exact_on_trig_polynomials are met by generate_shift_rule((1,)) on a0 + a cos x + b sin x *)
Example hyps_satisfiable : forall a0 a b,
  a0 * mom0 (two_term 1) = 0 /\
  Forall (fun t => mom_cos (two_term 1) (tw t) = 0 /\ mom_sin (two_term 1) (tw t) = tw t) [(1, a, b)].
Proof.
  intros a0 a b. split.
  - destruct (antisym_moments [(1 / 2, PI / (2 * 1))] 0) as [H _]. unfold two_term. rewrite H. apply Rmult_0_r.
  - constructor; [| constructor]. exact (two_term_moments 1 R1_neq_R0).
Qed.

Open Scope Q_scope.
Example process_example :
  eq_qrule (process_shifts [(1 # 2, 1 # 2); (1 # 4, 1 # 2); (-1 # 1, -1 # 2)]) [(3 # 4, 1 # 2); (-1 # 1, -1 # 2)] = true
  /\ generate_branch [1 # 1; 2 # 1; 3 # 1] None = BEqui /\ generate_branch [1 # 1; 2 # 1; 4 # 1] None = BSolve
  /\ generate_branch [1 # 1; 1 # 1] None = BErr.
Proof. vm_compute. repeat split; reflexivity. Qed.
