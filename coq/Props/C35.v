From Coq Require Import List ZArith QArith Bool Reals.
From PLV Require Import Num.ShiftRulesModel Num.ShiftRulesProofs.
Import ListNotations.
Theorem stub : equidistant_test (sortQ [1#1; 3#1]) = true /\ is_multiples (sortQ [1#1; 3#1]) = false.
Proof. exact branch_refuted_stub. Qed.
Print Assumptions stub.
