(* C51 Pauli algebra agrees with matrix algebra.
   Statements only; every proof is `exact <lemma>` from Disc/PauliAlgProofs.v.
   Coefficients: Gaussian integers GZ = Z*Z (Gaussian dyadic rationals over a common power-of-two denominator).
   Matrices: functions of row bits and column bits (first wire of the wire order = most significant bit). *)
From Coq Require Import List ZArith Bool.
From PLV Require Import Disc.PauliAlgModel Disc.PauliAlgProofs.
Import ListNotations.
Open Scope Z_scope.

(* all 16 single-qubit products: (matrix of p)(matrix of q) = i^k * matrix of r, where mul_map[p][q] = (i^k, r) *)
Theorem table_ok : forall p q a b,
  csum (map (fun k => cmul (mat1 p a k) (mat1 q k b)) [false; true]) =
  cmul (iph (fst (mul1 p q))) (mat1 (snd (mul1 p q)) a b).
Proof. exact table_ok_l. Qed.
Print Assumptions table_ok.

(* Kronecker mixed-product, all n: for full words (one letter per wire) the product of the Kronecker
   matrices is the phase times the Kronecker matrix of the wire-wise product *)
Theorem full_word_mul_hom : forall l1 l2 r c,
  length l2 = length l1 -> length r = length l1 -> length c = length l1 ->
  mmul (length l1) (kmat l1) (kmat l2) r c = cmul (iph (fst (fmul l1 l2))) (kmat (snd (fmul l1 l2)) r c).
Proof. exact full_mul_hom_l. Qed.
Print Assumptions full_word_mul_hom.

(* PauliWord._matmul (dict merge with the base/iterator swap) is the wire-wise product with phases multiplied,
   for every duplicate-free wire order containing the wires; the result is again canonical *)
Theorem word_mul_algebraic : forall a b order,
  wf a -> wf b -> NoDup order -> covered order a -> covered order b ->
  wf (snd (wmul a b)) /\
  (forall x, lookup (snd (wmul a b)) x = snd (mul1 (lookup a x) (lookup b x))) /\
  expand order (snd (wmul a b)) = snd (fmul (expand order a) (expand order b)) /\
  fst (wmul a b) = fst (fmul (expand order a) (expand order b)).
Proof. exact wmul_algebraic_l. Qed.
Print Assumptions word_mul_algebraic.

(* mat(w1 @ w2) = mat(w1) mat(w2), all words, all n, every wire order *)
Theorem word_mul_hom : forall a b order r c,
  wf a -> wf b -> NoDup order -> covered order a -> covered order b ->
  length r = length order -> length c = length order ->
  mmul (length order) (wmat order a) (wmat order b) r c =
  cmul (iph (fst (wmul a b))) (wmat order (snd (wmul a b)) r c).
Proof. exact word_mul_hom_l. Qed.
Print Assumptions word_mul_hom.

(* sums and scalar multiples, coefficient level (all sentences, no side condition) *)
Theorem add_coeff : forall a b u, coeff (sadd a b) u = cadd (coeff a u) (coeff b u).
Proof. exact coeff_sadd. Qed.
Print Assumptions add_coeff.

Theorem add_comm_assoc : forall a b c u,
  coeff (sadd a b) u = coeff (sadd b a) u /\
  coeff (sadd a (sadd b c)) u = coeff (sadd (sadd a b) c) u.
Proof. intros a b c u; rewrite !coeff_sadd; split; [apply cadd_comm | apply cadd_assoc]. Qed.
Print Assumptions add_comm_assoc.

Theorem scalar_laws : forall x y a b u,
  coeff (smul x a) u = cmul x (coeff a u) /\
  coeff (smul x (sadd a b)) u = coeff (sadd (smul x a) (smul x b)) u /\
  coeff (smul x (smul y a)) u = coeff (smul (cmul x y) a) u /\
  coeff (ssub a b) u = csub (coeff a u) (coeff b u).
Proof.
  intros x y a b u; rewrite ?coeff_smul, ?coeff_sadd, ?coeff_smul.
  repeat split; [apply cmul_add_r | apply cmul_assoc | apply coeff_ssub].
Qed.
Print Assumptions scalar_laws.

(* sentence @ sentence realises the bilinear extension of word multiplication ... *)
Theorem sentence_mul_is_bilinear_extension : forall a b u, coeff (smatmul a b) u = bil (delta u) a b.
Proof. exact coeff_smatmul. Qed.
Print Assumptions sentence_mul_is_bilinear_extension.

(* ... hence distributes over + and commutes with scalars, on both sides *)
Theorem sentence_mul_distributes : forall a b c x u,
  coeff (smatmul (sadd a b) c) u = cadd (coeff (smatmul a c) u) (coeff (smatmul b c) u) /\
  coeff (smatmul c (sadd a b)) u = cadd (coeff (smatmul c a) u) (coeff (smatmul c b) u) /\
  coeff (smatmul (smul x a) b) u = cmul x (coeff (smatmul a b) u) /\
  coeff (smatmul a (smul x b)) u = cmul x (coeff (smatmul a b) u).
Proof.
  intros a b c x u; repeat split;
    [apply smatmul_distr_l | apply smatmul_distr_r | apply smatmul_smul_l | apply smatmul_smul_r].
Qed.
Print Assumptions sentence_mul_distributes.

(* matrices: mat(a+b) = mat a + mat b, mat(x*a) = x * mat a (all sentences, any wire order) *)
Theorem sentence_add_scalar_mat_hom : forall order a b x r c,
  smat order (sadd a b) r c = cadd (smat order a r c) (smat order b r c) /\
  smat order (smul x a) r c = cmul x (smat order a r c).
Proof. intros; split; [apply smat_sadd | apply smat_smul]. Qed.
Print Assumptions sentence_add_scalar_mat_hom.

(* mat(a @ b) = mat(a) mat(b) for sentences of canonical words, all n, every wire order containing the wires *)
Theorem sentence_mul_mat_hom : forall order a b r c,
  NoDup order -> sent_wf order a -> sent_wf order b ->
  length r = length order -> length c = length order ->
  smat order (smatmul a b) r c = mmul (length order) (smat order a) (smat order b) r c.
Proof. exact smatmul_mat_hom_l. Qed.
Print Assumptions sentence_mul_mat_hom.

(* commutes_with = parity of the number of wires where both words act with different letters *)
Theorem commutes_iff_even_overlap : forall a b, wf a -> commutes a b = Z.even (overlap a b).
Proof. exact commutes_even_l. Qed.
Print Assumptions commutes_iff_even_overlap.

(* ... and that parity really decides commutation: b@a has the same word as a@b, with the same phase iff
   commutes_with says so (opposite phase otherwise) *)
Theorem commutes_decides_products : forall a b, wf a -> wf b ->
  snd (wmul b a) = snd (wmul a b) /\
  iph (fst (wmul b a)) = cmul (if commutes a b then c1 else cneg c1) (iph (fst (wmul a b))).
Proof. intros a b Wa Wb; split; [apply wmul_comm_word | apply wmul_comm_phase]; assumption. Qed.
Print Assumptions commutes_decides_products.

(* word commutator (_commutator) as a formal combination = a@b - b@a, under every linear functional h *)
Theorem word_commutator_is_ab_minus_ba : forall a b (h : word -> GZ), wf a -> wf b ->
  cmul (snd (wcomm a b)) (h (fst (wcomm a b))) =
  csub (cmul (iph (fst (wmul a b))) (h (snd (wmul a b)))) (cmul (iph (fst (wmul b a))) (h (snd (wmul b a)))).
Proof. exact wcomm_spec. Qed.
Print Assumptions word_commutator_is_ab_minus_ba.

(* trace of the matrix = 2^n * coefficient of the identity word; trace() returns that coefficient *)
Theorem trace_is_identity_coeff : forall order s, sent_wf order s ->
  mtrace (length order) (smat order s) = cmul (cpow2 (length order)) (coeff s []).
Proof. exact trace_l. Qed.
Print Assumptions trace_is_identity_coeff.

Theorem trace_method_is_identity_coeff : forall s, NoDup (map fst s) -> strace s = coeff s [].
Proof. exact strace_coeff. Qed.
Print Assumptions trace_method_is_identity_coeff.

(* PauliWord(mapping) yields canonical words, so the hypotheses `wf` above hold for every constructed word *)
Theorem constructed_words_canonical : forall raw, NoDup (map fst raw) -> wf (mkword raw).
Proof. exact mkword_wf. Qed.
Print Assumptions constructed_words_canonical.

(* sentence-level commutator: only the word-level statement above is proved; the lifting of
   PauliSentence.commutator to  a@b - b@a  at the coefficient level is tied by correspondence only. *)

(* non-vacuity: concrete canonical words on a concrete wire order; X(0)Y(1) @ X(1)Z(2) = -i X(0)Z(1)Z(2) *)
Example hyps_satisfiable :
  let a := mkword [(1, PY); (0, PX); (5, PI)] in
  let b := mkword [(2, PZ); (1, PX)] in
  wf a /\ wf b /\ NoDup [2; 0; 1] /\ covered [2; 0; 1] a /\ covered [2; 0; 1] b /\
  wmul a b = (3, [(0, PX); (1, PZ); (2, PZ)]) /\ commutes a b = false /\ overlap a b = 1 /\
  to_mat [0] [([(0, PY)], (1, 0))] = Some [[(0, 0); (0, -1)]; [(0, 1); (0, 0)]].
Proof.
  cbv zeta.
  split; [vm_compute; intuition discriminate |].
  split; [vm_compute; intuition discriminate |].
  split; [repeat constructor; cbn; intuition discriminate |].
  split; [intros i H; vm_compute in H; cbn; intuition |].
  split; [intros i H; vm_compute in H; cbn; intuition |].
  repeat split; reflexivity.
Qed.
