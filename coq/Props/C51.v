(* C51 Pauli algebra agrees with matrix algebra. *)
From Coq Require Import List ZArith Bool.
From PLV Require Import Disc.PauliAlgModel Disc.PauliAlgProofs.
Import ListNotations.
Open Scope Z_scope.

Theorem table_ok : forall p q a b,
  csum (map (fun k => cmul (mat1 p a k) (mat1 q k b)) [false; true]) =
  cmul (iph (fst (mul1 p q))) (mat1 (snd (mul1 p q)) a b).
Proof. exact table_ok_l. Qed.
Print Assumptions table_ok.
