From Coq Require Import List ZArith Bool.
From PLV Require Import Num.JacProdModel Num.JacProdProofs.
Import ListNotations.
Open Scope Z_scope.
Theorem stub_dot_nil : forall a, dot a [] = 0.
Proof. exact dot_nil_r. Qed.
Print Assumptions stub_dot_nil.
