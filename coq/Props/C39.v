(* C39 Jacobian-product utilities contract Jacobians correctly.
   Statements only; every proof is `exact <lemma>` from Num/JacProdProofs.v.
   Dense data: a measurement m has a kind (m_sc = rank-0 entries), a cotangent m_dy (list of its entries) and
   Jacobian rows m_rows (one per trainable parameter, each as long as m_dy); enc_dy / enc_jac_t / enc_jac_a build
   PennyLane's nested tuple structure from it (wf_m k = well-shaped with k parameters). *)
From Coq Require Import List ZArith Bool.
From PLV Require Import Num.JacProdModel Num.JacProdProofs.
Import ListNotations.
Open Scope Z_scope.

(* result[p] = sum_m sum_i dy[m][i] * J[m][p][i], whichever path (einsum scalar / einsum vector / except-fallback)
   compute_vjp_multi takes *)
Theorem vjp_is_contraction : forall k ms, k <> O -> ms <> [] -> Forall (wf_m k) ms ->
  exists c, compute_vjp_multi (enc_dy ms) (enc_jac_t ms) = Ok (VT (T1 c)) /\ length c = k /\
            forall p, nth p c 0 = contract_vjp ms p.
Proof. exact vjp_multi_tuple_contraction. Qed.
Print Assumptions vjp_is_contraction.

(* one trainable parameter: jac is a tuple of arrays (the `not isinstance(jac[0], tuple)` branch) *)
Theorem vjp_is_contraction_single_param : forall ms, ms <> [] -> Forall (wf_m 1) ms ->
  compute_vjp_multi (enc_dy ms) (enc_jac_a ms) = Ok (VT (T1 [contract_vjp ms 0])).
Proof. exact vjp_multi_array_contraction. Qed.
Print Assumptions vjp_is_contraction_single_param.

(* compute_vjp_single: tuple of per-parameter arrays (num == 1 and num > 1 paths), and a bare array *)
Theorem vjp_single_is_contraction : forall sc dy rows,
  wf_d sc (length dy) -> rows <> [] -> Forall (fun r => length r = length dy) rows ->
  compute_vjp_single (enc_e sc dy) (VTup (map (enc_e sc) rows)) = Ok (VT (T1 (map (dot dy) rows))).
Proof. exact vjp_single_tuple_ok. Qed.
Print Assumptions vjp_single_is_contraction.

Theorem vjp_single_array_is_contraction : forall sc dy row,
  wf_d sc (length dy) -> length row = length dy ->
  compute_vjp_single (enc_e sc dy) (enc_e sc row) = Ok (VT (T1 [dot dy row])).
Proof. exact vjp_single_array_ok. Qed.
Print Assumptions vjp_single_array_is_contraction.

(* compute_vjp_multi = sum over the measurements of compute_vjp_single *)
Theorem multi_is_sum_of_singles : forall k ms, k <> O -> ms <> [] -> Forall (wf_m k) ms ->
  Forall (fun m => compute_vjp_single (enc_e (m_sc m) (m_dy m)) (VTup (map (enc_e (m_sc m)) (m_rows m)))
                   = Ok (VT (T1 (map (dot (m_dy m)) (m_rows m))))) ms /\
  compute_vjp_multi (enc_dy ms) (enc_jac_t ms)
  = match sum_stack (map (fun m => T1 (map (dot (m_dy m)) (m_rows m))) ms) with
    | Some t => Ok (VT t) | None => Err end.
Proof. exact vjp_multi_sum_of_singles. Qed.
Print Assumptions multi_is_sum_of_singles.

(* JVP: result[i] = sum_p J[p][i] * tangent[p]  (scalar measurement, vector measurement, bare array) *)
Theorem jvp_is_contraction_scalar : forall tg rows, length tg = length rows -> rows <> [] ->
  compute_jvp_single tg (VTup (map (enc_e true) rows)) = Ok (VT (T0 (dot tg (map (hd 0) rows)))).
Proof. exact jvp_single_scalar_ok. Qed.
Print Assumptions jvp_is_contraction_scalar.

Theorem jvp_is_contraction : forall d tg rows, length tg = length rows -> rows <> [] ->
  Forall (fun r => length r = d) rows ->
  exists L, compute_jvp_single tg (VTup (map (enc_e false) rows)) = Ok (VT (T1 L)) /\ length L = d /\
            forall i, nth i L 0 = contract_jvp tg rows i.
Proof. exact jvp_single_vector_ok. Qed.
Print Assumptions jvp_is_contraction.

Theorem jvp_single_param_is_scaling : forall c t, is_shape0 t = false ->
  compute_jvp_single [c] (VT t) = Ok (VT (tscale c t)).
Proof. exact jvp_single_array_ok. Qed.
Print Assumptions jvp_single_param_is_scaling.

(* compute_jvp_multi is compute_jvp_single per measurement, in order *)
Theorem jvp_multi_is_singles : forall tg js,
  compute_jvp_multi tg (VTup js)
  = match all_ok (map (compute_jvp_single tg) js) with Some l => Ok (VTup l) | None => Err end.
Proof. exact jvp_multi_is_map. Qed.
Print Assumptions jvp_multi_is_singles.

(* vjp(): the all-zero-dy shortcut returns exactly what the contraction of the Jacobian would return *)
Theorem zero_dy_shortcut_sound : forall t g results ms,
  tp_k t <> O -> multi t = true -> partitioned t = false -> ms <> [] ->
  Forall (wf_m (tp_k t)) ms -> Forall (fun m => Forall (eq 0) (m_dy m)) ms ->
  snd g results = enc_jac_t ms ->
  snd (vjp_tape t (enc_dy ms) g) results = vjp_proc t (enc_dy ms) g results.
Proof. exact zero_dy_shortcut_multi. Qed.
Print Assumptions zero_dy_shortcut_sound.

Theorem zero_dy_shortcut_sound_single_measurement : forall t g results sc dy rows,
  tp_k t <> O -> multi t = false -> partitioned t = false ->
  wf_d sc (length dy) -> length rows = tp_k t -> Forall (fun r => length r = length dy) rows ->
  Forall (eq 0) dy -> snd g results = VTup (map (enc_e sc) rows) ->
  snd (vjp_tape t (enc_e sc dy) g) results = vjp_proc t (enc_e sc dy) g results.
Proof. exact zero_dy_shortcut_single. Qed.
Print Assumptions zero_dy_shortcut_sound_single_measurement.
(* zero_dy_shortcut for tapes WITH a shot vector (sum over the shot copies) is covered by the correspondence
   run only, not by a theorem. *)

(* jvp(): the all-zero-tangent shortcut returns exactly what the contraction path returns, for a tape with a shot
   vector (one zero result per shot copy; shots_rows = the Jacobian rows of every shot copy) and without one.
   Stated for single-measurement tapes of any dimension d (d = 0: scalar measurement); several measurements
   per tape are covered by the correspondence run. *)
Theorem zero_tangent_shortcut_sound_shot_vector : forall t g results d tg shots_rows,
  tp_k t <> O -> tp_meas t = [d] -> partitioned t = true ->
  Forall (eq 0) tg -> length tg = tp_k t ->
  length shots_rows = tp_shots t -> Forall (wf_rows (tp_k t) d) shots_rows ->
  snd g results = VTup (map (enc_jrows d) shots_rows) ->
  snd (jvp_tape t tg g) results = jvp_proc t tg g results.
Proof. exact zero_tangent_shortcut_shots. Qed.
Print Assumptions zero_tangent_shortcut_sound_shot_vector.

Theorem zero_tangent_shortcut_sound : forall t g results d tg rows,
  tp_k t <> O -> tp_meas t = [d] -> partitioned t = false ->
  Forall (eq 0) tg -> length tg = tp_k t -> wf_rows (tp_k t) d rows ->
  snd g results = enc_jrows d rows ->
  snd (jvp_tape t tg g) results = jvp_proc t tg g results.
Proof. exact zero_tangent_shortcut_noshots. Qed.
Print Assumptions zero_tangent_shortcut_sound.

(* batch processing: tape t receives results[offset_t : offset_t + n_t]; `append` keeps one entry per tape in
   tape order; `extend` concatenates the iterated entries in tape order (None tapes are skipped); any exception
   (and, for extend, a non-iterable 0-d entry) aborts the whole batch *)
Theorem batch_slices : forall fs results t n f, nth_error fs t = Some (n, f) ->
  nth_error (run_all fs results) t = Some (f (firstn n (skipn (offset t fs) results))).
Proof. exact run_all_slice. Qed.
Print Assumptions batch_slices.

Theorem batch_reduction_order_append : forall fs results vs, all_ok (run_all fs results) = Some vs ->
  batch_loop false fs results [] = Ok (VTup vs).
Proof. exact batch_append_ok. Qed.
Print Assumptions batch_reduction_order_append.

Theorem batch_reduction_order_extend : forall fs results vs ls, all_ok (run_all fs results) = Some vs ->
  all_some (map iter_or_skip vs) = Some ls ->
  batch_loop true fs results [] = Ok (VTup (concat ls)).
Proof. exact batch_extend_ok. Qed.
Print Assumptions batch_reduction_order_extend.

Theorem batch_error_propagates : forall ext fs results, all_ok (run_all fs results) = None ->
  batch_loop ext fs results [] = Err.
Proof. exact batch_err. Qed.
Print Assumptions batch_error_propagates.

Theorem batch_extend_scalar_raises : forall fs results vs, all_ok (run_all fs results) = Some vs ->
  all_some (map iter_or_skip vs) = None -> batch_loop true fs results [] = Err.
Proof. exact batch_extend_not_iterable. Qed.
Print Assumptions batch_extend_scalar_raises.

(* non-vacuity: a well-shaped ragged two-measurement, two-parameter instance (docstring example 2 of
   compute_vjp_multi scaled by 4 resp. 10) and a batch instance *)
Example wf_instance :
  let ms := [ {| m_sc := true; m_dy := [4]; m_rows := [[1]; [2]] |};
              {| m_sc := false; m_dy := [4; 8]; m_rows := [[3; 4]; [5; 6]] |} ] in
  Forall (wf_m 2) ms /\ compute_vjp_multi (enc_dy ms) (enc_jac_t ms) = Ok (VT (T1 [48; 76])).
Proof.
  cbn zeta. split; [|vm_compute; reflexivity].
  repeat constructor; cbn; try discriminate; auto.
Qed.

Example batch_instance :
  let fs := [ (1%nat, fun sl => Ok (VT (T1 sl))); (0%nat, fun _ => Ok VNone); (2%nat, fun sl => Ok (VT (T1 sl))) ] in
  batch_loop false fs [7; 8; 9] [] = Ok (VTup [VT (T1 [7]); VNone; VT (T1 [8; 9])]) /\
  batch_loop true fs [7; 8; 9] [] = Ok (VTup [VT (T0 7); VT (T0 8); VT (T0 9)]).
Proof. split; vm_compute; reflexivity. Qed.

Example zero_tangent_shots_instance :
  let t := Build_tape 2 [2%nat] 3 in
  let rows := [[1; 2]; [3; 4]] in
  partitioned t = true /\ Forall (wf_rows (tp_k t) 2) [rows; rows; rows] /\
  snd (jvp_tape t [0; 0] (1%nat, fun _ => VTup (map (enc_jrows 2) [rows; rows; rows]))) [1]
  = Ok (VTup [VT (T1 [0; 0]); VT (T1 [0; 0]); VT (T1 [0; 0])]).
Proof. cbn zeta. repeat split; try reflexivity; repeat constructor. Qed.
