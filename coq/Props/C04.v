(* C04 Operator equality is an equivalence compatible with hashing and matrices.
   Statements only; every proof is `exact <lemma>` from Disc/EqualProofs.v.
   `equal_item rtol atol` is the Gallina transcription of qp.equal (Disc/EqualModel.v). *)
From Coq Require Import List ZArith QArith Qabs Qminmax Bool.
From PLV Require Import Disc.EqualModel Disc.EqualProofs.
Import ListNotations.

(* qp.equal holds for every operator / measurement process compared with itself (tolerances >= 0) *)
Theorem equal_refl : forall rtol atol, (0 <= rtol)%Q -> (0 <= atol)%Q ->
  forall a : item, equal_item rtol atol a a = true.
Proof. exact equal_refl_item. Qed.
Print Assumptions equal_refl.

(* the asymmetry window of allclose, exactly: close a b holds and close b a fails iff
   atol + rtol|a| < |a-b| <= atol + rtol|b| *)
Theorem allclose_asym_window : forall rtol atol a b,
  (close rtol atol a b = true /\ close rtol atol b a = false) <->
  (atol + rtol * Qabs a < Qabs (a - b) /\ Qabs (a - b) <= atol + rtol * Qabs b)%Q.
Proof. exact close_asym_window. Qed.
Print Assumptions allclose_asym_window.

(* `far`: equal, or farther apart than atol + rtol*|.| measured from either side;
   implied by |a-b| > atol + rtol*max(|a|,|b|) and a fortiori by the factor-2 bound of the property *)
Theorem far_from_max_bound : forall rtol atol a b, (0 <= rtol)%Q ->
  (atol + rtol * Qmax (Qabs a) (Qabs b) < Qabs (a - b))%Q -> far rtol atol a b.
Proof. exact far_of_max. Qed.
Print Assumptions far_from_max_bound.

Theorem far_from_twice_max_bound : forall rtol atol a b, (0 <= rtol)%Q -> (0 <= atol)%Q ->
  (2 * (atol + rtol * Qmax (Qabs a) (Qabs b)) < Qabs (a - b))%Q -> far rtol atol a b.
Proof. exact far_of_twice_max. Qed.
Print Assumptions far_from_twice_max_bound.

(* same answer in both argument orders whenever every pair of numeric fields (parameters, scalars,
   coefficients, eigenvalues) of the two objects is identical or outside the tolerance window;
   all structural differences (class, wires, hyperparameters, control values, exponents, operand
   lists) are covered without any hypothesis *)
Theorem equal_sym_when_far_or_identical : forall rtol atol (a b : item),
  all_far rtol atol (nums_item a) (nums_item b) ->
  equal_item rtol atol a b = equal_item rtol atol b a.
Proof. exact equal_sym_item. Qed.
Print Assumptions equal_sym_when_far_or_identical.

(* objects built from identical data are equal (in both orders) *)
Theorem same_data_equal : forall rtol atol, (0 <= rtol)%Q -> (0 <= atol)%Q ->
  forall a b : item, a = b -> equal_item rtol atol a b = true /\ equal_item rtol atol b a = true.
Proof. exact same_data_equal_item. Qed.
Print Assumptions same_data_equal.

(* with rtol = atol = 0, equality forces the same structure up to the documented normalisations:
   Identity ignores wires, control wires are a wire->value map, Sum/Prod operands are compared after
   the class's _sort, equal pauli_rep short-cuts SProd/Sum/Prod (same_struct in EqualProofs.v) *)
Theorem equal_exact_implies_same_structure : forall a b : item,
  equal_item 0 0 a b = true -> same_struct_item a b.
Proof. exact equal_exact_same_struct_item. Qed.
Print Assumptions equal_exact_implies_same_structure.

(* ---- non-vacuity *)
Open Scope Q_scope.
(* an asymmetric pair exists: rtol = 1/4, atol = 1/8, a = 1, b = 7/5 *)
Example asym_window_inhabited :
  close (1#4) (1#8) 1 (7#5) = true /\ close (1#4) (1#8) (7#5) 1 = false.
Proof. vm_compute. split; reflexivity. Qed.

(* hence qp.equal itself is not symmetric inside the window (RX(1) vs RX(7/5)) ... *)
Example equal_not_symmetric_inside_window :
  let a := IOp (Plain 5 [[1]] [0%Z] 1) in let b := IOp (Plain 5 [[7#5]] [0%Z] 1) in
  equal_item (1#4) (1#8) a b = true /\ equal_item (1#4) (1#8) b a = false.
Proof. vm_compute. split; reflexivity. Qed.

(* ... and the hypothesis of the symmetry theorem is satisfiable by genuinely different data *)
Example far_inhabited : all_far (1#4) (1#8) [1] [3].
Proof.
  intros x y [<- | []] [<- | []]. apply far_from_max_bound; [discriminate | vm_compute; reflexivity].
Qed.

(* operand order of a product of factors on different wires is normalised away (keys 0 < 1) *)
Example prod_order_normalised :
  let x := Plain 7 [] [0%Z] 1 in let y := Plain 8 [] [1%Z] 1 in
  equal 0 0 (Comp 3 SORT_PROD None [(0%Z, [0%Z], x); (1%Z, [1%Z], y)])
            (Comp 3 SORT_PROD None [(1%Z, [1%Z], y); (0%Z, [0%Z], x)]) = true.
Proof. vm_compute. reflexivity. Qed.
