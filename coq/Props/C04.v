From Coq Require Import List ZArith QArith Bool.
From PLV Require Import Disc.EqualModel Disc.EqualProofs.
Theorem placeholder : true = true. Proof. exact placeholder_true. Qed.
Print Assumptions placeholder.
