From Coq Require Import List ZArith QArith Bool.
From PLV Require Import Disc.FermiModel Disc.FermiProofs.
Import ListNotations.
Theorem empty_word_is_identity : forall m n, fw_image m n [] = Some (ident n).
Proof. exact fw_image_nil. Qed.
Print Assumptions empty_word_is_identity.
