(* C53 Fermion-to-qubit mappings are faithful representations.
   Statements only; every proof is `exact <lemma>` from Disc/FermiProofs.v.
   `sequiv A B` = equal coefficient functions (forall Pauli words w, coef A w == coef B w over Q(i)).
   Ladder operators are (orbital, creation?) pairs; op_image m n l is the image of one ladder operator under
   mapping m in {JW, PT, BK} on an n-qubit register (None = the ValueError for an orbital outside the register). *)
From Coq Require Import List ZArith QArith Bool Arith.
From PLV Require Import Disc.FermiModel Disc.FermiProofs.
Import ListNotations.
Local Open Scope nat_scope.

(* ---- Jordan-Wigner, every register size and every pair of modes ---- *)

(* CAR: {a_p^s, a_q^t} = delta_pq * [s <> t] * 1, i.e. {a_p, a_q^+} = delta_pq, {a_p, a_q} = {a_p^+, a_q^+} = 0 *)
Theorem jw_car : forall n p q s t, p < n -> q < n ->
  sequiv (anticomm (jw_op n (p, s)) (jw_op n (q, t))) (delta_ident n (Nat.eqb p q && xorb s t)).
Proof. exact jw_car_all. Qed.
Print Assumptions jw_car.

(* the key step: Jordan-Wigner strings of different modes overlap on one non-commuting site (odd phase) ... *)
Theorem jw_strings_anticommute : forall p n q P R, p < q -> q < n -> (P = PX \/ P = PY) ->
  let k := fst (wmul (jw_word n p P) (jw_word n q R)) in k = 1%Z \/ k = 3%Z.
Proof. exact jw_words_phase_odd. Qed.
Print Assumptions jw_strings_anticommute.

(* ... and, for ALL Pauli words, (AB)^dagger = B^dagger A^dagger: swapping the factors conjugates the phase *)
Theorem pauli_word_product_adjoint : forall a b,
  snd (wmul b a) = snd (wmul a b) /\ fst (wmul b a) = ((- fst (wmul a b)) mod 4)%Z.
Proof. exact wmul_swap. Qed.
Print Assumptions pauli_word_product_adjoint.

(* ---- all three mappings, every register size ---- *)

(* sums to sums (FermiSentence addition = merging the term lists) *)
Theorem map_is_linear_add : forall m n S1 S2 A1 A2,
  fs_image m n S1 = Some A1 -> fs_image m n S2 = Some A2 ->
  exists A, fs_image m n (S1 ++ S2) = Some A /\ forall v, ceq (coef A v) (cplus (coef A1 v) (coef A2 v)).
Proof. exact fs_image_add. Qed.
Print Assumptions map_is_linear_add.

(* scalars to scalars *)
Theorem map_is_linear_scale : forall m n c S A, fs_image m n S = Some A ->
  exists A', fs_image m n (fsscale c S) = Some A' /\ forall v, ceq (coef A' v) (cmulx (coef A v) c).
Proof. exact fs_image_scale. Qed.
Print Assumptions map_is_linear_scale.

(* products: the image of a word is the ordered product of the images of its ladder operators, and the image of
   u*v is the image of u multiplied from the right by the ladder images of v *)
Theorem map_product_is_product_of_images : forall m n w imgs,
  sequence (map (op_image m n) w) = Some imgs -> fw_image m n w = Some (fold_left smul imgs (ident n)).
Proof. exact fw_image_fold. Qed.
Print Assumptions map_product_is_product_of_images.

Theorem map_of_concatenation : forall m n u v,
  fw_image m n (fmul u v) =
  match fw_image m n u, sequence (map (op_image m n) v) with
  | Some A, Some imgs => Some (fold_left smul imgs A)
  | _, _ => None
  end.
Proof. exact fw_image_app. Qed.
Print Assumptions map_of_concatenation.

(* adjoint on generators: image of a_p^+ is the adjoint of the image of a_p (all mappings, all n, all p) *)
Theorem adjoint_preserved_generators : forall m n p s,
  op_image m n (p, negb s) = omap sadj (op_image m n (p, s)).
Proof. exact op_image_adj. Qed.
Print Assumptions adjoint_preserved_generators.

(* ---- bounded clauses (finite ranges decided by vm_compute; the bound is part of the statement) ---- *)

(* CAR for Jordan-Wigner, parity and Bravyi-Kitaev on every register of at most 6 qubits.
   _partial: parity / Bravyi-Kitaev for n > 6 are not proved. *)
Theorem car_all_mappings_partial : forall m n l1 l2, n <= 6 -> fst l1 < n -> fst l2 < n ->
  exists A B, op_image m n l1 = Some A /\ op_image m n l2 = Some B /\
              sequiv (anticomm A B) (delta_ident n (Nat.eqb (fst l1) (fst l2) && xorb (snd l1) (snd l2))).
Proof. exact car_bounded. Qed.
Print Assumptions car_all_mappings_partial.

(* adjoint of whole words.  _partial: only n <= 5 and words of at most 3 ladder operators (the general statement
   needs associativity of the sentence product, which is not formalised). *)
Theorem adjoint_preserved_partial : forall m n w, n <= 5 -> length w <= 3 -> Forall (fun l => fst l < n) w ->
  exists A B, fw_image m n (fadj w) = Some A /\ fw_image m n w = Some B /\ sequiv A (sadj B).
Proof. exact adj_bounded. Qed.
Print Assumptions adjoint_preserved_partial.

(* image(u*v) = image(u) @ image(v) as sentences.  _partial: n <= 4, |u|,|v| <= 2 (same reason). *)
Theorem product_homomorphism_partial : forall m n u v, n <= 4 -> length u <= 2 -> length v <= 2 ->
  Forall (fun l => fst l < n) u -> Forall (fun l => fst l < n) v ->
  exists X A B, fw_image m n (fmul u v) = Some X /\ fw_image m n u = Some A /\ fw_image m n v = Some B /\
                sequiv X (smul A B).
Proof. exact hom_bounded. Qed.
Print Assumptions product_homomorphism_partial.

(* unitary equivalence: an explicit CNOT network (CNOT = (1 + Z_c + X_t - Z_c X_t)/2 inside the algebra) conjugates
   the Jordan-Wigner image of every ladder operator into its parity / Bravyi-Kitaev image, and every CNOT used is
   unitary.  _partial: n <= 6, generators only (extension to products relies on conjugation being multiplicative). *)
Theorem unitarily_equivalent_parity_partial : forall n l, n <= 6 -> fst l < n ->
  exists B, pt_op n l = Some B /\ sequiv (to_parity n (jw_op n l)) B.
Proof. exact jw_pt_equiv_bounded. Qed.
Print Assumptions unitarily_equivalent_parity_partial.

Theorem unitarily_equivalent_bk_partial : forall n l, n <= 6 -> fst l < n ->
  exists B, bk_op n l = Some B /\ sequiv (to_bk n (jw_op n l)) B.
Proof. exact jw_bk_equiv_bounded. Qed.
Print Assumptions unitarily_equivalent_bk_partial.

Theorem cnot_is_unitary_partial : forall n i j, n <= 6 -> i < j -> j < n ->
  sequiv (smul (cnot n i j) (sadj (cnot n i j))) (ident n).
Proof. exact cnot_unitary_bounded. Qed.
Print Assumptions cnot_is_unitary_partial.

(* the decision procedure behind the bounded clauses is sound for sequiv *)
Theorem sentence_comparison_sound : forall A B, sent_eqb A B = true -> sequiv A B.
Proof. exact sent_eqb_sound. Qed.
Print Assumptions sentence_comparison_sound.

(* non-vacuity: the docstring example a+_0 a_1 under Jordan-Wigner, and an actual CAR instance *)
Example jw_docstring_example :
  run_map JW 0 (FW [(0, true); (1, false)]) =
  Some [([PY; PX], (0, - (1 # 4))%Q); ([PY; PY], (1 # 4, 0)%Q); ([PX; PX], (1 # 4, 0)%Q); ([PX; PY], (0, 1 # 4)%Q)].
Proof. vm_compute. reflexivity. Qed.

Example bk_car_instance :
  exists A B, bk_op 6 (5, false) = Some A /\ bk_op 6 (5, true) = Some B /\ anticomm A B = ident 6.
Proof. eexists; eexists; repeat split; vm_compute; reflexivity. Qed.
