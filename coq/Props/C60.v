(* C60 Classical-shadow estimators are exactly unbiased.
   Statements only; every proof is `exact <lemma>` from Num/ShadowsProofs.v.
   Model (Num/ShadowsModel.v): Gaussian-rational scalars C; an n-qubit operator Op n is a quad-tree of 2x2
   blocks (first measured qubit = outermost block, the layout of global_snapshots); snap1 / snap transcribe
   local_snapshots / global_snapshots; est transcribes pauli_expval; prob n rho rb = 3^-n tr(rho Pi_rb) is the
   exact probability of recipes+outcomes rb; all_rb n enumerates all 6^n (recipe, outcome) rows. *)
From Coq Require Import List ZArith QArith Qcanon Bool.
From PLV Require Import Num.ShadowsModel Num.ShadowsProofs.
Import ListNotations.

(* one qubit, FORMAL 2x2 matrix (a b; c d) with arbitrary complex-rational entries (no Hermiticity or trace
   condition is needed: the map rho -> sum p(rho) * snapshot is the identity on all 2x2 matrices):
   sum_{recipe in X,Y,Z} 1/3 sum_{b in 0,1} tr(rho Pi_{recipe,b}) (3 Pi_{recipe,b} - I) = rho *)
Theorem snapshot_unbiased_1q : forall a b c d : C,
  osum 1 (map (fun x => oscale 1 (cmul (cq qthird) (otr 1 (omul 1 (mkQ a b c d) (proj1 x)))) (snap1 x)) six)
  = mkQ a b c d.
Proof. exact avg_1q_explicit. Qed.
Print Assumptions snapshot_unbiased_1q.

(* all n, all 2^n x 2^n matrices: the probability-weighted average of the global snapshot over all 3^n recipes
   and 2^n outcomes is the matrix itself *)
Theorem snapshot_unbiased_n : forall n (rho : Op n),
  osum n (map (fun rb => oscale n (prob n rho rb) (snap n rb)) (all_rb n)) = rho.
Proof. exact avg_id. Qed.
Print Assumptions snapshot_unbiased_n.

(* the enumeration really is every row of n (recipe, outcome) pairs, 6^n of them *)
Theorem enumeration_complete : forall n rb, In rb (all_rb n) <-> length rb = n.
Proof. intros n rb; split; [apply all_rb_length_in | apply all_rb_complete]. Qed.
Print Assumptions enumeration_complete.
Theorem enumeration_count : forall n, length (all_rb n) = (6 ^ n)%nat.
Proof. exact all_rb_count. Qed.
Print Assumptions enumeration_count.

(* the weights sum to tr rho (a probability distribution for a density matrix) *)
Theorem probabilities_sum_to_trace : forall n (rho : Op n), csum (map (prob n rho) (all_rb n)) = otr n rho.
Proof. exact probs_sum. Qed.
Print Assumptions probabilities_sum_to_trace.

(* the snapshot used by local_snapshots, 3 ((1-2b) P + I)/2 - I, is 3 U^dagger |b><b| U - I for the
   diagonalising rotations of the measurement (H, H S^dagger up to phase, I), which are unitary *)
Theorem snapshot_is_rotated_projector : forall x : RB,
  snap1 x = osub 1 (oscale 1 (cq q3) (rotated_basis x)) pI
  /\ omul 1 (oadj 1 (rot_num (fst x))) (rot_num (fst x)) = oscale 1 (cq (rot_norm2 (fst x))) pI.
Proof. intro x; split; [unfold snap1; rewrite rotated_basis_is_proj1; reflexivity | apply rot_unitary]. Qed.
Print Assumptions snapshot_is_rotated_projector.

(* pauli_expval's value on one snapshot is tr(snapshot * P) *)
Theorem estimator_is_trace_of_snapshot : forall n rb w, length rb = n -> length w = n ->
  cq (est rb w) = otr n (omul n (snap n rb) (pword n w)).
Proof. intros n rb w Hr Hw; rewrite otr_omul; exact (est_is_trace n rb w Hr Hw). Qed.
Print Assumptions estimator_is_trace_of_snapshot.

(* Pauli estimator, one qubit (o = None is the identity, Some r a Pauli letter) *)
Theorem pauli_estimator_unbiased_1q : forall (rho : Op 1) (o : option recipe),
  csum (map (fun rb => cmul (prob 1 rho rb) (cq (est rb [o]))) (all_rb 1)) = otr 1 (omul 1 rho (pword 1 [o])).
Proof. intros rho o; exact (pauli_unbiased 1 rho [o] eq_refl). Qed.
Print Assumptions pauli_estimator_unbiased_1q.

(* Pauli estimator, all n and every Pauli word on n qubits: E[estimate] = tr(rho P) *)
Theorem pauli_estimator_unbiased_n : forall n (rho : Op n) (w : word), length w = n ->
  csum (map (fun rb => cmul (prob n rho rb) (cq (est rb w))) (all_rb n)) = otr n (omul n rho (pword n w)).
Proof. exact pauli_unbiased. Qed.
Print Assumptions pauli_estimator_unbiased_n.

(* sums of Pauli words with rational coefficients (expval(H), k = 1) *)
Theorem observable_sum_estimator_unbiased : forall n (rho : Op n) (h : Ham),
  Forall (fun t => length (snd t) = n) h ->
  csum (map (fun rb => cmul (prob n rho rb) (cq (est_ham rb h))) (all_rb n))
  = csum (map (fun t => cmul (cq (fst t)) (otr n (omul n rho (pword n (snd t))))) h).
Proof. exact ham_unbiased. Qed.
Print Assumptions observable_sum_estimator_unbiased.

(* documented form: T rows of n entries, bits in {0,1}, recipes in {0,1,2} *)
Theorem bits_recipes_form : forall n rec samples,
  length rec = length samples ->
  Forall (fun row => length row = n) rec -> Forall (fun row => length row = n) samples ->
  well_formed (Z.of_nat (length samples)) n (fst (measure_rows rec samples)) (snd (measure_rows rec samples)) = true.
Proof. exact measure_rows_well_formed. Qed.
Print Assumptions bits_recipes_form.
Theorem enumerated_tables_have_documented_form : forall n,
  well_formed (Z.of_nat (length (all_rb n))) n
              (map (fun rb => snd (encode_rb rb)) (all_rb n)) (map (fun rb => fst (encode_rb rb)) (all_rb n)) = true.
Proof. exact enumeration_well_formed. Qed.
Print Assumptions enumerated_tables_have_documented_form.

(* the cheaper evaluators used by the correspondence check compute the specified quantities *)
Theorem fast_evaluators_sound : forall n rho,
  (forall rb, prob_fast n rho rb = prob n rho rb) /\ (forall h, exact_ham_fast n rho h = exact_ham n rho h).
Proof. intros n rho; split; [apply prob_fast_eq | apply exact_ham_fast_eq]. Qed.
Print Assumptions fast_evaluators_sound.

(* non-vacuity / sanity: |+><+| measured in X gives outcome 0 with probability 1/3 (= recipe probability),
   its snapshot entry, and a matching / non-matching estimate *)
Example ex_prob_plus :
  prob 1 (mkQ (cq qhalf) (cq qhalf) (cq qhalf) (cq qhalf)) [(RX, false)] = cq qthird
  /\ prob 1 (mkQ (cq qhalf) (cq qhalf) (cq qhalf) (cq qhalf)) [(RX, true)] = cz.
Proof. split; apply ceqb_eq; vm_compute; reflexivity. Qed.
Example ex_est :
  est [(RX, true); (RZ, false)] [Some RX; None] = (- q3)%Qc /\ est [(RX, true); (RZ, false)] [Some RY; None] = 0%Qc
  /\ length [Some RX; None (A:=recipe)] = 2%nat.
Proof. repeat split; apply qeqb_eq; vm_compute; reflexivity. Qed.
