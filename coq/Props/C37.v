(* C37 Higher-order derivatives are correct.  Statements only (see Props/C34.v for the vocabulary). *)
From Coq Require Import List ZArith QArith Reals Bool.
From Coquelicot Require Import Coquelicot.
From PLV Require Import Alg.Poly Alg.PolyEval Alg.Angles Alg.DerivDef Alg.Deriv Lin.Vec Lin.PVec Lin.PVecSound Lin.Grad Lin.GradSound.
Import ListNotations.

(* iterating the formal derivative gives the iterated partial derivative: d/dtheta_j of the function whose value at
   every parameter vector is d/dtheta_k of p's evaluation *)
Theorem second_formal_derivative_is_second_derivative : forall hz D, (0 < hz)%Z -> Z.even hz = true -> D <> 0%Z ->
  forall th j k p,
    (forall x, Cderive (fun y => peval (aenv hz D (upd th k y)) p) x (peval (aenv hz D (upd th k x)) (pderiv hz D k p))) /\
    (forall x, Cderive (fun y => peval (aenv hz D (upd th j y)) (pderiv hz D k p)) x
                       (peval (aenv hz D (upd th j x)) (pderiv hz D j (pderiv hz D k p)))).
Proof. intros hz D H1 H2 H3 th j k p. split; intros x; apply pderiv_sound; assumption. Qed.
Print Assumptions second_formal_derivative_is_second_derivative.

(* a discharged `hess_rule_ok` obligation: the linear combination of the expectation values of the tapes produced by
   param_shift_hessian is the second partial derivative d/dtheta_j d/dtheta_k of the original tape's expectation value,
   at every parameter vector (stated as: derivative in theta_j of the certified first derivative in theta_k) *)
Theorem hessian_tapes_give_the_second_derivative : forall hz D n j k cs ts t, (0 < hz)%Z -> hess_rule_ok hz D n j k cs ts t = true ->
  forall th,
    (forall x, Cderive (fun y => c_expval n (evtape (aenv hz D (upd th k y)) t)) x
                       (peval (aenv hz D (upd th k x)) (pderiv hz D k (p_expval hz n t)))) /\
    (forall x, Cderive (fun y => peval (aenv hz D (upd th j y)) (pderiv hz D k (p_expval hz n t))) x
            (c_lincomb (map (peval (aenv hz D (upd th j x))) cs)
                       (map (fun t' => c_expval n (evtape (aenv hz D (upd th j x)) t')) ts))).
Proof. exact hess_rule_ok_forall. Qed.
Print Assumptions hessian_tapes_give_the_second_derivative.

(* the formal Hessian is symmetric (mixed partials commute) under every valuation, for every polynomial *)
Theorem formal_hessian_symmetric : forall hz D j k p rho,
  peval rho (pderiv hz D j (pderiv hz D k p)) = peval rho (pderiv hz D k (pderiv hz D j p)).
Proof.
  intros hz D j k p rho. induction p as [|t p IH]; [reflexivity|].
  unfold pderiv in *. cbn [map]. rewrite !peval_cons, IH. f_equal.
  assert (E : forall e i h, nth (S i) (add0 h e) 0%Z = nth (S i) e 0%Z) by (intros [|x e] i h; [destruct i; reflexivity | reflexivity]).
  unfold teval, dterm. cbn [fst snd]. rewrite !E. f_equal.
  rewrite !q2c_red, !q2c_mult, !q2c_red, !q2c_mult. ring.
Qed.
Print Assumptions formal_hessian_symmetric.

(* non-vacuity: RX(theta_0), <Z>: second derivative by the rule (f(t+pi) - 2 f(t) + f(t-pi))/4 ... here with the two
   tapes at +-pi and the unshifted one *)
Definition rx (s : Z) : pgate :=
  ([0%nat], [[ [(1#2, [(2*s)%Z; 2%Z]); (1#2, [(-2*s)%Z; (-2)%Z])];   [(-1#2, [(2*s+4)%Z; 2%Z]); (1#2, [(-2*s+4)%Z; (-2)%Z])] ];
             [ [(-1#2, [(2*s+4)%Z; 2%Z]); (1#2, [(-2*s+4)%Z; (-2)%Z])]; [(1#2, [(2*s)%Z; 2%Z]); (1#2, [(-2*s)%Z; (-2)%Z])] ]]).
Definition obsZ : pobs := [(pone, [([0%nat], [[pone; pzero]; [pzero; pneg pone]])])].
Example second_order_rule_instance :
  hess_rule_ok 8 4 1 0 0 [pconst (1#4); pconst (-1#2); pconst (1#4)] [([rx 2], obsZ); ([rx 0], obsZ); ([rx (-2)], obsZ)] ([rx 0], obsZ) = true.
Proof. vm_compute. reflexivity. Qed.
