(* C57 State-preparation templates prepare the requested state.
   Statements only; every proof is `exact <lemma>` from Disc/StatePrepProofs.v.
   Proved here (for all sizes / inputs): the discrete and exact-arithmetic parts --
   (a) BasisState / BasisEmbedding: the X gates emitted by the decomposition, run from |0..0>, give exactly
       the requested basis state, which is also the one state_vector(wire_order) selects; index formula;
       int_to_binary; input canonicalisation;
   (b) StatePrep / AmplitudeEmbedding pre-processing over Gaussian rationals with rational norm: padding at
       the end to length 2^n, unit norm after normalisation, the accept/reject decision as the code takes it.
   NOT proved (validated per instance by the harness on the real implementation): the numerical angle
   synthesis of Mottonen / Multiplexer / QROM / MPS / Superposition / SumOfSlaters / PartialUnary /
   CosineWindow. *)
From Coq Require Import List ZArith Bool QArith Qabs.
From PLV Require Import Disc.StatePrepModel Disc.StatePrepProofs.
Import ListNotations.

(* ---------------------------------------------------------------- (a) BasisState *)
Open Scope Z_scope.

(* for every number of wires, every bitstring and every labelling: the decomposition's X gates applied to
   the all-zero register of the operator's own wires leave exactly the requested bits ... *)
Theorem basis_decomposition_prepares_bits : forall bits wires,
  NoDup wires -> length bits = length wires ->
  reg_bits (run_x (decomp bits wires) (zero_reg wires)) = bits.
Proof. exact decomp_own_wires. Qed.
Print Assumptions basis_decomposition_prepares_bits.

(* ... i.e. the computational basis state with index sum_i b_i 2^(n-1-i) *)
Theorem basis_decomposition_index : forall bits wires,
  NoDup wires -> length bits = length wires ->
  index_of (reg_bits (run_x (decomp bits wires) (zero_reg wires))) = index_sum bits.
Proof. exact decomp_index_own. Qed.
Print Assumptions basis_decomposition_index.

Theorem index_formula : forall bits,
  index_of bits = index_sum bits /\ 0 <= index_sum bits < 2 ^ Z.of_nat (length bits).
Proof. intros; split; [apply index_of_sum | apply index_sum_range]. Qed.
Print Assumptions index_formula.

(* device primitive = decomposition, on any device register containing the wires (other wires stay 0) *)
Theorem basis_state_vector_equals_decomposition : forall wires bits order,
  NoDup wires -> NoDup order -> incl wires order -> length bits = length wires ->
  state_vector_bits wires bits order = Some (reg_bits (run_x (decomp bits wires) (zero_reg order)))
  /\ reg_bits (run_x (decomp bits wires) (zero_reg order)) = map (fun w => lookup w wires bits) order.
Proof.
  intros; split; [now apply decomp_matches_state_vector | now apply decomp_register].
Qed.
Print Assumptions basis_state_vector_equals_decomposition.

(* accepted inputs: exactly the 0/1 sequences of the right length; Python ints are refused *)
Theorem basis_input_accepted_iff : forall l n bits,
  canonicalize (BSList l) n = Some bits <->
  (length l = n /\ Forall (fun z => z = 0 \/ z = 1) l /\ bits = map (fun z => z =? 1) l).
Proof. exact canonicalize_list. Qed.
Print Assumptions basis_input_accepted_iff.

Theorem basis_integer_input_refused : forall k n, canonicalize (BSScalar k) n = None.
Proof. exact canonicalize_scalar. Qed.
Print Assumptions basis_integer_input_refused.

(* the documented integer -> bits conversion: width bits, big-endian, of k mod 2^width *)
Theorem int_to_binary_is_big_endian : forall k n,
  length (int_to_binary k n) = n /\ index_of (int_to_binary k n) = k mod 2 ^ Z.of_nat n.
Proof. intros; split; [apply int_to_binary_length | apply int_to_binary_index]. Qed.
Print Assumptions int_to_binary_is_big_endian.

Theorem int_to_binary_prepares_k : forall k n wires,
  0 <= k < 2 ^ Z.of_nat n -> NoDup wires -> length wires = n ->
  index_of (reg_bits (run_x (decomp (int_to_binary k n) wires) (zero_reg wires))) = k.
Proof.
  intros k n wires Hk ND L.
  rewrite decomp_own_wires by (auto; rewrite int_to_binary_length; auto).
  now apply int_to_binary_in_range.
Qed.
Print Assumptions int_to_binary_prepares_k.

(* ---------------------------------------------------------------- (b) pre-processing *)
Open Scope Q_scope.

Theorem pad_length : forall st dim p, (length st <= dim)%nat ->
  length (pad st dim p) = dim
  /\ (forall i d, (i < length st)%nat -> nth i (pad st dim p) d = nth i st d)
  /\ (forall i d, (length st <= i < dim)%nat -> nth i (pad st dim p) d = p).
Proof.
  intros st dim p H. split; [now apply StatePrepProofs.pad_length|split].
  - intros; now apply pad_keeps.
  - intros; now apply pad_fills.
Qed.
Print Assumptions pad_length.

Theorem output_has_length_2n : forall a out, preprocess a = POk out -> length out = Nat.pow 2 (pa_nwires a).
Proof. exact preprocess_length. Qed.
Print Assumptions output_has_length_2n.

Theorem normalize_gives_unit_norm : forall r st, r * r == norm2 st -> ~ r == 0 ->
  norm2 (map (cdiv r) st) == 1.
Proof. exact normalize_unit. Qed.
Print Assumptions normalize_gives_unit_norm.

Theorem exact_sqrt_sound : forall q r, qsqrt q = Some r -> r * r == q /\ 0 <= r.
Proof. exact qsqrt_sound. Qed.
Print Assumptions exact_sqrt_sound.

(* with pad_with: never a norm error; the padding is appended, then the whole vector is normalised *)
Theorem padding_then_normalisation : forall a p, pa_pad a = Some p ->
  (length (pa_state a) <= Nat.pow 2 (pa_nwires a))%nat ->
  let padded := pad (pa_state a) (Nat.pow 2 (pa_nwires a)) p in
  match preprocess a with
  | PErr => False
  | POk out => (out = padded /\ exists r, r * r == norm2 padded /\ 0 <= r /\ Qabs (r - 1) <= tol)
               \/ (exists r, r * r == norm2 padded /\ ~ r == 0 /\ out = map (cdiv r) padded /\ norm2 out == 1)
  | _ => True
  end.
Proof. exact preprocess_pad_structure. Qed.
Print Assumptions padding_then_normalisation.

Theorem accepted_state_is_unit_up_to_tol : forall a out, preprocess a = POk out ->
  (pa_validate a || pa_normalize a = true \/ pa_pad a <> None) ->
  norm2 out == 1 \/ exists r, r * r == norm2 out /\ 0 <= r /\ Qabs (r - 1) <= tol.
Proof. exact preprocess_ok_norm. Qed.
Print Assumptions accepted_state_is_unit_up_to_tol.

Theorem reject_iff_not_normalised : forall a r, pa_pad a = None -> pa_normalize a = false ->
  pa_validate a = true -> length (pa_state a) = Nat.pow 2 (pa_nwires a) ->
  qsqrt (norm2 (pa_state a)) = Some r ->
  (preprocess a = PErr <-> ~ Qabs (r - 1) <= tol) /\
  (preprocess a = POk (pa_state a) <-> Qabs (r - 1) <= tol).
Proof. exact StatePrepProofs.reject_iff_not_normalised. Qed.
Print Assumptions reject_iff_not_normalised.

Theorem too_long_rejected : forall a, (Nat.pow 2 (pa_nwires a) < length (pa_state a))%nat ->
  preprocess a = PErr /\ preprocess_csr a = PErr.
Proof. exact StatePrepProofs.too_long_rejected. Qed.
Print Assumptions too_long_rejected.

Theorem wrong_length_rejected_without_pad : forall a, pa_pad a = None ->
  length (pa_state a) <> Nat.pow 2 (pa_nwires a) -> preprocess a = PErr.
Proof. exact StatePrepProofs.wrong_length_rejected_without_pad. Qed.
Print Assumptions wrong_length_rejected_without_pad.

(* quirk transcribed from the code: StatePrep's default validate_norm=False accepts any vector unchanged *)
Theorem unvalidated_input_passes_unchanged : forall a, pa_pad a = None -> pa_normalize a = false ->
  pa_validate a = false -> length (pa_state a) = Nat.pow 2 (pa_nwires a) ->
  preprocess a = POk (pa_state a).
Proof. exact unvalidated_accepted. Qed.
Print Assumptions unvalidated_input_passes_unchanged.

Theorem sparse_normalize_gives_unit_norm : forall a out, pa_normalize a = true -> preprocess_csr a = POk out ->
  length out = Nat.pow 2 (pa_nwires a) /\ norm2 out == 1.
Proof. exact csr_normalize_unit. Qed.
Print Assumptions sparse_normalize_gives_unit_norm.

Theorem sparse_nonzero_padding_refused : forall a p, pa_pad a = Some p -> czero p = false ->
  preprocess_csr a = PErr.
Proof. exact csr_nonzero_pad_rejected. Qed.
Print Assumptions sparse_nonzero_padding_refused.

(* ---------------------------------------------------------------- non-vacuity *)
Example ex_basis : reg_bits (run_x (decomp [true; false; true] [7; 3; 5]%Z) (zero_reg [7; 3; 5]%Z)) = [true; false; true]
  /\ state_vector_index [7; 3; 5]%Z [true; false; true] [5; 9; 7; 3]%Z = Some 10%Z.
Proof. vm_compute. split; reflexivity. Qed.

(* (3, 4, 0) padded with 12 on two wires -> (3, 4, 0, 12)/13 *)
Example ex_pad_normalize :
  preprocess (mkPre [(3, 0); (4, 0); (0, 0)] 2 (Some (12, 0)) false true)
  = POk (map (cdiv (13 # 1)) [(3, 0); (4, 0); (0, 0); (12, 0)]).
Proof. vm_compute. reflexivity. Qed.

Example ex_reject : preprocess (mkPre [(3, 0); (4, 0)] 1 None false true) = PErr
  /\ preprocess (mkPre [(3 # 5, 0); (0, 4 # 5)] 1 None false true) = POk [(3 # 5, 0); (0, 4 # 5)].
Proof. vm_compute. split; reflexivity. Qed.
