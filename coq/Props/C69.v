From Coq Require Import List ZArith Bool QArith.
From PLV Require Import Disc.LatticeModel Disc.LatticeProofs.
Import ListNotations.
Open Scope Z_scope.
