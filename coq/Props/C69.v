(* C69 Spin-model Hamiltonians match their textbook sums; generated lattices have the documented neighbour
   relations.  Statements only; every proof is `exact <lemma>` from Disc/LatticeProofs.v.
   Universally quantified statements: chain / square / rectangle at neighbour order 1 (all sizes, all boundary
   conditions), well-formedness of the edge list for every shape/size/order, and the Hamiltonian assembly loops
   for every edge list.  Other shapes: bounded vm_compute statements with the sizes written in the statement. *)
From Coq Require Import List ZArith Bool QArith Permutation.
From PLV Require Import Disc.LatticeModel Disc.LatticeProofs.
Import ListNotations.
Open Scope Z_scope.

(* every shape, size, boundary condition, order: no duplicated edge, endpoints ordered, 0 <= tag < order *)
Theorem edges_ordered_nodup : forall sp ncs bcs k,
  NoDup (lattice_edges sp ncs bcs k) /\
  forall a b t, In (a, b, t) (lattice_edges sp ncs bcs k) -> a <= b /\ 0 <= t < k.
Proof. exact edges_wf. Qed.
Print Assumptions edges_ordered_nodup.

(* chain, all n >= 1, open or periodic: the edges are exactly (i, i+1) plus (0, n-1) when periodic
   (for n = 2 the wrap edge coincides with (0,1); for n = 1 it is the self-loop (0,0), as in the implementation) *)
Theorem chain_edges_spec : forall n per a b t, 0 < n ->
  (In (a, b, t) (lattice_edges (spec_of Chain) [n] [per] 1) <->
   t = 0 /\ ((0 <= a /\ b = a + 1 /\ b < n) \/ (per = true /\ a = 0 /\ b = n - 1))).
Proof. exact chain_edges_explicit. Qed.
Print Assumptions chain_edges_spec.

Theorem chain_edges_count : forall n per, 0 < n ->
  Z.of_nat (length (lattice_edges (spec_of Chain) [n] [per] 1)) = (n - 1) + (if per && negb (n =? 2) then 1 else 0).
Proof. exact LatticeProofs.chain_edges_count. Qed.
Print Assumptions chain_edges_count.

Theorem chain_edges_irreflexive : forall n per a b t, 2 <= n ->
  In (a, b, t) (lattice_edges (spec_of Chain) [n] [per] 1) -> a < b.
Proof. exact chain_irreflexive. Qed.
Print Assumptions chain_edges_irreflexive.

(* square, all n1, n2 >= 1 and both boundary flags: nearest neighbours = grid adjacency with wrap-around
   (grid_adj: sites r*n2+c and r'*n2+c' with r = r' and c ~ c' along a row, or c = c' and r ~ r' along a column,
    where i ~ i+1 and, in a periodic direction, n-1 ~ 0) *)
Theorem square_edges_spec : forall n1 n2 p1 p2 a b t, 0 < n1 -> 0 < n2 ->
  (In (a, b, t) (lattice_edges (spec_of Square) [n1; n2] [p1; p2] 1) <->
   t = 0 /\ exists u v, grid_adj n1 n2 p1 p2 u v /\ a = Z.min u v /\ b = Z.max u v).
Proof. exact square_edges_in. Qed.
Print Assumptions square_edges_spec.

Theorem rectangle_edges_spec : forall n1 n2 p1 p2 a b t, 0 < n1 -> 0 < n2 ->
  (In (a, b, t) (lattice_edges (spec_of Rectangle) [n1; n2] [p1; p2] 1) <->
   t = 0 /\ exists u v, grid_adj n1 n2 p1 p2 u v /\ a = Z.min u v /\ b = Z.max u v).
Proof. exact square_edges_in. Qed.
Print Assumptions rectangle_edges_spec.

(* the accumulation loops of the builders produce exactly the textbook sums over the edge list (any edge list,
   any couplings: per-order vectors or per-edge matrices): 0*I, then one ZZ (resp. XX, YY, ZZ) term per edge with
   that edge's coupling, then one X term per site *)
Theorem ising_is_edge_sum : forall es J h n,
  ising_terms es J h n =
  H0 ++ map (fun e => (Qopp (coup_at J e), pair_word LZ (e1 e) (e2 e))) es ++ map (fun v => (Qopp h, [(v, LX)])) (range 0 n).
Proof. exact ising_edge_sum. Qed.
Print Assumptions ising_is_edge_sum.

Theorem heisenberg_is_edge_sum : forall es JX JY JZ,
  heis_terms es JX JY JZ =
  H0 ++ flat_map (fun e => [(coup_at JX e, pair_word LX (e1 e) (e2 e)); (coup_at JY e, pair_word LY (e1 e) (e2 e));
                            (coup_at JZ e, pair_word LZ (e1 e) (e2 e))]) es.
Proof. exact heis_edge_sum. Qed.
Print Assumptions heisenberg_is_edge_sum.

(* fermi_hubbard (Jordan-Wigner images of the hopping and n_up n_down terms) *)
Theorem hubbard_is_edge_sum : forall es t U n,
  hubbard_terms es t U n =
  H0 ++ flat_map (fun e => hop_terms (Qopp (coup_at t e)) (2 * e1 e) (2 * e2 e)
                          ++ hop_terms (Qopp (coup_at t e)) (2 * e1 e + 1) (2 * e2 e + 1)) es
     ++ flat_map (fun i => nn_terms (nthQ U i) (2 * i) (2 * i + 1)) (range 0 n).
Proof. exact hubbard_edge_sum. Qed.
Print Assumptions hubbard_is_edge_sum.

(* chain + transverse Ising, all n, all couplings: up to the order of the terms the Hamiltonian is
   0*I - sum_i J Z_i Z_{i+1} [- J Z_0 Z_{n-1} if periodic] - h sum_i X_i *)
Theorem chain_ising_textbook : forall n per J h, 0 < n ->
  Permutation (ising_terms (lattice_edges (spec_of Chain) [n] [per] 1) J h n)
    (H0 ++ map (fun e => (Qopp (coup_at J e), pair_word LZ (e1 e) (e2 e)))
               (map (fun i => (i, i + 1, 0)) (range 0 (n - 1)) ++ (if per && negb (n =? 2) then [(0, n - 1, 0)] else []))
        ++ map (fun v => (Qopp h, [(v, LX)])) (range 0 n)).
Proof. exact LatticeProofs.chain_ising_textbook. Qed.
Print Assumptions chain_ising_textbook.

(* Hermiticity at the term-list level: coefficients are rationals (real) by typing and every term is a Pauli
   word (strictly increasing sites, one of X/Y/Z per site), hence every term is Hermitian *)
Theorem hamiltonian_hermitian : forall es J h n JX JY JZ,
  Forall (fun t : term => pauli_word (snd t)) (ising_terms es J h n) /\
  Forall (fun t : term => pauli_word (snd t)) (heis_terms es JX JY JZ).
Proof. intros; split; [exact (ising_hermitian es J h n) | exact (heis_hermitian es JX JY JZ)]. Qed.
Print Assumptions hamiltonian_hermitian.

(* bounded statements for the remaining shapes (sizes as written): coordination numbers of the fully periodic
   lattices and edge counts (the expected numbers were taken from the real generate_lattice) *)
Theorem coordination_numbers_size3 :
  forallb (fun x : shape * list Z * Z => match x with (s, n, z) => regular s n z end)
    [(Chain, [5], 2); (Square, [3; 4], 4); (Rectangle, [4; 3], 4); (Triangle, [3; 3], 6); (Honeycomb, [3; 3], 3);
     (Kagome, [3; 3], 4); (Cubic, [3; 3; 3], 6); (Bcc, [3; 3; 3], 8); (Fcc, [3; 3; 3], 12); (Diamond, [3; 3; 3], 4)] = true.
Proof. exact coordination_3. Qed.
Print Assumptions coordination_numbers_size3.

Theorem edge_counts_bounded :
  map (fun x : shape * list Z * bool * Z => match x with (s, n, p, k) => n_edges s n p k end)
    [(Square, [3; 3], false, 1); (Square, [3; 3], false, 2); (Square, [3; 3], true, 1); (Triangle, [3; 3], false, 1);
     (Honeycomb, [2; 2], false, 1); (Honeycomb, [3; 3], true, 2); (Kagome, [2; 2], false, 1); (Lieb, [3; 3], true, 1);
     (Lieb, [2; 2], false, 1); (Cubic, [2; 2; 2], false, 1); (Bcc, [2; 2; 2], false, 1); (Fcc, [2; 2; 2], false, 1);
     (Diamond, [2; 2; 2], false, 1)]
  = [12; 20; 18; 16; 8; 81; 17; 36; 12; 12; 27; 108; 20].
Proof. exact edge_counts_small. Qed.
Print Assumptions edge_counts_bounded.

(* non-vacuity: the periodic 2x3 square lattice satisfies the hypotheses and has the expected wrap edge;
   the 1-site periodic chain has the self-loop the implementation produces *)
Example square_wrap_edge : In (0, 2, 0) (lattice_edges (spec_of Square) [2; 3] [true; true] 1) /\ grid_adj 2 3 true true 2 0.
Proof.
  split; [vm_compute; tauto|]. exists 0, 2, 0, 0; repeat split; try reflexivity; try discriminate.
  left; split; auto; right; auto.
Qed.
Example chain_self_loop : lattice_edges (spec_of Chain) [1] [true] 1 = [(0, 0, 0)].
Proof. reflexivity. Qed.
