(* C73 The execution tracker counts what was executed.
   Statements only; every proof is `exact <lemma>` from Disc/TrackerProofs.v.
   `run_ops (init p cb) ops` is ANY program of enter / exit / reset / user update / record / device
   entry-point calls on arbitrary batches run on Tracker(dev, callback, persistent=p);
   `tracked_run p cb calls` is `with Tracker(dev) as t:` followed by an arbitrary list of device calls. *)
From Coq Require Import List ZArith Bool.
From PLV Require Import Disc.ShotsModel Disc.ShotsProofs Disc.TrackerModel Disc.TrackerProofs.
Import ListNotations.
Open Scope Z_scope.

(* every numeric total is the sum of the numeric history entries of its key, and a key is totalled
   exactly when its history has a numeric entry *)
Theorem totals_are_sums : forall p cb ops k,
  let st := run_ops (init p cb) ops in
  get_tot (t_totals st) k = sum_num (get_hist (t_history st) k) /\
  (lookup k (t_totals st) <> None <-> has_num (get_hist (t_history st) k) = true).
Proof. exact totals_are_sums_lemma. Qed.
Print Assumptions totals_are_sums.

(* history lists, per key, the values of all update calls since the last reset, in call order
   (arun = the list of update calls the program performs while active); latest = the last of them *)
Theorem history_in_order : forall p cb ops,
  let st := run_ops (init p cb) ops in
  t_active st = fst (arun p ops) /\
  (forall k, get_hist (t_history st) k = key_vals k (snd (arun p ops))) /\
  t_latest st = last (snd (arun p ops)) [].
Proof. exact history_in_order_lemma. Qed.
Print Assumptions history_in_order.

(* device calls on an inactive tracker leave it completely unchanged *)
Theorem inactive_no_effect : forall calls st, t_active st = false -> run_ops st (map OCall calls) = st.
Proof. exact inactive_calls_lemma. Qed.
Print Assumptions inactive_no_effect.

(* reset clears; entering a context clears unless persistent; exit only deactivates *)
Theorem reset_clears : forall st,
  t_totals (reset st) = [] /\ t_history (reset st) = [] /\ t_latest (reset st) = [] /\
  t_active (reset st) = t_active st /\
  (t_persistent st = false -> t_totals (enter st) = [] /\ t_history (enter st) = [] /\ t_latest (enter st) = []) /\
  (t_persistent st = true -> t_totals (enter st) = t_totals st /\ t_history (enter st) = t_history st) /\
  t_active (enter st) = true /\ t_active (exit st) = false /\
  t_totals (exit st) = t_totals st /\ t_history (exit st) = t_history st.
Proof. exact reset_clears_lemma. Qed.
Print Assumptions reset_clears.

(* executions = sum over the circuits that reached the tracker of their notional execution count
   (get_num_shots_and_executions), plus the batch length for the execute_and_* entry points *)
Theorem executions_count_formula : forall p cb calls,
  get_tot (t_totals (tracked_run p cb calls)) K_executions = sumZ (map call_executions calls).
Proof. exact executions_lemma. Qed.
Print Assumptions executions_count_formula.

(* batches = number of execute calls (that returned from the device) *)
Theorem batches_count : forall p cb calls,
  get_tot (t_totals (tracked_run p cb calls)) K_batches = count is_execute calls.
Proof. exact batches_lemma. Qed.
Print Assumptions batches_count.

(* derivative_batches = number of compute_derivatives calls; derivatives = circuits submitted to
   compute_derivatives / execute_and_compute_derivatives *)
Theorem derivative_batches_count : forall p cb calls,
  get_tot (t_totals (tracked_run p cb calls)) K_derivative_batches = count is_deriv calls /\
  get_tot (t_totals (tracked_run p cb calls)) K_derivatives = sumZ (map call_derivatives calls).
Proof. exact deriv_batches_lemma. Qed.
Print Assumptions derivative_batches_count.

(* simulations = number of circuits that reached the tracker through execute *)
Theorem simulations_count : forall p cb calls,
  get_tot (t_totals (tracked_run p cb calls)) K_simulations = sumZ (map call_simulations calls).
Proof. exact simulations_lemma. Qed.
Print Assumptions simulations_count.

(* shots = sum over the finite-shot circuits that reached the tracker of their shot count ... *)
Theorem shots_total : forall p cb calls,
  get_tot (t_totals (tracked_run p cb calls)) K_shots = sumZ (map call_shots calls).
Proof. exact shots_lemma. Qed.
Print Assumptions shots_total.

(* ... where the shot count of a circuit without shadow measurements is total_shots x executions
   (the code's rule), and a shot vector enters only through its total = the sum of its entries *)
Theorem shots_rule : forall c e s,
  forallb no_shadow_head (group_heads (c_meas c) (c_part c)) = true -> nse c = Some (e, s) ->
  s = match tape_total c with Some t => t * e | None => 0 end.
Proof. exact shots_rule_lemma. Qed.
Print Assumptions shots_rule.

Theorem shot_vector_only_total : forall c l sh,
  c_shots c = SSeq l -> mk (SSeq l) = Some sh -> tape_total c = Some (sumZ (iter sh)).
Proof. exact tape_total_vector. Qed.
Print Assumptions shot_vector_only_total.

(* callback order: one callback per record, and it sees the totals/latest current at that moment *)
Theorem callback_per_record : forall es st, t_has_cb st = true ->
  len (t_cblog (run_events st es)) = len (t_cblog st) + records es.
Proof. exact cblog_events. Qed.
Print Assumptions callback_per_record.

Theorem callback_sees_current : forall st, t_has_cb st = true ->
  last (t_cblog (record st)) ([], []) = (t_totals st, t_latest st).
Proof. exact cblog_last_sees_current. Qed.
Print Assumptions callback_sees_current.

(* non-vacuity: the documentation example of simulator_tracking (S gate, expval X and expval Z on one
   wire, 50 shots): two non-commuting groups -> 2 executions, 100 shots; and a shot vector (5,5,7)
   with a broadcast of 3 and a 2-group Hamiltonian: executions 6 (NOT multiplied by the 3 copies), shots 102 *)
Definition pw (w p : Z) : option obsd := Some (mkO (Some [(w, p)]) 0 (mkTI None false [] 0)).
Definition doc_circuit : circuit :=
  mkC (SInt 50) [mkM false true (pw 0 1) (pw 0 1); mkM false true (pw 0 3) (pw 0 3)] [[0]; [1]] None 101 (VTok 0).
Definition ham : option obsd :=
  Some (mkO None 1 (mkTI None true [(0, false, [0]); (1, false, [1]); (2, false, [0; 1])] 0)).
Definition vec_circuit : circuit :=
  mkC (SSeq [IInt 5; IInt 5; IInt 7]) [mkM false true ham ham] [] (Some 3) 202 (VTok 1).

Example doc_example :
  let st := tracked_run false true [CExecute (ABatch [doc_circuit]); CDeriv (ASingle doc_circuit)] in
  t_totals st = [(K_batches, 1); (K_simulations, 1); (K_executions, 2); (K_shots, 100);
                 (K_derivative_batches, 1); (K_derivatives, 1)] /\
  get_hist (t_history st) K_executions = [VInt 2] /\ len (t_cblog st) = 3 /\
  nse vec_circuit = Some (6, 102) /\ oracle_ok doc_circuit = true.
Proof. vm_compute. repeat split; reflexivity. Qed.
