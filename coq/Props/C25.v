(* C25 Noise insertion and error mitigation follow their definitions.
   Statements only; every proof is `exact <lemma>` from Disc/FoldProofs.v. *)
From Coq Require Import List ZArith Bool QArith.
From PLV Require Import Disc.FoldModel Disc.FoldProofs.
Import ListNotations.
Open Scope Z_scope.

(* ---------------------------------------------------------------- fold_global *)
(* In ANY group (carrier G, product, inverse, unit satisfying the group laws), with Adjoint read as the
   formal inverse and an arbitrary interpretation `den` of the base gates, the product of the folded
   circuit equals the product of the original circuit: all circuits, all scale factors p/q. *)
Theorem fold_sem :
  forall (G : Type) (op : G -> G -> G) (inv : G -> G) (e : G),
    (forall a b c, op a (op b c) = op (op a b) c) ->
    (forall a, op e a = a) -> (forall a, op a e = a) ->
    (forall a, op (inv a) a = e) -> (forall a, op a (inv a) = e) ->
    forall (den : bool -> Z -> list Z -> Z -> G) (ops : list gate) (p q : Z) (out : list gate),
      fold_global ops p q = Some out ->
      gprod op inv e den out = gprod op inv e den ops.
Proof. exact fold_sem_group. Qed.
Print Assumptions fold_sem.

(* folding is refused exactly for circuits containing a Channel *)
Theorem fold_defined_iff_no_channel : forall ops p q,
  existsb is_channel ops = false <-> fold_global ops p q <> None.
Proof. exact fold_total. Qed.
Print Assumptions fold_defined_iff_no_channel.

(* gate count = n(1+2k) + 2m with the source's k = floor((s-1)/2) (negative k counts as 0 because
   list * k is empty) and m = round_half_even(frac * n / 2), and 0 <= m <= n *)
Theorem fold_count : forall ops p q out, 0 < q -> fold_global ops p q = Some out ->
  let n := Z.of_nat (length ops) in
  Z.of_nat (length out) = n * (1 + 2 * Z.max 0 (fold_k p q)) + 2 * fold_m p q n
  /\ 0 <= fold_m p q n <= n.
Proof.
  intros ops p q out Hq H; split;
    [exact (fold_count_len ops p q out Hq H) | exact (fold_m_bounds p q _ Hq (Nat2Z.is_nonneg _))].
Qed.
Print Assumptions fold_count.

(* "gate count matching the scale factor": for s = p/q >= 1, | len - s * n | <= 1 *)
Theorem fold_count_matches_scale : forall ops p q out, 0 < q -> q <= p -> fold_global ops p q = Some out ->
  Z.abs (q * Z.of_nat (length out) - p * Z.of_nat (length ops)) <= q.
Proof. exact fold_count_near. Qed.
Print Assumptions fold_count_matches_scale.

(* ---------------------------------------------------------------- add_noise *)
(* the transcribed loop (curr_ops accumulation, .index search) equals the tidy description: every
   operator g is replaced by  [parts queued ahead of a re-queued g, last pair outermost] ++ [g] ++
   [everything else the selected noise functions queue, in model order] *)
Theorem add_noise_exact : forall (model : noise_model) ops,
  add_noise model ops = flat_map (noise_block model) ops.
Proof. exact add_noise_spec. Qed.
Print Assumptions add_noise_exact.

(* documented side: when no noise function re-queues the operator itself, the channels noise(op) of
   exactly the pairs with cond(op) = true follow op, in model order, and nothing else changes *)
Theorem add_noise_after_op : forall (model : noise_model) ops,
  (forall cn g, In cn model -> In g ops -> fst cn g = true -> ~ In g (snd cn g)) ->
  add_noise model ops = flat_map (fun g => g :: flat_map (sel g) model) ops.
Proof. exact add_noise_after. Qed.
Print Assumptions add_noise_after_op.

(* erasing what was inserted gives back the input; what was inserted is exactly the selected noise.
   P is any marker separating inserted operators from circuit operators (e.g. is_channel). *)
Theorem insert_positions_exact : forall (P : gate -> bool) (model : noise_model) ops,
  (forall g, In g ops -> P g = false) ->
  (forall cn g x, In cn model -> In g ops ->
     In x (pre_of g (sel g cn)) \/ In x (post_of g (sel g cn)) -> P x = true) ->
  filter (fun g => negb (P g)) (add_noise model ops) = ops /\
  filter P (add_noise model ops) = flat_map (fun g => noise_before model g ++ noise_after model g) ops.
Proof.
  intros P model ops H1 H2; split;
    [exact (add_noise_erase_l P model ops H1 H2) | exact (add_noise_inserted_l P model ops H1 H2)].
Qed.
Print Assumptions insert_positions_exact.

Theorem add_noise_nothing_selected : forall (model : noise_model) ops,
  (forall cn g, In cn model -> In g ops -> fst cn g = false) -> add_noise model ops = ops.
Proof. exact add_noise_none_selected. Qed.
Print Assumptions add_noise_nothing_selected.

(* ---------------------------------------------------------------- insert *)
(* the transcribed loop equals: leading state preparations, [op on every tape wire if "start"],
   each remaining operator with op on each of its wires placed after it (before it when before=True)
   for "all" / once per matching class of a class list, [op on every tape wire if "end"] *)
Theorem insert_exact : forall mk pos before ops mw,
  insert_ops mk pos before ops mw = insert_spec mk pos before ops mw.
Proof. exact insert_ops_spec. Qed.
Print Assumptions insert_exact.

Theorem insert_positions_exact_insert : forall (P : gate -> bool) mk ops pos before mw,
  (forall g, In g ops -> P g = false) ->
  (forall w x, In x (mk w) -> P x = true) ->
  filter (fun g => negb (P g)) (insert_ops mk pos before ops mw) = ops /\
  filter P (insert_ops mk pos before ops mw) =
    (if is_pos pos PStart then flat_map mk (tape_wires ops mw) else [])
    ++ flat_map (ins_of mk pos) (skipn (num_preps ops) ops)
    ++ (if is_pos pos PEnd then flat_map mk (tape_wires ops mw) else []).
Proof.
  intros P mk ops pos before mw H1 H2; split;
    [exact (insert_erase_l P mk ops H1 H2 pos before mw) | exact (insert_inserted_l P mk ops H1 H2 pos before mw)].
Qed.
Print Assumptions insert_positions_exact_insert.

Theorem insert_nothing_selected : forall mk cl before ops mw,
  (forall g c, In g ops -> In c cl -> isa g c = false) ->
  insert_ops mk (POps cl) before ops mw = ops.
Proof. exact insert_none_selected. Qed.
Print Assumptions insert_nothing_selected.

(* ---------------------------------------------------------------- extrapolation *)
(* for every n, n pairwise distinct nodes and data taken from ANY polynomial of degree <= n-1
   (coefficient list c, constant term first) the interpolant at 0 is p(0).  In particular the value is
   that of every solution of the Vandermonde system, i.e. the exact-arithmetic result of
   richardson_extrapolate / poly_extrapolate(order = n-1). *)
Theorem poly_extrapolate_exact : forall (d : list (Q * Q)) (c : list Q),
  (length c <= length d)%nat -> distinctQ (map fst d) ->
  Forall (fun xy => (snd xy == peval c (fst xy))%Q) d ->
  (richardson d == peval c 0)%Q.
Proof. exact extrap_exact. Qed.
Print Assumptions poly_extrapolate_exact.

(* ---------------------------------------------------------------- non-vacuity *)
(* the integers under addition are a group; scale factor 1/2 (k = -1, m = 2) and 15/4 *)
Example fold_example :
  let ops := [Base 12 [0] 32; Base 21 [0] 0; Adj (Base 14 [0] 8)] in
  fold_global ops 1 2 = Some (ops ++ [Adj (Adj (Base 14 [0] 8)); Adj (Base 21 [0] 0); Base 21 [0] 0; Adj (Base 14 [0] 8)])
  /\ fold_k 15 4 = 1 /\ fold_m 15 4 3 = 1
  /\ gprod Z.add Z.opp 0 (fun _ n _ p => n + p) ops = 12 + 32 + 21 - (14 + 8).
Proof. repeat split. Qed.

Example noise_example :
  let model := eval_model [(COpIn [12; 23], NCustom [NEach true 44 8; NSelf; NEach true 43 16]);
                           (CWiresIn [0; 1], NPartial 40 32)] in
  let ops := [Base 12 [0] 32; Base 21 [3] 0] in
  add_noise model ops = [Chan 44 [0] 8; Base 12 [0] 32; Chan 43 [0] 16; Chan 40 [0] 32; Base 21 [3] 0]
  /\ (forall g, In g ops -> is_channel g = false).
Proof. split; [reflexivity|]. intros g [<-|[<-|[]]]; reflexivity. Qed.

Example extrap_example :
  let d := [(1 # 1, 3 # 1); (2 # 1, 7 # 1); (3 # 1, 13 # 1)]%Q in
  distinctQ (map fst d) /\ Forall (fun xy => (snd xy == peval [1; 1; 1] (fst xy))%Q) d /\ (richardson d == 1)%Q.
Proof.
  cbn [map fst distinctQ]. repeat split; repeat constructor; try reflexivity; try (intros H; discriminate H).
Qed.
