(* C36 Finite-difference coefficients have their stated accuracy.
   Statements only; every proof is `exact <lemma>` from Num/FiniteDiffProofs.v.
   Vocabulary (Num/FiniteDiffModel.v): a stencil is a list of (coefficient, shift) pairs over Q;
   moment cs j = sum_i c_i s_i^j;  moments_hold n D cs = forall j < D, moment cs j == n! [j = n];
   a polynomial is its coefficient list (lowest degree first), peval = Horner evaluation,
   pderiv [a0;a1;a2;...] = [1 a1; 2 a2; ...], nderiv n = n-fold pderiv;
   stencil n cs p x0 h = (sum_i c_i p(x0 + h s_i)) / h^n. *)
From Coq Require Import List ZArith QArith Bool.
From PLV Require Import Num.FiniteDiffModel Num.FiniteDiffProofs.
Import ListNotations.
Open Scope Q_scope.

(* (a) For ALL stencils: the moment conditions below D imply that the finite-difference quotient equals
   the n-th derivative for every polynomial of degree < D, every base point and every non-zero step. *)
Theorem moments_imply_exact : forall (n D : nat) (cs : list (Q * Q)), moments_hold n D cs ->
  forall p : list Q, (length p <= D)%nat -> forall x0 h : Q, ~ h == 0 ->
  stencil n cs p x0 h == peval (nderiv n p) x0.
Proof. exact moments_imply_exact_l. Qed.
Print Assumptions moments_imply_exact.

(* the same without the division (holds for h = 0 as well) *)
Theorem moments_imply_exact_sum : forall (n D : nat) (cs : list (Q * Q)), moments_hold n D cs ->
  forall p : list Q, (length p <= D)%nat -> forall x0 h : Q,
  stencil_sum cs p x0 h == qpow h n * peval (nderiv n p) x0.
Proof. exact moments_imply_exact_sum_l. Qed.
Print Assumptions moments_imply_exact_sum.

(* (b) the model's coefficients (shift selection + exact Vandermonde solve + pruning + sorting) satisfy the
   moment conditions with D = n + approx_order; finite grid, decided by vm_compute, bound in the statement.
   For the centred even-n case the stencil has only n + approx_order - 1 points; the last moment holds by
   symmetry and is checked like the others. *)
Theorem coeffs_satisfy_moments : forall (n a : Z) (s : strategy) cs,
  (1 <= n <= 4)%Z -> (1 <= a <= 6)%Z -> fd_coeffs n a s = Some cs ->
  moments_hold (Z.to_nat n) (Z.to_nat (n + a)) cs.
Proof. exact coeffs_moments_4_6. Qed.
Print Assumptions coeffs_satisfy_moments.

Theorem coeffs_satisfy_moments_ext : forall (n a : Z) (s : strategy) cs,
  (1 <= n <= 8)%Z -> (1 <= a <= 10)%Z -> fd_coeffs n a s = Some cs ->
  moments_hold (Z.to_nat n) (Z.to_nat (n + a)) cs.
Proof. exact coeffs_moments_8_10. Qed.
Print Assumptions coeffs_satisfy_moments_ext.

(* the model returns coefficients exactly for forward, backward, and centre with even approx_order *)
Theorem coeffs_defined : forall (n a : Z) (s : strategy), (1 <= n <= 8)%Z -> (1 <= a <= 10)%Z ->
  (fd_coeffs n a s <> None <->
   s = Forward \/ s = Backward \/ (s = Center /\ (a mod 2 = 0)%Z)).
Proof. exact coeffs_defined_8_10. Qed.
Print Assumptions coeffs_defined.

(* (a)+(b): the property for the model *)
Theorem fd_coeffs_differentiate_exactly : forall (n a : Z) (s : strategy) cs,
  (1 <= n <= 8)%Z -> (1 <= a <= 10)%Z -> fd_coeffs n a s = Some cs ->
  forall p : list Q, (length p <= Z.to_nat (n + a))%nat -> forall x0 h : Q, ~ h == 0 ->
  stencil (Z.to_nat n) cs p x0 h == peval (nderiv (Z.to_nat n) p) x0.
Proof. exact fd_exact_8_10. Qed.
Print Assumptions fd_coeffs_differentiate_exactly.

(* non-vacuity: the forward difference (f(x+h) - f(x)) / h meets the hypotheses with n = 1, D = 2, and the
   vocabulary computes what it should on p(x) = 3 + 5x + 2x^2 *)
Example hyps_satisfiable :
  fd_coeffs 1 1 Forward = Some [(-1, 0); (1, 1)] /\
  moments_okb 1 2 [(-1, 0); (1, 1)] = true /\
  moments_okb 1 3 [(-1, 0); (1, 1)] = false /\
  nderiv 1 [3; 5; 2] = [1 * 5; 2 * 2] /\
  Qeq_bool (peval (nderiv 1 [3; 5]) 7) 5 = true /\
  Qeq_bool (stencil 1 [(-1, 0); (1, 1)] [3; 5] 7 (1 # 3)) 5 = true.
Proof. vm_compute. repeat split; reflexivity. Qed.

Example center_2_2 : fd_coeffs 2 2 Center = Some [(-2, 0); (1, -1); (1, 1)].
Proof. vm_compute. reflexivity. Qed.
