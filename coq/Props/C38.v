(* C38 Metric tensors equal the Fubini-Study metric.  Statements only (see Props/C34.v for the vocabulary).
   c_metric s dI dJ = Re( <dI|dJ> - <dI|s><s|dJ> ) with Re z = (z + conj z)/2 ; c_quad is a polynomial of degree <= 2 in a
   list of values (the transform's post-processing: covariances are products of probabilities). *)
From Coq Require Import List ZArith QArith Reals Bool.
From Coquelicot Require Import Coquelicot.
From PLV Require Import Alg.Poly Alg.PolyEval Alg.Angles Alg.DerivDef Alg.Deriv Lin.Vec Lin.PVec Lin.PVecSound Lin.Grad Lin.GradSound Lin.Metric Lin.MetricSound.
Import ListNotations.

(* a discharged `metric_is` obligation: at every real parameter vector the components of the circuit's output state have
   partial derivatives dI, dJ with respect to theta_i, theta_j and the polynomial G evaluates to the Fubini-Study entry *)
Theorem certified_fubini_study_entry : forall hz D n circ i j Gp, (0 < hz)%Z -> metric_is hz D n circ i j Gp = true ->
  forall th : list R,
    let rho := aenv hz D th in
    let s := c_state n (map (evg rho) circ) in
    exists dI dJ : cvec,
      (forall m, Cderive (fun y => nth m (c_state n (map (evg (aenv hz D (upd th i y))) circ)) (RtoC 0)) (nth i th 0%R) (nth m dI (RtoC 0))) /\
      (forall m, Cderive (fun y => nth m (c_state n (map (evg (aenv hz D (upd th j y))) circ)) (RtoC 0)) (nth j th 0%R) (nth m dJ (RtoC 0))) /\
      peval rho Gp = c_metric s dI dJ.
Proof. exact metric_is_forall. Qed.
Print Assumptions certified_fubini_study_entry.

(* a discharged `postproc_is` obligation: the metric-tensor transform's post-processing applied to the exact results of its
   tapes evaluates to G (the certified Fubini-Study entry, or 0 outside the block / diagonal) at every parameter vector *)
Theorem metric_tensor_tapes_give_the_entry : forall hz D n quad lin c0 ts Gp, (0 < hz)%Z -> postproc_is hz n quad lin c0 ts Gp = true ->
  forall th : list R,
    let rho := aenv hz D th in
    c_quad (map (fun q => (peval rho (fst q), snd q)) quad) (map (fun l => (peval rho (fst l), snd l)) lin) (peval rho c0)
           (map (fun t => c_expval n (evtape rho t)) ts) = peval rho Gp.
Proof. exact postproc_is_forall. Qed.
Print Assumptions metric_tensor_tapes_give_the_entry.

(* the metric polynomial is symmetric under every good valuation *)
Theorem fubini_study_symmetric : forall hz D n circ i j rho, good_env hz rho ->
  peval rho (p_metric hz D n circ i j) = peval rho (p_metric hz D n circ j i).
Proof.
  intros hz D n circ i j rho G. rewrite !(ev_metric hz rho G). unfold c_metric, c_repart. f_equal.
  set (s := map (peval rho) (p_state hz n circ)). set (a := map (peval rho) (p_dstate hz D n circ i)). set (b := map (peval rho) (p_dstate hz D n circ j)).
  assert (CI : forall u v, Cconj (c_inner u v) = c_inner v u).
  { intros u. unfold c_inner, dot. induction u as [|x u IH]; intros [|y v]; cbn; try (apply injective_projections; cbn; ring).
    rewrite Cconj_plus, Cconj_mult, Cconj_invol. f_equal; [apply Cmult_comm | apply IH]. }
  rewrite !Cconj_plus. rewrite <- (CI b a). 
  assert (E : Cconj (Copp (Cmult (c_inner a s) (c_inner s b))) = Copp (Cmult (c_inner b s) (c_inner s a))).
  { rewrite <- (CI s b), <- (CI a s). apply injective_projections; cbn; ring. }
  assert (E' : Cconj (Copp (Cmult (c_inner b s) (c_inner s a))) = Copp (Cmult (c_inner a s) (c_inner s b))).
  { rewrite <- (CI s a), <- (CI b s). apply injective_projections; cbn; ring. }
  rewrite E, E', Cconj_invol. apply injective_projections; cbn; ring.
Qed.
Print Assumptions fubini_study_symmetric.

(* non-vacuity: RX(theta_0) on |0>: metric entry 1/4 *)
Definition rx0 : pgate :=
  ([0%nat], [[ [(1#2, [0%Z; 2%Z]); (1#2, [0%Z; (-2)%Z])];   [(-1#2, [4%Z; 2%Z]); (1#2, [4%Z; (-2)%Z])] ];
             [ [(-1#2, [4%Z; 2%Z]); (1#2, [4%Z; (-2)%Z])]; [(1#2, [0%Z; 2%Z]); (1#2, [0%Z; (-2)%Z])] ]]).
Example metric_rx_quarter : metric_is 8 4 1 [rx0] 0 0 (pconst (1#4)) = true.
Proof. vm_compute. reflexivity. Qed.
