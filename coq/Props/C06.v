From Coq Require Import List ZArith QArith Bool.
From PLV Require Import Disc.EqualModel Disc.RebindModel Disc.RebindProofs.
Theorem placeholder6 : true = true. Proof. exact placeholder6_true. Qed.
Print Assumptions placeholder6.
