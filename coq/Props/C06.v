(* C06 Copies, pickles, pytrees and rebinding reproduce operators.
   Statements only; every proof is `exact <lemma>` from Disc/RebindProofs.v.
   params_of = the data view (leaves, in order), erase = everything else (metadata),
   bind = bind_new_parameters, flatten/unflatten = the pytree codec (Disc/RebindModel.v). *)
From Coq Require Import List ZArith QArith Bool.
From PLV Require Import Disc.EqualModel Disc.RebindModel Disc.RebindProofs.
Import ListNotations.

(* flatten then unflatten is the identity on every (arbitrarily nested) operator AST ... *)
Theorem unflatten_flatten : forall a : op, unflatten (flatten a) = Some a.
Proof. exact unflatten_flatten_op. Qed.
Print Assumptions unflatten_flatten.

(* ... and on measurement processes (leaves of the observable, then the eigenvalue array) *)
Theorem unflatten_flatten_item : forall a : item, round_trip_model a = Some a.
Proof. exact round_trip_item. Qed.
Print Assumptions unflatten_flatten_item.

(* rebinding an operator's own parameters reproduces it *)
Theorem bind_same_id : forall a : op, bind a (params_of a) = Some a.
Proof. exact bind_same. Qed.
Print Assumptions bind_same_id.

(* rebinding yields an operator whose parameters are exactly the new ones, in order, and whose
   other attributes (class, wires, hyperparameters, control wires/values, exponents, operand
   structure) are unchanged *)
Theorem bind_changes_only_params : forall (a : op) ps a', bind a ps = Some a' ->
  params_of a' = ps /\ erase a' = erase a.
Proof. exact bind_sound. Qed.
Print Assumptions bind_changes_only_params.

(* rebinding is defined exactly when the new leaves have the number and shapes of the old ones *)
Theorem bind_length_guard : forall (a : op) ps,
  bind a ps <> None <-> map (@length Q) ps = map (@length Q) (params_of a).
Proof. exact bind_guard. Qed.
Print Assumptions bind_length_guard.

(* ---- non-vacuity: Sum(MultiControlledX-like Ctrl without parameters, Exp(1.58 i) Z, CZ) -- the
   shape of the repaired misalignment defect -- rebinding 1/2 reaches the Exp coefficient *)
Open Scope Q_scope.
Example bind_reaches_the_exp :
  let mcx := Ctrl 4 (Plain 2 [] [2%Z] 1) [10%Z; 11%Z; 1%Z] [false; false; true] [] 1 in
  let e c := ExpO 5 c 1 (Plain 3 [] [0%Z] 1) in
  let cz := Ctrl 6 (Plain 3 [] [10%Z] 1) [1%Z] [true] [] 1 in
  let s c := Comp 7 0 None [(0%Z, [], mcx); (1%Z, [], e c); (2%Z, [], cz)] in
  params_of (s (79#50)) = [[79#50]] /\ bind (s (79#50)) [[1#2]] = Some (s (1#2)) /\
  bind (s (79#50)) [] = None /\ bind (s (79#50)) [[1#2]; [1#3]] = None.
Proof. vm_compute. repeat split; reflexivity. Qed.
