(* C55 Lie-algebra tools compute closed algebras and correct structure constants.
   Statements only; every proof is `exact <lemma>` from Disc/LieAlgProofs.v.

   These are soundness theorems of CHECKERS (Disc/LieAlgModel.v) that are run, inside Coq, on the outputs of the real
   qp.lie_closure / qp.structure_constants / qp.liealg.cartan_decomp / PauliVSpace on every run of the check.
   Vocabulary: an operator is a Hermitian G = sum_w x_w w with rational x_w (rsent); PennyLane's algebra is {iG};
   [G1, G2] = i * rbracket G1 G2;  seq_r = equality as functions word -> coefficient;  lincomb c B = sum c_i B_i;
   in_span_spec B v = exists c, |c| = |B| /\ lincomb c B = v;  independent_spec B = only the zero combination
   of B vanishes;  theta inv = the involution acting on Hermitian operators, kappa inv w = "i w is in k". *)
From Coq Require Import List ZArith Bool QArith.
From PLV Require Import Disc.PauliAlgModel Disc.LieAlgModel Disc.LieAlgProofs.
Import ListNotations.
Open Scope Z_scope.

(* the span test exhibits verified coefficients (for ANY candidate functionals fs) *)
Theorem in_span_sound : forall fs B v c,
  in_span fs B v = Some c -> length c = length B /\ seq_r (lincomb c B) v.
Proof. exact LieAlgProofs.in_span_sound. Qed.
Print Assumptions in_span_sound.

(* ... and is complete once the functionals are verified dual to B: the test is exact *)
Theorem in_span_complete : forall fs B v,
  check_dual fs B = true -> in_span_spec B v -> in_span fs B v <> None.
Proof. exact LieAlgProofs.in_span_complete. Qed.
Print Assumptions in_span_complete.

Theorem check_independent_sound : forall B, check_independent B = true -> independent_spec B.
Proof. exact LieAlgProofs.check_independent_sound. Qed.
Print Assumptions check_independent_sound.

(* lie_closure: linearly independent, span contains the generators, closed under commutators *)
Theorem check_closure_sound : forall B G, check_closure B G = true ->
  independent_spec B /\
  (forall g, In g G -> in_span_spec B g) /\
  (forall a b, In a B -> In b B -> in_span_spec B (rbracket a b)).
Proof. exact LieAlgProofs.check_closure_sound. Qed.
Print Assumptions check_closure_sound.

(* structure_constants (documented normalisation [iG_a, iG_b] = sum_g f^g_{a,b} iG_g, i.e.
   rbracket G_a G_b = - sum_g f[g][a][b] G_g; fcol f n a b = the vector (f[g][a][b])_g of the sparsely given tensor)
   reproduces every commutator of the basis *)
Theorem check_structure_sound : forall f B, check_structure f B = true ->
  forall a b, (a < length B)%nat -> (b < length B)%nat ->
    seq_r (rbracket (nth a B []) (nth b B [])) (rscale (-1 # 1) (lincomb (fcol f (length B) a b) B)).
Proof. exact LieAlgProofs.check_structure_sound. Qed.
Print Assumptions check_structure_sound.

(* PauliVSpace's independence question is decided exactly *)
Theorem vspace_independent_exact : forall B v b, vspace_independent B v = Some b ->
  independent_spec B /\ (b = false <-> in_span_spec B v).
Proof. exact LieAlgProofs.vspace_independent_exact. Qed.
Print Assumptions vspace_independent_exact.

(* the built-in involutions: linear extensions of a sign function on Pauli words, squaring to the identity *)
Theorem theta_is_linear_sign_extension : forall inv s u,
  (rcoeff (theta inv s) u == (if kappa inv u then 1 else -1) * rcoeff s u)%Q.
Proof. exact theta_coeff. Qed.
Print Assumptions theta_is_linear_sign_extension.

Theorem theta_additive : forall inv a b, theta inv (a ++ b) = theta inv a ++ theta inv b.
Proof. exact theta_app. Qed.
Print Assumptions theta_additive.

Theorem theta_squares_to_identity : forall inv s, theta inv (theta inv s) = s.
Proof. exact theta_involutive. Qed.
Print Assumptions theta_squares_to_identity.

(* ... and algebra automorphisms: for anticommuting Pauli words [i w1, i w2] = -+ 2 i w3 with
   sign(w3) = sign(w1) * sign(w2); all words on <= 4 qubits (wires 0..3), all built-in involutions and wire choices *)
Theorem builtin_involutions_are_automorphisms_le4 : forall inv w1 w2,
  In inv (builtin_involutions 4) -> In w1 (all_words 4) -> In w2 (all_words 4) ->
  commutes w1 w2 = false ->
  kappa inv (snd (wmul w1 w2)) = Bool.eqb (kappa inv w1) (kappa inv w2).
Proof. exact builtin_automorphism. Qed.
Print Assumptions builtin_involutions_are_automorphisms_le4.

(* cartan_decomp: k is fixed by theta, m is negated, and [k,k] in k, [k,m] in m, [m,m] in k *)
Theorem check_cartan_sound : forall inv k m, check_cartan inv k m = true ->
  (forall x, In x k -> theta inv x = x) /\
  (forall y, In y m -> theta inv y = map (fun e => (fst e, Qopp (snd e))) y) /\
  independent_spec k /\ independent_spec m /\
  (forall a b, In a k -> In b k -> in_span_spec k (rbracket a b)) /\
  (forall a b, In a k -> In b m -> in_span_spec m (rbracket a b)) /\
  (forall a b, In a m -> In b m -> in_span_spec k (rbracket a b)).
Proof. exact LieAlgProofs.check_cartan_sound. Qed.
Print Assumptions check_cartan_sound.

(* non-vacuity: the documented transverse-field Ising example passes the closure and Cartan checkers, a truncated
   basis does not *)
Definition tfim : list rsent :=
  mks [ [([(0, PX); (1, PX)], 1%Q)]; [([(0, PZ)], 1%Q)]; [([(1, PZ)], 1%Q)];
        [([(0, PY); (1, PX)], (-1 # 1)%Q)]; [([(0, PX); (1, PY)], (-1 # 1)%Q)]; [([(0, PY); (1, PY)], 1%Q)] ].
Example tfim_closed :
  check_closure tfim (firstn 3 tfim) = true /\ check_closure (firstn 5 tfim) (firstn 3 tfim) = false /\
  check_cartan IEvenOdd [nth 1 tfim []; nth 2 tfim []]
               [nth 0 tfim []; nth 3 tfim []; nth 4 tfim []; nth 5 tfim []] = true.
Proof. vm_compute. repeat split. Qed.
