(* C05 Result caching never changes results. *)
From Coq Require Import List ZArith QArith Reals Bool.
From Coquelicot Require Import Complex.
From PLV Require Import Disc.CacheModel Disc.CacheProofs Alg.Poly Alg.PolyEval Alg.Angles Lin.Vec Lin.PVec Lin.PVecSound.
Import ListNotations.
Open Scope Z_scope.

(* If equal cache keys imply equal device results, then for EVERY batch (duplicates included) and EVERY prior
   consistent cache content, cached execution returns exactly the device result of every circuit, in batch order,
   executes only circuits of the batch, and leaves the cache consistent. *)
Theorem cache_transparent : forall key run, (forall t u, key t = key u -> run t = run u) ->
  forall batch c, cache_ok key run c ->
  exists em c', cache_exec key run batch c = (em, map (fun t => Some (run t)) batch, c') /\ cache_ok key run c' /\ incl em batch.
Proof. exact cache_exec_transparent. Qed.
Print Assumptions cache_transparent.

(* ... and for every history of executions that share one user-supplied cache (starting empty) *)
Theorem shared_cache_history_transparent : forall key run, (forall t u, key t = key u -> run t = run u) ->
  forall batches, map snd (fst (history key run batches [])) = map (fun b => map (fun t => Some (run t)) b) batches.
Proof. intros key run H batches. exact (history_transparent key run H batches [] (empty_cache_ok key run)). Qed.
Print Assumptions shared_cache_history_transparent.

(* the hypothesis is necessary: a key that identifies two circuits with different results changes a result *)
Theorem key_collision_changes_results :
  exists key run batch, (exists t u, key t = key u /\ run t <> run u) /\
    snd (fst (cache_exec key run batch [])) <> map (fun t => Some (run t)) batch.
Proof.
  exists (fun _ => 0), (fun t => t), [1; 2]. split; [exists 1, 2; split; [reflexivity | discriminate]|].
  vm_compute. discriminate.
Qed.
Print Assumptions key_collision_changes_results.

(* The key reduces some gate parameters modulo a period P.  Generated obligations (coq/Gen/C05, from /repo):
   meqb hz M_shifted M = true, where M_shifted is the gate matrix with theta_j replaced by theta_j + P and P is
   the period the implementation's hash actually uses (found by probing the hash).  By this theorem the two
   operators then have IDENTICAL matrices (global phase included) for all parameter values, so replacing one by
   the other cannot change any result, also inside controlled / adjoint / power wrappers. *)
Theorem period_obligation_forall : forall hz D X Y, (0 < hz)%Z -> meqb hz X Y = true ->
  forall th : list R, map (map (peval (aenv hz D th))) X = map (map (peval (aenv hz D th))) Y.
Proof. exact meqb_forall. Qed.
Print Assumptions period_obligation_forall.
