(* C13 Measurement-based decompositions act deterministically.
   Generated part (coq/Gen/C13, rebuilt from /repo each run): for every rule whose queue contains mid-circuit
   or Pauli-product measurements and every outcome tuple b of its k measurements
     br_r_b   : circ_cols_eq hz n branch_b [(op_wires, U); (aux_wires, V_b)] cols = true
     prob_r   : probs_total_one hz [phi_b | b] = true
   where branch_b = the rule's queue with measurement j replaced by the projector on outcome b_j (and the reset
   flip), conditionals included iff their classical predicate holds on b; U = the operator's matrix;
   V_b has first column phi_b (the unnormalised final state of the auxiliary wires) and zeros elsewhere. *)
From Coq Require Import List ZArith QArith Reals Bool.
From Coquelicot Require Import Complex.
From PLV Require Import Alg.Poly Alg.PolyEval Alg.Angles Lin.Vec Lin.VecHom Lin.PVec Lin.PVecSound.
Import ListNotations.

(* every outcome branch acts on the checked inputs (aux wires in |0>, documented domain) exactly as
   U (x) |phi_b>: the same unitary on the target wires on every branch, auxiliary wires in the known state
   phi_b / |phi_b|, global phase = phase of phi_b *)
Theorem branch_acts_as_target :
  forall hz rho, good_env hz rho -> forall n branch expected cols,
  circ_cols_eq hz n branch expected cols = true ->
  forall c, In c cols ->
    c_capply n (map (evg rho) branch) (c_basis n c) = c_capply n (map (evg rho) expected) (c_basis n c).
Proof. intros hz rho G n b e cols H. exact (circ_cols_eq_sound hz rho G n b e cols H). Qed.
Print Assumptions branch_acts_as_target.

(* the branch weights |phi_b|^2 sum to one: the branches listed are all the outcomes that can occur *)
Theorem branch_probabilities_total_one :
  forall hz rho, good_env hz rho -> forall phis, probs_total_one hz phis = true ->
  c_norms_total (map (map (peval rho)) phis) = RtoC 1.
Proof. exact probs_total_one_sound. Qed.
Print Assumptions branch_probabilities_total_one.

Theorem a_good_valuation_exists : forall hz, (0 < hz)%Z -> good_env hz (aenv hz 8 []).
Proof. intros hz H. exact (aenv_good hz 8 [] H). Qed.
Print Assumptions a_good_valuation_exists.
