(* C33 Device preprocessing yields executable, equivalent circuits.
   Statements only; every proof is `exact <lemma>` from Disc/PreprocessProofs.v. *)
From Coq Require Import List ZArith Bool.
From PLV Require Import Disc.PreprocessModel Disc.PreprocessProofs.
Import ListNotations.
Open Scope Z_scope.

(* validators (validate_device_wires / _measurements / _observables, no_sampling, no_analytic, the flag validators)
   either raise or return exactly one tape with the same operations, shots, measurement processes and observables;
   all of them except validate_device_wires return the very same tape *)
Theorem reject_not_alter : forall s t,
  is_validator s = true ->
  run_stage s t = Err \/
  exists t', run_stage s t = Ok [t'] /\ t_ops t' = t_ops t /\ t_shots t' = t_shots t /\
             map m_code (t_mps t') = map m_code (t_mps t) /\ map m_obs (t_mps t') = map m_obs (t_mps t) /\
             ((forall dw, s <> SWires dw) -> t' = t).
Proof. exact reject_not_alter_lemma. Qed.
Print Assumptions reject_not_alter.

(* validate_device_wires changes only measurements that have neither an observable nor wires: they get the device
   wires; with no device wires the tape is returned unchanged *)
Theorem wires_completed_only_for_wireless : forall dw t t',
  validate_device_wires dw t = Ok [t'] ->
  t_ops t' = t_ops t /\ t_shots t' = t_shots t /\ length (t_mps t') = length (t_mps t) /\
  forall i m, nth_error (t_mps t) i = Some m ->
    exists m', nth_error (t_mps t') i = Some m' /\
      ((m_obs m <> None \/ m_wires m <> []) -> m' = m) /\
      (m_obs m = None -> m_wires m = [] ->
         match dw with
         | Some (x :: r) => m' = mkMp (m_code m) None (x :: r)
         | _ => m' = m
         end).
Proof. exact wires_completed_lemma. Qed.
Print Assumptions wires_completed_only_for_wireless.

(* decompose: every operation of the returned tape satisfies the stopping condition (the first one may instead be
   the allowed initial state preparation); measurements and shots are untouched *)
Theorem decompose_output_accepted : forall fuel acc dec skip isprep t ts,
  decompose_stage fuel acc dec skip isprep t = Ok ts ->
  exists t', ts = [t'] /\ t_mps t' = t_mps t /\ t_shots t' = t_shots t /\
             ops_okb acc skip isprep (t_ops t') = true.
Proof. exact decompose_output_lemma. Qed.
Print Assumptions decompose_output_accepted.

(* for ALL pipelines: if the pipeline contains the device's decompose, validate_measurements and
   validate_device_wires stages, and every stage after each of them preserves what it established, then every tape
   the pipeline returns is supported: operations accepted, measurements accepted, wires on the device *)
Theorem preprocess_output_supported : forall D p b out,
  well_formed D p -> run_pipeline p b = Ok out -> Forall (supported D) out.
Proof. exact preprocess_output_supported_lemma. Qed.
Print Assumptions preprocess_output_supported.

(* the side conditions of well_formed hold for every non-oracle stage *)
Theorem validators_preserve_support : forall s, is_validator s = true ->
  (forall acc skip prep, preserves (ops_ok acc skip prep) s) /\
  (forall ana samp, preserves (mps_ok ana samp) s) /\
  (forall ok, preserves (obs_ok ok) s) /\
  (forall dw, (forall dw', s = SWires dw' -> dw' = dw) -> preserves (wires_ok dw) s).
Proof.
  intros s V; repeat split; intros.
  - apply validator_preserves_ops; exact V.
  - apply validator_preserves_mps; exact V.
  - apply validator_preserves_obs; exact V.
  - apply validator_preserves_wires; assumption.
Qed.
Print Assumptions validators_preserve_support.

Theorem decompose_preserves_support : forall acc dtab skip prep,
  (forall ana samp, preserves (mps_ok ana samp) (SDecompose acc dtab skip prep)) /\
  (forall ok, preserves (obs_ok ok) (SDecompose acc dtab skip prep)) /\
  (forall w, dtab_wires_in w dtab -> preserves (wires_ok (Some w)) (SDecompose acc dtab skip prep)).
Proof.
  intros; repeat split; intros.
  - apply decompose_preserves_mps.
  - apply decompose_preserves_obs.
  - apply decompose_preserves_wires; assumption.
Qed.
Print Assumptions decompose_preserves_support.

(* every built-in device program has validate_device_wires, validate_measurements and (unless
   default.clifford(check_clifford=False)) decompose *)
Theorem builtin_programs_have_the_stages : forall c,
  has NValidateDeviceWires (pipeline_names c) = true /\
  has NValidateMeasurements (pipeline_names c) = true /\
  (has NDecompose (pipeline_names c) = true \/ (c_dev c = DClifford /\ c_check c = false)).
Proof. exact builtin_programs_lemma. Qed.
Print Assumptions builtin_programs_have_the_stages.

(* decompose preserves the circuit semantics (product of operator semantics in any monoid) when the decomposer does *)
Theorem decompose_sem : forall (U : Type) (one : U) (mul : U -> U -> U) (opsem : aop -> U),
  (forall a b c, mul a (mul b c) = mul (mul a b) c) -> (forall a, mul one a = a) -> (forall a, mul a one = a) ->
  forall dec, dec_sound U one mul opsem dec -> forall fuel acc skip isprep t ts,
  decompose_stage fuel acc dec skip isprep t = Ok ts ->
  exists t', ts = [t'] /\ circ_sem U one mul opsem (t_ops t') = circ_sem U one mul opsem (t_ops t) /\
             t_mps t' = t_mps t /\ t_shots t' = t_shots t.
Proof. exact decompose_sem_lemma. Qed.
Print Assumptions decompose_sem.

(* for ALL pipelines of semantics-preserving stages (each returning tapes and a post-processing function), the
   composed post-processing (slices per input tape, stack applied in reverse) applied to the results of the output
   tapes gives the results of the input tapes *)
Theorem pipeline_sem : forall (R : Type) (sem : tape -> R) (p : list (pstage R)),
  Forall (sem_preserving R sem) p -> forall b out post,
  run_pp R p b = Ok (out, post) -> post (map sem out) = map sem b.
Proof. exact pipeline_sem_lemma. Qed.
Print Assumptions pipeline_sem.

(* validators and decompose are such stages (null post-processing) *)
Theorem validator_stage_sem : forall (R : Type) (sem : tape -> R) s,
  is_validator s = true -> (forall t, sem (validated s t) = sem t) -> sem_preserving R sem (null_pp R sem s).
Proof. exact validator_sem_preserving. Qed.
Print Assumptions validator_stage_sem.

Theorem decompose_stage_sem : forall (U : Type) (one : U) (mul : U -> U -> U) (opsem : aop -> U),
  (forall a b c, mul a (mul b c) = mul (mul a b) c) -> (forall a, mul one a = a) -> (forall a, mul a one = a) ->
  forall (R : Type) (measure : U -> list amp -> bool -> R) acc dtab skip prep,
  dec_sound U one mul opsem (lookup dtab) ->
  sem_preserving R (tsem U one mul opsem R measure) (null_pp R (tsem U one mul opsem R measure) (SDecompose acc dtab skip prep)).
Proof. exact decompose_sem_preserving. Qed.
Print Assumptions decompose_stage_sem.

(* ---- non-vacuity: a default.qubit-shaped program [decompose; validate_device_wires; validate_measurements] is
   well formed, accepts a circuit with a template (code 7 -> [1;2]) and a wire-less measurement, and rejects others *)
Definition exD := mkDev [1; 2] true [9] [20; 21] [22] (Some [0; 1; 2]).
Definition exP := [SDecompose [1; 2] [(7, [mkOp 1 [0]; mkOp 2 [0; 1]])] true [9]; SWires (Some [0; 1; 2]); SMeas [20; 21] [22]].
Definition exT := mkTape [mkOp 9 [0]; mkOp 7 [0; 1]; mkOp 1 [1]] [mkMp 20 None []; mkMp 21 (Some 5) [1]] false.

Example ex_well_formed : well_formed exD exP.
Proof.
  repeat split.
  - exists [], [(7, [mkOp 1 [0]; mkOp 2 [0; 1]])], [SWires (Some [0; 1; 2]); SMeas [20; 21] [22]]. split; [reflexivity|].
    repeat constructor; apply validator_preserves_ops; reflexivity.
  - exists [SDecompose [1; 2] [(7, [mkOp 1 [0]; mkOp 2 [0; 1]])] true [9]; SWires (Some [0; 1; 2])], []. split; [reflexivity|constructor].
  - exists [SDecompose [1; 2] [(7, [mkOp 1 [0]; mkOp 2 [0; 1]])] true [9]], [SMeas [20; 21] [22]]. split; [reflexivity|].
    repeat constructor. apply validator_preserves_wires; [reflexivity|intros dw' H; discriminate].
Qed.

Example ex_accepts :
  run_pipeline exP [exT] =
  Ok [mkTape [mkOp 9 [0]; mkOp 1 [0]; mkOp 2 [0; 1]; mkOp 1 [1]] [mkMp 20 None [0; 1; 2]; mkMp 21 (Some 5) [1]] false].
Proof. vm_compute. reflexivity. Qed.

Example ex_rejects_unknown_op_wire_and_measurement :
  run_pipeline exP [mkTape [mkOp 8 [0]] [] false] = Err /\
  run_pipeline exP [mkTape [mkOp 1 [5]] [] false] = Err /\
  run_pipeline exP [mkTape [mkOp 1 [0]] [mkMp 22 None [0]] false] = Err.
Proof. vm_compute. auto. Qed.
