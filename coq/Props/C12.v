(* C12 The decompose transform reaches the target gate set without changing the circuit.
   Statements only; every proof is `exact <lemma>` from Disc/DecompProofs.v.
   [gen]/[decompose] (Disc/DecompModel.v) transcribe _operator_decomposition_gen / decompose of
   pennylane/transforms/decompose.py; the gate-set predicate, the graph solution, op.decomposition() and the custom
   decomposer are arbitrary functions (fields of [env]), so every theorem holds for all of them. *)
From Coq Require Import List ZArith Bool Permutation.
From PLV Require Import Disc.DecompModel Disc.DecompProofs.
Import ListNotations.
Open Scope Z_scope.

(* Clause 1: unless the run is an error, every emitted operator is accepted by the stopping condition (possibly under
   Conditional wrappers), or is an Allocate/Deallocate, or carries an explicit flag: max_expansion reached,
   GlobalPhase kept with a warning (graph enabled), or - non-strict only - kept because no decomposition exists. *)
Theorem decompose_in_target : forall fuel E transform ops b0 out,
  decompose fuel E transform ops b0 = Ok out -> Forall (emit_ok E) out.
Proof. exact decompose_in_target_lemma. Qed.
Print Assumptions decompose_in_target.

(* the same for one call of the generator (devices.preprocess.decompose drives it directly) *)
Theorem generator_in_target : forall fuel E o depth budget out,
  gen fuel E o depth budget = Ok out -> Forall (emit_ok E) out.
Proof. exact gen_in_target. Qed.
Print Assumptions generator_in_target.

(* the property's wording without flags: strict, no max_expansion, GlobalPhase in the gate set whenever the graph
   is enabled  ==>  error, or only accepted operators (and work-wire allocations) *)
Theorem decompose_in_target_strict : forall fuel E transform ops b0 out,
  max_expansion E = None -> strict E = true ->
  (graph_enabled E = true -> forall c, accept E (GPhase c) = true) ->
  decompose fuel E transform ops b0 = Ok out ->
  Forall (fun e => acc_under E (e_op e) = true \/ is_alloc (inner (e_op e)) = true) out.
Proof. exact decompose_in_target_strict_lemma. Qed.
Print Assumptions decompose_in_target_strict.

(* Clause 2: "implements the input circuit".  For ANY monoid of denotations (e.g. unitaries with their phase): if
   every decomposition the oracles can return denotes its operator (C10's statement, as hypothesis) and Conditional
   acts as a monoid homomorphism in the fixed measurement branch, the output denotes the input. *)
Theorem decompose_sem :
  forall (M : Type) (mul : M -> M -> M) (one : M),
  (forall a b c, mul a (mul b c) = mul (mul a b) c) -> (forall a, mul one a = a) -> (forall a, mul a one = a) ->
  forall (sem : op -> M) (csem : Z -> M -> M),
  (forall m a b, csem m (mul a b) = mul (csem m a) (csem m b)) -> (forall m, csem m one = one) ->
  (forall m b, sem (Cond m b) = csem m (sem b)) ->
  forall E : env,
  (forall o b d s, gsolve E o b = Some (d, s) -> lsem M mul one sem d = sem o) ->
  (forall o d, legacy E o = Some d -> lsem M mul one sem d = sem o) ->
  (forall cf o d, custom E = Some cf -> cf o = Some d -> lsem M mul one sem d = sem o) ->
  forall fuel transform ops b0 out,
  decompose fuel E transform ops b0 = Ok out -> lsem M mul one sem (ops_of out) = lsem M mul one sem ops.
Proof. exact decompose_sem_lemma. Qed.
Print Assumptions decompose_sem.

(* Clause 3: resource estimate.  [tchoose t] = declared resources of the rule chosen for gate type t (None for
   target gates); [expand] sums them along the chosen tree (= DecompGraphSolution.resource_estimate).  If every
   decomposition used matches the declared resources of its operator's type ("every rule used is exact") then the
   gate types emitted are a permutation of the estimate - gate for gate. *)
Theorem estimate_matches :
  forall (E : env) (ty : op -> Z) (tchoose : Z -> option (list (Z * N))),
  max_expansion E = None ->
  (forall m b, ty (Cond m b) = ty b) ->
  (forall o, accept E o = true -> tchoose (ty o) = None) ->
  (forall o b d s, accept E o = false -> gsolve E o b = Some (d, s) -> exact_choice ty tchoose d o) ->
  (forall o d, accept E o = false -> legacy E o = Some d -> exact_choice ty tchoose d o) ->
  (forall cf o d, accept E o = false -> custom E = Some cf -> cf o = Some d -> exact_choice ty tchoose d o) ->
  forall fuel o depth budget out,
  gen fuel E o depth budget = Ok out -> all_acc out ->
  exists e, expand fuel tchoose (ty o) = Some e /\ Permutation (types_of ty out) e.
Proof. exact gen_estimate. Qed.
Print Assumptions estimate_matches.

(* Clause 3b: work-wire accounting.  If the graph solution only names rules whose work-wire requirement fits the
   budget it was asked with, no call of the generator ever runs with a negative num_work_wires. *)
Theorem budget_never_negative : forall fuel E transform ops b0 out,
  (forall o b d s, gsolve E o (Some b) = Some (d, s) -> 0 <= b -> 0 <= s <= b) ->
  obudget_ok b0 ->
  decompose fuel E transform ops b0 = Ok out -> Forall budget_ok out.
Proof. exact decompose_budget. Qed.
Print Assumptions budget_never_negative.

(* ---- non-vacuity: a concrete environment in which operator 0 decomposes (graph rule, one work wire) into 1,1,2 ---- *)
Fixpoint ty0 (o : op) : Z := match o with Plain c => c | Cond _ b => ty0 b | _ => -1 end.
Definition E0 : env :=
  mkEnv (fun _ => true) (fun o => negb (ty0 o =? 0)) true
        (fun o _ => match o with Plain 0 => Some ([Plain 1; Plain 1; Cond 7 (Plain 2)], 1) | _ => None end)
        true None (fun _ => None) true None.
Definition tchoose0 (t : Z) : option (list (Z * N)) := if t =? 0 then Some [(1, 2%N); (2, 1%N)] else None.

Example run_E0 :
  decompose 5 E0 true [Plain 0; Cond 3 (Plain 0)] (Some 2)
  = Ok [(Plain 1, TAcc, Some 1); (Plain 1, TAcc, Some 1); (Cond 7 (Plain 2), TAcc, Some 1);
        (Cond 3 (Plain 1), TAcc, Some (-1)); (Cond 3 (Plain 1), TAcc, Some (-1)); (Cond 3 (Cond 7 (Plain 2)), TAcc, Some (-1))].
Proof. vm_compute. reflexivity. Qed.
(* (the second operator shows the transcribed quirk: the base of a Conditional is decomposed with the default budget 0,
   so a rule needing a work wire drives the recorded budget to -1 unless the solution is feasible for budget 0) *)

Example estimate_hypotheses_satisfiable :
  max_expansion E0 = None /\ (forall m b, ty0 (Cond m b) = ty0 b) /\
  (forall o, accept E0 o = true -> tchoose0 (ty0 o) = None) /\
  (forall o b d s, accept E0 o = false -> gsolve E0 o b = Some (d, s) -> exact_choice ty0 tchoose0 d o) /\
  expand 5 tchoose0 0 = Some [1; 1; 2].
Proof.
  split; [reflexivity|]. split; [reflexivity|]. split.
  - intros o H. unfold tchoose0. simpl in H. destruct (ty0 o =? 0); [discriminate | reflexivity].
  - split; [|reflexivity]. intros o b d s _ H. simpl in H.
    destruct o as [c| | | |]; try discriminate. destruct c as [|p|p]; try discriminate.
    inversion H; subst. exists [(1, 2%N); (2, 1%N)]. split; [reflexivity | apply Permutation_refl].
Qed.

Example sem_hypotheses_satisfiable :
  let sem := fun o => if ty0 o =? 0 then 4 else ty0 o in
  (forall m b, sem (Cond m b) = sem b) /\
  (forall o b d s, gsolve E0 o b = Some (d, s) -> lsem Z Z.add 0 sem d = sem o).
Proof.
  split; [reflexivity|]. intros o b d s H. simpl in H.
  destruct o as [c| | | |]; try discriminate. destruct c as [|p|p]; try discriminate.
  inversion H; subst. reflexivity.
Qed.
