(* C07 Operator class attribute claims are true.
   Generated obligations (coq/Gen/C07, rebuilt from /repo): boolean reflections over the exact symbolic
   matrices extracted from compute_matrix; the theorems below turn each into a statement for all real parameters. *)
From Coq Require Import List ZArith QArith Reals Bool.
From Coquelicot Require Import Complex.
From PLV Require Import Alg.Poly Alg.PolyEval Alg.Angles Lin.Vec Lin.VecHom Lin.PVec Lin.PVecSound.
Import ListNotations.

Notation ev hz D th := (map (map (peval (aenv hz D th)))).

(* self-inverse: M*M = I ; composable rotations: M(a)*M(b) = M(a+b) ; unitary generator: G*G = lambda*I *)
Theorem product_claim_forall : forall hz D X Y Z, (0 < hz)%Z -> meqb hz (p_mmul hz X Y) Z = true ->
  forall th : list R, c_mmul (ev hz D th X) (ev hz D th Y) = ev hz D th Z.
Proof. intros hz D X Y Z H E th. exact (mmul_eq_sound hz _ (aenv_good hz D th H) X Y Z E). Qed.
Print Assumptions product_claim_forall.

(* wire symmetry: the gate on permuted wires acts exactly as on the listed wires *)
Theorem wire_symmetry_forall : forall hz D n sigma ows M, (0 < hz)%Z ->
  cols_ok hz n [(sigma, M)] ows M (all_cols n) = true ->
  forall (th : list R) c, In c (all_cols n) ->
    c_capply n (map (evg (aenv hz D th)) [(sigma, M)]) (c_basis n c) = c_apply_gate n ows (ev hz D th M) (c_basis n c).
Proof. intros hz D n s o M H E. exact (cols_ok_forall hz D n _ o M _ H E). Qed.
Print Assumptions wire_symmetry_forall.

(* entrywise equalities: broadcasting (batch element b equals the unbatched matrix at theta_b), diagonal claims *)
Theorem entrywise_claim_forall : forall hz D X Y, (0 < hz)%Z -> meqb hz X Y = true ->
  forall th : list R, ev hz D th X = ev hz D th Y.
Proof. exact meqb_forall. Qed.
Print Assumptions entrywise_claim_forall.

Theorem diagonal_claim_forall : forall hz D M, (0 < hz)%Z -> is_diag hz M = true ->
  forall (th : list R) r c, (r < length M)%nat -> (c < length M)%nat -> r <> c ->
    peval (aenv hz D th) (mnth pzero M r c) = RtoC 0.
Proof.
  intros hz D M H E th r c Hr Hc N. unfold is_diag in E. rewrite forallb_forall in E.
  specialize (E r ltac:(apply in_seq; split; [apply Nat.le_0_l | exact Hr])). rewrite forallb_forall in E.
  specialize (E c ltac:(apply in_seq; split; [apply Nat.le_0_l | exact Hc])).
  destruct (Nat.eqb r c) eqn:Q; [apply Nat.eqb_eq in Q; contradiction|].
  exact (pis_zero_sound hz _ (aenv_good hz D th H) _ E).
Qed.
Print Assumptions diagonal_claim_forall.
