From Coq Require Import List ZArith Bool.
From PLV Require Import Disc.ExecutorModel Disc.ExecutorProofs.
Import ListNotations.
Theorem tmp_placeholder : @collect res [] = Some [].
Proof. exact placeholder_collect_nil. Qed.
Print Assumptions tmp_placeholder.
