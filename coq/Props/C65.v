(* C65 Executor backends behave like map and starmap.
   Statements only; every proof is `exact <lemma>` from Disc/ExecutorProofs.v.
   [pinned] = the dispatch code of the pinned commit, [fixed_map] = with PyNativeExec.map packing by the
   number of iterables, [fixed_all] = additionally kwargs forwarded in the starmap fallback / Pool.apply.
   All statements quantify over every backend, signature shape, argument list, keyword arguments and
   every completion order [perm] in which each task eventually completes ([covers]). *)
From Coq Require Import List ZArith Bool Permutation.
From PLV Require Import Disc.ExecutorModel Disc.ExecutorProofs.
Import ListNotations.
Open Scope Z_scope.

(* the pool contract used below: results by index, whatever the completion order *)
Theorem pool_order_independent : forall (T A : Type) (run : T -> option A) perm tasks,
  covers perm (length tasks) -> pool_eval run perm tasks = collect (map run tasks).
Proof. exact @pool_eval_spec. Qed.
Print Assumptions pool_order_independent.

Theorem permutations_cover : forall perm n, Permutation (seq 0 n) perm -> covers perm n.
Proof. exact permutation_covers. Qed.
Print Assumptions permutations_cover.

(* submit = the direct call (multiprocessing pool: without keyword arguments, see the refutation) *)
Theorem submit_spec : forall be f args kw,
  (be = MPPool -> kw = []) -> exec_submit_gen pinned be f args kw = spec_submit f args kw.
Proof. exact submit_spec_pinned. Qed.
Print Assumptions submit_spec.

Theorem submit_mp_kwargs_refuted : exists f args kw r,
  spec_submit f args kw = Some r /\ exec_submit_gen pinned MPPool f args kw = None.
Proof. exists g11, [AInt 7], [(0%nat, AInt 4)]. eexists. exact submit_mp_kwargs_witness. Qed.
Print Assumptions submit_mp_kwargs_refuted.

(* map = builtin map (zip truncated to the shortest iterable), for ANY packing decision [v_unpack q],
   on the branch where the iterables are unpacked; the multiprocessing pool needs equal lengths
   (zip strict, the documented precondition) and routes one iterable through the decision *)
Theorem map_spec : forall q be perm f iters kw,
  iters <> [] -> covers perm (minlen iters) ->
  (be <> MPPool -> v_unpack q (map_unpack (cfg_of be)) (nparams f) (length iters) = true) ->
  (be = MPPool ->
     (1 < nparams f /\ uniform iters = true) \/
     (nparams f <= 1 /\ (exists it, iters = [it]) /\ v_unpack q false (nparams f) 1%nat = true)) ->
  exec_map_gen q be perm f iters kw = spec_map f iters kw.
Proof. exact map_spec_gen. Qed.
Print Assumptions map_spec.

(* pinned code: map is correct for every function whose signature has more than one parameter *)
Theorem map_spec_pinned_multi_param : forall be perm f iters kw,
  iters <> [] -> covers perm (minlen iters) -> 1 < nparams f ->
  (be = MPPool -> uniform iters = true) ->
  exec_map_gen pinned be perm f iters kw = spec_map f iters kw.
Proof. exact map_spec_pinned. Qed.
Print Assumptions map_spec_pinned_multi_param.

(* pinned code, signature arity 1, one iterable: map is NOT map, on every backend *)
Theorem map_one_param_refuted : forall be, exists perm f iters kw r,
  length iters = 1%nat /\ nparams f = 1 /\ covers perm (minlen iters) /\
  spec_map f iters kw = Some r /\ exec_map_gen pinned be perm f iters kw <> Some r.
Proof.
  intros be. destruct (map_one_param_witness be) as [H1 [H2 [H3 H4]]].
  exists [2; 0; 1]%nat, g1, [it123], []. eexists.
  split; [reflexivity|]. split; [exact H1|]. split; [exact H2|]. split; [exact H3|].
  rewrite H4. discriminate.
Qed.
Print Assumptions map_one_param_refuted.

(* ... what it does instead, for all inputs: the function is applied once to each whole iterable *)
Theorem map_packed_applies_to_whole_iterables : forall be perm f iters kw,
  nparams f <= 1 -> covers perm (length iters) ->
  exec_map_gen pinned be perm f iters kw = collect (map (fun it => call f [ASeq it] kw) iters).
Proof. exact map_packed_pinned. Qed.
Print Assumptions map_packed_applies_to_whole_iterables.

(* the proposed repair (unpack when the backend unpacks or there is exactly one iterable): all arities *)
Theorem map_spec_fixed_all_arities : forall be perm f iters kw,
  iters <> [] -> covers perm (minlen iters) ->
  (be = MPPool -> (1 < nparams f /\ uniform iters = true) \/ (nparams f <= 1 /\ exists it, iters = [it])) ->
  exec_map_gen fixed_map be perm f iters kw = spec_map f iters kw.
Proof. exact map_spec_fixed. Qed.
Print Assumptions map_spec_fixed_all_arities.

(* starmap = itertools.starmap; backends with a native starmap (serial, multiprocessing pool): always;
   concurrent.futures backends (fallback through map): rectangular rows of width >= 1, no kwargs *)
Theorem starmap_spec : forall be perm f rows kw,
  covers perm (length rows) ->
  (backend_has_starmap be = false ->
     kw = [] /\ uniform rows = true /\ (rows = [] \/ (hd [] rows <> [] /\ 1 < nparams f))) ->
  exec_starmap_gen pinned be perm f rows kw = spec_starmap f rows kw.
Proof. exact starmap_spec_pinned. Qed.
Print Assumptions starmap_spec.

Theorem starmap_spec_any_variant : forall q be perm f rows kw,
  covers perm (length rows) ->
  (backend_has_starmap be = false ->
     (v_starmap_kw_to_list q = true -> kw = []) /\ uniform rows = true /\
     (rows = [] \/ (hd [] rows <> [] /\ v_unpack q true (nparams f) (length (hd [] rows)) = true))) ->
  exec_starmap_gen q be perm f rows kw = spec_starmap f rows kw.
Proof. exact starmap_spec_gen. Qed.
Print Assumptions starmap_spec_any_variant.

Theorem starmap_kwargs_refuted : exists f rows kw perm r,
  covers perm (length rows) /\ spec_starmap f rows kw = Some r /\
  exec_starmap_gen pinned Thread perm f rows kw = None /\
  exec_starmap_gen pinned Proc perm f rows kw = None.
Proof.
  exists g11, [[AInt 7]; [AInt 1]], [(0%nat, AInt 4)], [0; 1]%nat. eexists.
  split; [apply coversb_covers; reflexivity | exact starmap_kwargs_witness].
Qed.
Print Assumptions starmap_kwargs_refuted.

(* non-vacuity: a two-parameter map with uneven lengths completing in reverse order, and a starmap *)
Example map_two_params_reverse_completion :
  covers [1; 0]%nat (minlen [[AInt 7; AInt 5; AInt 3]; [AInt 10; AInt 20]]) /\
  exec_map_gen pinned Thread [1; 0]%nat g2 [[AInt 7; AInt 5; AInt 3]; [AInt 10; AInt 20]] []
  = Some [RApp 200 [AInt 7; AInt 10] [] []; RApp 200 [AInt 5; AInt 20] [] []].
Proof. split; [apply coversb_covers; reflexivity | vm_compute; reflexivity]. Qed.

Example starmap_fallback_reverse_completion :
  exec_starmap_gen pinned Proc [2; 1; 0]%nat g2 [[AInt 7; AInt 1]; [AInt 5; AInt 2]; [AInt 3; AInt 3]] []
  = spec_starmap g2 [[AInt 7; AInt 1]; [AInt 5; AInt 2]; [AInt 3; AInt 3]] [].
Proof. vm_compute; reflexivity. Qed.
