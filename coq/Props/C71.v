(* C71 Snapshots report the state of the circuit prefix.
   Statements only; every proof is `exact <lemma>` from Disc/SnapshotsProofs.v.
   Model (Disc/SnapshotsModel.v): circuits are lists of gates and snapshots over an arbitrary state type
   with arbitrary [apply] and [measure]; three execution paths DQ (default.qubit debugger), DM
   (default.mixed debugger), TAPE (tape splitting for devices without a debugger). *)
From Coq Require Import List ZArith Bool Arith.
From PLV Require Import Disc.SnapshotsModel Disc.SnapshotsProofs.
Import ListNotations.

Section Statements.
  Variables (G St K V : Type).
  Variable apply : G -> St -> St.
  Variable measure : K -> St -> V.

  (* the k-th snapshot (k = number of snapshots before position p) is recorded with the measurement of
     the circuit TRUNCATED at p (the gates before it, from the initial state), and its default integer
     tag is its ordinal among all snapshots *)
  Theorem snapshot_is_prefix_measure : forall c init p t k,
      nth_error c p = Some (Snap G K t k) ->
      nth_error (occs G St K V apply measure c init) (nsnaps G K (firstn p c))
      = Some (t, nsnaps G K (firstn p c),
              measure k (run G St apply (gates_of G K (firstn p c)) init)).
  Proof. intros c init; exact (occs_from_prefix G St K V apply measure c [] init). Qed.

  Theorem one_record_per_snapshot : forall c init,
      length (occs G St K V apply measure c init) = nsnaps G K c.
  Proof. intros c init; exact (occs_length G St K V apply measure c [] init). Qed.

  (* each execution path = logging exactly those records, in circuit order, with the path's own
     dictionary update; and the final state is that of the gates alone *)
  Theorem default_qubit_logs_prefix_records : forall c init,
      exec G St K V apply measure (DQ) c init
      = (run G St apply (gates_of G K c) init,
         fold_left (fun l kv => upd_dq V (fst kv) (snd kv) l) (dev_kvs G St K V apply measure c init) []).
  Proof. exact (exec_dq_spec G St K V apply measure). Qed.

  Theorem default_mixed_logs_prefix_records : forall c init, no_empty G K c = true ->
      exec G St K V apply measure (DM) c init
      = (run G St apply (gates_of G K c) init,
         fold_left (fun l kv => set V (fst kv) (One V (snd kv)) l) (dev_kvs G St K V apply measure c init) []).
  Proof. exact (exec_dm_spec G St K V apply measure). Qed.

  Theorem tape_split_logs_prefix_records : forall c init,
      exec G St K V apply measure (TAPE) c init
      = (run G St apply (gates_of G K c) init,
         fold_left (fun l kv => set V (fst kv) (One V (snd kv)) l) (tape_kvs G St K V apply measure c init) []).
  Proof. exact (exec_tape_spec G St K V apply measure). Qed.

  (* what is found under a tag.  default.qubit: ALL values recorded under the tag in order (a single
     value if the tag is used once, a list if it is repeated); overwrite paths: the last one *)
  Theorem default_qubit_lookup : forall kvs k,
      lookup V k (fold_left (fun l kv => upd_dq V (fst kv) (snd kv) l) kvs []) = pack V (vals V k kvs).
  Proof. exact (dq_lookup V). Qed.

  Theorem overwrite_lookup : forall kvs k,
      lookup V k (fold_left (fun l kv => set V (fst kv) (One V (snd kv)) l) kvs [])
      = pack_last V (vals V k kvs).
  Proof. exact (over_lookup V). Qed.

  (* keys appear in order of first use (Python dict order), on every path *)
  Theorem tags_in_order_dq : forall kvs,
      map fst (fold_left (fun l kv => upd_dq V (fst kv) (snd kv) l) kvs []) = first_seen (map fst kvs).
  Proof. intros kvs; exact (keys_fold V (upd_dq V) (keys_upd_dq V) kvs []). Qed.

  Theorem tags_in_order_overwrite : forall kvs,
      map fst (fold_left (fun l kv => set V (fst kv) (One V (snd kv)) l) kvs []) = first_seen (map fst kvs).
  Proof.
    intros kvs; exact (keys_fold V (fun k v l => set V k (One V v) l)
                                 (fun k v l => keys_set V k (One V v) l) kvs []).
  Qed.

  (* the final state (hence the final results) is unchanged by the snapshots: it equals the state of
     the circuit with the snapshots erased, whose execution logs nothing *)
  Theorem final_unchanged : forall m c init,
      fst (exec G St K V apply measure m (erase G K c) init) = run G St apply (gates_of G K c) init
      /\ snd (exec G St K V apply measure m (erase G K c) init) = []
      /\ (no_empty G K c = true \/ m <> DM ->
          fst (exec G St K V apply measure m c init) = run G St apply (gates_of G K c) init).
  Proof.
    intros m c init. rewrite (exec_erased G St K V apply measure m c init).
    split; [reflexivity | split; [reflexivity | exact (final_state G St K V apply measure m c init)]].
  Qed.

  Theorem final_unchanged_default_mixed_any_tags : forall c init,
      fst (exec G St K V apply measure (DM) c init) = run G St apply (gates_of G K c) init.
  Proof. intros c init; exact (final_state_dm_any G St K V apply measure c init 0%nat []). Qed.
End Statements.
Print Assumptions snapshot_is_prefix_measure.
Print Assumptions one_record_per_snapshot.
Print Assumptions default_qubit_logs_prefix_records.
Print Assumptions default_mixed_logs_prefix_records.
Print Assumptions tape_split_logs_prefix_records.
Print Assumptions default_qubit_lookup.
Print Assumptions overwrite_lookup.
Print Assumptions tags_in_order_dq.
Print Assumptions tags_in_order_overwrite.
Print Assumptions final_unchanged.
Print Assumptions final_unchanged_default_mixed_any_tags.

(* non-vacuity and the duplicate-tag / empty-tag behaviour of the three paths on concrete circuits *)
Example duplicate_tags_default_qubit : c_exec 0 ex_circ
  = ([10; 11; 12]%Z,
     [(KInt 0, One _ (0%Z, [])); (KStr 5, Many _ [(1%Z, [10%Z]); (2%Z, [10%Z; 11%Z])]);
      (KInt 3, One _ (0%Z, [10%Z; 11%Z]))]).
Proof. exact ex_dq. Qed.
Example duplicate_tags_overwrite : c_exec 1 ex_circ = c_exec 2 ex_circ
  /\ c_exec 1 ex_circ
     = ([10; 11; 12]%Z,
        [(KInt 0, One _ (0%Z, [])); (KStr 5, One _ (2%Z, [10%Z; 11%Z])); (KInt 3, One _ (0%Z, [10%Z; 11%Z]))]).
Proof. exact ex_dm_tape. Qed.
Example empty_tag_paths_differ :
  let c := [Snap Z Z (Some 5%Z) 0%Z; Snap Z Z (Some 5%Z) 0%Z; Snap Z Z (Some 0%Z) 0%Z] in
  map fst (snd (c_exec 0 c)) = [KStr 5; KStr 0] /\
  map fst (snd (c_exec 1 c)) = [KStr 5; KInt 1] /\
  map fst (snd (c_exec 2 c)) = [KStr 5; KInt 2].
Proof. exact ex_empty_tag. Qed.
