(* C02 Named gates implement their documented unitaries.
   Static: the documented formulas (coq/Tab/GateTable.v, written from the class docstrings with the symbols of
   Tab/TrigSyms.v) and what those symbols denote.  Generated (coq/Gen/C02, rebuilt from /repo):
     doc_k  : meqb 4 M_ext (doc table entry) = true     -- extracted compute_matrix equals the documented matrix
     uni_k  : is_unitary 4 M_ext = true                 -- every gate matrix is unitary
     msb_k  : cols_ok ... -- the gate on listed wires acts with the first listed wire as most significant bit. *)
From Coq Require Import List ZArith QArith Reals Bool String Lia.
From Coquelicot Require Import Complex.
From PLV Require Import Alg.Poly Alg.PolyEval Alg.Angles Lin.Vec Lin.VecHom Lin.PVec Lin.PVecSound Tab.TrigSyms Tab.GateTable.
Import ListNotations.

(* the symbols used in the documentation table denote the documented functions, for every real theta *)
Theorem cos_half_symbol : forall th j, peval (aenv HZ DD th) (c j) = RtoC (cos (nth j th 0%R / 2)).
Proof. exact c_denotes. Qed.
Print Assumptions cos_half_symbol.
Theorem sin_half_symbol : forall th j, peval (aenv HZ DD th) (s j) = RtoC (sin (nth j th 0%R / 2)).
Proof. exact s_denotes. Qed.
Print Assumptions sin_half_symbol.
Theorem phase_symbol : forall th j n d, (d <> 0)%Z -> Z.divide d (DD * n) ->
  peval (aenv HZ DD th) (pexp j n d) = cis (IZR n / IZR d * nth j th 0%R).
Proof. exact pexp_denotes. Qed.
Print Assumptions phase_symbol.
Theorem imaginary_unit_symbol : forall th, peval (aenv HZ DD th) pI = Ci.
Proof. exact pI_denotes. Qed.
Print Assumptions imaginary_unit_symbol.

(* a generated doc obligation means: for all real parameters the implementation's matrix equals the documented one *)
Theorem gate_matches_doc_forall : forall X Y, meqb HZ X Y = true ->
  forall th : list R, map (map (peval (aenv HZ DD th))) X = map (map (peval (aenv HZ DD th))) Y.
Proof. intros X Y H. apply meqb_forall; [unfold HZ; reflexivity | exact H]. Qed.
Print Assumptions gate_matches_doc_forall.

Theorem gate_unitary_forall : forall M, is_unitary HZ M = true ->
  forall th : list R, let Mc := map (map (peval (aenv HZ DD th))) M in c_mmul (c_madj Mc) Mc = c_mident (List.length M).
Proof. intros M H. apply is_unitary_forall; [unfold HZ; reflexivity | exact H]. Qed.
Print Assumptions gate_unitary_forall.

(* wire convention of the semantics itself: bit 0 of the index (most significant) belongs to the first wire *)
Lemma bits_length : forall m k, List.length (bits m k) = m.
Proof. induction m as [|m IH]; intros k; [reflexivity|]. change (bits (S m) k) with (bits m (Nat.div2 k) ++ [Nat.odd k]). rewrite app_length, IH. cbn. lia. Qed.

Theorem first_wire_is_most_significant : forall n i, (i < 2 ^ S n)%nat ->
  nth 0 (bits (S n) i) false = Nat.leb (2 ^ n) i.
Proof.
  induction n as [|n IH]; intros i H.
  - cbn in H. destruct i as [|[|i]]; [reflexivity | reflexivity | lia].
  - change (bits (S (S n)) i) with (bits (S n) (Nat.div2 i) ++ [Nat.odd i]).
    rewrite app_nth1 by (rewrite bits_length; lia).
    assert (D : (i = 2 * Nat.div2 i + (if Nat.odd i then 1 else 0))%nat) by (pose proof (Nat.div2_odd i) as D0; unfold Nat.b2n in D0; exact D0).
    assert (P : (2 ^ S (S n) = 2 * 2 ^ S n)%nat) by reflexivity.
    assert (Q : (2 ^ S n = 2 * 2 ^ n)%nat) by reflexivity.
    rewrite IH by (destruct (Nat.odd i); lia).
    destruct (Nat.leb (2 ^ n) (Nat.div2 i)) eqn:E; symmetry.
    + apply Nat.leb_le in E. apply Nat.leb_le. destruct (Nat.odd i); lia.
    + apply Nat.leb_gt in E. apply Nat.leb_gt. destruct (Nat.odd i); lia.
Qed.
Print Assumptions first_wire_is_most_significant.
