(* C74 MBQC conversion and Pauli tracking preserve the circuit -- part A: the Pauli tracker.
   Statements only; proofs are `exact <lemma>` from Disc/PauliTrackProofs.v.
   Semantics: a state is an amplitude function on bit assignments (wires = nat, any register size);
   op1 w m / op2 c t m apply a literal 2x2 / 4x4 matrix to wire(s); Hm, Sm, CXm, Xm, Ym, Zm are the textbook
   matrices over the Gaussian integers (Hm = sqrt2 * Hadamard: every statement below is homogeneous in the gate,
   so the scaling is immaterial).  A frame F : list (x, z) denotes the operator prod_w X_w^x Z_w^z.
   unit4 u  means  u in {1, i, -1, -i}. *)
From Coq Require Import List ZArith Bool.
From PLV Require Import Disc.PauliTrackModel Disc.PauliTrackProofs.
Import ListNotations.

(* C P = u P' C for one gate of {H, S, CNOT} on any wires of an n-wire register and EVERY n-wire Pauli frame,
   where P' is the frame the tracker records (commute_clifford_op applied to the gate's wires) *)
Theorem commute_through_gate : forall n g F psi, length F = n -> gate_ok n g ->
  sem_gate g (sem_frame F psi) = scal (phase_gate g F) (sem_frame (track_gate g F) (sem_gate g psi))
  /\ unit4 (phase_gate g F).
Proof. intros n g F psi HF Hg; split; [exact (commute_gate n g F psi HF Hg) | exact (phase_gate_unit g F)]. Qed.
Print Assumptions commute_through_gate.

(* ... lifted to every Clifford circuit over {H, S, CNOT} on n wires, any n, every frame, every state *)
Theorem commute_through_circuit : forall n cs F psi, length F = n -> Forall (gate_ok n) cs ->
  exists u, unit4 u /\ sem_circ cs (sem_frame F psi) = scal u (sem_frame (track_circ cs F) (sem_circ cs psi)).
Proof. exact commute_circ. Qed.
Print Assumptions commute_through_circuit.

(* the public table function agrees with the per-gate maps used above, on all frames of the gate's wires *)
Theorem commute_clifford_op_is_table : forall pc pt : xz,
  commute_clifford_op CH [[zb (fst pc); zb (snd pc)]] = Some [commute_h pc] /\
  commute_clifford_op CS [[zb (fst pc); zb (snd pc)]] = Some [commute_s pc] /\
  commute_clifford_op CCNOT [[zb (fst pc); zb (snd pc)]; [zb (fst pt); zb (snd pt)]] =
    Some [fst (commute_cnot pc pt); snd (commute_cnot pc pt)].
Proof. exact commute_clifford_op_spec. Qed.
Print Assumptions commute_clifford_op_is_table.

(* the same on literal 2x2 / 4x4 matrices with Hermitian Pauli labels I, X, Y, Z: C P = +-P' C
   (finite domains: 4 Paulis for H and S, 16 Pauli pairs for CNOT; pm_eq a b := a = b \/ a = -b) *)
Theorem pauli_tracker_ok_H : forall p : pauli, pm_eq (mmul Hmat (pmat p)) (mmul (pmat (relabel commute_h p)) Hmat).
Proof. exact tracker_matrix_H. Qed.
Print Assumptions pauli_tracker_ok_H.
Theorem pauli_tracker_ok_S : forall p : pauli, pm_eq (mmul Smat (pmat p)) (mmul (pmat (relabel commute_s p)) Smat).
Proof. exact tracker_matrix_S. Qed.
Print Assumptions pauli_tracker_ok_S.
Theorem pauli_tracker_ok_CNOT : forall p q : pauli,
  pm_eq (mmul CXmat (kron (pmat p) (pmat q)))
        (mmul (kron (pmat (xz_to_pauli_b (fst (commute_cnot (pauli_to_xz p) (pauli_to_xz q)))))
                    (pmat (xz_to_pauli_b (snd (commute_cnot (pauli_to_xz p) (pauli_to_xz q)))))) CXmat).
Proof. exact tracker_matrix_CX. Qed.
Print Assumptions pauli_tracker_ok_CNOT.

(* the amplitude-function semantics is the matrix semantics (1 and 2 wires, wire 0 = most significant bit) *)
Theorem semantics_is_matrix_semantics :
  matrix_of 1 (op1 0 Hm) = Hmat /\ matrix_of 1 (op1 0 Sm) = Smat /\ matrix_of 2 (op2 0 1 CXm) = CXmat /\
  (forall p, matrix_of 1 (sem_pauli 0 p) = pmat p) /\
  (forall p q, matrix_of 2 (fun psi => sem_pauli 0 p (sem_pauli 1 q psi)) = kron (pmat p) (pmat q)).
Proof. exact matrix_of_gates. Qed.
Print Assumptions semantics_is_matrix_semantics.

(* pauli_prod: the product ops[0] ops[1] ... of Pauli operators on one wire is, up to a phase in {1,i,-1,-i},
   the Pauli the function returns; it fails exactly on the empty list or a non-Pauli entry *)
Theorem pauli_prod_is_product_up_to_phase : forall l w r psi, pauli_prod (map Some l) = Some r ->
  exists u, unit4 u /\ fold_right (sem_pauli w) psi l = scal u (opP w r psi).
Proof. exact pauli_prod_sem. Qed.
Print Assumptions pauli_prod_is_product_up_to_phase.
Theorem pauli_prod_fails_iff : forall l, pauli_prod l = None <-> l = [] \/ In None l.
Proof. exact pauli_prod_none. Qed.
Print Assumptions pauli_prod_fails_iff.

(* _correct_samples: the amplitude of (frame . psi) at bit string b is, up to a sign, the amplitude of psi at
   b xor x-record; hence xor-ing a computational-basis sample with the recorded x undoes the frame
   (the z record and every phase are invisible to such a sample) -- every frame, any number of wires *)
Theorem corrected_sample_undoes_frame : forall F psi b, exists s, pm1 s /\
  sem_frame F psi b = gmul s (psi (fun i => xorb (b i) (fst (nth i F pI)))).
Proof. exact frame_amplitude. Qed.
Print Assumptions corrected_sample_undoes_frame.

(* non-vacuity: a 3-wire circuit and frame meeting the hypotheses, with the tracked frame computed *)
Example hyps_satisfiable :
  Forall (gate_ok 3) [GH 0; GCX 0 2; GS 2; GCX 2 1] /\
  track_circ [GH 0; GCX 0 2; GS 2; GCX 2 1] [(true, false); (false, true); (true, true)]
    = [(false, false); (true, true); (true, true)] /\
  pauli_prod [Some PI; Some PX; Some PY; Some PZ] = Some (false, false).
Proof. repeat split; repeat constructor; auto. Qed.
