(* C11 Declared decomposition resources match the emitted gates *)
From Coq Require Import List ZArith Bool.
From PLV Require Import Disc.DecompResModel Disc.DecompResProofs.
Import ListNotations.
Open Scope Z_scope.

(* What a passing generated case (check_case c = true, evaluated by vm_compute on the gate stream and the
   declaration extracted from /repo) establishes, for every resource type and every prefix of the stream. *)
Theorem resources_check_sound : forall c, check_case c = true ->
  (exact c = true -> forall k, count k (emitted c) = declared_of k (declared c) \/ (mem_key k (declared c) = false /\ count k (emitted c) = 0)) /\
  (forall x, In x (emitted c) -> exists v, In (x, v) (declared c)) /\
  (forall k, (k <= length (allocs c))%nat -> fold_right Z.add 0 (firstn k (allocs c)) <= work_declared c).
Proof. exact check_case_sound. Qed.
Print Assumptions resources_check_sound.

(* gate counts are additive over concatenation of emitted circuits (used when rules call sub-rules) *)
Theorem count_additive : forall k a b, count k (a ++ b) = count k a + count k b.
Proof. exact count_app. Qed.
Print Assumptions count_additive.

Theorem exact_implies_subset : forall e d, res_exact e d = true -> res_subset e d = true.
Proof. exact res_exact_subset. Qed.
Print Assumptions exact_implies_subset.

Theorem peak_bounds_live_work_wires : forall evs k, (k <= length evs)%nat -> fold_right Z.add 0 (firstn k evs) <= peak evs.
Proof. exact peak_bounds_every_prefix. Qed.
Print Assumptions peak_bounds_live_work_wires.

Example check_satisfiable : check_case (mkCase [1; 2; 1; 3] [(1, 2); (2, 1); (3, 1)] true [2; -2; 1; -1] 2) = true
  /\ check_case (mkCase [1; 2; 1] [(1, 1); (2, 1)] true [] 0) = false.
Proof. split; reflexivity. Qed.
