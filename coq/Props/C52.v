(* C52 Observable grouping partitions correctly.
   Statements only; every proof is `exact <lemma>` from Disc/GroupingProofs.v.
   The graph colouring (rustworkx / recursive_largest_first) is an oracle: the theorems hold for EVERY
   colouring that the boolean checker `properb` accepts; the check evaluates `properb` on the recorded one. *)
From Coq Require Import List ZArith Bool Permutation.
From PLV Require Import Disc.GroupingModel Disc.GroupingProofs.
Import ListNotations.

(* the symplectic computation of _adj_matrix_from_symplectic is the negation of the relation, entry by entry,
   for every list of words of a common length and each of the three grouping types *)
Theorem adjacency_iff_relation : forall g n ws, Forall (fun w => length w = n) ws ->
  adj_matrix g (symp_matrix ws) = map (fun wi => map (fun wj => negb (rel g wi wj)) ws) ws.
Proof. exact adjacency_iff_relation_l. Qed.
Print Assumptions adjacency_iff_relation.

Theorem relation_symmetric : forall g u v, rel g u v = rel g v u.
Proof. exact rel_sym. Qed.
Print Assumptions relation_symmetric.

Theorem qwc_implies_commuting : forall u v, qwc u v = true -> commuting u v = true.
Proof. exact qwc_commuting. Qed.
Print Assumptions qwc_implies_commuting.

(* binary_to_pauli inverts pauli_to_binary (used on the recursive_largest_first path) *)
Theorem binary_roundtrip : forall w, from_symp (to_symp w) = w.
Proof. exact from_to_symp. Qed.
Print Assumptions binary_roundtrip.

(* every colouring that is proper for the complement graph built from the adjacency matrix gives index
   groups in which each index occurs exactly once and whose members are pairwise related *)
Theorem partition_from_proper_colouring : forall g n ws cols,
  Forall (fun w => length w = n) ws ->
  properb (adj_matrix g (symp_matrix ws)) cols = true ->
  Permutation (concat (idx_partitions cols)) (seq 0 (length ws)) /\
  Forall (ForallOrdPairs (fun i j => rel g (nth i ws []) (nth j ws []) = true)) (idx_partitions cols).
Proof. exact partition_from_proper_colouring_l. Qed.
Print Assumptions partition_from_proper_colouring.

(* the boolean checker evaluated on the implementation's output is sound *)
Theorem valid_grouping_sound : forall r ws gs, valid_grouping r ws gs = true ->
  Permutation (concat gs) (seq 0 (length ws)) /\
  Forall (ForallOrdPairs (fun i j => r (nth i ws []) (nth j ws []) = true)) gs.
Proof. exact valid_grouping_sound_l. Qed.
Print Assumptions valid_grouping_sound.

(* _partition_coeffs (find first identical remaining observable, pop it): whenever the groups are a
   rearrangement of the input words, the (word, coefficient) pairs are only rearranged, group shapes kept *)
Theorem coeffs_travel : forall (gs : list (list word)) (obs : list (word * Z)),
  Permutation (concat gs) (map fst obs) ->
  map (@length _) (route gs obs) = map (@length _) gs /\
  Permutation (combine (concat gs) (concat (route gs obs))) obs.
Proof. exact (@coeffs_travel_l Z). Qed.
Print Assumptions coeffs_travel.

(* the same routing with indices as payload: _compute_partition_indices_rlf *)
Theorem indices_travel : forall (gs : list (list word)) (obs : list (word * nat)),
  Permutation (concat gs) (map fst obs) ->
  map (@length _) (route gs obs) = map (@length _) gs /\
  Permutation (combine (concat gs) (concat (route gs obs))) obs.
Proof. exact (@coeffs_travel_l nat). Qed.
Print Assumptions indices_travel.

(* group_observables on the rustworkx path: a partition of the input words into pairwise related groups,
   for every accepted colouring - provided no wire-less observable meets grouping type anticommuting *)
Theorem group_observables_rx_sound : forall gt n obs cols,
  Forall (fun o => length (fst o) = n) obs ->
  with_wires obs <> [] ->
  properb (adj_matrix gt (symp_matrix (with_wires obs))) cols = true ->
  Forall (fun w => w = repeat PI n) (no_wires obs) ->
  (gt <> ANTI \/ no_wires obs = []) ->
  exists gs, group_observables obs (ORx cols) = Some gs /\
             Permutation (concat gs) (map fst obs) /\
             Forall (ForallOrdPairs (fun u v => rel gt u v = true)) gs.
Proof. exact group_observables_rx_sound_l. Qed.
Print Assumptions group_observables_rx_sound.

(* ... and that proviso is needed: with a wire-less Identity the first group is not pairwise anticommuting
   (the faithful model REFUTES the clause for this corner; the real code behaves the same, see the finding) *)
Theorem anticommuting_wireless_refuted :
  exists obs cols gs,
    properb (adj_matrix ANTI (symp_matrix (with_wires obs))) cols = true /\
    group_observables obs (ORx cols) = Some gs /\
    forallb (pairwiseb (rel ANTI)) gs = false.
Proof. exact anticommuting_wireless_refuted_l. Qed.
Print Assumptions anticommuting_wireless_refuted.

(* diagonalize_qwc_pauli_words: a pairwise qwc group always has a common basis (no exception) ... *)
Theorem qwc_group_has_basis : forall n g, Forall (fun w => length w = n) g ->
  ForallOrdPairs (fun u v => qwc u v = true) g -> exists f, full_word n g = Some f.
Proof. exact qwc_group_has_basis_l. Qed.
Print Assumptions qwc_group_has_basis.

(* ... and the rotations chosen per wire (RY(-pi/2) for X, RX(pi/2) for Y, none for Z / I) conjugate every
   member to its Z/I word with sign +1, so the coefficient is unchanged *)
Theorem qwc_group_diagonalised : forall n g f, Forall (fun w => length w = n) g ->
  full_word n g = Some f ->
  forall w, In w g -> conj_word (map gate_of f) w = (1%Z, diag_word w).
Proof. exact qwc_group_diagonalised_l. Qed.
Print Assumptions qwc_group_diagonalised.

(* the single-qubit conjugation table used above, from 2x2 matrices over Z[i]:
   V p V^dagger = |V|^2 * sign * q, V V^dagger = |V|^2 * I, with V = sqrt2 * U for the two rotations
   (finite domain: 3 gates x 4 letters) *)
Theorem rotation_table_from_matrices : forall g p,
  mmul (mmul (gmat g) (pmat p)) (mdag (gmat g)) = mscale (gnorm g * fst (conj1 g p)) (pmat (snd (conj1 g p))) /\
  mmul (gmat g) (mdag (gmat g)) = mscale (gnorm g) (pmat PI).
Proof. intros g p; split; [exact (conj1_matrix_l g p) | exact (gmat_unitary_l g)]. Qed.
Print Assumptions rotation_table_from_matrices.

(* non-vacuity: a concrete input meets the hypotheses used above *)
Example hyps_satisfiable :
  let obs := [([PX; PZ], true); ([PZ; PI], true); ([PI; PX], true); ([PI; PI], false)] in
  let cols := [0%Z; 1%Z; 1%Z] in
  properb (adj_matrix QWC (symp_matrix (with_wires obs))) cols = true /\
  group_observables obs (ORx cols) = Some [[[PX; PZ]; [PI; PI]]; [[PZ; PI]; [PI; PX]]] /\
  partition_coeffs obs [1; 2; 3; 4]%Z [[[PX; PZ]; [PI; PI]]; [[PZ; PI]; [PI; PX]]] = [[1; 4]; [2; 3]]%Z /\
  full_word 2 [[PZ; PI]; [PI; PX]] = Some [PZ; PX] /\
  valid_grouping (rel QWC) (map fst obs) [[0; 3]; [1; 2]] = true.
Proof. vm_compute. repeat split. Qed.
