From Coq Require Import List ZArith Bool.
From PLV Require Import Disc.GroupingModel Disc.GroupingProofs.
Import ListNotations.
Theorem stub : forall v, qwc [] v = true. Proof. exact qwc_nil. Qed.
Print Assumptions stub.
