(* C34 Every accepted differentiation configuration gives the true derivative.
   Statements only.  The circuit-level objects: a tape is (gates, observable), both with entries in the QSym scalars
   (Laurent polynomials in z_j = exp(i theta_j / D) over Q(zeta)); `c_expval n (evtape (aenv hz D th) t)` is the
   expectation value <0|U(th)^dagger O U(th)|0> computed over Coquelicot's complex numbers with the plain
   matrix-vector semantics of Lin/Vec.v; `Cderive f x l` says that the real and imaginary parts of f : R -> C have
   derivatives fst l, snd l at x (Coquelicot's is_derive); `upd th j y` is the parameter vector th with entry j set to y. *)
From Coq Require Import List ZArith QArith Reals Bool.
From Coquelicot Require Import Coquelicot.
From PLV Require Import Alg.Poly Alg.PolyEval Alg.Angles Alg.DerivDef Alg.Deriv Lin.Vec Lin.PVec Lin.PVecSound Lin.Grad Lin.GradSound.
Import ListNotations.

(* the formal derivative on scalars is the analytic partial derivative, for every polynomial and every parameter vector *)
Theorem formal_derivative_is_derivative : forall hz D, (0 < hz)%Z -> Z.even hz = true -> D <> 0%Z ->
  forall th j p x,
    Cderive (fun y => peval (aenv hz D (upd th j y)) p) x (peval (aenv hz D (upd th j x)) (pderiv hz D j p)).
Proof. exact pderiv_sound. Qed.
Print Assumptions formal_derivative_is_derivative.

(* a discharged `expval_is` obligation: the translator's polynomial is the tape's expectation value for all parameters *)
Theorem certified_expval_polynomial : forall hz D n t E, (0 < hz)%Z -> expval_is hz n t E = true ->
  forall th : list R, c_expval n (evtape (aenv hz D th) t) = peval (aenv hz D th) E.
Proof. exact expval_is_forall. Qed.
Print Assumptions certified_expval_polynomial.

(* a discharged `deriv_is` obligation: dE is the partial derivative of E with respect to theta_j, everywhere *)
Theorem certified_derivative_polynomial : forall hz D j E dE, (0 < hz)%Z -> deriv_is hz D j E dE = true ->
  forall th x, Cderive (fun y => peval (aenv hz D (upd th j y)) E) x (peval (aenv hz D (upd th j x)) dE).
Proof. exact deriv_is_forall. Qed.
Print Assumptions certified_derivative_polynomial.

(* a discharged `shift_rule_ok` obligation: the transform's linear combination of the expectation values of its shifted /
   Hadamard-test tapes IS the partial derivative of the original tape's expectation value, at every parameter vector *)
Theorem gradient_tapes_give_the_derivative : forall hz D n j cs ts t, (0 < hz)%Z -> shift_rule_ok hz D n j cs ts t = true ->
  forall th x,
    Cderive (fun y => c_expval n (evtape (aenv hz D (upd th j y)) t)) x
            (c_lincomb (map (peval (aenv hz D (upd th j x))) cs)
                       (map (fun t' => c_expval n (evtape (aenv hz D (upd th j x)) t')) ts)).
Proof. exact shift_rule_ok_forall. Qed.
Print Assumptions gradient_tapes_give_the_derivative.

(* non-vacuity: RX(theta_0) on one wire, <Z>; the two-term rule with shifts +-pi/2 and coefficients +-1/2
   (hz = 8: zeta = exp(i pi/8); D = 4: z = exp(i theta/4), so cos(theta/2) = (z^2 + z^-2)/2) *)
Definition rx (s : Z) : pgate :=   (* RX(theta + s*pi/2): half angle theta/2 + s*pi/4 = z^2 * zeta^(2s) *)
  ([0%nat], [[ [(1#2, [(2*s)%Z; 2%Z]); (1#2, [(-2*s)%Z; (-2)%Z])];   [(-1#2, [(2*s+4)%Z; 2%Z]); (1#2, [(-2*s+4)%Z; (-2)%Z])] ];
             [ [(-1#2, [(2*s+4)%Z; 2%Z]); (1#2, [(-2*s+4)%Z; (-2)%Z])]; [(1#2, [(2*s)%Z; 2%Z]); (1#2, [(-2*s)%Z; (-2)%Z])] ]]).
Definition obsZ : pobs := [(pone, [([0%nat], [[pone; pzero]; [pzero; pneg pone]])])].
Example two_term_rule_instance :
  shift_rule_ok 8 4 1 0 [pconst (1#2); pconst (-1#2)] [([rx 1], obsZ); ([rx (-1)], obsZ)] ([rx 0], obsZ) = true.
Proof. vm_compute. reflexivity. Qed.
