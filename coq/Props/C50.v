(* C50 GF(2) linear algebra is exact.
   Statements only; every proof is `exact <lemma>` from Disc/GF2Proofs.v.

   Vocabulary (Disc/GF2Proofs.v):
     rect n M        every row of M has length n
     span n A v      v lies in the GF(2) row space of A (closure of the rows under 0 and xor)
     row_equiv n A B every row of B is in the row space of A and every row of A in that of B
     dot a x         the GF(2) inner product
     comb n c B      the combination of the rows of B selected by the bits c
     independent n B only the all-zero selection c gives comb n c B = 0 *)
From Coq Require Import List ZArith Bool.
From PLV Require Import Disc.GF2Model Disc.GF2Proofs.
Import ListNotations.

(* --- binary_finite_reduced_row_echelon --- *)

(* the loops terminate within the model's fuel on every rectangular matrix *)
Theorem rref_total : forall n M, rect n M -> exists R, rref M = Some R.
Proof. exact rref_total_lemma. Qed.
Print Assumptions rref_total.

(* the output has the same shape and the same row space: the slice swap and the outer-product xor
   update are whole-row operations because of the invariant "rows >= irow are zero left of icol" *)
Theorem rref_row_equiv : forall n M R, rect n M -> rref M = Some R ->
  rect n R /\ length R = length M /\ row_equiv n M R.
Proof. exact rref_row_equiv_lemma. Qed.
Print Assumptions rref_row_equiv.

(* pivot structure of the output: every row k either owns a pivot column c >= k that is a unit
   column (1 in row k, 0 in every other row) with only zeros to the left of the pivot in row k,
   or is entirely zero.
   _partial: strict monotonicity of the pivot columns / zero rows last is not stated here. *)
Theorem rref_is_rref_partial : forall n M R, rect n M -> rref M = Some R ->
  forall k, k < length M ->
    (exists c, k <= c /\ c < ncols M /\ (forall a, getb R a c = Nat.eqb a k) /\
               forall j, j < c -> getb R k j = false)
    \/ (forall j, j < ncols M -> getb R k j = false).
Proof. exact rref_structure_lemma. Qed.
Print Assumptions rref_is_rref_partial.

(* --- binary_solve_linear_system --- *)

(* a returned vector solves the system: A.x = b over GF(2), for every square A and every b *)
Theorem solve_sound : forall n A b x, rect n A -> length A = n -> solve A b = Ok x ->
  length x = n /\ Forall2 (fun a beta => dot a x = beta) A b.
Proof. exact solve_sound_lemma. Qed.
Print Assumptions solve_sound.

(* a vector is returned only for regular systems: it is the only solution.
   (half of "error iff singular"; the converse -- every regular A is accepted -- is not proved.) *)
Theorem solve_unique : forall n A b x y, rect n A -> length A = n -> solve A b = Ok x ->
  length y = n -> Forall2 (fun a beta => dot a y = beta) A b -> y = x.
Proof. exact solve_unique_lemma. Qed.
Print Assumptions solve_unique.

(* --- binary_matrix_rank --- *)

Theorem rank_total : forall M, exists k, rank M = Some k.
Proof. exact rank_total_lemma. Qed.
Print Assumptions rank_total.

(* the returned number is the size of a basis of the row space: a linearly independent family B
   with the same row space as M.  (That all bases have the same size is linear algebra, not code,
   and is not formalised here.) *)
Theorem rank_is_basis_size : forall n M k, rect n M -> rank M = Some k ->
  exists B, k = Z.of_nat (length B) /\ rect n B /\ row_equiv n M B /\ independent n B.
Proof. exact rank_basis_lemma. Qed.
Print Assumptions rank_is_basis_size.

(* non-vacuity: the docstring examples run through the model and meet the hypotheses *)
Example rref_docstring :
  rect 8 [[b1;b0;b0;b0;b0;b1;b0;b0]; [b1;b0;b1;b0;b0;b0;b1;b0]; [b0;b0;b0;b1;b1;b0;b0;b1]] /\
  rref [[b1;b0;b0;b0;b0;b1;b0;b0]; [b1;b0;b1;b0;b0;b0;b1;b0]; [b0;b0;b0;b1;b1;b0;b0;b1]]
  = Some [[b1;b0;b0;b0;b0;b1;b0;b0]; [b0;b0;b1;b0;b0;b1;b1;b0]; [b0;b0;b0;b1;b1;b0;b0;b1]].
Proof. split; [repeat constructor | vm_compute; reflexivity]. Qed.

Example solve_rank_docstring :
  rect 3 [[b1;b0;b0]; [b0;b1;b1]; [b1;b0;b1]] /\
  solve [[b1;b0;b0]; [b0;b1;b1]; [b1;b0;b1]] [b1;b1;b1] = Ok [b1;b1;b0] /\
  solve [[b1;b1;b0]; [b0;b1;b1]; [b1;b0;b1]] [b1;b1;b1] = Raise /\
  rank [[b0;b1;b1;b0]; [b0;b1;b0;b1]; [b1;b0;b1;b1]; [b1;b0;b0;b0]] = Some 3%Z.
Proof. split; [repeat constructor | vm_compute; auto]. Qed.
