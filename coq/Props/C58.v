(* C58 Block-encoding, oracle and algorithm templates implement their operators.
   (A) static, universally quantified theorems about the index/control logic of the classical templates
       (models in Disc/TemplatesModel.v transcribe permute.py, select.py, qrom.py, flip_sign.py, controlled_sequence.py);
   (B) the reflection principle through which the obligations generated on every run (coq/Gen/C58/*.v) are read:
         ob_k : cols_ok hz n circuit_k op_wires M_k cols = true      (template's fully decomposed circuit, executed on
                                                                      FORMAL parameters, against the documented matrix)
         eq_k : circ_cols_eq hz n circuit_k reference_k cols = true  (against an independently built reference circuit)
   Statements only; every proof is `exact <lemma>`. *)
From Coq Require Import List ZArith QArith Reals Bool Arith Permutation.
From Coquelicot Require Import Complex.
From PLV Require Import Alg.Poly Alg.PolyEval Alg.Angles Lin.Vec Lin.VecHom Lin.PVec Lin.PVecSound.
From PLV Require Import Disc.TemplatesModel Disc.TemplatesProofs.
Import ListNotations.
Local Open Scope nat_scope.

(* ---------------- (A) Permute: the SWAP network emitted by compute_decomposition realises the permutation.
   `wires` = wire labels, `perm` = the requested new ordering (any rearrangement of the labels).  If the content of
   wire w is (f w) before, then after the emitted position swaps, position i carries f (perm[i]), for EVERY wire list
   without repetition and EVERY permutation of it. *)
Theorem permute_swaps_realise_permutation :
  forall (A : Type) (f : Z -> A) (wires perm : list Z), NoDup wires -> Permutation wires perm ->
  apply_swaps (f 0%Z) (permute_swaps wires perm) (map f wires) = map f perm.
Proof. exact @permute_realises. Qed.
Print Assumptions permute_swaps_realise_permutation.

Theorem permute_working_order_ends_at_target :
  forall wires perm, NoDup wires -> Permutation wires perm -> permute_final wires perm = perm.
Proof. exact permute_final_is_perm. Qed.
Print Assumptions permute_working_order_ends_at_target.

(* ---------------- (A) Select (non-partial multi-control decomposition): for control value k (first control wire = most
   significant bit) exactly ops[k] is applied; for k >= len(ops) nothing is applied. *)
Theorem select_applies_kth_operator :
  forall (A : Type) (c : nat) (ops : list A) (k : nat) (op : A), length ops <= 2 ^ c -> nth_error ops k = Some op ->
  select_fired c ops (be_bits c k) = [op].
Proof. exact @select_fired_spec. Qed.
Print Assumptions select_applies_kth_operator.

Theorem select_idle_beyond_table :
  forall (A : Type) (c : nat) (ops : list A) (k : nat), length ops <= k -> k < 2 ^ c -> select_fired c ops (be_bits c k) = [].
Proof. exact @select_fired_none. Qed.
Print Assumptions select_idle_beyond_table.

Theorem control_encoding_is_big_endian : forall c k, k < 2 ^ c -> be_val (be_bits c k) = k /\ length (be_bits c k) = c.
Proof. intros c k H; split; [exact (be_val_bits c k H) | exact (be_bits_length c k)]. Qed.
Print Assumptions control_encoding_is_big_endian.

(* ---------------- (A) QROM: data table laid out over Select rows x swap slots; for address k (c control bits, the last s
   drive the controlled-swap network, depth 2^s) the bitstring moved into the target slot is data[k]; padding (identity)
   beyond the table. *)
Theorem qrom_loads_kth_bitstring :
  forall (A : Type) (c s : nat) (data : list A) (k : nat) (x : A), nth_error data k = Some x -> qrom_loaded c s data k = Some x.
Proof. exact @qrom_loaded_spec. Qed.
Print Assumptions qrom_loads_kth_bitstring.

Theorem qrom_identity_beyond_table :
  forall (A : Type) (c s : nat) (data : list A) (k : nat), length data <= k -> qrom_loaded c s data k = None.
Proof. exact @qrom_loaded_pad. Qed.
Print Assumptions qrom_identity_beyond_table.

Theorem swap_network_selects_slot :
  forall (A : Type) (d : A) (s q : nat) (slots : list A), 2 ^ s <= length slots ->
  nth 0 (swapnet_run d s (be_bits s q) slots) d = nth (q mod 2 ^ s) slots d.
Proof. exact @swapnet_moves_slot. Qed.
Print Assumptions swap_network_selects_slot.

(* ---------------- (A) FlipSign: the emitted X / multi-controlled-Z pattern gives the sign -1 exactly on |state>. *)
Theorem flipsign_marks_exactly_the_state :
  forall state inp, state <> [] -> length inp = length state -> (flipsign_fires state inp = true <-> inp = state).
Proof. exact flipsign_iff. Qed.
Print Assumptions flipsign_marks_exactly_the_state.

(* ---------------- (A) ControlledSequence: control wire i carries the power 2^(n-1-i). *)
Theorem controlled_sequence_exponents :
  forall n i, i < n -> nth i (ctrlseq_exponents n) 0%Z = (2 ^ Z.of_nat (n - 1 - i))%Z.
Proof. exact ctrlseq_exponent. Qed.
Print Assumptions controlled_sequence_exponents.

(* ---------------- (B) reading of the generated obligations: for EVERY real value of the formal parameters (angles, time)
   the template's decomposed circuit maps each checked basis state exactly like the documented matrix / the
   independently built reference circuit (global phase included). *)
Theorem template_matches_documented_matrix_forall_parameters :
  forall hz D n circ ows M cols, (0 < hz)%Z -> cols_ok hz n circ ows M cols = true ->
  forall (thetas : list R) c, In c cols ->
    c_capply n (map (evg (aenv hz D thetas)) circ) (c_basis n c)
    = c_apply_gate n ows (map (map (peval (aenv hz D thetas))) M) (c_basis n c).
Proof. exact cols_ok_forall. Qed.
Print Assumptions template_matches_documented_matrix_forall_parameters.

Theorem template_matches_reference_circuit_forall_parameters :
  forall hz D n c1 c2 cols, (0 < hz)%Z -> circ_cols_eq hz n c1 c2 cols = true ->
  forall (thetas : list R) c, In c cols ->
    c_capply n (map (evg (aenv hz D thetas)) c1) (c_basis n c) = c_capply n (map (evg (aenv hz D thetas)) c2) (c_basis n c).
Proof. intros hz D n c1 c2 cols H E thetas. exact (circ_cols_eq_sound hz _ (aenv_good hz D thetas H) n c1 c2 cols E). Qed.
Print Assumptions template_matches_reference_circuit_forall_parameters.

(* ---------------- non-vacuity *)
Example permute_example :
  permute_swap_labels [0; 1; 2; 3; 4]%Z [4; 2; 0; 1; 3]%Z = [(0, 4); (1, 2); (2, 4); (3, 4)]%Z
  /\ permute_final [0; 1; 2; 3; 4]%Z [4; 2; 0; 1; 3]%Z = [4; 2; 0; 1; 3]%Z.
Proof. vm_compute. split; reflexivity. Qed.
Example select_example : select_fired 2 [10; 11; 12]%Z (be_bits 2 2) = [12]%Z /\ select_fired 2 [10; 11; 12]%Z (be_bits 2 3) = [].
Proof. vm_compute. split; reflexivity. Qed.
Example qrom_example : map (qrom_loaded 3 1 [5; 6; 7; 8; 9]%Z) (seq 0 8) = [Some 5; Some 6; Some 7; Some 8; Some 9; None; None; None]%Z.
Proof. vm_compute. reflexivity. Qed.
