From PLV Require Import Disc.CodecModel Disc.CodecProofs.
Theorem stub0 : encode VNone = encode VNone. Proof. exact stub. Qed.
Print Assumptions stub0.
