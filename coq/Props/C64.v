(* C64 Dataset attributes survive HDF5 round trips.
   Statements only; every proof is `exact <lemma>` from Disc/CodecProofs.v.
   Model: Disc/CodecModel.v (values, abstract HDF5 tree, encode/decode per DatasetAttribute class with
   the type_id dispatch, attribute-level histories over several datasets). *)
From Coq Require Import List ZArith NArith Bool.
From PLV Require Import Disc.CodecModel Disc.CodecProofs.
Import ListNotations.
Open Scope Z_scope.

(* ---- single values ---- *)

(* for ALL well-formed nested values: reading what was written succeeds and yields the round-trip
   image (Python scalars come back as numpy scalars, numpy.bool_ as a 0-d array; everything else,
   including container kinds, key order, dtypes, shapes, interfaces, is identical) *)
Theorem decode_encode : forall v, wf v = true -> decode (encode v) = Some (norm v).
Proof. exact decode_encode_wf. Qed.
Print Assumptions decode_encode.

(* ... and the value read back has the same Python-level content (type-sensitive deep equality) *)
Theorem decode_encode_value_preserved : forall v, wf v = true ->
  exists v', decode (encode v) = Some v' /\ pyview v' = pyview v.
Proof. exact value_preserved_l. Qed.
Print Assumptions decode_encode_value_preserved.

(* repeated write/read cycles stabilise after two rounds, and from then on are exact identities *)
Theorem roundtrip_stabilises : forall v, norm (norm (norm v)) = norm (norm v).
Proof. exact norm_stable. Qed.
Print Assumptions roundtrip_stabilises.

Theorem reread_is_identity : forall v, wf v = true ->
  decode (encode (norm (norm v))) = Some (norm (norm v)).
Proof. exact reread_fixpoint_l. Qed.
Print Assumptions reread_is_identity.

(* the type id written for a value is determined by (and determines) its kind: list / tuple / dict /
   dataset / None / string / scalar / array are pairwise distinguished *)
Theorem encode_injective_on_types : forall v, node_kind (encode v) = kind_of v.
Proof. exact encode_kind. Qed.
Print Assumptions encode_injective_on_types.

(* with py_type the whole encoding is injective: no two different well-formed values share a tree *)
Theorem encode_injective : forall v w, wf v = true -> wf w = true -> encode v = encode w -> v = w.
Proof. exact encode_injective_wf. Qed.
Print Assumptions encode_injective.

(* ---- histories ---- *)

(* for ALL histories (any length, any interleaving over any number of datasets): executing the
   operations on HDF5 trees = encoding the result of executing them on a plain ordered
   last-write-wins store of values; the Ok/Err outcome of every operation coincides *)
Theorem history_refines_spec : forall h n,
  run encode h (empty_world n) =
  (wmap encode (fst (run vid h (empty_world n))), snd (run vid h (empty_world n))).
Proof. exact history_refines. Qed.
Print Assumptions history_refines_spec.

(* hence every attribute of every dataset reads back as (the round-trip image of) the value the
   last-write-wins store holds for it *)
Theorem history_readback : forall h n i k, Forall wf_op h ->
  read_tree (fst (run encode h (empty_world n))) i k =
  option_map norm (get (fst (run vid h (empty_world n))) i k).
Proof. exact history_readback_l. Qed.
Print Assumptions history_readback.

(* the store really is last-write-wins: characterisation of every operation (for any state w,
   i.e. after any history; `enc` is encode for trees and the identity for values) *)
Theorem readback_set : forall A (enc : val -> A) i k v w w',
  step enc (OSet i k v) w = (w', SOk) -> get w' i k = Some (enc v).
Proof. exact (@readback_set_l). Qed.
Print Assumptions readback_set.

Theorem set_existing_rejected : forall A (enc : val -> A) i k v w s,
  nth_error w i = Some s -> has k s = true -> step enc (OSet i k v) w = (w, SErr).
Proof. exact (@set_existing_rejected_l). Qed.
Print Assumptions set_existing_rejected.

Theorem readback_overwrite : forall A (enc : val -> A) i k v w,
  (i < length w)%nat -> get (fst (step enc (OPut i k v) w)) i k = Some (enc v).
Proof. exact (@readback_put_l). Qed.
Print Assumptions readback_overwrite.

Theorem readback_delete : forall A (enc : val -> A) i k w w',
  step enc (ODel i k) w = (w', SOk) -> get w' i k = None.
Proof. exact (@readback_del_l). Qed.
Print Assumptions readback_delete.

(* writes to one attribute never disturb another attribute *)
Theorem other_attributes_untouched : forall A (enc : val -> A) o w j k,
  match o with
  | OSet _ k' _ | OPut _ k' _ | ODel _ k' => k <> k'
  | OReopen _ => True
  | _ => False
  end -> get (fst (step enc o w)) j k = get w j k.
Proof. exact (@frame_key_l). Qed.
Print Assumptions other_attributes_untouched.

(* copies are independent: an operation whose target is another dataset (in particular any later
   write to the source of a copy) leaves a dataset exactly as it was *)
Theorem copies_independent : forall A (enc : val -> A) o w j,
  target o <> j -> nth j (fst (step enc o w)) [] = nth j w [].
Proof. exact (@frame_dataset_l). Qed.
Print Assumptions copies_independent.

(* Dataset.write / Dataset.read: a copied attribute reads as the source's value; existing
   attributes are kept unless overwrite is requested; everything else is unchanged *)
Theorem readback_copy : forall A (enc : val -> A) i j keys ov w w' k,
  step enc (OWrite i j keys ov) w = (w', SOk) ->
  get w' j k = if memb k (eff_keys keys (nth i w [])) && (ov || negb (has k (nth j w [])))
               then get w i k else get w j k.
Proof. exact (@readback_write_l). Qed.
Print Assumptions readback_copy.

Theorem readback_snapshot : forall A (enc : val -> A) i j w w',
  step enc (OSnap i j) w = (w', SOk) -> nth j w' [] = nth i w [].
Proof. exact (@readback_snap_l). Qed.
Print Assumptions readback_snapshot.

Theorem reopen_is_identity : forall A (enc : val -> A) i w, fst (step enc (OReopen i) w) = w.
Proof. exact (@reopen_identity_l). Qed.
Print Assumptions reopen_is_identity.

(* ---- non-vacuity ---- *)
Example nested_value_roundtrip :
  let v := VDict [(KStr [98], VTuple [VInt 1; VFloat 5 (-1); VStr [122]]);
                  (KStr [97], VList [VNone; VList [VBool true; VNp DBool (NB false)]]);
                  (KIdx 10, VArray (IAutograd true) DF32 [2] [NF 1 0; NF 3 (-1)])] in
  wf v = true /\
  decode (encode v) =
    Some (VDict [(KStr [98], VTuple [VNp DI64 (NI 1); VNp DF64 (NF 5 (-1)); VStr [122]]);
                 (KStr [97], VList [VNone; VList [VNp DBool (NB true); VArray INumpy DBool [] [NB false]]]);
                 (KIdx 10, VArray (IAutograd true) DF32 [2] [NF 1 0; NF 3 (-1)])]).
Proof. split; vm_compute; reflexivity. Qed.

Example history_hyps_satisfiable :
  let x := KStr [120] in let y := KStr [121] in
  let h := [OSet 0 x (VInt 1); OSet 0 y (VList [VInt 2]); OSet 0 x (VInt 9); OWrite 0 1 [] false;
            OPut 0 x (VTuple [VNone]); ODel 0 y; OSnap 0 2; OWrite 0 1 [x] true] in
  Forall wf_op h /\
  snd (run encode h (empty_world 3)) = [SOk; SOk; SErr; SOk; SOk; SOk; SOk; SOk] /\
  read_tree (fst (run encode h (empty_world 3))) 1 x = Some (VTuple [VNone]) /\
  read_tree (fst (run encode h (empty_world 3))) 1 y = Some (VList [VNp DI64 (NI 2)]) /\
  read_tree (fst (run encode h (empty_world 3))) 2 y = None.
Proof. cbv zeta. split; [repeat constructor | repeat split; vm_compute; reflexivity]. Qed.
