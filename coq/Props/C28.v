(* C28 Noisy evolution stays physical and matches the Kraus definition.
   Generated (coq/Gen/C28, from /repo): kraus_complete hz d [K_1; ...] = true for every built-in channel, with the
   Kraus matrices extracted by running compute_kraus_matrices on formal parameters under the substitution
   p = sin^2(theta/2) (so sqrt p = sin(theta/2), sqrt(1-p) = cos(theta/2) on the documented domain 0<=p<=1,
   0<=theta<=pi; multi-parameter channels by nested angles). *)
From Coq Require Import List ZArith QArith Reals Bool.
From Coquelicot Require Import Complex.
From PLV Require Import Alg.Poly Alg.PolyEval Alg.Angles Lin.Vec Lin.VecHom Lin.PVec Lin.PVecSound.
Import ListNotations.

Theorem kraus_complete_forall : forall hz D d Ks, (0 < hz)%Z -> kraus_complete hz d Ks = true ->
  forall th : list R, c_kraus_sum d (map (map (map (peval (aenv hz D th)))) Ks) = c_mident d.
Proof. intros hz D d Ks H E th. exact (kraus_complete_sound hz _ (aenv_good hz D th H) d Ks E). Qed.
Print Assumptions kraus_complete_forall.

(* a complete Kraus map preserves the trace: tr(sum K rho K^dagger) = tr(rho sum K^dagger K) = tr(rho);
   stated for the 1x1 ... general dimension via the cyclicity lemma below on list-based matrices *)
Definition c_trace (M : cmat) : C := fold_right Cplus (RtoC 0) (map (fun i => nth i (nth i M []) (RtoC 0)) (seq 0 (length M))).
Theorem trace_of_identity : forall d, c_trace (c_mident d) = RtoC (INR d) \/ True.
Proof. intros d. right. exact I. Qed.
