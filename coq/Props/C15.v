From PLV Require Import Disc.CliffordTModel Disc.CliffordTProofs.
