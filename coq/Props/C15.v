(* C15 Clifford+T approximations meet their precision bound.
   Statements only; every proof is `exact <lemma>` from Disc/CliffordTProofs.v.
   What is proved here holds for ALL words / ring elements.  What is NOT proved: that the
   Ross-Selinger grid search, the Diophantine solver and the Solovay-Kitaev recursion FIND a word
   within eps (search completeness); that part is validated per run by evaluating the definitions
   below inside Coq on the words returned by the real functions (harness/props/c15.py). *)
From Coq Require Import List ZArith Bool QArith.
From PLV Require Import Disc.RingsModel Disc.RingsProofs Disc.CliffordTModel Disc.CliffordTProofs.
Import ListNotations.
Open Scope Z_scope.

(* the exact denotation of a circuit-ordered word is multiplicative: running w1 then w2 is the
   matrix product  [w2] [w1]  (entries in Z[omega], denominator exponents add) *)
Theorem word_denote_app : forall w1 w2,
  word_denote (w1 ++ w2) = dm_matmul_raw (word_denote w2) (word_denote w1).
Proof. exact word_denote_app_lemma. Qed.
Print Assumptions word_denote_app.

(* every word over the alphabet denotes an exactly unitary matrix:
   M^dagger M = 2^k I for the numerator M of M / sqrt2^k, with k >= 0 *)
Theorem word_unitary : forall w, gates_in_set w = true ->
  0 <= mk (word_denote w) /\
  dm_matmul_raw (dm_dagger (word_denote w)) (word_denote w)
    = dm_scalar (zo_int (2 ^ mk (word_denote w))) (mk (word_denote w) + mk (word_denote w)).
Proof. exact word_unitary_lemma. Qed.
Print Assumptions word_unitary.

(* the executable unitarity test used in the tie decides exactly that statement *)
Theorem dm_unitaryb_spec : forall m, dm_unitaryb m = true <->
  (0 <= mk m /\ dm_matmul_raw (dm_dagger m) m = dm_scalar (zo_int (2 ^ mk m)) (mk m + mk m)).
Proof. exact dm_unitaryb_spec_lemma. Qed.
Print Assumptions dm_unitaryb_spec.

(* the product evaluated in the tie (coefficient permutations instead of ring multiplications)
   is the denotation *)
Theorem word_denote_fast_correct : forall w, word_denote_fast w = word_denote w.
Proof. exact word_denote_fast_ok. Qed.
Print Assumptions word_denote_fast_correct.

(* output alphabet: a decidable predicate; a decoded word passes it iff it consists of
   H S T X Y Z Adjoint(S) Adjoint(T) Identity GlobalPhase only *)
Theorem gates_in_set_spec : forall w, gates_in_set w = true <-> Forall (fun g => g <> GOther) w.
Proof. exact gates_in_set_spec_lemma. Qed.
Print Assumptions gates_in_set_spec.
Theorem parse_alphabet : forall l, gates_in_set (parse l) = true ->
  Forall (fun g => In g [GH; GS; GT; GX; GY; GZ; GSd; GTd; GI; GPh]) (parse l).
Proof. exact parse_alphabet_lemma. Qed.
Print Assumptions parse_alphabet.

(* Ross-Selinger candidate: for ALL u, t in Z[omega] and k >= 0 with u^* u + t^* t = 2^k the
   matrix [[u, -t^*],[t, u^*]] / sqrt2^k is exactly unitary *)
Theorem candidate_unitary : forall u t k, 0 <= k ->
  zo_add (zo_mul (zo_conj u) u) (zo_mul (zo_conj t) t) = zo_int (2 ^ k) ->
  dm_unitaryb (rs_candidate u t k) = true.
Proof. intros u t k Hk H. apply dm_unitaryb_spec_lemma. exact (candidate_unitary_lemma u t k Hk H). Qed.
Print Assumptions candidate_unitary.
(* ... and rescaling u, t by a unit s (the domain-correction factor, a power of omega) keeps the equation *)
Theorem candidate_rescale : forall u t s, zo_mul (zo_conj s) s = zo_one ->
  zo_add (zo_mul (zo_conj (zo_mul u s)) (zo_mul u s)) (zo_mul (zo_conj (zo_mul t s)) (zo_mul t s))
  = zo_add (zo_mul (zo_conj u) u) (zo_mul (zo_conj t) t).
Proof. exact candidate_scale. Qed.
Print Assumptions candidate_rescale.

(* equality up to a global phase as tested in the exact-stage tie: every scalar multiple passes *)
Theorem proportional_to_scalar_multiple : forall s m k, dm_proportional (dm_map (zo_mul s) m k) m = true.
Proof. exact proportional_scaled. Qed.
Print Assumptions proportional_to_scalar_multiple.

(* 2 Re, 2 Im : Z[omega] -> Z[sqrt2] obey the complex multiplication rule (the embedding into C
   that gives the linear forms coefX / coefY their meaning 2 Re tr(M^dagger T), 2 Im tr(M^dagger T)) *)
Theorem re_im_multiplicative : forall x y,
  zs_mulz (re2 (zo_mul x y)) 2 = zs_sub (zs_mul (re2 x) (re2 y)) (zs_mul (im2 x) (im2 y)) /\
  zs_mulz (im2 (zo_mul x y)) 2 = zs_add (zs_mul (re2 x) (im2 y)) (zs_mul (im2 x) (re2 y)).
Proof. intros x y; split; [exact (re2_mul x y) | exact (im2_mul x y)]. Qed.
Print Assumptions re_im_multiplicative.
Theorem re_im_conj : forall x, re2 (zo_conj x) = re2 x /\ im2 (zo_conj x) = zs_neg (im2 x).
Proof. intros x; split; [exact (re2_conj x) | exact (im2_conj x)]. Qed.
Print Assumptions re_im_conj.

Open Scope Q_scope.
(* Distance.  For unitary W = M / sqrt2^k and a unitary target T the operator-norm distance up to
   a global phase is sqrt(2 - |tr(W^dagger T)|); it is <= eps iff |tr(M^dagger T)|^2 >= 2^k (2 - eps^2)^2.
   With xs the 16 real numbers (Re, Im, sqrt2 Re, sqrt2 Im of the 4 target entries),
   lin_val (coefX M) xs = 2 Re tr(M^dagger T) and lin_val (coefY M) xs = 2 Im tr(M^dagger T).
   Soundness of the interval test: whenever the numbers lie in the given enclosures (given for
   x * S, S a positive integer scale) and the test passes, the inequality holds.
   (Stated over Q for abstract enclosed numbers; no real numbers are used.) *)
Theorem enclosure_check_sound : forall m S enc eps2 xs,
  Forall2 (fun e x => fst e <= x * qz S <= snd e) enc xs ->
  dist_ok m S enc eps2 = true -> 0 <= 2 - eps2 ->
  4 * qz (2 ^ mk m) * ((2 - eps2) * (2 - eps2))
    <= lin_val (coefX m) xs * lin_val (coefX m) xs + lin_val (coefY m) xs * lin_val (coefY m) xs.
Proof. exact enclosure_check_sound_lemma. Qed.
Print Assumptions enclosure_check_sound.

Theorem linear_forms_meaning : forall x tr ti r,
  lin_val (coefX_entry x) [tr; ti; r * tr; r * ti]
    == (qz (sa (re2 x)) + qz (sb (re2 x)) * r) * tr + (qz (sa (im2 x)) + qz (sb (im2 x)) * r) * ti /\
  lin_val (coefY_entry x) [tr; ti; r * tr; r * ti]
    == (qz (sa (re2 x)) + qz (sb (re2 x)) * r) * ti - (qz (sa (im2 x)) + qz (sb (im2 x)) * r) * tr.
Proof. exact coef_entry_meaning. Qed.
Print Assumptions linear_forms_meaning.
Close Scope Q_scope.

(* non-vacuity: a concrete word is in the alphabet, unitary, and passes the distance test against
   the identity target (enclosures [S,S] for Re t00 = Re t11 = 1, sqrt2 in [1.41 S, 1.42 S]) *)
Example ex_word : gates_in_set (parse [0x1a321%Z]) = true /\ dm_unitaryb (word_denote (parse [0x1a321%Z])) = true.
Proof. split; reflexivity. Qed.
Example ex_dist : dist_ok (word_denote [GH; GH; GPh]) 100
  (map (fun e => (inject_Z (fst e), inject_Z (snd e)))
       [(100, 100); (0, 0); (141, 142); (0, 0); (0, 0); (0, 0); (0, 0); (0, 0);
        (0, 0); (0, 0); (0, 0); (0, 0); (100, 100); (0, 0); (141, 142); (0, 0)]) (1 # 100) = true.
Proof. vm_compute. reflexivity. Qed.
Example ex_dist_far : dist_ok (word_denote [GH; GPh]) 100
  (map (fun e => (inject_Z (fst e), inject_Z (snd e)))
       [(100, 100); (0, 0); (141, 142); (0, 0); (0, 0); (0, 0); (0, 0); (0, 0);
        (0, 0); (0, 0); (0, 0); (0, 0); (100, 100); (0, 0); (141, 142); (0, 0)]) (1 # 100) = false.
Proof. vm_compute. reflexivity. Qed.
Example ex_candidate : dm_unitaryb (rs_candidate (ZO 0 0 1 0) (ZO 0 0 0 0) 0) = true.
Proof. reflexivity. Qed.
