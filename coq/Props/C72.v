(* C72 QAOA cost Hamiltonians encode their objectives.
   Statements only; every proof is `exact <lemma>` from Disc/QaoaProofs.v.
   diag_value H b = sum over the terms (c, word) of H of c * prod_{w in word} (1 - 2 b_w):
   the diagonal entry of the sentence H at the computational basis state b.
   All statements hold for every graph (any node list, any edge list, parallel edges included) and
   every bit assignment b : wire -> bool. *)
From Coq Require Import List ZArith QArith Bool.
From PLV Require Import Disc.QaoaModel Disc.QaoaProofs.
Import ListNotations.
Open Scope Q_scope.

(* a word of Z's has eigenvalue (-1)^(number of its wires whose bit is 1) on |b> *)
Theorem z_word_eigenvalue : forall b ws,
  word_value b ws == if Nat.even (length (filter b ws)) then 1 else -(1).
Proof. exact word_parity. Qed.
Print Assumptions z_word_eigenvalue.

(* sentence arithmetic used by the builders (`H1 + H2`, `3 * H`) is linear on diagonals *)
Theorem sentence_arithmetic_linear : forall A B k b,
  diag_value (A ++ B) b == diag_value A b + diag_value B b /\ diag_value (hscale k A) b == k * diag_value A b.
Proof. intros A B k b; split; [exact (diag_app A B b) | exact (diag_hscale k A b)]. Qed.
Print Assumptions sentence_arithmetic_linear.

(* bit_driver: (-1)^(b+1) (n - 2 #ones); any other b is rejected *)
Theorem bit_driver_diag : forall ws k H b, bit_driver ws k = Ok H ->
  diag_value H b == (if (k =? 1)%Z then 1 else -(1)) * (lenQ ws - 2 * ones b ws).
Proof. exact bit_driver_diag_l. Qed.
Print Assumptions bit_driver_diag.

Theorem bit_driver_rejects_other_b : forall ws k, k <> 0%Z -> k <> 1%Z -> bit_driver ws k = Raise.
Proof. exact bit_driver_rejects. Qed.
Print Assumptions bit_driver_rejects_other_b.

(* edge_driver, every accepted duplicate-free reward list with 1..3 colourings: each edge whose
   endpoint colouring is rewarded contributes -(4-r)/4, every other edge r/4 (r = |reward|):
   difference exactly 1, average over the four colourings 0 *)
Theorem edge_driver_diag : forall g R b H, NoDup R -> edge_driver g R = Ok H -> R <> [] -> length R <> 4%nat ->
  diag_value H b == edge_driver_obj R g b.
Proof. exact edge_driver_diag_l. Qed.
Print Assumptions edge_driver_diag.

(* empty reward list or all four colourings: the constant |V| *)
Theorem edge_driver_trivial_diag : forall g R b H, NoDup R -> edge_driver g R = Ok H ->
  (R = [] \/ length R = 4%nat) -> diag_value H b == lenQ (nodes g).
Proof. exact edge_driver_trivial_l. Qed.
Print Assumptions edge_driver_trivial_diag.

(* maxcut: minus the number of cut edges *)
Theorem maxcut_diag : forall g b H, maxcut g = Ok H -> diag_value H b == maxcut_obj g b.
Proof. exact maxcut_diag_l. Qed.
Print Assumptions maxcut_diag.

(* max_independent_set: |V| - 2|S| (constrained); + 3 per edge inside S - 3/4 |E| (unconstrained) *)
Theorem mis_diag : forall g c b H, max_independent_set g c = Ok H -> diag_value H b == mis_obj g c b.
Proof. exact mis_diag_l. Qed.
Print Assumptions mis_diag.

(* min_vertex_cover: 2|S| - |V| (constrained); + 3 per uncovered edge - 3/4 |E| (unconstrained) *)
Theorem mvc_diag : forall g c b H, min_vertex_cover g c = Ok H -> diag_value H b == mvc_obj g c b.
Proof. exact mvc_diag_l. Qed.
Print Assumptions mvc_diag.

(* max_clique: |V| - 2|S| (constrained); + 3 per chosen non-adjacent pair - 3/4 |E(complement)| *)
Theorem max_clique_diag : forall g c b H, max_clique g c = Ok H -> diag_value H b == clique_obj g c b.
Proof. exact clique_diag_l. Qed.
Print Assumptions max_clique_diag.

(* max_weight_cycle ingredients on every directed graph (edge list in wire order, log-weights given):
   out flow = sum_i 4 s_i (s_i - 1), net flow = sum_i 4 (s_i^out - s_i^in)^2 *)
Theorem out_flow_diag : forall d b H, out_flow_constraint d = Ok H -> diag_value H b == out_flow_obj d b.
Proof. exact out_flow_diag_l. Qed.
Print Assumptions out_flow_diag.

Theorem net_flow_diag : forall d b H, net_flow_constraint d = Ok H -> diag_value H b == net_flow_obj d b.
Proof. exact net_flow_diag_l. Qed.
Print Assumptions net_flow_diag.

(* max_weight_cycle cost: loss (constrained), loss + 3 (net flow + out flow) (unconstrained) *)
Theorem max_weight_cycle_diag : forall d c b H, mwc_cost d c = Ok H -> diag_value H b == mwc_obj d c b.
Proof. exact mwc_diag_l. Qed.
Print Assumptions max_weight_cycle_diag.

(* the graph problems never raise: the hypotheses `= Ok H` above are always satisfiable *)
Theorem builders_never_raise : forall g c,
  (exists H, maxcut g = Ok H) /\ (exists H, max_independent_set g c = Ok H) /\
  (exists H, min_vertex_cover g c = Ok H) /\ (exists H, max_clique g c = Ok H).
Proof. exact builders_total. Qed.
Print Assumptions builders_never_raise.

(* REFUTED clause (documentation, not code): the operator formula printed in the docstring of the
   unconstrained max_independent_set, 3 sum_E (Z_i Z_j - Z_i - Z_j) + sum_V Z_i, taken literally,
   is not the returned Hamiltonian (the code's edge coefficient is 3/4: `3 * edge_driver`). *)
Theorem unconstrained_doc_formula_literal_refuted :
  exists g b H, max_independent_set g false = Ok H /\ ~ diag_value H b == diag_value (mis_doc_literal g) b.
Proof. exact doc_literal_refuted. Qed.
Print Assumptions unconstrained_doc_formula_literal_refuted.

(* non-vacuity: the docstring example of edge_driver (path 0-1-2, reward 11,10,01):
   <000|H|000> = 3/2, <100|H|100> = 1/2, <110|H|110> = -1/2 *)
Example edge_driver_doc_example :
  exists H, edge_driver (mkG [0; 1; 2]%Z [(0, 1); (1, 2)]%Z) [3; 2; 1]%Z = Ok H /\ NoDup [3; 2; 1]%Z /\
    diag_value H (fun _ => false) == 3 # 2 /\
    diag_value H (fun w => (w =? 0)%Z) == 1 # 2 /\
    diag_value H (fun w => (w <? 2)%Z) == -(1 # 2).
Proof.
  eexists; split; [reflexivity|]. split; [repeat constructor; cbn; intuition discriminate|].
  repeat split; vm_compute; reflexivity.
Qed.

Example maxcut_example :
  exists H, maxcut (mkG [0; 1; 2]%Z [(0, 1); (1, 2)]%Z) = Ok H /\ diag_value H (fun w => (w =? 1)%Z) == -(2).
Proof. eexists; split; [reflexivity | vm_compute; reflexivity]. Qed.
