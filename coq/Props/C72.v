From Coq Require Import List ZArith QArith Bool.
From PLV Require Import Disc.QaoaModel Disc.QaoaProofs.
Import ListNotations.
Open Scope Q_scope.
Theorem stub : forall b, diag_value [] b == 0.
Proof. exact diag_nil. Qed.
Print Assumptions stub.
