(* C10 Every registered decomposition rule implements its operator exactly.
   Static part: the reflection principle every generated obligation goes through.
   Generated part (coq/Gen/C10/*.v, rebuilt from /repo on every run): one lemma
     ob_k : cols_ok hz n circuit_k op_wires M_k cols_k = true        (vm_compute)
   per (operator instance, applicable rule), where circuit_k and M_k are the exact symbolic objects
   obtained by executing PennyLane's rule / matrix code on formal parameters. *)
From Coq Require Import List ZArith QArith Reals Bool.
From Coquelicot Require Import Complex.
From PLV Require Import Alg.Poly Alg.PolyEval Alg.Angles Lin.Vec Lin.VecHom Lin.PVec Lin.PVecSound.
Import ListNotations.

(* For EVERY real value of the parameters, the circuit emitted by the rule maps each basis state of the
   checked columns (work wires in |0>, documented input domain) to exactly what the operator's matrix
   does -- global phase included, work wires back in |0> (the target side has no amplitude elsewhere). *)
Theorem rule_ok_forall_parameters :
  forall hz D n circ ows M cols, (0 < hz)%Z -> cols_ok hz n circ ows M cols = true ->
  forall (thetas : list R) c, In c cols ->
    c_capply n (map (evg (aenv hz D thetas)) circ) (c_basis n c)
    = c_apply_gate n ows (map (map (peval (aenv hz D thetas))) M) (c_basis n c).
Proof. exact cols_ok_forall. Qed.
Print Assumptions rule_ok_forall_parameters.

(* the scalar engine: equal normal forms denote equal complex numbers for all parameter values *)
Theorem normal_form_equality_sound :
  forall hz D p q, (0 < hz)%Z -> peqb hz p q = true ->
  forall thetas : list R, peval (aenv hz D thetas) p = peval (aenv hz D thetas) q.
Proof. exact peqb_forall_angles. Qed.
Print Assumptions normal_form_equality_sound.

(* what the formal variables mean: variable j+1 evaluates to exp(i * theta_j / D), variable 0 to exp(i pi / hz) *)
Theorem variables_are_phases : forall hz D thetas j k,
  zpow (aenv hz D thetas (S j)) k = cis (IZR k * (nth j thetas 0%R / IZR D)).
Proof. exact aenv_var. Qed.
Print Assumptions variables_are_phases.

(* non-vacuity: CNOT written as H CZ H on wire 1 *)
Definition ex_h : poly := [(Qmake 1 2, [1%Z]); (Qmake (-1) 2, [3%Z])].
Definition ex_o : poly := pone.
Definition ex_z : poly := pzero.
Definition ex_H : pmat := [[ex_h; ex_h]; [ex_h; pneg ex_h]].
Definition ex_CZ : pmat := [[ex_o; ex_z; ex_z; ex_z]; [ex_z; ex_o; ex_z; ex_z]; [ex_z; ex_z; ex_o; ex_z]; [ex_z; ex_z; ex_z; pneg ex_o]].
Definition ex_CNOT : pmat := [[ex_o; ex_z; ex_z; ex_z]; [ex_z; ex_o; ex_z; ex_z]; [ex_z; ex_z; ex_z; ex_o]; [ex_z; ex_z; ex_o; ex_z]].
Example rule_obligation_satisfiable :
  cols_ok 4 2 [([1%nat], ex_H); ([0%nat; 1%nat], ex_CZ); ([1%nat], ex_H)] [0%nat; 1%nat] ex_CNOT (all_cols 2) = true.
Proof. vm_compute. reflexivity. Qed.
Example wrong_rule_is_rejected :
  cols_ok 4 2 [([1%nat], ex_H); ([0%nat; 1%nat], ex_CZ)] [0%nat; 1%nat] ex_CNOT (all_cols 2) = false.
Proof. vm_compute. reflexivity. Qed.
