(* C62 Quantum-chemistry Hamiltonians are physically correct -- the DISCRETE part.
   Statements only; every proof is `exact <lemma>` from Disc/QchemProofs.v.
   What is NOT here (numerical tie only, see harness/props/c62.py): integrals, SCF, agreement of eigenvalues with
   PySCF FCI/CASCI, commutation with S^2, tapering.

   Vocabulary:
     hf_state e o b, excitations e o d, excitations_to_wires, number_fs / spinz_fs / spin2_fs   the model (Disc/QchemModel.v)
     s2 i            twice the spin projection of spin orbital i (+1 even = up, -1 odd = down)
     count_true b    number of occupied positions of an occupation vector
     zrange a b      the contiguous wires [a; a+1; ...; b]
     fw_apply w (s,b) action of the operator product w on the signed Fock basis state (-1)^s |b>  (None = 0)
     shift wt w      sum of wt(p) over the creators of w minus the sum over its annihilators
     O_apply wt v    the diagonal observable sum_p wt(p) a+_p a_p applied to a formal vector v
     W_apply w v     the word w applied to a formal vector
     fw_image JW n w Jordan-Wigner image of w on n qubits (Disc/FermiModel.v), sequiv = equal as operators *)
From Coq Require Import List ZArith QArith Bool.
From PLV Require Import Disc.FermiModel Disc.QchemModel Disc.QchemProofs.
Import ListNotations.

(* --- hf_state --- *)

(* documented error conditions: exactly electrons <= 0 or electrons > orbitals, for every basis *)
Theorem hf_state_error_iff : forall e o b, hf_state e o b = Err <-> (e <= 0 \/ e > o)%Z.
Proof. exact hf_error_iff_lemma. Qed.
Print Assumptions hf_state_error_iff.

(* occupation-number basis: length = orbitals, position i occupied iff i < electrons, exactly `electrons` ones *)
Theorem hf_state_occupation : forall e o, (0 < e <= o)%Z ->
  hf_state e o BOcc = Ok (occ_vec (Z.to_nat e) (Z.to_nat o)) /\
  length (occ_vec (Z.to_nat e) (Z.to_nat o)) = Z.to_nat o /\
  (forall i, (i < Z.to_nat o)%nat -> nth i (occ_vec (Z.to_nat e) (Z.to_nat o)) false = Nat.ltb i (Z.to_nat e)) /\
  count_true (occ_vec (Z.to_nat e) (Z.to_nat o)) = Z.to_nat e.
Proof. exact hf_occ_lemma. Qed.
Print Assumptions hf_state_occupation.

(* parity basis: qubit i stores the parity of the number of electrons in orbitals 0..i *)
Theorem hf_state_parity : forall e o, (0 < e <= o)%Z ->
  exists s, hf_state e o BPar = Ok s /\ length s = Z.to_nat o /\
  forall i, (i < Z.to_nat o)%nat -> nth i s false = Nat.odd (Nat.min (i + 1) (Z.to_nat e)).
Proof. exact hf_parity_lemma. Qed.
Print Assumptions hf_state_parity.

(* Bravyi-Kitaev basis: the state is beta_matrix . occupation (mod 2) ... *)
Theorem hf_state_bravyi_kitaev : forall e o, (0 < e <= o)%Z ->
  hf_state e o BBK = Ok (map (fun row => dot2 row (occ_vec (Z.to_nat e) (Z.to_nat o))) (beta_matrix (Z.to_nat o))).
Proof. exact hf_bk_lemma. Qed.
Print Assumptions hf_state_bravyi_kitaev.

(* ... and, up to 12 spin orbitals, _beta_matrix is the incidence matrix of the update sets used by
   qp.bravyi_kitaev (row j has a 1 in column i iff i = j or j is in the update set of i) *)
Theorem beta_matrix_is_update_sets_bounded : forall o, (o <= 12)%nat -> beta_matches_update o = true.
Proof. exact beta_update_bounded. Qed.
Print Assumptions beta_matrix_is_update_sets_bounded.

(* --- excitations --- *)

Theorem excitations_error_iff : forall e o d,
  excitations e o d = Err <-> (e <= 0 \/ o <= e \/ d < -2 \/ d > 2)%Z.
Proof. exact excitations_error_lemma. Qed.
Print Assumptions excitations_error_iff.

Theorem excitations_value : forall e o d, (0 < e < o)%Z -> (-2 <= d <= 2)%Z ->
  excitations e o d = Ok (singles (Z.to_nat e) (Z.to_nat o) d, doubles (Z.to_nat e) (Z.to_nat o) d).
Proof. exact excitations_ok_lemma. Qed.
Print Assumptions excitations_value.

(* soundness AND completeness: the singles are exactly the pairs occupied r -> virtual p with sz[p] - sz[r] = delta_sz *)
Theorem singles_exactly : forall e o d x,
  In x (singles e o d) <->
  exists r p, x = [r; p] /\ (r < e)%nat /\ (e <= p < o)%nat /\ (s2 p - s2 r = 2 * d)%Z.
Proof. exact singles_spec_lemma. Qed.
Print Assumptions singles_exactly.

(* the doubles are exactly the quadruples s < r occupied, q < p virtual with sz[p] + sz[q] - sz[r] - sz[s] = delta_sz *)
Theorem doubles_exactly : forall e o d x,
  In x (doubles e o d) <->
  exists s r q p, x = [s; r; q; p] /\ (s < r)%nat /\ (r < e)%nat /\ (e <= q)%nat /\ (q < p)%nat /\ (p < o)%nat /\
                  (s2 p + s2 q - s2 r - s2 s = 2 * d)%Z.
Proof. exact doubles_spec_lemma. Qed.
Print Assumptions doubles_exactly.

Theorem singles_no_duplicates : forall e o d, NoDup (singles e o d).
Proof. exact singles_nodup_lemma. Qed.
Print Assumptions singles_no_duplicates.

Theorem doubles_no_duplicates : forall e o d, NoDup (doubles e o d).
Proof. exact doubles_nodup_lemma. Qed.
Print Assumptions doubles_no_duplicates.

(* closed-form numbers of spin-conserving excitations (delta_sz = 0); by computation, bound in the statement.
   _bounded: the general-n count formula is not proved (exactness + no duplicates above hold for all n). *)
Theorem excitation_counts_bounded : forall e o, (o <= 12)%nat -> (e <= o)%nat ->
  length (singles e o 0%Z) = singles_count0 e o /\ length (doubles e o 0%Z) = doubles_count0 e o.
Proof. exact counts_bounded. Qed.
Print Assumptions excitation_counts_bounded.

(* fermionic=True: the returned words conserve the particle number; they are a+_occ a_virt (the adjoints of the
   excitation operators of the docstring) and therefore change 2 S_z by -2 delta_sz *)
Theorem fermionic_singles_balance : forall e o d x, In x (singles e o d) ->
  shift wt_one (single_word x) = 0%Z /\ shift s2 (single_word x) = (- (2 * d))%Z.
Proof. exact single_word_shift. Qed.
Print Assumptions fermionic_singles_balance.

Theorem fermionic_doubles_balance : forall e o d x, In x (doubles e o d) ->
  shift wt_one (double_word x) = 0%Z /\ shift s2 (double_word x) = (- (2 * d))%Z.
Proof. exact double_word_shift. Qed.
Print Assumptions fermionic_doubles_balance.

(* --- excitations_to_wires --- *)

Theorem excitations_to_wires_empty : forall w, excitations_to_wires [] [] w = Err.
Proof. exact etw_empty_lemma. Qed.
Print Assumptions excitations_to_wires_empty.

(* on every non-empty output of excitations the call succeeds and returns the contiguous ranges r..p and
   [s..r, q..p] *)
Theorem excitations_to_wires_ranges : forall e o d sg db,
  excitations e o d = Ok (sg, db) -> (sg <> [] \/ db <> []) ->
  excitations_to_wires sg db None =
    Ok (map (fun x => zrange (nth 0 x 0%nat) (nth 1 x 0%nat)) sg,
        map (fun x => [zrange (nth 0 x 0%nat) (nth 1 x 0%nat); zrange (nth 2 x 0%nat) (nth 3 x 0%nat)]) db).
Proof. exact etw_excitations_lemma. Qed.
Print Assumptions excitations_to_wires_ranges.

Theorem zrange_is_contiguous : forall a b, (a <= b)%nat ->
  length (zrange a b) = (b + 1 - a)%nat /\ forall k, (k <= b - a)%nat -> nth k (zrange a b) 0%Z = Z.of_nat (a + k).
Proof. exact zrange_spec. Qed.
Print Assumptions zrange_is_contiguous.

(* --- particle_number, spinz, spin2: term structure --- *)

Theorem particle_number_terms : forall n t,
  In t (number_fs n) <-> exists i, (i < n)%nat /\ t = ([(i, true); (i, false)], c1).
Proof. exact number_fs_terms_lemma. Qed.
Print Assumptions particle_number_terms.

Theorem spinz_terms : forall n t,
  In t (spinz_fs n) <-> exists i, (i < n)%nat /\
    t = ([(i, true); (i, false)], (if Nat.even i then (1 # 2)%Q else (- (1 # 2))%Q, 0%Q)).
Proof. exact spinz_fs_terms_lemma. Qed.
Print Assumptions spinz_terms.

(* a+_i a_i |b> = n_i |b> : the sentence of particle_number acts as the occupation count *)
Theorem number_word_action : forall i s b, (i < length b)%nat ->
  fw_apply (nword i) (s, b) = if nth i b false then Some (s, b) else None.
Proof. exact nword_apply_lemma. Qed.
Print Assumptions number_word_action.

(* every term of N, S_z and S^2 (all sizes) passes both verified checkers *)
Theorem observables_conserve_number_and_sz : forall e n,
  conserves_number (number_fs n) = true /\ conserves_sz (number_fs n) = true /\
  conserves_number (spinz_fs n) = true /\ conserves_sz (spinz_fs n) = true /\
  conserves_number (spin2_fs e n) = true /\ conserves_sz (spin2_fs e n) = true.
Proof. exact observables_conserve_lemma. Qed.
Print Assumptions observables_conserve_number_and_sz.

(* --- conservation laws --- *)

(* a word shifts the eigenvalue of the diagonal observable O_wt by its balance, on every register size *)
Theorem word_shifts_eigenvalue : forall wt w sb sb', fw_apply w sb = Some sb' ->
  length (snd sb') = length (snd sb) /\ diag_val wt 0 (snd sb') = (diag_val wt 0 (snd sb) + shift wt w)%Z.
Proof. exact fw_apply_diag. Qed.
Print Assumptions word_shifts_eigenvalue.

(* number_conserving_word_commutes (Fock representation, all n, all words, all weights): [O_wt, w] = 0 *)
Theorem number_conserving_word_commutes : forall wt w, shift wt w = 0%Z ->
  forall v, O_apply wt (W_apply w v) = W_apply w (O_apply wt v).
Proof. exact fock_commutes_lemma. Qed.
Print Assumptions number_conserving_word_commutes.

(* wt = 1 is the particle number: the eigenvalue is the electron count, which balanced words preserve *)
Theorem number_eigenvalue_is_electron_count : forall b i, diag_val wt_one i b = Z.of_nat (count_true b).
Proof. exact diag_val_one_count. Qed.
Print Assumptions number_eigenvalue_is_electron_count.

Theorem balanced_word_preserves_electron_count : forall w s b s' b', shift wt_one w = 0%Z ->
  fw_apply w (s, b) = Some (s', b') -> length b' = length b /\ count_true b' = count_true b.
Proof. exact number_conserved_lemma. Qed.
Print Assumptions balanced_word_preserves_electron_count.

(* wt = s2 is 2 S_z in the interleaved convention: eigenvalue = #up - #down *)
Theorem sz_eigenvalue_is_up_minus_down : forall b i,
  diag_val s2 i b = (Z.of_nat (count_sel Nat.even i b) - Z.of_nat (count_sel Nat.odd i b))%Z.
Proof. exact diag_val_s2_count. Qed.
Print Assumptions sz_eigenvalue_is_up_minus_down.

(* soundness of the verified checkers used on the real fermionic Hamiltonians *)
Theorem conserves_number_sound : forall F, conserves_number F = true ->
  forall t, In t F -> forall v, O_apply wt_one (W_apply (fst t) v) = W_apply (fst t) (O_apply wt_one v).
Proof. exact conserves_number_sound_lemma. Qed.
Print Assumptions conserves_number_sound.

Theorem conserves_sz_sound : forall F, conserves_sz F = true ->
  forall t, In t F -> forall v, O_apply s2 (W_apply (fst t) v) = W_apply (fst t) (O_apply s2 v).
Proof. exact conserves_sz_sound_lemma. Qed.
Print Assumptions conserves_sz_sound.

(* real coefficients => the Pauli sentence equals its adjoint (Pauli words are Hermitian) *)
Theorem is_hermitian_sentence_sound : forall A, is_hermitian_sentence A = true -> sequiv (sadj A) A.
Proof. exact is_hermitian_sound_lemma. Qed.
Print Assumptions is_hermitian_sentence_sound.

(* --- the same on the Jordan-Wigner image (by computation; bounds in the statements) --- *)

(* the JW image of every word of length <= 3 on n <= 3 qubits has exactly the Fock-space matrix elements *)
Theorem jw_image_acts_like_fock_bounded : forall n w, (n <= 3)%nat -> (length w <= 3)%nat ->
  Forall (fun l => (fst l < n)%nat) w -> jw_fock_word_ok n w = true.
Proof. exact jw_fock_bounded. Qed.
Print Assumptions jw_image_acts_like_fock_bounded.

Theorem jw_image_acts_like_fock_bounded4 : forall w, (length w <= 2)%nat ->
  Forall (fun l => (fst l < 4)%nat) w -> jw_fock_word_ok 4 w = true.
Proof. exact jw_fock_bounded4. Qed.
Print Assumptions jw_image_acts_like_fock_bounded4.

(* JW(w) commutes with JW(particle_number(n)) for balanced words, n <= 4, length <= 4 *)
Theorem jw_number_conserving_word_commutes_bounded : forall n w, (n <= 4)%nat -> (length w <= 4)%nat ->
  Forall (fun l => (fst l < n)%nat) w -> shift wt_one w = 0%Z ->
  exists W, fw_image JW n w = Some W /\ sequiv (smul W (jw_obs ONumber n)) (smul (jw_obs ONumber n) W).
Proof. exact jw_number_commutes_bounded. Qed.
Print Assumptions jw_number_conserving_word_commutes_bounded.

(* JW(w) commutes with JW(spinz(n)) for words conserving up and down electrons' difference *)
Theorem jw_sz_conserving_word_commutes_bounded : forall n w, (n <= 4)%nat -> (length w <= 4)%nat ->
  Forall (fun l => (fst l < n)%nat) w -> shift s2 w = 0%Z ->
  exists W, fw_image JW n w = Some W /\ sequiv (smul W (jw_obs OSpinz n)) (smul (jw_obs OSpinz n) W).
Proof. exact jw_spinz_commutes_bounded. Qed.
Print Assumptions jw_sz_conserving_word_commutes_bounded.

(* --- non-vacuity: the docstring examples run through the model and meet the hypotheses --- *)
Example docstring_examples :
  hf_state 2 6 BOcc = Ok [true; true; false; false; false; false] /\
  hf_state 2 6 BPar = Ok [true; false; false; false; false; false] /\
  hf_state 2 6 BBK = Ok [true; false; false; false; false; false] /\
  excitations 2 4 0 = Ok ([[0; 2]; [1; 3]]%nat, [[0; 1; 2; 3]]%nat) /\
  excitations_to_wires [[0; 2]; [1; 3]]%nat [[0; 1; 2; 3]]%nat None
    = Ok ([[0; 1; 2]; [1; 2; 3]]%Z, [[[0; 1]; [2; 3]]]%Z) /\
  excitations_to_wires [[0; 2]; [1; 3]]%nat [[0; 1; 2; 3]]%nat (Some [10; 11; 12; 13]%Z)
    = Ok ([[10; 11; 12]; [11; 12; 13]]%Z, [[[10; 11]; [12; 13]]]%Z).
Proof. vm_compute. repeat split. Qed.

(* a balanced word acting non-trivially, and an unbalanced one rejected by the checker *)
Example conservation_examples :
  shift wt_one [(0, true); (1, true); (3, false); (2, false)]%nat = 0%Z /\
  shift s2 [(0, true); (1, true); (3, false); (2, false)]%nat = 0%Z /\
  fw_apply [(0, true); (1, true); (3, false); (2, false)]%nat (false, [false; false; true; true])
    = Some (false, [true; true; false; false]) /\
  fw_apply [(1, true); (0, false)]%nat (false, [true; false]) = Some (false, [false; true]) /\
  fw_apply [(0, true); (1, false)]%nat (false, [false; true; true]) = Some (false, [true; false; true]) /\
  fw_apply [(2, true); (0, false)]%nat (false, [true; true; false]) = Some (true, [false; true; true]) /\
  conserves_number [([(0, true); (1, false)]%nat, c1); ([(2, true)]%nat, c1)] = false /\
  conserves_sz [([(0, true); (1, false)]%nat, c1)] = false /\
  is_hermitian_sentence [([PZ; PI], (1 # 2, 0)%Q)] = true /\
  is_hermitian_sentence [([PZ; PI], (1 # 2, 1 # 3)%Q)] = false.
Proof. vm_compute. repeat split. Qed.
