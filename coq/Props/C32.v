(* C32 Result structure depends only on the request.
   Statements only; every proof is `exact <lemma>` from Disc/ShapesProofs.v.
   Vocabulary: result_shape / batch_shape / jac_shape / jac_struct are the transcribed functions
   (Disc/ShapesModel.v); get = subtree at a path of tuple indices; add_batch = effect of broadcasting
   on a structure; shots_iter sp = [s] says "no shot vector: one execution with s shots (s = None:
   analytic)". *)
From Coq Require Import List ZArith Bool.
From PLV Require Import Disc.ShapesModel Disc.ShapesProofs.
Import ListNotations.
Open Scope Z_scope.

(* a single measurement is returned unwrapped: the result IS the measurement's own structure *)
Theorem unwrap_single : forall sp n B m s, shots_iter sp = [s] ->
  result_shape (mkReq sp n B [m]) = struct n B s m.
Proof. exact unwrap_single_l. Qed.
Print Assumptions unwrap_single.

(* zero or several measurements: a tuple with exactly one entry per measurement, entry i being
   measurement i's own structure; if any measurement has no defined shape the request is rejected *)
Theorem tuple_multi : forall sp n B ms s, shots_iter sp = [s] -> length ms <> 1%nat ->
  (forall ts, all_some (map (struct n B s) ms) = Some ts ->
     result_shape (mkReq sp n B ms) = Some (Tup ts) /\ length ts = length ms /\
     Forall2 (fun m t => struct n B s m = Some t) ms ts) /\
  (all_some (map (struct n B s) ms) = None -> result_shape (mkReq sp n B ms) = None).
Proof. exact tuple_multi_l. Qed.
Print Assumptions tuple_multi.

(* a shot vector (more than one copy) adds an outer tuple: one entry per copy, in order, and each
   entry is exactly the result structure of the plain request with that shot count *)
Theorem shot_vector_outer : forall l n B ms, (1 < length l)%nat ->
  result_shape (mkReq (ShotList l) n B ms) =
  match all_some (map (fun s => result_shape (mkReq (ShotList [s]) n B ms)) l) with
  | None => None
  | Some cs => Some (Tup cs)
  end.
Proof. exact shot_vector_outer_l. Qed.
Print Assumptions shot_vector_outer.

Theorem shot_vector_copies : forall l n B ms cs,
  all_some (map (fun s => result_shape (mkReq (ShotList [s]) n B ms)) l) = Some cs ->
  length cs = length l /\ Forall2 (fun s c => result_shape (mkReq (ShotList [s]) n B ms) = Some c) l cs.
Proof. exact shot_vector_len. Qed.
Print Assumptions shot_vector_copies.

(* broadcasting with batch size b adds one leading axis b to every array leaf and leaves the
   nesting unchanged (counts dictionaries become b dictionaries); batch size 0/None adds nothing *)
Theorem broadcast_leading_dim : forall sp n b ms, b <> 0 ->
  result_shape (mkReq sp n (Some b) ms) = option_map (add_batch b) (result_shape (mkReq sp n None ms)).
Proof. exact broadcast_l. Qed.
Print Assumptions broadcast_leading_dim.

Theorem broadcast_zero_is_none : forall sp n ms,
  result_shape (mkReq sp n (Some 0) ms) = result_shape (mkReq sp n None ms).
Proof. exact no_broadcast_zero. Qed.
Print Assumptions broadcast_zero_is_none.

(* a batch of circuits: one entry per circuit, each with its own request's structure *)
Theorem batch_outer : forall rs ts, batch_shape rs = Some (Tup ts) ->
  length ts = length rs /\ Forall2 (fun r t => result_shape r = Some t) rs ts.
Proof. exact batch_outer_l. Qed.
Print Assumptions batch_outer.

(* Jacobians: jac_shape is the result structure with jac_tree applied ... *)
Theorem jac_follows_result : forall r ps, jac_shape r ps = option_map (jac_tree ps) (result_shape r).
Proof. exact jac_shape_is_map. Qed.
Print Assumptions jac_follows_result.

(* ... and jac_tree keeps the nesting (every tuple node stays a tuple of the same length at the same
   path, dictionaries stay), while at each array leaf of shape d:
   exactly one parameter of shape p -> one array of shape d ++ p (not wrapped);
   otherwise -> a tuple over the parameters whose i-th entry has shape d ++ p_i *)
Theorem jac_appends_param_axes : forall ps t path,
  (forall d, get t path = Some (Leaf d) ->
     (forall p, ps = [p] -> get (jac_tree ps t) path = Some (Leaf (d ++ p))) /\
     (length ps <> 1%nat ->
        (exists l', get (jac_tree ps t) path = Some (Tup l') /\ length l' = length ps) /\
        forall i p, nth_error ps i = Some p -> get (jac_tree ps t) (path ++ [i]) = Some (Leaf (d ++ p)))) /\
  (forall l, get t path = Some (Tup l) ->
     exists l', get (jac_tree ps t) path = Some (Tup l') /\ length l' = length l) /\
  (get t path = Some Opaque -> get (jac_tree ps t) path = Some Opaque).
Proof. exact jac_nesting_l. Qed.
Print Assumptions jac_appends_param_axes.

(* the in-repo Jacobian structure function (_jac_shape_dtype_struct, P scalar parameters) agrees with
   that convention for every request without a shot vector and without counts ... *)
Theorem jac_struct_agrees : forall sp n B ms s P, shots_iter sp = [s] -> Forall differentiable ms ->
  result_shape (mkReq sp n B ms) <> None ->
  jac_struct (mkReq sp n B ms) P = jac_shape (mkReq sp n B ms) (nils P).
Proof. exact jac_struct_agrees_l. Qed.
Print Assumptions jac_struct_agrees.

(* ... but not with a shot vector (it puts the parameters outside the shot copies).  This input is not
   reachable: device-provided derivatives are only used for analytic executions. *)
Theorem jac_struct_quirk_refuted : exists r P,
  jac_struct r P <> jac_shape r (nils P) /\ partitioned (r_shots r) = true.
Proof.
  exists (mkReq (ShotList [4; 2; 2]) 2 None [KExpval]), 2%nat. split; [vm_compute; discriminate | reflexivity].
Qed.
Print Assumptions jac_struct_quirk_refuted.

(* The expected structure is a function of the request alone: the configuration (device, interface,
   differentiation method) carried by a test case does not enter it.  This holds by construction of
   the model and says nothing about PennyLane by itself; what it buys is that ONE expected value is
   compared with every configuration's real output in the correspondence run, so any influence of
   device / interface / diff method on the real structure shows up there as a mismatch. *)
Theorem shape_depends_only_on_request : forall c1 c2 r rs ps,
  expected (CRes c1 r) = expected (CRes c2 r) /\
  expected (CBatch c1 rs) = expected (CBatch c2 rs) /\
  expected (CJac c1 r ps) = expected (CJac c2 r ps) /\
  expected (CRes c1 r) = expected (CStruct r).
Proof. exact expected_config_free. Qed.
Print Assumptions shape_depends_only_on_request.

(* non-vacuity: concrete requests meeting the hypotheses, with their computed structures *)
Example hyps_satisfiable :
  shots_iter (ShotList [7]) = [Some 7] /\
  result_shape (mkReq (ShotList [7]) 3 None [KSample 0]) = Some (Leaf [7; 3]) /\
  result_shape (mkReq NoShots 2 (Some 3) [KExpval; KProbs 2]) = Some (Tup [Leaf [3]; Leaf [3; 4]]) /\
  result_shape (mkReq (ShotList [5; 5; 3]) 2 None [KExpval; KSample 1; KCounts]) =
    Some (Tup [Tup [Leaf []; Leaf [5; 1]; Opaque]; Tup [Leaf []; Leaf [5; 1]; Opaque];
               Tup [Leaf []; Leaf [3; 1]; Opaque]]) /\
  result_shape (mkReq NoShots 2 None [KSample 1]) = None.
Proof. repeat split; reflexivity. Qed.

Example jac_example :
  jac_shape (mkReq (ShotList [5; 3]) 2 None [KExpval; KProbs 2]) [[]; [2]] =
    Some (Tup [Tup [Tup [Leaf []; Leaf [2]]; Tup [Leaf [4]; Leaf [4; 2]]];
               Tup [Tup [Leaf []; Leaf [2]]; Tup [Leaf [4]; Leaf [4; 2]]]]) /\
  get (Tup [Leaf []; Leaf [4]]) [1%nat] = Some (Leaf [4]) /\
  Forall differentiable [KExpval; KProbs 2].
Proof. repeat split; try reflexivity. repeat constructor; discriminate. Qed.
