(* C24 placeholder while the tie is being built *)
From PLV Require Import Num.ShadowsModel Num.QcutModel.
