(* C24 Circuit cutting reconstructs the uncut result.
   Statements only; every proof is `exact <lemma>` from Num/QcutProofs.v.
   Model (Num/QcutModel.v): Gaussian-rational scalars C; n-qubit operators Op n as quad-trees of 2x2 blocks (first
   qubit outermost); QT L m = block operators on m qubits with leaves in L; paulis = [I;X;Y;Z] in the index
   order of the processed fragment tensors; preps = [|0>;|1>;|+>;|+i>] in the order of PREPARE_SETTINGS;
   COB = CHANGE_OF_BASIS literally; contract = the model of _to_tensors + contract_tensors that the harness
   evaluates against the implementation's qcut_processing_fn on every run. *)
From Coq Require Import List ZArith QArith Qcanon Bool Permutation.
From PLV Require Import Num.ShadowsModel Num.ShadowsProofs Num.QcutModel Num.QcutProofs.
Import ListNotations.

(* every 2x2 matrix (formal entries, no Hermiticity/trace condition) is 1/2 sum_P tr(rho P) P: cutting a wire
   = measuring I, X, Y, Z upstream and re-inserting the measured Pauli downstream *)
Theorem wirecut_identity : forall a b c d : C,
  oscale 1 chalf (osum 1 (map (fun p => oscale 1 (pairing 1 (mkQ a b c d) (pmat p)) (pmat p)) paulis))
  = mkQ a b c d.
Proof. exact wirecut_id. Qed.
Print Assumptions wirecut_identity.

(* PREPARE side: each Pauli is the CHANGE_OF_BASIS combination of the four prepared states, the
   PREPARE_SETTINGS circuits ([I], [X], [H], [H,S] on |0>) prepare exactly those states, which are pure states *)
Theorem change_of_basis_resolves_paulis : forall p,
  pmat p = osum 1 (map (fun s => oscale 1 (cob p s) (pstate s)) preps).
Proof. exact prepare_resolution. Qed.
Print Assumptions change_of_basis_resolves_paulis.
Theorem prepare_settings_prepare_the_states : forall s,
  density (run_prep (prep_ops s)) = pstate s
  /\ otr 1 (pstate s) = c1 /\ oadj 1 (pstate s) = pstate s /\ omul 1 (pstate s) (pstate s) = pstate s.
Proof. exact prepare_settings_ok. Qed.
Print Assumptions prepare_settings_prepare_the_states.
(* both together: the implementation's measure/prepare tables resolve the identity channel *)
Theorem wirecut_identity_prepare_form : forall a b c d : C,
  oscale 1 chalf
    (osum 1 (map (fun p => oscale 1 (pairing 1 (mkQ a b c d) (pmat p))
                                  (osum 1 (map (fun s => oscale 1 (cob p s) (pstate s)) preps))) paulis))
  = mkQ a b c d.
Proof. exact wirecut_prepare_form. Qed.
Print Assumptions wirecut_identity_prepare_form.

(* ONE CUT, environments of any size m (upstream) and k (downstream), arbitrary operators:
   X = operator on env_A (x) cut wire left by the upstream fragment, OA = observable part on env_A,
   tau = initial operator of env_B, W = Heisenberg-picture observable of the downstream fragment on cut (x) env_B.
   The uncut value tr[(X (x) tau)(OA (x) W)] equals 1/2 sum_P <OA (x) P>_up * sum_s COB[P][s] <W>_down(s) *)
Theorem one_cut_reconstructs_formula : forall m k (X : QT M2 m) (OA : QT C m) (tau : Op k) (W : Op (S k)),
  uncut m k X OA tau W
  = cmul chalf (csum (map (fun p => cmul (csum (map (fun s => cmul (cob p s) (down_prep k tau W (pstate s))) preps))
                                         (up_meas m X OA p)) paulis)).
Proof. exact one_cut_formula. Qed.
Print Assumptions one_cut_reconstructs_formula.
(* ... and this is what the executable model of the implementation's post-processing computes from the two
   fragments' result vectors (measure fragment in tape order I,Z,X,Y; prepare fragment in order |0>,|1>,|+>,|+i>) *)
Theorem one_cut_reconstructs : forall m k (X : QT M2 m) (OA : QT C m) (tau : Op k) (W : Op (S k)),
  contract 1 [frag_up (up_meas m X OA); frag_down (fun s => down_prep k tau W (pstate s))]
  = uncut m k X OA tau W.
Proof. exact one_cut_model. Qed.
Print Assumptions one_cut_reconstructs.

(* K PARALLEL CUTS between two fragments, all k: for arbitrary operators rho (upstream, on the k cut wires) and
   M (downstream effective observable), measuring all 4^k Pauli words and feeding all 4^k product preparations,
   combined with the k-fold CHANGE_OF_BASIS and the factor 2^-k, gives tr(rho M) *)
Theorem k_cuts : forall k (rho M : Op k),
  cmul (halfpow k)
       (csum (map (fun w => cmul (pairing k rho (pword k w))
                                 (csum (map (fun ss => cmul (cobprod w ss) (pairing k (pprep k ss) M))
                                            (tuples preps k))))
                  (tuples paulis k)))
  = otr k (omul k rho M).
Proof. exact k_cuts_trace. Qed.
Print Assumptions k_cuts.

(* the contraction does not depend on the order in which fragments (einsum operands) are listed nor on the
   order in which the index assignments of the cut edges are summed *)
Theorem contraction_order_independent : forall k frs frs' asg',
  Permutation frs frs' -> Permutation (tuples paulis k) asg' ->
  contract_with k asg' frs' = contract k frs.
Proof. exact contract_order_indep. Qed.
Print Assumptions contraction_order_independent.

(* cut_circuit_mc: the eight (measurement, preparation, weight) settings resolve the identity channel, and the
   MC_STATES circuits prepare the six states *)
Theorem mc_settings_resolve_identity : forall a b c d : C,
  osum 1 (map (fun x : pl * mcstate * C =>
                 oscale 1 (cmul (snd x) (pairing 1 (mkQ a b c d) (pmat (fst (fst x))))) (mc_density (snd (fst x))))
              mc_settings)
  = mkQ a b c d.
Proof. exact mc_identity. Qed.
Print Assumptions mc_settings_resolve_identity.
Theorem mc_states_prepared : forall s, density (run_prep (mc_ops s)) = mc_density s.
Proof. exact mc_circuits. Qed.
Print Assumptions mc_states_prepared.

(* non-vacuity / sanity: a concrete single cut.  Upstream: no environment (m = 0), state |+><+| on the cut wire;
   downstream: no environment (k = 0), observable X: uncut value tr(|+><+| X) = 1, and the model contraction of the
   fragment results [<I>,<Z>,<X>,<Y>] = [1,0,1,0] and [<X>_0,<X>_1,<X>_+,<X>_+i] = [0,0,1,0] gives 1 *)
Example ex_single_cut :
  uncut 0 0 (pstate SP) c1 c1 pX = c1
  /\ contract 1 [frag_up (fun p => match p with PI | PX => c1 | _ => cz end);
                 frag_down (fun s => match s with SP => c1 | _ => cz end)] = c1.
Proof. split; apply ceqb_eq; vm_compute; reflexivity. Qed.
Example ex_k_cuts_nontrivial :
  reconstruct 2 (kron2 1 (pstate SI) (pstate S1)) (kron2 1 pY pZ) = copp c1
  /\ length (tuples paulis 2) = 16%nat /\ length (tuples preps 2) = 16%nat.
Proof. repeat split; apply ceqb_eq; vm_compute; reflexivity. Qed.
