(* C43 Tape-mode control flow equals plain Python control flow.
   Statements only; every proof is `exact <lemma>` from Disc/ControlFlowProofs.v.
   Model: Disc/ControlFlowModel.v (for_loop / while_loop / cond_call transcribe the
   _call_capture_disabled paths; py_range transcribes CPython's range).
   Reference (plain Python): py_for / py_while / ref_block in Disc/ControlFlowProofs.v.
   NOT stated here: "qp.cond on measurement values = deferring the measurement" (that clause belongs to
   the deferred-measurement machinery, C21); the harness covers it by a differential test only. *)
From Coq Require Import List ZArith Bool.
From PLV Require Import Disc.ControlFlowModel Disc.ControlFlowProofs.
Import ListNotations.
Open Scope Z_scope.

(* ---- Python range: length formula for positive AND negative steps, elements, exactness ---- *)
Theorem range_length_formula : forall start stop step l, py_range start stop step = Some l ->
  Z.of_nat (length l) = Z.max 0 (cdiv (stop - start) step).
Proof. exact py_range_length. Qed.
Print Assumptions range_length_formula.

Theorem range_kth_element : forall start stop step l k, py_range start stop step = Some l ->
  (k < length l)%nat -> nth_error l k = Some (start + Z.of_nat k * step).
Proof. exact py_range_nth. Qed.
Print Assumptions range_kth_element.

(* index k is produced iff start + k*step has not reached stop (i < stop for step > 0, i > stop for step < 0) *)
Theorem range_is_counter_loop : forall start stop step l k, py_range start stop step = Some l ->
  ((k < length l)%nat <-> before_stop stop step (start + Z.of_nat k * step)).
Proof. exact py_range_complete. Qed.
Print Assumptions range_is_counter_loop.

Theorem range_error_iff_zero_step : forall start stop step, py_range start stop step = None <-> step = 0.
Proof. exact py_range_zero_step. Qed.
Print Assumptions range_error_iff_zero_step.

(* ---- qp.for_loop = `for i in range(...): carried = body(i, carried...)` ---- *)
(* for EVERY body function (it may itself contain loops / conds) returning n values for n carried
   values, every call signature, n = 0, 1 or many: same recorded ops, same outcome, same returned value *)
Theorem for_loop_eq_python_for : forall start stop step n body init l,
  shaped n body -> length init = n ->
  (let '(a, b, c) := for_loop_args start stop step in py_range a b c) = Some l ->
  for_loop start stop step body init
  = bind (py_for (state_body body) l init) (fun carried => ret (init_res carried)).
Proof. exact for_loop_shaped. Qed.
Print Assumptions for_loop_eq_python_for.

Theorem for_loop_signatures_are_range_signatures : forall a b c,
  for_loop_args a None 1 = (0, a, 1) /\ for_loop_args a None c = (0, a, c) /\
  for_loop_args a (Some b) 1 = (a, b, 1) /\ for_loop_args a (Some b) c = (a, b, c).
Proof. exact for_loop_signatures. Qed.
Print Assumptions for_loop_signatures_are_range_signatures.

Theorem for_loop_zero_step_raises : forall start stop body init, for_loop start stop 0 body init = err.
Proof. exact for_loop_step0. Qed.
Print Assumptions for_loop_zero_step_raises.

(* argument threading: the final carried values are the left fold of the body over the range *)
Theorem for_loop_threading_is_fold : forall n (f : Z -> list Z -> list Z) body,
  (forall i a, length a = n -> body i a = ([], Ok (init_res (f i a)))) ->
  (forall i a, length a = n -> length (f i a) = n) ->
  forall l a, length a = n ->
  for_iter body l a (init_res a) = ([], Ok (init_res (fold_left (fun s i => f i s) l a))).
Proof. exact for_loop_fold. Qed.
Print Assumptions for_loop_threading_is_fold.

(* a body without carried values must not return a truthy value *)
Theorem for_loop_rejects_returning_body : forall body i l fr t r,
  body i [] = (t, Ok r) -> truthy r = true -> for_iter body (i :: l) [] fr = (t, Err).
Proof. exact for_iter_rejects_return. Qed.
Print Assumptions for_loop_rejects_returning_body.

(* ---- qp.while_loop = `while cond(carried...): carried = body(carried...)` for every fuel ---- *)
Theorem while_loop_eq_python_while : forall n cnd body, shapedw n body -> forall fuel init, length init = n ->
  while_loop fuel cnd body init
  = bind (py_while fuel cnd (state_bodyw body) init) (fun carried => ret (init_res carried)).
Proof. exact while_loop_shaped. Qed.
Print Assumptions while_loop_eq_python_while.

(* once the fuel suffices the result no longer depends on it *)
Theorem while_loop_fuel_irrelevant : forall cnd body f f' a r, (f <= f')%nat ->
  snd (while_iter f cnd body a r) <> Fuel -> while_iter f' cnd body a r = while_iter f cnd body a r.
Proof. exact while_iter_fuel_mono. Qed.
Print Assumptions while_loop_fuel_irrelevant.

(* ---- qp.cond: exactly the first branch with a true predicate runs ---- *)
Theorem cond_selects_first_true : forall brs els args k f,
  nth_error brs k = Some (true, f) ->
  (forall j p g, (j < k)%nat -> nth_error brs j = Some (p, g) -> p = false) ->
  cond_call brs els args = f args.
Proof. exact cond_first_true. Qed.
Print Assumptions cond_selects_first_true.

Theorem cond_without_true_predicate : forall brs els args,
  (forall p g, In (p, g) brs -> p = false) ->
  cond_call brs els args = match els with Some f => f args | None => ret PNone end.
Proof. exact cond_none_true. Qed.
Print Assumptions cond_without_true_predicate.

(* ---- nested bodies: every well-shaped program (arbitrary nesting of for / while / cond / ops)
        records the same ops and binds the same values as its plain-Python reading ---- *)
Theorem nested_program_eq_plain_python : forall wfuel b, wf_block b = true ->
  forall env, exec_block wfuel b env = ref_block wfuel b env.
Proof. exact exec_block_ref. Qed.
Print Assumptions nested_program_eq_plain_python.

(* ---- non-vacuity ---- *)
Example range_examples :
  py_range 5 0 (-2) = Some [5; 3; 1] /\ py_range 0 7 3 = Some [0; 3; 6] /\ py_range 3 3 1 = Some [] /\
  py_range 0 5 (-1) = Some [] /\ py_range 7 (-6) (-3) = Some [7; 4; 1; -2; -5] /\ py_range 0 3 0 = None /\
  cdiv (0 - 5) (-2) = 3 /\ cdiv (7 - 0) 3 = 3.
Proof. repeat split; reflexivity. Qed.

(* a shaped body exists and a nested well-shaped program really records ops:
   a = 0; for i in range(3): { for j in range(i): RX(3*i + j) }; { if i % 2 == 0: RY(i) }; a = a + i
   (code 99 = a construct returned None, code 100 = the returned carried value) *)
Example hyps_satisfiable :
  shaped 2 (fun i a => ([(0, i)], Ok (PTup [i; i]))) /\
  let p := BCons (SFor (Sig1 (EConst 3)) [EConst 0]
                   (BCons (SFor (Sig2 (EConst 0) (EVar 0)) []
                              (BCons (SOp 0 (EAdd (EMul (EVar 1) (EConst 3)) (EVar 0))) BNil) RNone)
                    (BCons (SCond [] (CCons (PEq (EMod (EVar 0) 2) (EConst 0)) (BCons (SOp 1 (EVar 0)) BNil) RNone CNil)
                                 false BNil RNone) BNil))
                   (RScalar (EAdd (EVar 2) (EVar 1)))) BNil in
  wf_block p = true /\
  exec_block 5 p [] = ([(99, 0); (1, 0); (99, 0); (0, 3); (99, 0); (99, 0); (0, 6); (0, 7); (99, 0); (1, 2); (99, 0); (100, 3)], Ok [3]).
Proof.
  split.
  - intros i a t r _ H. inversion H; subst. exists [i; i]. split; reflexivity.
  - split; vm_compute; reflexivity.
Qed.
