(* C20 Measurement splitting and diagonalisation preserve results.
   Statements only; every proof is `exact <lemma>` from Disc/SplitProofs.v.
   E ranges over ALL functions from single-term measurement keys to Q (the expectation value of a
   state is one of them); `evalm E` is E extended linearly to the original measurements with E(I) = 1. *)
From Coq Require Import List ZArith QArith Bool Permutation.
From PLV Require Import Disc.SplitModel Disc.SplitProofs.
Import ListNotations.

(* split_to_single_terms / split_non_commuting(grouping_strategy=None): executing the single-term
   measurements with any E and reassembling gives, position by position (order and offsets kept), the
   value of every original measurement; the post-processing never fails on its own tapes *)
Theorem split_reassemble_linear : forall (E : key -> Q) ms d offs,
  split_all [] 0 ms = Some (d, offs) ->
  exists vals, reassemble_nogroup d (map E (keys d)) offs = Some vals /\
               Forall2 Qeq vals (map (evalm E) ms).
Proof. exact split_reassemble_linear_lemma. Qed.
Print Assumptions split_reassemble_linear.

(* any partition of the distinct single-term measurements into tapes (index groups as returned by
   compute_partition_indices / the wires heuristic), with squeezed singleton groups, reassembles to the
   same values as no grouping *)
Theorem grouped_same : forall (E : key -> Q) d ig offs,
  Permutation (concat ig) (seq 0 (length d)) ->
  exists v v',
    reassemble_grouped (ge_all d 0 ig) (exec_groups E (group_keys d ig)) (map (@length nat) ig) offs = Some v /\
    reassemble_nogroup d (map E (keys d)) offs = Some v' /\
    Forall2 Qeq v v'.
Proof. exact grouped_same_lemma. Qed.
Print Assumptions grouped_same.

(* the executable partition test evaluated in the correspondence run implies that hypothesis *)
Theorem partition_test_sound : forall ig n, is_partition ig n = true -> Permutation (concat ig) (seq 0 n).
Proof. exact is_partition_perm. Qed.
Print Assumptions partition_test_sound.

(* the split raises exactly when some non-expval measurement has an observable that simplifies to a sum *)
Theorem rejects_nonlinear : forall ms d i, split_all d i ms = None <-> existsb rejected ms = true.
Proof. exact rejects_nonlinear_lemma. Qed.
Print Assumptions rejects_nonlinear.

(* ... and every accepted non-expval measurement (var / probs / sample / counts, also of the identity) is
   passed through whole: its own key, coefficient 1, offset 0 *)
Theorem nonexpval_passthrough : forall d i m d' off kind,
  (match m with MComp k _ _ _ => k | MIdent k _ => k | MOther k _ => k end) = kind ->
  Z.eqb kind 0 = false ->
  split_one d i m = Some (d', off) ->
  d' = dict_add d (match m with MComp _ _ _ k => k | MIdent _ k => k | MOther _ k => k end) i 1 /\ off = 0.
Proof. exact passthrough_lemma. Qed.
Print Assumptions nonexpval_passthrough.

(* broadcast_expand / batch_params / batch_input: tape b carries the b-th slice of every batched
   parameter (all batch sizes), and re-stacking results[b][m] gives [m][b] in batch order *)
Theorem broadcast_expand_slices : forall ops B,
  split_operations ops B = map (fun b => map (slice_op b) ops) (seq 0 B).
Proof. exact split_operations_spec. Qed.
Print Assumptions broadcast_expand_slices.

Theorem broadcast_roundtrip : forall (R : Type) (def : R) (run : list sop -> list R) ops B nmeas,
  restack def nmeas (map run (split_operations ops B))
  = map (fun m => map (fun b => nth m (run (map (slice_op b) ops)) def) (seq 0 B)) (seq 0 nmeas).
Proof. intros R; exact (@broadcast_roundtrip_lemma R). Qed.
Print Assumptions broadcast_roundtrip.

(* ---------------------------------------------------------------- non-vacuity / regression examples *)
Definition X0 : word := [(0, 1)]%Z.
Definition Z1 : word := [(1, 3)]%Z.
Definition ex_ms : list meas :=
  [ MComp 0 [(1 # 2, false, X0); (2 # 1, true, []); (3 # 1, false, Z1)] true (9, 0, 1, [])%Z;
    MOther 0 (exp_key X0);
    MIdent 1 (1, 1, 1, [(0, 4)])%Z ].            (* expval(0.5 X0 + 2 I + 3 Z1), expval(X0), var(I(0)) *)

(* the hypotheses are satisfiable: X0 is measured once, var(I) is kept as a measurement, offset 2 *)
Example split_example :
  split_all [] 0 ex_ms =
  Some ([ (exp_key X0, [(0%nat, 1 # 2); (1%nat, 1)]); (exp_key Z1, [(0%nat, 3 # 1)]);
          ((1, 1, 1, [(0, 4)])%Z, [(2%nat, 1)]) ],
        [0 + (2 # 1); 0; 0]).
Proof. vm_compute. reflexivity. Qed.

Example grouping_example :
  is_partition [[2; 0]; [1]]%nat 3 = true /\
  reassemble_grouped (ge_all [ (exp_key X0, [(0%nat, 1 # 2); (1%nat, 1)]); (exp_key Z1, [(0%nat, 3 # 1)]);
                               ((1, 1, 1, [(0, 4)])%Z, [(2%nat, 1)]) ] 0 [[2; 0]; [1]]%nat)
                     [GT [0; 1 # 4]; GS (1 # 2)] [2; 1]%nat [0 + (2 # 1); 0; 0]
  = Some [(1 # 2) * (1 # 4) + ((3 # 1) * (1 # 2) + 0) + (0 + (2 # 1)); 1 # 4; 0].
Proof. split; vm_compute; reflexivity. Qed.

Example reject_example : split_all [] 0 [MComp 1 [(1, false, X0); (1, false, Z1)] true (9, 0, 1, [])%Z] = None.
Proof. reflexivity. Qed.
