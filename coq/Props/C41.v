(* C41 Queuing records exactly the program's operations in order (single thread).
   Statements only; every proof is `exact <lemma>` from Disc/QueuingProofs.v.
   exec = the stack machine transcribing core/queuing.py (semantics 1);
   den/replay = the lexical denotation (semantics 2): every creation/consumption event is attributed
   to the innermost enclosing With, to no context under Stop. *)
From Coq Require Import List ZArith Bool Sorted.
From PLV Require Import Disc.QueuingModel Disc.QueuingProofs.
Import ListNotations.
Open Scope Z_scope.

(* For ALL programs and ALL start states: the machine's final heap, queues, stack and exception flag
   are those of the lexical denotation started in the context on top of the stack. *)
Theorem record_is_denotation : forall p s,
  match den p (hd_error (stack s)) (heap s) (length (queues s)) with
  | (evs, h', n', r) =>
      exec p s = (mk h' (replay evs (queues s)) (stack s), r) /\ n' = length (replay evs (queues s))
  end.
Proof. exact exec_den. Qed.
Print Assumptions record_is_denotation.

(* The context stack is restored after any program, whether or not an exception escapes it. *)
Theorem stack_restored : forall p s, stack (fst (exec p s)) = stack s.
Proof. exact exec_stack. Qed.
Print Assumptions stack_restored.

(* Nothing is recorded in any existing context under stop_recording (whatever the body does,
   exceptions included); contexts opened inside the block are new entries behind the old ones. *)
Theorem nothing_under_stop : forall b s,
  firstn (length (queues s)) (queues (fst (exec (Stop b) s))) = queues s.
Proof. exact stop_frame. Qed.
Print Assumptions nothing_under_stop.

(* ... and if the body opens no context of its own, no queue changes at all. *)
Theorem nothing_under_stop_no_with : forall b s, no_with b = true ->
  queues (fst (exec (Stop b) s)) = queues s.
Proof. exact stop_nowith. Qed.
Print Assumptions nothing_under_stop_no_with.

(* Operators created inside an inner With are recorded only there: every queue that existed when
   the inner context was entered is unchanged when it exits. *)
Theorem inner_context_isolated : forall b s,
  firstn (length (queues s)) (queues (fst (exec (With b) s))) = queues s.
Proof. exact with_frame. Qed.
Print Assumptions inner_context_isolated.

(* In general only the innermost active context can change. *)
Theorem only_innermost_changes : forall p s,
  (length (queues s) <= length (queues (fst (exec p s))))%nat /\
  forall c, (c < length (queues s))%nat -> hd_error (stack s) <> Some c ->
            nth_error (queues (fst (exec p s))) c = nth_error (queues s) c.
Proof. exact exec_frame. Qed.
Print Assumptions only_innermost_changes.

(* Program order: every queue is strictly increasing in creation number. *)
Theorem recorded_in_program_order : forall p q,
  In q (queues (fst (exec p init))) -> StronglySorted Z.lt q.
Proof. exact exec_sorted. Qed.
Print Assumptions recorded_in_program_order.

Theorem program_order_invariant : forall p s, wf s -> wf (fst (exec p s)).
Proof. exact exec_wf. Qed.
Print Assumptions program_order_invariant.

(* A newly created operator/measurement is appended to the innermost active context. *)
Theorem created_is_recorded_last : forall s m c rest q,
  wf s -> stack s = c :: rest -> nth_error (queues s) c = Some q ->
  nth_error (queues (fst (exec (New m) s))) c = Some (q ++ [hlen (heap s)]).
Proof. exact new_recorded. Qed.
Print Assumptions created_is_recorded_last.

(* Operands consumed by a wrapper constructor are recorded only through the wrapper: after the
   constructor the wrapper is in the active queue, its operand(s) are not, and objects that are
   neither removed nor the wrapper keep their membership. *)
Theorem consumed_only_through_wrapper : forall s k r1 r2 pre d post c rest q,
  wf s -> plan_wrap (heap s) k r1 r2 = Some (pre, d, post) ->
  stack s = c :: rest -> nth_error (queues s) c = Some q ->
  exists q', nth_error (queues (perform s pre d post)) c = Some q' /\
    In (hlen (heap s)) q' /\
    ~ In (r1 mod hlen (heap s)) q' /\
    (k = KProd -> ~ In (r2 mod hlen (heap s)) q') /\
    (forall y, ~ In y (pre ++ post) -> y <> hlen (heap s) -> (In y q' <-> In y q)).
Proof. exact wrap_consumes. Qed.
Print Assumptions consumed_only_through_wrapper.

(* qp.apply re-queues: a copy (fresh identity) is appended at the end of the active queue. *)
Theorem apply_requeues_copy : forall s r pre d c rest q,
  wf s -> plan_apply (heap s) r = Some (pre, d) ->
  stack s = c :: rest -> nth_error (queues s) c = Some q ->
  fst (exec (Apply r) s) = perform s pre d [] /\
  d = copy_desc (hget (heap s) (r mod hlen (heap s))) /\
  nth_error (queues (perform s pre d [])) c = Some (q_remove_all pre q ++ [hlen (heap s)]).
Proof. exact apply_requeues. Qed.
Print Assumptions apply_requeues_copy.

(* non-vacuity: a concrete program with a nested context, a stop block, wrappers, apply and an
   exception unwinding through With and Stop *)
Example concrete_program :
  let p := With (Seq (New 0) (Seq (New 1) (Seq (Wrap KAdj 0 0) (Seq (Wrap KProd 1 2)
           (Seq (Try (With (Seq (New 0) (Stop (Seq (New 0) Raise)))))
           (Seq (Apply 0) (Stop (New 0)))))))) in
  exec p init =
  (mk [OBase false; OBase true; OWrap KAdj true [0]; OWrap KProd false [1; 2]; OBase false; OBase false;
       OBase false; OBase false] [[3; 6]; [4]] [], false)
  /\ wf init /\ no_with (Seq (New 0) Raise) = true.
Proof. vm_compute. repeat split; constructor. Qed.
