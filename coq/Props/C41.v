(* C41 Queuing records exactly the program's operations in order (single thread).
   Statements only; every proof is `exact <lemma>` from Disc/QueuingProofs.v. *)
From Coq Require Import List ZArith Bool.
From PLV Require Import Disc.QueuingModel Disc.QueuingProofs.
Import ListNotations.
Open Scope Z_scope.

Theorem record_is_denotation : forall p s,
  match den p (hd_error (stack s)) (heap s) (length (queues s)) with
  | (evs, h', n', r) =>
      exec p s = (mk h' (replay evs (queues s)) (stack s), r) /\ n' = length (replay evs (queues s))
  end.
Proof. exact exec_den. Qed.
Print Assumptions record_is_denotation.
