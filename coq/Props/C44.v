(* C44 Shots specifications are interpreted consistently.
   Statements only; every proof is `exact <lemma>` from Disc/ShotsProofs.v. *)
From Coq Require Import List ZArith Bool.
From PLV Require Import Disc.ShotsModel Disc.ShotsProofs.
Import ListNotations.
Open Scope Z_scope.

(* total shots = sum of the expanded list (None only for the None specification) *)
Theorem total_is_sum_expand : forall s sh, mk s = Some sh ->
  total sh = match s with SNone => None | _ => Some (sumZ (iter sh)) end.
Proof. exact mk_total. Qed.
Print Assumptions total_is_sum_expand.

(* iteration order = the expanded list of the items as written *)
Theorem iter_is_expand : forall l sh, mk (SSeq l) = Some sh -> iter sh = flat_map item_expand l.
Proof. exact mk_seq_iter. Qed.
Print Assumptions iter_is_expand.

(* the shot vector is the run-length encoding: positive entries, no two adjacent equal *)
Theorem vector_is_rle : forall s sh, mk s = Some sh -> wf sh /\ canonical (vec sh).
Proof. intros s sh H; split; [exact (mk_wf s sh H) | exact (mk_canonical s sh H)]. Qed.
Print Assumptions vector_is_rle.

Theorem bins_are_prefix_sums : forall sh i a b, nth_error (bins sh) i = Some (a, b) ->
  a = 0 + sumZ (firstn i (iter sh)) /\ b = 0 + sumZ (firstn (S i) (iter sh)).
Proof. intros sh; exact (bins_from_spec (iter sh) 0). Qed.
Print Assumptions bins_are_prefix_sums.

Theorem bins_cover_all : forall sh, length (bins sh) = length (iter sh).
Proof. intros sh; exact (bins_from_length (iter sh) 0). Qed.
Print Assumptions bins_cover_all.

Theorem partitioned_iff_len_gt_1 : forall sh, wf sh -> total sh <> None ->
  has_partitioned sh = true <-> (1 < length (iter sh))%nat.
Proof. exact partitioned_iff. Qed.
Print Assumptions partitioned_iff_len_gt_1.

Theorem num_copies_is_length : forall sh, wf sh -> num_copies sh = Z.of_nat (length (iter sh)).
Proof. exact num_copies_length. Qed.
Print Assumptions num_copies_is_length.

Theorem add_is_concat : forall x y, wf x -> wf y -> total x <> None -> total y <> None -> vec x <> [] ->
  exists z, add x y = Some z /\ iter z = iter x ++ iter y /\ total z = Some (sumZ (iter x) + sumZ (iter y)).
Proof. exact add_concat. Qed.
Print Assumptions add_is_concat.

Theorem add_none_neutral : forall x y,
  (total x = None -> add x y = Some y) /\ (total x <> None -> total y = None -> add x y = Some x).
Proof. intros x y; split; [exact (add_none_l x y) | exact (add_none_r x y)]. Qed.
Print Assumptions add_none_neutral.

Theorem mul_is_map : forall x p q, wf x -> total x <> None -> vec x <> [] ->
  Forall (fun s => 0 < scale p q s) (iter x) ->
  exists z, mul x p q = Some z /\ iter z = map (scale p q) (iter x).
Proof. exact mul_map. Qed.
Print Assumptions mul_is_map.

Theorem mul_rejects_nonpositive : forall x p q, wf x -> total x <> None ->
  Exists (fun s => scale p q s <= 0) (iter x) -> mul x p q = None.
Proof. exact mul_reject. Qed.
Print Assumptions mul_rejects_nonpositive.

Theorem reject_iff_invalid : forall s, mk s = None <-> invalid s.
Proof. exact reject_iff. Qed.
Print Assumptions reject_iff_invalid.

(* non-vacuity: a concrete specification meets the hypotheses used above *)
Example hyps_satisfiable :
  exists sh, mk (SSeq [IInt 3; IInt 3; IPair 3 2; IInt 4]) = Some sh /\ wf sh /\ total sh = Some 16 /\
             vec sh = [(3, 4); (4, 1)] /\ iter sh = [3; 3; 3; 3; 4] /\ has_partitioned sh = true.
Proof. eexists; repeat split; try reflexivity. repeat constructor. Qed.
