(* C40 Circuit parameter bookkeeping is consistent.
   Statements only; every proof is `exact <lemma>` from Disc/TapeParamsProofs.v.
   Model: Disc/TapeParamsModel.v (par_info, trainable_params, get_parameters, bind_new_parameters, copy,
   decompose, gradient expand = decompose + re-derive trainable indices from requires_grad). *)
From Coq Require Import List ZArith Bool QArith.
From PLV Require Import Disc.TapeParamsModel Disc.TapeParamsProofs.
Import ListNotations.
Open Scope Z_scope.

(* ---- par_info entry k points at the operator / offset holding parameter k (all circuits) ---- *)
Theorem par_info_consistent : forall t k oi pi, nth_error (par_info t) k = Some (oi, pi) ->
  exists d v, py_nth (cdata t) oi = Some d /\ py_nth d pi = Some v /\ nth_error (all_params t) k = Some v.
Proof. exact par_info_points. Qed.
Print Assumptions par_info_consistent.

Theorem par_info_one_entry_per_parameter : forall t,
  length (par_info t) = length (all_params t) /\ NoDup (par_info t).
Proof. intros t; split; [exact (par_info_len t) | exact (par_info_nodup t)]. Qed.
Print Assumptions par_info_one_entry_per_parameter.

(* ---- binding the current values (at any index list, Python indexing) reproduces the circuit ---- *)
Theorem bind_current_id : forall t ps idx t', bind t ps idx = Some t' ->
  (forall k i, nth_error (sorted_py idx) k = Some i ->
     exists e, py_nth (par_info t) i = Some e /\ exists v, via_pinfo t e = Some v /\ nth_error ps k = Some v) ->
  ops t' = ops t /\ meas t' = meas t /\ trainable t' = trainable t.
Proof. exact bind_current. Qed.
Print Assumptions bind_current_id.

(* ---- binding new values changes exactly the addressed positions ---- *)
(* general form (unsorted / duplicate / negative indices): value at par_info entry (oi, pi) is params[k] for the
   LAST k with sorted(indices)[k] addressing (oi, pi), else the old value *)
Theorem bind_pointwise_general : forall t ps idx t' asg, bind t ps idx = Some t' -> bind_asg t idx = Some asg ->
  forall j oi pi v, nth_error (par_info t) j = Some (oi, pi) -> nth_error (all_params t) j = Some v ->
  nth_error (all_params t') j =
    Some (match lookup_last asg oi pi None with Some k => nth (Z.to_nat k) ps v | None => v end).
Proof. exact bind_pointwise. Qed.
Print Assumptions bind_pointwise_general.

(* a position that no index addresses keeps its value *)
Theorem bind_others_untouched : forall t ps idx t', bind t ps idx = Some t' ->
  forall j, (forall i, In i idx -> py_nth (par_info t) i <> nth_error (par_info t) j) ->
  nth_error (all_params t') j = nth_error (all_params t) j.
Proof. exact bind_untouched. Qed.
Print Assumptions bind_others_untouched.

Theorem bind_others_untouched_nonneg : forall t ps idx t', bind t ps idx = Some t' ->
  (forall i, In i idx -> 0 <= i) ->
  forall j, ~ In (Z.of_nat j) idx -> nth_error (all_params t') j = nth_error (all_params t) j.
Proof. exact bind_untouched_pos. Qed.
Print Assumptions bind_others_untouched_nonneg.

(* increasing non-negative indices (the documented use): position indices[k] receives params[k], in order *)
Theorem bind_changes_exactly : forall t ps idx t', bind t ps idx = Some t' ->
  incr idx -> (forall i, In i idx -> 0 <= i) ->
  forall k i, nth_error idx k = Some i -> nth_error (all_params t') (Z.to_nat i) = nth_error ps k.
Proof. exact bind_sets. Qed.
Print Assumptions bind_changes_exactly.

(* operator names, wires, measurement classes, trainable indices and par_info are kept by a bind *)
Theorem bind_keeps_structure : forall t ps idx t', bind t ps idx = Some t' ->
  map sname (ops t') = map sname (ops t) /\ map swires (ops t') = map swires (ops t) /\
  map mkind (meas t') = map mkind (meas t) /\ trainable t' = trainable t /\ par_info t' = par_info t.
Proof. exact bind_frame. Qed.
Print Assumptions bind_keeps_structure.

(* ---- copies / derived tapes are independent: in any history over a store of tapes, a tape is changed only by
        a trainable_params assignment addressed to it, and even that never changes its operators/measurements ---- *)
Theorem copy_independent : forall ss st stf cs, run_steps st ss = (stf, cs) ->
  forall j t, nth_error st j = Some t ->
  ((forall s, In s ss -> ~ (exists l, s = SSetTrain j l)) -> nth_error stf j = Some t) /\
  (exists t', nth_error stf j = Some t' /\ ops t' = ops t /\ meas t' = meas t).
Proof. exact run_frame. Qed.
Print Assumptions copy_independent.

(* ---- expansion: after decompose + re-derivation (gradient expand transforms) the new trainable positions are
        exactly those whose value is computed from a trainable old position (deps = position map of the rules) ---- *)
Theorem expand_preserves_trainable : forall t rs t'', grad_expand t rs = XNew t'' ->
  (forall k, In k (trainable t'') <-> (0 <= k /\ flag_at (all_params t'') k = true)) /\
  forall j, In j (trainable t'') <->
    exists n ds, j = Z.of_nat n /\ nth_error (deps t rs) n = Some ds /\
                 exists k, In k ds /\ flag_at (all_params t) k = true.
Proof. exact grad_expand_trainable. Qed.
Print Assumptions expand_preserves_trainable.

Theorem expand_preserves_trainable_indices : forall t rs t'',
  (forall k, In k (trainable t) <-> (0 <= k /\ flag_at (all_params t) k = true)) ->
  grad_expand t rs = XNew t'' ->
  forall j, In j (trainable t'') <->
    exists n ds, j = Z.of_nat n /\ nth_error (deps t rs) n = Some ds /\
                 exists k, In k ds /\ 0 <= k /\ In k (trainable t).
Proof. exact grad_expand_trainable_pos. Qed.
Print Assumptions expand_preserves_trainable_indices.

(* the position map really is the data flow of the rules: requires_grad of every new value = OR over its sources *)
Theorem expand_position_map_sound : forall t rs t', decompose t rs = Some t' ->
  Forall2 (fun p ds => snd p = existsb (flag_at (all_params t)) ds) (all_params t') (deps t rs).
Proof. exact decompose_deps. Qed.
Print Assumptions expand_position_map_sound.

(* plain decompose (tape.copy(operations=new_ops)) forgets an explicitly set trainable subset: all parameters *)
Theorem decompose_resets_trainable_to_all : forall t rs t', decompose t rs = Some t' ->
  trainable t' = enum_from 0 (length (all_params t')).
Proof. exact decompose_trainable_all. Qed.
Print Assumptions decompose_resets_trainable_to_all.

(* read literally on tape.trainable_params, "decomposing preserves which parameters are trainable" is refuted by
   the faithful model for decompose alone: Rot(a*, b, c) with only a trainable -> RZ RY RZ, all three trainable;
   the gradient expand of the same tape keeps [0] *)
Definition ex_rot : tape :=
  mkTape [mkSlot 1 [(1 # 2, true); (3 # 4, false); (5 # 8, false)]%Q [0]] [mkMp 7 None] (Some [0]).
Definition ex_rules : rules :=
  [(1, [true; false; false],
    Some [(2, [(0, [1; 0; 0])]%Q, [0]); (3, [(0, [0; 1; 0])]%Q, [0]); (2, [(0, [0; 0; 1])]%Q, [0])])].
Theorem decompose_alone_resets_trainable_refuted : exists t rs t' t'',
  trainable t = [0] /\ decompose t rs = Some t' /\ grad_expand t rs = XNew t'' /\
  deps t rs = [[0]; [1]; [2]] /\ trainable t' = [0; 1; 2] /\ trainable t'' = [0].
Proof. exists ex_rot, ex_rules. eexists. eexists. repeat split; vm_compute; reflexivity. Qed.
Print Assumptions decompose_alone_resets_trainable_refuted.

(* ---- non-vacuity ---- *)
Example bind_hyps_satisfiable :
  exists t', bind ex_rot [(9 # 1, false); (7 # 2, true)]%Q [0; 2] = Some t' /\ incr [0; 2] /\
             all_params t' = [(9 # 1, false); (3 # 4, false); (7 # 2, true)]%Q /\ trainable t' = [0].
Proof. eexists. repeat split; vm_compute; reflexivity. Qed.

Example bind_identity_satisfiable :
  exists t', bind ex_rot (all_params ex_rot) [0; 1; 2] = Some t' /\ ops t' = ops ex_rot.
Proof. eexists. split; vm_compute; reflexivity. Qed.
