(* C68 Kernel utilities return valid kernel matrices.
   Statements only; every proof is `exact <lemma>` from Num/KernelsProofs.v.
   Model: Num/KernelsModel.v (transcription of kernels/utils.py, cost_functions.py, postprocessing.py over Q;
   Python exceptions = None; kernels are arbitrary functions X -> X -> Q with scalar values; d is the default
   element for nth).  mat_eq = entrywise equality of rationals; qform M x = x^T M x. *)
From Coq Require Import List QArith Qabs Qminmax Bool Arith.
From PLV Require Import Num.KernelsModel Num.KernelsProofs.
Import ListNotations.
Open Scope Q_scope.

(* ---------------------------------------------------------------- kernel_matrix *)
(* shape N x M and entry (i,j) = kernel(X1[i], X2[j]) -- for EVERY kernel (no symmetry), all sizes *)
Theorem kernel_matrix_entrywise : forall (X : Type) (k : X -> X -> Q) (X1 X2 : list X), X1 <> [] -> X2 <> [] ->
  exists M, kernel_matrix k X1 X2 = Some M /\ length M = length X1 /\
    (forall i, (i < length X1)%nat -> length (nth i M []) = length X2) /\
    forall d1 d2 i j, (i < length X1)%nat -> (j < length X2)%nat ->
      nth j (nth i M []) 0 = k (nth i X1 d1) (nth j X2 d2).
Proof. exact @kernel_matrix_entry. Qed.
Print Assumptions kernel_matrix_entrywise.

Theorem kernel_matrix_empty_raises : forall (X : Type) (k : X -> X -> Q) (X1 X2 : list X),
  X1 = [] \/ X2 = [] -> kernel_matrix k X1 X2 = None.
Proof. exact @kernel_matrix_empty. Qed.
Print Assumptions kernel_matrix_empty_raises.

(* ---------------------------------------------------------------- square_kernel_matrix *)
(* entry (i,j): kernel(x_i,x_j) for i<j, the COPIED value kernel(x_j,x_i) for i>j, and on the diagonal 1
   (assume_normalized_kernel) or kernel(x_i,x_i)   [sq_entry]; includes the N = 1 shortcut and the final
   moveaxis (a transposition) *)
Theorem square_kernel_matrix_entrywise : forall (X : Type) (k : X -> X -> Q) (d : X) (xs : list X) (an : bool),
  xs <> [] ->
  exists M, square_kernel_matrix k d xs an = Some M /\ length M = length xs /\
    (forall i, (i < length xs)%nat -> length (nth i M []) = length xs) /\
    forall i j, (i < length xs)%nat -> (j < length xs)%nat -> nth j (nth i M []) 0 = sq_entry k d xs an i j.
Proof. exact @square_spec. Qed.
Print Assumptions square_kernel_matrix_entrywise.

(* symmetric for EVERY kernel function (the lower triangle is copied, the kernel need not be symmetric) *)
Theorem square_kernel_matrix_symmetric : forall (X : Type) (k : X -> X -> Q) (d : X) xs an M,
  square_kernel_matrix k d xs an = Some M ->
  forall i j, (i < length xs)%nat -> (j < length xs)%nat -> nth j (nth i M []) 0 = nth i (nth j M []) 0.
Proof. exact @square_symmetric. Qed.
Print Assumptions square_kernel_matrix_symmetric.

Theorem square_unit_diagonal : forall (X : Type) (k : X -> X -> Q) (d : X) xs an M,
  square_kernel_matrix k d xs an = Some M ->
  (an = true \/ forall i, (i < length xs)%nat -> k (nth i xs d) (nth i xs d) = 1) ->
  forall i, (i < length xs)%nat -> nth i (nth i M []) 0 = 1.
Proof. exact @square_unit_diagonal. Qed.
Print Assumptions square_unit_diagonal.

(* ASSUMPTION made explicit: the result reproduces the kernel entrywise iff the kernel is symmetric on the data
   (and has unit diagonal when assume_normalized_kernel is used) -- true for embedding kernels *)
Theorem square_reproduces_symmetric_kernel : forall (X : Type) (k : X -> X -> Q) (d : X) xs an M,
  square_kernel_matrix k d xs an = Some M ->
  (forall i j, (i < j)%nat -> (j < length xs)%nat -> k (nth j xs d) (nth i xs d) = k (nth i xs d) (nth j xs d)) ->
  (an = true -> forall i, (i < length xs)%nat -> k (nth i xs d) (nth i xs d) = 1) ->
  forall i j, (i < length xs)%nat -> (j < length xs)%nat -> nth j (nth i M []) 0 = k (nth i xs d) (nth j xs d).
Proof. exact @square_is_kernel. Qed.
Print Assumptions square_reproduces_symmetric_kernel.

Theorem square_empty_raises : forall (X : Type) (k : X -> X -> Q) (d : X) an, square_kernel_matrix k d [] an = None.
Proof. exact @square_empty. Qed.
Print Assumptions square_empty_raises.

(* ---------------------------------------------------------------- polarity / target_alignment *)
(* polarity = sum_ij K_ij y_i y_j ; target_alignment = polarity / sqrt(normsq) with
   normsq = (sum_ij K_ij^2) (sum_ij (y_i y_j)^2)  (the square of the normalisation stays in Q);
   y = the labels, rescaled or not; K_ij = sq_entry *)
Theorem polarity_alignment_formula : forall (X : Type) (k : X -> X -> Q) (d : X) xs Y an rescale,
  xs <> [] -> length Y = length xs ->
  let N := length xs in
  let y := fun i => nth i (labels_used Y rescale) 0 in
  let K := sq_entry k d xs an in
  exists p n2, polarity k d xs Y an rescale = Some (p, n2) /\
    p == sumn N (fun i => sumn N (fun j => K i j * (y i * y j))) /\
    n2 == sumn N (fun i => sumn N (fun j => K i j * K i j)) *
          sumn N (fun i => sumn N (fun j => (y i * y j) * (y i * y j))).
Proof. exact @polarity_spec. Qed.
Print Assumptions polarity_alignment_formula.

(* rescale_class_labels: y_i / n_plus for labels equal to 1, y_i / n_minus for all others, with
   n_plus = #{y = 1}, n_minus = len(Y) - n_plus; and the divisors are never 0 *)
Theorem alignment_rescale_labels : forall Y i, (i < length Y)%nat ->
  nth i (rescale_labels Y) 0
  = if is_one (nth i Y 0) then nth i Y 0 / qnat (count_plus Y)
    else nth i Y 0 / qnat (length Y - count_plus Y).
Proof. exact rescale_entry. Qed.
Print Assumptions alignment_rescale_labels.

Theorem rescale_plus_label : forall Y i, (i < length Y)%nat -> nth i Y 0 == 1 ->
  nth i (rescale_labels Y) 0 == 1 / qnat (count_plus Y).
Proof. exact rescale_plus. Qed.
Print Assumptions rescale_plus_label.

Theorem rescale_minus_label : forall Y i, (i < length Y)%nat -> nth i Y 0 == -(1) ->
  nth i (rescale_labels Y) 0 == -(1) / qnat (length Y - count_plus Y).
Proof. exact rescale_minus. Qed.
Print Assumptions rescale_minus_label.

Theorem rescale_divisor_plus_positive : forall Y y, In y Y -> is_one y = true -> (0 < count_plus Y)%nat.
Proof. exact count_plus_pos. Qed.
Print Assumptions rescale_divisor_plus_positive.

Theorem rescale_divisor_minus_positive : forall Y y, In y Y -> is_one y = false -> (count_plus Y < length Y)%nat.
Proof. exact count_minus_pos. Qed.
Print Assumptions rescale_divisor_minus_positive.

(* ---------------------------------------------------------------- post-processing on a spectral form *)
(* x^T (V diag(c) V^T) x = sum_j c_j ((x^T V)_j)^2, hence >= 0 for every rational x when all c_j >= 0 *)
Theorem spectral_quadratic_form : forall m V w x, Forall (fun r => length r = m) V ->
  qform (sandwich V w) x == dot3 (lincomb m x V) w (lincomb m x V).
Proof. exact sandwich_qform. Qed.
Print Assumptions spectral_quadratic_form.

Theorem spectral_form_psd : forall m V w x, Forall (fun r => length r = m) V -> Forall (fun c => 0 <= c) w ->
  0 <= qform (sandwich V w) x.
Proof. exact sandwich_psd. Qed.
Print Assumptions spectral_form_psd.

(* hypotheses: (w, V) returned by eigh satisfy K = V diag(w) V^T and w[0] is the smallest eigenvalue *)
Theorem threshold_spectrum : forall w V K, Forall (fun c => hd 0 w <= c) w -> mat_eq K (sandwich V w) ->
  mat_eq (threshold_matrix w V K) (sandwich V (map clip0 w)).
Proof. exact threshold_spectral. Qed.
Print Assumptions threshold_spectrum.

Theorem clip_is_max : forall c, clip0 c == Qmax c 0.
Proof. exact clip0_is_max. Qed.
Print Assumptions clip_is_max.

Theorem flip_spectrum : forall w V K, Forall (fun c => hd 0 w <= c) w -> mat_eq K (sandwich V w) ->
  mat_eq (flip_matrix w V K) (sandwich V (map Qabs w)).
Proof. exact flip_spectral. Qed.
Print Assumptions flip_spectrum.

(* additionally V V^T = I *)
Theorem displace_spectrum : forall wmin w V K,
  mat_eq K (sandwich V w) -> mat_eq (eye (length K)) (sandwich V (repeat 1 (length w))) ->
  mat_eq (displace_matrix wmin K) (sandwich V (if Qltb wmin 0 then map (fun c => c - wmin) w else w)).
Proof. exact displace_spectral. Qed.
Print Assumptions displace_spectrum.

Theorem threshold_spectrum_nonneg : forall m w V K x, Forall (fun r => length r = m) V ->
  Forall (fun c => hd 0 w <= c) w -> mat_eq K (sandwich V w) -> 0 <= qform (threshold_matrix w V K) x.
Proof. exact threshold_psd. Qed.
Print Assumptions threshold_spectrum_nonneg.

Theorem flip_spectrum_nonneg : forall m w V K x, Forall (fun r => length r = m) V ->
  Forall (fun c => hd 0 w <= c) w -> mat_eq K (sandwich V w) -> 0 <= qform (flip_matrix w V K) x.
Proof. exact flip_psd. Qed.
Print Assumptions flip_spectrum_nonneg.

Theorem displace_spectrum_nonneg : forall m wmin w V K x, Forall (fun r => length r = m) V ->
  wmin = hd 0 w -> Forall (fun c => hd 0 w <= c) w ->
  mat_eq K (sandwich V w) -> mat_eq (eye (length K)) (sandwich V (repeat 1 (length w))) ->
  0 <= qform (displace_matrix wmin K) x.
Proof. exact displace_psd. Qed.
Print Assumptions displace_spectrum_nonneg.

(* K - wmin * I entry by entry when wmin < 0 (no spectral assumption) *)
Theorem displace_is_shift_by_identity : forall wmin K a b, Qltb wmin 0 = true ->
  (a < length K)%nat -> (b < length K)%nat -> (b < length (nth a K []))%nat ->
  nth b (nth a (displace_matrix wmin K) []) 0 = nth b (nth a K []) 0 - wmin * (if Nat.eqb a b then 1 else 0).
Proof. exact displace_entry. Qed.
Print Assumptions displace_is_shift_by_identity.

Theorem psd_input_unchanged : forall w V K, 0 <= hd 0 w ->
  threshold_matrix w V K = K /\ flip_matrix w V K = K /\ displace_matrix (hd 0 w) K = K.
Proof. intros w V K H. exact (conj (threshold_unchanged w V K H) (conj (flip_unchanged w V K H) (displace_unchanged _ K H))). Qed.
Print Assumptions psd_input_unchanged.

(* the decidable side condition evaluated by the tie on every generated spectral case implies the hypotheses
   above, hence every model output the implementation is compared with is PSD over Q *)
Theorem tie_side_conditions_sound : forall w V K, spectral_ok w V K = true ->
  mat_eq K (sandwich V w) /\ mat_eq (eye (length K)) (sandwich V (repeat 1 (length w))) /\
  Forall (fun c => hd 0 w <= c) w /\ Forall (fun r => length r = length w) V.
Proof. exact spectral_ok_sound. Qed.
Print Assumptions tie_side_conditions_sound.

Theorem postprocessed_model_psd : forall which w V K x, spectral_ok w V K = true ->
  0 <= qform (post_model which w V K) x.
Proof. exact post_model_psd. Qed.
Print Assumptions postprocessed_model_psd.

(* ---------------------------------------------------------------- non-vacuity *)
(* a NON-symmetric kernel: the square matrix is symmetric anyway and differs from the kernel below the diagonal *)
Example square_nonsymmetric_kernel :
  square_kernel_matrix (tab [[1; 2; 3]; [4; 5; 6]; [7; 8; 9]]) O [0; 1; 2]%nat true
  = Some [[1; 2; 3]; [2; 1; 6]; [3; 6; 1]].
Proof. vm_compute. reflexivity. Qed.

(* an indefinite matrix with exact rational spectral form satisfying all hypotheses *)
Example spectral_hypotheses_satisfiable :
  spectral_ok [-(1); 2] [[3 # 5; 4 # 5]; [-(4 # 5); 3 # 5]] [[23 # 25; 36 # 25]; [36 # 25; 2 # 25]] = true.
Proof. vm_compute. reflexivity. Qed.

(* DOCUMENTATION DISCREPANCY (target_alignment docstring): the documented denominator sqrt(sum_ij y_i y_j) is not
   what the code (and the literature) uses, sqrt(sum_ij (y_i y_j)^2); for the docstring's own labels the
   documented sum is 0 while the implemented one is 16 *)
Example alignment_docstring_denominator_differs :
  let y := fun i => nth i [-(1); -(1); 1; 1] 0 in
  sumn 4 (fun i => sumn 4 (fun j => y i * y j)) == 0 /\
  sumn 4 (fun i => sumn 4 (fun j => (y i * y j) * (y i * y j))) == 16.
Proof. split; vm_compute; reflexivity. Qed.
