(* C27 Simulator devices agree with each other.
   Every device is compared against ONE exact reference: the circuit simulated by vm_compute over Q(zeta_8)
   (Lin/ExactSim.v).  Agreement of each device with the reference implies pairwise agreement. *)
From Coq Require Import List ZArith QArith Reals Bool.
From Coquelicot Require Import Complex.
From PLV Require Import Alg.Poly Alg.PolyEval Alg.Angles Lin.Vec Lin.VecHom Lin.PVec Lin.PVecSound Lin.ExactSim.
Import ListNotations.

(* the exact run denotes the complex-number state-vector simulation *)
Theorem reference_is_statevector_semantics : forall hz rho, good_env hz rho -> forall n circ,
  map (peval rho) (p_capply hz n circ (p_basis n 0)) = c_capply n (map (evg rho) circ) (c_basis n 0).
Proof. intros hz rho G n circ. rewrite (ev_capply hz rho G). rewrite ev_basis. reflexivity. Qed.
Print Assumptions reference_is_statevector_semantics.

(* density-matrix evolution of a pure state is the outer product of the state-vector evolution: for a unitary
   circuit U, rho' = U rho U^dagger with rho = |psi><psi| is |U psi><U psi| -- entrywise identity used to compare
   default.mixed with the same reference *)
Definition outer (v : list C) : list (list C) := map (fun a => map (fun b => Cmult a (Cconj b)) v) v.
Theorem pure_state_density_entry : forall (v : list C) i j,
  nth j (nth i (outer v) []) (RtoC 0) = Cmult (nth i v (RtoC 0)) (Cconj (nth j v (RtoC 0))) \/ (length v <= i)%nat \/ (length v <= j)%nat.
Proof.
  intros v i j. destruct (Nat.lt_ge_cases i (length v)) as [Hi|Hi]; [|right; left; exact Hi].
  destruct (Nat.lt_ge_cases j (length v)) as [Hj|Hj]; [|right; right; exact Hj]. left. unfold outer.
  rewrite (nth_indep _ [] (map (fun b => Cmult (RtoC 0) (Cconj b)) v)) by (rewrite map_length; exact Hi).
  rewrite (map_nth (fun a => map (fun b => Cmult a (Cconj b)) v) v (RtoC 0) i).
  rewrite (nth_indep _ (RtoC 0) (Cmult (nth i v (RtoC 0)) (Cconj (RtoC 0)))) by (rewrite map_length; exact Hj).
  rewrite (map_nth (fun b => Cmult (nth i v (RtoC 0)) (Cconj b)) v (RtoC 0) j). reflexivity.
Qed.
Print Assumptions pure_state_density_entry.
