(* C45 Wires behave as an ordered set of labels.
   Statements only; every proof is `exact <lemma>` from Disc/WiresProofs.v.
   Labels are Z codes (decidable equality = Python's hash-and-== identification); a Wires object is its
   tuple of labels; None = an exception is raised. *)
From Coq Require Import List ZArith Bool.
From PLV Require Import Disc.WiresModel Disc.WiresProofs.
Import ListNotations.
Open Scope Z_scope.

(* ---------------- Wires objects reject duplicates ---------------- *)
(* Wires(a) succeeds iff the label sequence denoted by a (a list, a single label, a string, another
   Wires) has no repeated label, and then stores exactly that sequence *)
Theorem wires_accept_iff_nodup : forall a l, mkwires a = Some l <-> NoDup (arg_labels a) /\ l = arg_labels a.
Proof. exact mkwires_spec. Qed.
Print Assumptions wires_accept_iff_nodup.

Theorem wires_reject_duplicates : forall l, mkwires (AList l) = None <-> ~ NoDup l.
Proof. exact wires_reject_iff. Qed.
Print Assumptions wires_reject_duplicates.

(* ---------------- all_wires / + ---------------- *)
(* all_wires never fails on Wires operands, has no repeated label and contains exactly the union *)
Theorem all_wires_is_union : forall ll, exists r, all_wires (map AWires ll) = Some r /\ NoDup r /\
  (forall w, In w r <-> exists l, In l ll /\ In w l).
Proof. exact all_wires_api. Qed.
Print Assumptions all_wires_is_union.

(* first-occurrence order: the result for l1 ++ l2 is the result for l1 followed by those labels of the
   result for l2 that are new; together with the one-operand case this determines the order completely *)
Theorem all_wires_first_occurrence_order : forall l1 l2 r1 r2,
  all_wires (map AWires l1) = Some r1 -> all_wires (map AWires l2) = Some r2 ->
  all_wires (map AWires (l1 ++ l2)) = Some (r1 ++ filter (fun w => negb (mem w r1)) r2).
Proof. exact all_wires_order_api. Qed.
Print Assumptions all_wires_first_occurrence_order.

Theorem all_wires_single_operand : forall l, NoDup l -> all_wires [AWires l] = Some l.
Proof. exact all_wires_single_api. Qed.
Print Assumptions all_wires_single_operand.

(* w + other and other + w *)
Theorem add_keeps_left_then_new : forall self other o, NoDup self -> mkwires other = Some o ->
  add self other = Some (self ++ filter (fun w => negb (mem w self)) o)
  /\ radd self other = Some (o ++ filter (fun w => negb (mem w o)) self).
Proof. exact add_spec. Qed.
Print Assumptions add_keeps_left_then_new.

(* ---------------- shared_wires ---------------- *)
(* the first operand, in its order, restricted to the labels present in every other operand *)
Theorem shared_wires_is_ordered_intersection : forall l0 r,
  shared_wires (map AWires (l0 :: r)) = Some (filter (fun w => forallb (mem w) r) l0).
Proof. exact shared_api. Qed.
Print Assumptions shared_wires_is_ordered_intersection.

Theorem shared_wires_members : forall l0 r s w, shared_wires (map AWires (l0 :: r)) = Some s ->
  (In w s <-> forall l, In l (l0 :: r) -> In w l).
Proof. exact shared_In_api. Qed.
Print Assumptions shared_wires_members.

(* ---------------- unique_wires (the seen_once / seen_ever loop) ---------------- *)
(* the concatenation of the operands, in order, restricted to labels contained in exactly one operand
   (cnt ll w = number of operands that contain w) *)
Theorem unique_wires_is_count_one : forall ll,
  unique_wires (map AWires ll) = Some (filter (fun w => (cnt ll w =? 1)%nat) (concat ll)).
Proof. exact unique_api. Qed.
Print Assumptions unique_wires_is_count_one.

Theorem unique_wires_members : forall ll u w, unique_wires (map AWires ll) = Some u ->
  (In w u <-> exists p l s, ll = p ++ l :: s /\ In w l /\ (forall l', In l' (p ++ s) -> ~ In w l')).
Proof. exact unique_In_api. Qed.
Print Assumptions unique_wires_members.

(* ---------------- set operations (results are sets: order unspecified) ---------------- *)
(* whenever the right operand is acceptable to _process (o = its labels), the operation succeeds, the
   result has no repeated label and its members are exactly the set-theoretic ones; self may be ANY
   label tuple (even one with repeats obtained through subset) *)
Theorem union_is_set_union : forall self other o, process other = Some o ->
  exists u, union self other = Some u /\ NoDup u /\ forall w, In w u <-> In w self \/ In w o.
Proof. exact union_spec. Qed.
Print Assumptions union_is_set_union.

Theorem intersection_is_set_intersection : forall self other o, process other = Some o ->
  exists u, intersection self other = Some u /\ NoDup u /\ forall w, In w u <-> In w self /\ In w o.
Proof. exact intersection_spec. Qed.
Print Assumptions intersection_is_set_intersection.

Theorem difference_is_set_difference : forall self other o, process other = Some o ->
  exists u, difference self other = Some u /\ NoDup u /\ forall w, In w u <-> In w self /\ ~ In w o.
Proof. exact difference_spec. Qed.
Print Assumptions difference_is_set_difference.

Theorem symmetric_difference_is_set_xor : forall self other o, process other = Some o ->
  exists u, symmetric_difference self other = Some u /\ NoDup u /\
            forall w, In w u <-> (In w self /\ ~ In w o) \/ (In w o /\ ~ In w self).
Proof. exact symdiff_spec. Qed.
Print Assumptions symmetric_difference_is_set_xor.

(* the reflected operators other - w and other ^ w *)
Theorem reflected_difference_is_set_difference : forall self other o, process other = Some o ->
  exists u, rsub self other = Some u /\ NoDup u /\ forall w, In w u <-> In w o /\ ~ In w self.
Proof. exact rsub_spec. Qed.
Print Assumptions reflected_difference_is_set_difference.

Theorem reflected_xor_is_set_xor : forall self other o, process other = Some o ->
  exists u, rxor self other = Some u /\ NoDup u /\
            forall w, In w u <-> (In w o /\ ~ In w self) \/ (In w self /\ ~ In w o).
Proof. exact rxor_spec. Qed.
Print Assumptions reflected_xor_is_set_xor.

(* ---------------- index / indices agree with the label order ---------------- *)
(* index returns j iff position j holds the label and no earlier position does *)
Theorem index_is_first_position : forall l x j, index_lbl l x = Some j <->
  0 <= j /\ nth_error l (Z.to_nat j) = Some x /\ forall m, (m < Z.to_nat j)%nat -> nth_error l m <> Some x.
Proof. exact index_spec. Qed.
Print Assumptions index_is_first_position.

(* on a duplicate-free Wires, index inverts indexing *)
Theorem index_inverts_getitem : forall l x n, NoDup l -> nth_error l n = Some x -> index_lbl l x = Some (Z.of_nat n).
Proof. exact index_nodup. Qed.
Print Assumptions index_inverts_getitem.

Theorem index_fails_iff_absent : forall l x, index_lbl l x = None <-> ~ In x l.
Proof. exact index_none. Qed.
Print Assumptions index_fails_iff_absent.

(* index(Wires) looks up the single label of a length-1 Wires and fails for every other length *)
Theorem index_of_wires_argument : forall l o, index l (IWires o) = match o with [x] => index_lbl l x | _ => None end.
Proof. exact index_wires. Qed.
Print Assumptions index_of_wires_argument.

(* indices is index pointwise over what iterating the argument yields, in that order *)
Theorem indices_is_pointwise_index : forall self a r, indices self a = Some r <->
  Forall2 (fun w j => index_lbl self w = Some j) (iter_labels a) r.
Proof. exact indices_spec. Qed.
Print Assumptions indices_is_pointwise_index.

Theorem indices_fails_iff_some_absent : forall self a, indices self a = None <->
  exists w, In w (iter_labels a) /\ ~ In w self.
Proof. exact indices_none. Qed.
Print Assumptions indices_fails_iff_some_absent.

(* ---------------- map ---------------- *)
(* map succeeds with r iff r is the pointwise image of the labels, in order, and r has no repeats *)
Theorem map_is_pointwise_image : forall self m r, map_wires self m = Some r <->
  Forall2 (fun w v => lookup m w = Some v) self r /\ NoDup r.
Proof. exact map_spec. Qed.
Print Assumptions map_is_pointwise_image.

Theorem map_rejects_non_injective : forall self m w1 w2 v, In w1 self -> In w2 self -> w1 <> w2 ->
  lookup m w1 = Some v -> lookup m w2 = Some v -> map_wires self m = None.
Proof. exact map_injective_guard. Qed.
Print Assumptions map_rejects_non_injective.

Theorem map_rejects_missing_key : forall self m w, In w self -> lookup m w = None -> map_wires self m = None.
Proof. exact map_missing_key. Qed.
Print Assumptions map_rejects_missing_key.

(* ---------------- subset ---------------- *)
(* without periodic boundary: succeeds with r iff every index lies in [-n, n) and r lists, in the order of
   the indices, the labels at those positions (Python indexing: position i mod n) *)
Theorem subset_follows_indices : forall l idx r, subset l (XList idx) false = Some r <->
  Forall2 (fun i w => - lenZ l <= i < lenZ l /\ nth_error l (Z.to_nat (i mod lenZ l)) = Some w) idx r.
Proof. exact subset_spec. Qed.
Print Assumptions subset_follows_indices.

Theorem subset_rejects_out_of_range : forall l idx, subset l (XList idx) false = None <->
  exists i, In i idx /\ ~ (- lenZ l <= i < lenZ l).
Proof. exact subset_reject. Qed.
Print Assumptions subset_rejects_out_of_range.

(* with periodic boundary on non-empty wires: always succeeds, label at position i mod n for ANY integer i *)
Theorem subset_periodic_boundary : forall l idx, l <> [] ->
  exists r, subset l (XList idx) true = Some r /\
            Forall2 (fun i w => nth_error l (Z.to_nat (i mod lenZ l)) = Some w) idx r.
Proof. exact subset_periodic_spec. Qed.
Print Assumptions subset_periodic_boundary.

Theorem subset_periodic_is_mod : forall l idx, l <> [] ->
  subset l (XList idx) true = subset l (XList (map (fun i => i mod lenZ l) idx)) false.
Proof. exact subset_periodic. Qed.
Print Assumptions subset_periodic_is_mod.

Theorem subset_single_index : forall l i p, subset l (XInt i) p = subset l (XList [i]) p.
Proof. exact subset_int. Qed.
Print Assumptions subset_single_index.

(* ---------------- equality and hashing respect order ---------------- *)
Theorem eq_iff_same_labels_in_order : forall a b, weq a b = true <-> a = b.
Proof. exact weq_spec. Qed.
Print Assumptions eq_iff_same_labels_in_order.

Theorem eq_distinguishes_order : forall x y, x <> y -> weq [x; y] [y; x] = false.
Proof. exact weq_order. Qed.
Print Assumptions eq_distinguishes_order.

(* hash(w) is a function of the labels tuple (wires.py: hash(self._labels); the driver checks this on
   every Wires object it sees), hence equal Wires hash equally, whatever that function is *)
Theorem eq_implies_same_hash : forall (h : list Z -> Z) a b, weq a b = true -> h a = h b.
Proof. exact hash_respects_eq. Qed.
Print Assumptions eq_implies_same_hash.

Theorem contains_wires_is_subset_test : forall self o, contains_wires self (AWires o) = true <-> incl o self.
Proof. exact contains_wires_spec. Qed.
Print Assumptions contains_wires_is_subset_test.

(* ---------------- non-vacuity: the hypotheses above are satisfiable, on the docstring examples ---------------- *)
Example docstring_examples :
  mkwires (AList [4; 0; 1]) = Some [4; 0; 1] /\ mkwires (AList [4; 0; 4]) = None /\
  all_wires (map AWires [[4; 0; 1]; [3; 0; 4]; [5; 3]]) = Some [4; 0; 1; 3; 5] /\
  shared_wires (map AWires [[3; 0; 4]; [4; 0; 1]; [4; 0]]) = Some [0; 4] /\
  unique_wires (map AWires [[4; 0; 1]; [0; 2; 3]; [5; 3]]) = Some [4; 1; 2; 5] /\
  process (AWires [3; 4; 5]) = Some [3; 4; 5] /\
  option_map sortZ (symmetric_difference [1; 2; 3] (AWires [3; 4; 5])) = Some [1; 2; 4; 5] /\
  indices [4; 0; 1] (AList [1; 4]) = Some [2; 0] /\
  map_wires [10; 11; 12] [(10, 4); (11, 2); (12, 3)] = Some [4; 2; 3] /\
  map_wires [10; 11] [(10, 4); (11, 4)] = None /\
  subset [4; 0; 1; 5; 6] (XList [2; 3; 0]) false = Some [1; 5; 4] /\
  subset [4; 0; 1; 5; 6] (XList [5; 1; 7]) true = Some [4; 0; 1] /\
  subset [4; 0; 1] (XList [3]) false = None /\
  weq [0; 1] [1; 0] = false.
Proof. vm_compute. repeat split. Qed.

Example hyps_satisfiable : NoDup [4; 0; 1] /\ [4; 0; 1] <> [] /\ cnt [[4; 0; 1]; [0; 2; 3]; [5; 3]] 4 = 1%nat.
Proof. split; [repeat constructor; simpl; intuition discriminate | split; [discriminate | reflexivity]]. Qed.
