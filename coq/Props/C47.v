(* C47 Resource estimation composes additively.
   Statements only; every proof is `exact <lemma>` from Disc/EstimatorProofs.v.
   All statements hold for EVERY decomposition oracle D (what the operator classes return), gate set gs,
   fuel bound f, workflow and allocate/free history. *)
From Coq Require Import List ZArith Bool.
From PLV Require Import Disc.EstimatorModel Disc.EstimatorProofs.
Import ListNotations.
Open Scope Z_scope.

(* the count of every gate x in a successful estimate is the pure weight of the workflow:
   sum over (operator, scalar) of scalar * (occurrences of x in the expansion of the operator);
   in particular it does not depend on the wire budget *)
Theorem estimate_counts_are_weights : forall D gs f w z a tb s x,
  estimate D gs f w z a tb = Ok s -> count_of (cnt s) x = weight D gs f (wf_items w) x.
Proof. exact estimate_counts. Qed.
Print Assumptions estimate_counts_are_weights.

(* gate counts of a workflow = sum of the counts of its parts (any entry points whose operator
   sequences concatenate; the three estimates may even use three different wire budgets).
   The success hypotheses are needed: with a tight budget estimate(w2) alone may raise although
   estimate(w1 ++ w2) succeeds (w1 can free wires that w2 grabs). *)
Theorem estimate_additive : forall D gs f w1 w2 w12 z1 a1 t1 z2 a2 t2 z a t s1 s2 s12,
  wf_items w12 = wf_items w1 ++ wf_items w2 ->
  estimate D gs f w12 z a t = Ok s12 ->
  estimate D gs f w1 z1 a1 t1 = Ok s1 ->
  estimate D gs f w2 z2 a2 t2 = Ok s2 ->
  forall x, count_of (cnt s12) x = count_of (cnt s1) x + count_of (cnt s2) x.
Proof. exact estimate_additive_lem. Qed.
Print Assumptions estimate_additive.

(* the loop over the workflow composes sequentially: the estimate of w1 ++ w2 is the estimate of
   w2 continued from the state (counts and wire manager) reached after w1, errors included *)
Theorem estimate_sequential : forall D gs f w1 w2 s,
  est_items D gs f (w1 ++ w2) s =
  match est_items D gs f w1 s with Ok s1 => est_items D gs f w2 s1 | Err e => Err e end.
Proof. exact est_items_app. Qed.
Print Assumptions estimate_sequential.

(* a successful estimate of a workflow implies a successful estimate of each prefix (same budget) *)
Theorem estimate_prefix_ok : forall D gs f w1 w12 z a t s12,
  (exists rest, wf_items w12 = wf_items w1 ++ rest) -> wf_algo w12 = wf_algo w1 ->
  estimate D gs f w12 z a t = Ok s12 ->
  exists s1, estimate D gs f w1 z a t = Ok s1.
Proof. exact estimate_prefix_lem. Qed.
Print Assumptions estimate_prefix_ok.

(* n copies of a workflow have n times its gate counts *)
Theorem estimate_repeat : forall D gs f n w wn z1 a1 t1 z a t s1 sn,
  wf_items wn = rep n (wf_items w) ->
  estimate D gs f wn z a t = Ok sn ->
  estimate D gs f w z1 a1 t1 = Ok s1 ->
  forall x, count_of (cnt sn) x = Z.of_nat n * count_of (cnt s1) x.
Proof. exact estimate_repeat_lem. Qed.
Print Assumptions estimate_repeat.

(* multiplying the scalar of an operator (n * op in a Resources object) multiplies its counts *)
Theorem estimate_scalar : forall D gs f r n k al al' z1 a1 t1 z a t s1 sn,
  estimate D gs f (WR al [(r, n * k)]) z a t = Ok sn ->
  estimate D gs f (WR al' [(r, k)]) z1 a1 t1 = Ok s1 ->
  forall x, count_of (cnt sn) x = n * count_of (cnt s1) x.
Proof. exact estimate_scalar_lem. Qed.
Print Assumptions estimate_scalar.

(* ---- WireResourceManager over arbitrary allocate/free histories ---- *)

(* auxiliary-wire bookkeeping never goes negative (non-negative request sizes) *)
Theorem wires_never_negative : forall h m m',
  0 <= zeroed m -> 0 <= any_state m -> Forall req_nonneg h -> run_hist h m = Some m' ->
  0 <= zeroed m' /\ 0 <= any_state m'.
Proof. exact wires_never_negative_lem. Qed.
Print Assumptions wires_never_negative.

(* ... and an error is raised exactly at the first request that meets a raise condition:
   grab_zeroed beyond the zeroed wires under a tight budget, free_wires beyond any_state *)
Theorem wires_error_exactly : forall h m,
  run_hist h m = None <->
  exists h1 r h2 m1, h = h1 ++ r :: h2 /\ run_hist h1 m = Some m1 /\
    match r with
    | RGrab n => tight m1 = true /\ zeroed m1 < n
    | RFree n => any_state m1 < n
    end.
Proof. exact wires_error_exactly_lem. Qed.
Print Assumptions wires_error_exactly.

(* reported total >= algorithmic wires, which the manager never changes *)
Theorem total_ge_algo : forall h m m',
  0 <= zeroed m -> 0 <= any_state m -> Forall req_nonneg h -> run_hist h m = Some m' ->
  algo m' = algo m /\ algo m' <= total m'.
Proof. exact total_ge_algo_lem. Qed.
Print Assumptions total_ge_algo.

(* the reported work wires (zeroed + any_state) are exactly max(pre-allocated work wires, peak
   number of simultaneously outstanding allocated wires); any_state is the net allocation.
   Hence every allocation is covered: after EVERY prefix of the history the outstanding wires fit. *)
Theorem total_accounts_all_allocs : forall h m m',
  0 <= zeroed m -> 0 <= any_state m -> Forall req_nonneg h -> run_hist h m = Some m' ->
  zeroed m' + any_state m' = Z.max (zeroed m + any_state m) (peak h (any_state m)) /\
  any_state m' = any_state m + net h /\
  forall h1 h2, h = h1 ++ h2 -> any_state m + net h1 <= total m' - algo m'.
Proof. exact total_accounts_all_allocs_lem. Qed.
Print Assumptions total_accounts_all_allocs.

(* ---- the estimator drives the manager by exactly such a history ---- *)

(* an estimate succeeds iff its pure request trace exists (all decompositions defined) and the
   manager accepts that history: errors are raised exactly when the code raises *)
Theorem estimate_ok_iff_trace_accepted : forall D gs f w z a tb,
  (exists s, estimate D gs f w z a tb = Ok s) <->
  (exists h m, trace_items D gs f (wf_items w) = Some h /\ run_hist h (mkWM z a (wf_algo w) tb) = Some m).
Proof. exact estimate_ok_iff_lem. Qed.
Print Assumptions estimate_ok_iff_trace_accepted.

(* for non-negative oracles (counts, allocation sizes), zero-control numbers and scalars, the wire
   results of every successful estimate satisfy all of the above *)
Theorem estimate_wires : forall D gs f w z a tb s,
  oracle_ok D -> items_ok (wf_items w) -> 0 <= z -> 0 <= a ->
  estimate D gs f w z a tb = Ok s ->
  exists h, trace_items D gs f (wf_items w) = Some h /\ Forall req_nonneg h /\
    run_hist h (mkWM z a (wf_algo w) tb) = Some (wm s) /\
    0 <= zeroed (wm s) /\ 0 <= any_state (wm s) /\
    algo (wm s) = wf_algo w /\ algo (wm s) <= total (wm s) /\
    zeroed (wm s) + any_state (wm s) = Z.max (z + a) (peak h a) /\
    any_state (wm s) = a + net h.
Proof. exact estimate_wires_lem. Qed.
Print Assumptions estimate_wires.

(* ---- non-vacuity: a concrete oracle, workflow and budget meeting the hypotheses ---- *)
(* code 0 = T (no decomposition, in the gate set), 1 = an operator allocating 2 wires, using 3 T, freeing 1 *)
Definition exD : oracle :=
  mkOracle (fun c => c)
           (fun c => if c =? 1 then DList [AAlloc 2; AGate (Base 0) 3; ADealloc 1] else DRaise)
           (fun _ => DNone) (fun _ _ _ => DNone) (fun _ _ => DNone) 0.

Example hyps_satisfiable :
  oracle_ok exD /\ items_ok [(Base 1, 2); (Adj (Base 0), 1)] /\
  exists s, estimate exD [NBase 0; NAdj (NBase 0)] 5 (WR 4 [(Base 1, 2); (Adj (Base 0), 1)]) 1 0 false = Ok s /\
            cnt s = [(Base 0, 6); (Adj (Base 0), 1)] /\
            zeroed (wm s) = 2 /\ any_state (wm s) = 2 /\ total (wm s) = 8.
Proof.
  split.
  - unfold oracle_ok, exD; simpl. repeat split; intros; try exact I.
    destruct (c =? 1); simpl; auto. repeat constructor; simpl; auto; discriminate.
  - split.
    + repeat constructor; simpl; auto; discriminate.
    + eexists. vm_compute. repeat split; reflexivity.
Qed.

Example additivity_instance :
  forall x, match estimate exD [NBase 0] 5 (WR 0 [(Base 1, 2); (Base 0, 1)]) 0 0 false,
                  estimate exD [NBase 0] 5 (WR 0 [(Base 1, 2)]) 9 0 true,
                  estimate exD [NBase 0] 5 (WR 0 [(Base 0, 1)]) 0 0 false with
            | Ok s12, Ok s1, Ok s2 => count_of (cnt s12) x = count_of (cnt s1) x + count_of (cnt s2) x
            | _, _, _ => False
            end.
Proof.
  intros x.
  destruct (estimate exD [NBase 0] 5 (WR 0 [(Base 1, 2); (Base 0, 1)]) 0 0 false) as [s12|] eqn:E12; [|vm_compute in E12; discriminate].
  destruct (estimate exD [NBase 0] 5 (WR 0 [(Base 1, 2)]) 9 0 true) as [s1|] eqn:E1; [|vm_compute in E1; discriminate].
  destruct (estimate exD [NBase 0] 5 (WR 0 [(Base 0, 1)]) 0 0 false) as [s2|] eqn:E2; [|vm_compute in E2; discriminate].
  eapply estimate_additive; [|exact E12|exact E1|exact E2]. reflexivity.
Qed.
