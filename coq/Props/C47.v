From Coq Require Import List ZArith Bool.
From PLV Require Import Disc.EstimatorModel Disc.EstimatorProofs.
Import ListNotations.
Open Scope Z_scope.
Theorem total_def' : forall m, total m = zeroed m + any_state m + algo m.
Proof. exact total_def. Qed.
Print Assumptions total_def'.
