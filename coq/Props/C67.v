(* C67 OpenQASM export preserves the circuit.
   Static: the OpenQASM 2 model (Disc/QasmModel.v) over the hand-written qelib1.inc table (Tab/QasmTable.v).
   Generated (coq/Gen/C67, rebuilt from /repo on every run), one triple per entry K -> g of the repo's OPENQASM_GATES:
     ob_k    : export_equiv 4 meqb "K->g" M_K (qelib_mat "g") = true   -- extracted PennyLane matrix = phase * qelib1 gate (phase: the
                 documented one of the pair, else 1 or e^{-/+ i theta_0/2}), formal angles in the same argument order
     ob_k_doc: meqb 4 M_K (qt_scale (export_phase "K->g") (qelib_mat "g")) = true    -- the same with exactly the documented phase
                 (a failure of ob_k_doc alone is reported as a note, not as a violation)
     ob_k_ph : ph_unit (export_phase_doc "K->g") = true
     ob_k_ar : qelib_arity "g" = Some (#parameters of K, #wires of K)
   Theorem export_obligation_means says what ob_k + ob_k_ph give over the reals.
   The tie of to_openqasm's text output / from_qasm3 is numeric (harness/props/c67.py). *)
From Coq Require Import List ZArith QArith Reals String Bool Lia.
From Coquelicot Require Import Complex.
From PLV Require Import Alg.Poly Alg.PolyEval Alg.Angles Lin.Vec Lin.VecHom Lin.PVec Lin.PVecSound
  Tab.TrigSyms Tab.GateTable Tab.QasmTable Disc.QasmModel Disc.QasmProofs.
Import ListNotations.

(* denotation of concatenated programs = concatenation of denotations (all programs, all register sizes) *)
Theorem program_denotation_compositional : forall nq a b,
  body_den nq (a ++ b) = match body_den nq a, body_den nq b with
                         | Some x, Some y => Some (x ++ y)
                         | _, _ => None
                         end.
Proof. exact body_den_app. Qed.
Print Assumptions program_denotation_compositional.

Theorem measured_register_compositional : forall a b, measures (a ++ b) = measures a ++ measures b.
Proof. exact measures_app. Qed.
Print Assumptions measured_register_compositional.

Theorem program_sequence_denotation : forall p q c1 m1 c2 m2,
  qp_nq q = qp_nq p -> qp_nc q = qp_nc p ->
  prog_den p = Some (c1, m1) -> prog_den q = Some (c2, m2) ->
  prog_den (seq_prog p q) = Some (c1 ++ c2, m1 ++ m2).
Proof. exact prog_den_seq. Qed.
Print Assumptions program_sequence_denotation.

(* every qelib1.inc gate body (34 gates; finite table, bound = the table), expanded one level over previously
   checked gates down to the built-ins U and CX, acts on every basis column like the matrix recorded in the table *)
Theorem qelib_bodies_ok : forallb body_ok qelib_bodies = true.
Proof. exact qelib_bodies_ok_l. Qed.
Print Assumptions qelib_bodies_ok.

Theorem qelib_table_covered : table_covered = true.
Proof. exact table_covered_l. Qed.
Print Assumptions qelib_table_covered.

(* ... and therefore does so over the complex numbers for every real value of the gate's parameters *)
Theorem qelib_body_sound : forall name body np k M circ,
  In (name, body) qelib_bodies -> qelib_entry name = Some (np, k, M) -> body_den k body = Some circ ->
  forall (thetas : list R) col, (col < 2 ^ k)%nat ->
    c_capply k (map (evg (aenv HZ DD thetas)) circ) (c_basis k col)
    = c_apply_gate k (seq 0 k) (map (map (peval (aenv HZ DD thetas))) M) (c_basis k col).
Proof. exact qelib_body_sound_l. Qed.
Print Assumptions qelib_body_sound.

(* recorded global phases are unit complex numbers for all real angles *)
Theorem phase_is_unit : forall ph, ph_unit ph = true ->
  forall th, exists a : R, peval (aenv HZ DD th) (ph_poly ph) = cis a.
Proof. exact ph_unit_denotes_l. Qed.
Print Assumptions phase_is_unit.

Theorem export_phase_unit : forall key, ph_unit (export_phase_doc key) = true.
Proof. exact export_phase_unit_l. Qed.
Print Assumptions export_phase_unit.

(* meaning of a generated obligation: for ALL real angles the PennyLane gate's matrix is e^{ia} times the QASM gate's *)
Theorem export_obligation_means : forall M N ph,
  meqb HZ M (qt_scale (ph_poly ph) N) = true -> ph_unit ph = true ->
  forall th : list R, exists a : R,
    map (map (peval (aenv HZ DD th))) M = map (map (fun x => Cmult (cis a) (peval (aenv HZ DD th) x))) N.
Proof. exact export_obligation_sound_l. Qed.
Print Assumptions export_obligation_means.

(* the form actually generated: export_equiv tries the documented phase of the pair, then 1 and e^{-/+ i theta_0/2} *)
Theorem export_equiv_means : forall key M N,
  export_equiv HZ meqb key M N = true ->
  forall th : list R, exists a : R,
    map (map (peval (aenv HZ DD th))) M = map (map (fun x => Cmult (cis a) (peval (aenv HZ DD th) x))) N.
Proof. exact export_equiv_sound_l. Qed.
Print Assumptions export_equiv_means.

(* non-vacuity: a Bell-pair program with a rotation by a formal angle and two measurements has a denotation *)
Example bell_program_denotes :
  exists c m, prog_den (QP 2 2 [QGate "h" [] [0%nat]; QGate "cx" [] [0%nat; 1%nat]; QGate "rz" [aQ 0 1 2] [1%nat];
                                QMeasure 0 0; QMeasure 1 1]) = Some (c, m)
              /\ List.length c = 3%nat /\ m = [(0, 0); (1, 1)]%nat.
Proof. eexists. eexists. vm_compute. repeat split. Qed.

(* a gate applied to a duplicated qubit, or with the wrong number of angles, has no denotation *)
Example ill_formed_rejected :
  body_den 2 [QGate "cx" [] [1%nat; 1%nat]] = None /\ body_den 2 [QGate "rx" [] [0%nat]] = None.
Proof. split; vm_compute; reflexivity. Qed.
