(* C21 Mid-circuit measurement methods agree with the exact semantics.
   Reference semantics = branch enumeration: for every outcome history b of the k mid-circuit measurements the
   circuit with measurement j replaced by the projector |b_j><b_j| (followed by X when reset and b_j = 1) and every
   classically controlled operation included iff its predicate holds on b, run EXACTLY over Q(zeta_8) inside Coq
   (Lin/ExactSim.v); postselection keeps the histories with the postselected outcomes and renormalises;
   results are branch sums.  Generated obligation per circuit: the squared norms of all 2^k branch states
   sum to one (probs_total_one): the histories are exhaustive and exclusive. *)
From Coq Require Import List ZArith QArith Reals Bool.
From Coquelicot Require Import Complex.
From PLV Require Import Alg.Poly Alg.PolyEval Alg.Angles Lin.Vec Lin.VecHom Lin.PVec Lin.PVecSound.
Import ListNotations.

Theorem branch_state_is_linear_evolution : forall hz rho, good_env hz rho -> forall n circ,
  map (peval rho) (p_capply hz n circ (p_basis n 0)) = c_capply n (map (evg rho) circ) (c_basis n 0).
Proof. intros hz rho G n circ. rewrite (ev_capply hz rho G). rewrite ev_basis. reflexivity. Qed.
Print Assumptions branch_state_is_linear_evolution.

Theorem branch_weights_total_one : forall hz rho, good_env hz rho -> forall states, probs_total_one hz states = true ->
  c_norms_total (map (map (peval rho)) states) = RtoC 1.
Proof. exact probs_total_one_sound. Qed.
Print Assumptions branch_weights_total_one.

(* the two projectors of a computational-basis measurement resolve the identity: P0 + P1 = I, P_b P_b = P_b, P0 P1 = 0 *)
Definition pP0 : pmat := [[pone; pzero]; [pzero; pzero]].
Definition pP1 : pmat := [[pzero; pzero]; [pzero; pone]].
Theorem projectors_resolve_identity :
  meqb 4 (p_madd 4 pP0 pP1) (p_mident 2) = true /\ meqb 4 (p_mmul 4 pP0 pP0) pP0 = true /\
  meqb 4 (p_mmul 4 pP1 pP1) pP1 = true /\ meqb 4 (p_mmul 4 pP0 pP1) [[pzero; pzero]; [pzero; pzero]] = true.
Proof. repeat split; vm_compute; reflexivity. Qed.
Print Assumptions projectors_resolve_identity.
