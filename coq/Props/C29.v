From PLV Require Import Disc.SamplingModel Disc.SamplingProofs.
Theorem placeholder : True. Proof. exact placeholder_true. Qed.
