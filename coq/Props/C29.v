(* C29 Finite-shot sampling follows the Born rule -- the LOGIC half.
   Statements only; every proof is `exact <lemma>` from Disc/SamplingProofs.v.
   The random generator is an oracle: a list of rational uniform variates u (type Q) in [0,1).
   A probability vector is a list of integer weights w (p_k = w_k / sum w).
   The statistical half of the property (the real PRNGs produce the Born distribution) is a TEST
   in harness/props/c29.py, not a theorem. *)
From Coq Require Import List ZArith Bool QArith Lia.
From PLV Require Import Disc.SamplingModel Disc.SamplingProofs.
From PLV Require Disc.ShotsModel.
Import ListNotations.
Open Scope Z_scope.

(* index <-> bitstring: inverse maps, for every number of wires *)
Theorem bits_of_index_bijective :
  (forall n k, 0 <= k < 2 ^ Z.of_nat n ->
     length (bits_of_index n k) = n /\ index_of_bits (bits_of_index n k) = k) /\
  (forall bs, 0 <= index_of_bits bs < 2 ^ Z.of_nat (length bs) /\
              bits_of_index (length bs) (index_of_bits bs) = bs).
Proof.
  split; [intros n k H; split; [apply bits_length | now apply index_of_bits_of_index]
         | intros bs; split; [apply index_range | apply bits_of_index_of_bits]].
Qed.
Print Assumptions bits_of_index_bijective.

(* big-endian: column j of the sample is bit n-1-j of the basis-state index (wire 0 = most significant) *)
Theorem bits_are_big_endian : forall n k j, (j < n)%nat ->
  nth j (bits_of_index n k) false = Z.testbit k (Z.of_nat (n - 1 - j)).
Proof. exact bits_big_endian. Qed.
Print Assumptions bits_are_big_endian.

(* pushforward: choice returns k exactly for u in [cdf k, cdf (k+1)), an interval of length p_k *)
Theorem pushforward_exact : forall w u k, nonneg w -> 0 < sumZ w -> (0 <= u)%Q -> (k < length w)%nat ->
  (choice_idx w u = Z.of_nat k <-> (cdf w k <= u)%Q /\ (u < cdf w (S k))%Q) /\
  (cdf w (S k) - cdf w k == prob w k)%Q.
Proof. intros w u k H1 H2 H3 H4. split; [now apply choice_interval_lemma | apply interval_length_lemma]. Qed.
Print Assumptions pushforward_exact.

(* every u in [0,1) selects exactly one outcome, it is in range, and it never has probability 0 *)
Theorem choice_total : forall w u, nonneg w -> 0 < sumZ w -> unit_interval u ->
  (exists k, (k < length w)%nat /\ choice_idx w u = Z.of_nat k /\ 0 < nth k w 0) /\
  (exists! k, (k < length w)%nat /\ (cdf w k <= u)%Q /\ (u < cdf w (S k))%Q).
Proof.
  intros w u H1 H2 H3. split; [|now apply choice_unique_lemma].
  destruct (choice_total_lemma w u H1 H2 H3) as (k & Hk & E). exists k. split; [assumption|]. split; [assumption|].
  exact (choice_positive_lemma w u k H1 H2 (proj1 H3) Hk E).
Qed.
Print Assumptions choice_total.

(* marginalisation onto any wire list: total mass preserved; entry j = sum over the basis states whose
   measured wires spell j (the unmeasured bits are summed out); entries stay non-negative *)
Theorem marginal_sums : forall n mw w, length w = (2 ^ n)%nat ->
  sumZ (marginal n mw w) = sumZ w /\
  length (marginal n mw w) = (2 ^ length mw)%nat /\
  (nonneg w -> nonneg (marginal n mw w)) /\
  (forall j, 0 <= j < 2 ^ Z.of_nat (length mw) ->
     nth (Z.to_nat j) (marginal n mw w) 0 =
     sumZ (map snd (filter (fun kw => index_of_bits (select mw (bits_of_index n (fst kw))) =? j)
                           (combine (basis_states n) w)))).
Proof.
  intros n mw w H. split; [now apply marginal_total|]. split; [apply marginal_length|].
  split; [apply marginal_nonneg | intros j Hj; now apply marginal_entry].
Qed.
Print Assumptions marginal_sums.

(* counts of one bin total the number of samples in it (wire counts and observable counts) *)
Theorem counts_total_is_shots : forall n ws all rows l, Forall (fun r => length r = n) rows ->
  process n (MCounts ws all) rows = RCounts l -> sumZ (map snd l) = lenZ rows.
Proof. exact counts_total_lemma. Qed.
Print Assumptions counts_total_is_shots.

Theorem counts_obs_total_is_shots : forall n ws eigs all rows l, Forall (fun r => length r = n) rows ->
  length eigs = (2 ^ cols n ws)%nat ->
  process n (MCountsObs ws eigs all) rows = RCounts l ->
  sumZ (map snd l) = lenZ rows /\ Forall (fun kc => In (fst kc) eigs) l.
Proof. exact counts_obs_total_lemma. Qed.
Print Assumptions counts_obs_total_is_shots.

(* the per-bin slices concatenate to the whole sample array, their sizes are the shot vector,
   and the bins are those of C44's model of Shots.bins() *)
Theorem bins_partition_samples : forall (rows : list (list bool)) sv, nonneg sv -> lenZ rows = sumZ sv ->
  concat (map (slice rows) (bins_from 0 sv)) = rows /\
  map (fun b => lenZ (slice rows b)) (bins_from 0 sv) = sv /\
  length (bins_from 0 sv) = length sv /\
  bins_from 0 sv = Disc.ShotsModel.bins_from 0 sv.
Proof.
  intros rows sv H1 H2. destruct (bins_partition_lemma rows sv H1 H2) as (A & B & C).
  split; [exact A|]. split; [exact B|]. split; [exact C|]. apply bins_same_as_C44.
Qed.
Print Assumptions bins_partition_samples.

(* every eigenvalue sample is a member of the eigenvalue list (fast path 1-2b and lookup alike) *)
Theorem samples_are_valid_eigenvalues : forall n ws eigs rows l, Forall (fun r => length r = n) rows ->
  length eigs = (2 ^ cols n ws)%nat ->
  process n (MSampleObs ws eigs) rows = REig l -> Forall (fun v => In v eigs) l /\ length l = length rows.
Proof. exact eig_samples_valid_lemma. Qed.
Print Assumptions samples_are_valid_eigenvalues.

(* sample_state end to end: shots rows, each a bitstring over the sampled wires whose marginal
   probability is positive *)
Theorem sample_state_valid : forall be n D w wires shots us rows rest,
  0 <= shots -> 0 < sumZ w -> Forall unit_interval us ->
  sample_state be n D w wires shots us = Ok (rows, rest) ->
  lenZ rows = shots /\
  Forall (fun row => length row = length (wires_or_all n wires) /\
                     0 < nth (Z.to_nat (index_of_bits row)) (marginal n (wires_or_all n wires) w) 0) rows.
Proof. exact sample_state_valid_lemma. Qed.
Print Assumptions sample_state_valid.

(* measure_with_samples (one group) end to end: one result row per shot-vector entry and every counts
   dictionary in bin i totals sv[i] *)
Theorem measure_counts_per_bin : forall be n D w sv mps us part bins,
  nonneg sv -> 0 < sumZ w -> Forall unit_interval us ->
  measure be n D w sv mps us = Ok (part, bins) ->
  length bins = length sv /\
  forall i s bin j ws all l, nth_error sv i = Some s -> nth_error bins i = Some bin ->
    nth_error mps j = Some (MCounts ws all) -> nth_error bin j = Some (RCounts l) ->
    sumZ (map snd l) = s.
Proof. exact measure_counts_lemma. Qed.
Print Assumptions measure_counts_per_bin.

(* non-vacuity: a normalised 2-wire state, a shot vector (2,1) and three admissible variates *)
Example hyps_satisfiable :
  let w := [1; 0; 2; 1] in let us := [0 # 1; 1 # 4; 3 # 4]%Q in
  nonneg w /\ 0 < sumZ w /\ Forall unit_interval us /\ nonneg [2; 1] /\
  sample_state BNumpy 2 4 w [1; 0]%nat 3 us
    = Ok ([[false; false]; [false; true]; [true; true]], []) /\
  measure BNumpy 2 4 w [2; 1] [MCounts [] false; MSampleObs [0%nat] [1; -1]] us
    = Ok (true, [[RCounts [(0, 1); (2, 1)]; REig [1; -1]]; [RCounts [(3, 1)]; REig [-1]]]).
Proof.
  cbv zeta. split; [repeat constructor; lia|]. split; [reflexivity|].
  split; [repeat constructor; unfold Qle, Qlt; cbn; lia|]. split; [repeat constructor; lia|].
  split; vm_compute; reflexivity.
Qed.
