From Coq Require Import List ZArith Bool.
From PLV Require Import Disc.ResourceCountModel Disc.ResourceCountProofs.
Theorem stub : True. Proof. exact stub_true. Qed.
Print Assumptions stub.
