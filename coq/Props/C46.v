(* C46 Resource counts report what the circuit contains.
   Statements only; every proof is `exact <lemma>` from Disc/ResourceCountProofs.v.
   Model: Disc/ResourceCountModel.v (circuit = list of gates + measurements; summaries as tape.specs reports them). *)
From Coq Require Import List ZArith Bool Lia.
From PLV Require Import Disc.ResourceCountModel Disc.ResourceCountProofs.
Import ListNotations.
Open Scope Z_scope.

(* ---------------------------------------------------------------- gate counts by type *)
(* every reported count is the number of operations carrying that key (name, control prefix); absent keys read 0 *)
Theorem counts_are_occurrences : forall c k,
  cget k (gate_counts c) = Z.of_nat (length (filter (fun g => ckeyb (gkey g) k) (ops c))).
Proof. intros c k; exact (count_occ_spec gkey k (ops c)). Qed.
Print Assumptions counts_are_occurrences.

(* the reported dictionary has pairwise distinct keys, and exactly the keys that occur in the circuit *)
Theorem counts_keys_exact : forall c,
  NoDup (map fst (gate_counts c)) /\ forall k, In k (map fst (gate_counts c)) <-> exists g, In g (ops c) /\ gkey g = k.
Proof. exact gate_counts_keys. Qed.
Print Assumptions counts_keys_exact.

(* sum of gate-type counts = number of gates (= total_quantum_operations) = sum of gate-size counts *)
Theorem counts_sum_to_len : forall c,
  ctotal (gate_counts c) = Z.of_nat (length (ops c)) /\ ctotal (size_counts c) = Z.of_nat (length (ops c)).
Proof. exact gate_counts_sum. Qed.
Print Assumptions counts_sum_to_len.

(* the same for ANY classification of ANY kind of item (used for measurement processes) *)
Theorem count_by_sums_and_counts : forall (A : Type) (f : A -> ckey) (l : list A),
  ctotal (count_by f l) = Z.of_nat (length l) /\
  forall k, cget k (count_by f l) = Z.of_nat (length (filter (fun x => ckeyb (f x) k) l)).
Proof. intros A f l; split; [exact (count_total f l) | intros k; exact (count_occ_spec f k l)]. Qed.
Print Assumptions count_by_sums_and_counts.

(* ---------------------------------------------------------------- wires and parameters *)
Theorem num_wires_is_distinct_wires : forall c,
  num_wires c = Z.of_nat (length (all_wires c)) /\ NoDup (all_wires c) /\
  forall w, In w (all_wires c) <->
            (exists g, In g (ops c) /\ In w (gwires g)) \/ (exists m, In m (meass c) /\ In w (mwires m)).
Proof. exact num_wires_spec. Qed.
Print Assumptions num_wires_is_distinct_wires.

(* explicit trainable set: the number of DISTINCT indices assigned; default: all parameters (by definition) *)
Theorem num_params_is_distinct_indices : forall c l, trainable c = Some l ->
  exists d, NoDup d /\ (forall x, In x d <-> In x l) /\ num_params c = Z.of_nat (length d).
Proof. exact num_params_set. Qed.
Print Assumptions num_params_is_distinct_indices.

(* ---------------------------------------------------------------- depth *)
(* what "b depends on a" means: they share an effective wire (wire-less operations act on all wires of the tape),
   or b is conditioned on the mid-circuit measurement a *)
Theorem dependency_meaning : forall aw a b,
  glinked aw a b <-> (exists w, In w (eff aw a) /\ In w (eff aw b)) \/ (exists m, In m (gmid a) /\ In m (gcond b)).
Proof. exact glinked_iff. Qed.
Print Assumptions dependency_meaning.

(* depth >= the number of operations of ANY dependency chain (subsequence with consecutive dependent operations) *)
Theorem depth_ge_any_chain : forall c s, mcm_distinct c -> all_wires c <> [] ->
  subseq s (ops c) -> chain_rel (glinked (all_wires c)) s -> Z.of_nat (length s) <= depth c.
Proof. exact depth_ge_chain. Qed.
Print Assumptions depth_ge_any_chain.

(* ... and some chain attains it *)
Theorem depth_attained : forall c, mcm_distinct c ->
  exists s, subseq s (ops c) /\ chain_rel (glinked (all_wires c)) s /\ Z.of_nat (length s) = depth c.
Proof. exact depth_attained_chain. Qed.
Print Assumptions depth_attained.

Theorem depth_is_longest_chain : forall c, mcm_distinct c -> all_wires c <> [] ->
  (forall s, subseq s (ops c) -> chain_rel (glinked (all_wires c)) s -> Z.of_nat (length s) <= depth c) /\
  (exists s, subseq s (ops c) /\ chain_rel (glinked (all_wires c)) s /\ Z.of_nat (length s) = depth c).
Proof. exact depth_longest_chain. Qed.
Print Assumptions depth_is_longest_chain.

(* the same on the raw dependency graph (initial identity included), for any node list *)
Theorem level_recursion_is_longest_path : forall q, q <> [] -> wf_run [] q ->
  (forall t, subseq t q -> chain_rel linked t -> t <> [] -> Z.of_nat (length t) - 1 <= depth_nodes q) /\
  (exists t, subseq t q /\ chain_rel linked t /\ Z.of_nat (length t) = depth_nodes q + 1).
Proof.
  intros q Hq Hw; split; [intros t; exact (depth_nodes_ge_chain q t Hw) | exact (depth_nodes_attained q Hq Hw)].
Qed.
Print Assumptions level_recursion_is_longest_path.

Theorem depth_le_num_gates : forall c, 0 <= depth c <= Z.of_nat (length (ops c)).
Proof. intros c; split; [exact (depth_nonneg c) | exact (depth_le_gates c)]. Qed.
Print Assumptions depth_le_num_gates.

(* appending an operation that brings no new wire changes the depth by 0 or 1 *)
Theorem depth_append_bounds : forall c g, all_wires (with_op c g) = all_wires c ->
  depth c <= depth (with_op c g) <= depth c + 1.
Proof. exact depth_append. Qed.
Print Assumptions depth_append_bounds.

(* REFUTED tidy clauses (quirks of the code, shown on concrete circuits):
   - a tape without any wire has depth 0 although it contains a chain of one operation;
   - appending an operation on a NEW wire can raise the depth by 2 (the wire-less GlobalPhase starts acting on it). *)
Theorem depth_chain_bound_needs_wires_refuted :
  exists c s, depth c = 0 /\ subseq s (ops c) /\ chain_rel (glinked (all_wires c)) s /\ length s = 1%nat.
Proof.
  exists (mkCirc [gphase0] [] None), [gphase0].
  destruct depth_no_wires_example as [H1 [H2 H3]].
  split; [exact H1 | split; [exact H2 | split; [exact H3 | reflexivity]]].
Qed.
Print Assumptions depth_chain_bound_needs_wires_refuted.

Theorem depth_append_new_wire_refuted : exists c g, depth c = 0 /\ depth (with_op c g) = 2.
Proof. exists (mkCirc [gphase0] [] None), rx0. exact depth_new_wire_example. Qed.
Print Assumptions depth_append_new_wire_refuted.

(* ---------------------------------------------------------------- estimator Resources: series / parallel / scaling *)
(* wires: zeroed max, any_state sum, algo max (series) / sum (parallel); gates identical in both *)
Theorem add_wire_rules : forall x y,
  ez (add_series x y) = Z.max (ez x) (ez y) /\ ea (add_series x y) = ea x + ea y /\ el (add_series x y) = Z.max (el x) (el y) /\
  ez (add_parallel x y) = Z.max (ez x) (ez y) /\ ea (add_parallel x y) = ea x + ea y /\ el (add_parallel x y) = el x + el y /\
  egt (add_parallel x y) = egt (add_series x y).
Proof. exact add_fields. Qed.
Print Assumptions add_wire_rules.

(* gate counts add pointwise (Counter addition clamps non-positive sums to "absent") *)
Theorem add_series_adds_counts : forall x y k, NoDup (ekeys (egt x)) -> NoDup (ekeys (egt y)) ->
  eget k (egt (add_series x y)) = (if 0 <? eget k (egt x) + eget k (egt y) then eget k (egt x) + eget k (egt y) else 0) /\
  (0 <= eget k (egt x) -> 0 <= eget k (egt y) -> eget k (egt (add_series x y)) = eget k (egt x) + eget k (egt y)).
Proof. exact add_counts. Qed.
Print Assumptions add_series_adds_counts.

Theorem add_parallel_uses_at_least_series_wires : forall x y, 0 <= ez x -> 0 <= ez y -> 0 <= el x -> 0 <= el y ->
  total_wires (add_series x y) <= total_wires (add_parallel x y) <= total_wires x + total_wires y.
Proof. exact total_wires_parallel. Qed.
Print Assumptions add_parallel_uses_at_least_series_wires.

(* scaling = repeated addition (n+1 copies), observationally: same wire fields, same count for every gate *)
Theorem multiply_series_is_repeated_add : forall x n, NoDup (ekeys (egt x)) -> nonneg_counts (egt x) ->
  eres_eq (mul_series x (Z.of_nat n + 1)) (rep_series x n).
Proof. exact mul_series_is_repeated_add. Qed.
Print Assumptions multiply_series_is_repeated_add.

Theorem multiply_parallel_is_repeated_add : forall x n, NoDup (ekeys (egt x)) -> nonneg_counts (egt x) ->
  eres_eq (mul_parallel x (Z.of_nat n + 1)) (rep_parallel x n).
Proof. exact mul_parallel_is_repeated_add. Qed.
Print Assumptions multiply_parallel_is_repeated_add.

Theorem add_commutative : forall x y, NoDup (ekeys (egt x)) -> NoDup (ekeys (egt y)) ->
  eres_eq (add_series x y) (add_series y x) /\ eres_eq (add_parallel x y) (add_parallel y x).
Proof. intros x y Hx Hy; split; [exact (add_series_comm x y Hx Hy) | exact (add_parallel_comm x y Hx Hy)]. Qed.
Print Assumptions add_commutative.

Theorem add_series_associative : forall x y z,
  NoDup (ekeys (egt x)) -> NoDup (ekeys (egt y)) -> NoDup (ekeys (egt z)) ->
  nonneg_counts (egt x) -> nonneg_counts (egt y) -> nonneg_counts (egt z) ->
  eres_eq (add_series (add_series x y) z) (add_series x (add_series y z)).
Proof. exact add_series_assoc. Qed.
Print Assumptions add_series_associative.

(* ---------------------------------------------------------------- symbolic counts (resource.Expression) *)
(* + and * commute with evaluation/substitution of all variables *)
Theorem expression_add_int_consistent : forall rho e z, reval rho (xadd_int e z) = xeval rho e + z.
Proof. exact xadd_int_eval. Qed.
Print Assumptions expression_add_int_consistent.

Theorem expression_add_consistent : forall rho a b, reval rho (xadd a b) = xeval rho a + xeval rho b.
Proof. exact xadd_eval. Qed.
Print Assumptions expression_add_consistent.

Theorem expression_scale_consistent : forall rho e z, reval rho (xmul_int e z) = z * xeval rho e.
Proof. exact xmul_int_eval. Qed.
Print Assumptions expression_scale_consistent.

(* total_quantum_operations of symbolic counts evaluates to the sum of the evaluated counts *)
Theorem symbolic_total_is_sum : forall rho l,
  reval rho (fold_left radd l (XInt 0)) = fold_right (fun r a => reval rho r + a) 0 l.
Proof. exact total_eval. Qed.
Print Assumptions symbolic_total_is_sum.

(* ---------------------------------------------------------------- non-vacuity *)
(* H(0); m = measure(0); RX(1); cond(m, X)(2); GlobalPhase (wire-less); measured on wire 3 *)
Definition ex_c : circuit :=
  mkCirc [mkGate 1 [0] 0 0 [] []; mkGate 2 [0] 0 0 [7] []; mkGate 3 [1] 1 0 [] []; mkGate 4 [2] 0 0 [] [7];
          mkGate 5 [] 1 0 [] []] [mkMeas 1 false None [3] 0] (Some [0; 0; 1]).
Example hyps_satisfiable :
  mcm_distinct ex_c /\ all_wires ex_c = [0; 1; 2; 3] /\ depth ex_c = 4 /\ num_params ex_c = 2 /\
  gate_counts ex_c = [((1, 0, 0), 1); ((2, 0, 0), 1); ((3, 0, 0), 1); ((4, 0, 0), 1); ((5, 0, 0), 1)] /\
  meas_counts ex_c = [((1, 2, 1), 1)].
Proof.
  split; [unfold mcm_distinct; cbn; constructor; [intros [] | constructor] | repeat split; vm_compute; reflexivity].
Qed.

Example resources_hyps_satisfiable :
  let x := mkERes 1 2 3 [(0, 2); (5, 1)] in
  NoDup (ekeys (egt x)) /\ nonneg_counts (egt x) /\ egt (rep_series x 2) = [(0, 6); (5, 3)] /\ el (rep_parallel x 2) = 9.
Proof.
  cbn zeta. split; [cbn; repeat constructor; cbn; intuition congruence|]. split; [|split; reflexivity].
  intros k. unfold eget. cbn [egt efind]. destruct (0 =? k); [lia|]. destruct (5 =? k); lia.
Qed.
