(* C66 Local decomposition-rule contexts are isolated.
   Statements only; every proof is `exact <lemma>` from Disc/CtxRegistryProofs.v.

   Reading guide.  `run d0 f0 s` is the state of the heap/ContextVar model (Disc/CtxRegistryModel.v)
   after the global schedule s : list (thread id * action), started from the global registries
   (d0, f0); s is ANY list: any number of threads, any interleaving, any nesting.
   `seen st t` is the pair of registry objects (all rules, fixed rules) thread t reaches through the
   two ContextVars; list_decomps is a function of it (sees_determines_listing).
   `apply_act r a` is the effect of one add_decomps/_fix_decomp call on the registry pair it hits.
   `own_acts t 0 s2 = Some l` says: the enter/exit actions of t inside s2 are well bracketed (t is back
   at the depth it started s2 with, and never left the block it was in) and l is the list of calls
   t made in s2 at that depth; the actions of all other threads in s2 are unconstrained. *)
From Coq Require Import List ZArith Bool Arith.
From PLV Require Import Disc.CtxRegistryModel Disc.CtxRegistryProofs.
Import ListNotations.

(* what list_decomps returns to thread t depends only on what t reaches through its context *)
Theorem sees_determines_listing : forall st t op,
  view st t op = view_reg (fst (seen st t)) (snd (seen st t)) op.
Proof. exact view_of_seen. Qed.
Print Assumptions sees_determines_listing.

(* For ALL interleavings the shared-heap model behaves like private per-thread stacks of registry
   VALUES plus one global value (the semantics `sstep`, in which isolation holds by construction). *)
Theorem refines_private_stacks : forall d0 f0 s t,
  seen (run d0 f0 s) t = stop (srun (sinit d0 f0) s) t.
Proof. exact refinement. Qed.
Print Assumptions refines_private_stacks.

(* what t sees inside a context = snapshot at its innermost entry (= what it saw just before the
   enter) + its own later calls at that level; nothing any other thread does in s2 matters *)
Theorem view_is_own_history : forall d0 f0 s1 s2 t l,
  own_acts t 0 s2 = Some l ->
  seen (run d0 f0 (s1 ++ (t, AEnter) :: s2)) t = fold_left apply_act l (seen (run d0 f0 s1) t).
Proof. exact L_view_is_own_history. Qed.
Print Assumptions view_is_own_history.

(* the global registry (object 0) = initial + exactly the calls made by threads that were outside
   every local context at the time of the call *)
Theorem no_leak_global : forall d0 f0 s,
  cell (run d0 f0 s) 0 = fold_left apply_act (global_acts (fun _ => 0) s) (d0, f0).
Proof. exact L_no_leak_global. Qed.
Print Assumptions no_leak_global.

(* ... and that is what a thread with no open context sees (in particular after its last exit) *)
Theorem outside_sees_global : forall d0 f0 s t, depth (run d0 f0 s) t = 0 ->
  seen (run d0 f0 s) t = fold_left apply_act (global_acts (fun _ => 0) s) (d0, f0).
Proof. exact L_outside_sees_global. Qed.
Print Assumptions outside_sees_global.

(* after the exit (normal or by exception) a whole enter..exit episode of t is invisible to EVERY
   thread u (t included): everybody sees what he would see had t done nothing in between *)
Theorem exit_restores : forall d0 f0 s1 s2 t l x u,
  own_acts t 0 s2 = Some l -> (x = AExit \/ x = AExitExn) ->
  seen (run d0 f0 (s1 ++ (t, AEnter) :: s2 ++ [(t, x)])) u = seen (run d0 f0 (s1 ++ others t s2)) u.
Proof. exact L_episode_invisible. Qed.
Print Assumptions exit_restores.

(* nested block: after the exit t sees exactly what it saw before the matching enter *)
Theorem exit_restores_nested : forall d0 f0 s1 s2 t l x,
  own_acts t 0 s2 = Some l -> (x = AExit \/ x = AExitExn) -> 1 <= depth (run d0 f0 s1) t ->
  seen (run d0 f0 (s1 ++ (t, AEnter) :: s2 ++ [(t, x)])) t = seen (run d0 f0 s1) t.
Proof. exact L_exit_restores_nested. Qed.
Print Assumptions exit_restores_nested.

(* an action of t inside a local context (and any enter / exit / listing anywhere) never changes
   what another thread sees *)
Theorem other_threads_unaffected : forall d0 f0 s t u a, u <> t ->
  (bracket_or_list a = true \/ 1 <= depth (run d0 f0 s) t) ->
  seen (step (run d0 f0 s) (t, a)) u = seen (run d0 f0 s) u.
Proof. exact L_other_threads_unaffected. Qed.
Print Assumptions other_threads_unaffected.

(* list_decomps returns a copy: listing, and mutating the returned collection, changes no registry
   (definitional in the model; the tie checks it on the implementation) *)
Theorem list_copy_isolated : forall st t op r,
  step st (t, AList op) = st /\ step st (t, AListMut op r) = st.
Proof. exact L_list_copy_isolated. Qed.
Print Assumptions list_copy_isolated.

(* non-vacuity: a concrete two-thread schedule meets the hypotheses used above, and the model
   computes the expected listings *)
Example hyps_satisfiable :
  let d0 := assocD [(0%Z, [0%Z])] in
  let f0 := assocF [] in
  let a (r : Z) := AAdd 0%Z [r] in
  let s1 := [(0, AEnter); (0, a 1%Z)] in
  let s2 := [(1, a 5%Z); (0, a 2%Z); (0, AEnter); (0, AFix 0%Z 9%Z); (0, AExitExn);
             (1, AEnter); (1, a 7%Z); (0, a 1%Z)] in
  own_acts 0 0 s2 = Some [a 2%Z; a 1%Z] /\
  1 <= depth (run d0 f0 s1) 0 /\
  view (run d0 f0 (s1 ++ (0, AEnter) :: s2)) 0 0%Z = [0; 1; 2]%Z /\
  view (run d0 f0 (s1 ++ (0, AEnter) :: s2)) 1 0%Z = [0; 5; 7]%Z /\
  view (run d0 f0 (s1 ++ (0, AEnter) :: s2 ++ [(0, AExit)])) 0 0%Z = [0; 1]%Z /\
  view (run d0 f0 (s1 ++ (0, AEnter) :: s2 ++ [(0, AExit); (0, AExitExn)])) 0 0%Z = [0; 5]%Z /\
  global_acts (fun _ => 0) (s1 ++ (0, AEnter) :: s2) = [a 5%Z].
Proof. vm_compute. repeat split; auto. Qed.
