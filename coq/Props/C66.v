From PLV Require Import Disc.CtxRegistryModel.
