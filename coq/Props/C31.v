(* C31 Seeded and parallel execution is reproducible and order-preserving.
   Statements only; every proof is `exact <lemma>` from Disc/SeedExecProofs.v.
   The model (Disc/SeedExecModel.v) is DefaultQubit.execute: the numpy generator, the integer-seeded
   simulation [task], the generator-consuming simulation [sim] are arbitrary functions; the executor
   completes tasks in an arbitrary order [perm]. *)
From Coq Require Import List ZArith Bool Arith Permutation.
From PLV Require Import Disc.SeedExecModel Disc.SeedExecProofs.
Import ListNotations.

Section Statements.
  Variables (St C R : Type).
  Variable ints : St -> nat -> list Z * St.
  Variable int1 : St -> Z * St.
  Variable reseed : Z -> St.
  Variable task : C -> Z -> R.
  Variable sim : C -> St -> R * St.
  Variable dflt : R.

  (* the (circuit, seed) pairs handed to the workers and the generator state left behind are a function
     of the generator state and the batch only: the same for every two completion orders, and equal to
     "i-th circuit with the i-th drawn integer" *)
  Theorem seeds_independent_of_schedule : forall perm1 perm2 st batch,
      (p_dispatched _ _ _ (exec_par St C R ints int1 reseed task dflt perm1 st batch)
       = p_dispatched _ _ _ (exec_par St C R ints int1 reseed task dflt perm2 st batch)
       /\ p_state _ _ _ (exec_par St C R ints int1 reseed task dflt perm1 st batch)
          = p_state _ _ _ (exec_par St C R ints int1 reseed task dflt perm2 st batch))
      /\ (length (fst (ints st (length batch))) = length batch ->
          p_dispatched _ _ _ (exec_par St C R ints int1 reseed task dflt perm1 st batch)
          = pairing St C ints st batch).
  Proof.
    intros perm1 perm2 st batch; split;
      [exact (exec_par_sched_indep St C R ints int1 reseed task dflt perm1 perm2 st batch)
      | exact (exec_par_dispatched St C R ints int1 reseed task dflt perm1 st batch)].
  Qed.

  (* results are assembled in batch order whatever the completion order: for every permutation of the
     task indices the assembled list is map task over the dispatched list *)
  Theorem collect_by_index : forall perm ts,
      Permutation perm (seq 0 (length ts)) ->
      collect R dflt (length ts) (run_pool C R task perm ts)
      = map (fun cs => task (fst cs) (snd cs)) ts.
  Proof.
    intros perm ts HP.
    exact (collect_run_pool C R task dflt perm ts (perm_covers perm (length ts) HP)).
  Qed.

  Theorem parallel_results_in_batch_order : forall perm st batch,
      Permutation perm (seq 0 (length batch)) ->
      length (fst (ints st (length batch))) = length batch ->
      p_results _ _ _ (exec_par St C R ints int1 reseed task dflt perm st batch)
      = Some (map (fun cs => task (fst cs) (snd cs)) (pairing St C ints st batch)).
  Proof.
    intros perm st batch HP.
    exact (exec_par_results St C R ints int1 reseed task dflt perm st batch
             (perm_covers perm (length batch) HP)).
  Qed.

  (* two devices with the same generator state executing the same sequence of batches (serial or
     parallel steps) under ANY two schedules obtain the same dispatched seeds, the same results at
     every step and the same final generator state (induction over the sequence) *)
  Theorem same_seed_same_stream : forall steps st sched1 sched2,
      sched_ok C steps sched1 -> sched_ok C steps sched2 ->
      run_seq St C R ints int1 reseed task sim dflt st steps sched1
      = run_seq St C R ints int1 reseed task sim dflt st steps sched2.
  Proof. exact (run_seq_sched_indep St C R ints int1 reseed task sim dflt). Qed.

  (* ... and the seeds of every step are those of the schedule-free specification *)
  Theorem history_seeds_are_spec : ints_ok St ints -> forall steps st sched,
      map (s_dispatched C R) (fst (run_seq St C R ints int1 reseed task sim dflt st steps sched))
      = spec_seq St C R ints int1 reseed sim st steps.
  Proof. exact (run_seq_dispatched St C R ints int1 reseed task sim dflt). Qed.

  (* analytic results (simulation independent of the seed/generator): the parallel path returns what
     the serial path returns.  For finite shots the two paths are DIFFERENT streams in the code (the
     serial path threads the generator itself, the parallel path draws integer seeds), see the
     example below; the property only claims the analytic case. *)
  Theorem serial_equals_parallel_analytic : forall (f : C -> R),
      (forall c s, task c s = f c) -> (forall c st, fst (sim c st) = f c) ->
      forall perm st st' batch, covers perm (length batch) ->
      length (fst (ints st (length batch))) = length batch ->
      p_results _ _ _ (exec_par St C R ints int1 reseed task dflt perm st batch)
      = Some (fst (exec_ser St C R sim st' batch)).
  Proof. exact (par_equals_ser_analytic St C R ints int1 reseed task sim dflt). Qed.

  (* the serial path threads the generator: executing b1 ++ b2 = executing b1, then b2 from where b1 left it *)
  Theorem serial_threads_generator : forall b1 b2 st,
      exec_ser St C R sim st (b1 ++ b2)
      = (fst (exec_ser St C R sim st b1) ++ fst (exec_ser St C R sim (snd (exec_ser St C R sim st b1)) b2),
         snd (exec_ser St C R sim (snd (exec_ser St C R sim st b1)) b2)).
  Proof. exact (exec_ser_app St C R sim). Qed.
End Statements.
Print Assumptions seeds_independent_of_schedule.
Print Assumptions collect_by_index.
Print Assumptions parallel_results_in_batch_order.
Print Assumptions same_seed_same_stream.
Print Assumptions history_seeds_are_spec.
Print Assumptions serial_equals_parallel_analytic.
Print Assumptions serial_threads_generator.

(* non-vacuity: a concrete three-step history (two parallel steps, one serial) under two different
   schedules; and the finite-shot serial and parallel paths are different streams *)
Example history_two_schedules :
  c_run_seq ex_tables 0%Z [(true, [100; 101; 102]); (true, [103; 104]); (false, [100; 101])]%Z
            [[2; 0; 1]; [1; 0]; []]%nat
  = c_run_seq ex_tables 0%Z [(true, [100; 101; 102]); (true, [103; 104]); (false, [100; 101])]%Z
              [[0; 1; 2]; [0; 1]; []]%nat
  /\ snd (c_run_seq ex_tables 0%Z [(true, [100; 101; 102]); (true, [103; 104]); (false, [100; 101])]%Z
                    [[2; 0; 1]; [1; 0]; []]%nat) = 8%Z.
Proof. exact ex_history_schedules_agree. Qed.

Example serial_and_parallel_shot_streams_differ :
  s_results _ _ (hd {| s_dispatched := []; s_results := None |}
                    (fst (c_run_seq ex_tables 0%Z [(true, [100; 101; 102])]%Z [[0; 1; 2]]%nat)))
  <> s_results _ _ (hd {| s_dispatched := []; s_results := None |}
                       (fst (c_run_seq ex_tables 0%Z [(false, [100; 101; 102])]%Z [[]]))).
Proof. exact ex_serial_differs_from_parallel. Qed.
