(* C63 Pulse evolution matches the Schroedinger equation.   Statements only.

   Objects: matrices with entries in the QSym scalars (Laurent polynomials in zeta, zeta^hz = -1, and z_k = exp(i theta_k / D)
   with rational coefficients).  `evm (aenv hz D th) M` is M evaluated entrywise over Coquelicot's complex numbers at the real
   angles th; `upd th j y` is th with entry j set to y; `Cderive f x l` (Alg/Deriv.v) says that real and imaginary part of
   f : R -> C have derivatives fst l, snd l at x (is_derive); `cnth M r c` is entry (r,c); c_mmul is the plain matrix product.
   The elapsed time of an evolution window is the formal real variable theta_j.

   NOT proved here: uniqueness of the solution of the linear ODE (Picard-Lindeloef; standard).  The theorems say that an
   accepted closed form solves the equation with the right initial value for ALL times; that PennyLane's numerically integrated
   propagator agrees with it is the numeric tie of harness/props/c63.py. *)
From Coq Require Import List ZArith QArith Reals Bool.
From Coquelicot Require Import Coquelicot.
From PLV Require Import Alg.Poly Alg.PolyEval Alg.Angles Alg.DerivDef Alg.Deriv Lin.Vec Lin.PVec Lin.PVecSound Num.PulseModel Num.PulseProofs.
Import ListNotations.

(* soundness of the reflective checker: dU/d theta_j = -i H U entrywise at every real time x (all other variables arbitrary),
   and U(theta_j = 0) = U0 *)
Theorem solves_schrodinger_sound : forall hz D j H U U0,
  solves_schrodinger hz D j H U U0 = true ->
  forall th : list R,
    (forall x r c,
        Cderive (fun y => cnth (evm (aenv hz D (upd th j y)) U) r c) x
                (cnth (c_scale (Copp Ci) (c_mmul (evm (aenv hz D (upd th j x)) H) (evm (aenv hz D (upd th j x)) U))) r c))
    /\ evm (aenv hz D (upd th j 0%R)) U = evm (aenv hz D (upd th j 0%R)) U0.
Proof. exact PulseProofs.solves_schrodinger_sound. Qed.
Print Assumptions solves_schrodinger_sound.

(* piecewise-constant schedules: window k (generator H_k, own duration variable theta_k, single-window closed form U_k) ;
   the accumulated propagator V_k = U_k V_{k-1} (as complex matrices, for all durations) solves window k's equation in
   theta_k and starts from V_{k-1};  with V_{-1} = V0 (the identity in the generated obligations).  sched_sem unfolds to
   exactly these three statements per window. *)
Theorem piecewise_compose : forall hz D ws k V0,
  sched_ok hz D k V0 ws = true -> sched_sem hz D k V0 ws.
Proof. exact PulseProofs.piecewise_compose. Qed.
Print Assumptions piecewise_compose.

Theorem piecewise_compose_two_windows : forall hz D H1 U1 H2 U2 V0,
  sched_ok hz D 0 V0 [(H1, U1); (H2, U2)] = true ->
  let V1 := p_mmul hz U1 V0 in let V2 := p_mmul hz U2 V1 in
  sol_sem hz D 0 H1 V1 V0 /\ sol_sem hz D 1 H2 V2 V1
  /\ (forall th : list R, evm (aenv hz D th) V2
        = c_mmul (evm (aenv hz D th) U2) (c_mmul (evm (aenv hz D th) U1) (evm (aenv hz D th) V0))).
Proof. exact PulseProofs.piecewise_two. Qed.
Print Assumptions piecewise_compose_two_windows.

(* an evolution window [s, s + t] of a time-independent generator: shifting the time argument preserves derivatives
   (the closed forms are written in the elapsed time) *)
Theorem window_shift : forall (f : R -> C) s x l, Cderive f (x - s) l -> Cderive (fun y => f (y - s)%R) x l.
Proof. exact Cderive_shift. Qed.
Print Assumptions window_shift.

(* ---- parameter routing (param_routing_spec), for all lists ---- *)
(* H_a + H_b: the parameter list is the concatenation; fixed terms are concatenated *)
Theorem param_routing_spec_add : forall a b pa pb fa ra fb rb,
  ph_wf a -> ph_wf b -> ph_call a pa = Some (fa, ra) -> ph_call b pb = Some (fb, rb) ->
  ph_call (ph_add a b) (pa ++ pb) = Some (fa ++ fb, ra ++ rb).
Proof. exact ph_add_call. Qed.
Print Assumptions param_routing_spec_add.

Theorem param_routing_spec_scale : forall c a pa fa ra,
  ph_wf a -> ph_call a pa = Some (fa, ra) ->
  ph_call (ph_scale c a) pa = Some (map (zscale c) fa, map (zscale c) ra).
Proof. exact ph_scale_call. Qed.
Print Assumptions param_routing_spec_scale.

Theorem constructed_hamiltonians_are_wellformed : forall ts, ph_wf (ph_make ts).
Proof. exact ph_make_wf. Qed.
Print Assumptions constructed_hamiltonians_are_wellformed.

(* _reorder_parameters (drive / rydberg_drive): the coefficient list of a sum of drives and plain terms is a concatenation
   of blocks; each block consumes its own parameters: callable amplitude AND phase -> (amplitude, phase) handed to both the
   cos and the sin coefficient; one callable -> its parameter to both; plain callable -> its parameter *)
Theorem param_routing_spec_reorder : forall bs pss i,
  List.Forall block_ok bs -> List.Forall2 (fun b ps => length ps = block_arity b) bs pss ->
  reorder_ap i i (concat (map block_coeffs bs)) (concat pss) = Some (routes bs pss).
Proof. exact reorder_ap_blocks. Qed.
Print Assumptions param_routing_spec_reorder.

(* _reorder_AmpPhaseFreq (transmon_drive): coefficient k receives the slice of as many parameters as it has callables
   among (amplitude, phase, frequency), plain callables one parameter *)
Theorem param_routing_spec_reorder_transmon : forall cs pss,
  List.Forall2 (fun c ps => length ps = apf_arity c) cs pss ->
  reorder_apf cs (concat pss) = Some (apf_routes cs pss).
Proof. exact reorder_apf_blocks. Qed.
Print Assumptions param_routing_spec_reorder_transmon.

(* ---- non-vacuity ---- *)
Open Scope Q_scope.
(* H = (3/2) X, D = 2 (z = exp(i t/2)):  U = cos(3t/2) - i sin(3t/2) X *)
Definition exH1 : pmat := [[[]; [((3 # 2)%Q, [])]];
   [[((3 # 2)%Q, [])]; []]].
Definition exU1 : pmat := [[[((1 # 2)%Q, [0%Z; (-3)%Z]); ((1 # 2)%Q, [0%Z; 3%Z])]; [((1 # 2)%Q, [0%Z; (-3)%Z]); ((-1 # 2)%Q, [0%Z; 3%Z])]];
   [[((1 # 2)%Q, [0%Z; (-3)%Z]); ((-1 # 2)%Q, [0%Z; 3%Z])]; [((1 # 2)%Q, [0%Z; (-3)%Z]); ((1 # 2)%Q, [0%Z; 3%Z])]]].
Example commuting_instance : solves_schrodinger 2 2 0 exH1 exU1 (p_mident 2) = true.
Proof. vm_compute. reflexivity. Qed.
(* H = 3 X + 4 Z (non-commuting terms, H^2 = 25), D = 1:  U = cos(5t) - i sin(5t) (3 X + 4 Z)/5 ; then H' = 4 X - 3 Z in window 2 *)
Definition exH2 : pmat := [[[((4 # 1)%Q, [])]; [((3 # 1)%Q, [])]];
   [[((3 # 1)%Q, [])]; [((-4 # 1)%Q, [])]]].
Definition exU2 : pmat := [[[((9 # 10)%Q, [0%Z; (-5)%Z]); ((1 # 10)%Q, [0%Z; 5%Z])]; [((3 # 10)%Q, [0%Z; (-5)%Z]); ((-3 # 10)%Q, [0%Z; 5%Z])]];
   [[((3 # 10)%Q, [0%Z; (-5)%Z]); ((-3 # 10)%Q, [0%Z; 5%Z])]; [((1 # 10)%Q, [0%Z; (-5)%Z]); ((9 # 10)%Q, [0%Z; 5%Z])]]].
Definition exH3 : pmat := [[[((-3 # 1)%Q, [])]; [((4 # 1)%Q, [])]];
   [[((4 # 1)%Q, [])]; [((3 # 1)%Q, [])]]].
Definition exU3 : pmat := [[[((1 # 5)%Q, [0%Z; 0%Z; (-5)%Z]); ((4 # 5)%Q, [0%Z; 0%Z; 5%Z])]; [((2 # 5)%Q, [0%Z; 0%Z; (-5)%Z]); ((-2 # 5)%Q, [0%Z; 0%Z; 5%Z])]];
   [[((2 # 5)%Q, [0%Z; 0%Z; (-5)%Z]); ((-2 # 5)%Q, [0%Z; 0%Z; 5%Z])]; [((4 # 5)%Q, [0%Z; 0%Z; (-5)%Z]); ((1 # 5)%Q, [0%Z; 0%Z; 5%Z])]]].
Example pythagorean_instance : solves_schrodinger 2 1 0 exH2 exU2 (p_mident 2) = true.
Proof. vm_compute. reflexivity. Qed.
Example schedule_instance : sched_ok 2 1 0 (p_mident 2) [(exH2, exU2); (exH3, exU3)] = true.
Proof. vm_compute. reflexivity. Qed.
(* the checker is not vacuous: the wrong sign (U for -H) is rejected *)
Example wrong_sign_rejected : solves_schrodinger 2 1 0 exH3 (p_madj exU3) (p_mident 2) = false.
Proof. vm_compute. reflexivity. Qed.
