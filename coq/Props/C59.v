(* C59 Fourier analysis tools are sound.
   Statements only; every proof is `exact <lemma>` from Num/FourierProofs.v.
   InQ x l  = x is (==) a member of the list l of rationals;  nonneg l = all members >= 0;
   ssorted l = strictly increasing (sorted, no duplicates);  mirror / join_nn / get_spectrum are the
   transcriptions of circuit_spectrum / utils.join_spectra / utils.get_spectrum. *)
From Coq Require Import List ZArith QArith Qabs Bool.
From PLV Require Import Num.FourierModel Num.FourierProofs.
Import ListNotations.
Open Scope Q_scope.

(* ---- (a) spectra ---- *)
(* the sumset: x is a member iff it is a sum u+v; the result is sorted with duplicates removed *)
Theorem join_spectra_is_sumset : forall a b x,
  (InQ x (sumset a b) <-> exists u v, In u a /\ In v b /\ x == u + v) /\ ssorted (sumset a b).
Proof. intros a b x; split; [exact (sumset_spec_In x a b) | exact (setQ_ssorted (sums a b))]. Qed.
Print Assumptions join_spectra_is_sumset.

(* what the code really does (non-negative half spectra, {0} short cuts, sums and |differences|, then
   "[-f for f in spec[:0:-1]] + spec") is the sumset of the two full symmetric spectra *)
Theorem implementation_join_is_sumset : forall a b x, nonneg a -> nonneg b -> InQ 0 a -> InQ 0 b ->
  (InQ x (mirror (join_nn a b)) <-> InQ x (sumset (mirror a) (mirror b))).
Proof. intros a b x; exact (mirror_join_sumset x a b). Qed.
Print Assumptions implementation_join_is_sumset.

(* the invariants needed to iterate the previous theorem over a whole circuit *)
Theorem join_keeps_invariants : forall a b, nonneg a -> nonneg b -> nonneg (join_nn a b).
Proof. exact join_nn_nonneg. Qed.
Print Assumptions join_keeps_invariants.

(* commutative and associative: as canonical lists (entry by entry ==), hence as sets *)
Theorem join_assoc_comm : forall a b c,
  Forall2 Qeq (sumset a b) (sumset b a) /\ Forall2 Qeq (sumset (sumset a b) c) (sumset a (sumset b c)).
Proof. intros a b c; split; [exact (sumset_comm a b) | exact (sumset_assoc a b c)]. Qed.
Print Assumptions join_assoc_comm.

(* a gate's reported spectrum = all differences of two generator eigenvalues (evals ascending, as eigvalsh returns) *)
Theorem gate_spectrum_is_eigenvalue_differences : forall ev x, ev <> [] -> wsorted ev ->
  (InQ x (mirror (get_spectrum ev)) <-> exists e e', In e ev /\ In e' ev /\ x == e' - e).
Proof. intros ev x; exact (get_spectrum_spec ev x). Qed.
Print Assumptions gate_spectrum_is_eigenvalue_differences.

(* product of two finite Fourier sums: every frequency is a sum of one frequency of each factor, and the
   formal product is the product of the functions for every multiplicative character chi (e^{i w x}) *)
Theorem spectrum_of_product_circuit : forall p q f, In f (freqs (fmul p q)) ->
  (exists u v, In u (freqs p) /\ In v (freqs q) /\ f = u + v) /\ InQ f (sumset (freqs p) (freqs q)).
Proof. intros p q f H; split; [exact (freqs_fmul f p q H) | exact (freqs_fmul_sumset f p q H)]. Qed.
Print Assumptions spectrum_of_product_circuit.

Theorem product_of_fourier_sums_is_product : forall chi, (forall a b, chi (a + b) == chi a * chi b) ->
  forall p q, feval chi (fmul p q) == feval chi p * feval chi q.
Proof. exact feval_fmul. Qed.
Print Assumptions product_of_fourier_sums_is_product.

(* classical preprocessing x -> a x scales every frequency by a: for finite Fourier sums ... *)
Theorem scaling_scales_frequencies : forall a p chi,
  freqs (fscale_arg a p) = map (Qmult a) (freqs p) /\ feval chi (fscale_arg a p) = feval (fun w => chi (a * w)) p.
Proof. intros a p chi; split; [exact (freqs_fscale a p) | exact (feval_fscale chi a p)]. Qed.
Print Assumptions scaling_scales_frequencies.

(* ... and for the transcription of qnode_spectrum (half spectrum times |jac|, then mirrored) *)
Theorem implementation_scaling_scales_spectrum : forall j s x, nonneg s -> InQ 0 s ->
  (InQ x (mirror (map (Qmult (Qabs j)) s)) <-> exists u, InQ u (mirror s) /\ x == j * u).
Proof. intros j s x; exact (mirror_scale x j s). Qed.
Print Assumptions implementation_scaling_scales_spectrum.

Theorem scaling_distributes_over_join : forall c a b x,
  InQ x (scaleset c (sumset a b)) <-> InQ x (sumset (scaleset c a) (scaleset c b)).
Proof. intros c a b x; exact (scaleset_sumset c a b x). Qed.
Print Assumptions scaling_distributes_over_join.

(* ---- (b) coefficients: the DFT is exact for band-limited functions ---- *)
(* any commutative ring (R, 0, 1, +, *, -, opp), any N, any w with w^N = 1 and w^m - 1 regular (not a zero
   divisor) for 0 < m < N:  sum_j w^(j r) w^(-j q) = N [r = q] *)
Theorem dft_orthogonality : forall (R : Type) (rO rI : R) (radd rmul rsub : R -> R -> R) (ropp : R -> R),
  ring_theory rO rI radd rmul rsub ropp (@eq R) -> forall (N : nat) (w : R),
  rpow R rI rmul w N = rI ->
  (forall m, (0 < m < N)%nat -> regular R rO rmul (rsub (rpow R rI rmul w m) rI)) ->
  forall r q, (r < N)%nat -> (q < N)%nat ->
  rsum R rO radd N (fun j => rmul (rpow R rI rmul w (j * r)) (rpow R rI rmul w (j * (N - q))))
  = if Nat.eqb r q then rnat R rO rI radd N else rO.
Proof. exact orthogonality. Qed.
Print Assumptions dft_orthogonality.

(* the samples f(x_j) = sum_r c_r w^(j r) at N equidistant points (for N = 2d+1 the residues r are the
   frequencies -d..d in np.fft layout) are transformed back to N c_q: coefficients() = DFT / N is exact *)
Theorem dft_exact_bandlimited : forall (R : Type) (rO rI : R) (radd rmul rsub : R -> R -> R) (ropp : R -> R),
  ring_theory rO rI radd rmul rsub ropp (@eq R) -> forall (N : nat) (w : R) (cs : nat -> R),
  rpow R rI rmul w N = rI ->
  (forall m, (0 < m < N)%nat -> regular R rO rmul (rsub (rpow R rI rmul w m) rI)) ->
  forall q, (q < N)%nat ->
  dft R rO rI radd rmul N w (idft R rO rI radd rmul N w cs) q = rmul (rnat R rO rI radd N) (cs q).
Proof. exact dft_idft. Qed.
Print Assumptions dft_exact_bandlimited.

(* the executable model (cyclotomic coordinates, Phi_N table) satisfies the same orthogonality, exactly,
   for every odd N <= 17 (all sizes the harness generates: degree / threshold <= 8) and all |m| <= 2N *)
Theorem dft_inverts_idft_partial : forall N m, In N [1; 3; 5; 7; 9; 11; 13; 15; 17]%Z -> (- 2 * N <= m <= 2 * N)%Z ->
  geom_const N ((N - 1) / 2) m = Some (if Z.eqb (m mod N) 0 then N else 0)%Z.
Proof. exact cyclo_orthogonality. Qed.
Print Assumptions dft_inverts_idft_partial.

Theorem model_dft_kernel_is_delta : forall N, In N [1; 3; 5; 7; 9; 11; 13; 15; 17]%Z ->
  gtab N ((N - 1) / 2) = Some N :: repeat (Some 0%Z) (Z.to_nat (N - 1)).
Proof. exact gtab_delta. Qed.
Print Assumptions model_dft_kernel_is_delta.

(* low-pass filter bookkeeping (fftshift, take, ifftshift): position i of the result holds the coefficient
   of the same frequency as the position it is copied from *)
Theorem lowpass_keeps_frequencies : forall t d i, (0 <= d <= t)%Z -> (0 <= i < 2 * d + 1)%Z ->
  freq_of_pos t (filter_src t d i) = freq_of_pos d i.
Proof. exact filter_src_freq. Qed.
Print Assumptions lowpass_keeps_frequencies.

(* ---- non-vacuity ---- *)
Example spectra_hyps_satisfiable :
  nonneg (get_spectrum [-(1#2); 1#2]) /\ InQ 0 (get_spectrum [-(1#2); 1#2]) /\ wsorted [-(1#2); 1#2] /\
  listQ_eqb (mirror (join_nn (get_spectrum [-(1#2); 1#2]) (map (Qmult (1#2)) (get_spectrum [0; 1]))))
            [-(3#2); -1; -(1#2); 0; 1#2; 1; 3#2] = true.
Proof.
  split; [apply get_spectrum_nonneg; cbn; intuition (subst; try discriminate; try (intros H; discriminate H)) |].
  split; [apply get_spectrum_zero|]. split; [cbn; intuition (subst; try discriminate; try (intros H; discriminate H)) | vm_compute; reflexivity].
Qed.
Example dft_hyps_satisfiable : rpow Z 1%Z Z.mul (-1)%Z 2 = 1%Z /\
  (forall m, (0 < m < 2)%nat -> regular Z 0%Z Z.mul (Z.sub (rpow Z 1%Z Z.mul (-1)%Z m) 1%Z)).
Proof. exact dft_instance_Z. Qed.
