(* C54 Boson-to-qubit mappings represent truncated boson operators.
   Statements only; every proof is `exact <lemma>` from Disc/BoseProofs.v.

   Vocabulary (Disc/BoseModel.v):  K = Q(i)[sqrt2,sqrt3,sqrt5,sqrt7] exact (formal square roots, `keqb` = equality
   of canonical forms);  get_word kd d w = the Pauli sentence (coefficients in K) the mapping kd produces for the
   bosonic word w at truncation d;  kselem nq s x y = <x| s |y> for qubit basis states x, y (bit q = wire q);
   enc kd d levels = the documented encoding of the Fock state |levels> (binary: little-endian bits of the level in
   the mode's block of ceil_log2 d wires; unary: one-hot in the mode's block of d wires; Christiansen: the level
   itself on the mode's wire);  ladder_elem d w ms ns = <ms| product of truncated ladder matrices in word order |ns>.
   The per-truncation statements are finite; their bounds are part of the statements. *)
From Coq Require Import List ZArith Bool QArith Qabs Lia.
From PLV Require Import Disc.PauliAlgModel Disc.BoseModel Disc.BoseProofs.
Import ListNotations.
Open Scope Z_scope.

(* the formal square roots square to the integers they stand for *)
Theorem sqrt_symbols_square : forall n, 1 <= n <= 7 -> keqb (kmul (sqrtK n) (sqrtK n)) (kofZ n) = true.
Proof. exact sqrt_table. Qed.
Print Assumptions sqrt_symbols_square.

(* binary and unary: image restricted to the code space = ladder product; one mode, truncations 2..8,
   every word of length <= 3 *)
Theorem image_restricted_is_ladder_product_one_mode : forall kd d w ms ns,
  kd <> MChr -> 2 <= d <= 8 -> In w (words_upto letters1 3) ->
  valid_levels d 1 ms -> valid_levels d 1 ns ->
  keqb (kselem (nqubits kd d 1) (get_word kd d w) (enc kd d ms) (enc kd d ns)) (ladder_elem d w ms ns) = true.
Proof. exact image_one_mode. Qed.
Print Assumptions image_restricted_is_ladder_product_one_mode.

(* two modes, truncations 2..4, every word of length <= 2 over b0, b0+, b1, b1+ *)
Theorem image_restricted_is_ladder_product_two_modes : forall kd d w ms ns,
  kd <> MChr -> 2 <= d <= 4 -> In w (words_upto letters2 2) ->
  valid_levels d 2 ms -> valid_levels d 2 ns ->
  keqb (kselem (nqubits kd d 2) (get_word kd d w) (enc kd d ms) (enc kd d ns)) (ladder_elem d w ms ns) = true.
Proof. exact image_two_modes. Qed.
Print Assumptions image_restricted_is_ladder_product_two_modes.

(* the code space is invariant: an encoded state has no amplitude on any non-encoded qubit basis state *)
Theorem code_space_closed_one_mode : forall kd d w x ns,
  kd <> MChr -> 2 <= d <= 8 -> In w (words_upto letters1 2) ->
  0 <= x < Z.shiftl 1 (nqubits kd d 1) ->
  (forall ms, valid_levels d 1 ms -> x <> enc kd d ms) -> valid_levels d 1 ns ->
  kselem (nqubits kd d 1) (get_word kd d w) x (enc kd d ns) = k0.
Proof. exact closed_one_mode. Qed.
Print Assumptions code_space_closed_one_mode.

(* Hermitian conjugation: image of the adjoint word = adjoint of the image (as maps Pauli word -> coefficient) *)
Theorem adjoint_preserved_one_mode : forall kd d w,
  kd <> MChr -> 2 <= d <= 8 -> In w (words_upto letters1 3) ->
  ks_eqb (get_word kd d (badj w)) (ksconj (get_word kd d w)) = true.
Proof. exact adjoint_one_mode. Qed.
Print Assumptions adjoint_preserved_one_mode.

Theorem adjoint_preserved_two_modes : forall kd d w,
  kd <> MChr -> 2 <= d <= 4 -> In w (words_upto letters2 2) ->
  ks_eqb (get_word kd d (badj w)) (ksconj (get_word kd d w)) = true.
Proof. exact adjoint_two_modes. Qed.
Print Assumptions adjoint_preserved_two_modes.

(* Christiansen mapping (two levels): image and adjoint, two modes, words of length <= 3 *)
Theorem christiansen_image_and_adjoint : forall w, In w (words_upto letters2 3) ->
  (forall ms ns, valid_levels 2 2 ms -> valid_levels 2 2 ns ->
     keqb (kselem 2 (chr_word w) (enc MChr 2 ms) (enc MChr 2 ns)) (ladder_elem 2 w ms ns) = true) /\
  ks_eqb (chr_word (badj w)) (ksconj (chr_word w)) = true.
Proof. exact christiansen_two_modes. Qed.
Print Assumptions christiansen_image_and_adjoint.

(* the reference `ladder_elem` (propagation of a basis ket) is the entry of the honest product of the truncated
   d x d matrices, one mode, up to three factors *)
Theorem ladder_elem_is_product_of_truncated_matrices : forall d signs m n,
  2 <= d <= 8 -> (length signs <= 3)%nat -> 0 <= m < d -> 0 <= n < d ->
  keqb (mentry (ladder_matprod d signs) m n) (ladder_elem d (map (fun s => (0, s)) signs) [m] [n]) = true.
Proof. exact ladder_elem_is_matrix_product. Qed.
Print Assumptions ladder_elem_is_product_of_truncated_matrices.

(* sums are preserved, for ALL sentences, mappings and truncations: the image of a concatenation of term lists is
   the concatenation of the images (the coefficient of a Pauli word is the sum over the list) *)
Theorem sum_preserved : forall kd d s1 s2,
  map_sent kd d (s1 ++ s2) =
  match map_sent kd d s1, map_sent kd d s2 with Some a, Some b => Some (a ++ b) | _, _ => None end.
Proof. exact map_sent_app. Qed.
Print Assumptions sum_preserved.

(* every term of a sentence image is a scalar multiple of a term of the image of one of its words *)
Theorem sentence_image_is_linear_combination : forall kd d s t,
  map_sent kd d s = Some t ->
  forall u, In u t -> exists c w a x, In (c, w) s /\ map_word kd d w = Some a /\ In (fst u, x) a /\
                                     snd u = kmul (kofCQ c) x.
Proof. exact map_sent_terms. Qed.
Print Assumptions sentence_image_is_linear_combination.

(* the rational enclosures used by the correspondence check are accurate *)
Theorem sqrt_enclosures_accurate :
  (Qabs (a2 * a2 - 2) < 1 # 100000000000000000000000000000)%Q /\
  (Qabs (a3 * a3 - 3) < 1 # 100000000000000000000000000000)%Q /\
  (Qabs (a5 * a5 - 5) < 1 # 100000000000000000000000000000)%Q /\
  (Qabs (a7 * a7 - 7) < 1 # 100000000000000000000000000000)%Q.
Proof. exact approx_sq. Qed.
Print Assumptions sqrt_enclosures_accurate.

(* non-vacuity: b+ at truncation 4 under the binary mapping has the documented coefficient (1 + sqrt 3)/4 on X(0),
   and <2| b+ |1> = sqrt 2 is reproduced between the encoded states *)
Example binary_doc_example :
  keqb (kscoeff (get_word MBin 4 [(0, true)]) [(0, PX)]) [(0, (1 # 4, 0 # 1)%Q); (2, (1 # 4, 0 # 1)%Q)] = true /\
  keqb (kselem 2 (get_word MBin 4 [(0, true)]) (enc MBin 4 [2]) (enc MBin 4 [1])) (sqrtK 2) = true /\
  In [(0, true); (0, false)] (words_upto letters1 3) /\ valid_levels 4 1 [2].
Proof.
  split; [vm_compute; reflexivity|]. split; [vm_compute; reflexivity|]. split; [vm_compute; tauto|].
  split; [reflexivity|]. intros z [<-|[]]; lia.
Qed.
