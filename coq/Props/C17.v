(* C17 Optimisation passes preserve semantics and accept all valid circuits.
   Statements only; every proof is `exact <lemma>` from Disc/PassesProofs.v.

   The DRIVERS of four passes (Disc/PassesModel.v, tied to /repo by the correspondence run) are shown to preserve the
   ordered product of the circuit in EVERY semantics (Gm, mul, e, equ) that is a monoid up to `equ` and satisfies the
   algebraic facts the pass uses; `equ` may be exact equality of unitaries or equality up to a global phase.
   The facts are hypotheses here; for PennyLane's gate matrices they are the content of C07 (self-inverse / symmetric /
   composable attribute sets, for all parameters) and of the tensor-product structure (disjoint wires commute).
   Passes that compute new numeric angles, pattern matching, rowcol, ZX, compile ... are checked per instance by the
   differential layer of harness/props/c17.py, not by these theorems. *)
From Coq Require Import List ZArith Bool Setoid Morphisms.
From PLV Require Import Disc.PassesModel Disc.PassesProofs.
Import ListNotations.
Open Scope Z_scope.

Section Statements.
  Variable Gm : Type.
  Variable equ : Gm -> Gm -> Prop.
  Variable mul : Gm -> Gm -> Gm.
  Variable e : Gm.
  Variable sem : gate -> Gm.
  Context {equ_equiv : Equivalence equ} {mul_proper : Proper (equ ==> equ ==> equ) mul}.
  Let P := prod Gm mul e sem.                 (* sem g1 * (sem g2 * ( ... * e)) *)

  Definition monoid : Prop :=
    (forall a b c, equ (mul (mul a b) c) (mul a (mul b c))) /\ (forall a, equ (mul e a) a) /\ (forall a, equ (mul a e) a).
  (* (H_comm) gates on disjoint wires commute *)
  Definition H_comm : Prop := forall g h, shares (gwires g) (gwires h) = false -> equ (mul (sem g) (sem h)) (mul (sem h) (sem g)).
  (* (H_inv) names in self_inverses square to the identity; (H_adj) Adjoint(g) is a two-sided inverse of g *)
  Definition H_inv : Prop := forall n w a a', self_inverse n = true -> equ (mul (sem (G n false w a)) (sem (G n false w a'))) e.
  Definition H_adj : Prop := forall n w a, equ (mul (sem (G n false w a)) (sem (G n true w a))) e /\ equ (mul (sem (G n true w a)) (sem (G n false w a))) e.
  (* (H_sym) symmetric_over_all_wires / symmetric_over_control_wires: same wire set (and same last wire) gives the same operator *)
  Definition H_symall : Prop := forall n b w w' a, sym_all n = true -> length w = length w' -> num_shared w w' = length w ->
    equ (sem (G n b w a)) (sem (G n b w' a)).
  Definition H_symctrl : Prop := forall n b w w' a, sym_ctrl n = true -> length w = length w' -> num_shared w w' = length w ->
    last_l w = last_l w' -> equ (sem (G n b w a)) (sem (G n b w' a)).
  (* (H_rot) composable rotations add their angles; (H_zero) an angle accepted by the atol test denotes the identity;
     (H_adjrot) Adjoint(R(a)) = R(-a) (the Adjoint-expansion pre-pass) *)
  Definition H_rot : Prop := forall n w a b, composable n = true -> equ (mul (sem (G n false w a)) (sem (G n false w b))) (sem (G n false w (a + b))).
  Definition H_zero (is_zero : Z -> bool) : Prop := forall n w a, composable n = true -> is_zero a = true -> equ (sem (G n false w a)) e.
  Definition H_adjrot : Prop := forall n w a, composable n = true -> equ (sem (G n true w a)) (sem (G n false w (- a))).
  (* (H_bar) Barrier is the identity; (H_gp) GlobalPhase is central, additive, independent of its wires *)
  Definition H_bar : Prop := forall g, is_barrier g = true -> equ (sem g) e.
  Definition H_gp : Prop :=
    (forall g, is_gphase g = true -> equ (sem g) (sem (gphase_gate (gparam g)))) /\
    (forall a x, equ (mul (sem (gphase_gate a)) x) (mul x (sem (gphase_gate a)))) /\
    (forall a b, equ (mul (sem (gphase_gate a)) (sem (gphase_gate b))) (sem (gphase_gate (a + b)))).

  (* cancel_inverses (recursive or not): on every circuit whose operators have the arity of their name the driver terminates
     within its fuel, does not raise, and returns a circuit with the same product *)
  Theorem cancel_inverses_sem : monoid -> H_comm -> H_inv -> H_adj -> H_symall -> H_symctrl ->
    forall (ar : Z -> nat) (recursive : bool) (l : list gate), Forall (wf ar) l ->
    exists out, cancel_inverses recursive l = Ok out /\ equ (P out) (P l).
  Proof.
    intros (A & L & R) C I Adj SA SC ar.
    exact (cancel_inverses_total_sem Gm equ mul e sem A L R C ar I (fun n w a => proj1 (Adj n w a)) (fun n w a => proj2 (Adj n w a)) SA SC).
  Qed.

  (* merge_rotations (any atol predicate, any include_gates): terminates, never raises, same product - for ALL gate lists *)
  Theorem merge_rotations_sem : monoid -> H_comm -> H_rot -> forall is_zero included, H_zero is_zero -> H_adjrot ->
    forall l : list gate, exists out, merge_rotations is_zero included l = Ok out /\ equ (P out) (P l).
  Proof.
    intros (A & L & R) C Rt is_zero included Z0 AR.
    exact (merge_rotations_total_sem Gm equ mul e sem A L R C is_zero included Rt Z0 AR).
  Qed.

  Theorem remove_barrier_sem : monoid -> H_bar -> forall l, equ (P (remove_barrier l)) (P l).
  Proof. intros (A & L & R) B. exact (remove_barrier_sem Gm equ mul e sem L B). Qed.

  (* exact: no global phase is lost when `equ` is exact equality *)
  Theorem combine_global_phases_sem : monoid -> H_gp -> forall l, equ (P (combine_global_phases l)) (P l).
  Proof. intros (A & L & R) (N & Ce & Ad). exact (combine_global_phases_sem Gm equ mul e sem A L R N Ce Ad). Qed.
End Statements.
Print Assumptions cancel_inverses_sem.
Print Assumptions merge_rotations_sem.
Print Assumptions remove_barrier_sem.
Print Assumptions combine_global_phases_sem.

(* structure of the outputs *)
Theorem remove_barrier_output_has_no_barrier : forall l, Forall (fun g => is_barrier g = false) (remove_barrier l).
Proof. exact remove_barrier_no_barrier. Qed.
Print Assumptions remove_barrier_output_has_no_barrier.

Theorem combine_global_phases_output_shape : forall l,
  combine_global_phases l = filter (fun g => negb (is_gphase g)) l ++
                            (if existsb is_gphase l then [gphase_gate (sum_gphase l)] else []).
Proof. exact combine_global_phases_shape. Qed.
Print Assumptions combine_global_phases_output_shape.

(* The acceptance clause is REFUTED by the faithful model for variable-arity operators (28 = MultiRZ): the driver raises
   (zip(strict=True) in _check_equality) on one valid circuit and cancels two operators of different arity on another.
   Both are reproduced on /repo by the corpus of harness/impl/c17_impl.py. *)
Theorem cancel_inverses_accepts_all_refuted : exists c, cancel_inverses true c = Raised.
Proof. exists [G 28 false [0; 1] 5; G 28 true [0; 1; 2] 5]. exact cancel_inverses_raises_witness. Qed.
Print Assumptions cancel_inverses_accepts_all_refuted.
Theorem cancel_inverses_fixed_arity_needed_refuted : exists g h, length (gwires g) <> length (gwires h) /\ cancel_inverses true [g; h] = Ok [].
Proof. exists (G 28 false [0; 1] 5), (G 28 true [1; 0; 2] 5). split; [discriminate|exact cancel_inverses_arity_mismatch_witness]. Qed.
Print Assumptions cancel_inverses_fixed_arity_needed_refuted.

(* non-vacuity: the hypotheses are jointly satisfiable by a semantics that distinguishes circuits (signed total angle in Z) *)
Example hypotheses_satisfiable_cancel : forall (ar : Z -> nat) recursive l, Forall (wf ar) l ->
  exists out, cancel_inverses recursive l = Ok out /\ angle_prod out = angle_prod l.
Proof. exact angle_instance_cancel. Qed.
Example hypotheses_satisfiable_merge : forall included l,
  exists out, merge_rotations exact_zero included l = Ok out /\ angle_prod out = angle_prod l.
Proof. exact angle_instance_merge. Qed.
Example hypotheses_satisfiable_gphase : forall l, angle_prod (combine_global_phases l) = angle_prod l.
Proof. exact angle_instance_gphase. Qed.
Example semantics_not_degenerate : angle_prod [G 16 false [0] 3; G 31 false [] 4] = 7 /\ angle_prod [] = 0.
Proof. exact angle_sem_nontrivial. Qed.
