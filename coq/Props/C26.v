(* C26 default.qubit simulates every circuit exactly.
   Generated (coq/Gen/C26, rebuilt from /repo):
   (a) kernel obligations: each apply_operation kernel of pennylane/devices/qubit, executed on formal basis
       columns with formal gate parameters, returns exactly  (M_op on the given wires) |c>   for every column c;
   (b) exact reference runs: whole circuits with exactly representable angles are simulated by vm_compute over
       Q(zeta_8) (Lin/ExactSim.v) and every measurement of default.qubit is compared with the exact value. *)
From Coq Require Import List ZArith QArith Reals Bool.
From Coquelicot Require Import Complex.
From PLV Require Import Alg.Poly Alg.PolyEval Alg.Angles Lin.Vec Lin.VecHom Lin.PVec Lin.PVecSound.
Import ListNotations.

Definition kernel_cols_ok (hz : Z) (n : nat) (ws : list nat) (M : pmat) (cols : list (pvec * nat)) : bool :=
  forallb (fun p => veqb hz (fst p) (p_apply_gate hz n ws M (p_basis n (snd p)))) cols.

(* for all real gate parameters, the kernel's output on basis state |c> is the documented linear map
   (the k-qubit matrix acting on the listed wires, first listed wire most significant) applied to |c>;
   by linearity of the kernels (they are einsum / tensordot / index permutations) this fixes them on all states *)
Theorem kernel_matches_matrix_forall : forall hz D n ws M cols, (0 < hz)%Z -> kernel_cols_ok hz n ws M cols = true ->
  forall (th : list R) out c, In (out, c) cols ->
    map (peval (aenv hz D th)) out = c_apply_gate n ws (map (map (peval (aenv hz D th))) M) (c_basis n c).
Proof.
  intros hz D n ws M cols H E th out c I. unfold kernel_cols_ok in E. rewrite forallb_forall in E.
  specialize (E (out, c) I). cbn [fst snd] in E.
  pose proof (veqb_sound hz _ (aenv_good hz D th H) _ _ E) as S.
  rewrite (ev_apply_gate hz _ (aenv_good hz D th H)), ev_basis in S. exact S.
Qed.
Print Assumptions kernel_matches_matrix_forall.

(* the reference semantics composes: running a circuit = folding gate application (definitional), and the
   polynomial evaluation commutes with it, so exact reference runs denote the complex-number simulation *)
Theorem reference_run_denotes : forall hz rho, good_env hz rho -> forall n circ v,
  map (peval rho) (p_capply hz n circ v) = c_capply n (map (evg rho) circ) (map (peval rho) v).
Proof. intros hz rho G n circ v. exact (ev_capply hz rho G n circ v). Qed.
Print Assumptions reference_run_denotes.
