From PLV Require Import Disc.TranspileModel.
