(* C19 transpile respects device connectivity.
   Statements only; every proof is `exact <lemma>` from Disc/TranspileProofs.v.
   Model: Disc/TranspileModel.v  (transpile E sp ops ms dev : coupling edge list E, path oracle sp,
   gates ops = (name code, wires), measurement wire lists ms, device wires dev ([] = no device)).
   Result `Ok gs ms' wo' sw c`: output gates, remapped measurements, final wire order, the ghost list of
   transpositions performed (the accumulated permutation is `papp sw`) and the number of oracle calls.
   `dev_covers ops ms dev`: no device, or the device wires contain every tape wire. *)
From Coq Require Import List ZArith Bool.
From PLV Require Import Disc.TranspileModel Disc.TranspileProofs.
Import ListNotations.
Open Scope Z_scope.

(* Clause 1.  For ALL edge lists, ALL oracles (the model validates each answer), ALL circuits: every gate
   of the output has at most two wires and every two-wire gate -- inserted SWAPs included -- acts on an
   edge of the coupling graph; every transposition of the tracked permutation is along an edge. *)
Theorem transpile_on_edges :
  forall (E : list (Z * Z)) (sp : nat -> Z -> Z -> list Z) ops ms dev gs ms' wo' sw c,
  dev_covers ops ms dev ->
  transpile E sp ops ms dev = Ok gs ms' wo' sw c ->
  Forall (fun g => match snd g with
                   | [] | [_] => True
                   | [a; b] => is_edge E a b = true
                   | _ => False end) gs /\
  Forall (fun s => is_edge E (fst s) (snd s) = true) sw.
Proof. exact transpile_on_edges_prop. Qed.
Print Assumptions transpile_on_edges.

(* Clause 2.  Over ANY state space with a gate semantics `sem` and a relabelling action `act1 a b` of
   transpositions such that (H2) relabelled gates act as conjugated gates and (H3) SWAP a b acts as the
   relabelling (a b):  running the output circuit = running the input circuit, then relabelling by the
   accumulated permutation pi = papp sw.  The returned measurements (after the device completion of
   wire-less measurements) and the wire order are the images under the same pi, pi is a bijection with
   inverse papp (rev sw), and pi permutes the nodes of the coupling graph. *)
Theorem transpile_perm :
  forall (E : list (Z * Z)) (sp : nat -> Z -> Z -> list Z) ops ms dev gs ms' wo' sw c,
  dev_covers ops ms dev ->
  transpile E sp ops ms dev = Ok gs ms' wo' sw c ->
  (forall (St : Type) (sem : gate -> St -> St) (act1 : Z -> Z -> St -> St),
     (forall a b g s, sem (gmap (transp a b) g) (act1 a b s) = act1 a b (sem g s)) ->
     (forall a b s, sem (mkswap a b) s = act1 a b s) ->
     forall s, run St sem gs s = act St act1 sw (run St sem ops s)) /\
  ms' = map (map (papp sw)) (process_meas dev ms) /\
  wo' = map (papp sw) (wo0 ops ms dev) /\
  is_inverse (papp sw) (papp (rev sw)) /\
  (forall w, In w (nodes E) <-> In (papp sw w) (nodes E)).
Proof. exact transpile_perm_lem. Qed.
Print Assumptions transpile_perm.

(* Clause 3 (totality).  On a connected coupling graph containing every tape wire, with an oracle that
   returns a valid path whenever one exists, for circuits of gates with <= 2 (distinct) wires, the model
   never returns Err (in particular the loop fuel suffices and no oracle answer is rejected). *)
Theorem transpile_total :
  forall (E : list (Z * Z)) (sp : nat -> Z -> Z -> list Z) ops ms dev,
  connected E -> oracle_correct E sp ->
  dev_covers ops ms dev ->
  Forall gate_ok ops ->
  incl (tape_wires ops ms) (nodes E) ->
  transpile E sp ops ms dev <> Err.
Proof. exact transpile_total_lem. Qed.
Print Assumptions transpile_total.

(* Non-vacuity 1: the hypotheses of clause 2 (H2, H3) have a non-trivial instance -- the state is the
   position of a marked token, SWAP moves it, relabelling moves it. *)
Example sem_hyps_satisfiable :
  (forall a b g s, tok_sem (gmap (transp a b) g) (transp a b s) = transp a b (tok_sem g s)) /\
  (forall a b s, tok_sem (mkswap a b) s = transp a b s).
Proof. split; [exact tok_H2 | exact tok_H3]. Qed.

(* Non-vacuity 2: the line 0-1-2 (line3, with the oracle sp3, both in Disc/TranspileProofs.v) is connected
   in the sense of clause 3, sp3 is a correct oracle for it, and the circuit CNOT(0,2); CNOT(2,0) measured
   on [2;0] is routed with one SWAP. *)
Example total_hyps_satisfiable :
  connected line3 /\ oracle_correct line3 sp3 /\
  transpile line3 sp3 [(10, [0; 2]); (10, [2; 0])] [[2; 0]] [] =
    Ok [(0, [1; 2]); (10, [0; 1]); (10, [1; 0])] [[1; 0]] [0; 1] [(1, 2)] 1%nat.
Proof. exact line3_ok. Qed.
