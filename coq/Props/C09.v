(* C09 Declared parameter frequencies cover the true spectrum.
   Generated obligations (coq/Gen/C09): freq_cover D j M declared = true  for every parametrized gate class,
   every parameter j, with M the exact symbolic matrix extracted from /repo and `declared` the class's
   parameter_frequencies.  *)
From Coq Require Import List ZArith QArith Bool.
From PLV Require Import Alg.Poly Alg.Freq.
Import ListNotations.
Open Scope Z_scope.

(* z_j^x has frequency x/D in theta_j.  Every term of every product conj(M[r][c]) * M[r'][c'] -- the building
   blocks of any expectation value <psi| M^dagger O M |psi>, for ANY state and observable on any larger circuit
   in which theta_j occurs only in this gate -- has frequency 0 or +-f for a declared f. *)
Theorem declared_frequencies_cover_spectrum : forall D j M declared, freq_cover D j M declared = true ->
  forall r c r' c' x, In x (exps_of_poly j (pmul (pconj (nth c (nth r M []) [])) (nth c' (nth r' M []) []))) ->
    x = 0 \/ exists f, In f declared /\ Z.abs x * snd f = fst f * D.
Proof. exact freq_cover_sound. Qed.
Print Assumptions declared_frequencies_cover_spectrum.

(* frequencies only combine by difference under conj(p)*q, by union under +, and are unchanged by constants:
   hence the statement above extends to every sum of such products with constant coefficients *)
Theorem product_frequencies_are_differences : forall j p q x, In x (exps_of_poly j (pmul (pconj p) q)) ->
  exists e e', In e (exps_of_poly j p) /\ In e' (exps_of_poly j q) /\ x = e' - e.
Proof. exact exps_conj_mul. Qed.
Print Assumptions product_frequencies_are_differences.

Theorem sum_frequencies_are_unions : forall j p q x,
  In x (exps_of_poly j (padd p q)) <-> In x (exps_of_poly j p) \/ In x (exps_of_poly j q).
Proof. exact exps_padd. Qed.
Print Assumptions sum_frequencies_are_unions.

Theorem scaling_keeps_frequencies : forall j c p, exps_of_poly j (pscale c p) = exps_of_poly j p.
Proof. exact exps_pscale. Qed.
Print Assumptions scaling_keeps_frequencies.

(* non-vacuity: RX(theta) with D = 8 has entries with exponents +-4, differences 0, +-8 = frequency 1 *)
Definition ex_c : poly := [(Qmake 1 2, [0; 4]); (Qmake 1 2, [0; -4])].
Definition ex_s : poly := [(Qmake (-1) 2, [0; 4]); (Qmake 1 2, [0; -4])].
Example rx_frequency_one :
  freq_cover 8 1 [[ex_c; ex_s]; [ex_s; ex_c]] [(1, 1)] = true
  /\ freq_cover 8 1 [[[(Qmake 1 1, [0; 8]); (Qmake 1 1, [0; -8])]]] [(1, 1)] = false.
Proof. split; vm_compute; reflexivity. Qed.
