(* Formal differentiation of the QSym scalars with respect to a real angle.
   Variable S j stands for z_j = exp(i theta_j / D), so  d/d theta_j [c * prod z_k^e_k] = (i e_{j+1} / D) * c * prod z_k^e_k
   and i = zeta^(hz/2) when hz is even.  Computable part only. *)
From Coq Require Import List ZArith QArith Bool.
From PLV Require Import Alg.Poly.
Import ListNotations.

Definition add0 (h : Z) (e : list Z) : list Z := match e with [] => [h] | x :: r => (x + h)%Z :: r end.
Definition dterm (hz D : Z) (j : nat) (t : term) : term :=
  (Qred (fst t * (inject_Z (nth (S j) (snd t) 0%Z) / inject_Z D)), add0 (hz / 2) (snd t)).
Definition pderiv (hz D : Z) (j : nat) (p : poly) : poly := map (dterm hz D j) p.

(* linear combination sum_k c_k * p_k with polynomial coefficients *)
Definition plincomb (hz : Z) (cs : list poly) (ps : list poly) : poly :=
  fold_right (fun cp acc => nadd hz (nmul hz (fst cp) (snd cp)) acc) pzero (combine cs ps).
(* "the linear combination of the evaluations ps with coefficients cs is the derivative of f w.r.t. theta_j" *)
Definition grad_ok (hz D : Z) (j : nat) (cs ps : list poly) (f : poly) : bool :=
  Z.even hz && negb (D =? 0)%Z && peqb hz (plincomb hz cs ps) (pderiv hz D j f).
Definition hess_ok (hz D : Z) (j k : nat) (cs ps : list poly) (f : poly) : bool :=
  Z.even hz && negb (D =? 0)%Z && peqb hz (plincomb hz cs ps) (pderiv hz D j (pderiv hz D k f)).
