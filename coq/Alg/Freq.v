(* C09: which frequencies a formal parameter can contribute to any expectation value.
   z_j = exp(i theta_j / D): a monomial z_j^e has frequency e / D; an expectation value
   <psi| M^dagger O M |psi> is a sum of products conj(M entry) * (M entry) * constants, so its frequencies
   in theta_j are DIFFERENCES of exponents of z_j occurring in the entries of M. *)
From Coq Require Import List ZArith QArith Bool Lia.
From PLV Require Import Alg.Poly.
Import ListNotations.
Open Scope Z_scope.

Definition exp_of (j : nat) (t : term) : Z := nth j (snd t) 0.
Definition exps_of_poly (j : nat) (p : poly) : list Z := map (exp_of j) p.
Definition exps_of_mat (j : nat) (M : list (list poly)) : list Z := flat_map (fun r => flat_map (exps_of_poly j) r) M.

(* declared frequencies as rationals num/den (den > 0); an exponent difference d matches f iff |d| * den = num * D *)
Definition matches (D : Z) (d : Z) (f : Z * Z) : bool := Z.abs d * snd f =? fst f * D.
Definition diff_ok (D : Z) (declared : list (Z * Z)) (d : Z) : bool := (d =? 0) || existsb (matches D d) declared.
Definition freq_cover (D : Z) (j : nat) (M : list (list poly)) (declared : list (Z * Z)) : bool :=
  let es := exps_of_mat j M in
  forallb (fun e => forallb (fun e' => diff_ok D declared (e' - e)) es) es.

(* ---- facts ---- *)
Lemma nth_nil (j : nat) : nth j (@nil Z) 0 = 0.
Proof. destruct j; reflexivity. Qed.
Lemma nth_eadd a : forall b j, nth j (eadd a b) 0 = nth j a 0 + nth j b 0.
Proof.
  induction a as [|x a IH]; intros b j; [cbn [eadd]; rewrite nth_nil; lia|].
  destruct b as [|y b]; [cbn [eadd]; rewrite nth_nil; lia|]. cbn [eadd].
  destruct j as [|j]; [reflexivity | cbn [nth]; apply IH].
Qed.
Lemma nth_map_opp a : forall j, nth j (map Z.opp a) 0 = - nth j a 0.
Proof. induction a as [|x a IH]; intros [|j]; cbn [map nth]; try reflexivity. apply IH. Qed.

(* every exponent of z_j in conj(p) * q is  e' - e  with e an exponent of p and e' an exponent of q *)
Lemma exps_conj_mul j p q : forall x, In x (exps_of_poly j (pmul (pconj p) q)) ->
  exists e e', In e (exps_of_poly j p) /\ In e' (exps_of_poly j q) /\ x = e' - e.
Proof.
  unfold exps_of_poly, pmul, pconj. intros x H. rewrite in_map_iff in H. destruct H as (t & Hx & Ht).
  rewrite in_flat_map in Ht. destruct Ht as (s & Hs & Ht). rewrite in_map_iff in Hs, Ht.
  destruct Hs as (s0 & <- & Hs0). destruct Ht as (t0 & <- & Ht0).
  exists (exp_of j s0), (exp_of j t0). split; [apply in_map; exact Hs0|]. split; [apply in_map; exact Ht0|].
  subst x. unfold exp_of, tmul. cbn [snd]. rewrite nth_eadd, nth_map_opp. lia.
Qed.
Lemma exps_padd j p q x : In x (exps_of_poly j (padd p q)) <-> In x (exps_of_poly j p) \/ In x (exps_of_poly j q).
Proof. unfold exps_of_poly, padd. rewrite map_app. apply in_app_iff. Qed.
Lemma exps_pscale j c p : exps_of_poly j (pscale c p) = exps_of_poly j p.
Proof. unfold exps_of_poly, pscale. rewrite map_map. reflexivity. Qed.

Lemma in_exps_of_mat j M r c : forall x, In x (exps_of_poly j (nth c (nth r M []) [])) -> In x (exps_of_mat j M).
Proof.
  intros x H. unfold exps_of_mat. apply in_flat_map.
  destruct (Nat.lt_ge_cases r (length M)) as [Hr|Hr].
  - exists (nth r M []). split; [apply nth_In; exact Hr|]. apply in_flat_map.
    destruct (Nat.lt_ge_cases c (length (nth r M []))) as [Hc|Hc].
    + exists (nth c (nth r M []) []). split; [apply nth_In; exact Hc | exact H].
    + rewrite (nth_overflow _ _ Hc) in H. destruct H.
  - rewrite (nth_overflow _ _ Hr) in H. destruct c; destruct H.
Qed.

(* soundness of the checker: any product conj(entry)*entry of M only carries declared frequencies (or 0) *)
Theorem freq_cover_sound D j M declared : freq_cover D j M declared = true ->
  forall r c r' c' x, In x (exps_of_poly j (pmul (pconj (nth c (nth r M []) [])) (nth c' (nth r' M []) []))) ->
    x = 0 \/ exists f, In f declared /\ Z.abs x * snd f = fst f * D.
Proof.
  unfold freq_cover. intros H r c r' c' x Hx. apply exps_conj_mul in Hx as (e & e' & He & He' & ->).
  apply in_exps_of_mat in He, He'. rewrite forallb_forall in H. specialize (H e He). rewrite forallb_forall in H.
  specialize (H e' He'). unfold diff_ok in H. apply orb_prop in H as [H|H].
  - left. apply Z.eqb_eq in H. exact H.
  - right. apply existsb_exists in H as (f & Hf & Hm). exists f. split; [exact Hf|]. apply Z.eqb_eq in Hm. exact Hm.
Qed.
