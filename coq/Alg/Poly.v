(* Exact scalars of the QSym engine: multivariate Laurent polynomials with rational coefficients.
   Variable 0 stands for a primitive root of unity zeta with zeta^hz = -1 (hz = N/2, e.g. 4 for the
   8th roots of unity: i = zeta^2, sqrt2 = zeta - zeta^3); variable j >= 1 stands for
   z_j = exp(i * theta_j / D).  Computable part only (no proofs): evaluated by vm_compute. *)
From Coq Require Import List ZArith QArith Bool.
Import ListNotations.

Definition term := (Q * list Z)%type.
Definition poly := list term.

Fixpoint eadd (a b : list Z) : list Z :=
  match a, b with
  | [], _ => b
  | _, [] => a
  | x :: a', y :: b' => (x + y)%Z :: eadd a' b'
  end.

(* strip trailing zeros so that equal monomials are syntactically equal *)
Fixpoint estrip (e : list Z) : list Z :=
  match e with
  | [] => []
  | x :: r => match estrip r with
              | [] => if (x =? 0)%Z then [] else [x]
              | r' => x :: r'
              end
  end.

Fixpoint eeqb (a b : list Z) : bool :=
  match a, b with
  | [], [] => true
  | x :: a', y :: b' => (x =? y)%Z && eeqb a' b'
  | _, _ => false
  end.

Definition tmul (s t : term) : term := (Qred (fst s * fst t), eadd (snd s) (snd t)).
Definition padd (p q : poly) : poly := p ++ q.
Definition pneg (p : poly) : poly := map (fun t => (Qopp (fst t), snd t)) p.
Definition pscale (c : Q) (p : poly) : poly := map (fun t => (Qred (c * fst t), snd t)) p.
Definition pmul (p q : poly) : poly := flat_map (fun s => map (tmul s) q) p.
Definition pconj (p : poly) : poly := map (fun t => (fst t, map Z.opp (snd t))) p.
Definition pconst (c : Q) : poly := [(c, [])].
Definition pzero : poly := [].
Definition pone : poly := [(1%Q, [])].

(* reduce the zeta exponent into [0, hz) using zeta^hz = -1 *)
Definition zreduce (hz : Z) (t : term) : term :=
  match snd t with
  | [] => t
  | e0 :: r =>
      let q := (e0 / hz)%Z in
      let m := (e0 mod hz)%Z in
      ((if Z.even q then fst t else Qopp (fst t)), m :: r)
  end.

(* accumulate a term into a list of terms with pairwise distinct (stripped) monomials *)
Fixpoint tinsert (t : term) (acc : poly) : poly :=
  match acc with
  | [] => [t]
  | u :: r => if eeqb (snd t) (snd u) then (Qred (fst t + fst u), snd u) :: r else u :: tinsert t r
  end.

Definition nonzero (t : term) : bool := negb (Qeq_bool (fst t) 0).

Definition pnorm (hz : Z) (p : poly) : poly :=
  filter nonzero
    (fold_right (fun t acc => let t' := zreduce hz t in tinsert (fst t', estrip (snd t')) acc) [] p).

Definition pis_zero (hz : Z) (p : poly) : bool := match pnorm hz p with [] => true | _ => false end.
Definition peqb (hz : Z) (p q : poly) : bool := pis_zero hz (padd p (pneg q)).

(* normalising versions used when building big objects *)
Definition nadd hz p q := pnorm hz (padd p q).
Definition nmul hz p q := pnorm hz (pmul p q).

(* substitution z_j := monomial (used for theta -> theta + s, theta -> a theta + b phi):
   sigma j = (coefficient-free) exponent vector that replaces one power of variable j (j >= 1);
   variable 0 (zeta) is kept. *)
Definition escale (k : Z) (e : list Z) : list Z := map (Z.mul k) e.
Fixpoint esubst_from (sigma : nat -> list Z) (j : nat) (e : list Z) : list Z :=
  match e with
  | [] => []
  | x :: r => eadd (escale x (sigma j)) (esubst_from sigma (S j) r)
  end.
Definition esubst (sigma : nat -> list Z) (e : list Z) : list Z :=
  match e with
  | [] => []
  | x0 :: r => eadd [x0] (esubst_from sigma 1 r)
  end.
Definition psubst (sigma : nat -> list Z) (p : poly) : poly := map (fun t => (fst t, esubst sigma (snd t))) p.

(* formal derivative d/d theta_j :  z_j = exp(i theta_j / D)  so  d z_j^k = (i k / D) z_j^k ;
   i = zeta^(hz/2).  Returns the polynomial for D * (d/d theta_j) p  divided by i, i.e. sum k c z^e
   (the caller accounts for the factor i/D) *)
Definition pderiv_raw (j : nat) (p : poly) : poly :=
  map (fun t => (Qred (inject_Z (nth j (snd t) 0%Z) * fst t), snd t)) p.
