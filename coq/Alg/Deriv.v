(* Soundness of the formal derivative: under every angle valuation the evaluation of  pderiv hz D j p  is the
   derivative (in the sense of Coquelicot's is_derive, componentwise on real and imaginary part) of the evaluation
   of p with respect to theta_j. *)
From Coq Require Import List ZArith QArith Qreals Reals Lia Bool Lra.
From Coquelicot Require Import Coquelicot.
From PLV Require Import Alg.Poly Alg.PolyEval Alg.Angles Alg.DerivDef.
Import ListNotations.
Local Close Scope Q_scope.
Local Open Scope R_scope.

(* derivative of a complex-valued function of a real variable *)
Definition Cderive (f : R -> C) (x : R) (l : C) : Prop :=
  is_derive (fun y => fst (f y)) x (fst l) /\ is_derive (fun y => snd (f y)) x (snd l).

(* theta with its j-th entry replaced (padding with zeros, the default value of a missing angle) *)
Fixpoint upd (th : list R) (j : nat) (x : R) : list R :=
  match j, th with
  | O, [] => [x]
  | O, _ :: r => x :: r
  | S j', [] => 0 :: upd [] j' x
  | S j', a :: r => a :: upd r j' x
  end.
Lemma nth_upd_same th : forall j x, nth j (upd th j x) 0 = x.
Proof. induction th as [|a th IH]; intros j x.
  - induction j as [|j IHj]; [reflexivity | exact IHj].
  - destruct j as [|j]; [reflexivity | apply IH]. Qed.
Lemma nth_upd_other th : forall j i x, i <> j -> nth i (upd th j x) 0 = nth i th 0.
Proof. induction th as [|a th IH]; intros j i x N.
  - revert i N. induction j as [|j IHj]; intros i N.
    + destruct i as [|i]; [congruence|]. destruct i; reflexivity.
    + destruct i as [|i]; [reflexivity|]. cbn [upd nth]. rewrite IHj by congruence. destruct i; reflexivity.
  - destruct j as [|j]; destruct i as [|i]; try congruence; try reflexivity. cbn [upd nth]. apply IH. congruence. Qed.
Lemma upd_id th j : nth j (upd th j (nth j th 0)) 0 = nth j th 0.
Proof. apply nth_upd_same. Qed.

Definition ang (hz D : Z) (th : list R) (k : nat) : R :=
  match k with O => PI / IZR hz | S j => nth j th 0 / IZR D end.
Fixpoint elin (a : nat -> R) (k : nat) (e : list Z) : R :=
  match e with [] => 0 | x :: r => IZR x * a k + elin a (S k) r end.

Lemma eeval_cis hz D th e : forall k, eeval (aenv hz D th) k e = cis (elin (ang hz D th) k e).
Proof.
  induction e as [|x e IH]; intros k; cbn [eeval elin]; [symmetry; apply cis_0|].
  rewrite IH, cis_add. f_equal. destruct k as [|j]; cbn [aenv ang]; apply zpow_cis.
Qed.

(* dependence of a monomial's phase on theta_j is affine *)
Lemma elin_upd hz D th j y e : forall k,
  elin (ang hz D (upd th j y)) k e
  = elin (ang hz D (upd th j 0)) k e + (if (k <=? S j)%nat then IZR (nth (S j - k) e 0%Z) * (y / IZR D) else 0).
Proof.
  induction e as [|x e IH]; intros k.
  - cbn [elin]. destruct (k <=? S j)%nat; [|ring]. destruct (S j - k)%nat; cbn [nth]; ring.
  - cbn [elin]. rewrite IH. destruct (Nat.leb_spec k (S j)) as [L|L].
    + destruct (Nat.eq_dec k (S j)) as [->|N].
      * replace (S j - S j)%nat with O by lia. cbn [nth]. destruct (Nat.leb_spec (S (S j)) (S j)) as [L'|_]; [lia|].
        cbn [ang]. rewrite !nth_upd_same. unfold Rdiv. ring.
      * destruct (Nat.leb_spec (S k) (S j)) as [_|L']; [|lia].
        replace (S j - k)%nat with (S (S j - S k)) by lia. cbn [nth].
        assert (ang hz D (upd th j y) k = ang hz D (upd th j 0) k) as ->.
        { destruct k as [|k]; [reflexivity|]. cbn [ang]. rewrite !nth_upd_other by lia. reflexivity. }
        ring.
    + destruct (Nat.leb_spec (S k) (S j)) as [L'|_]; [lia|].
      assert (ang hz D (upd th j y) k = ang hz D (upd th j 0) k) as ->.
      { destruct k as [|k]; [reflexivity|]. cbn [ang]. rewrite !nth_upd_other by lia. reflexivity. }
      ring.
Qed.

Lemma Cderive_plus f g x a b : Cderive f x a -> Cderive g x b -> Cderive (fun y => Cplus (f y) (g y)) x (Cplus a b).
Proof. intros [F1 F2] [G1 G2]. split; cbn [Cplus fst snd]; apply (is_derive_plus (V:=R_NormedModule)); assumption. Qed.
Lemma Cderive_const c x : Cderive (fun _ => c) x (RtoC 0).
Proof. split; cbn [fst snd RtoC]; apply (is_derive_const (V:=R_NormedModule)). Qed.
Lemma Cderive_ext f g x l : (forall y, f y = g y) -> Cderive f x l -> Cderive g x l.
Proof. intros E [A B]. split; [apply (is_derive_ext (fun y => fst (f y))) | apply (is_derive_ext (fun y => snd (f y)))]; try assumption; intros t; rewrite E; reflexivity. Qed.

(* c * exp(i (A + B y)) *)
Lemma Cderive_cis (c : R) A B x :
  Cderive (fun y => Cmult (RtoC c) (cis (A + B * y))) x (Cmult (RtoC (c * B)) (Cmult Ci (cis (A + B * x)))).
Proof.
  split; cbn [Cmult cis RtoC Ci fst snd].
  - auto_derive; [exact I | ring].
  - auto_derive; [exact I | ring].
Qed.

Section Sound.
  Variables hz D : Z.
  Hypothesis Hhz : (0 < hz)%Z.
  Hypothesis Heven : Z.even hz = true.
  Hypothesis HD : D <> 0%Z.

  Lemma cis_half : cis (IZR (hz / 2) * (PI / IZR hz)) = Ci.
  Proof.
    assert (E : (hz = 2 * (hz / 2))%Z).
    { pose proof (Zeven_div2 hz) as H. rewrite <- Z.div2_div. apply H. apply Zeven_bool_iff. exact Heven. }
    replace (IZR (hz / 2) * (PI / IZR hz)) with (PI / 2).
    - unfold cis, Ci. rewrite cos_PI2, sin_PI2. reflexivity.
    - rewrite E at 2. rewrite mult_IZR. field. try split; apply not_0_IZR; lia.
  Qed.

  Lemma elin_add0 a h e : elin a 0 (add0 h e) = IZR h * a 0%nat + elin a 0 e.
  Proof. destruct e as [|x e]; cbn [add0 elin]; [ring|]. rewrite plus_IZR. ring. Qed.

  Lemma teval_dterm th j t :
    teval (aenv hz D th) (dterm hz D j t)
    = Cmult (RtoC (Q2R (fst t) * (IZR (nth (S j) (snd t) 0%Z) / IZR D))) (Cmult Ci (eeval (aenv hz D th) 0 (snd t))).
  Proof.
    unfold teval, dterm. cbn [fst snd]. rewrite !eeval_cis, elin_add0, cis_add. cbn [ang]. rewrite cis_half.
    f_equal. unfold q2c. f_equal. rewrite Qred_correct, Q2R_mult. f_equal. unfold Qdiv. rewrite Q2R_mult, Q2R_inv.
    - unfold Q2R. cbn [Qnum Qden inject_Z]. unfold Rdiv. rewrite !Rinv_1, !Rmult_1_r. reflexivity.
    - unfold Qeq. cbn. lia.
  Qed.

  Lemma Cderive_teval th j t x :
    Cderive (fun y => teval (aenv hz D (upd th j y)) t) x (teval (aenv hz D (upd th j x)) (dterm hz D j t)).
  Proof.
    rewrite teval_dterm.
    set (A := elin (ang hz D (upd th j 0)) 0 (snd t)). set (B := IZR (nth (S j) (snd t) 0%Z) / IZR D).
    apply (Cderive_ext (fun y => Cmult (RtoC (Q2R (fst t))) (cis (A + B * y)))).
    - intros y. unfold teval, q2c. rewrite eeval_cis, elin_upd. cbn [Nat.leb]. rewrite Nat.sub_0_r.
      f_equal. f_equal. subst A B. unfold Rdiv. ring.
    - rewrite eeval_cis, elin_upd. cbn [Nat.leb]. rewrite Nat.sub_0_r.
      replace (elin (ang hz D (upd th j 0)) 0 (snd t) + IZR (nth (S j) (snd t) 0%Z) * (x / IZR D)) with (A + B * x)
        by (subst A B; unfold Rdiv; ring).
      apply Cderive_cis.
  Qed.

  Theorem pderiv_sound th j p x :
    Cderive (fun y => peval (aenv hz D (upd th j y)) p) x (peval (aenv hz D (upd th j x)) (pderiv hz D j p)).
  Proof.
    induction p as [|t p IH]; [exact (Cderive_const (RtoC 0) x)|].
    unfold pderiv. cbn [map]. fold (pderiv hz D j p).
    apply (Cderive_ext (fun y => Cplus (teval (aenv hz D (upd th j y)) t) (peval (aenv hz D (upd th j y)) p))).
    - intros y. reflexivity.
    - change (peval (aenv hz D (upd th j x)) (dterm hz D j t :: pderiv hz D j p))
        with (Cplus (teval (aenv hz D (upd th j x)) (dterm hz D j t)) (peval (aenv hz D (upd th j x)) (pderiv hz D j p))).
      apply Cderive_plus; [apply Cderive_teval | exact IH].
  Qed.
End Sound.
