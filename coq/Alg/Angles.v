(* The valuations that matter: zeta = exp(i pi / hz), z_j = exp(i theta_j / D) for real theta_j. *)
From Coq Require Import List ZArith QArith Qreals Reals Lia Bool Lra.
From Coquelicot Require Import Complex.
From PLV Require Import Alg.Poly Alg.PolyEval.
Import ListNotations.
Local Close Scope Q_scope.
Local Open Scope R_scope.
Local Open Scope C_scope.

Definition cis (x : R) : C := (cos x, sin x).

Lemma cis_0 : cis 0 = 1.
Proof. unfold cis. rewrite cos_0, sin_0. reflexivity. Qed.
Lemma cis_add a b : cis (a + b) = cis a * cis b.
Proof. unfold cis. apply injective_projections; cbn [fst snd Cmult]; [apply cos_plus | rewrite sin_plus; ring]. Qed.
Lemma cis_conj a : Cconj (cis a) = cis (- a).
Proof. unfold cis, Cconj. cbn [fst snd]. now rewrite cos_neg, sin_neg. Qed.
Lemma cis_unit a : cis a * cis (- a) = 1.
Proof. rewrite <- cis_add. replace (a + - a)%R with 0%R by ring. apply cis_0. Qed.

Lemma cpow_cis x n : cpow (cis x) n = cis (INR n * x).
Proof.
  induction n as [|n IH]; [cbn [cpow INR]; rewrite Rmult_0_l; symmetry; apply cis_0|].
  cbn [cpow]. rewrite IH, <- cis_add. f_equal. rewrite S_INR. ring.
Qed.

Lemma zpow_cis x e : zpow (cis x, cis (- x)) e = cis (IZR e * x).
Proof.
  unfold zpow. cbn [fst snd]. destruct (0 <=? e)%Z eqn:E.
  - apply Z.leb_le in E. rewrite cpow_cis. f_equal. rewrite INR_IZR_INZ, Z2Nat.id by lia. reflexivity.
  - apply Z.leb_gt in E. rewrite cpow_cis. f_equal. rewrite INR_IZR_INZ, Z2Nat.id by lia. rewrite opp_IZR. ring.
Qed.

Definition aenv (hz D : Z) (thetas : list R) : env :=
  fun k => match k with
           | O => (cis (PI / IZR hz), cis (- (PI / IZR hz)))
           | S j => (cis (nth j thetas 0 / IZR D), cis (- (nth j thetas 0 / IZR D)))
           end.

Lemma aenv_good hz D thetas : (0 < hz)%Z -> good_env hz (aenv hz D thetas).
Proof.
  intros H. constructor.
  - intros [|k]; cbn [aenv fst snd]; apply cis_unit.
  - intros [|k]; cbn [aenv fst snd]; apply cis_conj.
  - exact H.
  - cbn [aenv]. rewrite zpow_cis. replace (IZR hz * (PI / IZR hz))%R with PI.
    + unfold cis. rewrite cos_PI, sin_PI. apply injective_projections; cbn; ring.
    + field. apply not_0_IZR. lia.
Qed.

(* the value of a monomial under an angle valuation: z_j^k = exp(i k theta_j / D) *)
Lemma aenv_var hz D thetas j k :
  zpow (aenv hz D thetas (S j)) k = cis (IZR k * (nth j thetas 0 / IZR D)).
Proof. cbn [aenv]. apply zpow_cis. Qed.

(* universal corollary used by every reflection proof *)
Theorem peqb_forall_angles hz D p q : (0 < hz)%Z -> peqb hz p q = true ->
  forall thetas : list R, peval (aenv hz D thetas) p = peval (aenv hz D thetas) q.
Proof. intros H E thetas. apply (peqb_sound hz _ (aenv_good hz D thetas H)). exact E. Qed.
