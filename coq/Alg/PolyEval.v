(* Soundness of the exact-algebra engine: evaluation of Laurent polynomials into the complex numbers
   (Coquelicot's C over the stdlib reals) is a ring homomorphism that is invariant under the
   normalisation, hence  peqb hz p q = true  ->  forall good valuations rho, peval rho p = peval rho q. *)
From Coq Require Import List ZArith QArith Qreals Reals Lia Bool.
From Coquelicot Require Import Complex.
From PLV Require Import Alg.Poly.
Import ListNotations.
Local Close Scope Q_scope.
Local Open Scope R_scope.
Local Open Scope C_scope.

Fixpoint cpow (x : C) (n : nat) : C := match n with O => 1 | S k => x * cpow x k end.
Definition zpow (u : C * C) (e : Z) : C :=
  if (0 <=? e)%Z then cpow (fst u) (Z.to_nat e) else cpow (snd u) (Z.to_nat (- e)).
Definition env := nat -> (C * C)%type.
Fixpoint eeval (rho : env) (k : nat) (e : list Z) : C :=
  match e with [] => 1 | x :: r => zpow (rho k) x * eeval rho (S k) r end.
Definition q2c (q : Q) : C := RtoC (Q2R q).
Definition teval (rho : env) (t : term) : C := q2c (fst t) * eeval rho 0 (snd t).
Definition peval (rho : env) (p : poly) : C := fold_right (fun t a => teval rho t + a) 0 p.

Record good_env (hz : Z) (rho : env) : Prop := {
  ge_unit : forall k, fst (rho k) * snd (rho k) = 1;
  ge_conj : forall k, Cconj (fst (rho k)) = snd (rho k);
  ge_hz : (0 < hz)%Z;
  ge_zeta : zpow (rho 0%nat) hz = - (1) }.

(* ---------- complex conjugation is a ring homomorphism ---------- *)
Lemma Cconj_plus (x y : C) : Cconj (x + y) = Cconj x + Cconj y.
Proof. apply injective_projections; simpl; ring. Qed.
Lemma Cconj_mult (x y : C) : Cconj (x * y) = Cconj x * Cconj y.
Proof. apply injective_projections; simpl; ring. Qed.
Lemma Cconj_RtoC (r : R) : Cconj (RtoC r) = RtoC r.
Proof. apply injective_projections; simpl; ring. Qed.
Lemma Cconj_invol (x : C) : Cconj (Cconj x) = x.
Proof. apply injective_projections; simpl; ring. Qed.
Lemma Cconj_cpow x n : Cconj (cpow x n) = cpow (Cconj x) n.
Proof. induction n as [|n IH]; simpl; [apply Cconj_RtoC | now rewrite Cconj_mult, IH]. Qed.

(* ---------- integer powers of a unit ---------- *)
Lemma cpow_add x a b : cpow x (a + b) = cpow x a * cpow x b.
Proof. induction a as [|a IH]; simpl; [ring | rewrite IH; ring]. Qed.
Lemma cpow_1 n : cpow 1 n = 1.
Proof. induction n as [|n IH]; simpl; [reflexivity | rewrite IH; ring]. Qed.
Lemma cpow_mul_distr x y n : cpow (x * y) n = cpow x n * cpow y n.
Proof. induction n as [|n IH]; simpl; [ring | rewrite IH; ring]. Qed.

Section Unit.
  Variable u : C * C.
  Hypothesis Hu : fst u * snd u = 1.

  Lemma cpow_cancel n : cpow (fst u) n * cpow (snd u) n = 1.
  Proof. rewrite <- cpow_mul_distr, Hu. apply cpow_1. Qed.

  Lemma zpow_0 : zpow u 0 = 1.
  Proof. reflexivity. Qed.

  Lemma zpow_succ e : zpow u (e + 1) = fst u * zpow u e.
  Proof.
    unfold zpow. destruct (0 <=? e)%Z eqn:E.
    - apply Z.leb_le in E. assert (E' : (0 <=? e + 1)%Z = true) by (apply Z.leb_le; lia). rewrite E'.
      rewrite Z2Nat.inj_add by lia. change (Z.to_nat 1) with 1%nat. rewrite Nat.add_comm. reflexivity.
    - apply Z.leb_gt in E. destruct (0 <=? e + 1)%Z eqn:E'.
      + apply Z.leb_le in E'. assert (e = (-1)%Z) by lia. subst e. cbn. change (Pos.to_nat 1) with 1%nat. cbn [cpow]. rewrite Cmult_1_r. symmetry. exact Hu.
      + apply Z.leb_gt in E'. replace (Z.to_nat (- e)) with (S (Z.to_nat (- (e + 1)))) by lia.
        cbn [cpow]. transitivity ((fst u * snd u) * cpow (snd u) (Z.to_nat (- (e + 1)))); [rewrite Hu; ring | ring].
  Qed.

  Lemma zpow_pred e : zpow u (e - 1) = snd u * zpow u e.
  Proof.
    pose proof (zpow_succ (e - 1)) as H. replace (e - 1 + 1)%Z with e in H by lia. rewrite H.
    transitivity ((fst u * snd u) * zpow u (e - 1)); [rewrite Hu; ring | ring].
  Qed.

  Lemma zpow_add_nat a n : zpow u (a + Z.of_nat n) = zpow u a * zpow u (Z.of_nat n).
  Proof.
    induction n as [|n IH]; [rewrite Z.add_0_r; cbn [Z.of_nat]; rewrite zpow_0; ring|].
    rewrite Nat2Z.inj_succ. unfold Z.succ. rewrite Z.add_assoc, !zpow_succ, IH. ring.
  Qed.
  Lemma zpow_sub_nat a n : zpow u (a - Z.of_nat n) = zpow u a * zpow u (- Z.of_nat n).
  Proof.
    induction n as [|n IH]; [rewrite Z.sub_0_r; cbn; ring|].
    rewrite Nat2Z.inj_succ. unfold Z.succ.
    replace (a - (Z.of_nat n + 1))%Z with (a - Z.of_nat n - 1)%Z by lia.
    replace (- (Z.of_nat n + 1))%Z with (- Z.of_nat n - 1)%Z by lia.
    rewrite !zpow_pred, IH. ring.
  Qed.
  Lemma zpow_add a b : zpow u (a + b) = zpow u a * zpow u b.
  Proof.
    destruct (Z_le_gt_dec 0 b) as [H|H].
    - rewrite <- (Z2Nat.id b) by lia. apply zpow_add_nat.
    - replace b with (- Z.of_nat (Z.to_nat (- b)))%Z by lia.
      rewrite Z.add_opp_r. apply zpow_sub_nat.
  Qed.
  Lemma zpow_opp_cancel a : zpow u a * zpow u (- a) = 1.
  Proof. rewrite <- zpow_add, Z.add_opp_diag_r. reflexivity. Qed.
End Unit.

Lemma zpow_conj u e : Cconj (fst u) = snd u -> Cconj (zpow u e) = zpow u (- e).
Proof.
  intros H. assert (H' : Cconj (snd u) = fst u) by (rewrite <- H; apply Cconj_invol).
  unfold zpow. destruct (0 <=? e)%Z eqn:E; destruct (0 <=? - e)%Z eqn:E';
    try apply Z.leb_le in E; try apply Z.leb_le in E'; try apply Z.leb_gt in E; try apply Z.leb_gt in E'.
  - assert (e = 0%Z) by lia. subst. cbn. apply Cconj_RtoC.
  - rewrite Cconj_cpow, H, Z.opp_involutive. reflexivity.
  - rewrite Cconj_cpow, H'. reflexivity.
  - lia.
Qed.

Definition sgn (q : Z) : C := if Z.even q then 1 else - (1).

Lemma sgn_succ q : sgn (q + 1) = - (1) * sgn q.
Proof. unfold sgn. rewrite Z.even_add. destruct (Z.even q); cbn; ring. Qed.

Lemma zpow_hz_mul u hz : fst u * snd u = 1 -> zpow u hz = - (1) -> forall q, zpow u (hz * q) = sgn q.
Proof.
  intros Hu Hz q.
  assert (P : forall n, zpow u (hz * Z.of_nat n) = sgn (Z.of_nat n)).
  { induction n as [|n IH]; [rewrite Z.mul_0_r; reflexivity|].
    rewrite Nat2Z.inj_succ. unfold Z.succ. rewrite Z.mul_add_distr_l, Z.mul_1_r, (zpow_add u Hu), IH, Hz, sgn_succ. ring. }
  destruct (Z_le_gt_dec 0 q) as [H|H]; [rewrite <- (Z2Nat.id q) by lia; apply P|].
  assert (exists n, q = (- Z.of_nat n)%Z) as [n ->] by (exists (Z.to_nat (- q)); lia).
  pose proof (zpow_opp_cancel u Hu (hz * Z.of_nat n)) as H1. rewrite P in H1.
  replace (hz * - Z.of_nat n)%Z with (- (hz * Z.of_nat n))%Z by lia.
  assert (S : sgn (- Z.of_nat n) = sgn (Z.of_nat n)) by (unfold sgn; now rewrite Z.even_opp).
  rewrite S. transitivity ((sgn (Z.of_nat n) * sgn (Z.of_nat n)) * zpow u (- (hz * Z.of_nat n))).
  - unfold sgn. destruct (Z.even (Z.of_nat n)); ring.
  - transitivity (sgn (Z.of_nat n) * (sgn (Z.of_nat n) * zpow u (- (hz * Z.of_nat n)))); [ring|]. rewrite H1. ring.
Qed.

(* ---------- coefficients ---------- *)
Lemma q2c_plus a b : q2c (a + b)%Q = q2c a + q2c b.
Proof. unfold q2c. now rewrite Q2R_plus, RtoC_plus. Qed.
Lemma q2c_mult a b : q2c (a * b)%Q = q2c a * q2c b.
Proof. unfold q2c. now rewrite Q2R_mult, RtoC_mult. Qed.
Lemma q2c_opp a : q2c (- a)%Q = - q2c a.
Proof. unfold q2c. now rewrite Q2R_opp, RtoC_opp. Qed.
Lemma q2c_red a : q2c (Qred a) = q2c a.
Proof. unfold q2c. f_equal. apply Qeq_eqR, Qred_correct. Qed.
Lemma q2c_zero a : Qeq_bool a 0%Q = true -> q2c a = 0.
Proof. intros H. apply Qeq_bool_eq in H. unfold q2c. rewrite (Qeq_eqR _ _ H). unfold Q2R; cbn. f_equal. field. Qed.

(* ---------- monomials ---------- *)
Section Eval.
  Variable hz : Z.
  Variable rho : env.
  Hypothesis G : good_env hz rho.

  Lemma eeval_eadd a : forall b k, eeval rho k (eadd a b) = eeval rho k a * eeval rho k b.
  Proof.
    induction a as [|x a IH]; intros b k; [cbn; ring|].
    destruct b as [|y b]; [cbn; ring|]. cbn [eadd eeval].
    rewrite (zpow_add _ (ge_unit _ _ G k)), IH. ring.
  Qed.

  Lemma eeval_estrip e : forall k, eeval rho k (estrip e) = eeval rho k e.
  Proof.
    induction e as [|x e IH]; intros k; [reflexivity|]. cbn [estrip eeval]. specialize (IH (S k)).
    destruct (estrip e) as [|y r] eqn:E.
    - rewrite <- IH. destruct (x =? 0)%Z eqn:X; [apply Z.eqb_eq in X; subst; cbn; ring | reflexivity].
    - cbn [eeval] in *. rewrite IH. reflexivity.
  Qed.

  Lemma eeqb_eq a : forall b, eeqb a b = true -> a = b.
  Proof.
    induction a as [|x a IH]; intros [|y b] H; try discriminate; [reflexivity|].
    cbn in H. apply andb_prop in H as [H1 H2]. apply Z.eqb_eq in H1. f_equal; auto.
  Qed.

  Lemma eeval_opp e : forall k, Cconj (eeval rho k e) = eeval rho k (map Z.opp e).
  Proof.
    induction e as [|x e IH]; intros k; cbn [map eeval]; [apply Cconj_RtoC|].
    rewrite Cconj_mult, IH, (zpow_conj _ _ (ge_conj _ _ G k)). reflexivity.
  Qed.

  (* ---------- polynomials ---------- *)
  Lemma peval_nil : peval rho [] = 0.
  Proof. reflexivity. Qed.
  Lemma peval_cons t p : peval rho (t :: p) = teval rho t + peval rho p.
  Proof. reflexivity. Qed.

  Ltac pcons := repeat match goal with
    | |- context [peval ?r (?t :: ?p)] => change (peval r (t :: p)) with (teval r t + peval r p)
    | |- context [peval ?r nil] => change (peval r nil) with (RtoC 0) end.

  Lemma peval_app p q : peval rho (p ++ q) = peval rho p + peval rho q.
  Proof.
    induction p as [|t p IH]; [cbn [app]; pcons; ring|].
    cbn [app]. pcons; rewrite IH. ring.
  Qed.

  Lemma peval_padd p q : peval rho (padd p q) = peval rho p + peval rho q.
  Proof. apply peval_app. Qed.

  Lemma teval_tmul s t : teval rho (tmul s t) = teval rho s * teval rho t.
  Proof. unfold teval, tmul. cbn [fst snd]. rewrite q2c_red, q2c_mult, eeval_eadd. ring. Qed.

  Lemma peval_map_tmul s q : peval rho (map (tmul s) q) = teval rho s * peval rho q.
  Proof.
    induction q as [|t q IH]; cbn [map]; [pcons; ring|].
    pcons; rewrite IH, teval_tmul. ring.
  Qed.

  Lemma peval_pmul p q : peval rho (pmul p q) = peval rho p * peval rho q.
  Proof.
    unfold pmul. induction p as [|s p IH]; cbn [flat_map]; [pcons; ring|].
    rewrite peval_app, IH, peval_map_tmul. pcons. ring.
  Qed.

  Lemma peval_pneg p : peval rho (pneg p) = - peval rho p.
  Proof.
    unfold pneg. induction p as [|t p IH]; cbn [map]; [pcons; ring|].
    pcons; rewrite IH. unfold teval; cbn [fst snd]. rewrite q2c_opp. ring.
  Qed.

  Lemma peval_pscale c p : peval rho (pscale c p) = q2c c * peval rho p.
  Proof.
    unfold pscale. induction p as [|t p IH]; cbn [map]; [pcons; ring|].
    pcons; rewrite IH. unfold teval; cbn [fst snd]. rewrite q2c_red, q2c_mult. ring.
  Qed.

  Lemma peval_pconj p : peval rho (pconj p) = Cconj (peval rho p).
  Proof.
    unfold pconj. induction p as [|t p IH]; cbn [map]; [pcons; symmetry; apply Cconj_RtoC|].
    pcons; rewrite IH, Cconj_plus. f_equal. unfold teval; cbn [fst snd]. rewrite Cconj_mult, eeval_opp.
    unfold q2c. now rewrite Cconj_RtoC.
  Qed.

  Lemma q2c_1 : q2c 1%Q = 1.
  Proof. unfold q2c, Q2R; cbn. f_equal. field. Qed.
  Lemma peval_pconst c : peval rho (pconst c) = q2c c.
  Proof. unfold pconst. pcons. unfold teval; cbn [fst snd eeval]. ring. Qed.
  Lemma peval_pone : peval rho pone = 1.
  Proof. unfold pone. pcons. unfold teval; cbn [fst snd eeval]. rewrite q2c_1. ring. Qed.
  Lemma peval_pzero : peval rho pzero = 0.
  Proof. reflexivity. Qed.

  (* ---------- normalisation ---------- *)
  Lemma teval_zreduce t : teval rho (zreduce hz t) = teval rho t.
  Proof.
    unfold zreduce. destruct t as [c e]. cbn [snd fst]. destruct e as [|e0 r]; [reflexivity|].
    unfold teval. cbn [fst snd eeval].
    pose proof (ge_hz _ _ G) as Hpos.
    assert (E : e0 = (hz * (e0 / hz) + e0 mod hz)%Z) by (apply Z.div_mod; lia).
    rewrite E at 3. rewrite (zpow_add _ (ge_unit _ _ G 0%nat)).
    rewrite (zpow_hz_mul _ hz (ge_unit _ _ G 0%nat) (ge_zeta _ _ G)).
    unfold sgn. destruct (Z.even (e0 / hz)); [ring | rewrite q2c_opp; ring].
  Qed.

  Lemma peval_tinsert t acc : peval rho (tinsert t acc) = teval rho t + peval rho acc.
  Proof.
    induction acc as [|u r IH]; [reflexivity|]. cbn [tinsert].
    destruct (eeqb (snd t) (snd u)) eqn:E.
    - apply eeqb_eq in E. pcons. unfold teval; cbn [fst snd]. rewrite q2c_red, q2c_plus, E. ring.
    - pcons; rewrite IH. ring.
  Qed.

  Lemma peval_filter p : peval rho (filter nonzero p) = peval rho p.
  Proof.
    induction p as [|t p IH]; [reflexivity|]. cbn [filter]. unfold nonzero at 1.
    destruct (Qeq_bool (fst t) 0) eqn:E; cbn [negb].
    - rewrite IH. pcons. unfold teval. rewrite (q2c_zero _ E). ring.
    - pcons. now rewrite IH.
  Qed.

  Lemma peval_pnorm p : peval rho (pnorm hz p) = peval rho p.
  Proof.
    unfold pnorm. rewrite peval_filter. induction p as [|t p IH]; [reflexivity|].
    cbn [fold_right]. rewrite peval_tinsert, IH. pcons. f_equal.
    rewrite <- (teval_zreduce t). unfold teval; cbn [fst snd]. now rewrite eeval_estrip.
  Qed.

  Lemma pis_zero_sound p : pis_zero hz p = true -> peval rho p = 0.
  Proof.
    unfold pis_zero. intros H. rewrite <- peval_pnorm. destruct (pnorm hz p); [reflexivity | discriminate].
  Qed.

  Theorem peqb_sound p q : peqb hz p q = true -> peval rho p = peval rho q.
  Proof.
    unfold peqb. intros H. apply pis_zero_sound in H. rewrite peval_padd, peval_pneg in H.
    transitivity (peval rho q + (peval rho p + - peval rho q)); [ring | rewrite H; ring].
  Qed.

  Lemma peval_nadd p q : peval rho (nadd hz p q) = peval rho p + peval rho q.
  Proof. unfold nadd. now rewrite peval_pnorm, peval_padd. Qed.
  Lemma peval_nmul p q : peval rho (nmul hz p q) = peval rho p * peval rho q.
  Proof. unfold nmul. now rewrite peval_pnorm, peval_pmul. Qed.
End Eval.
