(* Model of the result-structure convention of PennyLane (property C32).
   Transcribed from
     pennylane/measurements/{expval,var,probs,sample,state}.py : <MP>.shape(shots, num_device_wires)
     pennylane/workflow/interfaces/jax_jit.py : _result_shape_dtype_struct, _jac_shape_dtype_struct
   (QuantumScript.shape no longer exists at the pinned commit; _result_shape_dtype_struct is the
   in-repo function that states the result structure of a tape on a device.)
   No proofs here: this file must keep running for the correspondence check. *)
From Coq Require Import List ZArith Bool.
Import ListNotations.
Open Scope Z_scope.

(* ---- shape trees ---- *)
Inductive tree :=
| Leaf (d : list Z)          (* an array-like of that shape *)
| Opaque                     (* a counts dictionary *)
| Tup (l : list tree).       (* a Python tuple *)

(* ---- the request ---- *)
(* k = number of wires the measurement names; k = 0 : no wires given (all device wires) *)
Inductive mkind :=
| KExpval | KVar
| KProbs (k : Z)
| KSample (k : Z)            (* computational-basis samples *)
| KSampleObs                 (* samples of an observable *)
| KCounts
| KState
| KDM (k : Z).

(* shots: None, or the expanded list of shot counts (list(Shots(spec)), the subject of C44) *)
Inductive sspec := NoShots | ShotList (l : list Z).

Record request := mkReq { r_shots : sspec; r_wires : Z (* num_device_wires *);
                          r_batch : option Z; r_mps : list mkind }.

(* ---- <MP>.shape(shots, num_device_wires); None = MeasurementShapeError / not defined ---- *)
Definition falsy (s : option Z) : bool := match s with None => true | Some z => z =? 0 end.

Definition mp_shape (shots : option Z) (n : Z) (m : mkind) : option (list Z) :=
  match m with
  | KExpval => Some []
  | KVar => Some []
  | KProbs k => Some [2 ^ (if 0 <? k then k else n)]
  | KSample k => if falsy shots then None
                 else match shots with Some s => Some [s; if 0 <? k then k else n] | None => None end
  | KSampleObs => if falsy shots then None
                  else match shots with Some s => Some [s] | None => None end
  | KCounts => None                       (* base class: "shape ... is not defined" *)
  | KState => Some [2 ^ n]
  | KDM k => Some [2 ^ k; 2 ^ k]
  end.

Fixpoint repeat_t (t : tree) (n : nat) : list tree := match n with O => [] | S k => t :: repeat_t t k end.

Definition truthy (b : option Z) : bool := match b with None => false | Some z => negb (z =? 0) end.

(* struct(mp, shots) inside _result_shape_dtype_struct *)
Definition struct (n : Z) (B : option Z) (shots : option Z) (m : mkind) : option tree :=
  match m with
  | KCounts => Some (match B with
                     | Some b => if b =? 0 then Opaque else Tup (repeat_t Opaque (Z.to_nat b))
                     | None => Opaque end)
  | _ => match mp_shape shots n m with
         | None => None
         | Some d => Some (Leaf (match B with Some b => if b =? 0 then d else b :: d | None => d end))
         end
  end.

Fixpoint all_some {A} (l : list (option A)) : option (list A) :=
  match l with
  | [] => Some []
  | None :: _ => None
  | Some x :: r => match all_some r with None => None | Some r' => Some (x :: r') end
  end.

(* for s in tape.shots if tape.shots else [None] *)
Definition shots_iter (sp : sspec) : list (option Z) :=
  match sp with NoShots => [None] | ShotList l => map Some l end.
(* tape.shots.has_partitioned_shots (for the expanded list: more than one entry; C44 partitioned_iff) *)
Definition partitioned (sp : sspec) : bool :=
  match sp with NoShots => false | ShotList l => (1 <? Z.of_nat (length l)) end.

(* shots_shape = tuple(struct(mp, s) for mp in measurements);  shots_shape[0] if len == 1 *)
Definition per_shot (n : Z) (B : option Z) (ms : list mkind) (s : option Z) : option tree :=
  match all_some (map (struct n B s) ms) with
  | None => None
  | Some ts => Some (match ts with [t] => t | _ => Tup ts end)
  end.

(* _result_shape_dtype_struct(tape, device) *)
Definition result_shape (r : request) : option tree :=
  match all_some (map (per_shot (r_wires r) (r_batch r) (r_mps r)) (shots_iter (r_shots r))) with
  | None => None
  | Some cs => if partitioned (r_shots r) then Some (Tup cs) else hd_error cs
  end.

(* a batch of circuits: qp.execute(tapes, ...) returns one entry per tape *)
Definition batch_shape (rs : list request) : option tree :=
  match all_some (map result_shape rs) with None => None | Some ts => Some (Tup ts) end.

(* ---- Jacobians ---- *)
(* documented convention (what param_shift / finite_diff / adjoint / backprop through the
   interfaces produce): the nesting of the result; at each leaf a tuple over the trainable
   parameters - not wrapped when there is exactly one - whose entries have the leaf's shape
   followed by the parameter's own axes *)
Definition jac_leaf (d : list Z) (ps : list (list Z)) : tree :=
  match ps with
  | [p] => Leaf (d ++ p)
  | _ => Tup (map (fun p => Leaf (d ++ p)) ps)
  end.

Fixpoint jac_tree (ps : list (list Z)) (t : tree) : tree :=
  match t with
  | Leaf d => jac_leaf d ps
  | Opaque => Opaque
  | Tup l => Tup (map (jac_tree ps) l)
  end.

Definition jac_shape (r : request) (ps : list (list Z)) : option tree :=
  match result_shape r with None => None | Some t => Some (jac_tree ps t) end.

(* _jac_shape_dtype_struct(tape, device): P scalar trainable parameters *)
Definition jac_struct (r : request) (P : nat) : option tree :=
  match result_shape r with
  | None => None
  | Some t =>
      if Nat.eqb P 1 then Some t
      else if Nat.eqb (length (r_mps r)) 1 then Some (Tup (repeat_t t P))
      else match t with
           | Tup l => Some (Tup (map (fun s => Tup (repeat_t s P)) l))
           | _ => None                     (* iterating a ShapeDtypeStruct raises *)
           end
  end.

(* ---- configurations: present only to state that the expected structure ignores them ---- *)
Inductive device := DefaultQubit | DefaultMixed | ReferenceQubit | NullQubit.
Inductive iface := INumpy | IAutograd | IJax | ITorch.
Inductive diffm := DNone | DBackprop | DParamShift | DAdjoint | DFiniteDiff.
Definition config := (device * iface * diffm)%type.

Inductive ccase :=
| CRes (c : config) (r : request)                         (* QNode / execute result *)
| CBatch (c : config) (rs : list request)                 (* several tapes in one execute call *)
| CJac (c : config) (r : request) (ps : list (list Z))    (* Jacobian *)
| CStruct (r : request)                                   (* _result_shape_dtype_struct itself *)
| CJacStruct (r : request) (P : nat).                     (* _jac_shape_dtype_struct itself *)

Definition expected (c : ccase) : option tree :=
  match c with
  | CRes _ r => result_shape r
  | CBatch _ rs => batch_shape rs
  | CJac _ r ps => jac_shape r ps
  | CStruct r => result_shape r
  | CJacStruct r P => jac_struct r P
  end.

(* ---- decidable comparison ---- *)
Fixpoint eq_lz (a b : list Z) : bool :=
  match a, b with [], [] => true | x :: r, y :: s => (x =? y) && eq_lz r s | _, _ => false end.

Fixpoint eq_tree (a b : tree) : bool :=
  match a, b with
  | Leaf x, Leaf y => eq_lz x y
  | Opaque, Opaque => true
  | Tup l, Tup m =>
      (fix go (l m : list tree) : bool :=
         match l, m with
         | [], [] => true
         | x :: r, y :: s => eq_tree x y && go r s
         | _, _ => false
         end) l m
  | _, _ => false
  end.

Definition eq_otree (a b : option tree) : bool :=
  match a, b with None, None => true | Some x, Some y => eq_tree x y | _, _ => false end.

(* observed = None : the implementation raised *)
Definition check_case (c : ccase * option tree) : bool := eq_otree (expected (fst c)) (snd c).
