(* Model of pennylane/estimator/estimate.py (the counting recursion
   _update_counts_from_compressed_res_op, _get_resource_decomposition,
   _get_symbolic_resource_decomposition, apply_default_symbolic_decomp, the three workflow
   entry points) and of pennylane/estimator/wires_manager.py (WireResourceManager).
   No proofs here: this file must keep running for the correspondence check even when a proof
   elsewhere breaks.

   A CompressedResourceOp is a [rop]: a non-symbolic operator is [Base c] (c = a code the harness
   assigns to each distinct (op_type, num_wires, params)), the symbolic wrappers Adjoint /
   Controlled / Pow are constructors.  Everything the operator CLASSES compute (resource_decomp,
   overridden adjoint_/controlled_/pow_resource_decomp, tracking names) is an ORACLE: an explicit
   function argument whose values the harness records from the real classes. *)
From Coq Require Import List ZArith Bool.
Import ListNotations.
Open Scope Z_scope.

Inductive rop :=
| Base (c : Z)
| Adj (b : rop)
| Ctrl (b : rop) (n z : Z)          (* num_ctrl_wires, num_zero_ctrl *)
| PowO (b : rop) (p : Z).

(* CompressedResourceOp.name: class tracking name for a base op, structural for the wrappers
   ("Adjoint(..)", "C(.., num_ctrl_wires=n,num_zero_ctrl=z)", "Pow(.., p)") *)
Inductive name :=
| NBase (k : Z)
| NAdj (n : name)
| NCtrl (n : name) (c z : Z)
| NPow (n : name) (p : Z).

Inductive action :=
| AGate (g : rop) (c : Z)           (* GateCount(gate, count) *)
| AAlloc (n : Z)                    (* Allocate(n) *)
| ADealloc (n : Z).                 (* Deallocate(n) *)

(* answer of an oracle query *)
Inductive dres :=
| DMissing                          (* the harness did not record this query (never expected) *)
| DRaise                            (* the class method raises *)
| DNone                             (* the class does not override the symbolic method *)
| DList (l : list action).

Record oracle := mkOracle {
  o_name : Z -> Z;                  (* base code -> code of its tracking name *)
  o_decomp : Z -> dres;             (* cls.resource_decomp(params) *)
  o_adj : Z -> dres;                (* cls.adjoint_resource_decomp(target_resource_params) *)
  o_ctrl : Z -> Z -> Z -> dres;     (* cls.controlled_resource_decomp(n, z, target_resource_params) *)
  o_pow : Z -> Z -> dres;           (* cls.pow_resource_decomp(p, target_resource_params) *)
  o_x : Z                           (* base code of X.resource_rep() *)
}.

(* ---------- decidable equalities ---------- *)
Fixpoint rop_eqb (a b : rop) : bool :=
  match a, b with
  | Base c, Base c' => c =? c'
  | Adj x, Adj y => rop_eqb x y
  | Ctrl x n z, Ctrl y n' z' => rop_eqb x y && (n =? n') && (z =? z')
  | PowO x p, PowO y p' => rop_eqb x y && (p =? p')
  | _, _ => false
  end.

Fixpoint name_eqb (a b : name) : bool :=
  match a, b with
  | NBase c, NBase c' => c =? c'
  | NAdj x, NAdj y => name_eqb x y
  | NCtrl x n z, NCtrl y n' z' => name_eqb x y && (n =? n') && (z =? z')
  | NPow x p, NPow y p' => name_eqb x y && (p =? p')
  | _, _ => false
  end.

Fixpoint name_of (D : oracle) (r : rop) : name :=
  match r with
  | Base c => NBase (o_name D c)
  | Adj b => NAdj (name_of D b)
  | Ctrl b n z => NCtrl (name_of D b) n z
  | PowO b p => NPow (name_of D b) p
  end.

Definition in_set (gs : list name) (n : name) : bool := existsb (name_eqb n) gs.

(* ---------- symbolic decompositions ---------- *)
(* apply_adj (singledispatch on GateCount / Allocate / Deallocate) *)
Definition apply_adj (a : action) : action :=
  match a with
  | AGate g c => AGate (Adj g) c
  | AAlloc n => ADealloc n
  | ADealloc n => AAlloc n
  end.
(* _default_adjoint_decomp: [apply_adj(gate) for gate in reversed(base_resource_decomp)] *)
Definition default_adj (l : list action) : list action := map apply_adj (rev l).

(* apply_controlled(action, num_ctrl_wires, 0) *)
Definition apply_ctrl (n : Z) (a : action) : action :=
  match a with AGate g c => AGate (Ctrl g n 0) c | _ => a end.
(* _default_controlled_decomp *)
Definition default_ctrl (x n z : Z) (l : list action) : list action :=
  (if z =? 0 then [] else [AGate (Base x) (2 * z)]) ++ map (apply_ctrl n) l.

Definition lift (f : list action -> list action) (d : dres) : dres :=
  match d with DList l => DList (f l) | _ => d end.

(* apply_default_symbolic_decomp for Pow: the base decomposition has already been computed
   (and may have raised); negative powers raise NotImplementedError *)
Definition pow_default (b : rop) (p : Z) (d : dres) : dres :=
  match d with
  | DList _ => if p <? 0 then DRaise else DList [AGate b p]
  | _ => d
  end.

(* _get_resource_decomposition / _get_symbolic_resource_decomposition (default ResourceConfig:
   no custom decompositions).  The wrappers' own overrides are structural:
   Adjoint.adjoint_resource_decomp, Controlled.controlled_resource_decomp, Pow.pow_resource_decomp. *)
Fixpoint get_decomp (D : oracle) (r : rop) : dres :=
  match r with
  | Base c => o_decomp D c
  | Adj b =>
      match b with
      | Base c => match o_adj D c with
                  | DNone => lift default_adj (get_decomp D b)
                  | d => d
                  end
      | Adj bb => DList [AGate bb 1]
      | _ => lift default_adj (get_decomp D b)
      end
  | Ctrl b n z =>
      match b with
      | Base c => match o_ctrl D c n z with
                  | DNone => lift (default_ctrl (o_x D) n z) (get_decomp D b)
                  | d => d
                  end
      | Ctrl bb n' z' => DList [AGate (Ctrl bb (n' + n) (z' + z)) 1]
      | _ => lift (default_ctrl (o_x D) n z) (get_decomp D b)
      end
  | PowO b p =>
      match b with
      | Base c => match o_pow D c p with
                  | DNone => pow_default b p (get_decomp D b)
                  | d => d
                  end
      | PowO bb p' => DList [AGate (PowO bb (p * p')) 1]
      | _ => pow_default b p (get_decomp D b)
      end
  end.

(* ---------- WireResourceManager ---------- *)
Record wmgr := mkWM { zeroed : Z; any_state : Z; algo : Z; tight : bool }.

Definition total (m : wmgr) : Z := zeroed m + any_state m + algo m.

(* grab_zeroed: None = ValueError *)
Definition grab (n : Z) (m : wmgr) : option wmgr :=
  if n >? zeroed m then
    (if tight m then None else Some (mkWM 0 (any_state m + n) (algo m) (tight m)))
  else Some (mkWM (zeroed m - n) (any_state m + n) (algo m) (tight m)).

(* free_wires: None = ValueError *)
Definition free (n : Z) (m : wmgr) : option wmgr :=
  if n >? any_state m then None
  else Some (mkWM (zeroed m + n) (any_state m - n) (algo m) (tight m)).

(* an allocate/free history on the manager *)
Inductive req := RGrab (n : Z) | RFree (n : Z).

Definition do_req (r : req) (m : wmgr) : option wmgr :=
  match r with RGrab n => grab n m | RFree n => free n m end.

Fixpoint run_hist (h : list req) (m : wmgr) : option wmgr :=
  match h with
  | [] => Some m
  | r :: t => match do_req r m with Some m' => run_hist t m' | None => None end
  end.

(* index of the request that raises (-1 = none) and the state at that point / at the end *)
Fixpoint run_hist_idx (i : Z) (h : list req) (m : wmgr) : Z * wmgr :=
  match h with
  | [] => (-1, m)
  | r :: t => match do_req r m with Some m' => run_hist_idx (i + 1) t m' | None => (i, m) end
  end.

(* ---------- gate_counts_dict (a defaultdict(int) keyed by CompressedResourceOp) ---------- *)
Definition counts := list (rop * Z).

(* gate_counts_dict[r] += k   (insertion order kept; a missing key is created, even for k = 0) *)
Fixpoint bump (r : rop) (k : Z) (cs : counts) : counts :=
  match cs with
  | [] => [(r, k)]
  | (r', v) :: t => if rop_eqb r r' then (r', v + k) :: t else (r', v) :: bump r k t
  end.

(* gate_counts_dict.get(x, 0) *)
Fixpoint count_of (cs : counts) (x : rop) : Z :=
  match cs with
  | [] => 0
  | (r, v) :: t => if rop_eqb x r then v else count_of t x
  end.

(* ---------- the counting recursion ---------- *)
Inductive err := EDecomp | EWire | EFuel | EMissing.
Inductive res (A : Type) := Ok (a : A) | Err (e : err).
Arguments Ok {A} a.
Arguments Err {A} e.

Record st := mkSt { cnt : counts; wm : wmgr }.

(* _sum_allocated_wires *)
Definition alloc_step (s : Z) (a : action) : Z :=
  match a with AAlloc n => s + n | ADealloc n => s - n | AGate _ _ => s end.
Definition alloc_sum (l : list action) : Z := fold_left alloc_step l 0.

(* "num_wires = action.num_wires * scalar if qubit_alloc_sum != 0 else action.num_wires" *)
Definition wire_req (q scalar n : Z) : Z := if q =? 0 then n else n * scalar.

Fixpoint run_actions (step : action -> st -> res st) (l : list action) (s : st) : res st :=
  match l with
  | [] => Ok s
  | a :: t => match step a s with Ok s' => run_actions step t s' | Err e => Err e end
  end.

Definition wm_step (o : option wmgr) (s : st) : res st :=
  match o with Some m => Ok (mkSt (cnt s) m) | None => Err EWire end.

(* one iteration of "for action in resource_decomp"; [rec] is the recursive call *)
Definition act_step (rec : rop -> Z -> st -> res st) (q scalar : Z) (a : action) (s : st) : res st :=
  match a with
  | AGate g c => rec g (scalar * c) s
  | AAlloc n => wm_step (grab (wire_req q scalar n) (wm s)) s
  | ADealloc n => wm_step (free (wire_req q scalar n) (wm s)) s
  end.

(* _update_counts_from_compressed_res_op; the Python recursion has no bound, the model has fuel *)
Fixpoint upd (D : oracle) (gs : list name) (fuel : nat) (r : rop) (scalar : Z) (s : st) : res st :=
  match fuel with
  | O => Err EFuel
  | S f =>
      if in_set gs (name_of D r) then Ok (mkSt (bump r scalar (cnt s)) (wm s))
      else match get_decomp D r with
           | DList l => run_actions (act_step (upd D gs f) (alloc_sum l) scalar) l s
           | DMissing => Err EMissing
           | _ => Err EDecomp
           end
  end.

(* the loop over the workflow: (operator, scalar) pairs processed left to right *)
Fixpoint est_items (D : oracle) (gs : list name) (fuel : nat) (items : list (rop * Z)) (s : st) : res st :=
  match items with
  | [] => Ok s
  | (r, k) :: t => match upd D gs fuel r k s with
                   | Ok s' => est_items D gs fuel t s'
                   | Err e => Err e
                   end
  end.

(* ---------- the pure wire-request trace of the recursion (does not look at the manager) ---------- *)
Fixpoint tr_actions (rec : rop -> Z -> option (list req)) (q scalar : Z) (l : list action) : option (list req) :=
  match l with
  | [] => Some []
  | a :: t =>
      match (match a with
             | AGate g c => rec g (scalar * c)
             | AAlloc n => Some [RGrab (wire_req q scalar n)]
             | ADealloc n => Some [RFree (wire_req q scalar n)]
             end), tr_actions rec q scalar t with
      | Some h1, Some h2 => Some (h1 ++ h2)
      | _, _ => None
      end
  end.

Fixpoint trace (D : oracle) (gs : list name) (fuel : nat) (r : rop) (scalar : Z) : option (list req) :=
  match fuel with
  | O => None
  | S f =>
      if in_set gs (name_of D r) then Some []
      else match get_decomp D r with
           | DList l => tr_actions (trace D gs f) (alloc_sum l) scalar l
           | _ => None
           end
  end.

Fixpoint trace_items (D : oracle) (gs : list name) (fuel : nat) (items : list (rop * Z)) : option (list req) :=
  match items with
  | [] => Some []
  | (r, k) :: t => match trace D gs fuel r k, trace_items D gs fuel t with
                   | Some h1, Some h2 => Some (h1 ++ h2)
                   | _, _ => None
                   end
  end.

(* ---------- workflows ---------- *)
(* a queued operator: its compressed representation, op.wires ([] = None/empty), op.num_wires *)
Record qop := mkQ { q_op : rop; q_wires : list Z; q_nw : Z }.

Inductive workflow :=
| WQ (q : list qop)                         (* a quantum function: the queue *)
| WR (al : Z) (items : list (rop * Z))      (* a Resources object: algo_wires, gate_types.items() *)
| WOp (r : rop) (nw : Z).                   (* a single ResourceOperator: 1 * op *)

Fixpoint memZ (x : Z) (l : list Z) : bool :=
  match l with [] => false | y :: t => (x =? y) || memZ x t end.

(* Wires.all_wires: ordered union *)
Fixpoint add_wires (acc w : list Z) : list Z :=
  match w with [] => acc | x :: t => add_wires (if memZ x acc then acc else acc ++ [x]) t end.

(* the wire-counting loop of _resources_from_qfunc *)
Fixpoint queue_scan (q : list qop) (mx : Z) (ws : list Z) : Z * list Z :=
  match q with
  | [] => (mx, ws)
  | o :: t => match q_wires o with
              | [] => queue_scan t (if q_nw o =? 0 then mx else Z.max mx (q_nw o)) ws
              | w => queue_scan t mx (add_wires ws w)
              end
  end.
Definition algo_of_queue (q : list qop) : Z :=
  let '(mx, ws) := queue_scan q 0 [] in mx + Z.of_nat (length ws).

Definition wf_items (w : workflow) : list (rop * Z) :=
  match w with
  | WQ q => map (fun o => (q_op o, 1)) q
  | WR _ items => items
  | WOp r _ => [(r, 1)]
  end.
Definition wf_algo (w : workflow) : Z :=
  match w with WQ q => algo_of_queue q | WR al _ => al | WOp _ nw => nw end.

(* estimate(workflow, gate_set, zeroed_wires, any_state_wires, tight_wires_budget) *)
Definition estimate (D : oracle) (gs : list name) (fuel : nat) (w : workflow) (z a : Z) (tb : bool) : res st :=
  est_items D gs fuel (wf_items w) (mkSt [] (mkWM z a (wf_algo w) tb)).

(* ---------- table-backed oracles and the correspondence check ---------- *)
Fixpoint lookupZ {A} (d : A) (k : Z) (l : list (Z * A)) : A :=
  match l with [] => d | (k', v) :: t => if k =? k' then v else lookupZ d k t end.
Fixpoint lookupZZ {A} (d : A) (k1 k2 : Z) (l : list (Z * Z * A)) : A :=
  match l with [] => d | (a, b, v) :: t => if (k1 =? a) && (k2 =? b) then v else lookupZZ d k1 k2 t end.
Fixpoint lookupZZZ {A} (d : A) (k1 k2 k3 : Z) (l : list (Z * Z * Z * A)) : A :=
  match l with
  | [] => d
  | (a, b, c, v) :: t => if (k1 =? a) && (k2 =? b) && (k3 =? c) then v else lookupZZZ d k1 k2 k3 t
  end.

Definition table_oracle (names : list (Z * Z)) (dec adj : list (Z * dres))
           (ctl : list (Z * Z * Z * dres)) (pw : list (Z * Z * dres)) (x : Z) : oracle :=
  mkOracle (fun c => lookupZ (-1) c names)
           (fun c => lookupZ DMissing c dec)
           (fun c => lookupZ DMissing c adj)
           (fun c n z => lookupZZZ DMissing c n z ctl)
           (fun c p => lookupZZ DMissing c p pw)
           x.

(* observation of a Resources result: gate_types items, zeroed, any_state, algo *)
Definition obs := option (counts * Z * Z * Z).

Definition observe (r : res st) : option obs :=
  match r with
  | Ok s => Some (Some (cnt s, zeroed (wm s), any_state (wm s), algo (wm s)))
  | Err EDecomp | Err EWire => Some None
  | Err EFuel | Err EMissing => None          (* never comparable: a harness problem *)
  end.

Fixpoint lookup_cnt (cs : counts) (x : rop) : option Z :=
  match cs with [] => None | (r, v) :: t => if rop_eqb x r then Some v else lookup_cnt t x end.

(* same dictionary: same key set, same values (zero-valued entries are significant), any order *)
Definition counts_eqb (a b : counts) : bool :=
  (Nat.eqb (length a) (length b)) &&
  forallb (fun p => match lookup_cnt b (fst p) with Some v => v =? snd p | None => false end) a &&
  forallb (fun p => match lookup_cnt a (fst p) with Some v => v =? snd p | None => false end) b.

Definition obs_eqb (a b : obs) : bool :=
  match a, b with
  | None, None => true
  | Some (c, z, y, g), Some (c', z', y', g') => counts_eqb c c' && (z =? z') && (y =? y') && (g =? g')
  | _, _ => false
  end.

Definition model_fuel : nat := 200%nat.

Record ecase := mkE { e_gs : list name; e_wf : workflow; e_z : Z; e_a : Z; e_tight : bool }.

Definition check_case (D : oracle) (c : ecase * obs) : bool :=
  match observe (estimate D (e_gs (fst c)) model_fuel (e_wf (fst c)) (e_z (fst c)) (e_a (fst c)) (e_tight (fst c))) with
  | Some o => obs_eqb o (snd c)
  | None => false
  end.

(* wire-manager histories: (initial manager, history) vs (failing index, zeroed, any_state, algo, total) *)
Definition check_hist (c : (wmgr * list req) * (Z * Z * Z * Z * Z)) : bool :=
  let '(i, m) := run_hist_idx 0 (snd (fst c)) (fst (fst c)) in
  let '(i', z, a, g, t) := snd c in
  (i =? i') && (zeroed m =? z) && (any_state m =? a) && (algo m =? g) && (total m =? t).
