(* C16: lemmas about the model in Disc/RingsModel.v *)
From Coq Require Import List ZArith Bool Lia ZifyBool Zpow_facts Znumtheory.
From PLV Require Import Disc.RingsModel.
Import ListNotations.
Open Scope Z_scope.

Ltac ds x := destruct x as [? ?].
Ltac dz x := destruct x as [? ? ? ?].
Ltac zs_ring := unfold zs_rsubz, zs_sub, zs_add, zs_mul, zs_neg, zs_adj2, zs_conj, zs_mulz, zs_addz,
                  zs_one, zs_zero, zs_abs; cbn [sa sb]; try (f_equal; ring).
Ltac zo_ring := unfold zo_rsubz, zo_norm, zo_sub, zo_add, zo_mul, zo_neg, zo_adj2, zo_conj, zo_mulz, zo_addz,
                  zo_one, zo_zero, zo_abs, zs_to_omega; cbn [oa ob oc od sa sb]; try (f_equal; ring).

(* ------------------------------------------------------------------ Z[sqrt2] is a commutative ring *)
Lemma zs_add_comm x y : zs_add x y = zs_add y x. Proof. ds x; ds y; zs_ring. Qed.
Lemma zs_add_assoc x y z : zs_add (zs_add x y) z = zs_add x (zs_add y z). Proof. ds x; ds y; ds z; zs_ring. Qed.
Lemma zs_add_0_r x : zs_add x zs_zero = x. Proof. ds x; zs_ring. Qed.
Lemma zs_add_0_l x : zs_add zs_zero x = x. Proof. ds x; zs_ring. Qed.
Lemma zs_add_neg x : zs_add x (zs_neg x) = zs_zero. Proof. ds x; zs_ring. Qed.
Lemma zs_mul_comm x y : zs_mul x y = zs_mul y x. Proof. ds x; ds y; zs_ring. Qed.
Lemma zs_mul_assoc x y z : zs_mul (zs_mul x y) z = zs_mul x (zs_mul y z). Proof. ds x; ds y; ds z; zs_ring. Qed.
Lemma zs_mul_1_r x : zs_mul x zs_one = x. Proof. ds x; zs_ring. Qed.
Lemma zs_mul_1_l x : zs_mul zs_one x = x. Proof. ds x; zs_ring. Qed.
Lemma zs_mul_0_r x : zs_mul x zs_zero = zs_zero. Proof. ds x; zs_ring. Qed.
Lemma zs_distr_l x y z : zs_mul x (zs_add y z) = zs_add (zs_mul x y) (zs_mul x z). Proof. ds x; ds y; ds z; zs_ring. Qed.
Lemma zs_distr_r x y z : zs_mul (zs_add x y) z = zs_add (zs_mul x z) (zs_mul y z). Proof. ds x; ds y; ds z; zs_ring. Qed.
Lemma zs_sub_diag x : zs_sub x x = zs_zero. Proof. ds x; zs_ring. Qed.
Lemma zs_neg_mul x y : zs_mul (zs_neg x) y = zs_neg (zs_mul x y). Proof. ds x; ds y; zs_ring. Qed.
Lemma zs_neg_neg x : zs_neg (zs_neg x) = x. Proof. ds x; zs_ring. Qed.
Lemma zs_mulz_embed x n : zs_mulz x n = zs_mul x (ZS n 0). Proof. ds x; zs_ring. Qed.
Lemma zs_addz_embed x n : zs_addz x n = zs_add x (ZS n 0). Proof. ds x; zs_ring. Qed.
Lemma zs_rsubz_embed x n : zs_rsubz n x = zs_sub (ZS n 0) x. Proof. ds x; zs_ring. Qed.
(* conjugations *)
Lemma zs_conj_id x : zs_conj x = x. Proof. ds x; reflexivity. Qed.
Lemma zs_adj2_invol x : zs_adj2 (zs_adj2 x) = x. Proof. ds x; zs_ring. Qed.
Lemma zs_adj2_add x y : zs_adj2 (zs_add x y) = zs_add (zs_adj2 x) (zs_adj2 y). Proof. ds x; ds y; zs_ring. Qed.
Lemma zs_adj2_mul x y : zs_adj2 (zs_mul x y) = zs_mul (zs_adj2 x) (zs_adj2 y). Proof. ds x; ds y; zs_ring. Qed.
Lemma zs_adj2_neg x : zs_adj2 (zs_neg x) = zs_neg (zs_adj2 x). Proof. ds x; zs_ring. Qed.
Lemma zs_adj2_one : zs_adj2 zs_one = zs_one. Proof. reflexivity. Qed.
(* norm *)
Lemma zs_abs_mul x y : zs_abs (zs_mul x y) = zs_abs x * zs_abs y. Proof. ds x; ds y; zs_ring; ring. Qed.
Lemma zs_abs_adj2 x : zs_abs (zs_adj2 x) = zs_abs x. Proof. ds x; zs_ring; ring. Qed.
Lemma zs_abs_one : zs_abs zs_one = 1. Proof. reflexivity. Qed.
Lemma zs_mul_adj2 x : zs_mul x (zs_adj2 x) = ZS (zs_abs x) 0. Proof. ds x; zs_ring. Qed.
(* powers *)
Lemma zs_pow_nat_add x m n :
  zs_pow_nat x (S (m + n)) = zs_mul (zs_pow_nat x m) (zs_pow_nat x n).
Proof.
  induction n as [|n IH]; [rewrite Nat.add_0_r; reflexivity|].
  rewrite Nat.add_succ_r. cbn [zs_pow_nat] in *. rewrite IH. apply zs_mul_assoc.
Qed.
Lemma zs_pow_add x p q r s : 0 < p -> 0 < q -> zs_pow x p = Ok r -> zs_pow x q = Ok s ->
  zs_pow x (p + q) = Ok (zs_mul r s).
Proof.
  unfold zs_pow; intros Hp Hq.
  destruct (p =? 0) eqn:E1; [lia|]. destruct (p <? 0) eqn:E2; [lia|].
  destruct (q =? 0) eqn:E3; [lia|]. destruct (q <? 0) eqn:E4; [lia|].
  destruct (p + q =? 0) eqn:E5; [lia|]. destruct (p + q <? 0) eqn:E6; [lia|].
  intros [= <-] [= <-]. f_equal.
  replace (Z.to_nat (p + q - 1)) with (S (Z.to_nat (p - 1) + Z.to_nat (q - 1)))%nat by lia.
  apply zs_pow_nat_add.
Qed.
Lemma zs_pow_0 x : zs_pow x 0 = Ok zs_one. Proof. reflexivity. Qed.
Lemma zs_pow_1 x : zs_pow x 1 = Ok x. Proof. reflexivity. Qed.
Lemma zs_pow_succ x p r : 0 < p -> zs_pow x p = Ok r -> zs_pow x (p + 1) = Ok (zs_mul r x).
Proof. intros Hp H. apply (zs_pow_add x p 1 r x Hp); [lia | exact H | reflexivity]. Qed.
Lemma zs_pow_neg x p : p < 0 -> zs_pow x p = Err.
Proof. intros H; unfold zs_pow. destruct (p =? 0) eqn:E; [lia|]. destruct (p <? 0) eqn:E2; [reflexivity|lia]. Qed.
Lemma zs_abs_pow_nat x n : zs_abs (zs_pow_nat x n) = zs_abs x ^ Z.of_nat (S n).
Proof.
  induction n as [|n IH]; [cbn [zs_pow_nat]; change (Z.of_nat 1) with 1; ring|].
  cbn [zs_pow_nat]. rewrite zs_abs_mul, IH.
  replace (Z.of_nat (S (S n))) with (Z.of_nat (S n) + 1) by lia.
  rewrite Z.pow_add_r by lia. ring.
Qed.

(* ------------------------------------------------------------------ Z[omega] is a commutative ring *)
Lemma zo_add_comm x y : zo_add x y = zo_add y x. Proof. dz x; dz y; zo_ring. Qed.
Lemma zo_add_assoc x y z : zo_add (zo_add x y) z = zo_add x (zo_add y z). Proof. dz x; dz y; dz z; zo_ring. Qed.
Lemma zo_add_0_r x : zo_add x zo_zero = x. Proof. dz x; zo_ring. Qed.
Lemma zo_add_0_l x : zo_add zo_zero x = x. Proof. dz x; zo_ring. Qed.
Lemma zo_add_neg x : zo_add x (zo_neg x) = zo_zero. Proof. dz x; zo_ring. Qed.
Lemma zo_mul_comm x y : zo_mul x y = zo_mul y x. Proof. dz x; dz y; zo_ring. Qed.
Lemma zo_mul_assoc x y z : zo_mul (zo_mul x y) z = zo_mul x (zo_mul y z). Proof. dz x; dz y; dz z; zo_ring. Qed.
Lemma zo_mul_1_r x : zo_mul x zo_one = x. Proof. dz x; zo_ring. Qed.
Lemma zo_mul_1_l x : zo_mul zo_one x = x. Proof. dz x; zo_ring. Qed.
Lemma zo_mul_0_r x : zo_mul x zo_zero = zo_zero. Proof. dz x; zo_ring. Qed.
Lemma zo_distr_l x y z : zo_mul x (zo_add y z) = zo_add (zo_mul x y) (zo_mul x z). Proof. dz x; dz y; dz z; zo_ring. Qed.
Lemma zo_distr_r x y z : zo_mul (zo_add x y) z = zo_add (zo_mul x z) (zo_mul y z). Proof. dz x; dz y; dz z; zo_ring. Qed.
Lemma zo_sub_diag x : zo_sub x x = zo_zero. Proof. dz x; zo_ring. Qed.
Lemma zo_neg_mul x y : zo_mul (zo_neg x) y = zo_neg (zo_mul x y). Proof. dz x; dz y; zo_ring. Qed.
Lemma zo_neg_neg x : zo_neg (zo_neg x) = x. Proof. dz x; zo_ring. Qed.
Lemma zo_mulz_embed x n : zo_mulz x n = zo_mul x (ZO 0 0 0 n). Proof. dz x; zo_ring. Qed.
Lemma zo_addz_embed x n : zo_addz x n = zo_add x (ZO 0 0 0 n). Proof. dz x; zo_ring. Qed.
Lemma zo_rsubz_embed x n : zo_rsubz n x = zo_sub (ZO 0 0 0 n) x. Proof. dz x; zo_ring. Qed.
(* omega is a primitive 8th root of unity: omega^4 = -1 *)
Lemma zo_omega4 : zo_pow (ZO 0 0 1 0) 4 = Ok (zo_neg zo_one). Proof. reflexivity. Qed.
(* sqrt2 = omega - omega^3 squares to 2 *)
Lemma zo_sqrt2_sq : zo_mul (ZO (-1) 0 1 0) (ZO (-1) 0 1 0) = ZO 0 0 0 2. Proof. reflexivity. Qed.
(* conjugations *)
Lemma zo_conj_invol x : zo_conj (zo_conj x) = x. Proof. dz x; zo_ring. Qed.
Lemma zo_conj_add x y : zo_conj (zo_add x y) = zo_add (zo_conj x) (zo_conj y). Proof. dz x; dz y; zo_ring. Qed.
Lemma zo_conj_mul x y : zo_conj (zo_mul x y) = zo_mul (zo_conj x) (zo_conj y). Proof. dz x; dz y; zo_ring. Qed.
Lemma zo_conj_neg x : zo_conj (zo_neg x) = zo_neg (zo_conj x). Proof. dz x; zo_ring. Qed.
Lemma zo_conj_one : zo_conj zo_one = zo_one. Proof. reflexivity. Qed.
Lemma zo_adj2_invol x : zo_adj2 (zo_adj2 x) = x. Proof. dz x; zo_ring. Qed.
Lemma zo_adj2_add x y : zo_adj2 (zo_add x y) = zo_add (zo_adj2 x) (zo_adj2 y). Proof. dz x; dz y; zo_ring. Qed.
Lemma zo_adj2_mul x y : zo_adj2 (zo_mul x y) = zo_mul (zo_adj2 x) (zo_adj2 y). Proof. dz x; dz y; zo_ring. Qed.
Lemma zo_adj2_neg x : zo_adj2 (zo_neg x) = zo_neg (zo_adj2 x). Proof. dz x; zo_ring. Qed.
Lemma zo_adj2_one : zo_adj2 zo_one = zo_one. Proof. reflexivity. Qed.
Lemma zo_conj_adj2 x : zo_conj (zo_adj2 x) = zo_adj2 (zo_conj x). Proof. dz x; zo_ring. Qed.
(* norm *)
Lemma zo_abs_mul x y : zo_abs (zo_mul x y) = zo_abs x * zo_abs y. Proof. dz x; dz y; zo_ring; ring. Qed.
Lemma zo_abs_conj x : zo_abs (zo_conj x) = zo_abs x. Proof. dz x; zo_ring; ring. Qed.
Lemma zo_abs_one : zo_abs zo_one = 1. Proof. reflexivity. Qed.
Lemma zo_norm_mul x y : zo_norm (zo_mul x y) = zo_mul (zo_norm x) (zo_norm y). Proof. dz x; dz y; zo_ring. Qed.
Lemma zo_norm_real x : zo_conj (zo_norm x) = zo_norm x. Proof. dz x; zo_ring. Qed.
(* abs x = N(x * conj x) taken in Z[sqrt2] *)
Lemma zo_abs_via_norm x : exists s, zo_to_sqrt_two (zo_norm x) = Ok s /\ zs_abs s = zo_abs x /\ zs_to_omega s = zo_norm x.
Proof.
  destruct x as [a b c d]. unfold zo_to_sqrt_two, zo_norm, zo_conj, zo_mul; cbn [oa ob oc od].
  match goal with |- context [if ?cnd then _ else _] => assert (Hc : cnd = true) by (apply andb_true_iff; split; apply Z.eqb_eq; ring) end.
  rewrite Hc. eexists; split; [reflexivity|].
  match goal with |- context [?n / 2] =>
    replace n with ((c * d - a * d + a * b + b * c) * 2) by ring end.
  rewrite Z.div_mul by lia. split.
  - unfold zs_abs, zo_abs; cbn [sa sb]. ring.
  - unfold zs_to_omega; cbn [sa sb]. f_equal; ring.
Qed.
Lemma zo_pow_nat_add x m n :
  zo_pow_nat x (S (m + n)) = zo_mul (zo_pow_nat x m) (zo_pow_nat x n).
Proof.
  induction n as [|n IH]; [rewrite Nat.add_0_r; reflexivity|].
  rewrite Nat.add_succ_r. cbn [zo_pow_nat] in *. rewrite IH. apply zo_mul_assoc.
Qed.
Lemma zo_pow_add x p q r s : 0 < p -> 0 < q -> zo_pow x p = Ok r -> zo_pow x q = Ok s ->
  zo_pow x (p + q) = Ok (zo_mul r s).
Proof.
  unfold zo_pow; intros Hp Hq.
  destruct (p =? 0) eqn:E1; [lia|]. destruct (p <? 0) eqn:E2; [lia|].
  destruct (q =? 0) eqn:E3; [lia|]. destruct (q <? 0) eqn:E4; [lia|].
  destruct (p + q =? 0) eqn:E5; [lia|]. destruct (p + q <? 0) eqn:E6; [lia|].
  intros [= <-] [= <-]. f_equal.
  replace (Z.to_nat (p + q - 1)) with (S (Z.to_nat (p - 1) + Z.to_nat (q - 1)))%nat by lia.
  apply zo_pow_nat_add.
Qed.
Lemma zo_pow_0 x : zo_pow x 0 = Ok zo_one. Proof. reflexivity. Qed.
Lemma zo_pow_1 x : zo_pow x 1 = Ok x. Proof. reflexivity. Qed.
Lemma zo_pow_neg x p : p < 0 -> zo_pow x p = Err.
Proof. intros H; unfold zo_pow. destruct (p <? 0) eqn:E2; [reflexivity|lia]. Qed.

(* ------------------------------------------------------------------ embeddings *)
Ltac emb_ring := unfold zs_to_omega, zs_sub, zs_add, zs_mul, zs_neg, zs_adj2, zs_one, zs_zero; cbn [sa sb]; zo_ring.
Lemma to_omega_add x y : zs_to_omega (zs_add x y) = zo_add (zs_to_omega x) (zs_to_omega y). Proof. ds x; ds y; emb_ring. Qed.
Lemma to_omega_mul x y : zs_to_omega (zs_mul x y) = zo_mul (zs_to_omega x) (zs_to_omega y). Proof. ds x; ds y; emb_ring. Qed.
Lemma to_omega_neg x : zs_to_omega (zs_neg x) = zo_neg (zs_to_omega x). Proof. ds x; emb_ring. Qed.
Lemma to_omega_one : zs_to_omega zs_one = zo_one. Proof. reflexivity. Qed.
Lemma to_omega_zero : zs_to_omega zs_zero = zo_zero. Proof. reflexivity. Qed.
Lemma to_omega_conj x : zo_conj (zs_to_omega x) = zs_to_omega x. Proof. ds x; emb_ring. Qed.
Lemma to_omega_adj2 x : zo_adj2 (zs_to_omega x) = zs_to_omega (zs_adj2 x). Proof. ds x; emb_ring. Qed.
Lemma to_omega_abs x : zo_abs (zs_to_omega x) = zs_abs x * zs_abs x. Proof. ds x; unfold zs_abs; emb_ring; ring. Qed.
Lemma to_sqrt_two_to_omega x : zo_to_sqrt_two (zs_to_omega x) = Ok x.
Proof.
  destruct x as [a b]. unfold zo_to_sqrt_two, zs_to_omega; cbn [oa ob oc od sa sb].
  replace (b + - b =? 0) with true by (symmetry; apply Z.eqb_eq; ring). cbn [andb Z.eqb].
  replace (b - - b) with (b * 2) by ring. rewrite Z.div_mul by lia. reflexivity.
Qed.
Lemma to_omega_to_sqrt_two z s : zo_to_sqrt_two z = Ok s -> zs_to_omega s = z.
Proof.
  destruct z as [a b c d]. unfold zo_to_sqrt_two, zs_to_omega; cbn [oa ob oc od].
  destruct (c + a =? 0) eqn:E1; [|discriminate]. destruct (b =? 0) eqn:E2; [|discriminate].
  cbn [andb]. intros [= <-]. cbn [sa sb].
  assert (a = - c) by lia. subst a. assert (b = 0) by lia. subst b.
  replace (c - - c) with (c * 2) by ring. rewrite Z.div_mul by lia. f_equal; ring.
Qed.
Lemma to_omega_inj x y : zs_to_omega x = zs_to_omega y -> x = y.
Proof. destruct x as [a b]; destruct y as [a' b']. unfold zs_to_omega; cbn [sa sb]. intros [= ? ? ?]. subst. reflexivity. Qed.
Lemma to_sqrt_two_mul z w s t : zo_to_sqrt_two z = Ok s -> zo_to_sqrt_two w = Ok t ->
  zo_to_sqrt_two (zo_mul z w) = Ok (zs_mul s t).
Proof.
  intros H1 H2. apply to_omega_to_sqrt_two in H1, H2. subst z w.
  rewrite <- to_omega_mul. apply to_sqrt_two_to_omega.
Qed.
Lemma to_sqrt_two_add z w s t : zo_to_sqrt_two z = Ok s -> zo_to_sqrt_two w = Ok t ->
  zo_to_sqrt_two (zo_add z w) = Ok (zs_add s t).
Proof.
  intros H1 H2. apply to_omega_to_sqrt_two in H1, H2. subst z w.
  rewrite <- to_omega_add. apply to_sqrt_two_to_omega.
Qed.

(* ------------------------------------------------------------------ equality tests, division, sqrt, % *)
Lemma zs_eq_true x y : zs_eq x y = true -> x = y.
Proof. destruct x as [a b]; destruct y as [c d]; unfold zs_eq; cbn [sa sb]. intros H. f_equal; lia. Qed.
Lemma zs_eq_iff x y : zs_eq x y = true <-> x = y.
Proof. split; [apply zs_eq_true|]. intros ->. destruct y as [c d]; unfold zs_eq; cbn [sa sb]. lia. Qed.
Lemma zo_eq_true x y : zo_eq x y = true -> x = y.
Proof. destruct x as [a b c d]; destruct y as [a' b' c' d']; unfold zo_eq; cbn [oa ob oc od]. intros H. f_equal; lia. Qed.
Lemma zo_eq_iff x y : zo_eq x y = true <-> x = y.
Proof. split; [apply zo_eq_true|]. intros ->. destruct y as [a b c d]; unfold zo_eq; cbn [oa ob oc od]. lia. Qed.

Lemma zs_truediv_z_sound x n q : zs_truediv_z x n = Ok q -> zs_mulz q n = x.
Proof.
  destruct x as [a b]. unfold zs_truediv_z; cbn [sa sb].
  destruct (n =? 0) eqn:En; [discriminate|].
  destruct (a mod n =? 0) eqn:Ea; [|discriminate]. destruct (b mod n =? 0) eqn:Eb; [|discriminate].
  cbn [andb]. intros [= <-]. unfold zs_mulz; cbn [sa sb].
  assert (Hn : n <> 0) by lia.
  rewrite (Z.mul_comm (a / n)), (Z.mul_comm (b / n)).
  rewrite <- (Z_div_exact_full_2 a n Hn) by lia. rewrite <- (Z_div_exact_full_2 b n Hn) by lia. reflexivity.
Qed.
Lemma zs_truediv_sound x y q : zs_truediv x y = Ok q -> zs_mul q y = x.
Proof.
  unfold zs_truediv. intros H.
  assert (Hn : zs_abs y <> 0).
  { unfold zs_truediv_z in H. destruct (zs_abs y =? 0) eqn:E; [discriminate|lia]. }
  apply zs_truediv_z_sound in H.
  destruct x as [a b]; destruct y as [c d]; destruct q as [qa qb].
  unfold zs_mulz, zs_mul, zs_adj2, zs_abs in *; cbn [sa sb] in *.
  assert (H1 : qa * (c * c - 2 * (d * d)) = a * c + 2 * b * - d) by congruence.
  assert (H2 : qb * (c * c - 2 * (d * d)) = a * - d + b * c) by congruence.
  clear H. set (N := c * c - 2 * (d * d)) in *.
  f_equal; apply (Z.mul_reg_l _ _ N Hn).
  - replace (N * (qa * c + 2 * qb * d)) with (c * (qa * N) + 2 * d * (qb * N)) by ring.
    rewrite H1, H2. unfold N. ring.
  - replace (N * (qa * d + qb * c)) with (d * (qa * N) + c * (qb * N)) by ring.
    rewrite H1, H2. unfold N. ring.
Qed.
Lemma zs_sqrt_try_sound self a b k y :
  zs_sqrt_try self a b k = Some y -> (k = Some y -> zs_mul y y = self) -> zs_mul y y = self.
Proof.
  unfold zs_sqrt_try. destruct (zs_eq (zs_mul (ZS a b) (ZS a b)) self) eqn:E1.
  - intros [= <-] _. apply zs_eq_true; exact E1.
  - destruct (zs_eq (zs_mul (zs_adj2 (ZS a b)) (zs_adj2 (ZS a b))) self) eqn:E2.
    + intros [= <-] _. apply zs_eq_true; exact E2.
    + intros H K. apply K; exact H.
Qed.
Lemma zs_sqrt_sound x y : zs_sqrt x = Ok (Some y) -> zs_mul y y = x.
Proof.
  unfold zs_sqrt.
  destruct (negb (Z.sqrt (Z.max (zs_abs x) 0) * Z.sqrt (Z.max (zs_abs x) 0) =? zs_abs x)); [discriminate|].
  destruct (isqrt _) as [x1|]; cbn [bind]; [|discriminate].
  destruct (isqrt _) as [x2|]; cbn [bind]; [|discriminate].
  destruct (isqrt _) as [y1|]; cbn [bind]; [|discriminate].
  destruct (isqrt _) as [y2|]; cbn [bind]; [|discriminate].
  intros [= H]. apply zs_sqrt_try_sound in H; [exact H|].
  intros H2. apply zs_sqrt_try_sound in H2; [exact H2|discriminate].
Qed.
(* the classes' % : x = q*y + r or x = q*y - r for some q (sign quirk of ZSqrtTwo.__mod__) *)
Lemma zs_mod_congruent x y r : zs_mod x y = Ok r ->
  exists q, x = zs_add (zs_mul q y) r \/ x = zs_sub (zs_mul q y) r.
Proof.
  unfold zs_mod.
  destruct (zs_eq x zs_zero) eqn:E0.
  { cbn [orb]. intros [= <-]. apply zs_eq_true in E0. subst x. exists zs_zero. left.
    destruct y as [c d]. zs_ring. }
  destruct (zs_eq x y) eqn:E1.
  { cbn [orb]. intros [= <-]. apply zs_eq_true in E1. subst x. exists zs_one. left.
    destruct y as [c d]. zs_ring. }
  cbn [orb]. destruct (zs_abs y =? 0); [discriminate|].
  match goal with |- context [negb (zs_eq ?dv zs_zero)] => set (DV := dv) end.
  destruct (negb (zs_eq DV zs_zero)).
  { intros [= <-]. exists DV. left. destruct x as [a b]; destruct y as [c d]; destruct DV as [e f]. zs_ring. }
  match goal with |- context [zs_mul (ZS ?u ?v) y] => set (Q := ZS u v) end.
  destruct (negb _ || negb _); intros [= <-]; exists Q; [right|left];
    destruct x as [a b]; destruct y as [c d]; destruct Q as [e f]; zs_ring.
Qed.
Lemma zo_mod_congruent x y r : zo_mod x y = Ok r ->
  exists q, x = zo_add (zo_mul q y) r \/ x = zo_sub (zo_mul q y) r.
Proof.
  unfold zo_mod. destruct (zo_abs y =? 0); [discriminate|].
  match goal with |- context [zo_mul y ?qq] => set (Q := qq) end.
  destruct (zo_abs x >? zo_abs (zo_mul y Q)); intros [= <-]; exists Q; [left|right];
    destruct x as [a b c d]; destruct y as [a' b' c' d']; destruct Q as [e f g h]; zo_ring.
Qed.

(* ------------------------------------------------------------------ normalisation keeps the denoted value *)
Definition zo_sqrt2 : zo := ZO (-1) 0 1 0.                (* sqrt2 = omega - omega^3 *)
Fixpoint sq2pow (j : nat) : zo := match j with O => zo_one | S k => zo_mul zo_sqrt2 (sq2pow k) end.

Lemma zo_div_sqrt2_exact s : zo_sqrt2able s = true -> zo_mul zo_sqrt2 (zo_div_sqrt2 s) = s.
Proof.
  destruct s as [a b c d]. unfold zo_sqrt2able, zo_div_sqrt2, zo_sqrt2, zo_mul; cbn [oa ob oc od].
  intros H. apply andb_true_iff in H. destruct H as [H1 H2].
  apply Z.eqb_eq in H1, H2.
  apply Zmod_divides in H1; [|lia]. apply Zmod_divides in H2; [|lia].
  destruct H1 as [u Hu]. destruct H2 as [v Hv].
  assert (a = 2 * u - c) by lia. assert (b = 2 * v - d) by lia. subst a b.
  replace (2 * v - d - d) with ((v - d) * 2) by ring.
  replace (2 * u - c + c) with (u * 2) by ring.
  replace (2 * v - d + d) with (v * 2) by ring.
  replace (c - (2 * u - c)) with ((c - u) * 2) by ring.
  rewrite !Z.div_mul by lia. f_equal; ring.
Qed.
Lemma zo_half_exact s : zo_even s = true -> zo_mul (ZO 0 0 0 2) (zo_half s) = s.
Proof.
  destruct s as [a b c d]. unfold zo_even, zo_half, zo_mul; cbn [oa ob oc od].
  intros H. repeat (apply andb_true_iff in H; destruct H as [H ?]).
  repeat match goal with E : (_ mod 2 =? 0) = true |- _ =>
    apply Z.eqb_eq in E; apply Zmod_divides in E; [|lia]; destruct E as [? ->] end.
  rewrite !(Z.mul_comm 2), !Z.div_mul by lia. f_equal; ring.
Qed.
Lemma sq2pow_two j : sq2pow (S (S j)) = zo_mul (ZO 0 0 0 2) (sq2pow j).
Proof. cbn [sq2pow]. rewrite <- zo_mul_assoc. reflexivity. Qed.
Lemma sq2pow_shift j x : zo_mul (sq2pow (S j)) x = zo_mul zo_sqrt2 (zo_mul (sq2pow j) x).
Proof. cbn [sq2pow]. apply zo_mul_assoc. Qed.

Lemma zo_normalize_loop_sound fuel : forall r ix r' ix',
  zo_normalize_loop fuel r ix = Ok (r', ix') ->
  exists j, ix' = ix + Z.of_nat j /\ r = zo_mul (sq2pow j) r'.
Proof.
  induction fuel as [|f IH]; intros r ix r' ix'; cbn [zo_normalize_loop]; [discriminate|].
  destruct (zo_sqrt2able r) eqn:E.
  - intros H. apply IH in H. destruct H as [j [H1 H2]]. exists (S j). split; [lia|].
    rewrite sq2pow_shift, <- H2. symmetry. apply zo_div_sqrt2_exact; exact E.
  - intros [= <- <-]. exists O. split; [lia|]. cbn [sq2pow]. symmetry; apply zo_mul_1_l.
Qed.
Lemma zo_normalize_sound x r ix : zo_normalize x = Ok (r, ix) ->
  exists j, ix = Z.of_nat j /\ x = zo_mul (sq2pow j) r /\ zo_sqrt2able r = false.
Proof.
  unfold zo_normalize. intros H.
  assert (Hs : zo_sqrt2able r = false).
  { revert H. generalize (fuel_of (zo_size x)) as fu. generalize 0 as ix0. generalize x as y.
    intros y ix0 fu; revert y ix0. induction fu as [|f IH]; intros y ix0; cbn [zo_normalize_loop]; [discriminate|].
    destruct (zo_sqrt2able y) eqn:E; [apply IH|]. intros [= <- _]. exact E. }
  apply zo_normalize_loop_sound in H. destruct H as [j [H1 H2]]. exists j. repeat split; [lia|exact H2|exact Hs].
Qed.

(* m denotes A / sqrt2^k ; m' is the same matrix with j factors of sqrt2 cancelled *)
Definition dm_scaled (j : nat) (m m' : dm) : Prop :=
  mk m' = mk m - Z.of_nat j /\
  ma m = zo_mul (sq2pow j) (ma m') /\ mb m = zo_mul (sq2pow j) (mb m') /\
  mc m = zo_mul (sq2pow j) (mc m') /\ md m = zo_mul (sq2pow j) (md m').
Definition dm_is_zero (m : dm) : Prop := ma m = zo_zero /\ mb m = zo_zero /\ mc m = zo_zero /\ md m = zo_zero.

Lemma dm_all_true f m : dm_all f m = true ->
  f (ma m) = true /\ f (mb m) = true /\ f (mc m) = true /\ f (md m) = true.
Proof.
  unfold dm_all. intros E. apply andb_true_iff in E. destruct E as [E E4].
  apply andb_true_iff in E. destruct E as [E E3]. apply andb_true_iff in E. destruct E as [E1 E2]. auto.
Qed.
Lemma dm_scaled_refl m : dm_scaled O m m.
Proof. unfold dm_scaled; cbn [sq2pow]. rewrite !zo_mul_1_l. repeat split; lia. Qed.
Lemma dm_norm_two_sound fuel : forall m m', dm_norm_two fuel m = Ok m' -> exists j, dm_scaled j m m'.
Proof.
  induction fuel as [|f IH]; intros m m'; cbn [dm_norm_two]; [discriminate|].
  destruct (dm_all zo_even m) eqn:E.
  - intros H. apply IH in H. destruct H as [j [Hk [Ha [Hb [Hc Hd]]]]]. exists (S (S j)).
    apply dm_all_true in E. destruct E as [E1 [E2 [E3 E4]]].
    destruct m as [a b c d k]; cbn [dm_map ma mb mc md mk] in *.
    unfold dm_scaled; cbn [ma mb mc md mk]. rewrite sq2pow_two, !zo_mul_assoc, <- Ha, <- Hb, <- Hc, <- Hd.
    rewrite !zo_half_exact by assumption. repeat split; lia.
  - intros [= <-]. exists O. apply dm_scaled_refl.
Qed.
Lemma dm_norm_sqrt_sound fuel : forall m m', dm_norm_sqrt fuel m = Ok m' -> exists j, dm_scaled j m m'.
Proof.
  induction fuel as [|f IH]; intros m m'; cbn [dm_norm_sqrt]; [discriminate|].
  destruct ((0 <? mk m) && dm_all zo_sqrt2able m) eqn:E.
  - intros H. apply IH in H. destruct H as [j [Hk [Ha [Hb [Hc Hd]]]]]. exists (S j).
    apply andb_true_iff in E. destruct E as [_ E].
    apply dm_all_true in E. destruct E as [E1 [E2 [E3 E4]]].
    destruct m as [a b c d k]; cbn [dm_map ma mb mc md mk] in *.
    unfold dm_scaled; cbn [ma mb mc md mk]. rewrite !sq2pow_shift, <- Ha, <- Hb, <- Hc, <- Hd.
    rewrite !zo_div_sqrt2_exact by assumption. repeat split; lia.
  - intros [= <-]. exists O. apply dm_scaled_refl.
Qed.
Lemma dm_scaled_trans i j m1 m2 m3 : dm_scaled i m1 m2 -> dm_scaled j m2 m3 -> dm_scaled (i + j) m1 m3.
Proof.
  assert (P : forall i j x, zo_mul (sq2pow i) (zo_mul (sq2pow j) x) = zo_mul (sq2pow (i + j)) x).
  { clear. induction i as [|i IH]; intros j x; [cbn [sq2pow Nat.add]; apply zo_mul_1_l|].
    cbn [Nat.add]. rewrite !sq2pow_shift, IH. reflexivity. }
  intros [Hk [Ha [Hb [Hc Hd]]]] [Hk' [Ha' [Hb' [Hc' Hd']]]]. unfold dm_scaled.
  rewrite Ha, Hb, Hc, Hd, Ha', Hb', Hc', Hd', !P. repeat split; lia.
Qed.
Lemma dm_normalize_sound m m' : dm_normalize m = Ok m' ->
  (dm_is_zero m /\ dm_is_zero m' /\ mk m' = 0) \/ exists j, dm_scaled j m m'.
Proof.
  unfold dm_normalize. destruct (dm_all (fun s => zo_eq zo_zero s) m) eqn:E.
  - intros [= <-]. left. apply dm_all_true in E. destruct E as [E1 [E2 [E3 E4]]].
    apply zo_eq_true in E1, E2, E3, E4.
    unfold dm_is_zero; cbn [ma mb mc md mk]. repeat split; congruence.
  - destruct (dm_norm_two _ m) as [m1|] eqn:E1; cbn [bind]; [|discriminate].
    intros E2. right. apply dm_norm_two_sound in E1. apply dm_norm_sqrt_sound in E2.
    destruct E1 as [i Hi]. destruct E2 as [j Hj]. exists (i + j)%nat. eapply dm_scaled_trans; eassumption.
Qed.

(* ------------------------------------------------------------------ matrix products *)
Ltac dm_ring := unfold dm_matmul_raw; cbn [ma mb mc md mk]; f_equal; try ring; zo_ring.
Lemma dm_matmul_raw_assoc x y z :
  dm_matmul_raw (dm_matmul_raw x y) z = dm_matmul_raw x (dm_matmul_raw y z).
Proof.
  destruct x as [[? ? ? ?] [? ? ? ?] [? ? ? ?] [? ? ? ?] ?];
  destruct y as [[? ? ? ?] [? ? ? ?] [? ? ? ?] [? ? ? ?] ?];
  destruct z as [[? ? ? ?] [? ? ? ?] [? ? ? ?] [? ? ? ?] ?]. dm_ring.
Qed.
Definition dm_id : dm := DM zo_one zo_zero zo_zero zo_one 0.
Lemma dm_matmul_raw_id_l x : dm_matmul_raw dm_id x = x.
Proof. destruct x as [[? ? ? ?] [? ? ? ?] [? ? ? ?] [? ? ? ?] ?]. unfold dm_id. dm_ring. Qed.
Lemma dm_matmul_raw_id_r x : dm_matmul_raw x dm_id = x.
Proof. destruct x as [[? ? ? ?] [? ? ? ?] [? ? ? ?] [? ? ? ?] ?]. unfold dm_id. dm_ring. Qed.
Lemma dm_matmul_raw_conj x y :
  dm_map zo_conj (dm_matmul_raw x y) (mk x + mk y) = dm_matmul_raw (dm_map zo_conj x (mk x)) (dm_map zo_conj y (mk y)).
Proof.
  destruct x as [[? ? ? ?] [? ? ? ?] [? ? ? ?] [? ? ? ?] ?];
  destruct y as [[? ? ? ?] [? ? ? ?] [? ? ? ?] [? ? ? ?] ?]. unfold dm_map. dm_ring.
Qed.
(* entrywise sum distributes (same denominator exponent) *)
Definition dm_add_same (x y : dm) : dm :=
  DM (zo_add (ma x) (ma y)) (zo_add (mb x) (mb y)) (zo_add (mc x) (mc y)) (zo_add (md x) (md y)) (mk x).
Lemma dm_matmul_raw_distr_l x y z : mk y = mk z ->
  dm_matmul_raw x (dm_add_same y z) = dm_add_same (dm_matmul_raw x y) (dm_matmul_raw x z).
Proof.
  destruct x as [[? ? ? ?] [? ? ? ?] [? ? ? ?] [? ? ? ?] kx];
  destruct y as [[? ? ? ?] [? ? ? ?] [? ? ? ?] [? ? ? ?] ky];
  destruct z as [[? ? ? ?] [? ? ? ?] [? ? ? ?] [? ? ? ?] kz]. intros E. change (ky = kz) in E. subst kz.
  unfold dm_add_same. dm_ring.
Qed.

Lemma so3_matmul_raw_assoc :
  forall u0 u1 u2 u3 u4 u5 u6 u7 u8 v0 v1 v2 v3 v4 v5 v6 v7 v8 w0 w1 w2 w3 w4 w5 w6 w7 w8,
  so3_matmul_raw (so3_matmul_raw [u0;u1;u2;u3;u4;u5;u6;u7;u8] [v0;v1;v2;v3;v4;v5;v6;v7;v8]) [w0;w1;w2;w3;w4;w5;w6;w7;w8]
  = so3_matmul_raw [u0;u1;u2;u3;u4;u5;u6;u7;u8] (so3_matmul_raw [v0;v1;v2;v3;v4;v5;v6;v7;v8] [w0;w1;w2;w3;w4;w5;w6;w7;w8]).
Proof.
  intros. cbn [so3_matmul_raw].
  repeat match goal with x : zs |- _ => destruct x as [? ?] end.
  repeat (f_equal; try (zs_ring; fail)).
Qed.

(* ------------------------------------------------------------------ the solver only returns solutions *)
Lemma zo_mul_swap4 a b c d : zo_mul (zo_mul a b) (zo_mul c d) = zo_mul (zo_mul a c) (zo_mul b d).
Proof. destruct a as [? ? ? ?]; destruct b as [? ? ? ?]; destruct c as [? ? ? ?]; destruct d as [? ? ? ?]. zo_ring. Qed.
Lemma dioph_tail_sound scale xi t : dioph_tail scale xi = Ok (Some t) ->
  zo_mul (zo_conj t) t = zs_to_omega xi.
Proof.
  unfold dioph_tail.
  destruct (zo_to_sqrt_two (zo_mul (zo_conj scale) scale)) as [sv|] eqn:Hs; cbn [bind]; [|discriminate].
  destruct (zs_abs sv =? 0); [discriminate|].
  destruct (negb _ || negb _); [discriminate|].
  destruct (zs_truediv xi sv) as [t2|] eqn:Hd; cbn [bind]; [|discriminate].
  destruct (negb _); [discriminate|].
  destruct (zs_sqrt t2) as [[u|]|] eqn:Hq; cbn [bind]; try discriminate.
  intros [= <-].
  apply to_omega_to_sqrt_two in Hs. apply zs_truediv_sound in Hd. apply zs_sqrt_sound in Hq.
  rewrite zo_conj_mul, to_omega_conj, zo_mul_swap4, <- Hs, <- !to_omega_mul.
  f_equal. rewrite Hq, zs_mul_comm. exact Hd.
Qed.
Lemma solve_dioph_sound xi ok ts t : solve_dioph xi ok ts = Ok (Some t) ->
  zo_mul (zo_conj t) t = zs_to_omega xi.
Proof.
  unfold solve_dioph. destruct ((sa xi =? 0) && (sb xi =? 0)) eqn:E.
  - intros [= <-]. destruct xi as [a b]; cbn [sa sb] in E.
    assert (a = 0) by lia. assert (b = 0) by lia. subst. reflexivity.
  - destruct (zs_abs xi <? 2); [discriminate|]. destruct (negb ok); [discriminate|]. apply dioph_tail_sound.
Qed.
Lemma is_solution_spec xi t : is_solution xi t = true <-> zo_mul (zo_conj t) t = zs_to_omega xi.
Proof. unfold is_solution. apply zo_eq_iff. Qed.

(* ------------------------------------------------------------------ primality *)
Lemma no_divisor_sound fuel : forall d n, 2 <= d ->
  (forall k, 2 <= k < d -> ~ (k | n)) -> Z.of_nat fuel + d >= Z.sqrt n + 2 -> 0 <= n ->
  no_divisor fuel d n = true -> forall k, 2 <= k -> k * k <= n -> ~ (k | n).
Proof.
  induction fuel as [|f IH]; intros d n Hd Hlow Hf Hn; cbn [no_divisor].
  - intros _ k Hk Hkk. apply Hlow. assert (k <= Z.sqrt n) by (apply Z.sqrt_le_square; lia). lia.
  - destruct (n <? d * d) eqn:E1.
    + intros _ k Hk Hkk. apply Hlow. nia.
    + destruct (n mod d =? 0) eqn:E2; [discriminate|].
      intros H.
      assert (Hlow' : forall k, 2 <= k < d + 1 -> ~ (k | n)).
      { intros k Hk. destruct (Z.eq_dec k d) as [->|Hne]; [|apply Hlow; lia].
        intros Hdiv. apply Z.mod_divide in Hdiv; lia. }
      exact (IH (d + 1) n ltac:(lia) Hlow' ltac:(lia) Hn H).
Qed.
Lemma no_divisor_complete fuel : forall d n, 2 <= d ->
  no_divisor fuel d n = false -> exists k, d <= k /\ k * k <= n /\ (k | n).
Proof.
  induction fuel as [|f IH]; intros d n Hd; cbn [no_divisor]; [discriminate|].
  destruct (n <? d * d) eqn:E1; [discriminate|].
  destruct (n mod d =? 0) eqn:E2.
  - intros _. exists d. repeat split; [lia|lia|]. apply Z.mod_divide; lia.
  - intros H. apply IH in H; [|lia]. destruct H as [k [H1 [H2 H3]]]. exists k. repeat split; [lia|lia|exact H3].
Qed.
Lemma primeb_correct n : primeb n = true <-> prime n.
Proof.
  rewrite <- prime_alt. unfold primeb, prime'. split.
  - intros H. apply andb_true_iff in H. destruct H as [H1 H2]. apply Z.leb_le in H1.
    split; [lia|]. intros m Hm [c Hc].
    assert (A := no_divisor_sound (Z.to_nat (Z.sqrt n)) 2 n ltac:(lia) ltac:(intros; lia)).
    assert (Hs : 0 <= Z.sqrt n) by apply Z.sqrt_nonneg.
    specialize (A ltac:(lia) ltac:(lia) H2).
    destruct (Z_le_gt_dec (m * m) n) as [Hle|Hgt].
    + apply (A m); [lia|exact Hle|exists c; exact Hc].
    + assert (2 <= c) by nia. apply (A c); [lia|nia|exists m; lia].
  - intros [H1 H2]. apply andb_true_iff. split; [apply Z.leb_le; lia|].
    destruct (no_divisor (Z.to_nat (Z.sqrt n)) 2 n) eqn:E; [reflexivity|].
    apply no_divisor_complete in E; [|lia]. destruct E as [k [Hk1 [Hk2 Hk3]]].
    exfalso. apply (H2 k); [nia|exact Hk3].
Qed.

(* bounded exhaustive agreement of the Miller-Rabin transcription with trial division *)
Fixpoint agree_range (fuel : nat) (n : Z) : bool :=
  match fuel with
  | O => true
  | S f => match primality_test n with Ok b => Bool.eqb b (primeb n) | Err => false end && agree_range f (n + 1)
  end.
Lemma agree_range_spec fuel : forall lo, agree_range fuel lo = true ->
  forall n, lo <= n < lo + Z.of_nat fuel -> primality_test n = Ok (primeb n).
Proof.
  induction fuel as [|f IH]; intros lo H n Hn; [lia|].
  cbn [agree_range] in H. apply andb_true_iff in H. destruct H as [H1 H2].
  destruct (Z.eq_dec n lo) as [->|Hne]; [|apply (IH (lo + 1)); [exact H2|lia]].
  destruct (primality_test lo) as [b|]; [|discriminate].
  apply Bool.eqb_prop in H1. congruence.
Qed.
Definition mr_bound : Z := 12000.
Lemma agree_mr_bound : agree_range (Z.to_nat mr_bound) 0 = true.
Proof. vm_compute. reflexivity. Qed.
Lemma primality_test_exact_below n : n < mr_bound -> primality_test n = Ok (primeb n).
Proof.
  intros H. destruct (Z_lt_ge_dec n 0) as [Hneg|Hpos].
  - unfold primality_test, primeb. replace (n <? 2) with true by lia. replace (2 <=? n) with false by lia. reflexivity.
  - apply (agree_range_spec (Z.to_nat mr_bound) 0 agree_mr_bound). unfold mr_bound in *. lia.
Qed.
Lemma primality_test_prime_below n : n < mr_bound -> (primality_test n = Ok true <-> prime n).
Proof.
  intros H. rewrite primality_test_exact_below by exact H. rewrite <- primeb_correct.
  split; [intros [= ->]; reflexivity | intros ->; reflexivity].
Qed.
