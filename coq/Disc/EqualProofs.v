(* Lemmas about Disc/EqualModel.v (the model of qp.equal). *)
From Coq Require Import List ZArith QArith Qabs Qminmax Bool Lia Lqa Arith.
From PLV Require Import Disc.EqualModel.
Import ListNotations.
Open Scope Z_scope.

(* ------------------------------------------------------------------ induction principle for the nested AST *)
Section OpInd.
  Variable P : op -> Prop.
  Hypothesis HPlain : forall n ps w h, P (Plain n ps w h).
  Hypothesis HCtrl : forall n b cw cv ww wt, P b -> P (Ctrl n b cw cv ww wt).
  Hypothesis HPow : forall n z b, P b -> P (PowO n z b).
  Hypothesis HAdj : forall n b, P b -> P (Adj n b).
  Hypothesis HSProd : forall s k p b, P b -> P (SProdO s k p b).
  Hypothesis HExp : forall n c k b, P b -> P (ExpO n c k b).
  Hypothesis HComp : forall n k p ops, Forall (fun o => P (snd o)) ops -> P (Comp n k p ops).
  Fixpoint op_ind2 (a : op) : P a :=
    match a with
    | Plain n ps w h => HPlain n ps w h
    | Ctrl n b cw cv ww wt => HCtrl n b cw cv ww wt (op_ind2 b)
    | PowO n z b => HPow n z b (op_ind2 b)
    | Adj n b => HAdj n b (op_ind2 b)
    | SProdO s k p b => HSProd s k p b (op_ind2 b)
    | ExpO n c k b => HExp n c k b (op_ind2 b)
    | Comp n k p ops =>
        HComp n k p ops
          ((fix go (l : list (Z * list Z * op)) : Forall (fun o => P (snd o)) l :=
              match l with
              | [] => Forall_nil _
              | o :: r => Forall_cons o (op_ind2 (snd o)) (go r)
              end) ops)
    end.
End OpInd.

(* ------------------------------------------------------------------ allclose on one pair *)
Open Scope Q_scope.
Lemma close_iff : forall rt at_ a b, close rt at_ a b = true <-> Qabs (a - b) <= at_ + rt * Qabs b.
Proof. intros; unfold close; apply Qle_bool_iff. Qed.

Lemma close_false_iff : forall rt at_ a b, close rt at_ a b = false <-> at_ + rt * Qabs b < Qabs (a - b).
Proof.
  intros. split; intro H.
  - apply Qnot_le_lt. intro L. apply close_iff in L. congruence.
  - destruct (close rt at_ a b) eqn:E; auto. apply close_iff in E. apply Qle_not_lt in E. contradiction.
Qed.

Lemma Qabs_minus_0 : forall a, Qabs (a - a) == 0.
Proof. intros. assert (E : a - a == 0) by ring. rewrite E. reflexivity. Qed.

Lemma close_refl : forall rt at_ a, 0 <= rt -> 0 <= at_ -> close rt at_ a a = true.
Proof.
  intros. apply close_iff. rewrite Qabs_minus_0.
  pose proof (Qabs_nonneg a). nra.
Qed.

(* the exact asymmetry window of numpy.allclose *)
Lemma close_asym_window : forall rt at_ a b,
  (close rt at_ a b = true /\ close rt at_ b a = false) <->
  (at_ + rt * Qabs a < Qabs (a - b) /\ Qabs (a - b) <= at_ + rt * Qabs b).
Proof.
  intros. rewrite close_iff, close_false_iff. rewrite (Qabs_Qminus b a). tauto.
Qed.

Definition far (rt at_ a b : Q) : Prop :=
  a == b \/ (at_ + rt * Qabs a < Qabs (a - b) /\ at_ + rt * Qabs b < Qabs (a - b)).

Lemma close_wd : forall rt at_ a a' b b', a == a' -> b == b' -> close rt at_ a b = close rt at_ a' b'.
Proof.
  intros. destruct (close rt at_ a b) eqn:E; symmetry.
  - apply close_iff. apply close_iff in E. rewrite <- H, <- H0. exact E.
  - apply close_false_iff. apply close_false_iff in E. rewrite <- H, <- H0. exact E.
Qed.

Lemma close_sym_far : forall rt at_ a b, far rt at_ a b -> close rt at_ a b = close rt at_ b a.
Proof.
  intros rt at_ a b [E | [H1 H2]].
  - apply close_wd; [exact E | symmetry; exact E].
  - assert (close rt at_ a b = false) by (apply close_false_iff; exact H2).
    assert (close rt at_ b a = false) by (apply close_false_iff; rewrite (Qabs_Qminus b a); exact H1).
    congruence.
Qed.

(* the one-sided formulation with max, and the (stronger) factor 2 of the property text *)
Lemma far_of_max : forall rt at_ a b, 0 <= rt ->
  at_ + rt * Qmax (Qabs a) (Qabs b) < Qabs (a - b) -> far rt at_ a b.
Proof.
  intros. right.
  pose proof (Q.le_max_l (Qabs a) (Qabs b)). pose proof (Q.le_max_r (Qabs a) (Qabs b)).
  split; nra.
Qed.

Lemma far_of_twice_max : forall rt at_ a b, 0 <= rt -> 0 <= at_ ->
  2 * (at_ + rt * Qmax (Qabs a) (Qabs b)) < Qabs (a - b) -> far rt at_ a b.
Proof.
  intros. apply far_of_max; auto.
  pose proof (Q.le_max_l (Qabs a) (Qabs b)). pose proof (Qabs_nonneg a).
  assert (0 <= Qmax (Qabs a) (Qabs b)) by lra. nra.
Qed.

Lemma close_exact : forall a b, close 0 0 a b = true -> a == b.
Proof.
  intros a b H. apply close_iff in H.
  assert (L : Qabs (a - b) <= 0) by lra.
  apply Qabs_Qle_condition in L. destruct L. lra.
Qed.

Lemma Qeq_bool_sym : forall a b, Qeq_bool a b = Qeq_bool b a.
Proof.
  intros. destruct (Qeq_bool a b) eqn:E, (Qeq_bool b a) eqn:E'; auto.
  - apply Qeq_bool_iff in E. symmetry in E. apply Qeq_bool_iff in E. congruence.
  - apply Qeq_bool_iff in E'. symmetry in E'. apply Qeq_bool_iff in E'. congruence.
Qed.

Lemma Qeq_bool_refl' : forall a, Qeq_bool a a = true.
Proof. intros. apply Qeq_bool_iff. reflexivity. Qed.

Close Scope Q_scope.
(* ------------------------------------------------------------------ forallb2 *)
Lemma forallb2_refl : forall A (f : A -> A -> bool) l,
  (forall x, In x l -> f x x = true) -> forallb2 f l l = true.
Proof.
  induction l; simpl; intros; auto. rewrite H by auto. simpl. apply IHl. intros; apply H; auto.
Qed.

Lemma forallb2_swap : forall A B (f : A -> B -> bool) (g : B -> A -> bool) l1 l2,
  (forall x y, In x l1 -> In y l2 -> f x y = g y x) -> forallb2 f l1 l2 = forallb2 g l2 l1.
Proof.
  induction l1; destruct l2; simpl; intros; auto.
  rewrite (H a b) by auto. f_equal. apply IHl1. intros; apply H; auto.
Qed.

Lemma forallb2_Forall2 : forall A B (f : A -> B -> bool) (R : A -> B -> Prop) l1 l2,
  Forall (fun x => forall y, f x y = true -> R x y) l1 ->
  forallb2 f l1 l2 = true -> Forall2 R l1 l2.
Proof.
  induction l1; destruct l2; simpl; intros HF H; try discriminate; constructor.
  - inversion HF; subst. apply andb_prop in H. destruct H. auto.
  - inversion HF; subst. apply andb_prop in H. destruct H. auto.
Qed.

Lemma forallb2_map_l : forall A B C (g : A -> B) (f : B -> C -> bool) l1 l2,
  forallb2 f (map g l1) l2 = forallb2 (fun x y => f (g x) y) l1 l2.
Proof. induction l1; destruct l2; simpl; intros; auto. rewrite IHl1. reflexivity. Qed.

Lemma zlist_eqb_refl : forall l, zlist_eqb l l = true.
Proof. intros. apply forallb2_refl. intros. apply Z.eqb_refl. Qed.

Lemma zlist_eqb_sym : forall a b, zlist_eqb a b = zlist_eqb b a.
Proof. intros. apply forallb2_swap. intros. apply Z.eqb_sym. Qed.

Lemma zlist_eqb_eq : forall a b, zlist_eqb a b = true -> a = b.
Proof.
  induction a; destruct b; simpl; intros; try discriminate; auto.
  apply andb_prop in H. destruct H. apply Z.eqb_eq in H. subst. f_equal. auto.
Qed.

(* ------------------------------------------------------------------ control dictionaries *)
Lemma dict_eqb_sym : forall d1 d2, dict_eqb d1 d2 = dict_eqb d2 d1.
Proof.
  intros. unfold dict_eqb. rewrite (Nat.eqb_sym (length d1)).
  destruct (length d2 =? length d1)%nat; simpl; auto. apply andb_comm.
Qed.

Definition keys_nodup (d : list (Z * bool)) : Prop := NoDup (map fst d).

Lemma filter_keys_notin : forall w (d : list (Z * bool)),
  ~ In w (map fst (filter (fun kv => negb (fst kv =? w)) d)).
Proof.
  induction d; simpl; auto. destruct (Z.eqb_spec (fst a) w); simpl; auto.
  intros [E | I]; auto.
Qed.

Lemma filter_keys_nodup : forall (f : Z * bool -> bool) d, keys_nodup d -> keys_nodup (filter f d).
Proof.
  unfold keys_nodup. induction d; simpl; intros; auto. inversion H; subst.
  destruct (f a); simpl; auto. constructor; auto.
  intro I. apply H2. clear - I. induction d; simpl in *; auto. destruct (f a0); simpl in *; tauto.
Qed.

Lemma dict_of_nodup : forall ws vs acc, keys_nodup acc -> keys_nodup (dict_of ws vs acc).
Proof.
  induction ws; destruct vs; simpl; intros; auto.
  apply IHws. unfold keys_nodup. simpl. constructor.
  - apply filter_keys_notin.
  - apply filter_keys_nodup. exact H.
Qed.

Lemma dlookup_in_nodup : forall d k v, keys_nodup d -> In (k, v) d -> dlookup k d = Some v.
Proof.
  unfold keys_nodup. induction d; simpl; intros; [tauto|]. destruct a as [k0 v0]. simpl in *.
  inversion H; subst. destruct H0 as [E | I].
  - inversion E; subst. rewrite Z.eqb_refl. reflexivity.
  - destruct (Z.eqb_spec k0 k).
    + subst. exfalso. apply H3. change k with (fst (k, v)). apply in_map. exact I.
    + auto.
Qed.

Lemma dict_sub_refl : forall d, keys_nodup d -> dict_sub d d = true.
Proof.
  intros. unfold dict_sub. apply forallb_forall. intros [k v] I. simpl.
  rewrite (dlookup_in_nodup d k v H I). simpl. apply eqb_reflx.
Qed.

Lemma ctrl_dict_eqb_refl : forall cw cv, ctrl_dict_eqb cw cv cw cv = true.
Proof.
  intros. unfold ctrl_dict_eqb, dict_eqb. rewrite Nat.eqb_refl.
  rewrite dict_sub_refl by (apply dict_of_nodup; constructor). reflexivity.
Qed.

(* ------------------------------------------------------------------ the sorts are parametric in the payload *)
Lemma sum_insert_map : forall A B (f : A -> B) x l,
  sum_insert (omap f x) (map (omap f) l) = map (omap f) (sum_insert x l).
Proof.
  induction l; simpl; auto.
  change (okey (omap f x)) with (okey x). change (okey (omap f a)) with (okey a).
  destruct (okey x <=? okey a); simpl; auto. rewrite IHl. reflexivity.
Qed.

Lemma sum_sort_map : forall A B (f : A -> B) l, sum_sort (map (omap f) l) = map (omap f) (sum_sort l).
Proof.
  unfold sum_sort. induction l; simpl; auto. rewrite IHl. apply sum_insert_map.
Qed.

Lemma swappable_map : forall A B (f : A -> B) x y, swappable (omap f x) (omap f y) = swappable x y.
Proof. intros. reflexivity. Qed.

Lemma prod_insert_map : forall A B (f : A -> B) x l,
  prod_insert (omap f x) (map (omap f) l) = map (omap f) (prod_insert x l).
Proof.
  induction l; simpl; auto. rewrite swappable_map.
  destruct (swappable a x); simpl; auto. rewrite IHl. reflexivity.
Qed.

Lemma prod_fold_map : forall A B (f : A -> B) l acc,
  fold_left (fun acc x => prod_insert x acc) (map (omap f) l) (map (omap f) acc)
  = map (omap f) (fold_left (fun acc x => prod_insert x acc) l acc).
Proof.
  induction l; simpl; intros; auto. rewrite prod_insert_map. apply IHl.
Qed.

Lemma prod_sort_map : forall A B (f : A -> B) l, prod_sort (map (omap f) l) = map (omap f) (prod_sort l).
Proof.
  intros. unfold prod_sort. change (@nil (operand B)) with (map (omap f) (@nil (operand A))).
  rewrite (prod_fold_map A B f l []). apply eq_sym, map_rev.
Qed.

Lemma sortK_map : forall A B (f : A -> B) k l, sortK k (map (omap f) l) = map (omap f) (sortK k l).
Proof.
  intros. unfold sortK. destruct (k =? SORT_SUM); [apply sum_sort_map|].
  destruct (k =? SORT_PROD); [apply prod_sort_map | reflexivity].
Qed.

Lemma sum_insert_in : forall A (x y : operand A) l, In y (sum_insert x l) -> y = x \/ In y l.
Proof.
  induction l; simpl; intros.
  - destruct H; auto.
  - destruct (okey x <=? okey a); simpl in H.
    + destruct H as [H | [H | H]]; auto.
    + destruct H as [H | H]; auto. apply IHl in H. tauto.
Qed.

Lemma sum_sort_in : forall A (y : operand A) l, In y (sum_sort l) -> In y l.
Proof.
  unfold sum_sort. induction l; simpl; intros; auto.
  apply sum_insert_in in H. destruct H; auto.
Qed.

Lemma prod_insert_in : forall A (x y : operand A) l, In y (prod_insert x l) -> y = x \/ In y l.
Proof.
  induction l; simpl; intros.
  - destruct H; auto.
  - destruct (swappable a x); simpl in H.
    + destruct H as [H | H]; auto. apply IHl in H. tauto.
    + destruct H as [H | [H | H]]; auto.
Qed.

Lemma prod_fold_in : forall A (y : operand A) l acc,
  In y (fold_left (fun acc x => prod_insert x acc) l acc) -> In y l \/ In y acc.
Proof.
  induction l; simpl; intros; auto. apply IHl in H. destruct H; auto.
  apply prod_insert_in in H. destruct H; auto.
Qed.

Lemma sortK_in : forall A k (y : operand A) l, In y (sortK k l) -> In y l.
Proof.
  intros A k y l. unfold sortK. destruct (k =? SORT_SUM); [apply sum_sort_in|].
  destruct (k =? SORT_PROD); auto.
  unfold prod_sort. intro H. apply in_rev in H. apply prod_fold_in in H. destruct H as [H | []]; auto.
Qed.

(* ------------------------------------------------------------------ unfolding of the Comp case *)
Lemma equal_comp_unfold : forall rt at_ n k p ops n' k' p' ops',
  equal rt at_ (Comp n k p ops) (Comp n' k' p' ops') =
  (n =? n') && (prep_match p p' ||
     ((length ops =? length ops')%nat &&
      forallb2 (fun x y => equal rt at_ (obody x) (obody y)) (sortK k ops) (sortK k' ops'))).
Proof.
  intros. cbn [equal].
  change (map (fun o : Z * list Z * op => (fst o, equal rt at_ (snd o))) ops)
    with (map (omap (equal rt at_)) ops).
  rewrite sortK_map, forallb2_map_l. reflexivity.
Qed.

(* ------------------------------------------------------------------ reflexivity *)
Lemma params_close_refl : forall rt at_ ps, (0 <= rt)%Q -> (0 <= at_)%Q -> params_close rt at_ ps ps = true.
Proof.
  intros. unfold params_close. apply forallb2_refl. intros. apply forallb2_refl. intros.
  apply close_refl; auto.
Qed.

Lemma equal_refl_op : forall rt at_, (0 <= rt)%Q -> (0 <= at_)%Q -> forall a, equal rt at_ a a = true.
Proof.
  intros rt at_ Hr Ha. induction a using op_ind2.
  - cbn [equal]. rewrite Z.eqb_refl, zlist_eqb_refl, Z.eqb_refl, params_close_refl by auto.
    simpl. apply orb_true_r.
  - cbn [equal]. rewrite !Z.eqb_refl, zlist_eqb_refl, ctrl_dict_eqb_refl, IHa. reflexivity.
  - cbn [equal]. rewrite Z.eqb_refl, Qeq_bool_refl', IHa. reflexivity.
  - cbn [equal]. rewrite Z.eqb_refl, IHa. reflexivity.
  - cbn [equal]. rewrite Z.eqb_refl, close_refl, IHa by auto. simpl. apply orb_true_r.
  - cbn [equal]. rewrite !Z.eqb_refl, close_refl, IHa by auto. reflexivity.
  - rewrite equal_comp_unfold. rewrite Z.eqb_refl, Nat.eqb_refl. simpl.
    replace (forallb2 (fun x y => equal rt at_ (obody x) (obody y)) (sortK k ops) (sortK k ops)) with true.
    + apply orb_true_r.
    + symmetry. apply forallb2_refl. intros x I. apply sortK_in in I.
      rewrite Forall_forall in H. apply (H x I).
Qed.

Lemma eig_close_refl : forall rt at_ e, (0 <= rt)%Q -> (0 <= at_)%Q -> eig_close rt at_ e e = true.
Proof.
  intros. destruct e; simpl; auto. apply forallb2_refl. intros. apply close_refl; auto.
Qed.

Lemma equal_refl_item : forall rt at_, (0 <= rt)%Q -> (0 <= at_)%Q -> forall a, equal_item rt at_ a a = true.
Proof.
  intros rt at_ Hr Ha [o | [k o w e x y]]; simpl.
  - apply equal_refl_op; auto.
  - rewrite !Z.eqb_refl. simpl. destruct o.
    + apply equal_refl_op; auto.
    + rewrite zlist_eqb_refl, eig_close_refl; auto.
Qed.

Lemma same_data_equal_item : forall rt at_, (0 <= rt)%Q -> (0 <= at_)%Q ->
  forall a b, a = b -> equal_item rt at_ a b = true /\ equal_item rt at_ b a = true.
Proof. intros; subst; split; apply equal_refl_item; auto. Qed.

(* ------------------------------------------------------------------ numeric fields and symmetry *)
Fixpoint nums (a : op) : list Q :=
  match a with
  | Plain _ ps _ _ => concat ps
  | Ctrl _ b _ _ _ _ => nums b
  | PowO _ _ b => nums b
  | Adj _ b => nums b
  | SProdO s _ _ b => s :: nums b
  | ExpO _ c _ b => c :: nums b
  | Comp _ _ _ ops => flat_map (fun o : Z * list Z * op => nums (snd o)) ops
  end.

Definition nums_mp (m : mp) : list Q :=
  match m with
  | MP _ o _ e _ _ => (match o with Some a => nums a | None => [] end) ++ (match e with Some x => x | None => [] end)
  end.

Definition nums_item (a : item) : list Q := match a with IOp o => nums o | IMp m => nums_mp m end.

(* every pair of numeric fields of the two objects is equal or outside the tolerance window *)
Definition all_far (rt at_ : Q) (l1 l2 : list Q) : Prop :=
  forall x y, In x l1 -> In y l2 -> far rt at_ x y.

Lemma all_far_incl : forall rt at_ l1 l2 m1 m2,
  all_far rt at_ l1 l2 -> incl m1 l1 -> incl m2 l2 -> all_far rt at_ m1 m2.
Proof. unfold all_far; intros; auto. Qed.

Lemma close_list_sym : forall rt at_ l1 l2, all_far rt at_ l1 l2 ->
  forallb2 (close rt at_) l1 l2 = forallb2 (close rt at_) l2 l1.
Proof. intros. apply forallb2_swap. intros. apply close_sym_far. auto. Qed.

Lemma params_close_sym : forall rt at_ ps ps', all_far rt at_ (concat ps) (concat ps') ->
  params_close rt at_ ps ps' = params_close rt at_ ps' ps.
Proof.
  intros. unfold params_close. apply forallb2_swap. intros x y Ix Iy. apply close_list_sym.
  eapply all_far_incl; eauto; intros z Iz; apply in_concat; eauto.
Qed.

Lemma prep_match_sym : forall p q, prep_match p q = prep_match q p.
Proof. destruct p, q; simpl; auto. apply Z.eqb_sym. Qed.

Lemma nums_operand_incl : forall (ops : list (Z * list Z * op)) x, In x ops ->
  incl (nums (obody x)) (flat_map (fun o : Z * list Z * op => nums (snd o)) ops).
Proof. intros ops x I z Iz. apply in_flat_map. exists x. split; auto. Qed.

Lemma equal_sym_op : forall rt at_ a b, all_far rt at_ (nums a) (nums b) ->
  equal rt at_ a b = equal rt at_ b a.
Proof.
  intros rt at_. induction a using op_ind2; intros b0 F;
    destruct b0 as [n' ps' w' h' | n' b' cw' cv' ww' wt' | n' z' b' | n' b' | s' k' p' b' | n' c' k' b' | n' k' p' ops'];
    try reflexivity.
  - cbn [equal]. rewrite (Z.eqb_sym n' n). destruct (Z.eqb_spec n n'); [subst | reflexivity].
    rewrite (zlist_eqb_sym w' w), (Z.eqb_sym h' h), (params_close_sym rt at_ ps' ps); auto.
    intros x y Ix Iy. simpl in F. destruct (F y x Iy Ix) as [E | [H1 H2]]; [left; symmetry; auto | right].
    rewrite (Qabs_Qminus x y). tauto.
  - cbn [equal]. rewrite (Z.eqb_sym n' n), (zlist_eqb_sym ww' ww), (Z.eqb_sym wt' wt).
    unfold ctrl_dict_eqb. rewrite (dict_eqb_sym (dict_of cw' cv' [])), (IHa b'); auto.
  - cbn [equal]. rewrite (Z.eqb_sym n' n), (Qeq_bool_sym z' z), (IHa b'); auto.
  - cbn [equal]. rewrite (Z.eqb_sym n' n), (IHa b'); auto.
  - cbn [equal]. rewrite (Z.eqb_sym k' k), (prep_match_sym p' p).
    rewrite (close_sym_far rt at_ s s') by (apply F; simpl; auto).
    rewrite (IHa b'); auto. eapply all_far_incl; eauto; intros z I; simpl; auto.
  - cbn [equal]. rewrite (Z.eqb_sym n' n), (Z.eqb_sym k' k).
    rewrite (close_sym_far rt at_ c c') by (apply F; simpl; auto).
    rewrite (IHa b'); auto. eapply all_far_incl; eauto; intros z I; simpl; auto.
  - rewrite !equal_comp_unfold.
    rewrite (Z.eqb_sym n' n), (prep_match_sym p' p), (Nat.eqb_sym (length ops') (length ops)).
    f_equal. f_equal. f_equal. apply forallb2_swap. intros x y Ix Iy.
    apply sortK_in in Ix. apply sortK_in in Iy. rewrite Forall_forall in H.
    apply (H x Ix). simpl in F.
    eapply all_far_incl; [exact F | apply (nums_operand_incl ops x Ix) | apply (nums_operand_incl ops' y Iy)].
Qed.

Lemma equal_sym_item : forall rt at_ a b, all_far rt at_ (nums_item a) (nums_item b) ->
  equal_item rt at_ a b = equal_item rt at_ b a.
Proof.
  intros rt at_ [x | [k o w e u v]] [y | [k' o' w' e' u' v']] F; simpl; auto.
  - apply equal_sym_op. exact F.
  - rewrite (Z.eqb_sym k' k), (Z.eqb_sym u' u). f_equal.
    destruct o as [a|], o' as [b|]; auto.
    + apply equal_sym_op. eapply all_far_incl; eauto; intros z I; simpl; apply in_or_app; auto.
    + rewrite (zlist_eqb_sym w' w). f_equal. destruct e as [x|], e' as [y|]; simpl; auto.
      apply close_list_sym. eapply all_far_incl; eauto; intros z I; simpl; auto.
Qed.

(* ------------------------------------------------------------------ exact equality forces the same structure *)
Inductive same_struct : op -> op -> Prop :=
| SS_Ident : forall ps w h ps' w' h',
    same_struct (Plain IDENTITY_NAME ps w h) (Plain IDENTITY_NAME ps' w' h')   (* all Identities are equal *)
| SS_Plain : forall n ps ps' w h,
    Forall2 (Forall2 Qeq) ps ps' -> same_struct (Plain n ps w h) (Plain n ps' w h)
| SS_Ctrl : forall n b b' cw cv cw' cv' ww wt,
    ctrl_dict_eqb cw cv cw' cv' = true ->           (* same wire -> value map, any order *)
    same_struct b b' -> same_struct (Ctrl n b cw cv ww wt) (Ctrl n b' cw' cv' ww wt)
| SS_Pow : forall n z z' b b', (z == z')%Q -> same_struct b b' -> same_struct (PowO n z b) (PowO n z' b')
| SS_Adj : forall n b b', same_struct b b' -> same_struct (Adj n b) (Adj n b')
| SS_SProd_prep : forall s s' k x b b',           (* same pauli_rep: decided by the shortcut *)
    same_struct (SProdO s k (Some x) b) (SProdO s' k (Some x) b')
| SS_SProd : forall s s' k p p' b b',
    (s == s')%Q -> same_struct b b' -> same_struct (SProdO s k p b) (SProdO s' k p' b')
| SS_Exp : forall n c c' k b b',
    (c == c')%Q -> same_struct b b' -> same_struct (ExpO n c k b) (ExpO n c' k b')
| SS_Comp_prep : forall n k k' x ops ops',        (* same pauli_rep: decided by the shortcut *)
    same_struct (Comp n k (Some x) ops) (Comp n k' (Some x) ops')
| SS_Comp : forall n k k' p p' ops ops',          (* same operands after the class's _sort *)
    Forall2 (fun x y => same_struct (obody x) (obody y)) (sortK k ops) (sortK k' ops') ->
    same_struct (Comp n k p ops) (Comp n k' p' ops').

Inductive same_struct_mp : mp -> mp -> Prop :=
| SSM_obs : forall k a b w w' e e' x y y', same_struct a b ->
    same_struct_mp (MP k (Some a) w e x y) (MP k (Some b) w' e' x y')
| SSM_wires : forall k w x y y', same_struct_mp (MP k None w None x y) (MP k None w None x y')
| SSM_eig : forall k w e e' x y y', Forall2 Qeq e e' ->
    same_struct_mp (MP k None w (Some e) x y) (MP k None w (Some e') x y').

Inductive same_struct_item : item -> item -> Prop :=
| SSI_op : forall a b, same_struct a b -> same_struct_item (IOp a) (IOp b)
| SSI_mp : forall a b, same_struct_mp a b -> same_struct_item (IMp a) (IMp b).

Lemma prep_match_true : forall p q, prep_match p q = true -> exists x, p = Some x /\ q = Some x.
Proof.
  destruct p, q; simpl; intros; try discriminate. apply Z.eqb_eq in H. subst. eauto.
Qed.

Lemma close_list_exact : forall l1 l2, forallb2 (close 0 0) l1 l2 = true -> Forall2 Qeq l1 l2.
Proof.
  intros l1 l2. apply forallb2_Forall2. apply Forall_forall. intros. apply close_exact. auto.
Qed.

Lemma equal_exact_same_struct : forall a b, equal 0 0 a b = true -> same_struct a b.
Proof.
  induction a using op_ind2; intros b0 E;
    destruct b0 as [n' ps' w' h' | n' b' cw' cv' ww' wt' | n' z' b' | n' b' | s' k' p' b' | n' c' k' b' | n' k' p' ops'];
    try discriminate E.
  - cbn [equal] in E. apply andb_prop in E. destruct E as [En E]. apply Z.eqb_eq in En. subst n'.
    apply orb_prop in E. destruct E as [E | E].
    + apply Z.eqb_eq in E. subst. constructor.
    + apply andb_prop in E. destruct E as [E Ep]. apply andb_prop in E. destruct E as [Ew Eh].
      apply zlist_eqb_eq in Ew. apply Z.eqb_eq in Eh. subst. apply SS_Plain.
      unfold params_close in Ep. revert Ep. apply forallb2_Forall2. apply Forall_forall. intros.
      apply close_list_exact. auto.
  - cbn [equal] in E. repeat (apply andb_prop in E; destruct E as [E ?]).
    apply Z.eqb_eq in E. apply Z.eqb_eq in H1. apply zlist_eqb_eq in H2. subst. constructor; auto.
  - cbn [equal] in E. repeat (apply andb_prop in E; destruct E as [E ?]).
    apply Z.eqb_eq in E. apply Qeq_bool_iff in H0. subst. constructor; auto.
  - cbn [equal] in E. apply andb_prop in E; destruct E as [E ?]. apply Z.eqb_eq in E. subst. constructor; auto.
  - cbn [equal] in E. apply andb_prop in E; destruct E as [Ek E]. apply Z.eqb_eq in Ek. subst.
    apply orb_prop in E. destruct E as [E | E].
    + apply prep_match_true in E. destruct E as [x [? ?]]. subst. apply SS_SProd_prep.
    + apply andb_prop in E; destruct E as [E ?]. apply SS_SProd; auto. apply close_exact; auto.
  - cbn [equal] in E. repeat (apply andb_prop in E; destruct E as [E ?]).
    apply Z.eqb_eq in E. apply Z.eqb_eq in H1. subst. apply SS_Exp; auto. apply close_exact; auto.
  - rewrite equal_comp_unfold in E. apply andb_prop in E; destruct E as [En E]. apply Z.eqb_eq in En. subst.
    apply orb_prop in E. destruct E as [E | E].
    + apply prep_match_true in E. destruct E as [x [? ?]]. subst. apply SS_Comp_prep.
    + apply andb_prop in E; destruct E as [_ E]. apply SS_Comp. revert E. apply forallb2_Forall2.
      apply Forall_forall. intros x I y. apply sortK_in in I. rewrite Forall_forall in H. apply (H x I).
Qed.

Lemma equal_exact_same_struct_item : forall a b, equal_item 0 0 a b = true -> same_struct_item a b.
Proof.
  intros [x | [k o w e u v]] [y | [k' o' w' e' u' v']] E; simpl in E; try discriminate.
  - constructor. apply equal_exact_same_struct; auto.
  - constructor. apply andb_prop in E; destruct E as [E Eo]. apply andb_prop in E; destruct E as [Ek Eu].
    apply Z.eqb_eq in Ek. apply Z.eqb_eq in Eu. subst.
    destruct o as [a|], o' as [b|]; try discriminate.
    + apply SSM_obs. apply equal_exact_same_struct; auto.
    + apply andb_prop in Eo; destruct Eo as [Ew Ee]. apply zlist_eqb_eq in Ew. subst.
      destruct e as [x|], e' as [y|]; simpl in Ee; try discriminate.
      * apply SSM_eig. apply close_list_exact; auto.
      * apply SSM_wires.
Qed.

(* the relation is not vacuous in the other direction: structurally identical objects are related *)
Lemma same_struct_refl : forall a, same_struct a a.
Proof.
  intros. apply equal_exact_same_struct. apply equal_refl_op; discriminate.
Qed.
