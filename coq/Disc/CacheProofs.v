From Coq Require Import List ZArith Bool Lia.
From PLV Require Import Disc.CacheModel.
Import ListNotations.
Open Scope Z_scope.

Section Transparent.
  Variables key run : Z -> Z.
  (* the cache key identifies the result: equal keys => equal results *)
  Hypothesis key_sound : forall t u, key t = key u -> run t = run u.

  (* a cache is consistent with the device when every stored result is the result of every tape with that key,
     and there is no dangling placeholder *)
  Definition cache_ok (c : cache) : Prop :=
    forall k v, lookup c k = Some v -> exists r, v = Some r /\ forall t, key t = k -> run t = r.
  (* during phase 2: placeholders exactly for the keys of pending misses *)
  Definition cache_ok_pending (c : cache) (pending : list Z) : Prop :=
    forall k v, lookup c k = Some v ->
      (exists r, v = Some r /\ forall t, key t = k -> run t = r) \/ (v = None /\ In k pending).

  Lemma lookup_set_same c k v : lookup (set c k v) k = Some v.
  Proof. induction c as [|[k' v'] c IH]; cbn; [now rewrite Z.eqb_refl|]. destruct (k' =? k) eqn:E; cbn; [now rewrite Z.eqb_refl | now rewrite E]. Qed.
  Lemma lookup_set_other c k v k2 : k2 <> k -> lookup (set c k v) k2 = lookup c k2.
  Proof.
    intros N. induction c as [|[k' v'] c IH]; cbn.
    - destruct (k =? k2) eqn:E; [apply Z.eqb_eq in E; congruence | reflexivity].
    - destruct (k' =? k) eqn:E; cbn.
      + apply Z.eqb_eq in E; subst. destruct (k =? k2) eqn:E2; [apply Z.eqb_eq in E2; congruence|]. reflexivity.
      + destruct (k' =? k2); [reflexivity | exact IH].
  Qed.

  Definition miss_keys (pl : list plan) : list Z := flat_map (fun p => match p with Miss k => [k] | Hit _ => [] end) pl.
  Fixpoint wf (pl : list plan) : Prop :=
    match pl with
    | [] => True
    | Hit k :: r => ~ In k (miss_keys r) /\ wf r
    | Miss k :: r => ~ In k (miss_keys r) /\ wf r
    end.

  (* phase 1 emits exactly the first tape of every key not yet cached, and marks it pending *)
  Lemma phase1_spec batch : forall c pend em pl c',
    cache_ok_pending c pend -> phase1 key batch c = (em, pl, c') ->
    map key em = miss_keys pl /\ length pl = length batch /\
    cache_ok_pending c' (pend ++ miss_keys pl) /\
    (forall k, In k (miss_keys pl) -> lookup c' k = Some None) /\
    NoDup (miss_keys pl) /\ (forall k, In k (miss_keys pl) -> lookup c k = None) /\
    Forall2 (fun t p => match p with Hit k => k = key t /\ lookup c' k <> None | Miss k => k = key t end) batch pl /\
    (forall k, lookup c k <> None -> lookup c' k = lookup c k) /\ wf pl.
  Proof.
    induction batch as [|t r IH]; intros c pend em pl c' Hc H.
    - cbn in H. inversion H; subst. cbn. rewrite app_nil_r. repeat split; auto; try constructor; intros k [].
    - cbn [phase1] in H. destruct (lookup c (key t)) as [v|] eqn:L.
      + destruct (phase1 key r c) as [[em1 pl1] c1] eqn:P. inversion H; subst.
        destruct (IH c pend em pl1 c' Hc P) as (A & B & C & D & E & F & G & K & W).
        cbn [miss_keys flat_map app length wf]. fold (miss_keys pl1). repeat split; auto.
        * constructor; [|exact G]. split; [reflexivity|]. rewrite K by congruence. congruence.
        * intros I. specialize (F _ I). congruence.
      + destruct (phase1 key r (set c (key t) None)) as [[em1 pl1] c1] eqn:P. inversion H; subst.
        assert (Hc' : cache_ok_pending (set c (key t) None) (pend ++ [key t])).
        { intros k v Hk. destruct (Z.eq_dec k (key t)) as [->|N].
          - rewrite lookup_set_same in Hk. inversion Hk; subst. right. split; [reflexivity|]. apply in_or_app; right; left; reflexivity.
          - rewrite lookup_set_other in Hk by exact N. destruct (Hc k v Hk) as [X|[X Y]]; [left; exact X|]. right. split; [exact X|]. apply in_or_app; left; exact Y. }
        destruct (IH _ _ _ _ _ Hc' P) as (A & B & C & D & E & F & G & K & W).
        cbn [miss_keys flat_map app length map wf]. fold (miss_keys pl1).
        assert (NI : ~ In (key t) (miss_keys pl1)).
        { intros I. specialize (F _ I). rewrite lookup_set_same in F. discriminate. }
        repeat split.
        * f_equal. exact A.
        * f_equal. exact B.
        * rewrite <- app_assoc in C. exact C.
        * intros k [<-|I]; [|apply D; exact I]. rewrite K; rewrite lookup_set_same; congruence.
        * constructor; assumption.
        * intros k [<-|I]; [exact L|]. specialize (F k I). destruct (Z.eq_dec k (key t)) as [->|N]; [exact L|]. rewrite lookup_set_other in F by exact N. exact F.
        * constructor; [reflexivity|exact G].
        * intros k Hk. destruct (Z.eq_dec k (key t)) as [->|N]; [congruence|]. rewrite K; rewrite lookup_set_other by exact N; [reflexivity | exact Hk].
        * exact NI.
        * exact W.
  Qed.

  Lemma phase2_spec batch pl : Forall2 (fun t p => match p with Hit k => k = key t | Miss k => k = key t end) batch pl ->
    forall c em, wf pl -> map key em = miss_keys pl -> cache_ok_pending c (miss_keys pl) ->
    (forall k, In (Hit k) pl -> lookup c k <> None) ->
    exists c', phase2 pl (map run em) c = (map (fun t => Some (run t)) batch, c') /\ cache_ok c'.
  Proof.
    induction 1 as [|t p batch pl Hp HF IH]; intros c em W E Hc P3.
    - cbn. exists c. split; [reflexivity|]. intros k v L. destruct (Hc k v L) as [X|[_ []]]. exact X.
    - destruct p as [k|k]; subst k; cbn [wf miss_keys flat_map app] in *; fold (miss_keys pl) in *; destruct W as [NI W].
      + assert (L : lookup c (key t) <> None) by (apply P3; left; reflexivity).
        destruct (lookup c (key t)) as [v|] eqn:Lk; [|congruence].
        destruct (Hc _ _ Lk) as [(r & -> & Hr)|[_ I]]; [|contradiction].
        destruct (IH c em W E Hc (fun k I => P3 k (or_intror I))) as (c' & Hph & Hok).
        exists c'. cbn [phase2 map]. rewrite Lk, Hph. split; [|exact Hok]. rewrite (Hr t eq_refl). reflexivity.
      + destruct em as [|t0 em]; [discriminate|]. cbn [map] in E. injection E as Ek Em.
        assert (Hc' : cache_ok_pending (set c (key t) (Some (run t0))) (miss_keys pl)).
        { intros k v Hk. destruct (Z.eq_dec k (key t)) as [->|N].
          - rewrite lookup_set_same in Hk. inversion Hk; subst. left. exists (run t0). split; [reflexivity|].
            intros t' Ht'. apply key_sound. congruence.
          - rewrite lookup_set_other in Hk by exact N. destruct (Hc k v Hk) as [X|[X [Y|Y]]]; [left; exact X | congruence | right; split; assumption]. }
        assert (P3' : forall k, In (Hit k) pl -> lookup (set c (key t) (Some (run t0))) k <> None).
        { intros k I. destruct (Z.eq_dec k (key t)) as [->|N]; [rewrite lookup_set_same; discriminate|].
          rewrite lookup_set_other by exact N. apply P3. right. exact I. }
        destruct (IH _ em W Em Hc' P3') as (c' & Hph & Hok).
        exists c'. cbn [phase2 map]. rewrite Hph. split; [|exact Hok]. f_equal. f_equal. f_equal. apply key_sound. exact Ek.
  Qed.

  (* the whole batch: results are exactly the device results in batch order, whatever was cached before,
     and the cache stays consistent *)
  Theorem cache_exec_transparent batch c : cache_ok c ->
    exists em c', cache_exec key run batch c = (em, map (fun t => Some (run t)) batch, c') /\ cache_ok c' /\ incl em batch.
  Proof.
    intros Hc. unfold cache_exec. destruct (phase1 key batch c) as [[em pl] c1] eqn:P.
    assert (Hc0 : cache_ok_pending c []) by (intros k v L; left; exact (Hc k v L)).
    destruct (phase1_spec batch c [] em pl c1 Hc0 P) as (A & B & C & D & E & F & G & K & W).
    assert (G' : Forall2 (fun t p => match p with Hit k => k = key t | Miss k => k = key t end) batch pl).
    { clear -G. induction G as [|t p b l H _ IH]; constructor; [|exact IH]. destruct p; [destruct H; assumption | assumption]. }
    assert (P3 : forall k, In (Hit k) pl -> lookup c1 k <> None).
    { clear -G. induction G as [|t p b l H _ IH]; intros k []; [subst p; destruct H; congruence | apply IH; assumption]. }
    destruct (phase2_spec batch pl G' c1 em W A C P3) as (c' & Hph & Hok).
    rewrite Hph. exists em, c'. repeat split; [exact Hok|].
    clear -P. revert c em pl c1 P. induction batch as [|t r IH]; intros c em pl c1 P; cbn [phase1] in P.
    - inversion P; subst. intros x [].
    - destruct (lookup c (key t)).
      + destruct (phase1 key r c) as [[e1 p1] cc] eqn:Q. inversion P; subst. intros x I. right. exact (IH _ _ _ _ Q x I).
      + destruct (phase1 key r (set c (key t) None)) as [[e1 p1] cc] eqn:Q. inversion P; subst.
        intros x [<-|I]; [left; reflexivity | right; exact (IH _ _ _ _ Q x I)].
  Qed.

  (* histories of executions sharing one cache *)
  Theorem history_transparent batches : forall c, cache_ok c ->
    map snd (fst (history key run batches c)) = map (fun b => map (fun t => Some (run t)) b) batches.
  Proof.
    induction batches as [|b r IH]; intros c Hc; [reflexivity|]. cbn [history].
    destruct (cache_exec_transparent b c Hc) as (em & c' & E & Hok & _). rewrite E.
    specialize (IH c' Hok). destruct (history key run r c') as [rest c'']. cbn [fst map snd] in *. f_equal. exact IH.
  Qed.
End Transparent.

Lemma empty_cache_ok key run : cache_ok key run [].
Proof. intros k v L. discriminate. Qed.
