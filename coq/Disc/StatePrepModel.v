(* Model of the discrete / exact-arithmetic parts of the state-preparation templates:
   (a) pennylane/ops/qubit/state_preparation.py : BasisState (= BasisEmbedding): _canonicalize_state,
       _basis_state_decomp (the emitted X gates), state_vector(wire_order); pennylane/math/binary_linalg.py
       int_to_binary;
   (b) StatePrep._preprocess / _preprocess_csr (used by StatePrep and AmplitudeEmbedding): length checks,
       padding with pad_with, norm validation as the code decides it (math.allclose(norm, 1.0, atol=1e-10),
       default rtol=1e-5) and normalisation, over Gaussian rationals whose norm is rational.
   No proofs here: this file must keep running for the correspondence check when a proof elsewhere breaks. *)
From Coq Require Import List ZArith Bool QArith Qabs.
Import ListNotations.

(* ================================================================ (a) BasisState *)
Open Scope Z_scope.

Inductive bs_input :=
| BSScalar (k : Z)          (* a Python int: shape () *)
| BSList (l : list Z).      (* a 1-d sequence of integer entries *)

Definition is_bit (z : Z) : bool := (z =? 0) || (z =? 1).

(* BasisState._canonicalize_state : None = ValueError *)
Definition canonicalize (inp : bs_input) (nwires : nat) : option (list bool) :=
  match inp with
  | BSScalar _ => None
  | BSList l =>
      if negb (Nat.eqb (length l) nwires) then None
      else if forallb is_bit l then Some (map (fun z => z =? 1) l) else None
  end.

(* _basis_state_decomp : for i in range(len(state)): cond(state[i] == 1, X)(wires[i]) *)
Fixpoint decomp (bits : list bool) (wires : list Z) : list Z :=
  match bits, wires with
  | b :: bs, w :: ws => if b then w :: decomp bs ws else decomp bs ws
  | _, _ => []
  end.

(* classical register: (wire label, bit) in device wire order *)
Definition reg := list (Z * bool).
Definition zero_reg (order : list Z) : reg := map (fun w => (w, false)) order.
Definition apply_x (w : Z) (r : reg) : reg :=
  map (fun p => if fst p =? w then (fst p, negb (snd p)) else p) r.
Definition run_x (xs : list Z) (r : reg) : reg := fold_left (fun r w => apply_x w r) xs r.
Definition reg_bits (r : reg) : list bool := map snd r.

(* position of the single 1 of a computational basis state, wire 0 = most significant bit *)
Definition b2z (b : bool) : Z := if b then 1 else 0.
Definition index_of (bits : list bool) : Z := fold_left (fun acc b => 2 * acc + b2z b) bits 0.
(* the documented formula  sum_i b_i 2^(n-1-i) *)
Fixpoint index_sum (bits : list bool) : Z :=
  match bits with
  | [] => 0
  | b :: bs => b2z b * 2 ^ Z.of_nat (length bs) + index_sum bs
  end.

(* BasisState.state_vector(wire_order): indices = [0]*n; indices[wire_order.index(w)] = value *)
Fixpoint find_idx (w : Z) (order : list Z) : option nat :=
  match order with
  | [] => None
  | x :: r => if x =? w then Some O else option_map S (find_idx w r)
  end.
Fixpoint set_nth {A} (n : nat) (v : A) (l : list A) : list A :=
  match l, n with
  | [], _ => []
  | _ :: r, O => v :: r
  | x :: r, S k => x :: set_nth k v r
  end.
Fixpoint sv_indices (wires : list Z) (bits : list bool) (order : list Z) (acc : list bool) : option (list bool) :=
  match wires, bits with
  | w :: ws, b :: bs =>
      match find_idx w order with
      | None => None                                   (* WireError *)
      | Some i => sv_indices ws bs order (set_nth i b acc)
      end
  | _, _ => Some acc
  end.
Definition state_vector_bits (wires : list Z) (bits : list bool) (order : list Z) : option (list bool) :=
  sv_indices wires bits order (repeat false (length order)).
Definition state_vector_index (wires : list Z) (bits : list bool) (order : list Z) : option Z :=
  option_map index_of (state_vector_bits wires bits order).

(* qp.math.int_to_binary(k, width) = (k >> [width-1 .. 0]) % 2 *)
Definition int_to_binary (k : Z) (width : nat) : list bool :=
  map (fun s => Z.eqb ((Z.shiftr k (Z.of_nat s)) mod 2) 1) (rev (seq 0 width)).

(* ---- correspondence for (a) ---- *)
Inductive basis_case :=
| BCPrep (inp : bs_input) (wires order : list Z)
| BCInt2Bin (k : Z) (width : nat).

Inductive basis_obs :=
| BOErr
| BOPrep (x_wires : list Z) (sv_index sv_len : Z)
| BOBits (bits : list Z).

Fixpoint eq_lz (a b : list Z) : bool :=
  match a, b with
  | [], [] => true
  | x :: r, y :: s => (x =? y) && eq_lz r s
  | _, _ => false
  end.

Definition check_basis (c : basis_case * basis_obs) : bool :=
  match c with
  | (BCPrep inp wires order, o) =>
      match canonicalize inp (length wires), o with
      | None, BOErr => true
      | Some bits, BOPrep xs idx len =>
          eq_lz (decomp bits wires) xs
          && match state_vector_index wires bits order with Some i => i =? idx | None => false end
          && (len =? 2 ^ Z.of_nat (length order))
          (* the emitted X gates, run classically from |0..0> on the device register, reach the same index *)
          && (index_of (reg_bits (run_x xs (zero_reg order))) =? idx)
      | _, _ => false
      end
  | (BCInt2Bin k w, BOBits l) => eq_lz (map b2z (int_to_binary k w)) l
  | _ => false
  end.

(* ================================================================ (b) StatePrep._preprocess *)
Open Scope Q_scope.

Definition C := (Q * Q)%type.          (* Gaussian rational re + i im *)
Definition cabs2 (z : C) : Q := fst z * fst z + snd z * snd z.
Definition norm2 (l : list C) : Q := fold_right (fun z acc => cabs2 z + acc) 0 l.
Definition cdiv (r : Q) (z : C) : C := (fst z / r, snd z / r).

(* exact square root of a non-negative rational when it is rational: sqrt(n/d) = sqrt(n d)/d *)
Definition qsqrt (q : Q) : option Q :=
  let nd := (Qnum q * Zpos (Qden q))%Z in
  let s := Z.sqrt nd in
  if (s * s =? nd)%Z then Some (s # Qden q) else None.

(* math.allclose(norm, 1.0, atol=_STATE_NORM_TOLERANCE) with numpy's default rtol:
   |norm - 1| <= atol + rtol * |1| *)
Definition atol : Q := 1 # 10000000000.
Definition rtol : Q := 1 # 100000.
Definition tol : Q := atol + rtol * 1.
Definition close1 (r : Q) : bool := Qle_bool (Qabs (r - 1)) tol.

Definition pad (st : list C) (dim : nat) (p : C) : list C := st ++ repeat p (dim - length st).

Inductive pre_result :=
| PErr                  (* ValueError *)
| PNaN                  (* division by a zero norm: the implementation returns NaNs *)
| PIrr                  (* the norm is irrational: outside this exact model *)
| POk (l : list C).

Record pre_args := mkPre {
  pa_state : list C; pa_nwires : nat; pa_pad : option C; pa_normalize : bool; pa_validate : bool }.

(* the "# normalize" tail of _preprocess *)
Definition norm_tail (st : list C) (normalize validate : bool) : pre_result :=
  if negb (validate || normalize) then POk st
  else match qsqrt (norm2 st) with
       | None => PIrr
       | Some r =>
           if close1 r then POk st
           else if normalize then (if Qeq_bool r 0 then PNaN else POk (map (cdiv r) st))
           else PErr
       end.

Definition preprocess (a : pre_args) : pre_result :=
  let dim := Nat.pow 2 (pa_nwires a) in
  let n_states := length (pa_state a) in
  match pa_pad a with
  | None =>
      if negb (Nat.eqb n_states dim) then PErr
      else norm_tail (pa_state a) (pa_normalize a) (pa_validate a)
  | Some p =>
      (* normalize = True *)
      if Nat.ltb dim n_states then PErr
      else norm_tail (if Nat.ltb n_states dim then pad (pa_state a) dim p else pa_state a) true (pa_validate a)
  end.

(* _preprocess_csr (sparse input): non-zero padding refused, implicit zero padding, division without
   the closeness test when normalize is set *)
Definition czero (z : C) : bool := Qeq_bool (fst z) 0 && Qeq_bool (snd z) 0.
Definition preprocess_csr (a : pre_args) : pre_result :=
  let dim := Nat.pow 2 (pa_nwires a) in
  let n_states := length (pa_state a) in
  if match pa_pad a with Some p => negb (czero p) | None => false end then PErr
  else if Nat.ltb dim n_states then PErr
  else
    let st := if Nat.ltb n_states dim then pad (pa_state a) dim (0, 0) else pa_state a in
    if negb (pa_validate a || pa_normalize a) then POk st
    else match qsqrt (norm2 st) with
         | None => PIrr
         | Some r =>
             if pa_normalize a then (if Qeq_bool r 0 then PNaN else POk (map (cdiv r) st))
             else if close1 r then POk st else PErr
         end.

(* ---- correspondence for (b) ---- *)
Inductive pre_obs := IErr | INaN | IOk (l : list C).

Definition cmp_tol : Q := 1 # 1000000000000.
Definition qclose (a b : Q) : bool := Qle_bool (Qabs (a - b)) cmp_tol.
Fixpoint eq_cl (a b : list C) : bool :=
  match a, b with
  | [], [] => true
  | x :: r, y :: s => qclose (fst x) (fst y) && qclose (snd x) (snd y) && eq_cl r s
  | _, _ => false
  end.

Definition check_pre (c : (bool * pre_args) * pre_obs) : bool :=
  let '((sparse, a), o) := c in
  match (if sparse then preprocess_csr a else preprocess a), o with
  | PErr, IErr => true
  | PNaN, INaN => true
  | PIrr, _ => true
  | POk l, IOk l' => eq_cl l l'
  | _, _ => false
  end.
