(* Lemmas about Disc/BoseModel.v (property C54).  The per-truncation statements are finite (truncations 2..8,
   bounded word length: the bounds are written in every statement) and are decided by vm_compute on the exact
   model; the linearity statements hold for all sentences. *)
From Coq Require Import List ZArith Bool QArith Qabs Lia.
From PLV Require Import Disc.PauliAlgModel Disc.BoseModel.
Import ListNotations.
Open Scope Z_scope.

(* ------------------------------------------------------------------ ranges *)
Lemma in_zrange d z : 0 <= z < d -> In z (zrange d).
Proof.
  intros H. unfold zrange. apply in_map_iff. exists (Z.to_nat z). split; [lia|].
  apply in_seq. lia.
Qed.

Lemma zrange_in d z : In z (zrange d) -> 0 <= z < d.
Proof.
  unfold zrange. intros H. apply in_map_iff in H. destruct H as [k [E I]]. apply in_seq in I. lia.
Qed.

Definition valid_levels (d : Z) (modes : nat) (ls : list Z) : Prop :=
  length ls = modes /\ forall l, In l ls -> 0 <= l < d.

Lemma all_levels_in d : forall modes ls, valid_levels d modes ls -> In ls (all_levels d modes).
Proof.
  induction modes as [|k IH]; intros ls [L V].
  - destruct ls; [left; reflexivity | discriminate].
  - destruct ls as [|l r]; [discriminate|]. cbn [all_levels]. apply in_flat_map.
    exists l. split.
    + apply in_zrange. apply V. left; reflexivity.
    + apply in_map. apply IH. split; [simpl in L; lia | intros x Hx; apply V; right; exact Hx].
Qed.

Lemma in_2_8 d : 2 <= d <= 8 -> In d [2; 3; 4; 5; 6; 7; 8].
Proof. intros H. simpl. lia. Qed.
Lemma in_2_4 d : 2 <= d <= 4 -> In d [2; 3; 4].
Proof. intros H. simpl. lia. Qed.

Lemma kind_in kd : kd <> MChr -> In kd [MBin; MUna].
Proof. destruct kd; simpl; intros H; auto. Qed.

(* ------------------------------------------------------------------ the formal square roots *)
Lemma sqrt_table : forall n, 1 <= n <= 7 -> keqb (kmul (sqrtK n) (sqrtK n)) (kofZ n) = true.
Proof.
  intros n H.
  assert (E : n = 1 \/ n = 2 \/ n = 3 \/ n = 4 \/ n = 5 \/ n = 6 \/ n = 7) by lia.
  destruct E as [E|[E|[E|[E|[E|[E|E]]]]]]; subst n; vm_compute; reflexivity.
Qed.

Lemma approx_sq :
  (Qabs (a2 * a2 - 2) < 1 # 100000000000000000000000000000)%Q /\
  (Qabs (a3 * a3 - 3) < 1 # 100000000000000000000000000000)%Q /\
  (Qabs (a5 * a5 - 5) < 1 # 100000000000000000000000000000)%Q /\
  (Qabs (a7 * a7 - 7) < 1 # 100000000000000000000000000000)%Q.
Proof. repeat split; vm_compute; reflexivity. Qed.

(* ------------------------------------------------------------------ the finite computations *)
Definition ds28 : list Z := [2; 3; 4; 5; 6; 7; 8].

Lemma img1_all :
  forallb (fun kd => forallb (fun d => forallb (image_ok kd 1 d) (words_upto letters1 3)) ds28) [MBin; MUna] = true.
Proof. vm_cast_no_check (eq_refl true). Qed.

Lemma img2_all :
  forallb (fun kd => forallb (fun d => forallb (image_ok kd 2 d) (words_upto letters2 2)) [2; 3; 4]) [MBin; MUna] = true.
Proof. vm_cast_no_check (eq_refl true). Qed.

Lemma closed1_all :
  forallb (fun kd => forallb (fun d => forallb (closed_ok kd 1 d) (words_upto letters1 2)) ds28) [MBin; MUna] = true.
Proof. vm_cast_no_check (eq_refl true). Qed.

Lemma adj1_all :
  forallb (fun kd => forallb (fun d => forallb (adjoint_ok kd d) (words_upto letters1 3)) ds28) [MBin; MUna] = true.
Proof. vm_cast_no_check (eq_refl true). Qed.

Lemma adj2_all :
  forallb (fun kd => forallb (fun d => forallb (adjoint_ok kd d) (words_upto letters2 2)) [2; 3; 4]) [MBin; MUna] = true.
Proof. vm_cast_no_check (eq_refl true). Qed.

Lemma chr_all :
  forallb (fun w => image_ok MChr 2 2 w && closed_ok MChr 2 2 w && adjoint_ok MChr 2 w) (words_upto letters2 3) = true.
Proof. vm_cast_no_check (eq_refl true). Qed.

Lemma matprod_all :
  forallb (fun d => forallb (matprod_ok d)
     (map (map snd) (words_upto letters1 3))) ds28 = true.
Proof. vm_cast_no_check (eq_refl true). Qed.

(* ------------------------------------------------------------------ unfolding the boolean checkers *)
Lemma image_ok_elim kd modes d w : image_ok kd modes d w = true ->
  forall ms ns, valid_levels d modes ms -> valid_levels d modes ns ->
  keqb (kselem (nqubits kd d (Z.of_nat modes)) (get_word kd d w) (enc kd d ms) (enc kd d ns))
       (ladder_elem d w ms ns) = true.
Proof.
  unfold image_ok. intros H ms ns Hm Hn.
  rewrite forallb_forall in H. specialize (H ms (all_levels_in d modes ms Hm)).
  rewrite forallb_forall in H. exact (H ns (all_levels_in d modes ns Hn)).
Qed.

Lemma zmem_l_in x l : zmem_l x l = true -> In x l.
Proof.
  unfold zmem_l. intros H. apply existsb_exists in H. destruct H as [y [I E]].
  apply Z.eqb_eq in E. subst; exact I.
Qed.

Lemma closed_ok_elim kd modes d w : closed_ok kd modes d w = true ->
  forall x ns, 0 <= x < Z.shiftl 1 (nqubits kd d (Z.of_nat modes)) ->
  (forall ms, valid_levels d modes ms -> x <> enc kd d ms) ->
  valid_levels d modes ns ->
  kselem (nqubits kd d (Z.of_nat modes)) (get_word kd d w) x (enc kd d ns) = k0.
Proof.
  unfold closed_ok. intros H x ns Hx Hout Hn.
  rewrite forallb_forall in H. specialize (H x (in_zrange _ _ Hx)).
  apply orb_true_iff in H. destruct H as [H|H].
  - exfalso. apply zmem_l_in in H. apply in_map_iff in H. destruct H as [ms [E I]].
    assert (V : valid_levels d modes ms).
    { clear - I. revert ms I. induction modes as [|k IH]; intros ms I.
      - destruct I as [<-|[]]. split; [reflexivity | intros l []].
      - cbn [all_levels] in I. apply in_flat_map in I. destruct I as [l [Il I]].
        apply in_map_iff in I. destruct I as [r [<- Ir]]. destruct (IH r Ir) as [L V].
        split; [simpl; lia|]. intros y [<-|Hy]; [apply zrange_in; exact Il | apply V; exact Hy]. }
    exact (Hout ms V (eq_sym E)).
  - rewrite forallb_forall in H.
    specialize (H (enc kd d ns) (in_map _ _ _ (all_levels_in d modes ns Hn))).
    unfold k_is0 in H. unfold k0.
    destruct (kselem (nqubits kd d (Z.of_nat modes)) (get_word kd d w) x (enc kd d ns)); [reflexivity|discriminate].
Qed.

(* ------------------------------------------------------------------ the statements *)
Lemma image_one_mode : forall kd d w ms ns,
  kd <> MChr -> 2 <= d <= 8 -> In w (words_upto letters1 3) ->
  valid_levels d 1 ms -> valid_levels d 1 ns ->
  keqb (kselem (nqubits kd d 1) (get_word kd d w) (enc kd d ms) (enc kd d ns)) (ladder_elem d w ms ns) = true.
Proof.
  intros kd d w ms ns Hk Hd Hw Hm Hn.
  pose proof img1_all as A. rewrite forallb_forall in A. specialize (A kd (kind_in kd Hk)).
  rewrite forallb_forall in A. specialize (A d (in_2_8 d Hd)).
  rewrite forallb_forall in A. specialize (A w Hw).
  exact (image_ok_elim kd 1 d w A ms ns Hm Hn).
Qed.

Lemma image_two_modes : forall kd d w ms ns,
  kd <> MChr -> 2 <= d <= 4 -> In w (words_upto letters2 2) ->
  valid_levels d 2 ms -> valid_levels d 2 ns ->
  keqb (kselem (nqubits kd d 2) (get_word kd d w) (enc kd d ms) (enc kd d ns)) (ladder_elem d w ms ns) = true.
Proof.
  intros kd d w ms ns Hk Hd Hw Hm Hn.
  pose proof img2_all as A. rewrite forallb_forall in A. specialize (A kd (kind_in kd Hk)).
  rewrite forallb_forall in A. specialize (A d (in_2_4 d Hd)).
  rewrite forallb_forall in A. specialize (A w Hw).
  exact (image_ok_elim kd 2 d w A ms ns Hm Hn).
Qed.

Lemma closed_one_mode : forall kd d w x ns,
  kd <> MChr -> 2 <= d <= 8 -> In w (words_upto letters1 2) ->
  0 <= x < Z.shiftl 1 (nqubits kd d 1) ->
  (forall ms, valid_levels d 1 ms -> x <> enc kd d ms) -> valid_levels d 1 ns ->
  kselem (nqubits kd d 1) (get_word kd d w) x (enc kd d ns) = k0.
Proof.
  intros kd d w x ns Hk Hd Hw Hx Ho Hn.
  pose proof closed1_all as A. rewrite forallb_forall in A. specialize (A kd (kind_in kd Hk)).
  rewrite forallb_forall in A. specialize (A d (in_2_8 d Hd)).
  rewrite forallb_forall in A. specialize (A w Hw).
  exact (closed_ok_elim kd 1 d w A x ns Hx Ho Hn).
Qed.

Lemma adjoint_one_mode : forall kd d w,
  kd <> MChr -> 2 <= d <= 8 -> In w (words_upto letters1 3) ->
  ks_eqb (get_word kd d (badj w)) (ksconj (get_word kd d w)) = true.
Proof.
  intros kd d w Hk Hd Hw.
  pose proof adj1_all as A. rewrite forallb_forall in A. specialize (A kd (kind_in kd Hk)).
  rewrite forallb_forall in A. specialize (A d (in_2_8 d Hd)).
  rewrite forallb_forall in A. exact (A w Hw).
Qed.

Lemma adjoint_two_modes : forall kd d w,
  kd <> MChr -> 2 <= d <= 4 -> In w (words_upto letters2 2) ->
  ks_eqb (get_word kd d (badj w)) (ksconj (get_word kd d w)) = true.
Proof.
  intros kd d w Hk Hd Hw.
  pose proof adj2_all as A. rewrite forallb_forall in A. specialize (A kd (kind_in kd Hk)).
  rewrite forallb_forall in A. specialize (A d (in_2_4 d Hd)).
  rewrite forallb_forall in A. exact (A w Hw).
Qed.

Lemma christiansen_two_modes : forall w, In w (words_upto letters2 3) ->
  (forall ms ns, valid_levels 2 2 ms -> valid_levels 2 2 ns ->
     keqb (kselem 2 (chr_word w) (enc MChr 2 ms) (enc MChr 2 ns)) (ladder_elem 2 w ms ns) = true) /\
  ks_eqb (chr_word (badj w)) (ksconj (chr_word w)) = true.
Proof.
  intros w Hw. pose proof chr_all as A. rewrite forallb_forall in A. specialize (A w Hw).
  apply andb_true_iff in A. destruct A as [A A3]. apply andb_true_iff in A. destruct A as [A1 A2].
  split; [|exact A3]. intros ms ns Hm Hn. exact (image_ok_elim MChr 2 2 w A1 ms ns Hm Hn).
Qed.

Lemma ladder_elem_is_matrix_product : forall d signs m n,
  2 <= d <= 8 -> (length signs <= 3)%nat -> 0 <= m < d -> 0 <= n < d ->
  keqb (mentry (ladder_matprod d signs) m n) (ladder_elem d (map (fun s => (0, s)) signs) [m] [n]) = true.
Proof.
  intros d signs m n Hd Hl Hm Hn.
  pose proof matprod_all as A. rewrite forallb_forall in A. specialize (A d (in_2_8 d Hd)).
  rewrite forallb_forall in A.
  assert (I : In signs (map (map snd) (words_upto letters1 3))).
  { destruct signs as [|a [|b [|c [|e r]]]]; try (exfalso; simpl in Hl; lia);
      repeat match goal with x : bool |- _ => destruct x end; vm_compute; tauto. }
  specialize (A signs I). unfold matprod_ok in A.
  rewrite forallb_forall in A. specialize (A m (in_zrange _ _ Hm)).
  rewrite forallb_forall in A. exact (A n (in_zrange _ _ Hn)).
Qed.

(* ------------------------------------------------------------------ linearity (all sentences) *)
Lemma map_sent_app kd d : forall s1 s2,
  map_sent kd d (s1 ++ s2) =
  match map_sent kd d s1, map_sent kd d s2 with Some a, Some b => Some (a ++ b) | _, _ => None end.
Proof.
  induction s1 as [|[c w] r IH]; intros s2.
  - cbn [app map_sent]. destruct (map_sent kd d s2); reflexivity.
  - cbn [app map_sent]. rewrite IH.
    destruct (map_word kd d w); [|reflexivity].
    destruct (map_sent kd d r); [|reflexivity].
    destruct (map_sent kd d s2); [|reflexivity].
    rewrite app_assoc. reflexivity.
Qed.

Lemma map_sent_terms kd d : forall s t,
  map_sent kd d s = Some t ->
  forall u, In u t -> exists c w a x, In (c, w) s /\ map_word kd d w = Some a /\ In (fst u, x) a /\
                                     snd u = kmul (kofCQ c) x.
Proof.
  induction s as [|[c w] r IH]; intros t H u Hu.
  - cbn [map_sent] in H. injection H as <-. destruct Hu.
  - cbn [map_sent] in H. destruct (map_word kd d w) as [a|] eqn:Ew; [|discriminate].
    destruct (map_sent kd d r) as [b|] eqn:Er; [|discriminate]. injection H as <-.
    apply in_app_or in Hu. destruct Hu as [Hu|Hu].
    + unfold ksscale in Hu. apply in_map_iff in Hu. destruct Hu as [[w' x] [E I]]. subst u.
      exists c, w, a, x. cbn [fst snd]. repeat split; auto. left; reflexivity.
    + destruct (IH b eq_refl u Hu) as [c' [w' [a' [x [I [E [Ia Es]]]]]]].
      exists c', w', a', x. repeat split; auto. right; exact I.
Qed.
