(* Model of pennylane/bose/bosonic_mapping.py (binary_mapping, unary_mapping, christiansen_mapping)
   together with the reference semantics of truncated ladder operators.  No proofs in this file.

   Coefficients: the truncated ladder matrices have entries sqrt(1) .. sqrt(7) (truncations 2..8).  They are kept
   EXACT as elements of K = Q(i)[r2,r3,r5,r7]/(r_p^2 = p): a sparse formal sum  sum_S c_S * prod_{p in S} sqrt(p)
   indexed by a bit mask S over the primes [2;3;5;7] (bit 0 = 2, bit 1 = 3, bit 2 = 5, bit 3 = 7) with Gaussian
   rational coefficients c_S.  Canonical form: masks strictly increasing, no zero coefficient, Q components reduced.

   Pauli words and their multiplication table are REUSED from Disc/PauliAlgModel.v (property C51). *)
From Coq Require Import List ZArith Bool QArith Qabs FMapPositive.
From PLV Require Import Disc.PauliAlgModel.
Import ListNotations.
Open Scope Z_scope.

(* ------------------------------------------------------------------ Gaussian rationals *)
Definition CQ := (Q * Q)%type.
Definition cq0 : CQ := (0 # 1, 0 # 1)%Q.
Definition cq1 : CQ := (1 # 1, 0 # 1)%Q.
Definition cqadd (a b : CQ) : CQ := (Qred (fst a + fst b), Qred (snd a + snd b))%Q.
Definition cqmul (a b : CQ) : CQ :=
  (Qred (fst a * fst b - snd a * snd b), Qred (fst a * snd b + snd a * fst b))%Q.
Definition cqconj (a : CQ) : CQ := (Qred (fst a), Qred (- snd a))%Q.
Definition cq_is0 (a : CQ) : bool := Qeq_bool (fst a) (0 # 1) && Qeq_bool (snd a) (0 # 1).
Definition cqeqb (a b : CQ) : bool := Qeq_bool (fst a) (fst b) && Qeq_bool (snd a) (snd b).
Definition cqofZ (z : Z) : CQ := (z # 1, 0 # 1)%Q.
Definition cqofGZ (g : GZ) : CQ := (fst g # 1, snd g # 1)%Q.

(* ------------------------------------------------------------------ the field K (formal square roots) *)
Definition K := list (Z * CQ).
Definition k0 : K := [].
Definition kofCQ (c : CQ) : K := if cq_is0 c then [] else [(0, (Qred (fst c), Qred (snd c)))].
Definition k1 : K := kofCQ cq1.

Fixpoint kins (m : Z) (c : CQ) (k : K) : K :=
  match k with
  | [] => if cq_is0 c then [] else [(m, c)]
  | (m', c') :: r =>
      if m <? m' then (if cq_is0 c then k else (m, c) :: k)
      else if m =? m' then (let s := cqadd c' c in if cq_is0 s then r else (m', s) :: r)
      else (m', c') :: kins m c r
  end.

Definition kadd (a b : K) : K := fold_right (fun e acc => kins (fst e) (snd e) acc) b a.

(* product of the primes selected by the mask *)
Definition pp (m : Z) : Z :=
  (if Z.testbit m 0 then 2 else 1) * (if Z.testbit m 1 then 3 else 1) *
  (if Z.testbit m 2 then 5 else 1) * (if Z.testbit m 3 then 7 else 1).

(* sqrt(S) * sqrt(T) = prod(S /\ T) * sqrt(S xor T) *)
Definition kmul (a b : K) : K :=
  fold_right (fun e acc =>
    fold_right (fun f acc' =>
      kins (Z.lxor (fst e) (fst f))
           (cqmul (cqmul (snd e) (snd f)) (cqofZ (pp (Z.land (fst e) (fst f))))) acc') acc b) k0 a.

Definition kscale (c : CQ) (a : K) : K := kmul (kofCQ c) a.
Definition kconj (a : K) : K := map (fun e => (fst e, cqconj (snd e))) a.   (* the square roots are real *)
Definition kofGZ (g : GZ) : K := kofCQ (cqofGZ g).
Definition kofZ (z : Z) : K := kofCQ (cqofZ z).

Fixpoint keqb (a b : K) : bool :=
  match a, b with
  | [], [] => true
  | (m, c) :: r, (m', c') :: r' => (m =? m') && cqeqb c c' && keqb r r'
  | _, _ => false
  end.
Definition k_is0 (a : K) : bool := match a with [] => true | _ => false end.

(* sqrt(n) for the entries of the ladder matrices, 0 <= n <= 7 (truncation <= 8); other n are not used *)
Definition sqrtK (n : Z) : K :=
  match n with
  | 1 => k1
  | 2 => [(1, cq1)]
  | 3 => [(2, cq1)]
  | 4 => kofZ 2
  | 5 => [(4, cq1)]
  | 6 => [(3, cq1)]
  | 7 => [(8, cq1)]
  | _ => k0
  end.

(* rational enclosures of the square roots, used only to compare the exact model coefficient with the
   implementation's floating-point coefficient (tolerance 1e-9); |a_p^2 - p| < 1e-29 is proved in BoseProofs *)
Definition a2 : Q := (1414213562373095048801688724209 # 1000000000000000000000000000000)%Q.
Definition a3 : Q := (1732050807568877293527446341505 # 1000000000000000000000000000000)%Q.
Definition a5 : Q := (2236067977499789696409173668731 # 1000000000000000000000000000000)%Q.
Definition a7 : Q := (2645751311064590590501615753639 # 1000000000000000000000000000000)%Q.
Definition papprox (m : Z) : Q :=
  ((if Z.testbit m 0 then a2 else 1) * (if Z.testbit m 1 then a3 else 1) *
   (if Z.testbit m 2 then a5 else 1) * (if Z.testbit m 3 then a7 else 1))%Q.
Definition kapprox (a : K) : CQ :=
  fold_right (fun e acc => (Qred (fst acc + fst (snd e) * papprox (fst e)),
                            Qred (snd acc + snd (snd e) * papprox (fst e)))%Q) cq0 a.
Definition tol : Q := (1 # 1000000000)%Q.
Definition cqclose (a b : CQ) : bool :=
  Qle_bool (Qabs (fst a - fst b)) tol && Qle_bool (Qabs (snd a - snd b)) tol.

(* ------------------------------------------------------------------ Pauli sentences over K
   a dict word -> coefficient in insertion order (as PauliSentence) *)
Definition ksent := list (word * K).

Fixpoint ksupd (w : word) (c : K) (s : ksent) : ksent :=
  match s with
  | [] => [(w, c)]
  | (w', c') :: r => if weqb w w' then (w', kadd c' c) :: r else (w', c') :: ksupd w c r
  end.

Fixpoint kscoeff (s : ksent) (u : word) : K :=
  match s with [] => k0 | (w, c) :: r => kadd (if weqb w u then c else k0) (kscoeff r u) end.

Definition ksadd (a b : ksent) : ksent := fold_left (fun acc e => ksupd (fst e) (snd e) acc) b a.
Definition ksscale (c : K) (s : ksent) : ksent := map (fun e => (fst e, kmul c (snd e))) s.
Definition ksconj (s : ksent) : ksent := map (fun e => (fst e, kconj (snd e))) s.   (* Pauli words are Hermitian *)
Definition ksprune (s : ksent) : ksent := filter (fun e => negb (k_is0 (snd e))) s.

(* PauliSentence.__matmul__ *)
Fixpoint ksmm_row (w1 : word) (x1 : K) (acc b : ksent) : ksent :=
  match b with
  | [] => acc
  | (w2, x2) :: r => let '(k, w) := wmul w1 w2 in
                     ksmm_row w1 x1 (ksupd w (kmul (kscale (cqofGZ (iph k)) x1) x2) acc) r
  end.
Fixpoint ksmm (acc a b : ksent) : ksent :=
  match a with [] => acc | (w1, x1) :: r => ksmm (ksmm_row w1 x1 acc b) r b end.
Definition ksmatmul (a b : ksent) : ksent := ksprune (ksmm [] a b).

Definition ksid : ksent := [([], k1)].

(* equality as finite maps word -> coefficient *)
Definition ks_eqb (a b : ksent) : bool :=
  forallb (fun e => keqb (kscoeff a (fst e)) (kscoeff b (fst e))) a &&
  forallb (fun e => keqb (kscoeff a (fst e)) (kscoeff b (fst e))) b.

(* ------------------------------------------------------------------ bosonic words and sentences
   a word is the list of its letters in position order: (mode, true = creation '+' / false = annihilation '-') *)
Definition bword := list (Z * bool).
Definition bsent := list (CQ * bword).

Definition badj (w : bword) : bword := rev (map (fun e => (fst e, negb (snd e))) w).
Definition bsadj (s : bsent) : bsent := map (fun e => (cqconj (fst e), badj (snd e))) s.

Definition zrange (d : Z) : list Z := map Z.of_nat (seq 0 (Z.to_nat d)).
Definition bit (i n : Z) : Z := if Z.testbit i n then 1 else 0.
Definition half : K := kofCQ (1 # 2, 0 # 1)%Q.

(* _get_pauli_op(i, j, qub_id) : the qubit-local |i><j| *)
Definition pauli_op (i j q : Z) : ksent :=
  let c2 : CQ := if i =? 1 then ((-1) # 2, 0 # 1)%Q else (1 # 2, 0 # 1)%Q in
  if negb (i =? j)
  then [([(q, PX)], half); ([(q, PY)], kofCQ (cqmul c2 (0 # 1, 1 # 1)%Q))]
  else [([], half); ([(q, PZ)], kofCQ c2)].

(* math.ceil_log2 for 2 <= d <= 16 *)
Definition ceil_log2 (d : Z) : Z := if d <=? 2 then 1 else if d <=? 4 then 2 else if d <=? 8 then 3 else 4.

(* ---- binary mapping of one letter: sum over the nonzero entries (i, j) of the (transposed) creation matrix *)
Definition bin_term (nq i j b : Z) : ksent :=
  fold_left (fun acc n => ksmatmul acc (pauli_op (bit i n) (bit j n) (n + b * nq))) (zrange nq) ksid.

Definition bin_op (d : Z) (op : Z * bool) : ksent :=
  let nq := ceil_log2 d in
  fold_left (fun acc s =>
     let '(i, j) := if snd op then (s + 1, s) else (s, s + 1) in
     ksadd acc (ksscale (sqrtK (s + 1)) (bin_term nq i j (fst op)))) (zrange (d - 1)) [].

Definition bin_word (d : Z) (w : bword) : ksent :=
  ksprune (fold_left (fun acc op => ksmatmul acc (bin_op d op)) w ksid).

(* ---- unary mapping: the letters are grouped per mode (first-appearance order), the truncated matrices of a
   group are multiplied first, each nonzero entry (i, j) becomes sigma^+_i sigma^-_j (or |1><1|_i) *)
Definition kmatrix := list (list K).
Definition lad_entry (sign : bool) (i j : Z) : K :=
  if sign then (if i =? j + 1 then sqrtK i else k0) else (if j =? i + 1 then sqrtK j else k0).
Definition ladmat (d : Z) (sign : bool) : kmatrix :=
  map (fun i => map (fun j => lad_entry sign i j) (zrange d)) (zrange d).
Definition idmat (d : Z) : kmatrix :=
  map (fun i => map (fun j => if i =? j then k1 else k0) (zrange d)) (zrange d).
Definition ksum (l : list K) : K := fold_right kadd k0 l.
Fixpoint kdot (a b : list K) : K :=
  match a, b with x :: r, y :: s => kadd (kmul x y) (kdot r s) | _, _ => k0 end.
Definition mcol (B : kmatrix) (j : nat) : list K := map (fun row => nth j row k0) B.
Definition mmulK (d : Z) (A B : kmatrix) : kmatrix :=
  map (fun row => map (fun j => kdot row (mcol B j)) (seq 0 (Z.to_nat d))) A.
Definition mentry (A : kmatrix) (i j : Z) : K := nth (Z.to_nat j) (nth (Z.to_nat i) A []) k0.

Fixpoint group_ins (b : Z) (s : bool) (g : list (Z * list bool)) : list (Z * list bool) :=
  match g with
  | [] => [(b, [s])]
  | (b', l) :: r => if b =? b' then (b', l ++ [s]) :: r else (b', l) :: group_ins b s r
  end.
Definition groups (w : bword) : list (Z * list bool) :=
  fold_left (fun g op => group_ins (fst op) (snd op) g) w [].

Definition una_term (d i j b : Z) : ksent :=
  fold_left (fun acc n =>
     if (n =? i) || (n =? j)
     then ksmatmul acc (pauli_op (if n =? i then 1 else 0) (if n =? j then 1 else 0) (n + b * d))
     else acc) (zrange d) ksid.

Definition una_group (d : Z) (g : Z * list bool) : ksent :=
  let M := fold_left (fun M s => mmulK d M (ladmat d s)) (snd g) (idmat d) in
  fold_left (fun acc i =>
    fold_left (fun acc' j =>
       let c := mentry M i j in
       if k_is0 c then acc' else ksadd acc' (ksscale c (una_term d i j (fst g)))) (zrange d) acc) (zrange d) [].

Definition una_word (d : Z) (w : bword) : ksent :=
  ksprune (fold_left (fun acc g => ksmatmul acc (una_group d g)) (groups w) ksid).

(* ---- Christiansen mapping (two levels, one qubit per mode) *)
Definition chr_op (op : Z * bool) : ksent :=
  [([(fst op, PX)], half);
   ([(fst op, PY)], kofCQ (if snd op then (0 # 1, (-1) # 2)%Q else (0 # 1, 1 # 2)%Q))].
Definition chr_word (w : bword) : ksent :=
  ksprune (fold_left (fun acc op => ksmatmul acc (chr_op op)) w ksid).

Inductive mapkind := MBin | MUna | MChr.

(* None = ValueError (fewer than two states); truncations above 8 are outside the model *)
Definition map_word (kd : mapkind) (d : Z) (w : bword) : option ksent :=
  match kd with
  | MChr => Some (chr_word w)
  | MBin => if (d <? 2) || (8 <? d) then None else Some (bin_word d w)
  | MUna => if (d <? 2) || (8 <? d) then None else Some (una_word d w)
  end.

(* the sentence dispatch: qubit_operator[pw] += coeff * image(word)[pw]; as an unmerged list of terms
   (the coefficient of a word is the sum over the list, see kscoeff) *)
Fixpoint map_sent (kd : mapkind) (d : Z) (s : bsent) : option ksent :=
  match s with
  | [] => Some []
  | (c, w) :: r =>
      match map_word kd d w, map_sent kd d r with
      | Some a, Some b => Some (ksscale (kofCQ c) a ++ b)
      | _, _ => None
      end
  end.

(* ------------------------------------------------------------------ reference semantics
   basis states of the modes: list of levels (one per mode 0 .. M-1);  basis states of the qubits: an integer
   whose bit q is the state of wire q. *)
Fixpoint lset (l : list Z) (i : nat) (v : Z) : list Z :=
  match l, i with
  | [], _ => []
  | _ :: r, O => v :: r
  | x :: r, S k => x :: lset r k v
  end.

(* one truncated ladder operator applied to a basis ket: scalar * ket, or None (annihilated) *)
Definition apply_op (d : Z) (op : Z * bool) (st : option (K * list Z)) : option (K * list Z) :=
  match st with
  | None => None
  | Some (c, ket) =>
      let b := Z.to_nat (fst op) in
      let n := nth b ket (-1) in
      if n <? 0 then None
      else if snd op
           then (if n + 1 <? d then Some (kmul (sqrtK (n + 1)) c, lset ket b (n + 1)) else None)
           else (if 1 <=? n then Some (kmul (sqrtK n) c, lset ket b (n - 1)) else None)
  end.

(* word = product in word order, so the right-most letter acts first *)
Fixpoint apply_word (d : Z) (w : bword) (ket : list Z) : option (K * list Z) :=
  match w with [] => Some (k1, ket) | op :: r => apply_op d op (apply_word d r ket) end.

Fixpoint zlist_eqb (a b : list Z) : bool :=
  match a, b with [], [] => true | x :: r, y :: s => (x =? y) && zlist_eqb r s | _, _ => false end.

(* <ms| product of truncated ladder matrices in word order |ns> *)
Definition ladder_elem (d : Z) (w : bword) (ms ns : list Z) : K :=
  match apply_word d w ns with
  | Some (c, ket) => if zlist_eqb ket ms then c else k0
  | None => k0
  end.

(* the same for one mode as an honest matrix product of the truncated matrices *)
Definition ladder_matprod (d : Z) (signs : list bool) : kmatrix :=
  fold_left (fun M s => mmulK d M (ladmat d s)) signs (idmat d).

(* the documented encodings *)
Definition enc (kd : mapkind) (d : Z) (levels : list Z) : Z :=
  let step := match kd with MBin => ceil_log2 d | MUna => d | MChr => 1 end in
  fst (fold_left (fun acc l =>
         let '(x, b) := acc in
         (x + Z.shiftl (match kd with MUna => Z.shiftl 1 l | _ => l end) (b * step), b + 1)) levels (0, 0)).

Definition nqubits (kd : mapkind) (d modes : Z) : Z :=
  modes * match kd with MBin => ceil_log2 d | MUna => d | MChr => 1 end.

(* <x| sentence |y> for qubit basis states x, y of nq wires 0 .. nq-1 (reuses wmat of C51) *)
Definition kselem (nq : Z) (s : ksent) (x y : Z) : K :=
  let order := zrange nq in
  let xb := map (Z.testbit x) order in
  let yb := map (Z.testbit y) order in
  fold_right (fun e acc => kadd (kmul (snd e) (kofGZ (wmat order (fst e) xb yb))) acc) k0 s.

(* all level assignments of `modes` modes *)
Fixpoint all_levels (d : Z) (modes : nat) : list (list Z) :=
  match modes with
  | O => [[]]
  | S k => flat_map (fun l => map (fun r => l :: r) (all_levels d k)) (zrange d)
  end.

Definition get_word (kd : mapkind) (d : Z) (w : bword) : ksent :=
  match map_word kd d w with Some s => s | None => [] end.

(* image restricted to the code space = ladder product *)
Definition image_ok (kd : mapkind) (modes : nat) (d : Z) (w : bword) : bool :=
  let s := get_word kd d w in
  let nq := nqubits kd d (Z.of_nat modes) in
  forallb (fun ms => forallb (fun ns =>
     keqb (kselem nq s (enc kd d ms) (enc kd d ns)) (ladder_elem d w ms ns)) (all_levels d modes)) (all_levels d modes).

(* the code space is invariant: no amplitude from an encoded state to a non-encoded qubit basis state *)
Definition zmem_l (x : Z) (l : list Z) : bool := existsb (Z.eqb x) l.
Definition closed_ok (kd : mapkind) (modes : nat) (d : Z) (w : bword) : bool :=
  let s := get_word kd d w in
  let nq := nqubits kd d (Z.of_nat modes) in
  let code := map (enc kd d) (all_levels d modes) in
  forallb (fun x => zmem_l x code ||
     forallb (fun y => k_is0 (kselem nq s x y)) code) (zrange (Z.shiftl 1 nq)).

Definition adjoint_ok (kd : mapkind) (d : Z) (w : bword) : bool :=
  ks_eqb (get_word kd d (badj w)) (ksconj (get_word kd d w)).

(* all words of length <= n over the given letters *)
Fixpoint words_upto (letters : list (Z * bool)) (n : nat) : list bword :=
  match n with
  | O => [[]]
  | S k => [] :: flat_map (fun w => map (fun l => l :: w) letters) (words_upto letters k)
  end.
Definition letters1 : list (Z * bool) := [(0, true); (0, false)].
Definition letters2 : list (Z * bool) := [(0, true); (0, false); (1, true); (1, false)].

(* single-mode ket propagation agrees with the honest matrix product *)
Definition matprod_ok (d : Z) (signs : list bool) : bool :=
  let M := ladder_matprod d signs in
  let w := map (fun s => (0, s)) signs in
  forallb (fun m => forallb (fun n => keqb (mentry M m n) (ladder_elem d w [m] [n])) (zrange d)) (zrange d).

(* ------------------------------------------------------------------ correspondence
   the comparison uses finite maps keyed by an integer code of the (canonical, non-negative-wire) Pauli word *)
(* implementation sentence: coefficients as integer numerators over a common denominator *)
Definition isent := list (list (Z * P1) * (Z * Z)).
Definition pcode (p : P1) : Z := match p with PI => 0 | PX => 1 | PY => 2 | PZ => 3 end.
Definition wkey (w : word) : positive :=
  Z.to_pos (1 + fold_right (fun e acc => acc + Z.shiftl (pcode (snd e)) (2 * fst e)) 0 w).

Definition pm_addK (k : positive) (c : K) (m : PositiveMap.t K) : PositiveMap.t K :=
  match PositiveMap.find k m with
  | Some c' => PositiveMap.add k (kadd c' c) m
  | None => PositiveMap.add k c m
  end.
Definition pm_addC (k : positive) (c : CQ) (m : PositiveMap.t CQ) : PositiveMap.t CQ :=
  match PositiveMap.find k m with
  | Some c' => PositiveMap.add k (cqadd c' c) m
  | None => PositiveMap.add k c m
  end.
Definition model_map (ms : ksent) : PositiveMap.t K :=
  fold_left (fun m e => pm_addK (wkey (fst e)) (snd e) m) ms (PositiveMap.empty K).
Definition impl_map (den : positive) (imp : isent) : PositiveMap.t CQ :=
  fold_left (fun m e => pm_addC (wkey (mkword (fst e)))
                                (Qred (fst (snd e) # den), Qred (snd (snd e) # den)) m) imp (PositiveMap.empty CQ).
Definition findK (m : PositiveMap.t K) (k : positive) : K :=
  match PositiveMap.find k m with Some c => c | None => k0 end.
Definition findC (m : PositiveMap.t CQ) (k : positive) : CQ :=
  match PositiveMap.find k m with Some c => c | None => cq0 end.

Definition case := (mapkind * Z * bsent * option isent)%type.

Definition check_case (c : case) : bool :=
  let '(kd, d, s, expected) := c in
  match map_sent kd d s, expected with
  | None, None => true
  | Some ms, Some imp =>
      let mm := model_map ms in
      let im := impl_map 1000000000000 imp in
      forallb (fun kv => cqclose (kapprox (snd kv)) (findC im (fst kv))) (PositiveMap.elements mm) &&
      forallb (fun kv => cqclose (kapprox (findK mm (fst kv))) (snd kv)) (PositiveMap.elements im)
  | _, _ => false
  end.

(* exact variant, used when every model coefficient is rational (mask 0): the implementation's coefficient
   snapped to a multiple of 1/4096 must EQUAL the model's *)
Definition rational_only (s : ksent) : bool :=
  forallb (fun e => forallb (fun t => fst t =? 0) (snd e)) s.
Definition check_case_exact (c : case) : bool :=
  let '(kd, d, s, expected) := c in
  match map_sent kd d s, expected with
  | None, None => true
  | Some ms, Some imp =>
      let mm := model_map ms in
      let im := impl_map 4096 imp in
      rational_only ms &&
      forallb (fun kv => keqb (snd kv) (kofCQ (findC im (fst kv)))) (PositiveMap.elements mm) &&
      forallb (fun kv => keqb (findK mm (fst kv)) (kofCQ (snd kv))) (PositiveMap.elements im)
  | _, _ => false
  end.
