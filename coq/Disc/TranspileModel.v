(* Model of pennylane/transforms/transpile.py (function `transpile`): the routing `while` loop over
   gates with <= 2 wires.  No proofs here: this file must keep running for the correspondence
   check even when a proof elsewhere breaks.

   gate            = (name code, wire list)          -- SWAP has code 0, all other names are opaque
   coupling graph  = edge list (nx.Graph(edge_list): undirected, nodes = endpoints)
   shortest_path   = ORACLE `sp : nat -> Z -> Z -> list Z` (call index, source, target); the model
                     VALIDATES every answer and returns Err when it is not a usable path
   measurements    = their wire lists                  (m.map_wires only relabels the wires)            *)
From Coq Require Import List ZArith Bool.
Import ListNotations.
Open Scope Z_scope.

Definition gate := (Z * list Z)%type.
Definition SWAPc : Z := 0.
Definition mkswap (a b : Z) : gate := (SWAPc, [a; b]).

Definition memZ (x : Z) (l : list Z) : bool := existsb (Z.eqb x) l.

(* `op.wires in G.edges or tuple(reversed(op.wires)) in G.edges` for an undirected nx.Graph *)
Definition is_edge (E : list (Z * Z)) (a b : Z) : bool :=
  existsb (fun e => ((fst e =? a) && (snd e =? b)) || ((fst e =? b) && (snd e =? a))) E.

Definition nodes (E : list (Z * Z)) : list Z := flat_map (fun e => [fst e; snd e]) E.

(* ---- wire maps: Python dicts {k: v}, as association lists; dict.get(w, w) ---- *)
Fixpoint wm_get (m : list (Z * Z)) (w : Z) : Z :=
  match m with [] => w | kv :: r => if fst kv =? w then snd kv else wm_get r w end.

(* {w: w for w in wire_order} *)
Definition wm_id (wo : list Z) : list (Z * Z) := map (fun w => (w, w)) wo.

(* v |-> (w0 if v == w1 else (w1 if v == w0 else v)) *)
Definition transp (w0 w1 v : Z) : Z := if v =? w1 then w0 else if v =? w0 then w1 else v.

(* {k: (w0 if v == w1 else (w1 if v == w0 else v)) for k, v in wire_map.items()} *)
Definition wm_swap (w0 w1 : Z) (m : list (Z * Z)) : list (Z * Z) :=
  map (fun kv => (fst kv, transp w0 w1 (snd kv))) m.

(* relabelling of a gate by a function / by a wire map (Operator.map_wires uses wire_map.get(w, w)) *)
Definition gmap (f : Z -> Z) (g : gate) : gate := (fst g, map f (snd g)).
Definition map_wires (m : list (Z * Z)) (g : gate) : gate := gmap (wm_get m) g.

(* ---- the path and the SWAPs derived from it ---- *)
(* consecutive pairs [(l0,l1); (l1,l2); ...] *)
Fixpoint consec (l : list Z) : list (Z * Z) :=
  match l with a :: r => match r with b :: _ => (a, b) :: consec r | [] => [] end | [] => [] end.

(* [shortest_path[(i-1):(i+1)] for i in range(path_length, 1, -1)]  =  (p[L-1],p[L]), ..., (p[1],p[2]) *)
Definition wires_to_swap (p : list Z) : list (Z * Z) := rev (consec (tl p)).

Fixpoint chain (E : list (Z * Z)) (l : list Z) : bool :=
  match l with a :: r => match r with b :: _ => is_edge E a b && chain E r | [] => true end | [] => true end.

(* what the model demands of an oracle answer for (src, dst):  p = src :: r, r non-empty, last r = dst,
   consecutive vertices adjacent, src not revisited.  (A shortest path satisfies all of it; Wires cannot
   repeat a label so src <> dst in PennyLane.) *)
Definition valid_path (E : list (Z * Z)) (src dst : Z) (p : list Z) : bool :=
  match p with
  | p0 :: r => (p0 =? src) && negb (match r with [] => true | _ => false end) && (last r src =? dst)
               && chain E p && negb (memZ src r)
  | [] => false
  end.

(* composite permutation of a list of transpositions, applied first to last *)
Definition papp (sw : list (Z * Z)) (w : Z) : Z := fold_left (fun v s => transp (fst s) (snd s) v) sw w.

(* the inner `for w0, w1 in wires_to_swap` loop acting on wire_map *)
Definition wm_swaps (sw : list (Z * Z)) (m : list (Z * Z)) : list (Z * Z) :=
  fold_left (fun m s => wm_swap (fst s) (snd s) m) sw m.

(* result: output gates, measurements (wire lists), final wire_order, and two GHOST components:
   the list of transpositions performed (in order) and the number of oracle calls *)
Inductive res :=
| Ok (gs : list gate) (ms : list (list Z)) (wo : list Z) (sw : list (Z * Z)) (calls : nat)
| Err.

Definition prepend (pre : list gate) (psw : list (Z * Z)) (r : res) : res :=
  match r with Ok gs ms wo sw c => Ok (pre ++ gs) ms wo (psw ++ sw) c | Err => Err end.

Section Loop.
  Variable E : list (Z * Z).
  Variable sp : nat -> Z -> Z -> list Z.

  (* `while len(list_op_copy) > 0`: one op is popped per iteration; fuel = number of ops.
     k = number of shortest_path calls made so far. *)
  Fixpoint loop (fuel : nat) (k : nat) (ops : list gate) (wo : list Z) (ms : list (list Z)) : res :=
    match ops with
    | [] => Ok [] ms wo [] k
    | op :: rest =>
      match fuel with
      | O => Err
      | S f =>
        match snd op with
        | [] | [_] => prepend [op] [] (loop f k rest wo ms)          (* len(op.wires) <= 1 *)
        | [a; b] =>
          if is_edge E a b then prepend [op] [] (loop f k rest wo ms)
          else
            let p := sp k a b in
            if valid_path E a b p then
              let sw := wires_to_swap p in
              let wm := wm_swaps sw (wm_id wo) in
              prepend (map (fun s => mkswap (fst s) (snd s)) sw ++ [map_wires wm op]) sw
                      (loop f (S k) (map (map_wires wm) rest) (map (wm_get wm) wo)
                            (map (map (wm_get wm)) ms))
            else Err
        | _ => Err                                                    (* excluded by the pre-check *)
        end
      end
    end.
End Loop.

(* tape.wires : labels in order of first appearance, operations first, then measurements *)
Fixpoint dedup (seen : list Z) (l : list Z) : list Z :=
  match l with [] => [] | x :: r => if memZ x seen then dedup seen r else x :: dedup (x :: seen) r end.
Definition tape_wires (ops : list gate) (ms : list (list Z)) : list Z :=
  dedup [] (flat_map snd ops ++ concat ms).

(* _process_measurements: with a device, a measurement without wires gets the device wires
   (StateMP / default.mixed are not modelled) *)
Definition process_meas (dev : list Z) (ms : list (list Z)) : list (list Z) :=
  match dev with [] => ms | _ => map (fun m => match m with [] => dev | _ => m end) ms end.

(* dev = [] stands for device=None (`device_wires or tape.wires`: an empty Wires is falsy as well) *)
Definition transpile (E : list (Z * Z)) (sp : nat -> Z -> Z -> list Z)
           (ops : list gate) (ms : list (list Z)) (dev : list Z) : res :=
  let tw := tape_wires ops ms in
  if negb (forallb (fun w => memZ w (nodes E)) tw) then Err            (* ValueError *)
  else if existsb (fun g => (2 <? Z.of_nat (length (snd g)))) ops then Err   (* NotImplementedError *)
  else loop E sp (length ops) 0%nat ops (match dev with [] => tw | _ => dev end) (process_meas dev ms).

(* ---- correspondence ---- *)
Fixpoint list_eqb {A} (eq : A -> A -> bool) (x y : list A) : bool :=
  match x, y with
  | [], [] => true
  | a :: x', b :: y' => eq a b && list_eqb eq x' y'
  | _, _ => false
  end.
Definition gate_eqb (g h : gate) : bool := (fst g =? fst h) && list_eqb Z.eqb (snd g) (snd h).

(* recorded oracle: the k-th call of networkx.shortest_path returned (src, dst, path) *)
Definition rec_oracle (paths : list (Z * Z * list Z)) (k : nat) (a b : Z) : list Z :=
  match nth_error paths k with
  | Some (s, d, p) => if (s =? a) && (d =? b) then p else []
  | None => []
  end.

Record case := mkCase { c_edges : list (Z * Z); c_ops : list gate; c_meas : list (list Z);
                        c_dev : list Z; c_paths : list (Z * Z * list Z) }.

(* expected: None = the implementation raised; Some (gates, measurement wires) *)
Definition check_case (ce : case * option (list gate * list (list Z))) : bool :=
  let c := fst ce in
  match transpile (c_edges c) (rec_oracle (c_paths c)) (c_ops c) (c_meas c) (c_dev c), snd ce with
  | Err, None => true
  | Ok gs ms _ _ calls, Some (gs', ms') =>
      list_eqb gate_eqb gs gs' && list_eqb (list_eqb Z.eqb) ms ms' && Nat.eqb calls (length (c_paths c))
  | _, _ => false
  end.

(* the property's own first clause, executable: every two-wire gate of a gate list is on an edge *)
Definition on_edges (E : list (Z * Z)) (gs : list gate) : bool :=
  forallb (fun g => match snd g with [a; b] => is_edge E a b | [] | [_] => true | _ => false end) gs.
