(* Model of the parameter bookkeeping of pennylane/core/qscript.py (QuantumScript / QuantumTape):
   par_info, trainable_params (property + setter), get_parameters, bind_new_parameters, copy, and the
   decompose / gradient-expand wrappers (tape.copy(operations=new_ops), _inplace_set_trainable_params).
   No proofs here: this file must keep running for the correspondence check even when a proof breaks.

   A parameter is an exact rational value together with its requires_grad flag.  An operator ("slot") is
   (name code, data, wires); a measurement is (class code, optional observable slot).  Operator-level
   bind_new_parameters is modelled as "same name, same wires, new data"; decomposition rules are an explicit
   argument (recorded from the real run): new_param = const + sum_i coef_i * old_param_i. *)
From Coq Require Import List ZArith Bool QArith.
Import ListNotations.
Open Scope Z_scope.

Definition par := (Q * bool)%type.
Record slot := mkSlot { sname : Z; sdata : list par; swires : list Z }.
Record mp := mkMp { mkind : Z; mobs : option slot }.
Definition mp_data (m : mp) : list par := match mobs m with Some s => sdata s | None => [] end.
(* train = the private _trainable_params: None until first use / after ops or measurements were replaced *)
Record tape := mkTape { ops : list slot; meas : list mp; train : option (list Z) }.

(* ---- python list indexing ---- *)
Definition znth {A} (l : list A) (i : Z) : option A := if i <? 0 then None else nth_error l (Z.to_nat i).
Definition py_nth {A} (l : list A) (i : Z) : option A :=
  if i <? 0 then znth l (Z.of_nat (length l) + i) else znth l i.

Fixpoint enum_from (i : Z) (n : nat) : list Z := match n with O => [] | S k => i :: enum_from (i + 1) k end.

(* ---- par_info : two loops, operations then measurements (offset n_ops) ---- *)
Fixpoint pi_from (idx : Z) (ds : list (list par)) : list (Z * Z) :=
  match ds with
  | [] => []
  | d :: r => map (fun i => (idx, i)) (enum_from 0 (length d)) ++ pi_from (idx + 1) r
  end.
Definition par_info (t : tape) : list (Z * Z) :=
  pi_from 0 (map sdata (ops t)) ++ pi_from (Z.of_nat (length (ops t))) (map mp_data (meas t)).

(* self.circuit, reduced to the data of each entry *)
Definition cdata (t : tape) : list (list par) := map sdata (ops t) ++ map mp_data (meas t).

(* trainable_params property: default = all parameters *)
Definition trainable (t : tape) : list Z :=
  match train t with Some l => l | None => enum_from 0 (length (par_info t)) end.

(* get_parameters(trainable_only=False, operations_only) *)
Definition allp (t : tape) (ops_only : bool) : list par :=
  concat (map sdata (ops t)) ++ (if ops_only then [] else concat (map mp_data (meas t))).
Definition all_params (t : tape) : list par := allp t false.

(* get_parameters(trainable_only=True, operations_only): None = IndexError *)
Fixpoint gp_train (t : tape) (ops_only : bool) (tr : list Z) : option (list par) :=
  match tr with
  | [] => Some []
  | p :: r =>
      match py_nth (par_info t) p with
      | None => None
      | Some (oi, pi) =>
          if ops_only && (Z.of_nat (length (ops t)) <=? oi) then gp_train t ops_only r
          else match py_nth (cdata t) oi with
               | None => None
               | Some d => match py_nth d pi with
                           | None => None
                           | Some v => option_map (cons v) (gp_train t ops_only r)
                           end
               end
      end
  end.
Definition get_parameters (t : tape) (trainable_only ops_only : bool) : option (list par) :=
  if trainable_only then gp_train t ops_only (trainable t) else Some (allp t ops_only).

(* ---- trainable_params setter ---- *)
Inductive titem := TI (z : Z) | TBad.       (* TBad: not an int *)
Fixpoint insert_dedup (x : Z) (l : list Z) : list Z :=
  match l with
  | [] => [x]
  | y :: r => if x <? y then x :: l else if x =? y then l else y :: insert_dedup x r
  end.
Definition sort_set (l : list Z) : list Z := fold_right insert_dedup [] l.      (* sorted(set(l)) *)
Definition unTI (i : titem) : Z := match i with TI z => z | TBad => 0 end.
Definition set_train (t : tape) (l : list titem) : option tape :=
  if existsb (fun i => match i with TBad => true | TI z => z <? 0 end) l then None
  else let n := Z.of_nat (length (par_info t)) in
       if existsb (fun i => n <? unTI i) l                    (* sic: i > num_params, so i = num_params passes *)
       then None
       else Some (mkTape (ops t) (meas t) (Some (sort_set (map unTI l)))).

(* ---- bind_new_parameters(params, indices) ---- *)
Fixpoint insert_sorted (x : Z) (l : list Z) : list Z :=
  match l with [] => [x] | y :: r => if x <=? y then x :: l else y :: insert_sorted x r end.
Definition sorted_py (l : list Z) : list Z := fold_right insert_sorted [] l.    (* sorted(l), duplicates kept *)

(* first loop: op_indices[op_idx][p_idx] = param_idx, as an association list in insertion order *)
Fixpoint build_asg (pinfo : list (Z * Z)) (k : Z) (sidx : list Z) : option (list (Z * Z * Z)) :=
  match sidx with
  | [] => Some []
  | i :: r => match py_nth pinfo i with
              | None => None                                   (* IndexError *)
              | Some (oi, pi) => option_map (cons (oi, pi, k)) (build_asg pinfo (k + 1) r)
              end
  end.
(* dictionary semantics: the last write for a key wins *)
Fixpoint lookup_last (asg : list (Z * Z * Z)) (oi pi : Z) (acc : option Z) : option Z :=
  match asg with
  | [] => acc
  | (o, p, k) :: r => lookup_last r oi pi (if (o =? oi) && (p =? pi) then Some k else acc)
  end.
(* new_params = [params[p_indices[i]] if i in p_indices else d for i, d in enumerate(data)] *)
Fixpoint bind_data (asg : list (Z * Z * Z)) (ps : list par) (oi i : Z) (d : list par) : list par :=
  match d with
  | [] => []
  | v :: r => (match lookup_last asg oi i None with Some k => nth (Z.to_nat k) ps v | None => v end)
              :: bind_data asg ps oi (i + 1) r
  end.
Fixpoint bind_slots (asg : list (Z * Z * Z)) (ps : list par) (oi : Z) (l : list slot) : list slot :=
  match l with
  | [] => []
  | s :: r => mkSlot (sname s) (bind_data asg ps oi 0 (sdata s)) (swires s) :: bind_slots asg ps (oi + 1) r
  end.
Fixpoint bind_meas (asg : list (Z * Z * Z)) (ps : list par) (oi : Z) (l : list mp) : list mp :=
  match l with
  | [] => []
  | m :: r => mkMp (mkind m) (match mobs m with
                              | Some s => Some (mkSlot (sname s) (bind_data asg ps oi 0 (sdata s)) (swires s))
                              | None => None end)
              :: bind_meas asg ps (oi + 1) r
  end.
Definition bind (t : tape) (ps : list par) (idx : list Z) : option tape :=
  if negb (Nat.eqb (length ps) (length idx)) then None            (* ValueError *)
  else match build_asg (par_info t) 0 (sorted_py idx) with
       | None => None
       | Some asg => Some (mkTape (bind_slots asg ps 0 (ops t))
                                  (bind_meas asg ps (Z.of_nat (length (ops t))) (meas t))
                                  (Some (trainable t)))
       end.

(* ---- copy(copy_operations, **update) ---- *)
Inductive ops_upd := OKeep | ONoneKey | ODrop (k : Z) | OAppend (s : slot) | ORev.
Definition drop_at {A} (n : nat) (l : list A) : list A := firstn n l ++ skipn (S n) l.
Definition apply_ou (u : ops_upd) (l : list slot) : list slot :=
  match u with
  | OKeep | ONoneKey => l
  | ODrop k => match l with [] => [] | _ => drop_at (Z.to_nat (k mod Z.of_nat (length l))) l end
  | OAppend s => l ++ [s]
  | ORev => rev l
  end.
Inductive meas_upd := MKeep | MReplace (l : list mp).
Inductive train_upd := TKeep | TSet (o : option (list Z)).
Definition copy (t : tape) (ou : ops_upd) (mu : meas_upd) (tu : train_upd) : tape :=
  let update_trainable := (match ou with OKeep => false | _ => true end)
                          || (match mu with MKeep => false | _ => true end) in
  let default_tp := if update_trainable then None else train t in
  mkTape (apply_ou ou (ops t))
         (match mu with MKeep => meas t | MReplace l => l end)
         (match tu with TKeep => default_tp | TSet o => o end).

(* ---- expansion ---- *)
Definition prule := (Q * list Q)%type.                        (* const, coefficients *)
Definition orule := (Z * list prule * list Z)%type.           (* new name, parameter rules, wire positions *)
Definition rule := list orule.
(* key: operator name and requires_grad pattern; None = the stopping condition holds (operator kept) *)
Definition rules := list (Z * list bool * option rule).

Fixpoint eq_lb (a b : list bool) : bool :=
  match a, b with [], [] => true | x :: r, y :: s => Bool.eqb x y && eq_lb r s | _, _ => false end.
Fixpoint find_rule (rs : rules) (nm : Z) (fl : list bool) : option rule :=
  match rs with
  | [] => None
  | (n, f, r) :: rest => if (n =? nm) && eq_lb f fl then r else find_rule rest nm fl
  end.
Definition qnz (q : Q) : bool := negb (Qeq_bool q 0).
Fixpoint dot (cs : list Q) (d : list par) : Q :=
  match cs, d with c :: cr, v :: dr => (c * fst v + dot cr dr)%Q | _, _ => 0%Q end.
(* requires_grad of an arithmetic result: some tensor operand requires grad *)
Fixpoint anyflag (cs : list Q) (d : list par) : bool :=
  match cs, d with c :: cr, v :: dr => (qnz c && snd v) || anyflag cr dr | _, _ => false end.
Definition ev_par (d : list par) (r : prule) : par := ((fst r + dot (snd r) d)%Q, anyflag (snd r) d).
Definition ev_orule (s : slot) (e : orule) : slot :=
  mkSlot (fst (fst e)) (map (ev_par (sdata s)) (snd (fst e)))
         (map (fun p => nth (Z.to_nat p) (swires s) (-1)) (snd e)).
Definition expand_op (rs : rules) (s : slot) : option (list slot) :=
  match find_rule rs (sname s) (map snd (sdata s)) with
  | None => None
  | Some r => Some (map (ev_orule s) r)
  end.
Definition expand_ops (rs : rules) (l : list slot) : list slot :=
  flat_map (fun s => match expand_op rs s with Some n => n | None => [s] end) l.
Definition all_stop (rs : rules) (l : list slot) : bool :=
  forallb (fun s => match expand_op rs s with None => true | Some _ => false end) l.

(* decompose: `return (tape,)` when nothing is to be done, else tape.copy(operations=new_ops) *)
Definition decompose (t : tape) (rs : rules) : option tape :=
  if all_stop rs (ops t) then None else Some (mkTape (expand_ops rs (ops t)) (meas t) None).

(* math.get_trainable_indices(params) *)
Fixpoint flagged (i : Z) (l : list par) : list Z :=
  match l with [] => [] | v :: r => if snd v then i :: flagged (i + 1) r else flagged (i + 1) r end.

Inductive xres := XSame | XSkip | XNew (t : tape) | XFail.
(* gradient expand transform (hadamard_grad.expand_transform): decompose, then, when a new tape was
   made, tape.trainable_params = get_trainable_indices(get_parameters(trainable_only=False)).
   Trainable observable data takes the split_to_single_terms branch, which is not modelled (XSkip). *)
Definition grad_expand (t : tape) (rs : rules) : xres :=
  if existsb snd (concat (map mp_data (meas t))) then XSkip
  else match decompose t rs with
       | None => XSame
       | Some t' => match set_train t' (map TI (flagged 0 (all_params t'))) with
                    | Some t'' => XNew t''
                    | None => XFail
                    end
       end.

(* ---- histories over a store of tapes ---- *)
Inductive step :=
| SCopy (i : nat) (ou : ops_upd) (mu : meas_upd) (tu : train_upd)
| SBind (i : nat) (ps : list par) (idx : list Z)
| SSetTrain (i : nat) (l : list titem)
| SDecomp (i : nat) (rs : rules)
| SGradExp (i : nat) (rs : rules)
| SNop.

(* status codes: 0 ok, 1 error raised, 2 same object returned, 3 skipped *)
Fixpoint set_nth {A} (n : nat) (v : A) (l : list A) : list A :=
  match l, n with [], _ => [] | _ :: r, O => v :: r | x :: r, S k => x :: set_nth k v r end.

Definition exec (st : list tape) (s : step) : list tape * Z :=
  match s with
  | SNop => (st, 3)
  | SCopy i ou mu tu => match nth_error st i with None => (st, 3) | Some t => (st ++ [copy t ou mu tu], 0) end
  | SBind i ps idx => match nth_error st i with None => (st, 3)
                      | Some t => match bind t ps idx with None => (st, 1) | Some t' => (st ++ [t'], 0) end end
  | SSetTrain i l => match nth_error st i with None => (st, 3)
                     | Some t => match set_train t l with None => (st, 1) | Some t' => (set_nth i t' st, 0) end end
  | SDecomp i rs => match nth_error st i with None => (st, 3)
                    | Some t => match decompose t rs with None => (st, 2) | Some t' => (st ++ [t'], 0) end end
  | SGradExp i rs => match nth_error st i with None => (st, 3)
                     | Some t => match grad_expand t rs with
                                 | XSame => (st, 2) | XSkip => (st, 3) | XFail => (st, 1)
                                 | XNew t' => (st ++ [t'], 0) end end
  end.

Fixpoint run_steps (st : list tape) (ss : list step) : list tape * list Z :=
  match ss with
  | [] => (st, [])
  | s :: r => let '(st', c) := exec st s in let '(stf, cs) := run_steps st' r in (stf, c :: cs)
  end.

(* ---- observation of a tape, as canonical data ---- *)
Definition oslot := (Z * list par * list Z)%type.
Definition omp := (Z * option oslot)%type.
Definition obs := (list oslot * list omp * list Z * list (Z * Z)
                   * option (list par) * option (list par) * list par * list par * list (option par))%type.

Definition o_slot (s : slot) : oslot := (sname s, sdata s, swires s).
Definition o_mp (m : mp) : omp := (mkind m, option_map o_slot (mobs m)).
(* value reached through par_info entry (op_idx, p_idx) *)
Definition via_pinfo (t : tape) (e : Z * Z) : option par :=
  match py_nth (cdata t) (fst e) with Some d => py_nth d (snd e) | None => None end.
Definition observe (t : tape) : obs :=
  (map o_slot (ops t), map o_mp (meas t), trainable t, par_info t,
   get_parameters t true false, get_parameters t true true, allp t false, allp t true,
   map (via_pinfo t) (par_info t)).

(* ---- decidable comparison ---- *)
Fixpoint eq_l {A} (e : A -> A -> bool) (a b : list A) : bool :=
  match a, b with [], [] => true | x :: r, y :: s => e x y && eq_l e r s | _, _ => false end.
Definition eq_o {A} (e : A -> A -> bool) (a b : option A) : bool :=
  match a, b with None, None => true | Some x, Some y => e x y | _, _ => false end.
Definition eq_par (a b : par) : bool := Qeq_bool (fst a) (fst b) && Bool.eqb (snd a) (snd b).
Definition eq_zz (a b : Z * Z) : bool := (fst a =? fst b) && (snd a =? snd b).
Definition eq_oslot (a b : oslot) : bool :=
  let '(n, d, w) := a in let '(n', d', w') := b in (n =? n') && eq_l eq_par d d' && eq_l Z.eqb w w'.
Definition eq_omp (a b : omp) : bool := (fst a =? fst b) && eq_o eq_oslot (snd a) (snd b).
Definition eq_obs (a b : obs) : bool :=
  let '(o, m, tr, pinf, g1, g2, a1, a2, v) := a in
  let '(o', m', tr', pinf', g1', g2', a1', a2', v') := b in
  eq_l eq_oslot o o' && eq_l eq_omp m m' && eq_l Z.eqb tr tr' && eq_l eq_zz pinf pinf'
  && eq_o (eq_l eq_par) g1 g1' && eq_o (eq_l eq_par) g2 g2' && eq_l eq_par a1 a1' && eq_l eq_par a2 a2'
  && eq_l (eq_o eq_par) v v'.

Definition run_case (c : tape * list step) : list Z * list obs :=
  let '(st, codes) := run_steps [fst c] (snd c) in (codes, map observe st).

Definition check_case (c : (tape * list step) * (list Z * list obs)) : bool :=
  let '(codes, os) := run_case (fst c) in
  eq_l Z.eqb codes (fst (snd c)) && eq_l eq_obs os (snd (snd c)).

(* typed constructors used by the generated case files *)
Definition mk_oslot (n : Z) (d : list par) (w : list Z) : oslot := (n, d, w).
Definition mk_omp (k : Z) (o : option oslot) : omp := (k, o).
Definition mk_obs (o : list oslot) (m : list omp) (tr : list Z) (pinf : list (Z * Z))
  (g1 g2 : option (list par)) (a1 a2 : list par) (v : list (option par)) : obs :=
  (o, m, tr, pinf, g1, g2, a1, a2, v).
Definition mk_par (q : Q) (b : bool) : par := (q, b).
Definition mk_prule (c : Q) (cs : list Q) : prule := (c, cs).
Definition mk_orule (n : Z) (ps : list prule) (w : list Z) : orule := (n, ps, w).
Definition mk_rule (n : Z) (f : list bool) (r : option rule) : Z * list bool * option rule := (n, f, r).
Definition mk_case (t : tape) (ss : list step) (codes : list Z) (os : list obs)
  : (tape * list step) * (list Z * list obs) := ((t, ss), (codes, os)).
