(* C65  Model of the dispatch logic of pennylane.concurrency.executors.native
   (api.py PyNativeExec.submit/map/starmap, multiproc.py MPPoolExec.map, serial.py StdLibBackend,
   conc_futures.py configs).  Definitions only; proofs are in ExecutorProofs.v.

   Python values are modelled as [arg] (ints and nested sequences: list/tuple are not told apart),
   user functions abstractly: a descriptor [fn] (signature shape) whose call either fails (TypeError)
   or builds a term recording the bound values, so wrong argument packing is visible.
   The backend pools (concurrent.futures executors, multiprocessing.Pool) are oracles that run the
   tasks in the completion order [perm] and hand results back by task index. *)
From Coq Require Import List ZArith Bool Arith.
Import ListNotations.
Open Scope Z_scope.

(* ------------------------------------------------------------------ values *)
Inductive arg := AInt (z : Z) | ASeq (l : list arg).
Inductive res :=
| RInt (z : Z)
| RApp (f : Z) (pos : list arg) (defs : list (option arg)) (rest : list arg).

Definition d0 : arg := AInt 0.

Definition list_eqb {A} (e : A -> A -> bool) : list A -> list A -> bool :=
  fix go l m := match l, m with
                | [], [] => true
                | x :: l', y :: m' => e x y && go l' m'
                | _, _ => false end.
Definition opt_eqb {A} (e : A -> A -> bool) (x y : option A) : bool :=
  match x, y with Some a, Some b => e a b | None, None => true | _, _ => false end.
Fixpoint arg_eqb (a b : arg) : bool :=
  match a, b with
  | AInt x, AInt y => Z.eqb x y
  | ASeq l, ASeq m =>
      (fix go (l m : list arg) : bool :=
         match l, m with
         | [], [] => true
         | x :: l', y :: m' => arg_eqb x y && go l' m'
         | _, _ => false end) l m
  | _, _ => false end.
Definition res_eqb (r s : res) : bool :=
  match r, s with
  | RInt x, RInt y => Z.eqb x y
  | RApp f p d r', RApp f' p' d' r'' =>
      Z.eqb f f' && list_eqb arg_eqb p p' && list_eqb (opt_eqb arg_eqb) d d' && list_eqb arg_eqb r' r''
  | _, _ => false end.

(* ------------------------------------------------------------------ user functions
   def g(x0..x{nreq-1}, k0=None..k{ndef-1}=None [, *rest])                                  *)
Record fn := { fid : Z; nreq : nat; ndef : nat; fvar : bool; farith : bool }.
Definition kwargs := list (nat * arg).     (* keyword k_j = value; keys distinct (a dict) *)

(* len(inspect.signature(fn).parameters) *)
Definition nparams (f : fn) : Z :=
  Z.of_nat (nreq f) + Z.of_nat (ndef f) + (if fvar f then 1 else 0).

Fixpoint assoc {A} (k : nat) (l : list (nat * A)) : option A :=
  match l with [] => None | (j, v) :: r => if Nat.eqb j k then Some v else assoc k r end.

Definition kw_ok (f : fn) (npos : nat) (kw : kwargs) : bool :=
  forallb (fun kv => Nat.ltb (fst kv) (ndef f) && Nat.leb (npos - nreq f) (fst kv)) kw.

Definition bind (f : fn) (pos : list arg) (kw : kwargs)
  : option (list arg * list (option arg) * list arg) :=
  let n := length pos in
  if Nat.ltb n (nreq f) then None                                   (* missing positional *)
  else if Nat.ltb (nreq f + ndef f) n && negb (fvar f) then None    (* too many positional *)
  else if negb (kw_ok f n kw) then None                             (* unknown / duplicate keyword *)
  else Some (firstn (nreq f) pos,
             map (fun j => if Nat.ltb j (n - nreq f) then Some (nth (nreq f + j) pos d0)
                           else assoc j kw) (seq 0 (ndef f)),
             skipn (nreq f + ndef f) pos).

Fixpoint ints_of (l : list arg) : option (list Z) :=
  match l with
  | [] => Some []
  | AInt z :: r => match ints_of r with Some t => Some (z :: t) | None => None end
  | ASeq _ :: _ => None end.
Fixpoint weighted (i : Z) (l : list Z) : Z :=
  match l with [] => 0 | z :: r => i * z + weighted (i + 1) r end.
Definition dflt_val (o : option arg) : arg := match o with Some a => a | None => AInt (-1) end.

(* fn( *pos, **kw): None = the call raises *)
Definition call (f : fn) (pos : list arg) (kw : kwargs) : option res :=
  match bind f pos kw with
  | None => None
  | Some (p, d, r) =>
      if farith f then
        match ints_of (p ++ map dflt_val d ++ r) with
        | Some zs => Some (RInt (fid f + weighted 1 zs))
        | None => None end
      else Some (RApp (fid f) p d r)
  end.

(* functools.partial(fn, **kw) *)
Definition callable := (fn * kwargs)%type.
Definition callp (c : callable) (pos : list arg) : option res := call (fst c) pos (snd c).

(* ------------------------------------------------------------------ builtins *)
Fixpoint collect {A} (l : list (option A)) : option (list A) :=
  match l with
  | [] => Some []
  | None :: _ => None
  | Some x :: r => match collect r with Some t => Some (x :: t) | None => None end
  end.

Definition minlen {A} (its : list (list A)) : nat :=
  match its with [] => 0%nat | it :: r => fold_left Nat.min (map (@length A) r) (length it) end.
(* zip( *its): tuples up to the shortest iterable; zip() = [] *)
Definition zipn {A} (d : A) (its : list (list A)) : list (list A) :=
  map (fun i => map (fun it => nth i it d) its) (seq 0 (minlen its)).
Definition uniform {A} (its : list (list A)) : bool :=
  match its with [] => true | it :: r => forallb (fun x => Nat.eqb (length x) (length it)) r end.
(* list(zip( *its, strict=True)): None = ValueError *)
Definition zip_strict {A} (d : A) (its : list (list A)) : option (list (list A)) :=
  if uniform its then Some (zipn d its) else None.

(* ------------------------------------------------------------------ the pool oracle
   tasks complete in the order [perm] (indices into [tasks]); the completion log maps index ->
   outcome; results are read back by index 0..n-1; a task that never completed is an explicit error. *)
Definition pool_eval {T A} (run : T -> option A) (perm : list nat) (tasks : list T) : option (list A) :=
  let log := flat_map (fun i => match nth_error tasks i with
                                | Some t => [(i, run t)] | None => [] end) perm in
  collect (map (fun i => match assoc i log with Some r => r | None => None end)
               (seq 0 (length tasks))).

(* ------------------------------------------------------------------ backends *)
Inductive backend := Serial | Thread | Proc | MPPool.
Definition backend_eqb (a b : backend) : bool :=
  match a, b with Serial, Serial | Thread, Thread | Proc, Proc | MPPool, MPPool => true | _, _ => false end.

Record cfg := { submit_unpack : bool; map_unpack : bool; blocking : bool }.
Definition cfg_of (be : backend) : cfg :=
  match be with
  | Serial => {| submit_unpack := true; map_unpack := true; blocking := true |}
  | Thread | Proc => {| submit_unpack := true; map_unpack := true; blocking := false |}
  | MPPool => {| submit_unpack := false; map_unpack := false; blocking := true |}
  end.
(* hasattr(exec_be, "starmap"): StdLibBackend and multiprocessing.Pool have it *)
Definition backend_has_starmap (be : backend) : bool :=
  match be with Serial | MPPool => true | _ => false end.

(* map_fn(exec_be)(c, *its) *)
Definition be_map (be : backend) (perm : list nat) (c : callable) (its : list (list arg))
  : option (list res) :=
  match be with
  | Serial => match its with
              | [] => None                                  (* map() needs an iterable *)
              | _ => collect (map (callp c) (zipn d0 its)) end
  | Thread | Proc => pool_eval (callp c) perm (zipn d0 its)
  | MPPool => match its with
              | [it] => pool_eval (callp c) perm (map (fun x => [x]) it)
              | _ => None end                               (* Pool.map(func, iterable) *)
  end.
(* exec_be.starmap(c, rows) *)
Definition be_starmap (be : backend) (perm : list nat) (c : callable) (rows : list (list arg))
  : option (list res) :=
  match be with
  | Serial => collect (map (callp c) rows)
  | MPPool => pool_eval (callp c) perm rows
  | _ => None end.

(* ------------------------------------------------------------------ variants of the dispatch code *)
Record variant := {
  v_unpack : bool -> Z -> nat -> bool;   (* map: unpack ( *args ) or pass the tuple ( args )?
                                            arguments: cfg.map_unpack, signature arity, number of iterables *)
  v_starmap_kw_to_list : bool;           (* starmap fallback hands **kwargs to list() instead of map() *)
  v_apply_kw_splat : bool                (* MPPool submit: Pool.apply(fn, args, **kwargs) *)
}.
(* api.py at the pinned commit:  if self._cfg.map_unpack and len(inspect.signature(fn).parameters) > 1 *)
Definition unpack_pinned (cfg_unpack : bool) (np : Z) (niters : nat) : bool := cfg_unpack && (1 <? np).
(* proposed repair:               if self._cfg.map_unpack or len(args) == 1 *)
Definition unpack_by_iterables (cfg_unpack : bool) (np : Z) (niters : nat) : bool :=
  cfg_unpack || Nat.eqb niters 1.
Definition pinned : variant :=
  {| v_unpack := unpack_pinned; v_starmap_kw_to_list := true; v_apply_kw_splat := true |}.
Definition fixed_map : variant :=
  {| v_unpack := unpack_by_iterables; v_starmap_kw_to_list := true; v_apply_kw_splat := true |}.
Definition fixed_all : variant :=
  {| v_unpack := unpack_by_iterables; v_starmap_kw_to_list := false; v_apply_kw_splat := false |}.

(* THE variant the correspondence run compares /repo with.  Switch to [fixed_map] after repairing
   PyNativeExec.map (pack by number of iterables). *)
Definition model_variant : variant := fixed_all.

(* ------------------------------------------------------------------ PyNativeExec.submit *)
Definition exec_submit_gen (q : variant) (be : backend) (f : fn) (args : list arg) (kw : kwargs)
  : option res :=
  if submit_unpack (cfg_of be) then
    call f args kw                         (* backend.submit(fn, *args, **kwargs) [.result()] *)
  else
    (* Pool.apply(fn, args, **kwargs): apply(func, args=(), kwds={}) has no such keywords *)
    if v_apply_kw_splat q then
      match kw with [] => call f args [] | _ => None end
    else call f args kw.

(* ------------------------------------------------------------------ PyNativeExec.map *)
Definition native_map_gen (q : variant) (be : backend) (perm : list nat) (f : fn)
           (iters : list (list arg)) (kw : kwargs) : option (list res) :=
  let c := (f, kw) in
  if v_unpack q (map_unpack (cfg_of be)) (nparams f) (length iters)
  then be_map be perm c iters
  else be_map be perm c [map ASeq iters].

(* PyNativeExec.starmap with `self.map` as open recursion *)
Definition starmap_with (q : variant)
           (selfmap : list nat -> fn -> list (list arg) -> kwargs -> option (list res))
           (be : backend) (perm : list nat) (f : fn) (rows : list (list arg)) (kw : kwargs)
  : option (list res) :=
  if backend_has_starmap be then be_starmap be perm (f, kw) rows
  else match zip_strict d0 rows with
       | None => None
       | Some cols =>
           if v_starmap_kw_to_list q then
             match selfmap perm f cols [] with
             | None => None
             | Some r => match kw with [] => Some r | _ => None end   (* list(r, **kwargs) *)
             end
           else selfmap perm f cols kw
       end.

(* MPPoolExec.map *)
Definition mp_map_gen (q : variant) (perm : list nat) (f : fn) (iters : list (list arg)) (kw : kwargs)
  : option (list res) :=
  if 1 <? nparams f then
    match zip_strict d0 iters with
    | None => None
    | Some rows =>      (* self.starmap(...): Pool has starmap, self.map is not reached *)
        starmap_with q (native_map_gen q MPPool) MPPool perm f rows kw
    end
  else native_map_gen q MPPool perm f iters kw.

Definition exec_map_gen (q : variant) (be : backend) :=
  match be with MPPool => mp_map_gen q | _ => native_map_gen q be end.
Definition exec_starmap_gen (q : variant) (be : backend) := starmap_with q (exec_map_gen q be) be.

(* ------------------------------------------------------------------ specification: the builtins *)
Definition spec_submit (f : fn) (args : list arg) (kw : kwargs) : option res := call f args kw.
Definition spec_map (f : fn) (iters : list (list arg)) (kw : kwargs) : option (list res) :=
  match iters with [] => None | _ => collect (map (fun t => call f t kw) (zipn d0 iters)) end.
Definition spec_starmap (f : fn) (rows : list (list arg)) (kw : kwargs) : option (list res) :=
  collect (map (fun t => call f t kw) rows).

Definition covers (perm : list nat) (n : nat) : Prop := forall i, (i < n)%nat -> In i perm.
Definition coversb (perm : list nat) (n : nat) : bool :=
  forallb (fun i => existsb (Nat.eqb i) perm) (seq 0 n).

(* ------------------------------------------------------------------ correspondence *)
Inductive opc :=
| OSubmit (args : list arg)
| OMap (iters : list (list arg))
| OStarmap (rows : list (list arg)).
Record case := { c_be : backend; c_perm : list nat; c_fn : fn; c_kw : kwargs; c_op : opc }.

Definition run_case_gen (q : variant) (c : case) : option (list res) :=
  match c_op c with
  | OSubmit args => option_map (fun r => [r]) (exec_submit_gen q (c_be c) (c_fn c) args (c_kw c))
  | OMap iters => exec_map_gen q (c_be c) (c_perm c) (c_fn c) iters (c_kw c)
  | OStarmap rows => exec_starmap_gen q (c_be c) (c_perm c) (c_fn c) rows (c_kw c)
  end.
Definition run_case := run_case_gen model_variant.
Definition spec_case (c : case) : option (list res) :=
  match c_op c with
  | OSubmit args => option_map (fun r => [r]) (spec_submit (c_fn c) args (c_kw c))
  | OMap iters => spec_map (c_fn c) iters (c_kw c)
  | OStarmap rows => spec_starmap (c_fn c) rows (c_kw c)
  end.

Definition out_eqb := opt_eqb (list_eqb res_eqb).
Definition check_case (ce : case * option (list res)) : bool := out_eqb (run_case (fst ce)) (snd ce).
Definition check_spec (ce : case * option (list res)) : bool := out_eqb (spec_case (fst ce)) (snd ce).

Definition kw_empty (kw : kwargs) : bool := match kw with [] => true | _ => false end.
(* which modelled quirk a deviating case goes through under [model_variant]:
   2 = starmap fallback gives kwargs to list(); 3 = Pool.apply with kwargs splatted;
   1 = PyNativeExec.map takes the packed branch (the tuple of iterables is passed as one iterable)
       although the backend unpacks or there is a single iterable; 0 = none *)
Definition cause_code (c : case) : Z :=
  let q := model_variant in
  let np := nparams (c_fn c) in
  let packed (be : backend) (n : nat) :=
      negb (v_unpack q (map_unpack (cfg_of be)) np n) && (map_unpack (cfg_of be) || Nat.eqb n 1) in
  match c_op c with
  | OSubmit _ =>
      if negb (submit_unpack (cfg_of (c_be c))) && v_apply_kw_splat q && negb (kw_empty (c_kw c))
      then 3 else 0
  | OMap iters =>
      match c_be c with
      | MPPool => if (1 <? np) then 0 else if packed MPPool (length iters) then 1 else 0
      | be => if packed be (length iters) then 1 else 0
      end
  | OStarmap rows =>
      if backend_has_starmap (c_be c) then 0
      else if v_starmap_kw_to_list q && negb (kw_empty (c_kw c)) then 2
      else match zip_strict d0 rows with
           | Some cols => if packed (c_be c) (length cols) then 1 else 0
           | None => 0 end
  end.
