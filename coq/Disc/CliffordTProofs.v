(* C15: lemmas about the model in Disc/CliffordTModel.v *)
From Coq Require Import List ZArith Bool Lia ZifyBool QArith Lqa.
From PLV Require Import Disc.RingsModel Disc.RingsProofs Disc.CliffordTModel.
Import ListNotations.
Open Scope Z_scope.

Ltac dd m := destruct m as [[? ? ? ?] [? ? ? ?] [? ? ? ?] [? ? ? ?] ?].
Ltac ct_unfold := cbv [dm_mul_gate gate_mat dm_matmul_raw dm_dagger dm_scalar dm_transpose rs_candidate dm_map
                       zo_add zo_sub zo_neg zo_mul zo_conj zo_muli zo_mulw zo_mulw7 zo_int
                       z0 z1 zm1 zi zmi zw zw7 zo_zero zo_one ct_id dm_id ma mb mc md mk oa ob oc od].
Ltac ct_ring := ct_unfold; repeat (f_equal; try ring).

(* ------------------------------------------------------------------ the fast product is the product *)
Lemma dm_mul_gate_ok m g : dm_mul_gate m g = dm_matmul_raw m (gate_mat g).
Proof. dd m; destruct g; try reflexivity; ct_ring. Qed.
Lemma word_denote_fast_ok w : word_denote_fast w = word_denote w.
Proof. induction w as [|g r IH]; [reflexivity|]. cbn [word_denote_fast word_denote]. rewrite dm_mul_gate_ok, IH. reflexivity. Qed.

(* ------------------------------------------------------------------ concatenation *)
Lemma ct_id_l x : dm_matmul_raw ct_id x = x. Proof. exact (dm_matmul_raw_id_l x). Qed.
Lemma ct_id_r x : dm_matmul_raw x ct_id = x. Proof. exact (dm_matmul_raw_id_r x). Qed.
Lemma word_denote_app_lemma w1 w2 :
  word_denote (w1 ++ w2) = dm_matmul_raw (word_denote w2) (word_denote w1).
Proof.
  induction w1 as [|g r IH]; cbn [app word_denote]; [symmetry; apply ct_id_r|].
  rewrite IH. apply dm_matmul_raw_assoc.
Qed.

(* ------------------------------------------------------------------ exact unitarity *)
Definition dm_unitary (m : dm) : Prop :=
  0 <= mk m /\ dm_matmul_raw (dm_dagger m) m = dm_scalar (zo_int (2 ^ mk m)) (mk m + mk m).

Lemma dm_eq_true x y : dm_eq x y = true -> x = y.
Proof.
  destruct x as [a b c d k]; destruct y as [a' b' c' d' k']; unfold dm_eq; cbn [ma mb mc md mk]. intros H.
  apply andb_true_iff in H; destruct H as [H Hk]. apply andb_true_iff in H; destruct H as [H Hd].
  apply andb_true_iff in H; destruct H as [H Hc]. apply andb_true_iff in H; destruct H as [Ha Hb].
  apply zo_eq_true in Ha, Hb, Hc, Hd. apply Z.eqb_eq in Hk. subst. reflexivity.
Qed.
Lemma dm_eq_refl x : dm_eq x x = true.
Proof.
  destruct x as [a b c d k]; unfold dm_eq; cbn [ma mb mc md mk].
  rewrite !(proj2 (zo_eq_iff _ _) eq_refl), Z.eqb_refl. reflexivity.
Qed.
Lemma dm_unitaryb_spec_lemma m : dm_unitaryb m = true <-> dm_unitary m.
Proof.
  unfold dm_unitaryb, dm_unitary. rewrite andb_true_iff, Z.leb_le. split; intros [H1 H2]; split; try exact H1.
  - apply dm_eq_true; exact H2.
  - rewrite H2. apply dm_eq_refl.
Qed.

Lemma dagger_mul a b : dm_dagger (dm_matmul_raw a b) = dm_matmul_raw (dm_dagger b) (dm_dagger a).
Proof. dd a; dd b; ct_ring. Qed.
Lemma scalar_commutes s k x y :
  dm_matmul_raw x (dm_matmul_raw (dm_scalar s k) y) = dm_matmul_raw (dm_scalar s k) (dm_matmul_raw x y).
Proof. destruct s as [? ? ? ?]; dd x; dd y; ct_ring. Qed.
Lemma scalar_scalar s k t l : dm_matmul_raw (dm_scalar s k) (dm_scalar t l) = dm_scalar (zo_mul s t) (k + l).
Proof. destruct s as [? ? ? ?]; destruct t as [? ? ? ?]; ct_ring. Qed.
Lemma zo_int_mul x y : zo_mul (zo_int x) (zo_int y) = zo_int (x * y).
Proof. ct_ring. Qed.

Lemma unitary_mul a b : dm_unitary a -> dm_unitary b -> dm_unitary (dm_matmul_raw a b).
Proof.
  intros [Ka Ha] [Kb Hb]. split; [cbn [dm_matmul_raw mk]; lia|].
  rewrite dagger_mul, dm_matmul_raw_assoc, <- (dm_matmul_raw_assoc (dm_dagger a) a b), Ha.
  rewrite scalar_commutes, Hb, scalar_scalar, zo_int_mul.
  cbn [dm_matmul_raw mk]. rewrite <- Z.pow_add_r by assumption.
  unfold dm_scalar. f_equal. ring.
Qed.

Lemma wpow_unitary j : dm_unitary (DM (zo_wpow j) z0 z0 (zo_wpow j) 0).
Proof.
  unfold zo_wpow. split; [cbn [mk]; lia|].
  destruct (j mod 8) as [|p|p]; try reflexivity;
    do 4 (try destruct p as [p|p|]); reflexivity.
Qed.
Lemma gate_unitary g : in_set g = true -> dm_unitary (gate_mat g).
Proof.
  destruct g; intros H; try discriminate H; try (split; [cbn; lia | reflexivity]).
  apply wpow_unitary.
Qed.
Lemma word_unitary_lemma w : gates_in_set w = true -> dm_unitary (word_denote w).
Proof.
  induction w as [|g r IH]; intros H.
  - split; [cbn; lia | reflexivity].
  - cbn [gates_in_set forallb] in H. apply andb_true_iff in H. destruct H as [Hg Hr].
    cbn [word_denote]. apply unitary_mul; [apply IH; exact Hr | apply gate_unitary; exact Hg].
Qed.
Lemma word_nonunitary_other : dm_unitaryb (word_denote [GOther]) = false.
Proof. reflexivity. Qed.

Lemma gates_in_set_spec_lemma w : gates_in_set w = true <-> Forall (fun g => g <> GOther) w.
Proof.
  unfold gates_in_set. rewrite forallb_forall, Forall_forall. split; intros H g Hg.
  - intros ->. specialize (H _ Hg). discriminate H.
  - specialize (H g Hg). destruct g; try reflexivity. exfalso; apply H; reflexivity.
Qed.
Definition ten_ops : list gate := [GH; GS; GT; GX; GY; GZ; GSd; GTd; GI; GPh].
Lemma parse_pos_alphabet : forall n p, (Pos.size_nat p <= n)%nat ->
  gates_in_set (parse_pos p) = true -> Forall (fun g => In g ten_ops) (parse_pos p).
Proof.
  induction n as [|n IH]; intros p Hs; [destruct p; cbn in Hs; lia|].
  destruct p as [q1|q1|]; [ | |constructor];
  destruct q1 as [q2|q2|]; try discriminate;
  destruct q2 as [q3|q3|]; try discriminate;
  destruct q3 as [q4|q4|]; try discriminate;
  cbn [parse_pos gates_in_set forallb in_set andb]; try discriminate; intros H;
  (constructor; [cbn; tauto|]); apply IH; try exact H; cbn [Pos.size_nat] in Hs; lia.
Qed.
Lemma parse_alphabet_lemma l : gates_in_set (parse l) = true -> Forall (fun g => In g ten_ops) (parse l).
Proof.
  unfold parse, gates_in_set. induction l as [|n r IH]; cbn [flat_map]; [constructor|].
  rewrite forallb_app, andb_true_iff. intros [H1 H2]. apply Forall_app. split; [|apply IH; exact H2].
  destruct n as [|p|p]; cbn [parse_chunk] in *; try discriminate.
  apply (parse_pos_alphabet (Pos.size_nat p)); [lia|exact H1].
Qed.

(* ------------------------------------------------------------------ Ross-Selinger candidate *)
Lemma candidate_unitary_lemma u t k : 0 <= k ->
  zo_add (zo_mul (zo_conj u) u) (zo_mul (zo_conj t) t) = zo_int (2 ^ k) ->
  dm_unitary (rs_candidate u t k).
Proof.
  intros Hk H. split; [exact Hk|].
  destruct u as [a b c d]; destruct t as [a' b' c' d'].
  revert H. ct_unfold. generalize (2 ^ k) as N. intros N H. injection H as H1 H2 H3 H4.
  repeat (f_equal; try lia).
Qed.
(* multiplying both u and t by a unit (the code's `scale`, a power of omega) keeps the equation *)
Lemma candidate_scale u t s : zo_mul (zo_conj s) s = zo_one ->
  zo_add (zo_mul (zo_conj (zo_mul u s)) (zo_mul u s)) (zo_mul (zo_conj (zo_mul t s)) (zo_mul t s))
  = zo_add (zo_mul (zo_conj u) u) (zo_mul (zo_conj t) t).
Proof.
  intros H. rewrite !zo_conj_mul.
  replace (zo_mul (zo_mul (zo_conj u) (zo_conj s)) (zo_mul u s)) with (zo_mul (zo_mul (zo_conj u) u) (zo_mul (zo_conj s) s))
    by (destruct u as [? ? ? ?]; destruct s as [? ? ? ?]; zo_ring).
  replace (zo_mul (zo_mul (zo_conj t) (zo_conj s)) (zo_mul t s)) with (zo_mul (zo_mul (zo_conj t) t) (zo_mul (zo_conj s) s))
    by (destruct t as [? ? ? ?]; destruct s as [? ? ? ?]; zo_ring).
  rewrite H, !zo_mul_1_r. reflexivity.
Qed.

(* proportionality test: a matrix is proportional to every scalar multiple of itself, and to
   its own transpose image under the same scalar; used for "equal up to a global phase" *)
Lemma in_combine_map (f : zo -> zo) l p : In p (combine (map f l) l) -> fst p = f (snd p).
Proof. induction l as [|x r IH]; cbn; [tauto|]. intros [<-|H]; [reflexivity|auto]. Qed.
Lemma proportional_scaled s m k : dm_proportional (dm_map (zo_mul s) m k) m = true.
Proof.
  unfold dm_proportional, minors_zero.
  replace (dm_entries (dm_map (zo_mul s) m k)) with (map (zo_mul s) (dm_entries m)) by (destruct m; reflexivity).
  apply forallb_forall; intros p Hp. apply forallb_forall; intros q Hq.
  apply in_combine_map in Hp, Hq. rewrite Hp, Hq. apply zo_eq_iff.
  generalize (snd p) (snd q). intros x y.
  destruct s as [? ? ? ?]; destruct x as [? ? ? ?]; destruct y as [? ? ? ?]. zo_ring.
Qed.

(* ------------------------------------------------------------------ real / imaginary parts *)
(* re2, im2 : Z[omega] -> Z[sqrt2] give twice the real and imaginary part; they satisfy the
   complex multiplication rule, so x |-> (re2 x + i im2 x)/2 is the ring embedding into C *)
Lemma re2_mul x y : zs_mulz (re2 (zo_mul x y)) 2 = zs_sub (zs_mul (re2 x) (re2 y)) (zs_mul (im2 x) (im2 y)).
Proof. destruct x as [a b c d]; destruct y as [a' b' c' d']. unfold re2, im2, zo_mul; cbn [oa ob oc od]. zs_ring. Qed.
Lemma im2_mul x y : zs_mulz (im2 (zo_mul x y)) 2 = zs_add (zs_mul (re2 x) (im2 y)) (zs_mul (im2 x) (re2 y)).
Proof. destruct x as [a b c d]; destruct y as [a' b' c' d']. unfold re2, im2, zo_mul; cbn [oa ob oc od]. zs_ring. Qed.
Lemma re2_conj x : re2 (zo_conj x) = re2 x.
Proof. destruct x as [a b c d]. unfold re2, zo_conj; cbn [oa ob oc od]. f_equal; ring. Qed.
Lemma im2_conj x : im2 (zo_conj x) = zs_neg (im2 x).
Proof. destruct x as [a b c d]. unfold im2, zo_conj, zs_neg; cbn [oa ob oc od sa sb]. f_equal; ring. Qed.
Lemma re2_omega : re2 zw = ZS 0 1 /\ im2 zw = ZS 0 1 /\ re2 zi = ZS 0 0 /\ im2 zi = ZS 2 0 /\ re2 z1 = ZS 2 0.
Proof. repeat split. Qed.

(* ------------------------------------------------------------------ interval test *)
Open Scope Q_scope.
Lemma qz_nonneg n : (0 <= n)%Z -> 0 <= qz n.
Proof. intros H. unfold qz. rewrite Zle_Qle in H. exact H. Qed.
Lemma qz_nonpos n : (n < 0)%Z -> qz n <= 0.
Proof. intros H. unfold qz. assert (H' : (n <= 0)%Z) by lia. rewrite Zle_Qle in H'. exact H'. Qed.

Definition encloses (e : Q * Q) (x : Q) : Prop := fst e <= x <= snd e.
Lemma lin_bounds ns : forall enc xs, Forall2 encloses enc xs ->
  lin_lo ns enc <= lin_val ns xs <= lin_hi ns enc.
Proof.
  induction ns as [|n nr IH]; intros enc xs H.
  - cbn. lra.
  - destruct H as [|[lo hi] x er xr [Hlo Hhi] Hr]; [cbn; lra|].
    cbn [fst snd] in Hlo, Hhi. specialize (IH er xr Hr). cbn [lin_lo lin_hi lin_val].
    destruct (0 <=? n)%Z eqn:E.
    + assert (Hn := qz_nonneg n ltac:(lia)). nra.
    + assert (Hn := qz_nonpos n ltac:(lia)). nra.
Qed.
Lemma sq_lo_sound lo hi x : lo <= x <= hi -> sq_lo lo hi <= x * x.
Proof.
  intros [H1 H2]. unfold sq_lo.
  destruct (Qle_bool 0 lo) eqn:E1; [apply Qle_bool_iff in E1; nra|].
  destruct (Qle_bool hi 0) eqn:E2; [apply Qle_bool_iff in E2; nra|]. nra.
Qed.
Lemma lin_val_scale ns s : forall xs, lin_val ns (map (fun x => x * s) xs) == lin_val ns xs * s.
Proof.
  induction ns as [|n nr IH]; intros xs; [cbn; ring|].
  destruct xs as [|x xr]; [cbn; ring|]. cbn [map lin_val]. rewrite IH. ring.
Qed.
Lemma Forall2_scale enc s : forall xs, Forall2 (fun e x => fst e <= x * s <= snd e) enc xs ->
  Forall2 encloses enc (map (fun x => x * s) xs).
Proof. intros xs H. induction H; cbn [map]; constructor; assumption. Qed.

Lemma enclosure_check_sound_lemma m S enc eps2 xs :
  Forall2 (fun e x => fst e <= x * qz S <= snd e) enc xs ->
  dist_ok m S enc eps2 = true -> 0 <= 2 - eps2 ->
  threshold (mk m) eps2 <= lin_val (coefX m) xs * lin_val (coefX m) xs + lin_val (coefY m) xs * lin_val (coefY m) xs.
Proof.
  intros Henc Hd He. unfold dist_ok in Hd. apply andb_true_iff in Hd. destruct Hd as [HS Hd].
  assert (Hs : 0 < qz S) by (unfold qz; change (inject_Z 0 < inject_Z S); rewrite <- Zlt_Qlt; lia).
  destruct (Qle_bool 0 (2 - eps2)) eqn:E; [|apply Bool.not_true_iff_false in E; exfalso; apply E; apply Qle_bool_iff; exact He].
  apply Qle_bool_iff in Hd.
  apply Forall2_scale in Henc.
  assert (BX := lin_bounds (coefX m) _ _ Henc). assert (BY := lin_bounds (coefY m) _ _ Henc).
  apply sq_lo_sound in BX. apply sq_lo_sound in BY.
  rewrite !lin_val_scale in BX, BY.
  set (X := lin_val (coefX m) xs) in *. set (Y := lin_val (coefY m) xs) in *.
  set (T := threshold (mk m) eps2) in *.
  assert (H : T * (qz S * qz S) <= (X * X + Y * Y) * (qz S * qz S)) by lra.
  assert (Hss : 0 < qz S * qz S) by nra.
  apply Qmult_lt_0_le_reg_r in H; assumption.
Qed.
(* the linear forms are 2 Re and 2 Im of conj(x) * t for one entry *)
Lemma coef_entry_meaning x tr ti r :
  lin_val (coefX_entry x) [tr; ti; r * tr; r * ti]
    == (qz (sa (re2 x)) + qz (sb (re2 x)) * r) * tr + (qz (sa (im2 x)) + qz (sb (im2 x)) * r) * ti /\
  lin_val (coefY_entry x) [tr; ti; r * tr; r * ti]
    == (qz (sa (re2 x)) + qz (sb (re2 x)) * r) * ti - (qz (sa (im2 x)) + qz (sb (im2 x)) * r) * tr.
Proof.
  destruct x as [a b c d]. unfold coefX_entry, coefY_entry, re2, im2, qz; cbn [oa ob oc od sa sb lin_val].
  unfold qz. rewrite !inject_Z_opp. split; ring.
Qed.
Close Scope Q_scope.
