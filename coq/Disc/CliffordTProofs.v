From PLV Require Import Disc.CliffordTModel.
