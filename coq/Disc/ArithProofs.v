(* C56: lemmas about the classical reversible model (Disc/ArithModel.v). *)
From Coq Require Import List ZArith Bool Lia Arith.
From PLV Require Import Disc.ArithModel.
Import ListNotations.
Open Scope Z_scope.

(* ------------------------------------------------------------------ basics *)
Lemma upd_same : forall s i b, upd s i b i = b.
Proof. intros; unfold upd; now rewrite Nat.eqb_refl. Qed.
Lemma upd_other : forall s i b j, j <> i -> upd s i b j = s j.
Proof. intros s i b j H; unfold upd. destruct (Nat.eqb_spec j i); [contradiction | reflexivity]. Qed.

Lemma eqb_t : forall b, Bool.eqb b true = b.
Proof. destruct b; reflexivity. Qed.

Lemma run_app : forall a b s, run (a ++ b) s = match run a s with Some s1 => run b s1 | None => None end.
Proof.
  induction a as [|g a IH]; intros b s; cbn [run app]; [reflexivity|].
  destruct (apply_gate g s); [apply IH | reflexivity].
Qed.

Definition zeroed (s : st) (l : list nat) : Prop := forall w, In w l -> s w = false.

Lemma val_le_ext : forall l s t, (forall w, In w l -> s w = t w) -> val_le s l = val_le t l.
Proof.
  induction l as [|w l IH]; intros s t H; cbn [val_le]; [reflexivity|].
  rewrite (H w (or_introl eq_refl)), (IH s t); [reflexivity | intros; apply H; now right].
Qed.

Lemma val_le_range : forall l s, 0 <= val_le s l < 2 ^ Z.of_nat (length l).
Proof.
  induction l as [|w l IH]; intros s; cbn [val_le length]; [cbn; lia|].
  rewrite Nat2Z.inj_succ, Z.pow_succ_r by lia. specialize (IH s). destruct (s w); cbn [b2z]; lia.
Qed.

Lemma val_le_zeroed : forall l s, zeroed s l -> val_le s l = 0.
Proof.
  induction l as [|w l IH]; intros s H; cbn [val_le]; [reflexivity|].
  rewrite (H w (or_introl eq_refl)), IH; [reflexivity | intros v Hv; apply H; now right].
Qed.

(* one-bit-plus-rest modular arithmetic:  b + 2 (A mod m) = (b + 2A) mod 2m *)
Lemma bit_mod : forall b A m, 0 < m -> 0 <= b < 2 -> b + 2 * (A mod m) = (b + 2 * A) mod (2 * m).
Proof.
  intros b A m Hm Hb.
  pose proof (Z.mod_pos_bound A m Hm) as HR.
  pose proof (Z.div_mod A m ltac:(lia)) as HD.
  apply Z.mod_unique with (q := A / m); [left; lia | nia].
Qed.

Lemma pow2_pos : forall n : nat, 0 < 2 ^ Z.of_nat n.
Proof. intros; apply Z.pow_pos_nonneg; lia. Qed.

Lemma b2z_range : forall b, 0 <= b2z b < 2.
Proof. destruct b; cbn; lia. Qed.

(* ------------------------------------------------------------------ QubitSum, QubitCarry, TemporaryAND *)
Lemma qubit_sum_ok : forall a b c s, a <> c -> b <> c ->
  exists s', run (qubit_sum a b c) s = Some s' /\
             s' c = xorb (s a) (xorb (s b) (s c)) /\ (forall i, i <> c -> s' i = s i).
Proof.
  intros a b c s Hac Hbc. eexists; split; [reflexivity|]. split.
  - cbn [ctrl_ok forallb fst snd]. rewrite upd_same, (upd_other _ _ _ a Hac), upd_same.
    destruct (s a), (s b), (s c); reflexivity.
  - intros i Hi. now rewrite !upd_other.
Qed.

Lemma qubit_carry_ok : forall a b c d s, a <> c -> a <> d -> b <> c -> b <> d -> c <> d ->
  exists s', run (qubit_carry a b c d) s = Some s' /\
             s' c = xorb (s b) (s c) /\
             s' d = xorb (andb (s b) (s c)) (xorb (s d) (andb (xorb (s b) (s c)) (s a))) /\
             (forall i, i <> c -> i <> d -> s' i = s i).
Proof.
  intros a b c d s Hac Had Hbc Hbd Hcd. eexists; split; [reflexivity|].
  cbn [ctrl_ok forallb fst snd]. repeat split.
  - rewrite (upd_other _ d _ c Hcd), upd_same, (upd_other _ d _ c Hcd), (upd_other _ d _ b Hbd).
    destruct (s b), (s c); reflexivity.
  - rewrite upd_same, (upd_other _ c _ d (not_eq_sym Hcd)), upd_same,
            (upd_other _ c _ a Hac), (upd_other _ d _ a Had), upd_same,
            (upd_other _ d _ c Hcd), (upd_other _ d _ b Hbd).
    destruct (s a), (s b), (s c), (s d); reflexivity.
  - intros i Hc Hd. now rewrite !upd_other.
Qed.

Lemma temporary_and_ok : forall cv0 cv1 a b t s, a <> t -> b <> t -> s t = false ->
  exists s', run (temporary_and cv0 cv1 a b t) s = Some s' /\
             s' t = andb (Bool.eqb (s a) cv0) (Bool.eqb (s b) cv1) /\ (forall i, i <> t -> s' i = s i).
Proof.
  intros cv0 cv1 a b t s Ha Hb Ht. unfold temporary_and. cbn [run apply_gate]. rewrite Ht.
  eexists; split; [reflexivity|]. split.
  - rewrite upd_same. cbn [ctrl_ok forallb fst snd]. now rewrite andb_true_r.
  - intros i Hi. now rewrite upd_other.
Qed.

Lemma temporary_and_adj_ok : forall cv0 cv1 a b t s, a <> t -> b <> t ->
  s t = andb (Bool.eqb (s a) cv0) (Bool.eqb (s b) cv1) ->
  exists s', run [GAndAdj [(a, cv0); (b, cv1)] t] s = Some s' /\ s' t = false /\ (forall i, i <> t -> s' i = s i).
Proof.
  intros cv0 cv1 a b t s Ha Hb Ht. cbn [run apply_gate ctrl_ok forallb fst snd]. rewrite Ht, andb_true_r, xorb_nilpotent.
  eexists; split; [reflexivity|]. split; [apply upd_same | intros i Hi; now rewrite upd_other].
Qed.

(* outside its documented domain the elbow is rejected by the model *)
Lemma temporary_and_domain : forall cs t s, s t = true -> run [GAnd cs t] s = None.
Proof. intros cs t s H. cbn [run apply_gate]. now rewrite H. Qed.

(* ------------------------------------------------------------------ disjointness bookkeeping *)
Lemma NoDup_app_inv : forall (a b : list nat), NoDup (a ++ b) ->
  NoDup a /\ NoDup b /\ (forall x, In x a -> ~ In x b).
Proof.
  induction a as [|x a IH]; intros b H; cbn [app] in *.
  - repeat split; [constructor | assumption | intros ? []].
  - inversion H as [|? ? Hx Hn]; subst. destruct (IH b Hn) as (Ha & Hb & Hd).
    repeat split; [constructor; [intro Hin; apply Hx, in_or_app; now left | assumption] | assumption |].
    intros y [->|Hy]; [intro Hin; apply Hx, in_or_app; now right | now apply Hd].
Qed.

Lemma half_adder : forall r k, b2z (xorb r k) + 2 * b2z (k && r) = b2z r + b2z k.
Proof. destruct r, k; reflexivity. Qed.
Lemma full_adder : forall x y c,
  b2z (xorb (xorb x y) c) + 2 * b2z (xorb (andb (xorb x c) (xorb y c)) c) = b2z x + b2z y + b2z c.
Proof. destruct x, y, c; reflexivity. Qed.

(* ------------------------------------------------------------------ Incrementer (elbow ladder) *)
Lemma inc_lvl_step : forall c ri rn rs wi ws,
  inc_lvl c (ri :: rn :: rs) (wi :: ws) = AND c ri wi :: inc_lvl wi (rn :: rs) ws ++ [CNOT wi rn; ANDadj c ri wi].
Proof. reflexivity. Qed.

Lemma inc_lvl_spec : forall rs c ws s,
  NoDup rs -> NoDup ws -> ~ In c rs -> ~ In c ws -> (forall w, In w rs -> ~ In w ws) ->
  (length rs <= S (length ws))%nat -> zeroed s ws ->
  exists s', run (inc_lvl c rs ws) s = Some s' /\
    (forall i, ~ In i (tl rs) -> s' i = s i) /\
    val_le s' (tl rs) = (val_le s (tl rs) + b2z (s c && s (hd O rs))) mod 2 ^ Z.of_nat (length (tl rs)).
Proof.
  induction rs as [|ri rs' IH]; intros c ws s Hrs Hws Hcr Hcw Hd Hlen Hz.
  - exists s. cbn. repeat split; auto. now rewrite Z.mod_1_r.
  - destruct rs' as [|rn rs''].
    + exists s. cbn. repeat split; auto. now rewrite Z.mod_1_r.
    + destruct ws as [|wi ws']; [cbn in Hlen; lia|].
      (* disjointness facts *)
      inversion Hrs as [|? ? Hri Hrs']; subst. inversion Hrs' as [|? ? Hrn Hrs'']; subst.
      inversion Hws as [|? ? Hwi Hws']; subst.
      assert (Hcri : c <> ri) by (intro; subst; apply Hcr; now left).
      assert (Hcrn : c <> rn) by (intro; subst; apply Hcr; right; now left).
      assert (Hcwi : c <> wi) by (intro; subst; apply Hcw; now left).
      assert (Hriwi : ri <> wi) by (intro; subst; apply (Hd wi); now left).
      assert (Hrnwi : rn <> wi) by (intro; subst; apply (Hd wi); [right|]; now left).
      assert (Hrirn : ri <> rn) by (intro; subst; apply Hri; now left).
      assert (Hwirs : ~ In wi (rn :: rs'')) by (intro Hin; apply (Hd wi); [now right | now left]).
      assert (Hzwi : s wi = false) by (apply Hz; now left).
      set (s1 := upd s wi (s c && s ri)).
      assert (Hz1 : zeroed s1 ws').
      { intros w Hw. unfold s1. rewrite upd_other; [apply Hz; now right | intro; subst; contradiction]. }
      destruct (IH wi ws' s1 Hrs' Hws' Hwirs Hwi
                  ltac:(intros w Hw Hin; apply (Hd w); [now right | now right])
                  ltac:(cbn [length] in *; lia) Hz1) as (s2 & Hrun2 & Hfr2 & Hval2).
      cbn [tl hd length] in *.
      (* values read back from s2 *)
      assert (H2wi : s2 wi = (s c && s ri)).
      { rewrite Hfr2; [unfold s1; apply upd_same | intro Hin; apply Hwirs; now right]. }
      assert (H2c : s2 c = s c).
      { rewrite Hfr2; [unfold s1; now rewrite upd_other | intro Hin; apply Hcr; right; now right]. }
      assert (H2ri : s2 ri = s ri).
      { rewrite Hfr2; [unfold s1; now rewrite upd_other | intro Hin; apply Hri; now right]. }
      assert (H2rn : s2 rn = s rn).
      { rewrite Hfr2; [unfold s1; now rewrite upd_other | assumption]. }
      set (s3 := upd s2 rn (xorb (s2 rn) (s2 wi))).
      exists (upd s3 wi false). split; [|split].
      * rewrite inc_lvl_step. cbn [run]. unfold AND at 1. cbn [apply_gate]. rewrite Hzwi.
        cbn [ctrl_ok forallb fst snd]. rewrite !eqb_t, andb_true_r.
        fold s1. rewrite run_app, Hrun2.
        cbn [run apply_gate CNOT ANDadj ctrl_ok forallb fst snd]. rewrite !eqb_t, !andb_true_r. fold s3.
        assert (Hchk : xorb (s3 wi) (s3 c && s3 ri) = false).
        { unfold s3. rewrite !upd_other by auto. rewrite H2wi, H2c, H2ri. apply xorb_nilpotent. }
        rewrite Hchk. reflexivity.
      * intros i Hi. unfold upd at 1. destruct (Nat.eqb_spec i wi) as [->|Hiw]; [now rewrite Hzwi|].
        unfold s3. rewrite upd_other by (intro; subst; apply Hi; now left).
        rewrite Hfr2 by (intro Hin; apply Hi; now right). unfold s1. now rewrite upd_other.
      * cbn [val_le].
        assert (Hv4 : val_le (upd s3 wi false) rs'' = val_le s2 rs'').
        { apply val_le_ext. intros w Hw. rewrite upd_other by (intro; subst; apply Hwirs; now right).
          unfold s3. rewrite upd_other; [reflexivity | intro; subst; contradiction]. }
        assert (Hv1 : val_le s1 rs'' = val_le s rs'').
        { apply val_le_ext. intros w Hw. unfold s1. rewrite upd_other; [reflexivity | intro; subst; apply Hwirs; now right]. }
        rewrite Hv4, Hval2, Hv1. rewrite (upd_other _ wi _ rn Hrnwi). unfold s3. rewrite upd_same, H2rn, H2wi.
        assert (H1wi : s1 wi = (s c && s ri)) by (unfold s1; apply upd_same).
        assert (H1rn : s1 rn = s rn) by (unfold s1; now rewrite upd_other).
        rewrite H1wi, H1rn.
        rewrite Nat2Z.inj_succ, Z.pow_succ_r by lia.
        rewrite bit_mod by (try apply pow2_pos; apply b2z_range).
        f_equal. pose proof (half_adder (s rn) (s c && s ri)). lia.
Qed.

Lemma In_firstn_self : forall (l : list nat) n x, In x (firstn n l) -> In x l.
Proof.
  induction l as [|a l IH]; intros [|n] x H; cbn [firstn] in H; try contradiction.
  destruct H as [->|H]; [now left | right; eapply IH; eauto].
Qed.
Lemma NoDup_firstn : forall (l : list nat) n, NoDup l -> NoDup (firstn n l).
Proof.
  induction l as [|a l IH]; intros [|n] H; cbn [firstn]; try constructor.
  - inversion H; subst. intro Hin. apply In_firstn_self in Hin. contradiction.
  - inversion H; subst. now apply IH.
Qed.

Lemma val_le_firstn : forall l n s, val_le s (firstn n l) = val_le s l mod 2 ^ Z.of_nat n.
Proof.
  induction l as [|w l IH]; intros n s.
  - rewrite firstn_nil. cbn [val_le]. now rewrite Z.mod_0_l by (pose proof (pow2_pos n); lia).
  - destruct n as [|n]; cbn [firstn val_le]; [now rewrite Z.mod_1_r|].
    rewrite IH, Nat2Z.inj_succ, Z.pow_succ_r by lia.
    apply bit_mod; [apply pow2_pos | apply b2z_range].
Qed.

Lemma incrementer_le_spec : forall rs ws s,
  NoDup rs -> NoDup ws -> (forall w, In w rs -> ~ In w ws) ->
  (length rs <= S (length ws))%nat -> zeroed s ws ->
  exists s', run (inc_le rs ws) s = Some s' /\
    (forall i, ~ In i rs -> s' i = s i) /\
    val_le s' rs = (val_le s rs + 1) mod 2 ^ Z.of_nat (length rs).
Proof.
  intros rs ws s Hrs Hws Hd Hlen Hz.
  destruct rs as [|r0 rs']; [exists s; cbn; repeat split; auto|].
  destruct rs' as [|r1 rs''].
  - eexists; split; [reflexivity|]. split.
    + intros i Hi. rewrite upd_other; [reflexivity | intro; subst; apply Hi; now left].
    + cbn [val_le length ctrl_ok forallb]. rewrite upd_same. destruct (s r0); reflexivity.
  - inversion Hrs as [|? ? Hr0 Hrs']; subst.
    destruct (inc_lvl_spec (r1 :: rs'') r0 ws s Hrs' Hws Hr0
                ltac:(apply Hd; now left)
                ltac:(intros w Hw; apply Hd; now right)
                ltac:(cbn [length] in *; lia) Hz) as (s2 & Hrun & Hfr & Hval).
    cbn [tl hd length] in *.
    inversion Hrs' as [|? ? Hr1 Hrs'']; subst.
    assert (H01 : r0 <> r1) by (intro; subst; apply Hr0; now left).
    assert (H2r0 : s2 r0 = s r0) by (apply Hfr; intro; apply Hr0; now right).
    assert (H2r1 : s2 r1 = s r1) by (apply Hfr; assumption).
    set (s3 := upd s2 r1 (xorb (s2 r1) (s2 r0))).
    exists (upd s3 r0 (xorb (s3 r0) true)). split; [|split].
    + unfold inc_le. rewrite run_app, Hrun.
      cbn [run apply_gate CNOT XG ctrl_ok forallb fst snd]. rewrite eqb_t, andb_true_r. reflexivity.
    + intros i Hi. rewrite upd_other by (intro; subst; apply Hi; now left).
      unfold s3. rewrite upd_other by (intro; subst; apply Hi; right; now left).
      apply Hfr. intro; apply Hi; right; now right.
    + cbn [val_le]. rewrite upd_same, (upd_other _ r0 _ r1 (not_eq_sym H01)).
      unfold s3 at 1 2. rewrite (upd_other _ r1 _ r0 H01), upd_same, H2r0, H2r1.
      assert (Hv : val_le (upd s3 r0 (xorb (s3 r0) true)) rs'' = val_le s2 rs'').
      { apply val_le_ext. intros w Hw. rewrite upd_other by (intro; subst; apply Hr0; now right).
        unfold s3. rewrite upd_other; [reflexivity | intro; subst; contradiction]. }
      rewrite Hv, Hval.
      rewrite !Nat2Z.inj_succ, !Z.pow_succ_r by lia.
      rewrite bit_mod by (try apply pow2_pos; apply b2z_range).
      rewrite bit_mod by (try (pose proof (pow2_pos (length rs'')); lia); apply b2z_range).
      f_equal. pose proof (half_adder (s r1) (s r0)). rewrite andb_comm in H.
      destruct (s r0), (s r1); cbn [b2z xorb andb] in *; lia.
Qed.

(* ------------------------------------------------------------------ SemiAdder (ripple carry with elbows) *)
Lemma adder_body_step_x : forall c xi xs yi yn ys wi ws,
  adder_body c (xi :: xs) (yi :: yn :: ys) (wi :: ws) =
  [CNOT c xi; CNOT c yi; AND xi yi wi; CNOT c wi] ++ adder_body wi xs (yn :: ys) ws
  ++ [CNOT c wi; ANDadj xi yi wi; CNOT c xi; CNOT xi yi].
Proof. reflexivity. Qed.
Lemma adder_body_step_0 : forall c yi yn ys wi ws,
  adder_body c [] (yi :: yn :: ys) (wi :: ws) =
  [AND c yi wi] ++ adder_body wi [] (yn :: ys) ws ++ [ANDadj c yi wi; CNOT c yi].
Proof. reflexivity. Qed.

Ltac notin_solve :=
  match goal with
  | |- ?a <> ?b => intro; subst; eauto 6 with datatypes
  | |- ~ In _ _ => intro; eauto 6 with datatypes
  end.

Lemma adder_body_spec : forall ys c xs ws s,
  NoDup xs -> NoDup ys -> NoDup ws ->
  ~ In c xs -> ~ In c ys -> ~ In c ws ->
  (forall w, In w xs -> ~ In w ys) -> (forall w, In w xs -> ~ In w ws) -> (forall w, In w ys -> ~ In w ws) ->
  (length ys <= S (length ws))%nat -> zeroed s ws ->
  exists s', run (adder_body c xs ys ws) s = Some s' /\
    (forall i, ~ In i ys -> s' i = s i) /\
    val_le s' ys = (val_le s (firstn (length ys) xs) + val_le s ys + b2z (s c)) mod 2 ^ Z.of_nat (length ys).
Proof.
  induction ys as [|yi ys' IH]; intros c xs ws s Hxs Hys Hws Hcx Hcy Hcw Hxy Hxw Hyw Hlen Hz.
  - exists s. cbn. repeat split; auto. now rewrite Z.mod_1_r.
  - destruct ys' as [|yn ys''].
    + (* most significant bit *)
      assert (Hcyi : c <> yi) by (intro; subst; apply Hcy; now left).
      destruct xs as [|xt xs'].
      * eexists; split; [reflexivity|]. split.
        -- intros i Hi. rewrite upd_other; [reflexivity | intro; subst; apply Hi; now left].
        -- cbn [val_le length firstn ctrl_ok forallb fst snd]. rewrite upd_same, eqb_t, andb_true_r.
           destruct (s yi), (s c); reflexivity.
      * assert (Hxtyi : xt <> yi) by (intro; subst; apply (Hxy yi); now left).
        eexists; split; [reflexivity|]. split.
        -- intros i Hi. rewrite !upd_other; try reflexivity; intro; subst; apply Hi; now left.
        -- cbn [val_le length firstn ctrl_ok forallb fst snd].
           rewrite upd_same, !eqb_t, !andb_true_r, upd_same, (upd_other _ yi _ xt Hxtyi).
           destruct (s yi), (s c), (s xt); reflexivity.
    + destruct ws as [|wi ws']; [cbn in Hlen; lia|].
      inversion Hys as [|? ? Hyi Hys']; subst. inversion Hws as [|? ? Hwi Hws']; subst.
      assert (Hcyi : c <> yi) by (intro; subst; apply Hcy; now left).
      assert (Hcwi : c <> wi) by (intro; subst; apply Hcw; now left).
      assert (Hyiwi : yi <> wi) by (intro; subst; apply (Hyw wi); now left).
      assert (Hwiys : ~ In wi (yn :: ys'')) by (intro Hin; apply (Hyw wi); [now right | now left]).
      assert (Hcys : ~ In c (yn :: ys'')) by (intro Hin; apply Hcy; now right).
      assert (Hzwi : s wi = false) by (apply Hz; now left).
      destruct xs as [|xi xs'].
      * (* no bit of x left: propagate the carry *)
        set (s1 := upd s wi (s c && s yi)).
        assert (Hz1 : zeroed s1 ws').
        { intros w Hw. unfold s1. rewrite upd_other; [apply Hz; now right | intro; subst; contradiction]. }
        destruct (IH wi [] ws' s1 ltac:(constructor) Hys' Hws' ltac:(intros []) Hwiys Hwi
                    ltac:(intros ? []) ltac:(intros ? [])
                    ltac:(intros w Hw Hin; apply (Hyw w); now right)
                    ltac:(cbn [length] in *; lia) Hz1) as (s2 & Hrun2 & Hfr2 & Hval2).
        assert (H2wi : s2 wi = (s c && s yi)) by (rewrite Hfr2 by assumption; unfold s1; apply upd_same).
        assert (H2c : s2 c = s c) by (rewrite Hfr2 by assumption; unfold s1; now rewrite upd_other).
        assert (H2yi : s2 yi = s yi) by (rewrite Hfr2 by assumption; unfold s1; now rewrite upd_other).
        set (sf := upd s2 wi false).
        exists (upd sf yi (xorb (sf yi) (sf c))). split; [|split].
        -- rewrite adder_body_step_0. cbn [app run]. unfold AND at 1. cbn [apply_gate]. rewrite Hzwi.
           cbn [ctrl_ok forallb fst snd]. rewrite !eqb_t, andb_true_r. fold s1. rewrite run_app, Hrun2.
           cbn [run apply_gate CNOT ANDadj ctrl_ok forallb fst snd]. rewrite !eqb_t, !andb_true_r.
           rewrite H2wi, H2c, H2yi, xorb_nilpotent.
           cbn [run apply_gate CNOT ctrl_ok forallb fst snd]. rewrite ?eqb_t, ?andb_true_r. reflexivity.
        -- intros i Hi. rewrite upd_other by (intro; subst; apply Hi; now left).
           unfold sf, upd at 1. destruct (Nat.eqb_spec i wi) as [->|Hiw]; [now rewrite Hzwi|].
           rewrite Hfr2 by (intro Hin; apply Hi; now right). unfold s1. now rewrite upd_other.
        -- remember (yn :: ys'') as ys' eqn:Eys in *.
           cbn [length firstn val_le]. rewrite firstn_nil in Hval2. cbn [val_le] in Hval2.
           assert (Hv : val_le (upd sf yi (xorb (sf yi) (sf c))) ys' = val_le s2 ys').
           { apply val_le_ext. intros w Hw. rewrite upd_other by (intro; subst; contradiction).
             unfold sf. rewrite upd_other; [reflexivity | intro; subst; contradiction]. }
           assert (Hv1 : val_le s1 ys' = val_le s ys').
           { apply val_le_ext. intros w Hw. unfold s1. rewrite upd_other; [reflexivity | intro; subst; contradiction]. }
           rewrite Hv, Hval2, Hv1, upd_same. unfold sf. rewrite !upd_other by auto. rewrite H2yi, H2c.
           unfold s1 at 1. rewrite upd_same.
           rewrite Nat2Z.inj_succ, Z.pow_succ_r by lia.
           rewrite bit_mod by (try apply pow2_pos; apply b2z_range).
           f_equal. pose proof (half_adder (s yi) (s c)). lia.
      * (* full adder block *)
        inversion Hxs as [|? ? Hxi Hxs']; subst.
        assert (Hcxi : c <> xi) by (intro; subst; apply Hcx; now left).
        assert (Hxiyi : xi <> yi) by (intro; subst; apply (Hxy yi); now left).
        assert (Hxiwi : xi <> wi) by (intro; subst; apply (Hxw wi); now left).
        assert (Hxiys : ~ In xi (yn :: ys'')) by (intro Hin; apply (Hxy xi); [now left | now right]).
        set (sa := upd s xi (xorb (s xi) (s c))).
        set (sb := upd sa yi (xorb (sa yi) (sa c))).
        set (sc := upd sb wi (sb xi && sb yi)).
        set (s1 := upd sc wi (xorb (sc wi) (sc c))).
        assert (E1 : forall w, w <> xi -> w <> yi -> w <> wi -> s1 w = s w).
        { intros w H1 H2 H3. unfold s1, sc, sb, sa. now rewrite !upd_other. }
        assert (H1xi : s1 xi = xorb (s xi) (s c)).
        { unfold s1, sc, sb, sa. rewrite !upd_other by auto. apply upd_same. }
        assert (Hbyi : sb yi = xorb (s yi) (s c)).
        { unfold sb, sa. rewrite upd_same, !upd_other by auto. reflexivity. }
        assert (H1yi : s1 yi = xorb (s yi) (s c)).
        { unfold s1, sc. rewrite !upd_other by auto. exact Hbyi. }
        assert (Hbxi : sb xi = xorb (s xi) (s c)).
        { unfold sb, sa. rewrite upd_other by auto. apply upd_same. }
        assert (Hbc : sb c = s c) by (unfold sb, sa; now rewrite !upd_other).
        assert (H1wi : s1 wi = xorb (xorb (s xi) (s c) && xorb (s yi) (s c)) (s c)).
        { unfold s1. rewrite upd_same. unfold sc. rewrite upd_same, upd_other by auto. now rewrite Hbxi, Hbyi, Hbc. }
        assert (H1c : s1 c = s c) by (apply E1; auto).
        assert (Hz1 : zeroed s1 ws').
        { intros w Hw. rewrite E1; [apply Hz; now right | | |]; intro; subst.
          - apply (Hxw xi); [now left | now right].
          - apply (Hyw yi); [now left | now right].
          - contradiction. }
        destruct (IH wi xs' ws' s1 Hxs' Hys' Hws'
                    ltac:(intro Hin; apply (Hxw wi); [now right | now left]) Hwiys Hwi
                    ltac:(intros w Hw Hin; apply (Hxy w); now right)
                    ltac:(intros w Hw Hin; apply (Hxw w); now right)
                    ltac:(intros w Hw Hin; apply (Hyw w); now right)
                    ltac:(cbn [length] in *; lia) Hz1) as (s2 & Hrun2 & Hfr2 & Hval2).
        assert (H2wi : s2 wi = s1 wi) by (apply Hfr2; assumption).
        assert (H2c : s2 c = s c) by (rewrite Hfr2 by assumption; exact H1c).
        assert (H2xi : s2 xi = xorb (s xi) (s c)) by (rewrite Hfr2 by assumption; exact H1xi).
        assert (H2yi : s2 yi = xorb (s yi) (s c)) by (rewrite Hfr2 by assumption; exact H1yi).
        set (se := upd s2 wi (xorb (s2 wi) (s2 c))).
        set (sf := upd se wi false).
        set (sg := upd sf xi (xorb (sf xi) (sf c))).
        exists (upd sg yi (xorb (sg yi) (sg xi))).
        assert (Hgxi : sg xi = s xi).
        { unfold sg. rewrite upd_same. unfold sf, se. rewrite !upd_other by auto. rewrite H2xi, H2c.
          destruct (s xi), (s c); reflexivity. }
        assert (Hgyi : sg yi = xorb (s yi) (s c)).
        { unfold sg, sf, se. rewrite !upd_other by auto. exact H2yi. }
        split; [|split].
        -- rewrite adder_body_step_x. cbn [app run]. unfold CNOT at 1 2. cbn [apply_gate].
           cbn [ctrl_ok forallb fst snd]. rewrite !eqb_t, !andb_true_r. fold sa. fold sb.
           unfold AND at 1. cbn [apply_gate].
           assert (Hbwi : sb wi = false) by (unfold sb, sa; rewrite !upd_other by auto; exact Hzwi).
           rewrite Hbwi. cbn [ctrl_ok forallb fst snd]. rewrite !eqb_t, !andb_true_r. fold sc.
           unfold CNOT at 1. cbn [apply_gate ctrl_ok forallb fst snd]. rewrite !eqb_t, !andb_true_r. fold s1.
           rewrite run_app, Hrun2.
           cbn [run apply_gate CNOT ANDadj ctrl_ok forallb fst snd]. rewrite !eqb_t, !andb_true_r.
           fold se.
           assert (Hchk : xorb (se wi) (se xi && se yi) = false).
           { unfold se. rewrite upd_same, !upd_other by auto. rewrite H2wi, H1wi, H2c, H2xi, H2yi.
             destruct (s xi), (s yi), (s c); reflexivity. }
           rewrite Hchk.
           cbn [run apply_gate CNOT ctrl_ok forallb fst snd]. rewrite ?eqb_t, ?andb_true_r. reflexivity.
        -- intros i Hi. rewrite upd_other by (intro; subst; apply Hi; now left).
           destruct (Nat.eq_dec i xi) as [->|Hix]; [exact Hgxi|].
           unfold sg. rewrite upd_other by assumption.
           unfold sf, upd at 1. destruct (Nat.eqb_spec i wi) as [->|Hiw]; [now rewrite Hzwi|].
           unfold se. rewrite upd_other by assumption.
           rewrite Hfr2 by (intro Hin; apply Hi; now right).
           apply E1; auto. intro; subst; apply Hi; now left.
        -- remember (yn :: ys'') as ys' eqn:Eys in *.
           cbn [length firstn val_le].
           assert (Hv : val_le (upd sg yi (xorb (sg yi) (sg xi))) ys' = val_le s2 ys').
           { apply val_le_ext. intros w Hw. rewrite upd_other by (intro; subst; contradiction).
             unfold sg, sf, se. rewrite !upd_other; try reflexivity; intro; subst; contradiction. }
           assert (Hv1 : val_le s1 ys' = val_le s ys').
           { apply val_le_ext. intros w Hw. apply E1; intro; subst; contradiction. }
           assert (Hv1x : val_le s1 (firstn (length ys') xs') = val_le s (firstn (length ys') xs')).
           { apply val_le_ext. intros w Hw. apply In_firstn_self in Hw. apply E1; intro; subst; try contradiction.
             - apply (Hxy yi); [now right | now left].
             - apply (Hxw wi); [now right | now left]. }
           rewrite Hv, Hval2, Hv1, Hv1x, upd_same, Hgyi, Hgxi, H1wi.
           rewrite Nat2Z.inj_succ, Z.pow_succ_r by lia.
           rewrite bit_mod by (try apply pow2_pos; apply b2z_range).
           f_equal. pose proof (full_adder (s xi) (s yi) (s c)).
           destruct (s xi), (s yi), (s c); cbn [b2z xorb andb] in *; lia.
Qed.

Lemma adder_le_spec : forall xs ys ws s,
  NoDup xs -> NoDup ys -> NoDup ws ->
  (forall w, In w xs -> ~ In w ys) -> (forall w, In w xs -> ~ In w ws) -> (forall w, In w ys -> ~ In w ws) ->
  xs <> [] -> (length ys <= S (length ws))%nat -> zeroed s ws ->
  exists s', run (adder_le xs ys ws) s = Some s' /\
    (forall i, ~ In i ys -> s' i = s i) /\
    val_le s' ys = (val_le s (firstn (length ys) xs) + val_le s ys) mod 2 ^ Z.of_nat (length ys).
Proof.
  intros xs ys ws s Hxs Hys Hws Hxy Hxw Hyw Hne Hlen Hz.
  destruct xs as [|x0 xs']; [congruence|]. clear Hne.
  destruct ys as [|y0 ys'].
  { exists s. cbn. repeat split; auto. }
  assert (Hx0y0 : x0 <> y0) by (intro; subst; apply (Hxy y0); now left).
  destruct ys' as [|y1 ys''].
  - eexists; split; [reflexivity|]. split.
    + intros i Hi. rewrite upd_other; [reflexivity | intro; subst; apply Hi; now left].
    + cbn [val_le length firstn ctrl_ok forallb fst snd]. rewrite upd_same, eqb_t, andb_true_r.
      destruct (s y0), (s x0); reflexivity.
  - destruct ws as [|w0 ws']; [cbn in Hlen; lia|].
    inversion Hxs as [|? ? Hx0 Hxs']; subst. inversion Hys as [|? ? Hy0 Hys']; subst.
    inversion Hws as [|? ? Hw0 Hws']; subst.
    assert (Hx0w0 : x0 <> w0) by (intro; subst; apply (Hxw w0); now left).
    assert (Hy0w0 : y0 <> w0) by (intro; subst; apply (Hyw w0); now left).
    assert (Hw0ys : ~ In w0 (y1 :: ys'')) by (intro Hin; apply (Hyw w0); [now right | now left]).
    assert (Hw0xs : ~ In w0 xs') by (intro Hin; apply (Hxw w0); [now right | now left]).
    assert (Hzw0 : s w0 = false) by (apply Hz; now left).
    set (s1 := upd s w0 (s x0 && s y0)).
    assert (Hz1 : zeroed s1 ws').
    { intros w Hw. unfold s1. rewrite upd_other; [apply Hz; now right | intro; subst; contradiction]. }
    destruct (adder_body_spec (y1 :: ys'') w0 xs' ws' s1 Hxs' Hys' Hws' Hw0xs Hw0ys Hw0
                ltac:(intros w Hw Hin; apply (Hxy w); now right)
                ltac:(intros w Hw Hin; apply (Hxw w); now right)
                ltac:(intros w Hw Hin; apply (Hyw w); now right)
                ltac:(cbn [length] in *; lia) Hz1) as (s2 & Hrun2 & Hfr2 & Hval2).
    assert (H2w0 : s2 w0 = (s x0 && s y0)) by (rewrite Hfr2 by assumption; unfold s1; apply upd_same).
    assert (H2x0 : s2 x0 = s x0).
    { rewrite Hfr2 by (intro Hin; apply (Hxy x0); [now left | now right]). unfold s1. now rewrite upd_other. }
    assert (H2y0 : s2 y0 = s y0) by (rewrite Hfr2 by assumption; unfold s1; now rewrite upd_other).
    set (sf := upd s2 w0 false).
    exists (upd sf y0 (xorb (sf y0) (sf x0))). split; [|split].
    + unfold adder_le. cbn [app run]. unfold AND at 1. cbn [apply_gate]. rewrite Hzw0.
      cbn [ctrl_ok forallb fst snd]. rewrite !eqb_t, andb_true_r. fold s1. rewrite run_app, Hrun2.
      cbn [run apply_gate ANDadj ctrl_ok forallb fst snd]. rewrite !eqb_t, !andb_true_r.
      rewrite H2w0, H2x0, H2y0, xorb_nilpotent.
      cbn [run apply_gate CNOT ctrl_ok forallb fst snd]. rewrite ?eqb_t, ?andb_true_r. reflexivity.
    + intros i Hi. rewrite upd_other by (intro; subst; apply Hi; now left).
      unfold sf, upd at 1. destruct (Nat.eqb_spec i w0) as [->|Hiw]; [now rewrite Hzw0|].
      rewrite Hfr2 by (intro Hin; apply Hi; now right). unfold s1. now rewrite upd_other.
    + remember (y1 :: ys'') as ys' eqn:Eys in *.
      cbn [length firstn val_le].
      assert (Hv : val_le (upd sf y0 (xorb (sf y0) (sf x0))) ys' = val_le s2 ys').
      { apply val_le_ext. intros w Hw. rewrite upd_other by (intro; subst; contradiction).
        unfold sf. rewrite upd_other; [reflexivity | intro; subst; contradiction]. }
      assert (Hv1 : val_le s1 ys' = val_le s ys').
      { apply val_le_ext. intros w Hw. unfold s1. rewrite upd_other; [reflexivity | intro; subst; contradiction]. }
      assert (Hv1x : val_le s1 (firstn (length ys') xs') = val_le s (firstn (length ys') xs')).
      { apply val_le_ext. intros w Hw. apply In_firstn_self in Hw. unfold s1.
        rewrite upd_other; [reflexivity | intro; subst; contradiction]. }
      rewrite Hv, Hval2, Hv1, Hv1x, upd_same. unfold sf. rewrite !upd_other by auto. rewrite H2y0, H2x0.
      unfold s1 at 1. rewrite upd_same.
      rewrite Nat2Z.inj_succ, Z.pow_succ_r by lia.
      rewrite bit_mod by (try apply pow2_pos; apply b2z_range).
      f_equal. pose proof (half_adder (s y0) (s x0)). lia.
Qed.

(* big-endian registers, arbitrary wire layout *)
Lemma semi_adder_spec : forall xw yw ww s,
  NoDup (xw ++ yw ++ ww) -> xw <> [] -> (length yw <= S (length ww))%nat -> zeroed s ww ->
  exists s', run (semi_adder xw yw ww) s = Some s' /\
    (forall i, ~ In i yw -> s' i = s i) /\
    val_be s' yw = (val_be s xw + val_be s yw) mod 2 ^ Z.of_nat (length yw).
Proof.
  intros xw yw ww s Hnd Hne Hlen Hz.
  destruct (NoDup_app_inv _ _ Hnd) as (Hx & Hyw & Hxd).
  destruct (NoDup_app_inv _ _ Hyw) as (Hy & Hw & Hyd).
  set (ws := rev (firstn (length yw - 1) ww)).
  assert (Hin_ws : forall w, In w ws -> In w ww).
  { intros w Hin. unfold ws in Hin. apply in_rev in Hin. now apply In_firstn_self in Hin. }
  destruct (adder_le_spec (rev xw) (rev yw) ws s) as (s' & Hrun & Hfr & Hval).
  - now apply NoDup_rev.
  - now apply NoDup_rev.
  - unfold ws. apply NoDup_rev. now apply NoDup_firstn.
  - intros w Hx' Hy'. apply in_rev in Hx'. apply in_rev in Hy'. apply (Hxd w Hx'), in_or_app. now left.
  - intros w Hx' Hw'. apply in_rev in Hx'. apply Hin_ws in Hw'. apply (Hxd w Hx'), in_or_app. now right.
  - intros w Hy' Hw'. apply in_rev in Hy'. apply Hin_ws in Hw'. exact (Hyd w Hy' Hw').
  - intro E. apply Hne. apply (f_equal (@rev nat)) in E. now rewrite rev_involutive in E.
  - unfold ws. rewrite !rev_length, firstn_length. lia.
  - intros w Hin. apply Hz. now apply Hin_ws.
  - exists s'. split; [exact Hrun|]. split.
    + intros i Hi. apply Hfr. intro Hin. apply Hi. now apply in_rev.
    + unfold val_be. rewrite Hval, rev_length, val_le_firstn, Z.add_mod_idemp_l; [reflexivity|].
      pose proof (pow2_pos (length yw)); lia.
Qed.

Lemma incrementer_spec : forall wires work s,
  NoDup (wires ++ work) -> (length wires <= S (length work))%nat -> zeroed s work ->
  exists s', run (incrementer wires work) s = Some s' /\
    (forall i, ~ In i wires -> s' i = s i) /\
    val_be s' wires = (val_be s wires + 1) mod 2 ^ Z.of_nat (length wires).
Proof.
  intros wires work s Hnd Hlen Hz.
  destruct (NoDup_app_inv _ _ Hnd) as (Hx & Hw & Hd).
  destruct (incrementer_le_spec (rev wires) work s) as (s' & Hrun & Hfr & Hval).
  - now apply NoDup_rev.
  - assumption.
  - intros w Hin. apply Hd. now apply in_rev.
  - now rewrite rev_length.
  - assumption.
  - exists s'. split; [exact Hrun|]. split.
    + intros i Hi. apply Hfr. intro Hin. apply Hi. now apply in_rev.
    + unfold val_be. now rewrite Hval, rev_length.
Qed.

(* ------------------------------------------------------------------ Incrementer fallback (MCX ladder) *)
Lemma ctrl_ok_ones_ext : forall l s t, (forall w, In w l -> s w = t w) -> ctrl_ok s (ones l) = ctrl_ok t (ones l).
Proof.
  induction l as [|a l IH]; intros s t H; cbn [ones map ctrl_ok forallb fst snd]; [reflexivity|].
  rewrite (H a (or_introl eq_refl)). f_equal. apply IH. intros; apply H; now right.
Qed.
Lemma ctrl_ok_ones_snoc : forall l a s, ctrl_ok s (ones (l ++ [a])) = ctrl_ok s (ones l) && s a.
Proof.
  induction l as [|b l IH]; intros a s; cbn [app ones map ctrl_ok forallb fst snd].
  - now rewrite eqb_t, andb_true_r.
  - unfold ctrl_ok, ones in IH. rewrite IH. now rewrite andb_assoc.
Qed.

Lemma mcx_ladder_spec : forall rest pref s,
  NoDup rest -> (forall w, In w pref -> ~ In w rest) ->
  exists s', run (mcx_ladder pref rest) s = Some s' /\
    (forall i, ~ In i rest -> s' i = s i) /\
    val_le s' rest = (val_le s rest + b2z (ctrl_ok s (ones pref))) mod 2 ^ Z.of_nat (length rest).
Proof.
  induction rest as [|t rest' IH]; intros pref s Hnd Hd.
  - exists s. cbn. repeat split; auto. now rewrite Z.mod_1_r.
  - inversion Hnd as [|? ? Ht Hnd']; subst.
    destruct (IH (pref ++ [t]) s Hnd') as (s2 & Hrun & Hfr & Hval).
    { intros w Hw Hin. apply in_app_or in Hw. destruct Hw as [Hw|[<-|[]]]; [apply (Hd w Hw); now right | contradiction]. }
    assert (H2t : s2 t = s t) by (apply Hfr; assumption).
    assert (Hc2 : ctrl_ok s2 (ones pref) = ctrl_ok s (ones pref)).
    { apply ctrl_ok_ones_ext. intros w Hw. apply Hfr. intro Hin. apply (Hd w Hw). now right. }
    exists (upd s2 t (xorb (s2 t) (ctrl_ok s2 (ones pref)))). split; [|split].
    + cbn [mcx_ladder]. rewrite run_app, Hrun. reflexivity.
    + intros i Hi. rewrite upd_other by (intro; subst; apply Hi; now left).
      apply Hfr. intro; apply Hi; now right.
    + cbn [val_le length]. rewrite upd_same, H2t, Hc2.
      assert (Hv : val_le (upd s2 t (xorb (s t) (ctrl_ok s (ones pref)))) rest' = val_le s2 rest').
      { apply val_le_ext. intros w Hw. rewrite upd_other; [reflexivity | intro; subst; contradiction]. }
      rewrite Hv, Hval, ctrl_ok_ones_snoc.
      rewrite Nat2Z.inj_succ, Z.pow_succ_r by lia.
      rewrite bit_mod by (try apply pow2_pos; apply b2z_range).
      f_equal. pose proof (half_adder (s t) (ctrl_ok s (ones pref))). lia.
Qed.

Lemma incrementer_fallback_spec : forall wires s, NoDup wires ->
  exists s', run (incrementer_fallback wires) s = Some s' /\
    (forall i, ~ In i wires -> s' i = s i) /\
    val_be s' wires = (val_be s wires + 1) mod 2 ^ Z.of_nat (length wires).
Proof.
  intros wires s Hnd. unfold incrementer_fallback, val_be.
  rewrite <- (rev_length wires).
  assert (Hin : forall i, ~ In i wires -> ~ In i (rev wires)) by (intros i Hi Hr; apply Hi; now apply in_rev).
  apply NoDup_rev in Hnd. revert Hnd Hin. generalize (rev wires) as r. intros r Hnd Hin.
  destruct r as [|r0 rs].
  - exists s. cbn. repeat split; auto.
  - inversion Hnd as [|? ? Hr0 Hnd']; subst.
    destruct (mcx_ladder_spec rs [r0] s Hnd') as (s2 & Hrun & Hfr & Hval).
    { intros w [<-|[]]. assumption. }
    assert (H2 : s2 r0 = s r0) by (apply Hfr; assumption).
    exists (upd s2 r0 (xorb (s2 r0) true)). split; [|split].
    + unfold inc_fallback_le. rewrite run_app, Hrun. reflexivity.
    + intros i Hi. apply Hin in Hi. rewrite upd_other by (intro; subst; apply Hi; now left).
      apply Hfr. intro; apply Hi; now right.
    + cbn [val_le length]. rewrite upd_same, H2.
      assert (Hv : val_le (upd s2 r0 (xorb (s r0) true)) rs = val_le s2 rs).
      { apply val_le_ext. intros w Hw. rewrite upd_other; [reflexivity | intro; subst; contradiction]. }
      rewrite Hv, Hval. cbn [ones map ctrl_ok forallb fst snd]. rewrite eqb_t, andb_true_r.
      rewrite Nat2Z.inj_succ, Z.pow_succ_r by lia.
      rewrite bit_mod by (try apply pow2_pos; apply b2z_range).
      f_equal. destruct (s r0); cbn [b2z xorb]; lia.
Qed.

(* IntegerComparator: canonical layout (control wires 0..n-1, target n), every n <= 4, every value 0..2^n+1,
   both polarities, every basis input: finite domain, decided by evaluation *)
Definition cmp_inputs_ok (n : nat) (L : Z) (geq : bool) : bool :=
  forallb (fun x =>
    forallb (fun t =>
      match run (comparator L geq (seq 0 n) n) (set_be (upd zero_st n t) (seq 0 n) x) with
      | None => false
      | Some s' => Z.eqb (val_be s' (seq 0 n)) x &&
                   Bool.eqb (s' n) (xorb t (if geq then L <=? x else x <? L))
      end) [false; true])
    (map Z.of_nat (seq 0 (2 ^ n))).
Definition cmp_all_ok (nmax : nat) : bool :=
  forallb (fun n => forallb (fun L => cmp_inputs_ok n L true && cmp_inputs_ok n L false)
                            (map Z.of_nat (seq 0 (2 ^ n + 2)))) (seq 1 nmax).
Lemma comparator_upto4 : cmp_all_ok 4 = true.
Proof. vm_compute. reflexivity. Qed.

(* x register and work wires come back unchanged *)
Lemma semi_adder_restores : forall xw yw ww s,
  NoDup (xw ++ yw ++ ww) -> xw <> [] -> (length yw <= S (length ww))%nat -> zeroed s ww ->
  exists s', run (semi_adder xw yw ww) s = Some s' /\ zeroed s' ww /\ val_be s' xw = val_be s xw.
Proof.
  intros xw yw ww s Hnd Hne Hlen Hz.
  destruct (semi_adder_spec xw yw ww s Hnd Hne Hlen Hz) as (s' & Hrun & Hfr & _).
  destruct (NoDup_app_inv _ _ Hnd) as (_ & Hyw & Hxd).
  destruct (NoDup_app_inv _ _ Hyw) as (_ & _ & Hyd).
  exists s'. split; [exact Hrun|]. split.
  - intros w Hw. rewrite Hfr; [now apply Hz | intro Hy; exact (Hyd w Hy Hw)].
  - unfold val_be. apply val_le_ext. intros w Hw. apply in_rev in Hw.
    apply Hfr. intro Hy. apply (Hxd w Hw), in_or_app. now left.
Qed.

Lemma incrementer_restores : forall wires work s,
  NoDup (wires ++ work) -> (length wires <= S (length work))%nat -> zeroed s work ->
  exists s', run (incrementer wires work) s = Some s' /\ zeroed s' work.
Proof.
  intros wires work s Hnd Hlen Hz.
  destruct (incrementer_spec wires work s Hnd Hlen Hz) as (s' & Hrun & Hfr & _).
  destruct (NoDup_app_inv _ _ Hnd) as (_ & _ & Hd).
  exists s'. split; [exact Hrun|]. intros w Hw. rewrite Hfr; [now apply Hz | intro Hx; exact (Hd w Hx Hw)].
Qed.
