(* C56: lemmas about the classical reversible model (Disc/ArithModel.v). *)
From Coq Require Import List ZArith Bool Lia.
From PLV Require Import Disc.ArithModel.
Import ListNotations.
Open Scope Z_scope.

Lemma upd_same : forall s i b, upd s i b i = b.
Proof. intros; unfold upd; now rewrite Nat.eqb_refl. Qed.
Lemma upd_other : forall s i b j, j <> i -> upd s i b j = s j.
Proof. intros s i b j H; unfold upd. destruct (Nat.eqb j i) eqn:E; [apply Nat.eqb_eq in E; contradiction | reflexivity]. Qed.
