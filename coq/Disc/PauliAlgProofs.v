(* Lemmas about the Pauli-algebra model (Disc/PauliAlgModel.v). *)
From Coq Require Import List ZArith Bool Lia Ring Permutation.
From PLV Require Import Disc.PauliAlgModel.
Import ListNotations.
Open Scope Z_scope.

(* ================================================================== Gaussian integers form a ring *)
Ltac gz := intros; repeat match goal with x : GZ |- _ => destruct x end;
           unfold csub, cadd, cmul, cneg, c0, c1; cbn [fst snd]; f_equal; ring.

Lemma cadd_comm x y : cadd x y = cadd y x. Proof. gz. Qed.
Lemma cadd_assoc x y z : cadd x (cadd y z) = cadd (cadd x y) z. Proof. gz. Qed.
Lemma cadd_0_l x : cadd c0 x = x. Proof. gz. Qed.
Lemma cadd_0_r x : cadd x c0 = x. Proof. gz. Qed.
Lemma cmul_comm x y : cmul x y = cmul y x. Proof. gz. Qed.
Lemma cmul_assoc x y z : cmul x (cmul y z) = cmul (cmul x y) z. Proof. gz. Qed.
Lemma cmul_1_l x : cmul c1 x = x. Proof. gz. Qed.
Lemma cmul_0_l x : cmul c0 x = c0. Proof. gz. Qed.
Lemma cmul_0_r x : cmul x c0 = c0. Proof. gz. Qed.
Lemma cmul_add_l x y z : cmul (cadd x y) z = cadd (cmul x z) (cmul y z). Proof. gz. Qed.
Lemma cmul_add_r x y z : cmul x (cadd y z) = cadd (cmul x y) (cmul x z). Proof. gz. Qed.
Lemma csub_def x y : csub x y = cadd x (cneg y). Proof. reflexivity. Qed.
Lemma cadd_neg x : cadd x (cneg x) = c0. Proof. gz. Qed.

Definition gz_ring : ring_theory c0 c1 cadd cmul csub cneg (@eq GZ).
Proof.
  constructor.
  - exact cadd_0_l. - exact cadd_comm. - exact cadd_assoc. - exact cmul_1_l. - exact cmul_comm.
  - exact cmul_assoc. - exact cmul_add_l. - exact csub_def. - exact cadd_neg.
Qed.
Add Ring GZring : gz_ring.

Lemma ceqb_eq x y : ceqb x y = true <-> x = y.
Proof.
  destruct x as [a b], y as [c d]; unfold ceqb; cbn [fst snd]. rewrite andb_true_iff, !Z.eqb_eq.
  split; [intros [-> ->]; reflexivity | intros H; inversion H; auto].
Qed.

Lemma iph_mod k : iph k = iph (k mod 4).
Proof. unfold iph. rewrite Z.mod_mod by lia. reflexivity. Qed.

Lemma iph_add a b : iph (a + b) = cmul (iph a) (iph b).
Proof.
  unfold iph. rewrite Zplus_mod.
  pose proof (Z.mod_pos_bound a 4 ltac:(lia)) as Ha. pose proof (Z.mod_pos_bound b 4 ltac:(lia)) as Hb.
  set (x := a mod 4) in *. set (y := b mod 4) in *.
  assert (Hx : x = 0 \/ x = 1 \/ x = 2 \/ x = 3) by lia.
  assert (Hy : y = 0 \/ y = 1 \/ y = 2 \/ y = 3) by lia.
  destruct Hx as [-> | [-> | [-> | ->]]], Hy as [-> | [-> | [-> | ->]]]; reflexivity.
Qed.

Lemma iph_0 : iph 0 = c1. Proof. reflexivity. Qed.

(* ================================================================== sums *)
Lemma csum_cons x l : csum (x :: l) = cadd x (csum l). Proof. reflexivity. Qed.
Lemma csum_nil : csum [] = c0. Proof. reflexivity. Qed.

Lemma csum_app l1 l2 : csum (l1 ++ l2) = cadd (csum l1) (csum l2).
Proof.
  induction l1 as [| x l IH]; cbn [app]; rewrite ?csum_cons, ?csum_nil; [ring | rewrite IH; ring].
Qed.

Lemma csum_scale {A} u (g : A -> GZ) l : csum (map (fun k => cmul u (g k)) l) = cmul u (csum (map g l)).
Proof. induction l as [| x l IH]; cbn [map]; rewrite ?csum_cons, ?csum_nil; [ring | rewrite IH; ring]. Qed.

Lemma csum_add {A} (f g : A -> GZ) l :
  csum (map (fun k => cadd (f k) (g k)) l) = cadd (csum (map f l)) (csum (map g l)).
Proof. induction l as [| x l IH]; cbn [map]; rewrite ?csum_cons, ?csum_nil; [ring | rewrite IH; ring]. Qed.

Lemma csum_zero {A} (l : list A) : csum (map (fun _ => c0) l) = c0.
Proof. induction l as [| x l IH]; cbn [map]; rewrite ?csum_cons, ?csum_nil; [reflexivity | rewrite IH; ring]. Qed.

Lemma csum_ext {A} (f g : A -> GZ) l : (forall x, In x l -> f x = g x) -> csum (map f l) = csum (map g l).
Proof.
  induction l as [| x l IH]; intros H; cbn [map]; [reflexivity |].
  rewrite !csum_cons, (H x (or_introl eq_refl)), IH; [reflexivity | intros y Hy; apply H; right; exact Hy].
Qed.

Lemma bits_length n : forall r, In r (bits n) -> length r = n.
Proof.
  induction n as [| n IH]; cbn [bits]; intros r H.
  - destruct H as [<- | []]; reflexivity.
  - apply in_app_or in H. destruct H as [H | H]; apply in_map_iff in H; destruct H as [r' [<- H]];
      cbn [length]; f_equal; apply IH; exact H.
Qed.

(* ================================================================== the table *)
Lemma table_ok_l : forall p q a b,
  csum (map (fun k => cmul (mat1 p a k) (mat1 q k b)) [false; true]) =
  cmul (iph (fst (mul1 p q))) (mat1 (snd (mul1 p q)) a b).
Proof. intros p q a b; destruct p, q, a, b; reflexivity. Qed.

Lemma mul1_PI_phase p q : snd (mul1 p q) = PI -> fst (mul1 p q) = 0.
Proof. destruct p, q; cbn; intros H; try reflexivity; discriminate H. Qed.

Lemma mul1_I_l q : mul1 PI q = (0, q). Proof. destruct q; reflexivity. Qed.
Lemma mul1_I_r p : mul1 p PI = (0, p). Proof. destruct p; reflexivity. Qed.

(* ================================================================== full words: Kronecker mixed product *)
Lemma mmul_S n M N a r b c :
  mmul (S n) M N (a :: r) (b :: c) =
  cadd (csum (map (fun k => cmul (M (a :: r) (false :: k)) (N (false :: k) (b :: c))) (bits n)))
       (csum (map (fun k => cmul (M (a :: r) (true :: k)) (N (true :: k) (b :: c))) (bits n))).
Proof. unfold mmul. cbn [bits]. rewrite map_app, csum_app, !map_map. reflexivity. Qed.

Lemma full_mul_hom_l : forall l1 l2 r c,
  length l2 = length l1 -> length r = length l1 -> length c = length l1 ->
  mmul (length l1) (kmat l1) (kmat l2) r c =
  cmul (iph (fst (fmul l1 l2))) (kmat (snd (fmul l1 l2)) r c).
Proof.
  induction l1 as [| p l1 IH]; intros l2 r c H2 Hr Hc;
    destruct l2 as [| q l2]; try discriminate H2; destruct r as [| a r]; try discriminate Hr;
    destruct c as [| b c]; try discriminate Hc.
  - reflexivity.
  - cbn [length] in *. injection H2 as H2. injection Hr as Hr. injection Hc as Hc.
    rewrite mmul_S. cbn [fmul fst snd kmat].
    rewrite (csum_ext _ (fun k => cmul (cmul (mat1 p a false) (mat1 q false b)) (cmul (kmat l1 r k) (kmat l2 k c))))
      by (intros; ring).
    rewrite (csum_ext (fun k => cmul (cmul (mat1 p a true) (kmat l1 r k)) _)
                      (fun k => cmul (cmul (mat1 p a true) (mat1 q true b)) (cmul (kmat l1 r k) (kmat l2 k c))))
      by (intros; ring).
    rewrite !csum_scale. fold (mmul (length l1) (kmat l1) (kmat l2) r c).
    rewrite (IH l2 r c H2 Hr Hc). rewrite iph_add.
    pose proof (table_ok_l p q a b) as T. cbn [map] in T. rewrite !csum_cons, csum_nil in T.
    transitivity (cmul (cadd (cmul (mat1 p a false) (mat1 q false b)) (cadd (cmul (mat1 p a true) (mat1 q true b)) c0))
                       (cmul (iph (fst (fmul l1 l2))) (kmat (snd (fmul l1 l2)) r c))); [ring |].
    rewrite T. ring.
Qed.

(* ================================================================== words: equality test *)
Lemma p1_eqb_eq p q : p1_eqb p q = true <-> p = q.
Proof. destruct p, q; cbn; split; intros H; try reflexivity; discriminate H. Qed.

Lemma weqb_eq : forall a b, weqb a b = true <-> a = b.
Proof.
  induction a as [| [i p] a IH]; destruct b as [| [j q] b]; cbn [weqb]; try (split; [discriminate | discriminate]).
  - split; reflexivity.
  - rewrite !andb_true_iff, Z.eqb_eq, p1_eqb_eq, IH. split.
    + intros [[-> ->] ->]; reflexivity.
    + intros H; inversion H; auto.
Qed.

Lemma weqb_refl a : weqb a a = true. Proof. apply weqb_eq; reflexivity. Qed.

(* ================================================================== sentences: linear functionals *)
Lemma lin_supd h w x : forall s, lin h (supd w x s) = cadd (lin h s) (cmul x (h w)).
Proof.
  induction s as [| [w' x'] s IH]; cbn [supd lin]; [ring |].
  destruct (weqb w w') eqn:E; cbn [lin].
  - apply weqb_eq in E; subst w'. ring.
  - rewrite IH. ring.
Qed.

Lemma lin_sadd_into h : forall l acc, lin h (sadd_into acc l) = cadd (lin h acc) (lin h l).
Proof.
  induction l as [| [w x] l IH]; intros acc; cbn [sadd_into lin]; [ring |].
  rewrite IH, lin_supd. ring.
Qed.

Lemma lin_sadd h a b : lin h (sadd a b) = cadd (lin h a) (lin h b).
Proof. unfold sadd. destruct (length a <? length b)%nat; rewrite lin_sadd_into; ring. Qed.

Lemma lin_smul h x : forall s, lin h (smul x s) = cmul x (lin h s).
Proof. induction s as [| [w y] s IH]; cbn [smul map lin fst snd]; [ring |]. fold (smul x s). rewrite IH. ring. Qed.

Lemma lin_ext h g : forall s, (forall w x, In (w, x) s -> h w = g w) -> lin h s = lin g s.
Proof.
  induction s as [| [w x] s IH]; intros H; cbn [lin]; [reflexivity |].
  rewrite (H w x (or_introl eq_refl)), IH; [reflexivity | intros; eapply H; right; eassumption].
Qed.

Lemma lin_scale h x : forall s, lin (fun w => cmul x (h w)) s = cmul x (lin h s).
Proof. induction s as [| [w y] s IH]; cbn [lin]; [ring | rewrite IH; ring]. Qed.

Lemma lin_plus h g : forall s, lin (fun w => cadd (h w) (g w)) s = cadd (lin h s) (lin g s).
Proof. induction s as [| [w y] s IH]; cbn [lin]; [ring | rewrite IH; ring]. Qed.

Lemma lin_zero : forall s, lin (fun _ => c0) s = c0.
Proof. induction s as [| [w y] s IH]; cbn [lin]; [reflexivity | rewrite IH; ring]. Qed.

Lemma lin_swap (g : word -> word -> GZ) : forall a b,
  lin (fun w1 => lin (fun w2 => g w1 w2) b) a = lin (fun w2 => lin (fun w1 => g w1 w2) a) b.
Proof.
  induction a as [| [w x] a IH]; intros b; cbn [lin].
  - rewrite lin_zero. reflexivity.
  - rewrite IH. rewrite <- lin_scale, <- lin_plus. reflexivity.
Qed.

Lemma coeff_lin u : forall s, coeff s u = lin (delta u) s.
Proof.
  induction s as [| [w x] s IH]; cbn [coeff lin]; [reflexivity |].
  rewrite IH. unfold delta. destruct (weqb w u); ring.
Qed.

Lemma smat_lin order r c : forall s, smat order s r c = lin (fun w => wmat order w r c) s.
Proof. induction s as [| [w x] s IH]; cbn [smat lin]; [reflexivity | rewrite IH; reflexivity]. Qed.

(* --- sums --- *)
Lemma coeff_sadd a b u : coeff (sadd a b) u = cadd (coeff a u) (coeff b u).
Proof. rewrite !coeff_lin. apply lin_sadd. Qed.

Lemma coeff_smul x a u : coeff (smul x a) u = cmul x (coeff a u).
Proof. rewrite !coeff_lin. apply lin_smul. Qed.

Lemma coeff_ssub a b u : coeff (ssub a b) u = csub (coeff a u) (coeff b u).
Proof. unfold ssub. rewrite coeff_sadd, coeff_smul. destruct (coeff b u) as [p q]. gz. Qed.

Lemma smat_sadd order a b r c : smat order (sadd a b) r c = cadd (smat order a r c) (smat order b r c).
Proof. rewrite !smat_lin. apply lin_sadd. Qed.

Lemma smat_smul order x a r c : smat order (smul x a) r c = cmul x (smat order a r c).
Proof. rewrite !smat_lin. apply lin_smul. Qed.

(* --- products --- *)
Lemma lin_mm_row h w1 x1 : forall b acc,
  lin h (mm_row w1 x1 acc b) =
  cadd (lin h acc) (cmul x1 (lin (fun w2 => cmul (iph (fst (wmul w1 w2))) (h (snd (wmul w1 w2)))) b)).
Proof.
  induction b as [| [w2 x2] b IH]; intros acc; cbn [mm_row lin]; [ring |].
  destruct (wmul w1 w2) as [k w] eqn:E. rewrite IH, lin_supd. cbn [fst snd]. ring.
Qed.

Lemma lin_mm h b : forall a acc, lin h (mm acc a b) = cadd (lin h acc) (bil h a b).
Proof.
  unfold bil. induction a as [| [w1 x1] a IH]; intros acc; cbn [mm lin]; [ring |].
  rewrite IH, lin_mm_row. ring.
Qed.

Lemma lin_smatmul h a b : lin h (smatmul a b) = bil h a b.
Proof.
  unfold smatmul. destruct a as [| e a]; [reflexivity |]. destruct b as [| e' b].
  - unfold bil. cbn [smatmul]. transitivity (lin (fun _ => c0) (e :: a)); [symmetry; apply lin_zero | apply lin_ext; intros; reflexivity].
  - rewrite lin_mm. cbn [lin]. ring.
Qed.

Lemma bil_sadd_l h a b c : bil h (sadd a b) c = cadd (bil h a c) (bil h b c).
Proof. unfold bil. apply lin_sadd. Qed.

Lemma bil_sadd_r h a b c : bil h c (sadd a b) = cadd (bil h c a) (bil h c b).
Proof.
  unfold bil. rewrite <- lin_plus. apply lin_ext. intros w x _. apply lin_sadd.
Qed.

Lemma bil_smul_l h x a b : bil h (smul x a) b = cmul x (bil h a b).
Proof. unfold bil. apply lin_smul. Qed.

Lemma bil_smul_r h x a b : bil h a (smul x b) = cmul x (bil h a b).
Proof. unfold bil. rewrite <- lin_scale. apply lin_ext. intros w y _. apply lin_smul. Qed.

Lemma coeff_smatmul a b u : coeff (smatmul a b) u = bil (delta u) a b.
Proof. rewrite coeff_lin. apply lin_smatmul. Qed.

Lemma smatmul_distr_l a b c u :
  coeff (smatmul (sadd a b) c) u = cadd (coeff (smatmul a c) u) (coeff (smatmul b c) u).
Proof. rewrite !coeff_smatmul. apply bil_sadd_l. Qed.

Lemma smatmul_distr_r a b c u :
  coeff (smatmul c (sadd a b)) u = cadd (coeff (smatmul c a) u) (coeff (smatmul c b) u).
Proof. rewrite !coeff_smatmul. apply bil_sadd_r. Qed.

Lemma smatmul_smul_l x a b u : coeff (smatmul (smul x a) b) u = cmul x (coeff (smatmul a b) u).
Proof. rewrite !coeff_smatmul. apply bil_smul_l. Qed.

Lemma smatmul_smul_r x a b u : coeff (smatmul a (smul x b)) u = cmul x (coeff (smatmul a b) u).
Proof. rewrite !coeff_smatmul. apply bil_smul_r. Qed.
