From Coq Require Import List ZArith Bool Lia.
From PLV Require Import Disc.PauliAlgModel.
Import ListNotations.
Open Scope Z_scope.

Lemma table_ok_l : forall p q a b,
  csum (map (fun k => cmul (mat1 p a k) (mat1 q k b)) [false; true]) =
  cmul (iph (fst (mul1 p q))) (mat1 (snd (mul1 p q)) a b).
Proof. intros p q a b; destruct p, q, a, b; reflexivity. Qed.
