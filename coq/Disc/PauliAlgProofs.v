(* Lemmas about the Pauli-algebra model (Disc/PauliAlgModel.v). *)
From Coq Require Import List ZArith Bool Lia Ring Permutation.
From PLV Require Import Disc.PauliAlgModel.
Import ListNotations.
Open Scope Z_scope.

(* ================================================================== Gaussian integers form a ring *)
Ltac gz := intros; repeat match goal with x : GZ |- _ => destruct x end;
           unfold csub, cadd, cmul, cneg, c0, c1; cbn [fst snd]; f_equal; ring.

Lemma cadd_comm x y : cadd x y = cadd y x. Proof. gz. Qed.
Lemma cadd_assoc x y z : cadd x (cadd y z) = cadd (cadd x y) z. Proof. gz. Qed.
Lemma cadd_0_l x : cadd c0 x = x. Proof. gz. Qed.
Lemma cadd_0_r x : cadd x c0 = x. Proof. gz. Qed.
Lemma cmul_comm x y : cmul x y = cmul y x. Proof. gz. Qed.
Lemma cmul_assoc x y z : cmul x (cmul y z) = cmul (cmul x y) z. Proof. gz. Qed.
Lemma cmul_1_l x : cmul c1 x = x. Proof. gz. Qed.
Lemma cmul_0_l x : cmul c0 x = c0. Proof. gz. Qed.
Lemma cmul_0_r x : cmul x c0 = c0. Proof. gz. Qed.
Lemma cmul_add_l x y z : cmul (cadd x y) z = cadd (cmul x z) (cmul y z). Proof. gz. Qed.
Lemma cmul_add_r x y z : cmul x (cadd y z) = cadd (cmul x y) (cmul x z). Proof. gz. Qed.
Lemma csub_def x y : csub x y = cadd x (cneg y). Proof. reflexivity. Qed.
Lemma cadd_neg x : cadd x (cneg x) = c0. Proof. gz. Qed.

Definition gz_ring : ring_theory c0 c1 cadd cmul csub cneg (@eq GZ).
Proof.
  constructor.
  - exact cadd_0_l. - exact cadd_comm. - exact cadd_assoc. - exact cmul_1_l. - exact cmul_comm.
  - exact cmul_assoc. - exact cmul_add_l. - exact csub_def. - exact cadd_neg.
Qed.
Add Ring GZring : gz_ring.

Lemma ceqb_eq x y : ceqb x y = true <-> x = y.
Proof.
  destruct x as [a b], y as [c d]; unfold ceqb; cbn [fst snd]. rewrite andb_true_iff, !Z.eqb_eq.
  split; [intros [-> ->]; reflexivity | intros H; inversion H; auto].
Qed.

Lemma iph_mod k : iph k = iph (k mod 4).
Proof. unfold iph. rewrite Z.mod_mod by lia. reflexivity. Qed.

Lemma iph_add a b : iph (a + b) = cmul (iph a) (iph b).
Proof.
  unfold iph. rewrite Zplus_mod.
  pose proof (Z.mod_pos_bound a 4 ltac:(lia)) as Ha. pose proof (Z.mod_pos_bound b 4 ltac:(lia)) as Hb.
  set (x := a mod 4) in *. set (y := b mod 4) in *.
  assert (Hx : x = 0 \/ x = 1 \/ x = 2 \/ x = 3) by lia.
  assert (Hy : y = 0 \/ y = 1 \/ y = 2 \/ y = 3) by lia.
  destruct Hx as [-> | [-> | [-> | ->]]], Hy as [-> | [-> | [-> | ->]]]; reflexivity.
Qed.

Lemma iph_0 : iph 0 = c1. Proof. reflexivity. Qed.

(* ================================================================== sums *)
Lemma csum_cons x l : csum (x :: l) = cadd x (csum l). Proof. reflexivity. Qed.
Lemma csum_nil : csum [] = c0. Proof. reflexivity. Qed.

Lemma csum_app l1 l2 : csum (l1 ++ l2) = cadd (csum l1) (csum l2).
Proof.
  induction l1 as [| x l IH]; cbn [app]; rewrite ?csum_cons, ?csum_nil; [ring | rewrite IH; ring].
Qed.

Lemma csum_scale {A} u (g : A -> GZ) l : csum (map (fun k => cmul u (g k)) l) = cmul u (csum (map g l)).
Proof. induction l as [| x l IH]; cbn [map]; rewrite ?csum_cons, ?csum_nil; [ring | rewrite IH; ring]. Qed.

Lemma csum_add {A} (f g : A -> GZ) l :
  csum (map (fun k => cadd (f k) (g k)) l) = cadd (csum (map f l)) (csum (map g l)).
Proof. induction l as [| x l IH]; cbn [map]; rewrite ?csum_cons, ?csum_nil; [ring | rewrite IH; ring]. Qed.

Lemma csum_zero {A} (l : list A) : csum (map (fun _ => c0) l) = c0.
Proof. induction l as [| x l IH]; cbn [map]; rewrite ?csum_cons, ?csum_nil; [reflexivity | rewrite IH; ring]. Qed.

Lemma csum_ext {A} (f g : A -> GZ) l : (forall x, In x l -> f x = g x) -> csum (map f l) = csum (map g l).
Proof.
  induction l as [| x l IH]; intros H; cbn [map]; [reflexivity |].
  rewrite !csum_cons, (H x (or_introl eq_refl)), IH; [reflexivity | intros y Hy; apply H; right; exact Hy].
Qed.

Lemma bits_length n : forall r, In r (bits n) -> length r = n.
Proof.
  induction n as [| n IH]; cbn [bits]; intros r H.
  - destruct H as [<- | []]; reflexivity.
  - apply in_app_or in H. destruct H as [H | H]; apply in_map_iff in H; destruct H as [r' [<- H]];
      cbn [length]; f_equal; apply IH; exact H.
Qed.

(* ================================================================== the table *)
Lemma table_ok_l : forall p q a b,
  csum (map (fun k => cmul (mat1 p a k) (mat1 q k b)) [false; true]) =
  cmul (iph (fst (mul1 p q))) (mat1 (snd (mul1 p q)) a b).
Proof. intros p q a b; destruct p, q, a, b; reflexivity. Qed.

Lemma mul1_PI_phase p q : snd (mul1 p q) = PI -> fst (mul1 p q) = 0.
Proof. destruct p, q; cbn; intros H; try reflexivity; discriminate H. Qed.

Lemma mul1_I_l q : mul1 PI q = (0, q). Proof. destruct q; reflexivity. Qed.
Lemma mul1_I_r p : mul1 p PI = (0, p). Proof. destruct p; reflexivity. Qed.

(* ================================================================== full words: Kronecker mixed product *)
Lemma mmul_S n M N a r b c :
  mmul (S n) M N (a :: r) (b :: c) =
  cadd (csum (map (fun k => cmul (M (a :: r) (false :: k)) (N (false :: k) (b :: c))) (bits n)))
       (csum (map (fun k => cmul (M (a :: r) (true :: k)) (N (true :: k) (b :: c))) (bits n))).
Proof. unfold mmul. cbn [bits]. rewrite map_app, csum_app, !map_map. reflexivity. Qed.

Lemma full_mul_hom_l : forall l1 l2 r c,
  length l2 = length l1 -> length r = length l1 -> length c = length l1 ->
  mmul (length l1) (kmat l1) (kmat l2) r c =
  cmul (iph (fst (fmul l1 l2))) (kmat (snd (fmul l1 l2)) r c).
Proof.
  induction l1 as [| p l1 IH]; intros l2 r c H2 Hr Hc;
    destruct l2 as [| q l2]; try discriminate H2; destruct r as [| a r]; try discriminate Hr;
    destruct c as [| b c]; try discriminate Hc.
  - reflexivity.
  - cbn [length] in *. injection H2 as H2. injection Hr as Hr. injection Hc as Hc.
    rewrite mmul_S. cbn [fmul fst snd kmat].
    rewrite (csum_ext _ (fun k => cmul (cmul (mat1 p a false) (mat1 q false b)) (cmul (kmat l1 r k) (kmat l2 k c))))
      by (intros; ring).
    rewrite (csum_ext (fun k => cmul (cmul (mat1 p a true) (kmat l1 r k)) _)
                      (fun k => cmul (cmul (mat1 p a true) (mat1 q true b)) (cmul (kmat l1 r k) (kmat l2 k c))))
      by (intros; ring).
    rewrite !csum_scale. fold (mmul (length l1) (kmat l1) (kmat l2) r c).
    rewrite (IH l2 r c H2 Hr Hc). rewrite iph_add.
    pose proof (table_ok_l p q a b) as T. cbn [map] in T. rewrite !csum_cons, csum_nil in T.
    transitivity (cmul (cadd (cmul (mat1 p a false) (mat1 q false b)) (cadd (cmul (mat1 p a true) (mat1 q true b)) c0))
                       (cmul (iph (fst (fmul l1 l2))) (kmat (snd (fmul l1 l2)) r c))); [ring |].
    rewrite T. ring.
Qed.

(* ================================================================== words: equality test *)
Lemma p1_eqb_eq p q : p1_eqb p q = true <-> p = q.
Proof. destruct p, q; cbn; split; intros H; try reflexivity; discriminate H. Qed.

Lemma weqb_eq : forall a b, weqb a b = true <-> a = b.
Proof.
  induction a as [| [i p] a IH]; destruct b as [| [j q] b]; cbn [weqb]; try (split; [discriminate | discriminate]).
  - split; reflexivity.
  - rewrite !andb_true_iff, Z.eqb_eq, p1_eqb_eq, IH. split.
    + intros [[-> ->] ->]; reflexivity.
    + intros H; inversion H; auto.
Qed.

Lemma weqb_refl a : weqb a a = true. Proof. apply weqb_eq; reflexivity. Qed.

(* ================================================================== sentences: linear functionals *)
Lemma lin_supd h w x : forall s, lin h (supd w x s) = cadd (lin h s) (cmul x (h w)).
Proof.
  induction s as [| [w' x'] s IH]; cbn [supd lin]; [ring |].
  destruct (weqb w w') eqn:E; cbn [lin].
  - apply weqb_eq in E; subst w'. ring.
  - rewrite IH. ring.
Qed.

Lemma lin_sadd_into h : forall l acc, lin h (sadd_into acc l) = cadd (lin h acc) (lin h l).
Proof.
  induction l as [| [w x] l IH]; intros acc; cbn [sadd_into lin]; [ring |].
  rewrite IH, lin_supd. ring.
Qed.

Lemma lin_sadd h a b : lin h (sadd a b) = cadd (lin h a) (lin h b).
Proof. unfold sadd. destruct (length a <? length b)%nat; rewrite lin_sadd_into; ring. Qed.

Lemma lin_smul h x : forall s, lin h (smul x s) = cmul x (lin h s).
Proof. induction s as [| [w y] s IH]; cbn [smul map lin fst snd]; [ring |]. fold (smul x s). rewrite IH. ring. Qed.

Lemma lin_ext h g : forall s, (forall w x, In (w, x) s -> h w = g w) -> lin h s = lin g s.
Proof.
  induction s as [| [w x] s IH]; intros H; cbn [lin]; [reflexivity |].
  rewrite (H w x (or_introl eq_refl)), IH; [reflexivity | intros; eapply H; right; eassumption].
Qed.

Lemma lin_scale h x : forall s, lin (fun w => cmul x (h w)) s = cmul x (lin h s).
Proof. induction s as [| [w y] s IH]; cbn [lin]; [ring | rewrite IH; ring]. Qed.

Lemma lin_plus h g : forall s, lin (fun w => cadd (h w) (g w)) s = cadd (lin h s) (lin g s).
Proof. induction s as [| [w y] s IH]; cbn [lin]; [ring | rewrite IH; ring]. Qed.

Lemma lin_zero : forall s, lin (fun _ => c0) s = c0.
Proof. induction s as [| [w y] s IH]; cbn [lin]; [reflexivity | rewrite IH; ring]. Qed.

Lemma lin_swap (g : word -> word -> GZ) : forall a b,
  lin (fun w1 => lin (fun w2 => g w1 w2) b) a = lin (fun w2 => lin (fun w1 => g w1 w2) a) b.
Proof.
  induction a as [| [w x] a IH]; intros b; cbn [lin].
  - rewrite lin_zero. reflexivity.
  - rewrite IH. rewrite <- lin_scale, <- lin_plus. reflexivity.
Qed.

Lemma coeff_lin u : forall s, coeff s u = lin (delta u) s.
Proof.
  induction s as [| [w x] s IH]; cbn [coeff lin]; [reflexivity |].
  rewrite IH. unfold delta. destruct (weqb w u); ring.
Qed.

Lemma smat_lin order r c : forall s, smat order s r c = lin (fun w => wmat order w r c) s.
Proof. induction s as [| [w x] s IH]; cbn [smat lin]; [reflexivity | rewrite IH; reflexivity]. Qed.

(* --- sums --- *)
Lemma coeff_sadd a b u : coeff (sadd a b) u = cadd (coeff a u) (coeff b u).
Proof. rewrite !coeff_lin. apply lin_sadd. Qed.

Lemma coeff_smul x a u : coeff (smul x a) u = cmul x (coeff a u).
Proof. rewrite !coeff_lin. apply lin_smul. Qed.

Lemma coeff_ssub a b u : coeff (ssub a b) u = csub (coeff a u) (coeff b u).
Proof. unfold ssub. rewrite coeff_sadd, coeff_smul. destruct (coeff b u) as [p q]. gz. Qed.

Lemma smat_sadd order a b r c : smat order (sadd a b) r c = cadd (smat order a r c) (smat order b r c).
Proof. rewrite !smat_lin. apply lin_sadd. Qed.

Lemma smat_smul order x a r c : smat order (smul x a) r c = cmul x (smat order a r c).
Proof. rewrite !smat_lin. apply lin_smul. Qed.

(* --- products --- *)
Lemma lin_mm_row h w1 x1 : forall b acc,
  lin h (mm_row w1 x1 acc b) =
  cadd (lin h acc) (cmul x1 (lin (fun w2 => cmul (iph (fst (wmul w1 w2))) (h (snd (wmul w1 w2)))) b)).
Proof.
  induction b as [| [w2 x2] b IH]; intros acc; cbn [mm_row lin]; [ring |].
  destruct (wmul w1 w2) as [k w] eqn:E. rewrite IH, lin_supd. cbn [fst snd]. ring.
Qed.

Lemma lin_mm h b : forall a acc, lin h (mm acc a b) = cadd (lin h acc) (bil h a b).
Proof.
  unfold bil. induction a as [| [w1 x1] a IH]; intros acc; cbn [mm lin]; [ring |].
  rewrite IH, lin_mm_row. ring.
Qed.

Lemma lin_smatmul h a b : lin h (smatmul a b) = bil h a b.
Proof.
  unfold smatmul. destruct a as [| e a]; [reflexivity |]. destruct b as [| e' b].
  - unfold bil. cbn [smatmul]. transitivity (lin (fun _ => c0) (e :: a)); [symmetry; apply lin_zero | apply lin_ext; intros; reflexivity].
  - rewrite lin_mm. cbn [lin]. ring.
Qed.

Lemma bil_sadd_l h a b c : bil h (sadd a b) c = cadd (bil h a c) (bil h b c).
Proof. unfold bil. apply lin_sadd. Qed.

Lemma bil_sadd_r h a b c : bil h c (sadd a b) = cadd (bil h c a) (bil h c b).
Proof.
  unfold bil. rewrite <- lin_plus. apply lin_ext. intros w x _. apply lin_sadd.
Qed.

Lemma bil_smul_l h x a b : bil h (smul x a) b = cmul x (bil h a b).
Proof. unfold bil. apply lin_smul. Qed.

Lemma bil_smul_r h x a b : bil h a (smul x b) = cmul x (bil h a b).
Proof. unfold bil. rewrite <- lin_scale. apply lin_ext. intros w y _. apply lin_smul. Qed.

Lemma coeff_smatmul a b u : coeff (smatmul a b) u = bil (delta u) a b.
Proof. rewrite coeff_lin. apply lin_smatmul. Qed.

Lemma smatmul_distr_l a b c u :
  coeff (smatmul (sadd a b) c) u = cadd (coeff (smatmul a c) u) (coeff (smatmul b c) u).
Proof. rewrite !coeff_smatmul. apply bil_sadd_l. Qed.

Lemma smatmul_distr_r a b c u :
  coeff (smatmul c (sadd a b)) u = cadd (coeff (smatmul c a) u) (coeff (smatmul c b) u).
Proof. rewrite !coeff_smatmul. apply bil_sadd_r. Qed.

Lemma smatmul_smul_l x a b u : coeff (smatmul (smul x a) b) u = cmul x (coeff (smatmul a b) u).
Proof. rewrite !coeff_smatmul. apply bil_smul_l. Qed.

Lemma smatmul_smul_r x a b u : coeff (smatmul a (smul x b)) u = cmul x (coeff (smatmul a b) u).
Proof. rewrite !coeff_smatmul. apply bil_smul_r. Qed.

(* ================================================================== sparse words: the merge *)
Definition mulsw (sw : bool) (p q : P1) : Z * P1 := if sw then mul1 q p else mul1 p q.

Lemma wmerge_eq sw a b : wmerge sw a b =
  match a, b with
  | [], _ => (0, b)
  | _, [] => (0, a)
  | (i, p) :: a', (j, q) :: b' =>
      if i <? j then let '(k, w) := wmerge sw a' b in (k, (i, p) :: w)
      else if j <? i then let '(k, w) := wmerge sw a b' in (k, (j, q) :: w)
      else let '(k, w) := wmerge sw a' b' in
           let '(k1, r) := mulsw sw p q in
           match r with PI => (k, w) | _ => (k1 + k, (i, r) :: w) end
  end.
Proof. destruct a as [| [i p] a']; destruct b as [| [j q] b']; reflexivity. Qed.

Lemma merge_ind (P : word -> word -> Prop) :
  (forall b, P [] b) -> (forall a, P a []) ->
  (forall i p a' j q b', i < j -> P a' ((j, q) :: b') -> P ((i, p) :: a') ((j, q) :: b')) ->
  (forall i p a' j q b', j < i -> P ((i, p) :: a') b' -> P ((i, p) :: a') ((j, q) :: b')) ->
  (forall i p a' q b', P a' b' -> P ((i, p) :: a') ((i, q) :: b')) ->
  forall a b, P a b.
Proof.
  intros H1 H2 H3 H4 H5. induction a as [| [i p] a' IHa]; [exact H1 |].
  induction b as [| [j q] b' IHb]; [apply H2 |].
  destruct (Z.lt_trichotomy i j) as [L | [E | G]]; [apply H3 | subst; apply H5 | apply H4]; auto.
Qed.

Lemma wmerge_lt sw i p a' j q b' : i < j ->
  wmerge sw ((i, p) :: a') ((j, q) :: b') =
  (fst (wmerge sw a' ((j, q) :: b')), (i, p) :: snd (wmerge sw a' ((j, q) :: b'))).
Proof.
  intros L. rewrite wmerge_eq. apply Z.ltb_lt in L. rewrite L.
  destruct (wmerge sw a' ((j, q) :: b')); reflexivity.
Qed.

Lemma wmerge_gt sw i p a' j q b' : j < i ->
  wmerge sw ((i, p) :: a') ((j, q) :: b') =
  (fst (wmerge sw ((i, p) :: a') b'), (j, q) :: snd (wmerge sw ((i, p) :: a') b')).
Proof.
  intros L. rewrite wmerge_eq. assert (E1 : (i <? j) = false) by (apply Z.ltb_ge; lia).
  apply Z.ltb_lt in L. rewrite E1, L. destruct (wmerge sw ((i, p) :: a') b'); reflexivity.
Qed.

Lemma wmerge_same sw i p a' q b' :
  wmerge sw ((i, p) :: a') ((i, q) :: b') =
  match snd (mulsw sw p q) with
  | PI => wmerge sw a' b'
  | r => (fst (mulsw sw p q) + fst (wmerge sw a' b'), (i, r) :: snd (wmerge sw a' b'))
  end.
Proof.
  rewrite wmerge_eq. rewrite Z.ltb_irrefl. destruct (wmerge sw a' b') as [k w].
  destruct (mulsw sw p q) as [k1 r]. destruct r; reflexivity.
Qed.

Lemma lb_weaken m j r : lb j r -> m <= j -> lb m r.
Proof. destruct r as [| [k ?] ?]; cbn; lia. Qed.

Lemma lb_lookup : forall w m, wf w -> lb m w -> forall x, x <= m -> lookup w x = PI.
Proof.
  induction w as [| [j p] r IH]; intros m W L x Hx; cbn [lookup]; [reflexivity |].
  cbn in L. destruct W as [_ [Lr Wr]].
  assert (E : (x =? j) = false) by (apply Z.eqb_neq; lia). rewrite E.
  apply (IH j Wr Lr). lia.
Qed.

Lemma keys_gt : forall w m, wf w -> lb m w -> forall x, In x (keys w) -> m < x.
Proof.
  induction w as [| [j p] r IH]; intros m W L x Hx; [destruct Hx |].
  cbn in L. destruct W as [_ [Lr Wr]]. destruct Hx as [<- | Hx]; [exact L |].
  cbn [fst] in *. pose proof (IH j Wr Lr x Hx). lia.
Qed.

Lemma mulsw_I_l sw q : mulsw sw PI q = (0, q).
Proof. destruct sw; cbn; [apply mul1_I_r | apply mul1_I_l]. Qed.
Lemma mulsw_I_r sw p : mulsw sw p PI = (0, p).
Proof. destruct sw; cbn; [apply mul1_I_l | apply mul1_I_r]. Qed.
Lemma mulsw_PI_phase sw p q : snd (mulsw sw p q) = PI -> fst (mulsw sw p q) = 0.
Proof. destruct sw; cbn; apply mul1_PI_phase. Qed.

Lemma lookup_head i p r : lookup ((i, p) :: r) i = p.
Proof. cbn [lookup]. rewrite Z.eqb_refl. reflexivity. Qed.
Lemma lookup_tail i p r x : x <> i -> lookup ((i, p) :: r) x = lookup r x.
Proof. intros H. cbn [lookup]. apply Z.eqb_neq in H. rewrite H. reflexivity. Qed.

(* P1: the product word is the wire-wise product *)
Lemma wmerge_lookup sw : forall a b, wf a -> wf b ->
  forall x, lookup (snd (wmerge sw a b)) x = snd (mulsw sw (lookup a x) (lookup b x)).
Proof.
  apply (merge_ind (fun a b => wf a -> wf b ->
    forall x, lookup (snd (wmerge sw a b)) x = snd (mulsw sw (lookup a x) (lookup b x)))).
  - intros b _ _ x. rewrite wmerge_eq. cbn [snd lookup]. rewrite mulsw_I_l. reflexivity.
  - intros a _ _ x. rewrite wmerge_eq. destruct a as [| [i p] a']; cbn [snd lookup]; rewrite mulsw_I_r; reflexivity.
  - intros i p a' j q b' L IH Wa Wb x. rewrite wmerge_lt by exact L. cbn [snd].
    destruct Wa as [Hp [La Wa']].
    destruct (Z.eq_dec x i) as [-> | N].
    + rewrite !lookup_head. rewrite (lb_lookup ((j, q) :: b') i Wb L i) by lia.
      rewrite mulsw_I_r. reflexivity.
    + rewrite !(lookup_tail i) by exact N. apply IH; assumption.
  - intros i p a' j q b' L IH Wa Wb x. rewrite wmerge_gt by exact L. cbn [snd].
    destruct Wb as [Hq [Lb Wb']].
    destruct (Z.eq_dec x j) as [-> | N].
    + rewrite !lookup_head. rewrite (lb_lookup ((i, p) :: a') j Wa L j) by lia.
      rewrite mulsw_I_l. reflexivity.
    + rewrite !(lookup_tail j) by exact N. apply IH; assumption.
  - intros i p a' q b' IH Wa Wb x. rewrite wmerge_same.
    destruct Wa as [Hp [La Wa']]. destruct Wb as [Hq [Lb Wb']].
    destruct (Z.eq_dec x i) as [-> | N].
    + rewrite !lookup_head. destruct (snd (mulsw sw p q)) eqn:E; cbn [snd]; try (rewrite lookup_head; reflexivity).
      rewrite IH by assumption.
      rewrite (lb_lookup a' i Wa' La i), (lb_lookup b' i Wb' Lb i) by lia. rewrite mulsw_I_l. reflexivity.
    + rewrite !(lookup_tail i p), !(lookup_tail i q) by exact N.
      destruct (snd (mulsw sw p q)) eqn:E; cbn [snd]; rewrite ?(lookup_tail i) by exact N; apply IH; assumption.
Qed.

(* P2: the product word is canonical *)
Lemma wmerge_wf sw : forall a b, wf a -> wf b ->
  wf (snd (wmerge sw a b)) /\ forall m, lb m a -> lb m b -> lb m (snd (wmerge sw a b)).
Proof.
  apply (merge_ind (fun a b => wf a -> wf b ->
    wf (snd (wmerge sw a b)) /\ forall m, lb m a -> lb m b -> lb m (snd (wmerge sw a b)))).
  - intros b _ Wb. rewrite wmerge_eq. cbn [snd]. auto.
  - intros a Wa _. rewrite wmerge_eq. destruct a as [| [i p] a']; cbn [snd]; auto.
  - intros i p a' j q b' L IH Wa Wb. rewrite wmerge_lt by exact L. cbn [snd].
    destruct Wa as [Hp [La Wa']]. destruct (IH Wa' Wb) as [W1 L1]. split.
    + cbn [wf]. repeat split; [exact Hp | apply L1; [exact La | exact L] | exact W1].
    + intros m Hm _. exact Hm.
  - intros i p a' j q b' L IH Wa Wb. rewrite wmerge_gt by exact L. cbn [snd].
    destruct Wb as [Hq [Lb Wb']]. destruct (IH Wa Wb') as [W1 L1]. split.
    + cbn [wf]. repeat split; [exact Hq | apply L1; [exact L | exact Lb] | exact W1].
    + intros m _ Hm. exact Hm.
  - intros i p a' q b' IH Wa Wb. rewrite wmerge_same.
    destruct Wa as [Hp [La Wa']]. destruct Wb as [Hq [Lb Wb']]. destruct (IH Wa' Wb') as [W1 L1].
    destruct (snd (mulsw sw p q)) eqn:E; cbn [snd].
    + split; [exact W1 |]. intros m Hm _. cbn in Hm. apply L1; eapply lb_weaken; try eassumption; lia.
    + split; [cbn [wf]; repeat split; [discriminate | apply L1; assumption | exact W1] | intros m Hm _; exact Hm].
    + split; [cbn [wf]; repeat split; [discriminate | apply L1; assumption | exact W1] | intros m Hm _; exact Hm].
    + split; [cbn [wf]; repeat split; [discriminate | apply L1; assumption | exact W1] | intros m Hm _; exact Hm].
Qed.

(* wire-wise sums *)
Fixpoint wsum (f : P1 -> P1 -> Z) (a b : word) (l : list Z) : Z :=
  match l with [] => 0 | x :: r => f (lookup a x) (lookup b x) + wsum f a b r end.

Lemma wsum_ext f a b a2 b2 : forall l,
  (forall x, In x l -> lookup a x = lookup a2 x /\ lookup b x = lookup b2 x) ->
  wsum f a b l = wsum f a2 b2 l.
Proof.
  induction l as [| x l IH]; intros H; cbn [wsum]; [reflexivity |].
  destruct (H x (or_introl eq_refl)) as [-> ->]. rewrite IH; [reflexivity | intros y Hy; apply H; right; exact Hy].
Qed.

Lemma wsum_zero f a b : forall l, (forall x, In x l -> f (lookup a x) (lookup b x) = 0) -> wsum f a b l = 0.
Proof.
  induction l as [| x l IH]; intros H; cbn [wsum]; [reflexivity |].
  rewrite (H x (or_introl eq_refl)), IH; [reflexivity | intros y Hy; apply H; right; exact Hy].
Qed.

Lemma wsum_flip f a b : forall l, wsum (fun p q => f q p) b a l = wsum f a b l.
Proof. induction l as [| x l IH]; cbn [wsum]; [reflexivity | rewrite IH; reflexivity]. Qed.

Lemma wsum_perm f a b l l' : Permutation l l' -> wsum f a b l = wsum f a b l'.
Proof. induction 1; cbn [wsum]; lia. Qed.

(* P3: the phase is the sum of the wire-wise phases over the wires of the first word *)
Lemma wmerge_phase sw : forall a b, wf a -> wf b ->
  fst (wmerge sw a b) = wsum (fun p q => fst (mulsw sw p q)) a b (keys a).
Proof.
  apply (merge_ind (fun a b => wf a -> wf b ->
    fst (wmerge sw a b) = wsum (fun p q => fst (mulsw sw p q)) a b (keys a))).
  - intros b _ _. rewrite wmerge_eq. reflexivity.
  - intros a _ _. rewrite wmerge_eq.
    transitivity 0; [destruct a as [| [i p] a']; reflexivity |]. symmetry.
    apply wsum_zero. intros x _. cbn [lookup]. rewrite mulsw_I_r. reflexivity.
  - intros i p a' j q b' L IH Wa Wb. rewrite wmerge_lt by exact L. cbn [fst keys map wsum].
    pose proof Wa as Wa0. destruct Wa as [Hp [La Wa']].
    rewrite lookup_head. rewrite (lb_lookup ((j, q) :: b') i Wb L i) by lia. rewrite mulsw_I_r. cbn [fst].
    rewrite (IH Wa' Wb). rewrite Z.add_0_l. apply wsum_ext. intros x Hx. split; [| reflexivity].
    pose proof (keys_gt a' i Wa' La x Hx). symmetry. apply lookup_tail. lia.
  - intros i p a' j q b' L IH Wa Wb. rewrite wmerge_gt by exact L. cbn [fst].
    destruct Wb as [Hq [Lb Wb']]. rewrite (IH Wa Wb'). apply wsum_ext. intros x Hx. split; [reflexivity |].
    assert (i <= x).
    { destruct Wa as [Hp [La Wa']]. destruct Hx as [<- | Hx]; [cbn; lia |]. pose proof (keys_gt a' i Wa' La x Hx). lia. }
    symmetry. apply lookup_tail. lia.
  - intros i p a' q b' IH Wa Wb. rewrite wmerge_same. cbn [keys map wsum fst].
    destruct Wa as [Hp [La Wa']]. destruct Wb as [Hq [Lb Wb']]. rewrite !lookup_head.
    assert (T : wsum (fun p0 q0 => fst (mulsw sw p0 q0)) ((i, p) :: a') ((i, q) :: b') (map fst a') =
                wsum (fun p0 q0 => fst (mulsw sw p0 q0)) a' b' (keys a')).
    { apply wsum_ext. intros x Hx. pose proof (keys_gt a' i Wa' La x Hx).
      split; apply lookup_tail; lia. }
    rewrite T, <- (IH Wa' Wb').
    destruct (snd (mulsw sw p q)) eqn:E; cbn [fst]; try reflexivity.
    rewrite (mulsw_PI_phase sw p q E). reflexivity.
Qed.

Lemma wmem_keys : forall w x, wmem x w = true <-> In x (keys w).
Proof.
  induction w as [| [j p] r IH]; intros x; cbn [wmem keys map In fst]; [split; [discriminate | tauto] |].
  rewrite orb_true_iff, Z.eqb_eq, IH. unfold keys. split; intros [H | H]; auto.
Qed.

Lemma wmem_false_lookup : forall w x, wmem x w = false -> lookup w x = PI.
Proof.
  induction w as [| [j p] r IH]; intros x H; cbn [wmem lookup] in *; [reflexivity |].
  apply orb_false_iff in H. destruct H as [H1 H2]. rewrite H1. apply IH; exact H2.
Qed.

Lemma wf_nodup : forall w, wf w -> NoDup (keys w).
Proof.
  induction w as [| [j p] r IH]; intros W; cbn [keys map fst]; constructor.
  - destruct W as [_ [L Wr]]. intros H. pose proof (keys_gt r j Wr L j H). lia.
  - apply IH. apply W.
Qed.

Lemma wsum_filter f a b : (forall q, f PI q = 0) -> forall l,
  wsum f a b l = wsum f a b (filter (fun x => wmem x a) l).
Proof.
  intros F. induction l as [| x l IH]; cbn [wsum filter]; [reflexivity |].
  destruct (wmem x a) eqn:E; cbn [wsum]; rewrite IH; [reflexivity |].
  rewrite (wmem_false_lookup a x E), F. reflexivity.
Qed.

Lemma wsum_superset f a b order : (forall q, f PI q = 0) -> wf a -> NoDup order -> covered order a ->
  wsum f a b order = wsum f a b (keys a).
Proof.
  intros F W N C. rewrite (wsum_filter f a b F order). apply wsum_perm. apply NoDup_Permutation.
  - apply NoDup_filter. exact N.
  - apply wf_nodup. exact W.
  - intros x. rewrite filter_In, wmem_keys. split; [tauto | intros H; split; [apply C; exact H | exact H]].
Qed.

(* wire-wise product of the expansions *)
Lemma fmul_map (la lb' : Z -> P1) : forall order,
  fmul (map la order) (map lb' order) =
  (fold_right (fun x acc => fst (mul1 (la x) (lb' x)) + acc) 0 order,
   map (fun x => snd (mul1 (la x) (lb' x))) order).
Proof.
  induction order as [| x l IH]; cbn [map fmul fold_right]; [reflexivity |]. rewrite IH. reflexivity.
Qed.

Lemma wsum_fold f a b : forall l,
  wsum f a b l = fold_right (fun x acc => f (lookup a x) (lookup b x) + acc) 0 l.
Proof. induction l as [| x l IH]; cbn [wsum fold_right]; [reflexivity | rewrite IH; reflexivity]. Qed.

Lemma wmul_algebraic_l a b order : wf a -> wf b -> NoDup order -> covered order a -> covered order b ->
  wf (snd (wmul a b)) /\
  (forall x, lookup (snd (wmul a b)) x = snd (mul1 (lookup a x) (lookup b x))) /\
  expand order (snd (wmul a b)) = snd (fmul (expand order a) (expand order b)) /\
  fst (wmul a b) = fst (fmul (expand order a) (expand order b)).
Proof.
  intros Wa Wb N Ca Cb.
  assert (LK : forall x, lookup (snd (wmul a b)) x = snd (mul1 (lookup a x) (lookup b x))).
  { intros x. unfold wmul. destruct (length b <=? length a)%nat.
    - rewrite (wmerge_lookup false a b Wa Wb). reflexivity.
    - rewrite (wmerge_lookup true b a Wb Wa). reflexivity. }
  split; [| split; [exact LK | split]].
  - unfold wmul. destruct (length b <=? length a)%nat; apply wmerge_wf; assumption.
  - unfold expand. rewrite fmul_map. cbn [snd]. apply map_ext. exact LK.
  - unfold expand. rewrite fmul_map. cbn [fst].
    rewrite <- (wsum_fold (fun p q => fst (mul1 p q)) a b order).
    unfold wmul. destruct (length b <=? length a)%nat.
    + rewrite (wmerge_phase false a b Wa Wb). symmetry.
      apply (wsum_superset (fun p q => fst (mulsw false p q)) a b order); try assumption.
      intros q; destruct q; reflexivity.
    + rewrite (wmerge_phase true b a Wb Wa).
      rewrite <- (wsum_flip (fun p q => fst (mul1 p q)) a b order). symmetry.
      apply (wsum_superset (fun p q => fst (mulsw true p q)) b a order); try assumption.
      intros q; destruct q; reflexivity.
Qed.

Lemma word_mul_hom_l a b order r c :
  wf a -> wf b -> NoDup order -> covered order a -> covered order b ->
  length r = length order -> length c = length order ->
  mmul (length order) (wmat order a) (wmat order b) r c =
  cmul (iph (fst (wmul a b))) (wmat order (snd (wmul a b)) r c).
Proof.
  intros Wa Wb N Ca Cb Hr Hc.
  destruct (wmul_algebraic_l a b order Wa Wb N Ca Cb) as [_ [_ [E1 E2]]].
  unfold wmat. rewrite E1, E2.
  assert (L : length (expand order a) = length order) by (unfold expand; apply map_length).
  rewrite <- L. apply full_mul_hom_l; unfold expand; rewrite !map_length; auto.
Qed.

(* ================================================================== commutation *)
Definition uwires (a b : word) : list Z := nodup Z.eq_dec (keys a ++ keys b).

Lemma uwires_nodup a b : NoDup (uwires a b). Proof. apply NoDup_nodup. Qed.
Lemma uwires_cov_l a b : covered (uwires a b) a.
Proof. intros x H. apply nodup_In. apply in_or_app. left. exact H. Qed.
Lemma uwires_cov_r a b : covered (uwires a b) b.
Proof. intros x H. apply nodup_In. apply in_or_app. right. exact H. Qed.

Lemma acount_wsum : forall a b, wf a -> acount a b = wsum anticom1 a b (keys a).
Proof.
  induction a as [| [i p] r IH]; intros b W; cbn [acount keys map wsum fst]; [reflexivity |].
  destruct W as [Hp [L Wr]]. rewrite lookup_head. rewrite (IH b Wr).
  assert (T : wsum anticom1 ((i, p) :: r) b (map fst r) = wsum anticom1 r b (keys r)).
  { apply wsum_ext. intros x Hx. pose proof (keys_gt r i Wr L x Hx). split; [apply lookup_tail; lia | reflexivity]. }
  rewrite T. f_equal. destruct (wmem i b) eqn:E; [reflexivity |].
  rewrite (wmem_false_lookup b i E). destruct p; reflexivity.
Qed.

Lemma wsum_count a b : forall l,
  wsum anticom1 a b l = Z.of_nat (length (filter (fun i => differ (lookup a i) (lookup b i)) l)).
Proof.
  induction l as [| x l IH]; cbn [wsum filter]; [reflexivity |]. rewrite IH.
  destruct (lookup a x), (lookup b x); cbn [anticom1 differ p1_eqb negb length]; lia.
Qed.

Lemma acount_overlap a b : wf a -> acount a b = overlap a b.
Proof.
  intros W. rewrite (acount_wsum a b W). unfold overlap. fold (uwires a b). rewrite <- wsum_count.
  symmetry. apply wsum_superset; [intros q; destruct q; reflexivity | exact W | apply uwires_nodup | apply uwires_cov_l].
Qed.

Lemma commutes_even_l a b : wf a -> commutes a b = Z.even (overlap a b).
Proof.
  intros W. unfold commutes. rewrite (acount_overlap a b W). rewrite Zmod_even.
  destruct (Z.even (overlap a b)); reflexivity.
Qed.

Lemma wf_ext : forall w1 w2, wf w1 -> wf w2 -> (forall x, lookup w1 x = lookup w2 x) -> w1 = w2.
Proof.
  induction w1 as [| [i p] r1 IH]; intros w2 W1 W2 H; destruct w2 as [| [j q] r2]; [reflexivity | | |].
  - exfalso. specialize (H j). rewrite lookup_head in H. cbn in H. destruct W2 as [Hq _]. congruence.
  - exfalso. specialize (H i). rewrite lookup_head in H. cbn in H. destruct W1 as [Hp _]. congruence.
  - pose proof W1 as W1'. pose proof W2 as W2'. destruct W1 as [Hp [L1 Wr1]]. destruct W2 as [Hq [L2 Wr2]].
    destruct (Z.lt_trichotomy i j) as [L | [E | G]].
    + exfalso. specialize (H i). rewrite lookup_head in H.
      rewrite (lb_lookup ((j, q) :: r2) i W2' L i) in H by lia. congruence.
    + subst j. pose proof (H i) as Hi. rewrite !lookup_head in Hi. subst q. f_equal.
      apply IH; [exact Wr1 | exact Wr2 |]. intros x. destruct (Z.eq_dec x i) as [-> | N].
      * rewrite (lb_lookup r1 i Wr1 L1 i), (lb_lookup r2 i Wr2 L2 i) by lia. reflexivity.
      * specialize (H x). rewrite !lookup_tail in H by exact N. exact H.
    + exfalso. specialize (H j). rewrite lookup_head in H.
      rewrite (lb_lookup ((i, p) :: r1) j W1' G j) in H by lia. congruence.
Qed.

Lemma mul1_word_comm p q : snd (mul1 p q) = snd (mul1 q p).
Proof. destruct p, q; reflexivity. Qed.

Lemma wmul_comm_word a b : wf a -> wf b -> snd (wmul b a) = snd (wmul a b).
Proof.
  intros Wa Wb.
  destruct (wmul_algebraic_l a b (uwires a b) Wa Wb (uwires_nodup a b) (uwires_cov_l a b) (uwires_cov_r a b)) as [W1 [K1 _]].
  destruct (wmul_algebraic_l b a (uwires a b) Wb Wa (uwires_nodup a b) (uwires_cov_r a b) (uwires_cov_l a b)) as [W2 [K2 _]].
  apply wf_ext; [exact W2 | exact W1 |]. intros x. rewrite K1, K2. apply mul1_word_comm.
Qed.

Lemma wmul_phase_wsum a b order : wf a -> wf b -> NoDup order -> covered order a -> covered order b ->
  fst (wmul a b) = wsum (fun p q => fst (mul1 p q)) a b order.
Proof.
  intros Wa Wb N Ca Cb. destruct (wmul_algebraic_l a b order Wa Wb N Ca Cb) as [_ [_ [_ E]]].
  rewrite E. unfold expand. rewrite fmul_map. cbn [fst]. symmetry. apply wsum_fold.
Qed.

Lemma wsum_div f g h a b : (forall p q, (4 | g p q - f p q - 2 * h p q)) -> forall l,
  (4 | wsum g a b l - wsum f a b l - 2 * wsum h a b l).
Proof.
  intros T. induction l as [| x l IH]; cbn [wsum]; [exists 0; reflexivity |].
  replace (g (lookup a x) (lookup b x) + wsum g a b l - (f (lookup a x) (lookup b x) + wsum f a b l) -
           2 * (h (lookup a x) (lookup b x) + wsum h a b l))
    with ((g (lookup a x) (lookup b x) - f (lookup a x) (lookup b x) - 2 * h (lookup a x) (lookup b x)) +
          (wsum g a b l - wsum f a b l - 2 * wsum h a b l)) by ring.
  apply Z.divide_add_r; [apply T | exact IH].
Qed.

Lemma table_anticom p q : (4 | fst (mul1 q p) - fst (mul1 p q) - 2 * anticom1 p q).
Proof. destruct p, q; cbn; first [exists 0; reflexivity | exists (-1); reflexivity]. Qed.

Lemma iph_2n n : iph (2 * n) = if n mod 2 =? 0 then c1 else cneg c1.
Proof.
  unfold iph. change 4 with (2 * 2). rewrite Zmult_mod_distr_l.
  pose proof (Z.mod_pos_bound n 2 ltac:(lia)) as B.
  assert (H : n mod 2 = 0 \/ n mod 2 = 1) by lia. destruct H as [-> | ->]; reflexivity.
Qed.

Lemma wmul_comm_phase a b : wf a -> wf b ->
  iph (fst (wmul b a)) = cmul (if commutes a b then c1 else cneg c1) (iph (fst (wmul a b))).
Proof.
  intros Wa Wb.
  pose proof (wmul_phase_wsum a b (uwires a b) Wa Wb (uwires_nodup a b) (uwires_cov_l a b) (uwires_cov_r a b)) as E1.
  pose proof (wmul_phase_wsum b a (uwires a b) Wb Wa (uwires_nodup a b) (uwires_cov_r a b) (uwires_cov_l a b)) as E2.
  pose proof (wsum_flip (fun p q => fst (mul1 q p)) a b (uwires a b)) as FL. cbv beta in FL. rewrite FL in E2. clear FL.
  assert (E3 : acount a b = wsum anticom1 a b (uwires a b)).
  { rewrite (acount_wsum a b Wa). symmetry.
    apply wsum_superset; [intros q; destruct q; reflexivity | exact Wa | apply uwires_nodup | apply uwires_cov_l]. }
  destruct (wsum_div (fun p q => fst (mul1 p q)) (fun p q => fst (mul1 q p)) anticom1 a b table_anticom (uwires a b)) as [m Hm].
  rewrite <- E1, <- E3 in Hm. cbv beta in E2. rewrite <- E2 in Hm.
  replace (fst (wmul b a)) with ((fst (wmul a b) + 2 * acount a b) + m * 4) by lia.
  rewrite iph_mod, Z_mod_plus_full, <- iph_mod, iph_add, iph_2n. unfold commutes. ring.
Qed.

(* the commutator of two words, as a formal combination, is a@b - b@a *)
Lemma wcomm_spec a b (h : word -> GZ) : wf a -> wf b ->
  cmul (snd (wcomm a b)) (h (fst (wcomm a b))) =
  csub (cmul (iph (fst (wmul a b))) (h (snd (wmul a b)))) (cmul (iph (fst (wmul b a))) (h (snd (wmul b a)))).
Proof.
  intros Wa Wb. rewrite (wmul_comm_word a b Wa Wb), (wmul_comm_phase a b Wa Wb). unfold wcomm.
  destruct (commutes a b); [cbn [fst snd]; ring |].
  destruct (wmul a b) as [k w]. cbn [fst snd].
  replace (2, 0) with (cadd c1 c1) by reflexivity. ring.
Qed.

(* ================================================================== sentence products and matrices *)
Lemma mmul_lin_l n (F : word -> list bool -> list bool -> GZ) N r c : forall a,
  mmul n (fun r' k => lin (fun w => F w r' k) a) N r c = lin (fun w => mmul n (F w) N r c) a.
Proof.
  unfold mmul. induction a as [| [w x] a IH]; cbn [lin].
  - rewrite (csum_ext _ (fun _ => c0)) by (intros; ring). apply csum_zero.
  - rewrite <- IH, <- csum_scale, <- csum_add. apply csum_ext. intros k _. ring.
Qed.

Lemma mmul_lin_r n (F : word -> list bool -> list bool -> GZ) M r c : forall b,
  mmul n M (fun k c' => lin (fun w => F w k c') b) r c = lin (fun w => mmul n M (F w) r c) b.
Proof.
  unfold mmul. induction b as [| [w x] b IH]; cbn [lin].
  - rewrite (csum_ext _ (fun _ => c0)) by (intros; ring). apply csum_zero.
  - rewrite <- IH, <- csum_scale, <- csum_add. apply csum_ext. intros k _. ring.
Qed.

Lemma mmul_ext n M M' N N' r c :
  (forall k, M r k = M' r k) -> (forall k, N k c = N' k c) -> mmul n M N r c = mmul n M' N' r c.
Proof. intros H1 H2. unfold mmul. apply csum_ext. intros k _. rewrite H1, H2. reflexivity. Qed.

Lemma smatmul_mat_hom_l order a b r c :
  NoDup order -> sent_wf order a -> sent_wf order b ->
  length r = length order -> length c = length order ->
  smat order (smatmul a b) r c = mmul (length order) (smat order a) (smat order b) r c.
Proof.
  intros N Sa Sb Hr Hc. rewrite smat_lin, lin_smatmul. unfold bil.
  rewrite (mmul_ext _ _ (fun r' k => lin (fun w => wmat order w r' k) a) _ (fun k c' => lin (fun w => wmat order w k c') b))
    by (intros; apply smat_lin).
  rewrite mmul_lin_l. apply lin_ext. intros w1 x1 H1. rewrite mmul_lin_r. apply lin_ext. intros w2 x2 H2.
  destruct (Sa w1 x1 H1) as [W1 C1]. destruct (Sb w2 x2 H2) as [W2 C2].
  symmetry. apply word_mul_hom_l; assumption.
Qed.

(* ================================================================== trace *)
Definition tr1 (p : P1) : GZ := match p with PI => (2, 0) | _ => c0 end.
Definition cpow2 (n : nat) : GZ := (2 ^ Z.of_nat n, 0).

Lemma mtrace_kmat : forall l, mtrace (length l) (kmat l) = fold_right (fun p acc => cmul (tr1 p) acc) c1 l.
Proof.
  induction l as [| p l IH]; [reflexivity |].
  cbn [length fold_right]. rewrite <- IH. unfold mtrace. cbn [bits]. rewrite map_app, csum_app, !map_map. cbn [kmat].
  rewrite !csum_scale. destruct p; cbn [mat1 tr1]; ring_simplify; try reflexivity.
  - replace (2, 0) with (cadd c1 c1) by reflexivity. change (1, 0) with c1. ring.
  - change (1, 0) with c1. change (-1, 0) with (cneg c1). change (0, 0) with c0. ring.
Qed.

Lemma prod_identity : forall order, fold_right (fun p acc => cmul (tr1 p) acc) c1 (expand order []) = cpow2 (length order).
Proof.
  unfold expand. induction order as [| x l IH]; [reflexivity |]. cbn [map fold_right length].
  rewrite IH. cbn [lookup]. unfold cpow2, cmul, tr1. cbn [fst snd]. rewrite Nat2Z.inj_succ, Z.pow_succ_r by lia. f_equal; ring.
Qed.

Lemma prod_zero w : forall order x, In x order -> lookup w x <> PI ->
  fold_right (fun p acc => cmul (tr1 p) acc) c1 (expand order w) = c0.
Proof.
  unfold expand. induction order as [| y l IH]; intros x Hx Hl; [destruct Hx |]. cbn [map fold_right].
  destruct Hx as [-> | Hx].
  - destruct (lookup w x); [congruence | | |]; cbn [tr1]; ring.
  - rewrite (IH x Hx Hl). ring.
Qed.

Lemma mtrace_word order w : wf w -> covered order w ->
  mtrace (length order) (wmat order w) = cmul (cpow2 (length order)) (delta [] w).
Proof.
  intros W C. unfold wmat. replace (length order) with (length (expand order w)) at 1 by (unfold expand; apply map_length).
  rewrite mtrace_kmat. destruct w as [| [i p] r].
  - rewrite prod_identity. unfold delta. cbn [weqb]. ring.
  - unfold delta. cbn [weqb]. rewrite (prod_zero _ order i).
    + ring.
    + apply C. left. reflexivity.
    + rewrite lookup_head. apply W.
Qed.

Lemma mtrace_lin n (F : word -> list bool -> list bool -> GZ) : forall s,
  mtrace n (fun r c => lin (fun w => F w r c) s) = lin (fun w => mtrace n (F w)) s.
Proof.
  unfold mtrace. induction s as [| [w x] s IH]; cbn [lin].
  - apply csum_zero.
  - rewrite <- IH, <- csum_scale, <- csum_add. reflexivity.
Qed.

Lemma trace_l order s : sent_wf order s ->
  mtrace (length order) (smat order s) = cmul (cpow2 (length order)) (coeff s []).
Proof.
  intros S. unfold mtrace.
  rewrite (csum_ext _ (fun r => lin (fun w => wmat order w r r) s)) by (intros; apply smat_lin).
  fold (mtrace (length order) (fun r c => lin (fun w => wmat order w r c) s)).
  rewrite mtrace_lin, coeff_lin, <- lin_scale. apply lin_ext. intros w x H.
  destruct (S w x H) as [W C]. apply mtrace_word; assumption.
Qed.

Lemma strace_coeff : forall s, NoDup (map fst s) -> strace s = coeff s [].
Proof.
  induction s as [| [w x] s IH]; intros N; cbn [strace coeff]; [reflexivity |].
  inversion N as [| ? ? Hn Ns]; subst. destruct w as [| e w]; cbn [weqb].
  - assert (Z0 : coeff s [] = c0).
    { clear IH Ns N. induction s as [| [w' x'] s IH']; cbn [coeff]; [reflexivity |].
      destruct w' as [| [i' p'] w']; [exfalso; apply Hn; left; reflexivity |].
      cbn [weqb]. rewrite IH'; [ring | intros H; apply Hn; right; exact H]. }
    rewrite Z0. ring.
  - destruct e. rewrite (IH Ns). ring.
Qed.

(* mkword produces canonical words *)
Lemma winsert_wf i p : forall w, wf w -> p <> PI -> ~ In i (keys w) ->
  wf (winsert i p w) /\ forall m, m < i -> lb m w -> lb m (winsert i p w).
Proof.
  induction w as [| [j q] r IH]; intros W Hp Hn; cbn [winsert].
  - split; [cbn; auto | intros m Hm _; exact Hm].
  - destruct W as [Hq [L Wr]]. destruct (i <? j) eqn:E.
    + apply Z.ltb_lt in E. split; [cbn [wf lb]; auto | intros m Hm _; exact Hm].
    + apply Z.ltb_ge in E. assert (i <> j) by (intros ->; apply Hn; left; reflexivity).
      destruct (IH Wr Hp (fun H' => Hn (or_intror H'))) as [W1 L1].
      split; [cbn [wf]; repeat split; [exact Hq | apply L1; [lia | exact L] | exact W1] | intros m Hm Hl; exact Hl].
Qed.

Lemma keys_winsert i p : forall w x, In x (keys (winsert i p w)) -> x = i \/ In x (keys w).
Proof.
  induction w as [| [j q] r IH]; intros x H; cbn [winsert] in H.
  - destruct H as [<- | []]; auto.
  - destruct (i <? j); cbn [keys map fst In] in *.
    + destruct H as [<- | H]; auto.
    + destruct H as [<- | H]; auto. destruct (IH x H); auto.
Qed.

Lemma keys_mkword : forall raw x, In x (keys (mkword raw)) -> In x (map fst raw).
Proof.
  induction raw as [| [i p] r IH]; intros x H; cbn [mkword] in H; [destruct H |].
  cbn [map fst In]. destruct p; try (right; apply IH; exact H);
    (destruct (keys_winsert _ _ _ _ H) as [-> | H']; [left; reflexivity | right; apply IH; exact H']).
Qed.

Lemma mkword_wf : forall raw, NoDup (map fst raw) -> wf (mkword raw).
Proof.
  induction raw as [| [i p] r IH]; intros N; cbn [mkword]; [exact I |].
  inversion N as [| ? ? Hn Nr]; subst.
  assert (Hk : ~ In i (keys (mkword r))) by (intros H; apply Hn; apply keys_mkword; exact H).
  destruct p; [apply IH; exact Nr | | |]; apply winsert_wf; auto; discriminate.
Qed.
