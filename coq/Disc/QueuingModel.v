(* C41 -- model of pennylane/core/queuing.py (QueuingManager context stack, AnnotatedQueue,
   stop_recording, apply) together with the queue() methods / wrapper constructors of
   ops/op_math (adjoint, pow, ctrl, s_prod, prod) and core/measurements.py (expval).
   Definitions only -- the lemmas live in Disc/QueuingProofs.v.

   Objects are identified by their creation number (a Z): the n-th object created by the program
   (new operator, wrapper, copy made by qp.apply) has identity n.  An AnnotatedQueue is an
   insertion-ordered map keyed by object identity; only its key list is modelled (list Z).
   Contexts (AnnotatedQueue instances) are numbered in creation order (nat). *)
From Coq Require Import List ZArith Bool.
Import ListNotations.
Open Scope Z_scope.

(* ------------------------------------------------------------------ objects *)
Inductive kind := KAdj | KPow | KCtrl | KSProd | KProd | KMeas.

Definition kind_eqb (a b : kind) : bool :=
  match a, b with
  | KAdj, KAdj | KPow, KPow | KCtrl, KCtrl | KSProd, KSProd | KProd, KProd | KMeas, KMeas => true
  | _, _ => false
  end.

(* What the queuing code can see of an object:
   OBase custom     -- a plain Operator2 gate; custom = it has a custom_ctrl_dispatch (RX -> CRX)
   OWrap k new2 ops -- wrapper of kind k; new2 = it is an Operator2 class (Adjoint2/Pow2/ControlledOp2:
                       shallow __copy__), otherwise an old-style class (SProd, Prod, Adjoint, Pow,
                       Controlled, MeasurementProcess: __copy__ copies the operands);
                       ops = identities of the operands that are program objects (operands that are
                       private copies / fresh objects can never be in a queue and are left out)
   OErr             -- model error value (ctrl flattening ran out of fuel) *)
Inductive obj := OBase (custom : bool) | OWrap (k : kind) (new2 : bool) (ops : list Z) | OErr.

Definition is2 (d : obj) : bool :=
  match d with OBase _ => true | OWrap _ n _ => n | OErr => false end.
Definition ops_of (d : obj) : list Z :=
  match d with OWrap _ _ o => o | _ => [] end.
Definition is_kind (k : kind) (d : obj) : bool :=
  match d with OWrap k' _ _ => kind_eqb k k' | _ => false end.

Definition hget (h : list obj) (i : Z) : obj := nth (Z.to_nat i) h OErr.
Definition hlen (h : list obj) : Z := Z.of_nat (length h).

(* ------------------------------------------------------------------ AnnotatedQueue (keys only) *)
Fixpoint memz (x : Z) (q : list Z) : bool :=
  match q with [] => false | y :: r => if x =? y then true else memz x r end.
(* AnnotatedQueue.append: self[obj] = kwargs -- an existing key keeps its position *)
Definition q_append (q : list Z) (x : Z) : list Z := if memz x q then q else q ++ [x].
(* AnnotatedQueue.remove: silently passes if absent *)
Fixpoint q_remove (x : Z) (q : list Z) : list Z :=
  match q with [] => [] | y :: r => if x =? y then q_remove x r else y :: q_remove x r end.
Definition q_remove_all (xs : list Z) (q : list Z) : list Z := fold_left (fun q x => q_remove x q) xs q.

Fixpoint upd {A} (c : nat) (f : A -> A) (l : list A) : list A :=
  match l, c with
  | [], _ => []
  | x :: r, O => f x :: r
  | x :: r, S c' => x :: upd c' f r
  end.

(* ------------------------------------------------------------------ which removes a constructor performs *)
(* qp.ctrl(op): create_controlled_op2 / create_controlled_op: remove(op); custom dispatch (only with a
   single control wire, i.e. at the top call) returns a new operator with a fresh base; a Controlled
   operand is flattened: return ctrl(op.base, ...); otherwise Controlled(op) whose queue() removes
   the base again and appends itself. *)
Fixpoint ctrl_plan (fuel : nat) (h : list obj) (top : bool) (b : Z) : option (list Z * obj) :=
  match fuel with
  | O => None
  | S f =>
    let d := hget h b in
    let generic := Some ([b; b], OWrap KCtrl (is2 d) [b]) in
    match d with
    | OBase true => if top then Some ([b], OWrap KCtrl true []) else generic
    | OWrap KCtrl n2 [] => Some ([b], OWrap KCtrl n2 [])
    | OWrap KCtrl n2 (b' :: _) =>
        match ctrl_plan f h false b' with
        | None => None
        | Some (rs, d') => Some (b :: rs, d')
        end
    | _ => generic
    end
  end.

(* (removes before the append, descriptor of the new object, removes after the append);
   None = statement skipped (no object yet / measurement handed to an operator wrapper) *)
Definition plan_wrap (h : list obj) (k : kind) (r1 r2 : Z) : option (list Z * obj * list Z) :=
  let n := hlen h in
  if n =? 0 then None else
  let a := r1 mod n in
  let b := r2 mod n in
  let da := hget h a in
  let db := hget h b in
  if is_kind KMeas da then None else
  match k with
  | KAdj => Some ([a], OWrap KAdj (is2 da) [a], [])          (* SymbolicOp(2).queue: remove(base); append(self) *)
  | KPow => Some ([a], OWrap KPow (is2 da) [a], [])
  | KMeas => Some ([a], OWrap KMeas false [a], [])           (* MeasurementProcess.queue *)
  | KCtrl => match ctrl_plan (S (length h)) h true a with
             | None => Some ([a], OErr, [])
             | Some (rs, d) => Some (rs, d, [])
             end
  | KSProd =>                                                (* s_prod(lazy=False) *)
      if is_kind KSProd da
      then Some (ops_of da, OWrap KSProd false (ops_of da), [a])
      else Some ([a], OWrap KSProd false [a], [])
  | KProd =>                                                 (* prod(lazy=False): one level of flattening *)
      if is_kind KMeas db then None else
      let fl := (if is_kind KProd da then ops_of da else [a]) ++
                (if is_kind KProd db then ops_of db else [b]) in
      Some (fl, OWrap KProd false fl, [a; b])
  end.

Definition new_desc (m : Z) : obj :=
  if m =? 0 then OBase false else if m =? 1 then OBase true else OWrap KMeas false [].

(* copy.copy under stop_recording: Operator2 classes are copied shallowly (same base object), the
   old-style classes copy their operands (the copies are never queued anywhere) *)
Definition copy_desc (d : obj) : obj :=
  match d with
  | OWrap k false _ => OWrap k false []
  | _ => d
  end.

(* qp.apply(op): copy, then copy.queue(): remove the (shared) operands, append the copy *)
Definition plan_apply (h : list obj) (r : Z) : option (list Z * obj) :=
  let n := hlen h in
  if n =? 0 then None else
  let d := copy_desc (hget h (r mod n)) in
  Some (ops_of d, d).

(* ------------------------------------------------------------------ programs *)
Inductive prog :=
| Skip
| Seq (p q : prog)
| New (m : Z)                      (* create an operator / measurement *)
| Wrap (k : kind) (r1 r2 : Z)      (* wrapper constructor on objects number r mod #objects *)
| Apply (r : Z)                    (* qp.apply *)
| With (p : prog)                  (* with AnnotatedQueue(): p *)
| Stop (p : prog)                  (* with QueuingManager.stop_recording(): p *)
| Try (p : prog)                   (* try: p except: pass *)
| Raise.

(* ------------------------------------------------------------------ semantics 1: the stack machine *)
Record st := mk { heap : list obj; queues : list (list Z); stack : list nat }.
(* stack = QueuingManager._active_contexts, top (= python's last element) at the head *)

Definition on_queue (pre : list Z) (id : Z) (post : list Z) (q : list Z) : list Z :=
  q_remove_all post (q_append (q_remove_all pre q) id).

(* creation of an object: QueuingManager.remove / append act on active_context() if recording() *)
Definition perform (s : st) (pre : list Z) (d : obj) (post : list Z) : st :=
  let id := hlen (heap s) in
  match stack s with
  | [] => mk (heap s ++ [d]) (queues s) (stack s)
  | c :: _ => mk (heap s ++ [d]) (upd c (on_queue pre id post) (queues s)) (stack s)
  end.

(* result flag: true = an exception is propagating *)
Fixpoint exec (p : prog) (s : st) : st * bool :=
  match p with
  | Skip => (s, false)
  | Seq a b => let (s1, r) := exec a s in if r then (s1, true) else exec b s1
  | New m => (perform s [] (new_desc m) [], false)
  | Wrap k r1 r2 =>
      match plan_wrap (heap s) k r1 r2 with
      | None => (s, false)
      | Some (pre, d, post) => (perform s pre d post, false)
      end
  | Apply r =>
      match plan_apply (heap s) r with
      | None => (s, false)
      | Some (pre, d) =>
          match stack s with
          | [] => (s, true)                       (* RuntimeError: no queuing context *)
          | _ => (perform s pre d [], false)
          end
      end
  | With b =>                                     (* __enter__: push; __exit__ (always runs): pop *)
      let c := length (queues s) in
      let (s1, r) := exec b (mk (heap s) (queues s ++ [[]]) (c :: stack s)) in
      (mk (heap s1) (queues s1) (tl (stack s1)), r)
  | Stop b =>                                     (* swap in an empty stack; finally: restore *)
      let saved := stack s in
      let (s1, r) := exec b (mk (heap s) (queues s) []) in
      (mk (heap s1) (queues s1) saved, r)
  | Try b => let (s1, _) := exec b s in (s1, false)
  | Raise => (s, true)
  end.

(* ------------------------------------------------------------------ semantics 2: lexical denotation *)
(* No stack: the recording context is the lexically innermost enclosing With (None under Stop or at
   top level).  The denotation is a list of events; a context's record is obtained by replaying
   the events that name it. *)
Inductive event := EOpen | ERem (c : nat) (x : Z) | EApp (c : nat) (x : Z).

Definition act_events (cur : option nat) (pre : list Z) (id : Z) (post : list Z) : list event :=
  match cur with
  | None => []
  | Some c => map (ERem c) pre ++ [EApp c id] ++ map (ERem c) post
  end.

(* den p cur h n = (events, heap after, number of contexts after, raised) *)
Fixpoint den (p : prog) (cur : option nat) (h : list obj) (n : nat) : list event * list obj * nat * bool :=
  match p with
  | Skip => ([], h, n, false)
  | Seq a b =>
      match den a cur h n with
      | (e1, h1, n1, true) => (e1, h1, n1, true)
      | (e1, h1, n1, false) =>
          match den b cur h1 n1 with (e2, h2, n2, r) => (e1 ++ e2, h2, n2, r) end
      end
  | New m => (act_events cur [] (hlen h) [], h ++ [new_desc m], n, false)
  | Wrap k r1 r2 =>
      match plan_wrap h k r1 r2 with
      | None => ([], h, n, false)
      | Some (pre, d, post) => (act_events cur pre (hlen h) post, h ++ [d], n, false)
      end
  | Apply r =>
      match plan_apply h r with
      | None => ([], h, n, false)
      | Some (pre, d) =>
          match cur with
          | None => ([], h, n, true)
          | Some _ => (act_events cur pre (hlen h) [], h ++ [d], n, false)
          end
      end
  | With b => match den b (Some n) h (S n) with (e, h1, n1, r) => (EOpen :: e, h1, n1, r) end
  | Stop b => den b None h n
  | Try b => match den b cur h n with (e, h1, n1, _) => (e, h1, n1, false) end
  | Raise => ([], h, n, true)
  end.

Definition apply_event (qs : list (list Z)) (e : event) : list (list Z) :=
  match e with
  | EOpen => qs ++ [[]]
  | ERem c x => upd c (q_remove x) qs
  | EApp c x => upd c (fun q => q_append q x) qs
  end.
Definition replay (evs : list event) (qs : list (list Z)) : list (list Z) := fold_left apply_event evs qs.

(* the tidy reading of one context's record: objects created there, in program order, minus the
   ones consumed there *)
Fixpoint created_in (c : nat) (evs : list event) : list Z :=
  match evs with
  | [] => []
  | EApp c' x :: r => if Nat.eqb c c' then x :: created_in c r else created_in c r
  | _ :: r => created_in c r
  end.
Fixpoint consumed_in (c : nat) (evs : list event) : list Z :=
  match evs with
  | [] => []
  | ERem c' x :: r => if Nat.eqb c c' then x :: consumed_in c r else consumed_in c r
  | _ :: r => consumed_in c r
  end.
Definition record_of (c : nat) (evs : list event) : list Z :=
  filter (fun x => negb (memz x (consumed_in c evs))) (created_in c evs).

(* ------------------------------------------------------------------ correspondence *)
Definition init : st := mk [] [] [].

Fixpoint list_eqb {A} (eqb : A -> A -> bool) (a b : list A) : bool :=
  match a, b with
  | [], [] => true
  | x :: r, y :: t => eqb x y && list_eqb eqb r t
  | _, _ => false
  end.

Definition is_err (d : obj) : bool := match d with OErr => true | _ => false end.

(* expected = Some (final queue of every AnnotatedQueue in creation order, number of objects,
   exception escaped to top level, stack restored) ; None = the driver saw an unmodelled crash *)
Definition check_case (c : prog * option (list (list Z) * Z * bool * bool)) : bool :=
  let (p, e) := c in
  match e with
  | None => false
  | Some (qs, nobj, raised, stack_ok) =>
      let (s, r) := exec p init in
      list_eqb (list_eqb Z.eqb) (queues s) qs && (hlen (heap s) =? nobj) && Bool.eqb r raised
      && Bool.eqb stack_ok (match stack s with [] => true | _ => false end)
      && negb (existsb is_err (heap s))
      (* the lexical denotation must agree as well (also proved in general) *)
      && (match den p None [] 0 with
          | (evs, h', n', r') =>
              list_eqb (list_eqb Z.eqb) (replay evs []) qs && Bool.eqb r' raised
              && list_eqb (list_eqb Z.eqb) (map (fun c => record_of c evs) (seq 0 (length qs))) qs
          end)
  end.
