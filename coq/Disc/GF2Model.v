(* Model of pennylane/math/binary_linalg.py : linear algebra over GF(2) on list (list bool).
   Transcription of the loops of binary_finite_reduced_row_echelon, binary_matrix_rank,
   binary_solve_linear_system, binary_is_independent, binary_select_basis and int_to_binary.
   No proofs here: this file must keep running for the correspondence check even when a proof
   elsewhere breaks. *)
From Coq Require Import List ZArith Bool Arith.
Import ListNotations.

Notation row := (list bool) (only parsing).
Notation matrix := (list (list bool)) (only parsing).

(* short literals used by the generated case files *)
Definition b0 := false.
Definition b1 := true.

(* results: a value, a Python exception, or the model ran out of fuel (never expected) *)
Inductive res (A : Type) := Ok (a : A) | Raise | Fuel.
Arguments Ok {A} a.
Arguments Raise {A}.
Arguments Fuel {A}.

Definition getb (M : matrix) (i j : nat) : bool := nth j (nth i M []) false.
Definition ncols (M : matrix) : nat := length (hd [] M).            (* shape[1] (unused when shape[0]=0) *)
Definition column (M : matrix) (j : nat) : list bool := map (fun r => nth j r false) M.

Fixpoint set_nth {A} (l : list A) (i : nat) (x : A) : list A :=
  match l, i with
  | [], _ => []
  | _ :: t, O => x :: t
  | h :: t, S k => h :: set_nth t k x
  end.

(* index of the first / last nonzero entry: x.nonzero()[0][0] and np.where(x)[0][-1] *)
Fixpoint first_true (l : list bool) : option nat :=
  match l with
  | [] => None
  | b :: r => if b then Some O else option_map S (first_true r)
  end.

Fixpoint last_true (l : list bool) : option nat :=
  match l with
  | [] => None
  | b :: r => match last_true r with
              | Some k => Some (S k)
              | None => if b then Some O else None
              end
  end.

(* elementwise ^ of two equally long rows *)
Fixpoint xorv (a b : row) : row :=
  match a, b with
  | x :: a', y :: b' => xorb x y :: xorv a' b'
  | _, _ => []
  end.

Fixpoint map2 {A B C} (f : A -> B -> C) (a : list A) (b : list B) : list C :=
  match a, b with
  | x :: a', y :: b' => f x y :: map2 f a' b'
  | _, _ => []
  end.

(* ------------------------------------------------------------------ reduced row echelon form *)

(* rref_mat[irow, icol:], rref_mat[krow, icol:] = rref_mat[krow, icol:].copy(), rref_mat[irow, icol:].copy() *)
Definition swap_slice (M : matrix) (i k c : nat) : matrix :=
  let ri := nth i M [] in
  let rk := nth k M [] in
  set_nth (set_nth M i (firstn c ri ++ skipn c rk)) k (firstn c rk ++ skipn c ri).

(* the inner `while icol < shape[1] and not rref_mat[irow][icol]` loop; returns the matrix and icol *)
Fixpoint find_pivot (fuel : nat) (M : matrix) (irow icol nc : nat) : option (matrix * nat) :=
  match fuel with
  | O => None
  | S f =>
      if (icol <? nc) && negb (getb M irow icol) then
        match first_true (column (skipn irow M) icol) with       (* rref_mat[irow:, icol].nonzero()[0] *)
        | None => find_pivot f M irow (S icol) nc
        | Some k => find_pivot f (swap_slice M irow (irow + k) icol) irow icol nc
        end
      else Some (M, icol)
  end.

(* rpvt_cols = M[irow, icol:]; currcol = M[:, icol] with currcol[irow] = 0;
   M[:, icol:] ^= outer(currcol, rpvt_cols) *)
Definition elim_step (M : matrix) (irow icol : nat) : matrix :=
  let rpvt := skipn icol (nth irow M []) in
  let currcol := set_nth (column M icol) irow false in
  map2 (fun r c => firstn icol r ++ xorv (skipn icol r) (map (andb c) rpvt)) M currcol.

(* `for irow in range(shape[0])`: todo = number of remaining iterations *)
Fixpoint rref_rows (todo irow icol nc : nat) (M : matrix) : option matrix :=
  match todo with
  | O => Some M
  | S t =>
      match find_pivot (S (S nc)) M irow icol nc with
      | None => None
      | Some (M1, icol1) =>
          if (icol1 <? nc) && getb M1 irow icol1
          then rref_rows t (S irow) (S icol1) nc (elim_step M1 irow icol1)
          else rref_rows t (S irow) icol1 nc M1
      end
  end.

Definition rref (M : matrix) : option matrix := rref_rows (length M) 0 0 (ncols M) M.

(* ------------------------------------------------------------------ rank *)

(* `while len(binary_matrix)`: pop the last row, count it if nonzero, clear its lowest set bit
   position (largest column index) from the remaining rows *)
Fixpoint rank_loop (fuel : nat) (M : matrix) (rank : Z) : option Z :=
  match M with
  | [] => Some rank
  | _ :: _ =>
      match fuel with
      | O => None
      | S f =>
          let pivot := last M [] in
          let M' := removelast M in
          if existsb (fun b => b) pivot then
            match last_true pivot with
            | None => None
            | Some lsb =>
                rank_loop f (map (fun r => if nth lsb r false then xorv r pivot else r) M') (rank + 1)
            end
          else rank_loop f M' rank
      end
  end.

Definition rank (M : matrix) : option Z := rank_loop (length M) M 0%Z.

(* ------------------------------------------------------------------ solve *)

Definition hstack_col (A : matrix) (b : list bool) : matrix := map2 (fun r x => r ++ [x]) A b.

Definition solve (A : matrix) (b : list bool) : res (list bool) :=
  if negb (length A =? length b) then Raise                        (* np.hstack shape mismatch *)
  else
    match rref (hstack_col A b) with
    | None => Fuel
    | Some R =>
        if existsb (fun r => negb (existsb (fun x => x) (removelast r))) R   (* a row of rref[:, :-1] sums to 0 *)
        then Raise                                                        (* LinAlgError *)
        else Ok (map (fun r => last r false) R)
    end.

(* ------------------------------------------------------------------ independence / basis selection *)

(* basis has shape (length basis, nc) *)
Definition is_independent (v : list bool) (nc : nat) (basis : matrix) : res bool :=
  if negb (length basis =? length v) then Raise
  else
    match rank (hstack_col basis v) with
    | None => Fuel
    | Some rk => Ok (Z.of_nat (Nat.min (length basis) nc) <? rk)%Z
    end.

(* loop over the columns of `bitstrings`; basis is kept as an (r x bw) matrix, the other
   columns in reverse order of appending *)
Fixpoint select_loop (cols : list (list bool)) (r : nat) (basis : matrix) (bw : nat)
         (others : list (list bool)) : res (matrix * list (list bool)) :=
  match cols with
  | [] => Ok (basis, rev others)
  | c :: rest =>
      if bw <? r then
        match is_independent c bw basis with
        | Ok true => select_loop rest r (hstack_col basis c) (S bw) others
        | Ok false => select_loop rest r basis bw (c :: others)
        | Raise => Raise
        | Fuel => Fuel
        end
      else select_loop rest r basis bw (c :: others)
  end.

(* bitstrings has shape (nr, nc); result: basis as rows, the other columns as a list of columns *)
Definition select_basis (nr nc : nat) (M : matrix) : res (matrix * list (list bool)) :=
  select_loop (map (column M) (seq 0 nc)) nr (repeat [] nr) 0 [].

(* ------------------------------------------------------------------ int_to_binary *)
(* (integer >> [width-1, ..., 0]) % 2 *)
Definition int_to_binary (z : Z) (width : nat) : list bool :=
  map (fun s => Z.testbit z (Z.of_nat s)) (rev (seq 0 width)).

(* ------------------------------------------------------------------ correspondence *)
Inductive opcase :=
| ORref (M : matrix)
| ORank (M : matrix)
| OSolve (A : matrix) (b : list bool)
| OIndep (v : list bool) (nc : nat) (basis : matrix)
| OSelect (nr nc : nat) (M : matrix)
| OI2B (z : Z) (w : nat)
| OSolveAll (A : matrix).        (* solve A b for every b in {0,1}^(length A), in lexicographic order *)

Inductive obs :=
| VMat (M : matrix)
| VInt (z : Z)
| VVec (v : list bool)
| VBool (b : bool)
| VPair (a b : matrix)
| VRaise
| VFuel
| VList (l : list obs).

Definition of_res {A} (f : A -> obs) (r : res A) : obs :=
  match r with Ok a => f a | Raise => VRaise | Fuel => VFuel end.

(* itertools.product([0,1], repeat=m) *)
Fixpoint all_vecs (m : nat) : list (list bool) :=
  match m with
  | O => [[]]
  | S k => map (cons false) (all_vecs k) ++ map (cons true) (all_vecs k)
  end.

Definition run (c : opcase) : obs :=
  match c with
  | ORref M => match rref M with Some R => VMat R | None => VFuel end
  | ORank M => match rank M with Some k => VInt k | None => VFuel end
  | OSolve A b => of_res VVec (solve A b)
  | OIndep v nc B => of_res VBool (is_independent v nc B)
  | OSelect nr nc M => of_res (fun p => VPair (fst p) (snd p)) (select_basis nr nc M)
  | OI2B z w => VVec (int_to_binary z w)
  | OSolveAll A => VList (map (fun b => of_res VVec (solve A b)) (all_vecs (length A)))
  end.

Fixpoint eq_row (a b : row) : bool :=
  match a, b with
  | [], [] => true
  | x :: a', y :: b' => Bool.eqb x y && eq_row a' b'
  | _, _ => false
  end.
Fixpoint eq_mat (a b : matrix) : bool :=
  match a, b with
  | [], [] => true
  | x :: a', y :: b' => eq_row x y && eq_mat a' b'
  | _, _ => false
  end.

Fixpoint eq_obs (a b : obs) : bool :=
  match a, b with
  | VList x, VList y =>
      (fix go (x y : list obs) : bool :=
         match x, y with
         | [], [] => true
         | u :: x', v :: y' => eq_obs u v && go x' y'
         | _, _ => false
         end) x y
  | VMat x, VMat y => eq_mat x y
  | VInt x, VInt y => (x =? y)%Z
  | VVec x, VVec y => eq_row x y
  | VBool x, VBool y => Bool.eqb x y
  | VPair x x', VPair y y' => eq_mat x y && eq_mat x' y'
  | VRaise, VRaise => true
  | _, _ => false                                  (* VFuel never agrees with an observation *)
  end.

Definition check_case (c : opcase * obs) : bool := eq_obs (run (fst c)) (snd c).
