(* Verified checkers for the outputs of pennylane/liealg (lie_closure, structure_constants, cartan_decomp,
   involutions) and pennylane/pauli/pauli_vspace.py (PauliVSpace).  No proofs in this file.

   Objects: Hermitian operators G = sum_w x_w * w with RATIONAL coefficients x_w over Pauli words w (words and
   their product table are reused from Disc/PauliAlgModel.v, property C51).  PennyLane's Lie-algebra tools work with
   the algebra { i G }: for Hermitian G1, G2 the commutator is [G1, G2] = i * rbracket G1 G2 with rbracket real.
   Everything here is exact rational arithmetic; the checkers RETURN/re-verify certificates so that their soundness
   does not depend on the elimination procedure that finds the certificates. *)
From Coq Require Import List ZArith Bool QArith.
From PLV Require Import Disc.PauliAlgModel.
Import ListNotations.
Open Scope Z_scope.

(* ------------------------------------------------------------------ real Pauli sentences *)
Definition rsent := list (word * Q).

Fixpoint rcoeff (s : rsent) (u : word) : Q :=
  match s with [] => 0%Q | (w, c) :: r => ((if weqb w u then c else 0) + rcoeff r u)%Q end.

Definition rscale (x : Q) (s : rsent) : rsent := map (fun e => (fst e, Qred (x * snd e))) s.

(* sum_i c_i * B_i (zero coefficients are skipped) *)
Fixpoint lincomb (c : list Q) (B : list rsent) : rsent :=
  match c, B with
  | x :: c', b :: B' => if Qeq_bool x 0 then lincomb c' B' else rscale x b ++ lincomb c' B'
  | _, _ => []
  end.

(* [w1, w2] = i * (q * w) for Pauli words: q = +-2 when they anticommute (wcomm of C51: (w, 2 * i^k)) *)
Definition wbr (w1 w2 : word) : option (word * Q) :=
  if commutes w1 w2 then None
  else let '(w, c) := wcomm w1 w2 in Some (w, inject_Z (snd c)).

(* [a, b] = i * rbracket a b *)
Definition rbracket (a b : rsent) : rsent :=
  flat_map (fun e1 => flat_map (fun e2 =>
     match wbr (fst e1) (fst e2) with
     | Some (w, q) => [(w, Qred (q * snd e1 * snd e2))]
     | None => []
     end) b) a.

(* equality of sentences as functions word -> coefficient *)
Definition keysof (s : rsent) : list word := map fst s.
Definition seqb (a b : rsent) : bool :=
  forallb (fun w => Qeq_bool (rcoeff a w) (rcoeff b w)) (keysof a ++ keysof b).

(* ------------------------------------------------------------------ linear functionals and coordinates *)
Definition functional := list (word * Q).
Fixpoint dot (f : functional) (s : rsent) : Q :=
  match f with [] => 0%Q | (w, q) :: r => (q * rcoeff s w + dot r s)%Q end.

Definition coords (fs : list functional) (v : rsent) : list Q := map (fun f => Qred (dot f v)) fs.

(* certificate-producing span test: the coefficients are re-verified *)
Definition in_span (fs : list functional) (B : list rsent) (v : rsent) : option (list Q) :=
  let c := coords fs v in
  if (length c =? length B)%nat && seqb (lincomb c B) v then Some c else None.

(* dot f_i B_j = delta_ij *)
Fixpoint unitb (i : Z) (l : list Q) : bool :=
  match l with
  | [] => true
  | x :: r => Qeq_bool x (if i =? 0 then 1 else 0) && unitb (i - 1) r
  end.
Fixpoint checkrows (i : Z) (fs : list functional) (B : list rsent) : bool :=
  match fs with
  | [] => true
  | f :: r => unitb i (map (dot f) B) && checkrows (i + 1) r B
  end.
Definition check_dual (fs : list functional) (B : list rsent) : bool :=
  (length fs =? length B)%nat && checkrows 0 fs B.

(* ------------------------------------------------------------------ Gauss-Jordan elimination (certificate search)
   rows of the coefficient matrix of B over the word columns `cols`, augmented with the identity; the columns are
   consumed one by one (the head of every row is the current column) *)
Fixpoint nodupw (l : list word) : list word :=
  match l with
  | [] => []
  | w :: r => if existsb (weqb w) r then nodupw r else w :: nodupw r
  end.
Definition columns (B : list rsent) : list word := nodupw (flat_map keysof B).

Record grow := { gpiv : option word; gm : list Q; gt : list Q }.

Fixpoint unitrow (i n : nat) : list Q :=
  match n with
  | O => []
  | S k => (match i with O => 1%Q | _ => 0%Q end) :: unitrow (pred i) k
  end.
(* unitrow with a "used up" index: after the 1 has been emitted the index must not hit 0 again *)
Fixpoint unitrow' (i : Z) (n : nat) : list Q :=
  match n with O => [] | S k => (if i =? 0 then 1%Q else 0%Q) :: unitrow' (i - 1) k end.

Definition init_rows (B : list rsent) (cols : list word) : list grow :=
  let n := length B in
  map (fun ib => {| gpiv := None; gm := map (rcoeff (snd ib)) cols;
                    gt := unitrow' (Z.of_nat (fst ib)) n |})
      (combine (seq 0 n) B).

Definition qhead (l : list Q) : Q := match l with [] => 0%Q | x :: _ => x end.
Definition vaxpy (a : Q) (x y : list Q) : list Q :=      (* y - a * x *)
  map (fun p => Qred (snd p - a * fst p)) (combine x y).
Definition vscale (a : Q) (x : list Q) : list Q := map (fun q => Qred (a * q)) x.

(* first row without pivot whose head is nonzero: (rows before, the row, rows after) *)
Fixpoint find_pivot (rows : list grow) : option (list grow * grow * list grow) :=
  match rows with
  | [] => None
  | r :: rest =>
      match gpiv r with
      | None => if negb (Qeq_bool (qhead (gm r)) 0) then Some ([], r, rest)
                else match find_pivot rest with
                     | Some (a, p, b) => Some (r :: a, p, b)
                     | None => None
                     end
      | Some _ => match find_pivot rest with
                  | Some (a, p, b) => Some (r :: a, p, b)
                  | None => None
                  end
      end
  end.

Definition drop_head (r : grow) : grow := {| gpiv := gpiv r; gm := tl (gm r); gt := gt r |}.

Definition elim_with (pm pt : list Q) (r : grow) : grow :=
  let h := qhead (gm r) in
  if Qeq_bool h 0 then drop_head r
  else {| gpiv := gpiv r; gm := vaxpy h pm (tl (gm r)); gt := vaxpy h pt (gt r) |}.

Fixpoint gauss (cols : list word) (rows : list grow) : list grow :=
  match cols with
  | [] => rows
  | w :: cols' =>
      match find_pivot rows with
      | None => gauss cols' (map drop_head rows)
      | Some (before, p, after) =>
          let inv := Qinv (qhead (gm p)) in
          let pm := vscale inv (tl (gm p)) in
          let pt := vscale inv (gt p) in
          let p' := {| gpiv := Some w; gm := pm; gt := pt |} in
          gauss cols' (map (elim_with pm pt) before ++ p' :: map (elim_with pm pt) after)
      end
  end.

(* the dual functionals: f_i = sum_k T[k][i] * (coefficient of the pivot word of row k) *)
Definition duals (B : list rsent) : option (list functional) :=
  let rows := gauss (columns B) (init_rows B (columns B)) in
  if forallb (fun r => match gpiv r with Some _ => true | None => false end) rows
  then Some (map (fun i =>
         flat_map (fun r => match gpiv r with
                            | Some w => let q := nth i (gt r) 0%Q in if Qeq_bool q 0 then [] else [(w, q)]
                            | None => []
                            end) rows) (seq 0 (length B)))
  else None.

(* ------------------------------------------------------------------ the checkers *)
Definition check_independent (B : list rsent) : bool :=
  match duals B with Some fs => check_dual fs B | None => false end.

(* all brackets [a, b], a in A, b in Bs *)
Definition brackets (A Bs : list rsent) : list rsent :=
  flat_map (fun a => map (fun b => rbracket a b) Bs) A.

Definition all_in_span (fs : list functional) (B : list rsent) (vs : list rsent) : bool :=
  forallb (fun v => match in_span fs B v with Some _ => true | None => false end) vs.

(* lie_closure: basis independent, contains the generators, closed under brackets *)
Definition check_closure (B G : list rsent) : bool :=
  match duals B with
  | Some fs => check_dual fs B && all_in_span fs B G && all_in_span fs B (brackets B B)
  | None => false
  end.

(* structure_constants: [i G_a, i G_b] = sum_g f[g][a][b] i G_g, i.e. rbracket G_a G_b = - sum_g f[g][a][b] G_g;
   f is given sparsely: for a pair (a, b) the list of its nonzero entries (g, f[g][a][b]) *)
Definition sparse_f := list (nat * nat * list (nat * Q)).
Fixpoint sf_find (f : sparse_f) (a b : nat) : list (nat * Q) :=
  match f with
  | [] => []
  | (a', b', l) :: r => if ((a =? a') && (b =? b'))%nat then l else sf_find r a b
  end.
Fixpoint col_get (l : list (nat * Q)) (g : nat) : Q :=
  match l with [] => 0%Q | (g', q) :: r => if (g =? g')%nat then q else col_get r g end.
(* the vector (f[g][a][b])_g *)
Definition fcol (f : sparse_f) (n a b : nat) : list Q := map (col_get (sf_find f a b)) (seq 0 n).
Definition check_structure (f : sparse_f) (B : list rsent) : bool :=
  let n := length B in
  forallb (fun a => forallb (fun b =>
     seqb (rbracket (nth a B []) (nth b B [])) (rscale (-1 # 1) (lincomb (fcol f n a b) B)))
     (seq 0 n)) (seq 0 n).

(* ------------------------------------------------------------------ involutions (transcribed from involutions.py)
   kappa w = true  <->  theta(i w) = + i w  (the word goes to k) *)
Definition is_odd (n : nat) : bool := Nat.odd n.
Definition count_y (w : word) : nat := length (filter (fun e => p1_eqb (snd e) PY) w).
Inductive involution :=
| IEvenOdd                (* even_odd_involution *)
| IConcurrence            (* concurrence_involution, AI, CI *)
| IAII (wire : Z)         (* AII *)
| IAIII (wire : Z)        (* AIII, BDI with p = q = 2^(n-1) *)
| IDIII (wire : Z)        (* DIII, A, BD, C *)
| ICII (wire : Z).        (* CII with p = q = 2^(n-2) *)

Definition kappa (inv : involution) (w : word) : bool :=
  match inv with
  | IEvenOdd => is_odd (length w)
  | IConcurrence => is_odd (count_y w)
  | IAII q => is_odd (count_y w + match lookup w q with PX | PZ => 1 | _ => 0 end)
  | IAIII q => match lookup w q with PI | PZ => true | _ => false end
  | IDIII q => match lookup w q with PI | PY => true | _ => false end
  | ICII q => match lookup w q with PI | PZ => true | _ => false end
  end.

(* theta on Hermitian operators: theta(G) = sum (+-) x_w w *)
Definition theta (inv : involution) (s : rsent) : rsent :=
  map (fun e => (fst e, if kappa inv (fst e) then snd e else Qopp (snd e))) s.

Definition uniform (inv : involution) (val : bool) (s : rsent) : bool :=
  forallb (fun e => Bool.eqb (kappa inv (fst e)) val) s.

(* the sign function respects the bracket of two anticommuting words *)
Definition kappa_hom (inv : involution) (w1 w2 : word) : bool :=
  commutes w1 w2 || Bool.eqb (kappa inv (snd (wmul w1 w2))) (Bool.eqb (kappa inv w1) (kappa inv w2)).

(* all canonical words on wires 0 .. n-1 *)
Fixpoint all_words (n : nat) : list word :=
  match n with
  | O => [[]]
  | S k => flat_map (fun w => [w; w ++ [(Z.of_nat k, PX)]; w ++ [(Z.of_nat k, PY)]; w ++ [(Z.of_nat k, PZ)]])
                    (all_words k)
  end.
Definition builtin_involutions (n : nat) : list involution :=
  [IEvenOdd; IConcurrence] ++
  flat_map (fun q => [IAII q; IAIII q; IDIII q; ICII q]) (map Z.of_nat (seq 0 n)).

(* cartan_decomp: k is the +1 eigenspace part, m the -1 part, and the Cartan commutation relations hold *)
Definition check_cartan (inv : involution) (k m : list rsent) : bool :=
  forallb (uniform inv true) k && forallb (uniform inv false) m &&
  match duals k, duals m with
  | Some fk, Some fm =>
      check_dual fk k && check_dual fm m &&
      all_in_span fk k (brackets k k) && all_in_span fm m (brackets k m) && all_in_span fk k (brackets m m)
  | _, _ => false
  end.

(* PauliVSpace: is `v` linearly independent of the (independent) basis B ? *)
Definition vspace_independent (B : list rsent) (v : rsent) : option bool :=
  match duals B with
  | Some fs => if check_dual fs B
               then Some (match in_span fs B v with Some _ => false | None => true end)
               else None
  | None => None
  end.

(* ------------------------------------------------------------------ correspondence cases *)
Definition rawsent := list (list (Z * P1) * Q).
Definition mk (r : rawsent) : rsent := map (fun e => (mkword (fst e), snd e)) r.
Definition mks (l : list rawsent) : list rsent := map mk l.

Inductive case :=
| KClosure (basis gens : list rawsent) (expected : bool)
| KIndep (basis : list rawsent) (expected : bool)
| KStruct (f : sparse_f) (basis : list rawsent) (expected : bool)
| KCartan (inv : involution) (k m : list rawsent) (expected : bool)
| KVspace (basis : list rawsent) (v : rawsent) (independent : bool).

Definition check_case (c : case) : bool :=
  match c with
  | KClosure B G e => Bool.eqb (check_closure (mks B) (mks G)) e
  | KIndep B e => Bool.eqb (check_independent (mks B)) e
  | KStruct f B e => Bool.eqb (check_structure f (mks B)) e
  | KCartan inv k m e => Bool.eqb (check_cartan inv (mks k) (mks m)) e
  | KVspace B v e => match vspace_independent (mks B) (mk v) with Some b => Bool.eqb b e | None => false end
  end.

(* ------------------------------------------------------------------ specification vocabulary *)
Definition seq_r (a b : rsent) : Prop := forall u, (rcoeff a u == rcoeff b u)%Q.
Definition in_span_spec (B : list rsent) (v : rsent) : Prop :=
  exists c, length c = length B /\ seq_r (lincomb c B) v.
Definition independent_spec (B : list rsent) : Prop :=
  forall c, length c = length B -> seq_r (lincomb c B) [] -> forall k, (k < length B)%nat -> (nth k c 0 == 0)%Q.
