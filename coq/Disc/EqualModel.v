(* Model of pennylane/ops/functions/equal.py (qp.equal) on an operator / measurement AST.
   One constructor per dispatch branch of _equal_dispatch that the tie exercises:
     Plain   : _equal_operators / _equal_operator2  (type, Identity shortcut, wires, hyperparameters /
               static+compilable args, data via allclose)
     Ctrl    : _equal_controlled  (work wires, work-wire type, dict(zip(control_wires, control_values)), base)
     PowO    : _equal_pow         (exponent compared with ==, base)
     Adj     : _equal_adjoint     (base)
     SProdO  : _equal_sprod       (pauli_rep shortcut, scalar via allclose, base)
     ExpO    : _equal_exp         (coefficient via allclose, base)
     Comp    : _equal_prod_and_sum (pauli_rep shortcut, operand count, zip of the two _sort-ed operand lists)
     MP      : _equal_measurements (+ VnEntropy/MutualInfo log_base, Counts all_outcomes)
   Numbers are exact rationals (every float is one).  allclose is numpy's test
   |a-b| <= atol + rtol*|b| (asymmetric in a,b exactly as in the code).
   Oracles recorded from the real objects by the harness (not computed here): the class-name code, the
   interned code of the hyperparameters (incl. array shapes and the real/imaginary kind of each
   number), the equality class of pauli_rep (prep), and for every operand of a Sum/Prod its sort
   key rank (Sum: rank of (min str wire, #wires, str(op)); Prod: rank of str(set(wires).pop()))
   and its wires.
   No proofs in this file. *)
From Coq Require Import List ZArith QArith Qabs Bool.
Import ListNotations.
Open Scope Z_scope.

(* ------------------------------------------------------------------ AST *)
Definition operand (A : Type) := (Z * list Z * A)%type.     (* sort-key rank, wires, body *)
Definition okey {A} (o : operand A) : Z := fst (fst o).
Definition owires {A} (o : operand A) : list Z := snd (fst o).
Definition obody {A} (o : operand A) : A := snd o.
Definition omap {A B} (f : A -> B) (o : operand A) : operand B := (fst o, f (snd o)).

Inductive op : Type :=
| Plain  (name : Z) (params : list (list Q)) (wires : list Z) (hyper : Z)
| Ctrl   (name : Z) (base : op) (cw : list Z) (cv : list bool) (ww : list Z) (wt : Z)
| PowO   (name : Z) (z : Q) (base : op)
| Adj    (name : Z) (base : op)
| SProdO (s : Q) (skind : Z) (prep : option Z) (base : op)
| ExpO   (name : Z) (c : Q) (ckind : Z) (base : op)
| Comp   (name skind : Z) (prep : option Z) (operands : list (Z * list Z * op)).

(* measurement process: class code, obs, wires, eigvals, compared extra (log_base / all_outcomes code),
   aux = data that qp.equal ignores (e.g. the seed of classical_shadow) *)
Inductive mp : Type :=
| MP (kind : Z) (obs : option op) (wires : list Z) (eig : option (list Q)) (extra aux : Z).

Inductive item : Type := IOp (o : op) | IMp (m : mp).

Definition IDENTITY_NAME : Z := 0.     (* the harness gives class Identity the code 0 *)
Definition SORT_SUM : Z := 0.          (* Sum._sort : stable sort by key *)
Definition SORT_PROD : Z := 1.         (* Prod._sort: insertion sort moving left past swappable factors *)
                                       (* anything else: ChangeOpBasis._sort = identity *)

(* ------------------------------------------------------------------ helpers *)
Fixpoint forallb2 {A B} (f : A -> B -> bool) (l1 : list A) (l2 : list B) : bool :=
  match l1, l2 with
  | [], [] => true
  | x :: r1, y :: r2 => f x y && forallb2 f r1 r2
  | _, _ => false
  end.

Definition zlist_eqb (l1 l2 : list Z) : bool := forallb2 Z.eqb l1 l2.

Definition optz_eqb (a b : option Z) : bool :=
  match a, b with Some x, Some y => x =? y | None, None => true | _, _ => false end.

Fixpoint memz (x : Z) (l : list Z) : bool :=
  match l with [] => false | y :: r => (x =? y) || memz x r end.

Definition intersects (l1 l2 : list Z) : bool := existsb (fun x => memz x l2) l1.

(* numpy.allclose on one pair of numbers:  |a - b| <= atol + rtol * |b| *)
Definition close (rtol atol a b : Q) : bool :=
  Qle_bool (Qabs (a - b)) (atol + rtol * Qabs b).

(* op1.pauli_rep is not None and op1.pauli_rep == op2.pauli_rep *)
Definition prep_match (p1 p2 : option Z) : bool :=
  match p1, p2 with Some x, Some y => x =? y | _, _ => false end.

(* dict(zip(control_wires, control_values)) : last binding of a key wins *)
Fixpoint dict_of (ws : list Z) (vs : list bool) (acc : list (Z * bool)) : list (Z * bool) :=
  match ws, vs with
  | w :: ws', v :: vs' => dict_of ws' vs' ((w, v) :: filter (fun kv => negb (fst kv =? w)) acc)
  | _, _ => acc
  end.
Fixpoint dlookup (w : Z) (d : list (Z * bool)) : option bool :=
  match d with [] => None | (k, v) :: r => if k =? w then Some v else dlookup w r end.
Definition optb_eqb (a b : option bool) : bool :=
  match a, b with Some x, Some y => Bool.eqb x y | None, None => true | _, _ => false end.
(* dict equality: same number of keys, every binding of d1 is a binding of d2 and conversely
   (for dictionaries, i.e. unique keys, the converse is implied; it is kept so that the test is
   symmetric by construction) *)
Definition dict_sub (d1 d2 : list (Z * bool)) : bool :=
  forallb (fun kv => optb_eqb (dlookup (fst kv) d2) (Some (snd kv))) d1.
Definition dict_eqb (d1 d2 : list (Z * bool)) : bool :=
  (length d1 =? length d2)%nat && dict_sub d1 d2 && dict_sub d2 d1.
Definition ctrl_dict_eqb (cw1 : list Z) (cv1 : list bool) (cw2 : list Z) (cv2 : list bool) : bool :=
  dict_eqb (dict_of cw1 cv1 []) (dict_of cw2 cv2 []).

(* ------------------------------------------------------------------ the two _sort methods *)
Section Sorts.
  Context {A : Type}.

  (* Sum._sort = sorted(op_list, key): stable *)
  Fixpoint sum_insert (x : operand A) (l : list (operand A)) : list (operand A) :=
    match l with
    | [] => [x]
    | y :: r => if okey x <=? okey y then x :: y :: r else y :: sum_insert x r
    end.
  Definition sum_sort (l : list (operand A)) : list (operand A) := fold_right sum_insert [] l.

  (* prod._swappable_ops(op1 = element already placed, op2 = key_op) *)
  Definition swappable (o1 o2 : operand A) : bool :=
    match owires o1 with
    | [] => true
    | _ => match owires o2 with
           | [] => false
           | _ => if intersects (owires o1) (owires o2) then false else okey o2 <? okey o1
           end
    end.
  (* the placed prefix is kept reversed (last placed element first) *)
  Fixpoint prod_insert (x : operand A) (revpre : list (operand A)) : list (operand A) :=
    match revpre with
    | [] => [x]
    | y :: r => if swappable y x then y :: prod_insert x r else x :: y :: r
    end.
  Definition prod_sort (l : list (operand A)) : list (operand A) :=
    rev (fold_left (fun acc x => prod_insert x acc) l []).

  Definition sortK (k : Z) (l : list (operand A)) : list (operand A) :=
    if k =? SORT_SUM then sum_sort l else if k =? SORT_PROD then prod_sort l else l.
End Sorts.

(* ------------------------------------------------------------------ qp.equal *)
Section Equal.
  Variables rtol atol : Q.

  Definition params_close (p1 p2 : list (list Q)) : bool :=
    forallb2 (forallb2 (close rtol atol)) p1 p2.

  Fixpoint equal (a : op) {struct a} : op -> bool :=
    match a with
    | Plain n ps w h => fun b =>
        match b with
        | Plain n' ps' w' h' =>
            (n =? n') && ((n =? IDENTITY_NAME) || (zlist_eqb w w' && (h =? h') && params_close ps ps'))
        | _ => false
        end
    | Ctrl n ba cw cv ww wt => fun b =>
        match b with
        | Ctrl n' ba' cw' cv' ww' wt' =>
            (n =? n') && zlist_eqb ww ww' && (wt =? wt') && ctrl_dict_eqb cw cv cw' cv' && equal ba ba'
        | _ => false
        end
    | PowO n z ba => fun b =>
        match b with
        | PowO n' z' ba' => (n =? n') && Qeq_bool z z' && equal ba ba'
        | _ => false
        end
    | Adj n ba => fun b =>
        match b with
        | Adj n' ba' => (n =? n') && equal ba ba'
        | _ => false
        end
    | SProdO s k p ba => fun b =>
        match b with
        | SProdO s' k' p' ba' => (k =? k') && (prep_match p p' || (close rtol atol s s' && equal ba ba'))
        | _ => false
        end
    | ExpO n c k ba => fun b =>
        match b with
        | ExpO n' c' k' ba' => (n =? n') && (k =? k') && close rtol atol c c' && equal ba ba'
        | _ => false
        end
    | Comp n k p ops =>
        let cl := map (fun o : Z * list Z * op => (fst o, equal (snd o))) ops in
        fun b =>
        match b with
        | Comp n' k' p' ops' =>
            (n =? n') && (prep_match p p' ||
               ((length ops =? length ops')%nat &&
                forallb2 (fun (c : operand (op -> bool)) (y : operand op) => obody c (obody y))
                         (sortK k cl) (sortK k' ops')))
        | _ => false
        end
    end.

  Definition eig_close (e1 e2 : option (list Q)) : bool :=
    match e1, e2 with
    | Some x, Some y => forallb2 (close rtol atol) x y
    | None, None => true
    | _, _ => false
    end.

  Definition equal_mp (m1 m2 : mp) : bool :=
    match m1, m2 with
    | MP k1 o1 w1 e1 x1 _, MP k2 o2 w2 e2 x2 _ =>
        (k1 =? k2) && (x1 =? x2) &&
        match o1, o2 with
        | Some a, Some b => equal a b
        | None, None => zlist_eqb w1 w2 && eig_close e1 e2
        | _, _ => false          (* wires differ -> False; wires equal -> falls through to False *)
        end
    end.

  Definition equal_item (a b : item) : bool :=
    match a, b with
    | IOp x, IOp y => equal x y
    | IMp x, IMp y => equal_mp x y
    | _, _ => false
    end.
End Equal.

(* tie: ((rtol, atol), a, b), (qp.equal(a,b), qp.equal(b,a)) *)
Definition check_case (c : (Q * Q * item * item) * (bool * bool)) : bool :=
  match c with
  | ((rt, at_, a, b), (eab, eba)) =>
      Bool.eqb (equal_item rt at_ a b) eab && Bool.eqb (equal_item rt at_ b a) eba
  end.
