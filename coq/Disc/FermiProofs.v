(* Lemmas about Disc/FermiModel.v (property C53). *)
From Coq Require Import List ZArith QArith Bool Arith Lia Lqa Setoid Morphisms.
From PLV Require Import Disc.FermiModel.
Import ListNotations.
Local Open Scope nat_scope.

Ltac Zify.zify_post_hook ::= Z.to_euclidean_division_equations.

(* ------------------------------------------------------------------ Pauli words *)
Lemma pauli_eqb_eq : forall a b, pauli_eqb a b = true <-> a = b.
Proof. destruct a, b; cbn; split; intro H; try reflexivity; try discriminate. Qed.

Lemma weqb_eq : forall a b, weqb a b = true <-> a = b.
Proof.
  induction a as [|x r IH]; destruct b as [|y s]; cbn; split; intro H; try reflexivity; try discriminate.
  - apply andb_true_iff in H. destruct H as [H1 H2]. apply pauli_eqb_eq in H1. apply IH in H2. congruence.
  - inversion H; subst. apply andb_true_iff. split; [apply pauli_eqb_eq | apply IH]; reflexivity.
Qed.

Lemma weqb_refl : forall a, weqb a a = true.
Proof. intro a. apply weqb_eq. reflexivity. Qed.

(* (ab)^dagger = b a for Hermitian single-qubit Paulis: same letter, conjugate phase *)
Lemma pmul_swap : forall a b, snd (pmul b a) = snd (pmul a b) /\ fst (pmul b a) = ((- fst (pmul a b)) mod 4)%Z.
Proof. destruct a, b; cbn; split; reflexivity. Qed.

Lemma pmul_phase_range : forall a b, (0 <= fst (pmul a b) < 4)%Z.
Proof. destruct a, b; cbn; lia. Qed.

Lemma wmul_phase_range : forall a b, (0 <= fst (wmul a b) < 4)%Z.
Proof.
  induction a as [|x r IH]; destruct b as [|y s]; cbn [wmul fst]; lia.
Qed.

(* word level (AB)^dagger = B^dagger A^dagger : swapping the factors keeps the word and conjugates the phase *)
Lemma wmul_swap : forall a b, snd (wmul b a) = snd (wmul a b) /\ fst (wmul b a) = ((- fst (wmul a b)) mod 4)%Z.
Proof.
  induction a as [|x r IH]; destruct b as [|y s]; cbn [wmul fst snd]; try (split; reflexivity).
  destruct (IH s) as [Hw Hk]. destruct (pmul_swap x y) as [Hc Hp].
  split.
  - rewrite Hc, Hw. reflexivity.
  - rewrite Hk, Hp.
    pose proof (pmul_phase_range x y). pose proof (wmul_phase_range r s). lia.
Qed.

Lemma wmul_I_l_phase : forall k w, fst (wmul (repeat PI k) w) = 0%Z.
Proof.
  induction k as [|k IH]; intro w; cbn [repeat wmul fst]; [reflexivity|].
  destruct w as [|y s]; cbn [wmul fst snd pmul]; [reflexivity|].
  rewrite IH. reflexivity.
Qed.

Lemma wmul_II : forall k, wmul (repeat PI k) (repeat PI k) = (0%Z, repeat PI k).
Proof.
  induction k as [|k IH]; cbn [repeat wmul]; [reflexivity|].
  rewrite IH. reflexivity.
Qed.

Lemma jw_word_S : forall n p P, jw_word (S n) (S p) P = PZ :: jw_word n p P.
Proof. intros. unfold jw_word. cbn [repeat app Nat.sub]. reflexivity. Qed.

Lemma jw_word_0 : forall n P, jw_word (S n) 0 P = P :: repeat PI n.
Proof. intros. unfold jw_word. cbn [repeat app]. do 2 f_equal. lia. Qed.

(* key lemma: Jordan-Wigner strings on different modes p < q overlap non-trivially on the single
   site p (X or Y against Z), so the phase of their product is odd: they anticommute *)
Lemma jw_words_phase_odd : forall p n q P R, p < q -> q < n -> (P = PX \/ P = PY) ->
  let k := fst (wmul (jw_word n p P) (jw_word n q R)) in k = 1%Z \/ k = 3%Z.
Proof.
  induction p as [|p IH]; intros n q P R Hpq Hqn HP.
  - destruct n as [|n]; [lia|]. destruct q as [|q]; [lia|].
    rewrite jw_word_0. unfold jw_word at 1. cbn [repeat app wmul fst snd].
    rewrite wmul_I_l_phase.
    destruct HP; subst P; cbn; lia.
  - destruct n as [|n]; [lia|]. destruct q as [|q]; [lia|].
    rewrite !jw_word_S. cbn [wmul fst snd pmul].
    specialize (IH n q P R ltac:(lia) ltac:(lia) HP). cbn zeta in IH.
    pose proof (wmul_phase_range (jw_word n p P) (jw_word n q R)).
    cbn zeta. destruct IH as [E|E]; rewrite E; cbn; lia.
Qed.

Definition site_word (n p : nat) (P : pauli) : pword := repeat PI p ++ P :: repeat PI (n - p - 1).

Lemma site_word_S : forall n p P, site_word (S n) (S p) P = PI :: site_word n p P.
Proof. intros. unfold site_word. cbn [repeat app Nat.sub]. reflexivity. Qed.

(* same mode: the Z strings cancel and only the site p survives *)
Lemma jw_words_same_site : forall p n P R, p < n ->
  wmul (jw_word n p P) (jw_word n p R) = (fst (pmul P R), site_word n p (snd (pmul P R))).
Proof.
  induction p as [|p IH]; intros n P R Hpn.
  - destruct n as [|n]; [lia|]. rewrite !jw_word_0. unfold site_word. cbn [repeat app wmul Nat.sub].
    rewrite wmul_II, Nat.sub_0_r. cbn [fst snd].
    pose proof (pmul_phase_range P R). f_equal. lia.
  - destruct n as [|n]; [lia|]. rewrite !jw_word_S, site_word_S. cbn [wmul pmul fst snd].
    rewrite (IH n P R ltac:(lia)). cbn [fst snd].
    pose proof (pmul_phase_range P R). f_equal. lia.
Qed.

Lemma site_word_I : forall n p, p < n -> site_word n p PI = repeat PI n.
Proof.
  intros n p H. unfold site_word.
  replace n with (p + S (n - p - 1)) at 2 by lia.
  rewrite repeat_app. reflexivity.
Qed.

(* ------------------------------------------------------------------ coefficient functions *)
Lemma ceq_refl : forall a, ceq a a.
Proof. intro a; split; reflexivity. Qed.
Lemma ceq_sym : forall a b, ceq a b -> ceq b a.
Proof. intros a b [H1 H2]; split; symmetry; assumption. Qed.
Lemma ceq_trans : forall a b c, ceq a b -> ceq b c -> ceq a c.
Proof. intros a b c [H1 H2] [H3 H4]; split; etransitivity; eassumption. Qed.

Add Parametric Relation : C ceq
  reflexivity proved by ceq_refl symmetry proved by ceq_sym transitivity proved by ceq_trans as ceq_rel.

Add Parametric Morphism : cplus with signature ceq ==> ceq ==> ceq as cplus_mor.
Proof. intros a b [H1 H2] c d [H3 H4]. split; cbn; [rewrite H1, H3 | rewrite H2, H4]; reflexivity. Qed.

Add Parametric Morphism : cmulx with signature ceq ==> ceq ==> ceq as cmulx_mor.
Proof. intros a b [H1 H2] c d [H3 H4]. split; cbn; rewrite H1, H2, H3, H4; reflexivity. Qed.

Lemma cred_ceq : forall a, ceq (cred a) a.
Proof. intro a. split; cbn; apply Qred_correct. Qed.
Lemma cadd_ceq : forall a b, ceq (cadd a b) (cplus a b).
Proof. intros. unfold cadd. apply cred_ceq. Qed.
Lemma cmul_ceq : forall a b, ceq (cmul a b) (cmulx a b).
Proof. intros. unfold cmul. apply cred_ceq. Qed.
Lemma cplus_0_l : forall a, ceq (cplus c0 a) a.
Proof. intro a. split; cbn; ring. Qed.
Lemma cplus_0_r : forall a, ceq (cplus a c0) a.
Proof. intro a. split; cbn; ring. Qed.
Lemma cplus_comm : forall a b, ceq (cplus a b) (cplus b a).
Proof. intros. split; cbn; ring. Qed.
Lemma cplus_assoc : forall a b c, ceq (cplus a (cplus b c)) (cplus (cplus a b) c).
Proof. intros. split; cbn; ring. Qed.
Lemma cmulx_plus_l : forall a b c, ceq (cmulx (cplus a b) c) (cplus (cmulx a c) (cmulx b c)).
Proof. intros. split; cbn; ring. Qed.
Lemma cmulx_assoc : forall a b c, ceq (cmulx (cmulx a b) c) (cmulx a (cmulx b c)).
Proof. intros. split; cbn; ring. Qed.
Lemma cmulx_0_l : forall c, ceq (cmulx c0 c) c0.
Proof. intros. split; cbn; ring. Qed.

Lemma czero_ceq : forall c, czero c = true -> ceq c c0.
Proof.
  intros c H. unfold czero in H. apply andb_true_iff in H. destruct H as [H1 H2].
  apply Qeq_bool_iff in H1. apply Qeq_bool_iff in H2. split; assumption.
Qed.

Lemma coef_app : forall A B w, ceq (coef (A ++ B) w) (cplus (coef A w) (coef B w)).
Proof.
  induction A as [|e r IH]; intros B w; cbn [app coef].
  - symmetry. apply cplus_0_l.
  - rewrite IH. apply cplus_assoc.
Qed.

Lemma coef_sins : forall A w c v,
  ceq (coef (sins w c A) v) (cplus (coef A v) (if weqb w v then c else c0)).
Proof.
  induction A as [|e r IH]; intros w c v; cbn [sins coef fst snd].
  - destruct (weqb w v); cbn [fst snd].
    + rewrite cadd_ceq. split; cbn; ring.
    + reflexivity.
  - destruct (weqb (fst e) w) eqn:E; cbn [coef fst snd].
    + apply weqb_eq in E. subst w. destruct (weqb (fst e) v).
      * rewrite cadd_ceq. split; cbn; ring.
      * split; cbn; ring.
    + rewrite IH. apply cplus_assoc.
Qed.

Lemma coef_saccum : forall R acc v, ceq (coef (saccum R acc) v) (cplus (coef acc v) (coef R v)).
Proof.
  unfold saccum. induction R as [|e r IH]; intros acc v; cbn [fold_left coef].
  - symmetry. apply cplus_0_r.
  - rewrite IH, coef_sins. split; cbn; ring.
Qed.

Lemma coef_sprune : forall A v, ceq (coef (sprune A) v) (coef A v).
Proof.
  induction A as [|e r IH]; intro v; cbn [sprune filter coef]; [reflexivity|].
  fold (sprune r). destruct (czero (snd e)) eqn:E; cbn [negb coef].
  - rewrite IH. apply czero_ceq in E. destruct (weqb (fst e) v).
    + rewrite E, cplus_0_l. reflexivity.
    + rewrite cplus_0_l. reflexivity.
  - rewrite IH. reflexivity.
Qed.

Lemma coef_smul : forall A B v, ceq (coef (smul A B) v) (coef (rmul A B) v).
Proof. intros. unfold smul. rewrite coef_saccum. cbn [coef]. apply cplus_0_l. Qed.

Lemma coef_sadd : forall A B v, ceq (coef (sadd A B) v) (cplus (coef A v) (coef B v)).
Proof. intros. unfold sadd. rewrite !coef_saccum. cbn [coef]. rewrite cplus_0_l. reflexivity. Qed.

Lemma coef_anticomm : forall A B v,
  ceq (coef (anticomm A B) v) (cplus (coef (rmul A B) v) (coef (rmul B A) v)).
Proof. intros. unfold anticomm. rewrite coef_sprune, coef_sadd, !coef_smul. reflexivity. Qed.

Lemma coef_sscale : forall c A v, ceq (coef (sscale c A) v) (cmulx (coef A v) c).
Proof.
  induction A as [|e r IH]; intro v; cbn [sscale map coef fst snd].
  - symmetry. apply cmulx_0_l.
  - fold (sscale c r). rewrite IH, cmulx_plus_l. destruct (weqb (fst e) v).
    + rewrite cmul_ceq. reflexivity.
    + rewrite cmulx_0_l. reflexivity.
Qed.

(* soundness of the decision procedure used in the bounded clauses *)
Lemma sent_eqb_sound : forall A B, sent_eqb A B = true -> sequiv A B.
Proof.
  intros A B H v. unfold sent_eqb in H.
  destruct (sprune (saccum (sscale (cneg c1) B) (saccum A []))) eqn:E; [|discriminate].
  pose proof (coef_sprune (saccum (sscale (cneg c1) B) (saccum A [])) v) as H1.
  rewrite E in H1. cbn [coef] in H1.
  rewrite !coef_saccum, coef_sscale in H1. cbn [coef] in H1.
  destruct H1 as [Ha Hb]. cbn in Ha, Hb. split; lra.
Qed.

(* ------------------------------------------------------------------ Jordan-Wigner CAR, all register sizes *)
Lemma ci_pow_0 : forall c, ci_pow 0 c = c. Proof. reflexivity. Qed.
Lemma ci_pow_1 : forall c, ci_pow 1 c = (- snd c, fst c)%Q. Proof. reflexivity. Qed.
Lemma ci_pow_3 : forall c, ci_pow 3 c = (snd c, - fst c)%Q. Proof. reflexivity. Qed.

Lemma ci_pow_cancel : forall k a b, (k = 1 \/ k = 3)%Z ->
  ceq (cplus (ci_pow k (cmul a b)) (ci_pow ((- k) mod 4) (cmul b a))) c0.
Proof.
  intros k a b H.
  pose proof (cmul_ceq a b) as HX. pose proof (cmul_ceq b a) as HY.
  revert HX HY. generalize (cmul a b) (cmul b a). intros X Y [H1 H2] [H3 H4].
  cbn [cmulx fst snd] in H1, H2, H3, H4.
  destruct H; subst k.
  - change ((- (1)) mod 4)%Z with 3%Z. rewrite ci_pow_1, ci_pow_3.
    split; cbn [cplus fst snd c0]; rewrite ?H1, ?H2, ?H3, ?H4; ring.
  - change ((- (3)) mod 4)%Z with 1%Z. rewrite ci_pow_1, ci_pow_3.
    split; cbn [cplus fst snd c0]; rewrite ?H1, ?H2, ?H3, ?H4; ring.
Qed.

Lemma term_cancel : forall (a b : pword) (ca cb : C) v,
  (fst (wmul a b) = 1 \/ fst (wmul a b) = 3)%Z ->
  ceq (cplus (if weqb (snd (wmul a b)) v then ci_pow (fst (wmul a b)) (cmul ca cb) else c0)
             (if weqb (snd (wmul b a)) v then ci_pow (fst (wmul b a)) (cmul cb ca) else c0)) c0.
Proof.
  intros a b ca cb v H. destruct (wmul_swap a b) as [Hw Hk]. rewrite Hw, Hk.
  destruct (weqb (snd (wmul a b)) v).
  - apply ci_pow_cancel. exact H.
  - apply cplus_0_l.
Qed.

Lemma jw_car_lt : forall n p q s t, p < q -> q < n ->
  forall v, ceq (coef (anticomm (jw_op n (p, s)) (jw_op n (q, t))) v) c0.
Proof.
  intros n p q s t Hpq Hqn v. rewrite coef_anticomm. unfold jw_op.
  cbn [fst snd rmul flat_map map app coef].
  pose proof (term_cancel (jw_word n p PX) (jw_word n q PX) half half v
                (jw_words_phase_odd p n q PX PX Hpq Hqn (or_introl eq_refl))) as E1.
  pose proof (term_cancel (jw_word n p PX) (jw_word n q PY) half (ycoef t) v
                (jw_words_phase_odd p n q PX PY Hpq Hqn (or_introl eq_refl))) as E2.
  pose proof (term_cancel (jw_word n p PY) (jw_word n q PX) (ycoef s) half v
                (jw_words_phase_odd p n q PY PX Hpq Hqn (or_intror eq_refl))) as E3.
  pose proof (term_cancel (jw_word n p PY) (jw_word n q PY) (ycoef s) (ycoef t) v
                (jw_words_phase_odd p n q PY PY Hpq Hqn (or_intror eq_refl))) as E4.
  revert E1 E2 E3 E4.
  generalize (if weqb (snd (wmul (jw_word n p PX) (jw_word n q PX))) v
              then ci_pow (fst (wmul (jw_word n p PX) (jw_word n q PX))) (cmul half half) else c0).
  generalize (if weqb (snd (wmul (jw_word n q PX) (jw_word n p PX))) v
              then ci_pow (fst (wmul (jw_word n q PX) (jw_word n p PX))) (cmul half half) else c0).
  generalize (if weqb (snd (wmul (jw_word n p PX) (jw_word n q PY))) v
              then ci_pow (fst (wmul (jw_word n p PX) (jw_word n q PY))) (cmul half (ycoef t)) else c0).
  generalize (if weqb (snd (wmul (jw_word n q PY) (jw_word n p PX))) v
              then ci_pow (fst (wmul (jw_word n q PY) (jw_word n p PX))) (cmul (ycoef t) half) else c0).
  generalize (if weqb (snd (wmul (jw_word n p PY) (jw_word n q PX))) v
              then ci_pow (fst (wmul (jw_word n p PY) (jw_word n q PX))) (cmul (ycoef s) half) else c0).
  generalize (if weqb (snd (wmul (jw_word n q PX) (jw_word n p PY))) v
              then ci_pow (fst (wmul (jw_word n q PX) (jw_word n p PY))) (cmul half (ycoef s)) else c0).
  generalize (if weqb (snd (wmul (jw_word n p PY) (jw_word n q PY))) v
              then ci_pow (fst (wmul (jw_word n p PY) (jw_word n q PY))) (cmul (ycoef s) (ycoef t)) else c0).
  generalize (if weqb (snd (wmul (jw_word n q PY) (jw_word n p PY))) v
              then ci_pow (fst (wmul (jw_word n q PY) (jw_word n p PY))) (cmul (ycoef t) (ycoef s)) else c0).
  intros y4 x4 y3 x3 y2 x2 y1 x1 [A1 B1] [A2 B2] [A3 B3] [A4 B4].
  cbn [cplus fst snd c0] in *. split; cbn [cplus fst snd c0]; lra.
Qed.

Lemma jw_car_eq : forall n p s t, p < n ->
  forall v, ceq (coef (anticomm (jw_op n (p, s)) (jw_op n (p, t))) v) (coef (delta_ident n (xorb s t)) v).
Proof.
  intros n p s t Hp v. rewrite coef_anticomm. unfold jw_op.
  cbn [fst snd rmul flat_map map app coef].
  rewrite !(jw_words_same_site p n) by assumption. cbn [pmul fst snd].
  rewrite (site_word_I n p Hp).
  destruct s, t; cbn [xorb delta_ident ident coef fst snd];
    generalize (weqb (repeat PI n) v), (weqb (site_word n p PZ) v); intros b1 b2;
    destruct b1, b2; vm_compute; split; reflexivity.
Qed.

Lemma coef_anticomm_comm : forall A B v, ceq (coef (anticomm A B) v) (coef (anticomm B A) v).
Proof. intros. rewrite !coef_anticomm. apply cplus_comm. Qed.

Lemma jw_car_all : forall n p q s t, p < n -> q < n ->
  sequiv (anticomm (jw_op n (p, s)) (jw_op n (q, t))) (delta_ident n (Nat.eqb p q && xorb s t)).
Proof.
  intros n p q s t Hp Hq v.
  destruct (lt_eq_lt_dec p q) as [[H|H]|H].
  - replace (Nat.eqb p q) with false by (symmetry; apply Nat.eqb_neq; lia).
    cbn [andb delta_ident coef]. apply jw_car_lt; assumption.
  - subst q. rewrite Nat.eqb_refl. cbn [andb]. apply jw_car_eq; assumption.
  - replace (Nat.eqb p q) with false by (symmetry; apply Nat.eqb_neq; lia).
    cbn [andb delta_ident coef]. rewrite coef_anticomm_comm. apply jw_car_lt; assumption.
Qed.

(* ------------------------------------------------------------------ products, sums, scalars, adjoint *)
Lemma sequence_app : forall {A} (l1 l2 : list (option A)),
  sequence (l1 ++ l2) = match sequence l1, sequence l2 with Some a, Some b => Some (a ++ b) | _, _ => None end.
Proof.
  induction l1 as [|x r IH]; intro l2; cbn [app sequence].
  - destruct (sequence l2); reflexivity.
  - destruct x as [x|]; [|reflexivity]. rewrite IH.
    destruct (sequence r), (sequence l2); reflexivity.
Qed.

(* the image of a word is the ordered product of the images of its ladder operators *)
Lemma fw_image_app : forall m n u v,
  fw_image m n (u ++ v) =
  match fw_image m n u, sequence (map (op_image m n) v) with
  | Some A, Some imgs => Some (fold_left smul imgs A)
  | _, _ => None
  end.
Proof.
  intros. unfold fw_image. rewrite map_app, sequence_app.
  destruct (sequence (map (op_image m n) u)), (sequence (map (op_image m n) v)); cbn [omap]; try reflexivity.
  unfold prod_images. rewrite fold_left_app. reflexivity.
Qed.

Lemma fw_image_snoc : forall m n w l,
  fw_image m n (w ++ [l]) =
  match fw_image m n w, op_image m n l with Some A, Some B => Some (smul A B) | _, _ => None end.
Proof.
  intros. rewrite fw_image_app. cbn [map sequence].
  destruct (fw_image m n w), (op_image m n l); reflexivity.
Qed.

Lemma fw_image_fold : forall m n w imgs, sequence (map (op_image m n) w) = Some imgs ->
  fw_image m n w = Some (fold_left smul imgs (ident n)).
Proof. intros m n w imgs H. unfold fw_image. rewrite H. reflexivity. Qed.

Lemma coef_lin : forall l v, ceq (coef (sprune (saccum (fs_raw l) [])) v) (coef (fs_raw l) v).
Proof. intros. rewrite coef_sprune, coef_saccum. cbn [coef]. apply cplus_0_l. Qed.

Lemma fs_image_add : forall m n S1 S2 A1 A2,
  fs_image m n S1 = Some A1 -> fs_image m n S2 = Some A2 ->
  exists A, fs_image m n (S1 ++ S2) = Some A /\ forall v, ceq (coef A v) (cplus (coef A1 v) (coef A2 v)).
Proof.
  intros m n S1 S2 A1 A2 H1 H2. unfold fs_image in *. rewrite map_app, sequence_app.
  destruct (sequence (map _ S1)) as [l1|]; [|discriminate].
  destruct (sequence (map _ S2)) as [l2|]; [|discriminate].
  cbn [omap] in *. injection H1 as <-. injection H2 as <-.
  eexists. split; [reflexivity|]. intro v.
  rewrite !coef_lin. unfold fs_raw. rewrite flat_map_app, coef_app. reflexivity.
Qed.

Lemma sequence_scale : forall m n c S,
  sequence (map (fun fc => omap (fun i => (i, snd fc)) (fw_image m n (fst fc))) (fsscale c S)) =
  omap (map (fun ic => (fst ic, cmul (snd ic) c)))
       (sequence (map (fun fc => omap (fun i => (i, snd fc)) (fw_image m n (fst fc))) S)).
Proof.
  induction S as [|e r IH]; cbn [fsscale map sequence omap fst snd]; [reflexivity|].
  fold (fsscale c r). destruct (fw_image m n (fst e)); cbn [omap]; [|reflexivity].
  rewrite IH.
  destruct (sequence (map (fun fc => omap (fun i => (i, snd fc)) (fw_image m n (fst fc))) r)); reflexivity.
Qed.

Lemma coef_fs_raw_scale : forall c l v,
  ceq (coef (fs_raw (map (fun ic => (fst ic, cmul (snd ic) c)) l)) v) (cmulx (coef (fs_raw l) v) c).
Proof.
  induction l as [|ic r IH]; intro v; cbn [map fs_raw flat_map fst snd coef].
  - symmetry. apply cmulx_0_l.
  - fold (fs_raw r). fold (fs_raw (map (fun ic => (fst ic, cmul (snd ic) c)) r)).
    rewrite !coef_app, IH, cmulx_plus_l, !coef_sscale, cmul_ceq, cmulx_assoc. reflexivity.
Qed.

Lemma fs_image_scale : forall m n c S A, fs_image m n S = Some A ->
  exists A', fs_image m n (fsscale c S) = Some A' /\ forall v, ceq (coef A' v) (cmulx (coef A v) c).
Proof.
  intros m n c S A H. unfold fs_image in *. rewrite sequence_scale.
  destruct (sequence _) as [l|]; [|discriminate]. cbn [omap] in *. injection H as <-.
  eexists. split; [reflexivity|]. intro v. rewrite !coef_lin. apply coef_fs_raw_scale.
Qed.

(* the image of a creation operator is the adjoint of the image of the annihilation operator *)
Lemma op_image_adj : forall m n p s, op_image m n (p, negb s) = omap sadj (op_image m n (p, s)).
Proof.
  intros m n p s. destruct m; unfold op_image.
  - destruct s; reflexivity.
  - unfold pt_op. cbn [fst snd]. destruct (Nat.ltb p n); destruct s; reflexivity.
  - unfold bk_op. cbn [fst snd]. cbv zeta. destruct (negb (Nat.ltb p n)); [reflexivity|].
    destruct (update_set (S (S n)) p (bin_range n) n), (parity_set (S (S n)) p (bin_range n)),
      (flip_set (S (S n)) p (bin_range n)); destruct s; reflexivity.
Qed.

(* ------------------------------------------------------------------ bounded clauses (parity, Bravyi-Kitaev) *)
Lemma in_all_ops : forall n l, fst l < n -> In l (all_ops n).
Proof.
  intros n [p s] H. cbn [fst] in H. unfold all_ops. apply in_flat_map. exists p. split.
  - apply in_seq. lia.
  - destruct s; cbn; auto.
Qed.

Lemma in_all_words : forall ops L w, length w <= L -> Forall (fun l => In l ops) w -> In w (all_words ops L).
Proof.
  intros ops. induction L as [|L IH]; intros w Hl Hw.
  - destruct w; [left; reflexivity | cbn in Hl; lia].
  - destruct w as [|l r]; cbn [all_words]; [left; reflexivity|].
    right. apply in_flat_map. inversion Hw; subst. exists l. split; [assumption|].
    apply in_map. apply IH; [cbn in Hl; lia | assumption].
Qed.

Lemma car_ok_le6 : forall m n, n <= 6 -> car_ok m n = true.
Proof.
  intros m n H. destruct m; do 7 (destruct n as [|n]; [vm_compute; reflexivity|]); lia.
Qed.

Lemma car_bounded : forall m n l1 l2, n <= 6 -> fst l1 < n -> fst l2 < n ->
  exists A B, op_image m n l1 = Some A /\ op_image m n l2 = Some B /\
              sequiv (anticomm A B) (delta_ident n (Nat.eqb (fst l1) (fst l2) && xorb (snd l1) (snd l2))).
Proof.
  intros m n l1 l2 Hn H1 H2. pose proof (car_ok_le6 m n Hn) as H. unfold car_ok in H.
  rewrite forallb_forall in H. specialize (H l1 (in_all_ops n l1 H1)).
  rewrite forallb_forall in H. specialize (H l2 (in_all_ops n l2 H2)).
  unfold car_pair_ok in H.
  destruct (op_image m n l1) as [A|]; [|discriminate]. destruct (op_image m n l2) as [B|]; [|discriminate].
  exists A, B. split; [reflexivity|]. split; [reflexivity|]. apply sent_eqb_sound. exact H.
Qed.

Lemma adj_ok_le : forall m n, n <= 5 -> adj_ok m n 3 = true.
Proof.
  intros m n H. destruct m; do 6 (destruct n as [|n]; [vm_compute; reflexivity|]); lia.
Qed.

Lemma adj_bounded : forall m n w, n <= 5 -> length w <= 3 -> Forall (fun l => fst l < n) w ->
  exists A B, fw_image m n (fadj w) = Some A /\ fw_image m n w = Some B /\ sequiv A (sadj B).
Proof.
  intros m n w Hn Hl Hw. pose proof (adj_ok_le m n Hn) as H. unfold adj_ok in H.
  rewrite forallb_forall in H.
  assert (In w (all_words (all_ops n) 3)) as Hin.
  { apply in_all_words; [assumption|]. eapply Forall_impl; [|exact Hw]. intros l; apply in_all_ops. }
  specialize (H w Hin). unfold adj_word_ok in H.
  destruct (fw_image m n (fadj w)) as [A|]; [|discriminate]. destruct (fw_image m n w) as [B|]; [|discriminate].
  exists A, B. split; [reflexivity|]. split; [reflexivity|]. apply sent_eqb_sound. exact H.
Qed.

Lemma hom_ok_le : forall m n, n <= 4 -> hom_ok m n 2 = true.
Proof.
  intros m n H. destruct m; do 5 (destruct n as [|n]; [vm_compute; reflexivity|]); lia.
Qed.

Lemma hom_bounded : forall m n u v, n <= 4 -> length u <= 2 -> length v <= 2 ->
  Forall (fun l => fst l < n) u -> Forall (fun l => fst l < n) v ->
  exists X A B, fw_image m n (fmul u v) = Some X /\ fw_image m n u = Some A /\ fw_image m n v = Some B /\
                sequiv X (smul A B).
Proof.
  intros m n u v Hn Hlu Hlv Hu Hv. pose proof (hom_ok_le m n Hn) as H. unfold hom_ok in H.
  assert (forall w, length w <= 2 -> Forall (fun l => fst l < n) w -> In w (all_words (all_ops n) 2)) as Hin.
  { intros w Hl Hw. apply in_all_words; [assumption|]. eapply Forall_impl; [|exact Hw]. intros l; apply in_all_ops. }
  rewrite forallb_forall in H. specialize (H u (Hin u Hlu Hu)).
  rewrite forallb_forall in H. specialize (H v (Hin v Hlv Hv)).
  unfold hom_pair_ok in H.
  destruct (fw_image m n (fmul u v)) as [X|]; [|discriminate].
  destruct (fw_image m n u) as [A|]; [|discriminate]. destruct (fw_image m n v) as [B|]; [|discriminate].
  exists X, A, B. split; [reflexivity|]. split; [reflexivity|]. split; [reflexivity|]. apply sent_eqb_sound. exact H.
Qed.

(* unitary equivalence on the generators: explicit CNOT networks *)
Lemma equiv_ok_le6 : forall n, n <= 6 ->
  jw_pt_equiv_ok n = true /\ jw_bk_equiv_ok n = true /\ cnot_unitary_ok n = true.
Proof.
  intros n H. do 7 (destruct n as [|n]; [vm_compute; repeat split; reflexivity|]); lia.
Qed.

Lemma jw_pt_equiv_bounded : forall n l, n <= 6 -> fst l < n ->
  exists B, pt_op n l = Some B /\ sequiv (to_parity n (jw_op n l)) B.
Proof.
  intros n l Hn Hl. destruct (equiv_ok_le6 n Hn) as [H _]. unfold jw_pt_equiv_ok in H.
  apply andb_true_iff in H. destruct H as [H _]. rewrite forallb_forall in H.
  specialize (H l (in_all_ops n l Hl)). destruct (pt_op n l) as [B|]; [|discriminate].
  exists B. split; [reflexivity|]. apply sent_eqb_sound. exact H.
Qed.

Lemma jw_bk_equiv_bounded : forall n l, n <= 6 -> fst l < n ->
  exists B, bk_op n l = Some B /\ sequiv (to_bk n (jw_op n l)) B.
Proof.
  intros n l Hn Hl. destruct (equiv_ok_le6 n Hn) as [_ [H _]]. unfold jw_bk_equiv_ok in H.
  rewrite forallb_forall in H.
  specialize (H l (in_all_ops n l Hl)). destruct (bk_op n l) as [B|]; [|discriminate].
  exists B. split; [reflexivity|]. apply sent_eqb_sound. exact H.
Qed.

Lemma cnot_unitary_bounded : forall n i j, n <= 6 -> i < j -> j < n ->
  sequiv (smul (cnot n i j) (sadj (cnot n i j))) (ident n).
Proof.
  intros n i j Hn Hij Hj. destruct (equiv_ok_le6 n Hn) as [_ [_ H]]. unfold cnot_unitary_ok in H.
  rewrite forallb_forall in H. specialize (H j ltac:(apply in_seq; lia)).
  rewrite forallb_forall in H. specialize (H i ltac:(apply in_seq; lia)).
  apply sent_eqb_sound. exact H.
Qed.
