From Coq Require Import List ZArith QArith Bool Arith Lia.
From PLV Require Import Disc.FermiModel.
Import ListNotations.
Lemma fw_image_nil : forall m n, fw_image m n [] = Some (ident n).
Proof. reflexivity. Qed.
