(* Model of the discrete parts of pennylane/qchem: structure.py (hf_state, _beta_matrix, excitations,
   excitations_to_wires), number.py (particle_number), spin.py (spinz, spin2, _spin2_matrix_elements) and the
   Fock-space semantics of fermionic words used by the conservation checkers.  Fermionic words/sentences, Pauli
   sentences and the Jordan-Wigner map are those of Disc/FermiModel.v (imported, not copied).
   No proofs here: this file must keep running for the correspondence check. *)
From Coq Require Import List ZArith QArith Bool Arith.
From PLV Require Import Disc.FermiModel.
Import ListNotations.
Local Open Scope nat_scope.

Inductive res (A : Type) := Ok (x : A) | Err.
Arguments Ok {A} x.
Arguments Err {A}.

(* ------------------------------------------------------------------ hf_state *)
(* basis.strip().lower(): "parity", "bravyi_kitaev"; every other string falls through to the occupation vector *)
Inductive hbasis := BOcc | BPar | BBK.

(* np.where(np.arange(orbitals) < electrons, 1, 0) *)
Definition occ_vec (e o : nat) : list bool := map (fun i => Nat.ltb i e) (seq 0 o).

(* one entry of (M @ state) % 2 *)
Fixpoint dot2 (a b : list bool) : bool :=
  match a, b with x :: r, y :: s => xorb (x && y) (dot2 r s) | _, _ => false end.

(* np.tril(np.ones((o, o))) : row i *)
Definition tril_row (o i : nat) : list bool := map (fun j => Nat.leb j i) (seq 0 o).

(* _beta_matrix: beta = [[1]]; for i in range(ceil_log2(o)): beta = kron(eye(2), beta); beta[-1, :2**i] = 1 *)
Definition bmat := list (list bool).
Definition kron_eye2 (m : bmat) : bmat :=
  let k := length m in map (fun r => r ++ repeat false k) m ++ map (fun r => repeat false k ++ r) m.
Definition set_last_prefix (k : nat) (m : bmat) : bmat :=
  removelast m ++ [repeat true k ++ skipn k (last m [])].
Definition beta_full (steps : nat) : bmat :=
  fold_left (fun b i => set_last_prefix (2 ^ i) (kron_eye2 b)) (seq 0 steps) [[true]].
(* qp.math.ceil_log2 *)
Definition clog2 (n : nat) : nat := clog2_aux n 0 n.
Definition beta_matrix (o : nat) : bmat := map (firstn o) (firstn o (beta_full (clog2 o))).

Definition hf_state (e o : Z) (b : hbasis) : res (list bool) :=
  if (e <=? 0)%Z then Err
  else if (e >? o)%Z then Err
  else let en := Z.to_nat e in let on := Z.to_nat o in
       let st := occ_vec en on in
       match b with
       | BOcc => Ok st
       | BPar => Ok (map (fun i => dot2 (tril_row on i) st) (seq 0 on))
       | BBK => Ok (map (fun row => dot2 row st) (beta_matrix on))
       end.

(* ------------------------------------------------------------------ excitations *)
(* twice the spin projection: sz = 0.5 if i % 2 == 0 else -0.5 *)
Definition s2 (i : nat) : Z := if Nat.even i then 1%Z else (-1)%Z.

Definition singles (e o : nat) (d : Z) : list (list nat) :=
  flat_map (fun r =>
    flat_map (fun p => if (s2 p - s2 r =? 2 * d)%Z then [[r; p]] else [])
             (seq e (o - e)))
    (seq 0 e).

Definition doubles (e o : nat) (d : Z) : list (list nat) :=
  flat_map (fun s =>
    flat_map (fun r =>
      flat_map (fun q =>
        flat_map (fun p => if (s2 p + s2 q - s2 r - s2 s =? 2 * d)%Z then [[s; r; q; p]] else [])
                 (seq (q + 1) (o - (q + 1))))
        (seq e (o - 1 - e)))
      (seq (s + 1) (e - (s + 1))))
    (seq 0 (e - 1)).

Definition dsz_ok (d : Z) : bool := ((-2 <=? d) && (d <=? 2))%Z.

Definition excitations (e o d : Z) : res (list (list nat) * list (list nat)) :=
  if negb (e >? 0)%Z then Err
  else if (o <=? e)%Z then Err
  else if negb (dsz_ok d) then Err
  else Ok (singles (Z.to_nat e) (Z.to_nat o) d, doubles (Z.to_nat e) (Z.to_nat o) d).

(* fermionic=True : FermiWord({(0, x0): "+", (1, x1): "-"}),  {(0,x0):"+", (1,x1):"+", (2,x2):"-", (3,x3):"-"} *)
Definition single_word (x : list nat) : fword :=
  match x with [r; p] => [(r, true); (p, false)] | _ => [] end.
Definition double_word (x : list nat) : fword :=
  match x with [s; r; q; p] => [(s, true); (r, true); (q, false); (p, false)] | _ => [] end.

(* ------------------------------------------------------------------ excitations_to_wires *)
Definition lmax (l : list (list nat)) : nat := fold_right (fun x a => fold_right Nat.max a x) 0 l.
Definition wrange (wires : list Z) (a b : nat) : list Z :=      (* [wires[i] for i in range(a, b + 1)] *)
  map (fun i => nth i wires 0%Z) (seq a (b + 1 - a)).

Definition excitations_to_wires (sg db : list (list nat)) (wires : option (list Z))
  : res (list (list Z) * list (list (list Z))) :=
  match sg, db with
  | [], [] => Err
  | _, _ =>
    if negb (forallb (fun x => Nat.eqb (length x) 2) sg) then Err
    else if negb (forallb (fun x => Nat.eqb (length x) 4) db) then Err
    else
      let mx := Nat.max (lmax sg) (lmax db) in
      let ws := match wires with None => Some (map Z.of_nat (seq 0 (mx + 1)))
                               | Some w => if Nat.eqb (length w) (mx + 1) then Some w else None end in
      match ws with
      | None => Err
      | Some w =>
          Ok (map (fun x => wrange w (nth 0 x 0) (nth 1 x 0)) sg,
              map (fun x => [wrange w (nth 0 x 0) (nth 1 x 0); wrange w (nth 2 x 0) (nth 3 x 0)]) db)
      end
  end.

(* ------------------------------------------------------------------ particle_number, spinz, spin2 (fermionic sentences) *)
Definition cq (q : Q) : C := (q, 0%Q).
Definition nword (i : nat) : fword := [(i, true); (i, false)].
Definition szq (i : nat) : Q := if Nat.even i then (1 # 2)%Q else (- (1 # 2))%Q.

Definition number_fs (n : nat) : fsent := map (fun i => (nword i, c1)) (seq 0 n).
Definition spinz_fs (n : nat) : fsent := map (fun i => (nword i, cq (szq i))) (seq 0 n).

(* _spin2_matrix_elements: rows [alpha, beta, gamma, delta, value]; the diagonal block first, in argwhere order *)
Definition word4 (a b g d : nat) : fword := [(a, true); (b, true); (g, false); (d, false)].
Definition tuples4 (n : nat) : list (nat * nat * nat * nat) :=
  flat_map (fun a => flat_map (fun b => flat_map (fun g => map (fun d => (a, b, g, d)) (seq 0 n)) (seq 0 n)) (seq 0 n)) (seq 0 n).
Definition sp (i : nat) : nat := Nat.div2 i.
Definition spin2_mask (t : nat * nat * nat * nat) : bool :=
  let '(a, b, g, d) := t in Nat.eqb (sp a) (sp d) && Nat.eqb (sp b) (sp g).
Definition spin2_diag (n : nat) : fsent :=
  map (fun t => let '(a, b, g, d) := t in (word4 a b g d, cq (szq a * szq b)%Q))
      (filter (fun t => let '(a, b, g, d) := t in
                 spin2_mask t && (Z.eqb (s2 a) (s2 d) && Z.eqb (s2 b) (s2 g))) (tuples4 n)).
Definition spin2_off (n : nat) : fsent :=
  map (fun t => let '(a, b, g, d) := t in (word4 a b g d, cq (1 # 2)%Q))
      (filter (fun t => let '(a, b, g, d) := t in
                 spin2_mask t &&
                 ((Z.eqb (s2 a) (s2 d + 2) && Z.eqb (s2 b) (s2 g - 2)) ||
                  (Z.eqb (s2 a) (s2 d - 2) && Z.eqb (s2 b) (s2 g + 2)))) (tuples4 n)).
Definition spin2_fs (e n : nat) : fsent :=
  ([], cq ((3 # 4) * inject_Z (Z.of_nat e))%Q) :: spin2_diag n ++ spin2_off n.

Inductive obs_kind := ONumber | OSpinz | OSpin2.
Definition observable_fs (k : obs_kind) (e n : Z) : res fsent :=
  match k with
  | ONumber => if (n <=? 0)%Z then Err else Ok (number_fs (Z.to_nat n))
  | OSpinz => if (n <=? 0)%Z then Err else Ok (spinz_fs (Z.to_nat n))
  | OSpin2 => if (e <=? 0)%Z then Err else if (n <=? 0)%Z then Err else Ok (spin2_fs (Z.to_nat e) (Z.to_nat n))
  end.
(* qubit_observable(sentence) = Jordan-Wigner image, pruned *)
Definition observable_ps (k : obs_kind) (e n : Z) : res psent :=
  match observable_fs k e n with
  | Err => Err
  | Ok F => match fs_image JW (Z.to_nat n) F with Some A => Ok A | None => Err end
  end.

(* ------------------------------------------------------------------ Fock-space semantics of fermionic words *)
Definition occ := list bool.
Fixpoint parity_below (p : nat) (b : occ) : bool :=
  match p, b with S k, x :: r => xorb x (parity_below k r) | _, _ => false end.
Fixpoint setbit (p : nat) (v : bool) (b : occ) : occ :=
  match b, p with
  | [], _ => []
  | _ :: r, O => v :: r
  | x :: r, S k => x :: setbit k v r
  end.
(* a^dagger_p |b> = (-1)^(n_0+..+n_{p-1}) |b + p>  if p is empty, 0 otherwise;  a_p likewise if p is occupied *)
Definition lad_apply (l : ladder) (sb : bool * occ) : option (bool * occ) :=
  let b := snd sb in
  if Nat.ltb (fst l) (length b) then
    if Bool.eqb (nth (fst l) b false) (snd l) then None
    else Some (xorb (fst sb) (parity_below (fst l) b), setbit (fst l) (snd l) b)
  else None.
(* an operator product acts with its right-most factor first *)
Fixpoint fw_apply (w : fword) (sb : bool * occ) : option (bool * occ) :=
  match w with
  | [] => Some sb
  | l :: r => match fw_apply r sb with Some sb' => lad_apply l sb' | None => None end
  end.

(* the diagonal one-body observable O_wt = sum_p wt(p) a^dagger_p a_p has eigenvalue sum_p wt(p) n_p on |b> *)
Fixpoint diag_val (wt : nat -> Z) (i : nat) (b : occ) : Z :=
  match b with [] => 0%Z | x :: r => ((if x then wt i else 0) + diag_val wt (S i) r)%Z end.
(* the change of that eigenvalue produced by a word *)
Definition shift (wt : nat -> Z) (w : fword) : Z :=
  fold_right (fun (l : ladder) (a : Z) => ((if snd l then wt (fst l) else - wt (fst l)) + a)%Z) 0%Z w.

Definition wt_one (_ : nat) : Z := 1%Z.
(* formal vectors: integer combinations of signed basis states *)
Definition fvec := list (Z * (bool * occ)).
Definition O_apply (wt : nat -> Z) (v : fvec) : fvec :=
  map (fun t => ((fst t * diag_val wt 0 (snd (snd t)))%Z, snd t)) v.
Definition W_apply (w : fword) (v : fvec) : fvec :=
  flat_map (fun t => match fw_apply w (snd t) with Some sb => [(fst t, sb)] | None => [] end) v.

(* the verified checkers *)
Definition conserves_number (F : fsent) : bool := forallb (fun t => Z.eqb (shift wt_one (fst t)) 0) F.
Definition conserves_sz (F : fsent) : bool := forallb (fun t => Z.eqb (shift s2 (fst t)) 0) F.
Definition is_hermitian_sentence (A : psent) : bool := forallb (fun t => Qeq_bool (snd (snd t)) 0) A.

(* ------------------------------------------------------------------ Jordan-Wigner image versus Fock semantics (bounded clauses) *)
Definition p_apply (P : pauli) (x : bool) : Z * bool :=
  match P with
  | PI => (0%Z, x)
  | PX => (0%Z, negb x)
  | PY => ((if x then 3 else 1)%Z, negb x)
  | PZ => ((if x then 2 else 0)%Z, x)
  end.
Fixpoint pw_apply (w : pword) (b : occ) : Z * occ :=
  match w, b with
  | P :: r, x :: s => let ky := p_apply P x in let ks := pw_apply r s in
                      (((fst ky + fst ks) mod 4)%Z, snd ky :: snd ks)
  | _, _ => (0%Z, b)
  end.
Fixpoint occ_eqb (a b : occ) : bool :=
  match a, b with [], [] => true | x :: r, y :: s => Bool.eqb x y && occ_eqb r s | _, _ => false end.
(* <b'| A |b> *)
Definition ps_amp (A : psent) (b b' : occ) : C :=
  fold_right (fun t a => let kb := pw_apply (fst t) b in
                         if occ_eqb (snd kb) b' then cadd (ci_pow (fst kb) (snd t)) a else a) c0 A.
Definition fock_amp (w : fword) (b b' : occ) : C :=
  match fw_apply w (false, b) with
  | Some (sg, b2) => if occ_eqb b2 b' then (if sg then cneg c1 else c1) else c0
  | None => c0
  end.
Fixpoint all_occ (n : nat) : list occ :=
  match n with O => [[]] | S k => flat_map (fun b => [false :: b; true :: b]) (all_occ k) end.
Definition jw_fock_word_ok (n : nat) (w : fword) : bool :=
  match fw_image JW n w with
  | Some A => forallb (fun b => forallb (fun b' => ceqb (ps_amp A b b') (fock_amp w b b')) (all_occ n)) (all_occ n)
  | None => false
  end.
Definition jw_fock_ok (n L : nat) : bool := forallb (jw_fock_word_ok n) (all_words (all_ops n) L).

Definition commutator (A B : psent) : psent := sprune (saccum (sscale (cneg c1) (smul B A)) (saccum (smul A B) [])).
Definition jw_obs (k : obs_kind) (n : nat) : psent :=
  match observable_ps k 1%Z (Z.of_nat n) with Ok A => A | Err => [] end.
Definition jw_commutes_word_ok (k : obs_kind) (n : nat) (w : fword) : bool :=
  match fw_image JW n w with
  | Some W => match commutator W (jw_obs k n) with [] => true | _ => false end
  | None => false
  end.
Definition balanced (wt : nat -> Z) (w : fword) : bool := Z.eqb (shift wt w) 0.
Definition jw_commutes_ok (k : obs_kind) (wt : nat -> Z) (n L : nat) : bool :=
  forallb (fun w => implb (balanced wt w) (jw_commutes_word_ok k n w)) (all_words (all_ops n) L).

(* closed-form counts for delta_sz = 0 *)
Definition n_up (k : nat) : nat := Nat.div2 (k + 1).      (* even indices below k *)
Definition n_dn (k : nat) : nat := Nat.div2 k.            (* odd indices below k *)
Definition choose2 (k : nat) : nat := Nat.div2 (k * (k - 1)).
Definition singles_count0 (e o : nat) : nat :=
  n_up e * (n_up o - n_up e) + n_dn e * (n_dn o - n_dn e).
Definition doubles_count0 (e o : nat) : nat :=
  choose2 (n_up e) * choose2 (n_up o - n_up e) + choose2 (n_dn e) * choose2 (n_dn o - n_dn e)
  + n_up e * n_dn e * ((n_up o - n_up e) * (n_dn o - n_dn e)).
Definition counts_ok (o : nat) : bool :=
  forallb (fun e => Nat.eqb (length (singles e o 0%Z)) (singles_count0 e o)
                    && Nat.eqb (length (doubles e o 0%Z)) (doubles_count0 e o)) (seq 0 (S o)).

(* the Bravyi-Kitaev matrix of hf_state versus the update sets of fermi/conversion.py (FermiModel.bk_update) *)
Definition beta_matches_update (o : nat) : bool :=
  let B := beta_matrix o in
  forallb (fun j => forallb (fun i =>
     Bool.eqb (nth i (nth j B []) false) (Nat.eqb i j || existsb (Nat.eqb j) (bk_update o i))) (seq 0 o)) (seq 0 o).

(* ------------------------------------------------------------------ correspondence *)
Fixpoint ln_eqb (a b : list nat) : bool :=
  match a, b with [], [] => true | x :: r, y :: s => Nat.eqb x y && ln_eqb r s | _, _ => false end.
Fixpoint lz_eqb (a b : list Z) : bool :=
  match a, b with [], [] => true | x :: r, y :: s => Z.eqb x y && lz_eqb r s | _, _ => false end.
Fixpoint list_eqb {A} (f : A -> A -> bool) (a b : list A) : bool :=
  match a, b with [], [] => true | x :: r, y :: s => f x y && list_eqb f r s | _, _ => false end.

Inductive qcase :=
| QHf (e o : Z) (b : hbasis) (expected : option (list bool))
| QExc (e o d : Z) (expected : option (list (list nat) * list (list nat)))
| QExcF (e o d : Z) (expected : option (list fword * list fword))
| QWires (sg db : list (list nat)) (wires : option (list Z)) (expected : option (list (list Z) * list (list (list Z))))
| QObs (k : obs_kind) (e n : Z) (expected : option (list (sparse * C)))
| QCons (words : list fword) (exp_number exp_sz : bool)
| QHerm (A : list (sparse * C)) (n : nat) (expected : bool).

Definition check_case (c : qcase) : bool :=
  match c with
  | QHf e o b ex =>
      match hf_state e o b, ex with
      | Err, None => true | Ok s, Some s' => occ_eqb s s' | _, _ => false end
  | QExc e o d ex =>
      match excitations e o d, ex with
      | Err, None => true
      | Ok (s, db), Some (s', db') => list_eqb ln_eqb s s' && list_eqb ln_eqb db db'
      | _, _ => false end
  | QExcF e o d ex =>
      match excitations e o d, ex with
      | Err, None => true
      | Ok (s, db), Some (s', db') => list_eqb fw_eqb (map single_word s) s' && list_eqb fw_eqb (map double_word db) db'
      | _, _ => false end
  | QWires sg db w ex =>
      match excitations_to_wires sg db w, ex with
      | Err, None => true
      | Ok (a, b), Some (a', b') => list_eqb lz_eqb a a' && list_eqb (list_eqb lz_eqb) b b'
      | _, _ => false end
  | QObs k e n ex =>
      match observable_ps k e n, ex with
      | Err, None => true
      | Ok A, Some E => sent_matches (Z.to_nat n) A E
      | _, _ => false end
  | QCons ws en es =>
      let F := map (fun w => (w, c1)) ws in
      Bool.eqb (conserves_number F) en && Bool.eqb (conserves_sz F) es
  | QHerm E n ex =>
      match sequence (map (fun e => omap (fun w => (w, snd e)) (of_sparse n (fst e))) E) with
      | Some A => Bool.eqb (is_hermitian_sentence A) ex
      | None => false
      end
  end.
