(* Model of finite-shot sampling in pennylane/devices/qubit/sampling.py
     sample_state, sample_probs, _sample_probs_numpy, _sample_probs_jax,
     _measure_with_samples_diagonalizing_gates / measure_with_samples (one measurement group),
   of ProbabilityMP.process_state (measurements/probs.py: marginalisation onto the sampled wires),
   and of the part of process_raw_samples / CountsMP._samples_to_counts that turns the bit rows of
   one shot bin into samples, eigenvalue samples and counts.
   No proofs here: this file must keep running for the correspondence check even when a proof breaks.

   Numbers.  A probability vector is given by integer weights w_k over a common denominator D
   (p_k = w_k / D; any finite list of rationals has this form).  W = sum w is the norm times D.
   The random generator is an oracle: an explicit list of rational uniform variates u in [0,1)
   (type Q).  numpy's Generator.choice(a, size, p) is   cdf = cumsum(p); cdf /= cdf[-1];
   idx = cdf.searchsorted(random(size), side='right'); a[idx]   so that  idx = first k with
   u < cum_k / W,  i.e.  u * W < cum_k  (W > 0) -- this cross-multiplied form is what is computed. *)
From Coq Require Import List ZArith Bool QArith.
Import ListNotations.
Open Scope Z_scope.

Inductive result (A : Type) := Ok (a : A) | Err.
Arguments Ok {A} a.
Arguments Err {A}.

Definition b2z (b : bool) : Z := if b then 1 else 0.
Definition sumZ (l : list Z) : Z := fold_right Z.add 0 l.
Definition lenZ {A} (l : list A) : Z := Z.of_nat (length l).

Fixpoint map_opt {A B} (f : A -> option B) (l : list A) : option (list B) :=
  match l with
  | [] => Some []
  | x :: r => match f x, map_opt f r with Some y, Some s => Some (y :: s) | _, _ => None end
  end.

(* ------------------------------------------------------------------ index <-> bitstring *)
(* powers_of_two = 1 << np.arange(num_wires)[::-1] *)
Definition powers_of_two (n : nat) : list Z := rev (map (fun j => Z.shiftl 1 (Z.of_nat j)) (seq 0 n)).
(* (samples[..., None] & powers_of_two) > 0 *)
Definition bits_of_index (n : nat) (k : Z) : list bool := map (fun p => 0 <? Z.land k p) (powers_of_two n).
(* indices = samples @ powers_of_two   (process_raw_samples; also int(bitstring, 2)) *)
Fixpoint dot (a b : list Z) : Z := match a, b with x :: r, y :: s => x * y + dot r s | _, _ => 0 end.
Definition index_of_bits (bs : list bool) : Z := dot (map b2z bs) (powers_of_two (length bs)).

(* np.arange(2**m) *)
Definition basis_states (m : nat) : list Z := map Z.of_nat (seq 0 (2 ^ m)).

(* samples[..., mapped_wires] *)
Definition select (ws : list nat) (row : list bool) : list bool := map (fun i => nth i row false) ws.

Fixpoint eq_lb (a b : list bool) : bool :=
  match a, b with [], [] => true | x :: r, y :: s => Bool.eqb x y && eq_lb r s | _, _ => false end.
Fixpoint eq_lz (a b : list Z) : bool :=
  match a, b with [], [] => true | x :: r, y :: s => (x =? y) && eq_lz r s | _, _ => false end.

(* ------------------------------------------------------------------ marginalisation *)
(* ProbabilityMP(wires=mw).process_state:  reshape to [2]*n, sum over the inactive axes, transpose so
   that output axis i is wire mw[i], flatten.  Index semantics: output entry j (m = |mw| bits,
   big-endian) collects every basis state k whose bits at the wires mw[0..m-1] spell j. *)
Definition marg_entry (n : nat) (mw : list nat) (w : list Z) (j : Z) : Z :=
  sumZ (map (fun kw => if eq_lb (select mw (bits_of_index n (fst kw))) (bits_of_index (length mw) j)
                       then snd kw else 0)
            (combine (basis_states n) w)).
Definition marginal (n : nat) (mw : list nat) (w : list Z) : list Z :=
  map (marg_entry n mw w) (basis_states (length mw)).

(* ------------------------------------------------------------------ rng.choice as inverse CDF *)
Fixpoint cumsum_from (acc : Z) (w : list Z) : list Z :=
  match w with [] => [] | x :: r => (acc + x) :: cumsum_from (acc + x) r end.
(* searchsorted(cdf, u, side='right') with cdf_k = cum_k / W : first k with u * W < cum_k *)
Fixpoint search_right (u : Q) (W : Z) (cum : list Z) : Z :=
  match cum with
  | [] => 0
  | c :: r => if Qle_bool (inject_Z c) (u * inject_Z W) then 1 + search_right u W r else 0
  end.
Definition choice_idx (w : list Z) (u : Q) : Z := search_right u (sumZ w) (cumsum_from 0 w).
(* a[idx]; None = IndexError *)
Definition choice_one (a w : list Z) (u : Q) : option Z := nth_error a (Z.to_nat (choice_idx w u)).

(* ------------------------------------------------------------------ sample_probs / sample_state *)
Inductive backend := BNumpy | BJax.

(* qp.math.any(abs(norm - 1.0) > 1e-6) with norm = W / D *)
Definition tol_bad (D W : Z) : bool := D <? Z.abs (W - D) * 1000000.

Definition all_distinct (l : list nat) : bool :=
  (fix go (l : list nat) : bool :=
     match l with [] => true | x :: r => negb (existsb (Nat.eqb x) r) && go r end) l.

(* returns the bit rows (shots x m) and the rest of the uniform stream *)
Definition sample_probs (be : backend) (D : Z) (p : list Z) (shots : Z) (m : nat) (us : list Q)
  : result (list (list bool) * list Q) :=
  let W := sumZ p in
  if (match be with BNumpy => tol_bad D W | BJax => false end) then Err      (* ValueError *)
  else if negb (forallb (fun x => 0 <=? x) p) then Err                       (* choice: negative p *)
  else if negb (length p =? 2 ^ m)%nat then Err                               (* choice: a and p differ *)
  else if lenZ us <? shots then Err                                           (* oracle exhausted *)
  else
    match map_opt (choice_one (basis_states m) p) (firstn (Z.to_nat shots) us) with
    | None => Err
    | Some ks => Ok (map (bits_of_index m) ks, skipn (Z.to_nat shots) us)
    end.

(* the probability vector handed to choice (recorded by the harness stub) *)
Definition probs_for (n : nat) (w : list Z) (wires : list nat) : list Z :=
  let ws := match wires with [] => seq 0 n | _ => wires end in marginal n ws w.

Definition sample_state (be : backend) (n : nat) (D : Z) (w : list Z) (wires : list nat) (shots : Z)
           (us : list Q) : result (list (list bool) * list Q) :=
  let ws := match wires with [] => seq 0 n | _ => wires end in     (* wires or state_wires *)
  if negb (length w =? 2 ^ n)%nat then Err
  else if negb (forallb (fun i => i <? n)%nat ws && all_distinct ws) then Err   (* KeyError / WireError *)
  else sample_probs be D (marginal n ws w) shots (length ws) us.

(* is_state_batched: one choice call per batch entry, in order, from the same generator *)
Fixpoint sample_batch (be : backend) (n : nat) (D : Z) (ws : list (list Z)) (wires : list nat) (shots : Z)
         (us : list Q) : result (list (list (list bool))) :=
  match ws with
  | [] => Ok []
  | w :: r => match sample_state be n D w wires shots us with
              | Err => Err
              | Ok (s, us') => match sample_batch be n D r wires shots us' with
                               | Err => Err
                               | Ok ss => Ok (s :: ss)
                               end
              end
  end.

(* ------------------------------------------------------------------ shot bins and post-processing *)
(* Shots.bins(): running lower bound over the expanded shot list (same as ShotsModel.bins_from) *)
Fixpoint bins_from (lb : Z) (l : list Z) : list (Z * Z) :=
  match l with [] => [] | s :: r => (lb, lb + s) :: bins_from (lb + s) r end.
(* samples[..., lower:upper, :] with 0 <= lower <= upper *)
Definition slice {A} (rows : list A) (b : Z * Z) : list A :=
  firstn (Z.to_nat (snd b - fst b)) (skipn (Z.to_nat (fst b)) rows).

Inductive mp :=
| MSample (ws : list nat)                              (* qp.sample(wires=ws); [] = all wires *)
| MCounts (ws : list nat) (all : bool)                 (* qp.counts(wires=ws, all_outcomes=all) *)
| MSampleObs (ws : list nat) (eigs : list Z)           (* qp.sample(obs): obs diagonal, wires ws, eigvals eigs *)
| MCountsObs (ws : list nat) (eigs : list Z) (all : bool).

Inductive res :=
| RBits (rows : list (list bool))
| REig (l : list Z)
| RCounts (l : list (Z * Z)).                          (* (outcome index or eigenvalue, count), sorted by key *)

Definition sel_rows (ws : list nat) (rows : list (list bool)) : list (list bool) :=
  match ws with [] => rows | _ => map (select ws) rows end.

(* process_raw_samples: eigvals == [1, -1] -> 1 - 2 * squeeze(samples); else eigvals[samples @ powers] *)
Definition eig_of (eigs : list Z) (bs : list bool) : Z :=
  if eq_lz eigs [1; -1] then 1 - 2 * b2z (hd false bs)
  else nth (Z.to_nat (index_of_bits bs)) eigs 0.

Definition count_eq (x : Z) (l : list Z) : Z := lenZ (filter (Z.eqb x) l).
(* dictionary over `keys` (all_outcomes) or over the observed keys only *)
Definition counts_over (keys : list Z) (all : bool) (vals : list Z) : list (Z * Z) :=
  filter (fun kc => all || (0 <? snd kc)) (map (fun k => (k, count_eq k vals)) keys).

Fixpoint insert_u (x : Z) (l : list Z) : list Z :=
  match l with
  | [] => [x]
  | y :: r => if x <? y then x :: l else if x =? y then l else y :: insert_u x r
  end.
Definition sort_dedupe (l : list Z) : list Z := fold_right insert_u [] l.

Definition process (n : nat) (m : mp) (rows : list (list bool)) : res :=
  match m with
  | MSample ws => RBits (sel_rows ws rows)
  | MCounts ws all =>
      let mm := match ws with [] => n | _ => length ws end in
      RCounts (counts_over (basis_states mm) all (map index_of_bits (sel_rows ws rows)))
  | MSampleObs ws eigs => REig (map (eig_of eigs) (sel_rows ws rows))
  | MCountsObs ws eigs all =>
      RCounts (counts_over (sort_dedupe eigs) all (map (eig_of eigs) (sel_rows ws rows)))
  end.

(* _measure_with_samples_diagonalizing_gates for ONE group whose diagonalising gates are empty:
   sample all wires once with total_shots, slice per bin, process every measurement on every bin.
   Result: (has_partitioned_shots, bins x measurements). *)
Definition measure (be : backend) (n : nat) (D : Z) (w : list Z) (sv : list Z) (mps : list mp) (us : list Q)
  : result (bool * list (list res)) :=
  match sample_state be n D w [] (sumZ sv) us with
  | Err => Err
  | Ok (rows, _) =>
      Ok (1 <? lenZ sv, map (fun b => map (fun m => process n m (slice rows b)) mps) (bins_from 0 sv))
  end.

(* ------------------------------------------------------------------ correspondence *)
Definition mkU (ab : Z * Z) : Q := Qmake (fst ab) (Z.to_pos (snd ab)).

Inductive case :=
| CState (be : backend) (n : nat) (D : Z) (states : list (list Z)) (wires : list nat) (shots : Z)
         (us : list (Z * Z))
| CMeasure (be : backend) (n : nat) (D : Z) (w : list Z) (sv : list Z) (mps : list mp) (us : list (Z * Z)).

Inductive outcome :=
| OErr
| OState (pcalls : option (list (list Z))) (samples : list (list (list bool)))
| OMeasure (pcalls : option (list (list Z))) (part : bool) (bins : list (list res)).

Fixpoint eq_list {A} (eq : A -> A -> bool) (a b : list A) : bool :=
  match a, b with [], [] => true | x :: r, y :: s => eq x y && eq_list eq r s | _, _ => false end.
Definition eq_zz (a b : Z * Z) : bool := (fst a =? fst b) && (snd a =? snd b).
Definition eq_res (a b : res) : bool :=
  match a, b with
  | RBits x, RBits y => eq_list eq_lb x y
  | REig x, REig y => eq_lz x y
  | RCounts x, RCounts y => eq_list eq_zz x y
  | _, _ => false
  end.
Definition eq_pcalls (expected : option (list (list Z))) (model : list (list Z)) : bool :=
  match expected with None => true | Some e => eq_list eq_lz e model end.

Definition check_case (c : case * outcome) : bool :=
  match c with
  | (CState be n D states wires shots us, o) =>
      match sample_batch be n D states wires shots (map mkU us), o with
      | Err, OErr => true
      | Ok ss, OState pc ss' =>
          eq_list (eq_list eq_lb) ss ss' && eq_pcalls pc (map (fun w => probs_for n w wires) states)
      | _, _ => false
      end
  | (CMeasure be n D w sv mps us, o) =>
      match measure be n D w sv mps (map mkU us), o with
      | Err, OErr => true
      | Ok (part, bins), OMeasure pc part' bins' =>
          Bool.eqb part part' && eq_list (eq_list eq_res) bins bins' && eq_pcalls pc [probs_for n w []]
      | _, _ => false
      end
  end.
