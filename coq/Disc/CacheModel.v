(* C05: model of pennylane/workflow/_cache_transform.py applied to a batch, with a shared cache across executions.
   tapes and results are integer codes; key : tape -> key code (QuantumScript.hash); run : tape -> result
   (the device, deterministic in analytic mode). *)
From Coq Require Import List ZArith Bool.
Import ListNotations.
Open Scope Z_scope.

Definition cache := list (Z * option Z).           (* key -> None (placeholder) | Some result *)

Fixpoint lookup (c : cache) (k : Z) : option (option Z) :=
  match c with
  | [] => None
  | (k', v) :: r => if k' =? k then Some v else lookup r k
  end.
Fixpoint set (c : cache) (k : Z) (v : option Z) : cache :=
  match c with
  | [] => [(k, v)]
  | (k', v') :: r => if k' =? k then (k, v) :: r else (k', v') :: set r k v
  end.

Inductive plan := Hit (k : Z) | Miss (k : Z).

(* phase 1: the transform is applied to each tape of the batch in order *)
Fixpoint phase1 (key : Z -> Z) (batch : list Z) (c : cache) : list Z * list plan * cache :=
  match batch with
  | [] => ([], [], c)
  | t :: r =>
      let k := key t in
      match lookup c k with
      | Some _ => let '(em, pl, c') := phase1 key r c in (em, Hit k :: pl, c')
      | None => let '(em, pl, c') := phase1 key r (set c k None) in (t :: em, Miss k :: pl, c')
      end
  end.

(* phase 2: post-processing in batch order; a miss consumes the next device result and stores it,
   a hit reads the cache (None = the RuntimeError "missing from the execution cache") *)
Fixpoint phase2 (pl : list plan) (results : list Z) (c : cache) : list (option Z) * cache :=
  match pl with
  | [] => ([], c)
  | Miss k :: r =>
      match results with
      | res :: rs => let '(out, c') := phase2 r rs (set c k (Some res)) in (Some res :: out, c')
      | [] => let '(out, c') := phase2 r [] c in (None :: out, c')
      end
  | Hit k :: r =>
      let v := match lookup c k with Some (Some x) => Some x | _ => None end in
      let '(out, c') := phase2 r results c in (v :: out, c')
  end.

Definition cache_exec (key run : Z -> Z) (batch : list Z) (c : cache) : list Z * list (option Z) * cache :=
  let '(em, pl, c1) := phase1 key batch c in
  let '(out, c2) := phase2 pl (map run em) c1 in
  (em, out, c2).

(* a history of executions sharing one cache *)
Fixpoint history (key run : Z -> Z) (batches : list (list Z)) (c : cache) : list (list Z * list (option Z)) * cache :=
  match batches with
  | [] => ([], c)
  | b :: r => let '(em, out, c') := cache_exec key run b c in
              let '(rest, c'') := history key run r c' in ((em, out) :: rest, c'')
  end.

(* ---- correspondence: functions given as association lists ---- *)
Fixpoint assoc (l : list (Z * Z)) (x : Z) : Z := match l with [] => -1 | (a, b) :: r => if a =? x then b else assoc r x end.
Definition eq_oz (a b : option Z) := match a, b with None, None => true | Some x, Some y => x =? y | _, _ => false end.
Fixpoint eq_lz (a b : list Z) := match a, b with [], [] => true | x :: r, y :: s => (x =? y) && eq_lz r s | _, _ => false end.
Fixpoint eq_loz (a b : list (option Z)) := match a, b with [], [] => true | x :: r, y :: s => eq_oz x y && eq_loz r s | _, _ => false end.
Fixpoint eq_hist (a b : list (list Z * list (option Z))) :=
  match a, b with
  | [], [] => true
  | (e, o) :: r, (e', o') :: s => eq_lz e e' && eq_loz o o' && eq_hist r s
  | _, _ => false
  end.
(* case = (key table, run table, batches, observed [(executed tapes, returned results)]) *)
Definition check_case (c : list (Z * Z) * list (Z * Z) * list (list Z) * list (list Z * list (option Z))) : bool :=
  let '(kt, rt, bs, obs) := c in eq_hist (fst (history (assoc kt) (assoc rt) bs [])) obs.
