(* Model of pennylane/fermi/conversion.py (jordan_wigner, parity_transform, bravyi_kitaev) together
   with the small part of fermi/fermionic.py (FermiWord product / adjoint) and of pauli_arithmetic
   (PauliSentence @, dict accumulation, prune) they rely on.  Exact arithmetic: Pauli words on n qubits are
   lists over {I,X,Y,Z}; coefficients are Gaussian rationals (pairs of Q, kept reduced).
   No proofs here: this file must keep running for the correspondence check. *)
From Coq Require Import List ZArith QArith Bool Arith.
Import ListNotations.
Local Open Scope nat_scope.

(* ------------------------------------------------------------------ single-qubit Paulis *)
Inductive pauli := PI | PX | PY | PZ.

Definition pauli_eqb (a b : pauli) : bool :=
  match a, b with PI, PI | PX, PX | PY, PY | PZ, PZ => true | _, _ => false end.

(* a*b = i^k c   (mul_map of pauli_arithmetic.py) *)
Definition pmul (a b : pauli) : Z * pauli :=
  match a, b with
  | PI, x => (0%Z, x)
  | x, PI => (0%Z, x)
  | PX, PX | PY, PY | PZ, PZ => (0%Z, PI)
  | PX, PY => (1%Z, PZ) | PY, PX => (3%Z, PZ)
  | PY, PZ => (1%Z, PX) | PZ, PY => (3%Z, PX)
  | PZ, PX => (1%Z, PY) | PX, PZ => (3%Z, PY)
  end.

(* ------------------------------------------------------------------ Pauli words *)
Definition pword := list pauli.

Fixpoint weqb (a b : pword) : bool :=
  match a, b with
  | [], [] => true
  | x :: r, y :: s => pauli_eqb x y && weqb r s
  | _, _ => false
  end.

(* PauliWord._matmul : site-wise product, phase exponent accumulated modulo 4;
   a missing site is the identity *)
Fixpoint wmul (a b : pword) : Z * pword :=
  match a, b with
  | x :: r, y :: s => let kc := pmul x y in let kw := wmul r s in
                      (((fst kc + fst kw) mod 4)%Z, snd kc :: snd kw)
  | [], _ => (0%Z, b)
  | _, [] => (0%Z, a)
  end.

(* dict-style construction  {..., i: P}  on a dense word (an index beyond the register is dropped) *)
Fixpoint wset (i : nat) (P : pauli) (w : pword) : pword :=
  match w, i with
  | [], _ => []
  | _ :: r, O => P :: r
  | x :: r, S j => x :: wset j P r
  end.
Definition wset_all (l : list nat) (P : pauli) (w : pword) : pword := fold_left (fun w i => wset i P w) l w.

(* ------------------------------------------------------------------ Gaussian rationals *)
Definition C := (Q * Q)%type.
Definition cred (c : C) : C := (Qred (fst c), Qred (snd c)).
Definition c0 : C := (0, 0)%Q.
Definition c1 : C := (1, 0)%Q.
Definition cadd (a b : C) : C := cred (fst a + fst b, snd a + snd b)%Q.
Definition cmul (a b : C) : C := cred (fst a * fst b - snd a * snd b, fst a * snd b + snd a * fst b)%Q.
Definition cneg (a : C) : C := (- fst a, - snd a)%Q.
Definition cconj (a : C) : C := (fst a, - snd a)%Q.
(* multiplication by i^k *)
Definition ci_pow (k : Z) (c : C) : C :=
  match (k mod 4)%Z with
  | 0%Z => c
  | 1%Z => (- snd c, fst c)%Q
  | 2%Z => (- fst c, - snd c)%Q
  | _ => (snd c, - fst c)%Q
  end.
Definition czero (c : C) : bool := Qeq_bool (fst c) 0%Q && Qeq_bool (snd c) 0%Q.
Definition ceqb (a b : C) : bool := Qeq_bool (fst a) (fst b) && Qeq_bool (snd a) (snd b).

(* ------------------------------------------------------------------ Pauli sentences (insertion-ordered dicts) *)
Definition psent := list (pword * C).

(* S[w] = S[w] + c   (missing key reads as 0) *)
Fixpoint sins (w : pword) (c : C) (S : psent) : psent :=
  match S with
  | [] => [(w, cadd c0 c)]
  | e :: r => if weqb (fst e) w then (fst e, cadd (snd e) c) :: r else e :: sins w c r
  end.
Definition saccum (R : psent) (acc : psent) : psent := fold_left (fun a e => sins (fst e) (snd e) a) R acc.

(* all pairwise products, in the loop order of PauliSentence.__matmul__ *)
Definition rmul (A B : psent) : psent :=
  flat_map (fun ea => map (fun eb => let kw := wmul (fst ea) (fst eb) in
                                     (snd kw, ci_pow (fst kw) (cmul (snd ea) (snd eb)))) B) A.
Definition smul (A B : psent) : psent := saccum (rmul A B) [].
Definition sadd (A B : psent) : psent := saccum B (saccum A []).
Definition sscale (c : C) (A : psent) : psent := map (fun e => (fst e, cmul (snd e) c)) A.
(* Pauli words are Hermitian: the adjoint conjugates the coefficients *)
Definition sadj (A : psent) : psent := map (fun e => (fst e, cconj (snd e))) A.
(* PauliSentence.prune for exact arithmetic: drop zero coefficients *)
Definition sprune (A : psent) : psent := filter (fun e => negb (czero (snd e))) A.
Definition ident (n : nat) : psent := [(repeat PI n, c1)].

(* ------------------------------------------------------------------ fermionic side *)
Definition ladder := (nat * bool)%type.          (* (orbital, true = creation "+") *)
Definition fword := list ladder.                 (* FermiWord.items() in sorted (position) order *)
Definition fsent := list (fword * C).            (* FermiSentence.items() *)

(* FermiWord.adjoint : reversed order, + <-> - *)
Definition fadj (w : fword) : fword := rev (map (fun l => (fst l, negb (snd l))) w).
(* FermiWord.__mul__ : positions of the right factor shifted by len(left) *)
Definition fmul (u v : fword) : fword := u ++ v.
Definition fsadj (S : fsent) : fsent := map (fun e => (fadj (fst e), cconj (snd e))) S.
(* FermiSentence.__mul__ by a scalar; __add__ of two sentences is modelled by list concatenation (equal keys are
   merged by the accumulation in fs_image exactly as the dict would) *)
Definition fsscale (c : C) (S : fsent) : fsent := map (fun e => (fst e, cmul (snd e) c)) S.

Definition half : C := (1 # 2, 0)%Q.
(* coeffs = {"+": -0.5j, "-": 0.5j} *)
Definition ycoef (s : bool) : C := if s then (0, - (1 # 2))%Q else (0, 1 # 2)%Q.

(* ---- Jordan-Wigner:  z_string = {i: Z for i < wire};  {.., wire: X} : 0.5 ,  {.., wire: Y} : coeffs[sign] *)
Definition jw_word (n p : nat) (P : pauli) : pword := repeat PZ p ++ P :: repeat PI (n - p - 1).
Definition jw_op (n : nat) (l : ladder) : psent :=
  [(jw_word n (fst l) PX, half); (jw_word n (fst l) PY, ycoef (snd l))].

(* ---- parity transform *)
Definition pt_w1 (n p : nat) : pword :=
  let w0 := wset_all (seq p (n - p)) PX (repeat PI n) in
  if Nat.eqb p 0 then w0 else wset (p - 1) PZ w0.
Definition pt_w2 (n p : nat) : pword :=
  wset_all (seq (p + 1) (n - p - 1)) PX (wset p PY (repeat PI n)).
Definition pt_op (n : nat) (l : ladder) : option psent :=
  if Nat.ltb (fst l) n then Some [(pt_w1 n (fst l), half); (pt_w2 n (fst l), ycoef (snd l))] else None.

(* ---- Bravyi-Kitaev index sets; `fuel` bounds the recursion on bin_range (out of fuel = None) *)
Definition omap {A B} (f : A -> B) (o : option A) : option B := match o with Some x => Some (f x) | None => None end.

Fixpoint update_set (fuel j br n : nat) : option (list nat) :=
  match fuel with
  | O => None
  | S f =>
      if Nat.odd br then Some []
      else let mid := Nat.div2 br in
           omap (filter (fun u => Nat.ltb u n))
                (if Nat.ltb j mid then omap (fun l => (br - 1) :: l) (update_set f j mid n)
                 else omap (map (fun u => u + mid)) (update_set f (j - mid) mid n))
  end.

Fixpoint parity_set (fuel j br : nat) : option (list nat) :=
  match fuel with
  | O => None
  | S f =>
      if Nat.odd br then Some []
      else let mid := Nat.div2 br in
           if Nat.ltb j mid then parity_set f j mid
           else omap (fun l => map (fun u => u + mid) l ++ [mid - 1]) (parity_set f (j - mid) mid)
  end.

Fixpoint flip_set (fuel j br : nat) : option (list nat) :=
  match fuel with
  | O => None
  | S f =>
      if Nat.odd br then Some []
      else let mid := Nat.div2 br in
           if Nat.ltb j mid then flip_set f j mid
           else if Nat.ltb j (br - 1) then omap (map (fun u => u + mid)) (flip_set f (j - mid) mid)
           else omap (fun l => map (fun u => u + mid) l ++ [mid - 1]) (flip_set f (j - mid) mid)
  end.

(* ceil_log2 : least k with n <= 2^k *)
Fixpoint clog2_aux (fuel k n : nat) : nat :=
  match fuel with O => k | S f => if Nat.leb n (2 ^ k) then k else clog2_aux f (S k) n end.
Definition bin_range (n : nat) : nat := if Nat.eqb n 0 then 0 else 2 ^ clog2_aux n 0 n.

Definition setdiff (a b : list nat) : list nat := filter (fun x => negb (existsb (Nat.eqb x) b)) a.

Definition bk_op (n : nat) (l : ladder) : option psent :=
  let p := fst l in
  if negb (Nat.ltb p n) then None else
  let br := bin_range n in
  let fuel := S (S n) in
  match update_set fuel p br n, parity_set fuel p br, flip_set fuel p br with
  | Some u, Some ps, Some fs =>
      let base := repeat PI n in
      let w1 := wset_all u PX (wset p PX (wset_all ps PZ base)) in
      let w2 := if Nat.even p then wset_all u PX (wset p PY (wset_all ps PZ base))
                else wset_all u PX (wset p PY (wset_all (setdiff ps fs) PZ base)) in
      Some [(w1, half); (w2, ycoef (snd l))]
  | _, _, _ => None
  end.

(* ---- the three word maps: qubit_operator = Identity; for item: qubit_operator @= image(item) *)
Inductive mapping := JW | PT | BK.

Definition op_image (m : mapping) (n : nat) (l : ladder) : option psent :=
  match m with JW => Some (jw_op n l) | PT => pt_op n l | BK => bk_op n l end.

Fixpoint sequence {A} (l : list (option A)) : option (list A) :=
  match l with
  | [] => Some []
  | None :: _ => None
  | Some x :: r => match sequence r with Some r' => Some (x :: r') | None => None end
  end.

Definition prod_images (n : nat) (imgs : list psent) : psent := fold_left smul imgs (ident n).

Definition fw_image (m : mapping) (n : nat) (w : fword) : option psent :=
  omap (prod_images n) (sequence (map (op_image m n) w)).

(* sentence: for fw, coeff: for pw in image(fw): acc[pw] += image[pw] * coeff ; then prune *)
Definition fs_raw (l : list (psent * C)) : psent := flat_map (fun ic => sscale (snd ic) (fst ic)) l.
Definition fs_image (m : mapping) (n : nat) (S : fsent) : option psent :=
  omap (fun l => sprune (saccum (fs_raw l) []))
       (sequence (map (fun fc => omap (fun i => (i, snd fc)) (fw_image m n (fst fc))) S)).

(* Jordan-Wigner has no register size: the model pads to 1 + the largest orbital of the whole input *)
Definition max_orb_w (w : fword) : nat := fold_right (fun l a => Nat.max (S (fst l)) a) 0 w.
Definition max_orb_s (S : fsent) : nat := fold_right (fun e a => Nat.max (max_orb_w (fst e)) a) 0 S.

(* anticommutator and the Kronecker delta sentence, used by the theorems *)
Definition anticomm (A B : psent) : psent := sprune (sadd (smul A B) (smul B A)).
Definition delta_ident (n : nat) (b : bool) : psent := if b then ident n else [].

(* ------------------------------------------------------------------ semantic view used by the theorems *)
(* unreduced complex arithmetic and the coefficient function of a sentence (sum over equal keys) *)
Definition cplus (a b : C) : C := (fst a + fst b, snd a + snd b)%Q.
Definition cmulx (a b : C) : C := (fst a * fst b - snd a * snd b, fst a * snd b + snd a * fst b)%Q.
Definition ceq (a b : C) : Prop := (fst a == fst b)%Q /\ (snd a == snd b)%Q.
Fixpoint coef (A : psent) (w : pword) : C :=
  match A with
  | [] => c0
  | e :: r => cplus (if weqb (fst e) w then snd e else c0) (coef r w)
  end.
Definition sequiv (A B : psent) : Prop := forall w, ceq (coef A w) (coef B w).

(* decision procedure for sequiv (difference prunes to nothing) and finite enumerations for the bounded clauses *)
Definition sent_eqb (A B : psent) : bool :=
  match sprune (saccum (sscale (cneg c1) B) (saccum A [])) with [] => true | _ => false end.

Definition all_ops (n : nat) : list ladder := flat_map (fun p => [(p, false); (p, true)]) (seq 0 n).
Fixpoint all_words (ops : list ladder) (L : nat) : list fword :=
  match L with
  | O => [[]]
  | S k => [] :: flat_map (fun l => map (cons l) (all_words ops k)) ops
  end.

Definition car_pair_ok (m : mapping) (n : nat) (l1 l2 : ladder) : bool :=
  match op_image m n l1, op_image m n l2 with
  | Some A, Some B => sent_eqb (anticomm A B) (delta_ident n (Nat.eqb (fst l1) (fst l2) && xorb (snd l1) (snd l2)))
  | _, _ => false
  end.
Definition car_ok (m : mapping) (n : nat) : bool :=
  forallb (fun l1 => forallb (car_pair_ok m n l1) (all_ops n)) (all_ops n).

Definition adj_word_ok (m : mapping) (n : nat) (w : fword) : bool :=
  match fw_image m n (fadj w), fw_image m n w with
  | Some A, Some B => sent_eqb A (sadj B)
  | _, _ => false
  end.
Definition adj_ok (m : mapping) (n L : nat) : bool := forallb (adj_word_ok m n) (all_words (all_ops n) L).

Definition hom_pair_ok (m : mapping) (n : nat) (u v : fword) : bool :=
  match fw_image m n (fmul u v), fw_image m n u, fw_image m n v with
  | Some X, Some A, Some B => sent_eqb X (smul A B)
  | _, _, _ => false
  end.
Definition hom_ok (m : mapping) (n L : nat) : bool :=
  forallb (fun u => forallb (hom_pair_ok m n u) (all_words (all_ops n) L)) (all_words (all_ops n) L).

(* CNOT(c,t) = (1 + Z_c + X_t - Z_c X_t)/2 is itself a Pauli sentence; conjugation U A U^dagger stays in the algebra *)
Definition cnot (n c t : nat) : psent :=
  let b := repeat PI n in
  [(b, half); (wset c PZ b, half); (wset t PX b, half); (wset t PX (wset c PZ b), cneg half)].
Definition conj_by (U A : psent) : psent := sprune (smul (smul U A) (sadj U)).
(* the ladder of CNOT(j, j+1), j = 0 .. n-2, applied in this order: occupation basis -> parity basis *)
Definition to_parity (n : nat) (A : psent) : psent :=
  fold_left (fun acc j => conj_by (cnot n j (S j)) acc) (seq 0 (n - 1)) A.
Definition jw_pt_equiv_ok (n : nat) : bool :=
  forallb (fun l => match pt_op n l with
                    | Some B => sent_eqb (to_parity n (jw_op n l)) B
                    | None => false end) (all_ops n)
  && forallb (fun j => sent_eqb (smul (cnot n j (S j)) (sadj (cnot n j (S j)))) (ident n)) (seq 0 (n - 1)).

(* occupation basis -> Bravyi-Kitaev basis: qubit j accumulates orbital i < j iff j is in the update set of i;
   rows processed from the top so that the controls still hold plain occupations *)
Definition bk_update (n i : nat) : list nat :=
  match update_set (S (S n)) i (bin_range n) n with Some u => u | None => [] end.
Definition to_bk (n : nat) (A : psent) : psent :=
  fold_left (fun acc j =>
               fold_left (fun acc' i => if existsb (Nat.eqb j) (bk_update n i)
                                        then conj_by (cnot n i j) acc' else acc') (seq 0 j) acc)
            (rev (seq 0 n)) A.
Definition jw_bk_equiv_ok (n : nat) : bool :=
  forallb (fun l => match bk_op n l with
                    | Some B => sent_eqb (to_bk n (jw_op n l)) B
                    | None => false end) (all_ops n).
Definition cnot_unitary_ok (n : nat) : bool :=
  forallb (fun j => forallb (fun i => sent_eqb (smul (cnot n i j) (sadj (cnot n i j))) (ident n)) (seq 0 j)) (seq 0 n).

(* ------------------------------------------------------------------ correspondence *)
Inductive finput := FW (w : fword) | FS (s : fsent).

Definition run_map (m : mapping) (n : nat) (x : finput) : option psent :=
  match x with
  | FW w => let n' := match m with JW => max_orb_w w | _ => n end in omap sprune (fw_image m n' w)
  | FS s => let n' := match m with JW => max_orb_s s | _ => n end in fs_image m n' s
  end.

Definition reg_size (m : mapping) (n : nat) (x : finput) : nat :=
  match m, x with JW, FW w => max_orb_w w | JW, FS s => max_orb_s s | _, _ => n end.

(* expected results arrive sparse: sorted (wire, letter) lists *)
Definition sparse := list (nat * pauli).
Definition of_sparse (n : nat) (s : sparse) : option pword :=
  if forallb (fun ip => Nat.ltb (fst ip) n) s
  then Some (fold_left (fun w ip => wset (fst ip) (snd ip) w) s (repeat PI n)) else None.

Definition sent_matches (n : nat) (A : psent) (E : list (sparse * C)) : bool :=
  match sequence (map (fun e => omap (fun w => (w, cneg (snd e))) (of_sparse n (fst e))) E) with
  | None => false
  | Some negE => match sprune (saccum negE (saccum A [])) with [] => true | _ => false end
  end.

Definition check_case (c : (mapping * nat * finput) * option (list (sparse * C))) : bool :=
  let '((m, n, x), e) := c in
  match run_map m n x, e with
  | None, None => true
  | Some A, Some E => sent_matches (reg_size m n x) A E
  | _, _ => false
  end.

(* FermiWord arithmetic used by the homomorphism / adjoint clauses *)
Fixpoint fw_eqb (a b : fword) : bool :=
  match a, b with
  | [], [] => true
  | (p, s) :: r, (q, t) :: r' => Nat.eqb p q && Bool.eqb s t && fw_eqb r r'
  | _, _ => false
  end.
Inductive fcase := FAdj (w : fword) | FMul (u v : fword).
Definition check_fcase (c : fcase * fword) : bool :=
  match fst c with
  | FAdj w => fw_eqb (fadj w) (snd c)
  | FMul u v => fw_eqb (fmul u v) (snd c)
  end.
