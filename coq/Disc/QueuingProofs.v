(* C41 -- lemmas about Disc/QueuingModel.v *)
From Coq Require Import List ZArith Bool Lia Sorted.
From PLV Require Import Disc.QueuingModel.
Import ListNotations.
Open Scope Z_scope.

(* ------------------------------------------------------------------ upd *)
Lemma upd_length : forall A c (f : A -> A) l, length (upd c f l) = length l.
Proof. induction c; destruct l; simpl; auto. Qed.

Lemma upd_upd : forall A c (f g : A -> A) l, upd c f (upd c g l) = upd c (fun x => f (g x)) l.
Proof. induction c; destruct l; simpl; auto. intros. f_equal. apply IHc. Qed.

Lemma upd_ext : forall A c (f g : A -> A) l, (forall x, f x = g x) -> upd c f l = upd c g l.
Proof. induction c; destruct l; simpl; intros; auto. - rewrite H; auto. - f_equal; auto. Qed.

Lemma upd_id : forall A c (l : list A), upd c (fun x => x) l = l.
Proof. induction c; destruct l; simpl; auto. f_equal; auto. Qed.

Lemma nth_error_upd_other : forall A c c' (f : A -> A) l, c <> c' ->
  nth_error (upd c f l) c' = nth_error l c'.
Proof.
  induction c; destruct l; intros; simpl; auto.
  - destruct c'; [congruence | reflexivity].
  - destruct c'; simpl; auto.
Qed.

Lemma nth_error_upd_same : forall A c (f : A -> A) l,
  nth_error (upd c f l) c = option_map f (nth_error l c).
Proof. induction c; destruct l; simpl; auto. Qed.

(* ------------------------------------------------------------------ replay *)
Arguments act_events : simpl never.
Lemma replay_app : forall e1 e2 qs, replay (e1 ++ e2) qs = replay e2 (replay e1 qs).
Proof. intros. unfold replay. apply fold_left_app. Qed.

Lemma replay_rems : forall c xs qs, replay (map (ERem c) xs) qs = upd c (q_remove_all xs) qs.
Proof.
  induction xs; intros; simpl.
  - unfold q_remove_all; simpl. symmetry. apply upd_id.
  - unfold replay in *. simpl. rewrite IHxs. rewrite upd_upd. apply upd_ext. reflexivity.
Qed.

Lemma replay_act : forall c pre id post qs,
  replay (act_events (Some c) pre id post) qs = upd c (on_queue pre id post) qs.
Proof.
  intros. unfold act_events. rewrite !replay_app. rewrite !replay_rems.
  unfold replay at 1. simpl. rewrite !upd_upd. apply upd_ext. reflexivity.
Qed.

Lemma perform_den : forall s pre d post,
  perform s pre d post =
  mk (heap s ++ [d]) (replay (act_events (hd_error (stack s)) pre (hlen (heap s)) post) (queues s)) (stack s).
Proof.
  intros. unfold perform. destruct (stack s) as [|c r] eqn:E.
  - reflexivity.
  - cbn [hd_error]. rewrite replay_act. reflexivity.
Qed.

Lemma replay_act_length : forall cur pre id post qs,
  length (replay (act_events cur pre id post) qs) = length qs.
Proof.
  intros. destruct cur; [|reflexivity]. rewrite replay_act. apply upd_length.
Qed.

(* ------------------------------------------------------------------ machine = denotation *)
Definition agrees (p : prog) (s : st) : Prop :=
  match den p (hd_error (stack s)) (heap s) (length (queues s)) with
  | (evs, h', n', r) =>
      exec p s = (mk h' (replay evs (queues s)) (stack s), r) /\ n' = length (replay evs (queues s))
  end.

Lemma st_eta : forall s, mk (heap s) (queues s) (stack s) = s.
Proof. destruct s; reflexivity. Qed.

Lemma exec_den : forall p s, agrees p s.
Proof.
  unfold agrees.
  induction p; intros s; simpl.
  - (* Skip *) rewrite st_eta. auto.
  - (* Seq *)
    specialize (IHp1 s).
    destruct (den p1 (hd_error (stack s)) (heap s) (length (queues s))) as [[[e1 h1] n1] r1].
    destruct IHp1 as [E1 L1]. rewrite E1.
    destruct r1; [auto|].
    specialize (IHp2 (mk h1 (replay e1 (queues s)) (stack s))). simpl in IHp2.
    rewrite <- L1 in IHp2.
    destruct (den p2 (hd_error (stack s)) h1 n1) as [[[e2 h2] n2] r2].
    destruct IHp2 as [E2 L2]. rewrite E2. rewrite replay_app. auto.
  - (* New *)
    rewrite perform_den. split; auto. rewrite replay_act_length; auto.
  - (* Wrap *)
    destruct (plan_wrap (heap s) k r1 r2) as [[[pre d] post]|].
    + rewrite perform_den. split; auto. rewrite replay_act_length; auto.
    + rewrite st_eta. auto.
  - (* Apply *)
    destruct (plan_apply (heap s) r) as [[pre d]|].
    + destruct (stack s) as [|c rest] eqn:E; simpl.
      * rewrite <- E. rewrite st_eta. auto.
      * rewrite <- E. rewrite perform_den. rewrite E. cbn [hd_error]. split; auto.
        rewrite replay_act_length. auto.
    + rewrite st_eta. auto.
  - (* With *)
    specialize (IHp (mk (heap s) (queues s ++ [[]]) (length (queues s) :: stack s))). simpl in IHp.
    rewrite app_length in IHp. simpl in IHp. rewrite Nat.add_1_r in IHp.
    destruct (den p (Some (length (queues s))) (heap s) (S (length (queues s)))) as [[[e h1] n1] r].
    destruct IHp as [E L]. rewrite E. simpl. auto.
  - (* Stop *)
    specialize (IHp (mk (heap s) (queues s) [])). simpl in IHp.
    destruct (den p None (heap s) (length (queues s))) as [[[e h1] n1] r].
    destruct IHp as [E L]. rewrite E. simpl. auto.
  - (* Try *)
    specialize (IHp s).
    destruct (den p (hd_error (stack s)) (heap s) (length (queues s))) as [[[e h1] n1] r].
    destruct IHp as [E L]. rewrite E. auto.
  - (* Raise *) rewrite st_eta. auto.
Qed.

(* ------------------------------------------------------------------ stack restored *)
Lemma exec_stack : forall p s, stack (fst (exec p s)) = stack s.
Proof.
  intros. pose proof (exec_den p s) as H. unfold agrees in H.
  destruct (den p (hd_error (stack s)) (heap s) (length (queues s))) as [[[e h1] n1] r].
  destruct H as [E _]. rewrite E. reflexivity.
Qed.

(* ------------------------------------------------------------------ frame: only the active context is touched *)
Lemma perform_frame : forall s pre d post c,
  hd_error (stack s) <> Some c ->
  nth_error (queues (perform s pre d post)) c = nth_error (queues s) c.
Proof.
  intros. unfold perform. destruct (stack s) as [|c0 r]; simpl; auto.
  apply nth_error_upd_other. simpl in H. congruence.
Qed.

Lemma perform_length : forall s pre d post, length (queues (perform s pre d post)) = length (queues s).
Proof. intros. unfold perform. destruct (stack s); simpl; auto. apply upd_length. Qed.

Lemma perform_stack : forall s pre d post, stack (perform s pre d post) = stack s.
Proof. intros. unfold perform. destruct (stack s); reflexivity. Qed.

Lemma exec_frame : forall p s,
  (length (queues s) <= length (queues (fst (exec p s))))%nat /\
  forall c, (c < length (queues s))%nat -> hd_error (stack s) <> Some c ->
            nth_error (queues (fst (exec p s))) c = nth_error (queues s) c.
Proof.
  induction p; intros s; simpl.
  - auto.
  - destruct (IHp1 s) as [L1 F1]. pose proof (exec_stack p1 s) as S1.
    destruct (exec p1 s) as [s1 r1]. simpl in *.
    destruct r1; simpl; [auto|].
    destruct (IHp2 s1) as [L2 F2]. split; [lia|].
    intros c Hc Hh. rewrite F2; [auto | lia | rewrite S1; auto].
  - rewrite perform_length. split; auto. intros. apply perform_frame; auto.
  - destruct (plan_wrap (heap s) k r1 r2) as [[[pre d] post]|]; simpl; auto.
    rewrite perform_length. split; auto. intros. apply perform_frame; auto.
  - destruct (plan_apply (heap s) r) as [[pre d]|]; simpl; auto.
    destruct (stack s) eqn:E; simpl; auto.
    rewrite perform_length. split; auto. intros. apply perform_frame; auto. rewrite E. exact H0.
  - specialize (IHp (mk (heap s) (queues s ++ [[]]) (length (queues s) :: stack s))).
    destruct IHp as [L F]. simpl in L, F.
    destruct (exec p _) as [s1 r]. simpl in *.
    rewrite app_length in L. simpl in L. split; [lia|].
    intros c Hc _. rewrite F.
    + apply nth_error_app1; auto.
    + rewrite app_length; simpl; lia.
    + intro X. inversion X. lia.
  - specialize (IHp (mk (heap s) (queues s) [])).
    destruct IHp as [L F]. simpl in L, F.
    destruct (exec p _) as [s1 r]. simpl in *. split; auto.
    intros c Hc _. apply F; auto. discriminate.
  - specialize (IHp s). destruct (exec p s) as [s1 r]. simpl in *. auto.
  - auto.
Qed.

Lemma firstn_ext : forall A (l l' : list A),
  (length l <= length l')%nat ->
  (forall c, (c < length l)%nat -> nth_error l' c = nth_error l c) ->
  firstn (length l) l' = l.
Proof.
  induction l; intros l' L H; simpl; auto.
  destruct l' as [|b l']; simpl in L; [lia|].
  pose proof (H O ltac:(simpl; lia)) as H0. simpl in H0. inversion H0; subst.
  f_equal. apply IHl; [lia|]. intros c Hc. apply (H (S c)). simpl; lia.
Qed.

(* nothing is recorded (in any existing context) under stop_recording *)
Lemma stop_frame : forall b s,
  firstn (length (queues s)) (queues (fst (exec (Stop b) s))) = queues s.
Proof.
  intros. apply firstn_ext.
  - apply (exec_frame (Stop b) s).
  - intros c Hc. simpl.
    destruct (exec_frame b (mk (heap s) (queues s) [])) as [_ F]. simpl in F.
    destruct (exec b _) as [s1 r]. simpl in *. apply F; auto. discriminate.
Qed.

(* an inner With never touches the queues that existed before it *)
Lemma with_frame : forall b s,
  firstn (length (queues s)) (queues (fst (exec (With b) s))) = queues s.
Proof.
  intros. apply firstn_ext.
  - apply (exec_frame (With b) s).
  - intros c Hc. simpl.
    destruct (exec_frame b (mk (heap s) (queues s ++ [[]]) (length (queues s) :: stack s))) as [_ F].
    simpl in F. destruct (exec b _) as [s1 r]. simpl in *. rewrite F.
    + apply nth_error_app1; auto.
    + rewrite app_length; simpl; lia.
    + intro X. inversion X. lia.
Qed.

(* under Stop (empty stack) and without an inner With, no queue changes at all and no context is created *)
Fixpoint no_with (p : prog) : bool :=
  match p with
  | With _ => false
  | Seq a b => no_with a && no_with b
  | Stop b | Try b => no_with b
  | _ => true
  end.

Lemma exec_nostack : forall p s, no_with p = true -> stack s = [] ->
  queues (fst (exec p s)) = queues s.
Proof.
  induction p; intros s NW E; simpl in *; auto.
  - apply andb_true_iff in NW. destruct NW as [N1 N2].
    pose proof (IHp1 s N1 E) as Q1. pose proof (exec_stack p1 s) as S1.
    destruct (exec p1 s) as [s1 r1]. simpl in *. destruct r1; simpl; auto.
    rewrite IHp2; auto. congruence.
  - unfold perform. rewrite E. reflexivity.
  - destruct (plan_wrap (heap s) k r1 r2) as [[[pre d] post]|]; simpl; auto.
    unfold perform. rewrite E. reflexivity.
  - destruct (plan_apply (heap s) r) as [[pre d]|]; simpl; auto. rewrite E. reflexivity.
  - discriminate.
  - specialize (IHp (mk (heap s) (queues s) []) NW eq_refl).
    destruct (exec p _) as [s1 r]. simpl in *. auto.
  - specialize (IHp s NW E). destruct (exec p s) as [s1 r]. simpl in *. auto.
Qed.

(* ------------------------------------------------------------------ queues are in creation (= program) order *)
Definition qwf (n : Z) (q : list Z) : Prop := StronglySorted Z.lt q /\ Forall (fun x => x < n) q.
Definition wf (s : st) : Prop := Forall (qwf (hlen (heap s))) (queues s).

Lemma memz_in : forall x q, memz x q = true <-> In x q.
Proof.
  induction q; simpl; [intuition discriminate|].
  destruct (x =? a) eqn:E.
  - apply Z.eqb_eq in E. subst. intuition.
  - apply Z.eqb_neq in E. rewrite IHq. intuition congruence.
Qed.

Lemma q_remove_in : forall x y q, In y (q_remove x q) <-> In y q /\ y <> x.
Proof.
  induction q; simpl; [intuition|].
  destruct (x =? a) eqn:E.
  - apply Z.eqb_eq in E. subst. rewrite IHq. intuition congruence.
  - apply Z.eqb_neq in E. simpl. rewrite IHq. intuition congruence.
Qed.

Lemma q_remove_forall : forall (P : Z -> Prop) x q, Forall P q -> Forall P (q_remove x q).
Proof.
  induction q; simpl; intros H; auto. inversion H; subst.
  destruct (x =? a); auto.
Qed.

Lemma q_remove_sorted : forall x q, StronglySorted Z.lt q -> StronglySorted Z.lt (q_remove x q).
Proof.
  induction q; simpl; intros H; auto. inversion H; subst.
  destruct (x =? a); auto. constructor; auto. apply q_remove_forall; auto.
Qed.

Lemma q_remove_all_in : forall xs y q, In y (q_remove_all xs q) <-> In y q /\ ~ In y xs.
Proof.
  unfold q_remove_all. induction xs; intros; simpl; [intuition|].
  rewrite IHxs. rewrite q_remove_in. intuition congruence.
Qed.

Lemma q_remove_all_forall : forall (P : Z -> Prop) xs q, Forall P q -> Forall P (q_remove_all xs q).
Proof.
  unfold q_remove_all. induction xs; intros; simpl; auto. apply IHxs. apply q_remove_forall; auto.
Qed.

Lemma q_remove_all_sorted : forall xs q, StronglySorted Z.lt q -> StronglySorted Z.lt (q_remove_all xs q).
Proof.
  unfold q_remove_all. induction xs; intros; simpl; auto. apply IHxs. apply q_remove_sorted; auto.
Qed.

Lemma q_append_fresh : forall n q, Forall (fun y => y < n) q -> q_append q n = q ++ [n].
Proof.
  intros. unfold q_append. destruct (memz n q) eqn:E; auto.
  apply memz_in in E. rewrite Forall_forall in H. apply H in E. lia.
Qed.

Lemma sorted_snoc : forall n q, StronglySorted Z.lt q -> Forall (fun y => y < n) q ->
  StronglySorted Z.lt (q ++ [n]).
Proof.
  induction q; simpl; intros S F.
  - constructor; constructor.
  - inversion S; subst. inversion F; subst. constructor; auto.
    apply Forall_app. split; auto.
Qed.

Lemma on_queue_eq : forall n pre post q, qwf n q ->
  on_queue pre n post q = q_remove_all post (q_remove_all pre q ++ [n]).
Proof.
  intros n pre post q [S F]. unfold on_queue. rewrite q_append_fresh; auto.
  apply q_remove_all_forall; auto.
Qed.

Lemma qwf_weaken : forall n q, qwf n q -> qwf (n + 1) q.
Proof.
  intros n q [S F]. split; auto. eapply Forall_impl; [|exact F]. simpl; intros; lia.
Qed.

Lemma on_queue_wf : forall n pre post q, qwf n q -> qwf (n + 1) (on_queue pre n post q).
Proof.
  intros n pre post q W. rewrite on_queue_eq; auto. destruct W as [S F]. split.
  - apply q_remove_all_sorted. apply sorted_snoc.
    + apply q_remove_all_sorted; auto.
    + apply q_remove_all_forall; auto.
  - apply q_remove_all_forall. apply Forall_app. split.
    + apply q_remove_all_forall. eapply Forall_impl; [|exact F]. simpl; intros; lia.
    + constructor; [lia|constructor].
Qed.

(* membership after a constructor ran in the active context *)
Lemma on_queue_in : forall n pre post q y, qwf n q ->
  (In y (on_queue pre n post q) <-> ((In y q /\ ~ In y pre) \/ y = n) /\ ~ In y post).
Proof.
  intros. rewrite on_queue_eq; auto. rewrite q_remove_all_in. rewrite in_app_iff.
  rewrite q_remove_all_in. simpl. intuition.
Qed.

Lemma Forall_upd : forall A (P Q : A -> Prop) c (f : A -> A) l,
  Forall P l -> (forall x, P x -> Q (f x)) -> (forall x, P x -> Q x) -> Forall Q (upd c f l).
Proof.
  induction c; destruct l; simpl; intros H Hf Hi; auto; inversion H; subst; constructor; auto.
  - eapply Forall_impl; [|exact H3]. auto.
Qed.

Lemma hlen_snoc : forall h d, hlen (h ++ [d]) = hlen h + 1.
Proof. intros. unfold hlen. rewrite app_length. simpl. lia. Qed.

Lemma perform_wf : forall s pre d post, wf s -> wf (perform s pre d post).
Proof.
  unfold wf, perform. intros s pre d post W. destruct (stack s) as [|c r]; simpl; rewrite hlen_snoc.
  - eapply Forall_impl; [|exact W]. apply qwf_weaken.
  - eapply Forall_upd; [exact W| |]; intros.
    + apply on_queue_wf; auto.
    + apply qwf_weaken; auto.
Qed.

Lemma exec_wf : forall p s, wf s -> wf (fst (exec p s)).
Proof.
  induction p; intros s W; simpl; auto.
  - specialize (IHp1 s W). destruct (exec p1 s) as [s1 r1]. simpl in *. destruct r1; auto.
  - apply perform_wf; auto.
  - destruct (plan_wrap (heap s) k r1 r2) as [[[pre d] post]|]; simpl; auto. apply perform_wf; auto.
  - destruct (plan_apply (heap s) r) as [[pre d]|]; simpl; auto.
    destruct (stack s); simpl; auto. apply perform_wf; auto.
  - specialize (IHp (mk (heap s) (queues s ++ [[]]) (length (queues s) :: stack s))).
    destruct (exec p _) as [s1 r]. simpl in *. apply IHp.
    unfold wf. simpl. apply Forall_app. split; auto.
    constructor; [|constructor]. split; constructor.
  - specialize (IHp (mk (heap s) (queues s) [])).
    destruct (exec p _) as [s1 r]. simpl in *. apply IHp. exact W.
  - specialize (IHp s W). destruct (exec p s) as [s1 r]. simpl in *. auto.
Qed.

Lemma init_wf : wf init.
Proof. constructor. Qed.

Lemma exec_sorted : forall p q, In q (queues (fst (exec p init))) -> StronglySorted Z.lt q.
Proof.
  intros p q H. pose proof (exec_wf p init init_wf) as W. unfold wf in W.
  rewrite Forall_forall in W. apply W in H. apply H.
Qed.

(* ------------------------------------------------------------------ wrappers consume their operands *)
Lemma ctrl_plan_head : forall f h b rs d, ctrl_plan (S f) h true b = Some (rs, d) -> In b rs.
Proof.
  intros f h b rs d H. simpl in H.
  destruct (hget h b) as [[|]|k n2 ops|]; try (inversion H; subst; simpl; auto; fail).
  destruct k; try (inversion H; subst; simpl; auto; fail).
  destruct ops as [|b' ops']; [inversion H; subst; simpl; auto|].
  destruct (ctrl_plan f h false b') as [[rs' d']|]; inversion H; subst; simpl; auto.
Qed.

Lemma plan_wrap_facts : forall h k r1 r2 pre d post,
  plan_wrap h k r1 r2 = Some (pre, d, post) ->
  0 < hlen h /\
  In (r1 mod hlen h) (pre ++ post) /\
  (k = KProd -> In (r2 mod hlen h) post) /\
  Forall (fun x => x < hlen h) post.
Proof.
  intros h k r1 r2 pre d post H. unfold plan_wrap in H.
  destruct (hlen h =? 0) eqn:E0; [discriminate|]. apply Z.eqb_neq in E0.
  assert (P : 0 < hlen h) by (unfold hlen in *; lia).
  pose proof (Z.mod_pos_bound r1 (hlen h) P) as B1.
  pose proof (Z.mod_pos_bound r2 (hlen h) P) as B2.
  split; auto.
  destruct (is_kind KMeas (hget h (r1 mod hlen h))); [discriminate|].
  destruct k.
  - inversion H; subst. simpl. repeat split; auto; discriminate.
  - inversion H; subst. simpl. repeat split; auto; discriminate.
  - destruct (ctrl_plan (S (length h)) h true (r1 mod hlen h)) as [[rs d']|] eqn:EC.
    + inversion H; subst. apply ctrl_plan_head in EC. rewrite app_nil_r.
      repeat split; auto; discriminate.
    + inversion H; subst. simpl. repeat split; auto; discriminate.
  - destruct (is_kind KSProd (hget h (r1 mod hlen h))); inversion H; subst.
    + repeat split; [apply in_or_app; right; simpl; auto | discriminate | constructor; [lia|constructor]].
    + simpl. repeat split; auto; discriminate.
  - destruct (is_kind KMeas (hget h (r2 mod hlen h))); [discriminate|]. inversion H; subst.
    repeat split.
    + apply in_or_app; right; simpl; auto.
    + intros _. simpl; auto.
    + constructor; [lia|]. constructor; [lia|constructor].
  - inversion H; subst. simpl. repeat split; auto; discriminate.
Qed.

Lemma nth_error_perform_top : forall s pre d post c rest q,
  stack s = c :: rest -> nth_error (queues s) c = Some q ->
  nth_error (queues (perform s pre d post)) c = Some (on_queue pre (hlen (heap s)) post q).
Proof.
  intros. unfold perform. rewrite H. simpl. rewrite nth_error_upd_same. rewrite H0. reflexivity.
Qed.

Lemma wf_nth : forall s c q, wf s -> nth_error (queues s) c = Some q -> qwf (hlen (heap s)) q.
Proof.
  unfold wf. intros s c q W H. rewrite Forall_forall in W. apply W. eapply nth_error_In; eauto.
Qed.

Lemma wrap_consumes : forall s k r1 r2 pre d post c rest q,
  wf s -> plan_wrap (heap s) k r1 r2 = Some (pre, d, post) ->
  stack s = c :: rest -> nth_error (queues s) c = Some q ->
  exists q', nth_error (queues (perform s pre d post)) c = Some q' /\
    In (hlen (heap s)) q' /\
    ~ In (r1 mod hlen (heap s)) q' /\
    (k = KProd -> ~ In (r2 mod hlen (heap s)) q') /\
    (forall y, ~ In y (pre ++ post) -> y <> hlen (heap s) -> (In y q' <-> In y q)).
Proof.
  intros s k r1 r2 pre d post c rest q W HP HS HQ.
  pose proof (wf_nth s c q W HQ) as WQ.
  destruct (plan_wrap_facts _ _ _ _ _ _ _ HP) as [P [I1 [I2 FP]]].
  exists (on_queue pre (hlen (heap s)) post q). split; [apply nth_error_perform_top with rest; auto|].
  rewrite Forall_forall in FP.
  pose proof (Z.mod_pos_bound r1 (hlen (heap s)) P) as B1.
  pose proof (Z.mod_pos_bound r2 (hlen (heap s)) P) as B2.
  repeat split.
  - apply on_queue_in; auto. split; auto. intro X. apply FP in X. lia.
  - intro X. apply on_queue_in in X; auto. apply in_app_or in I1. intuition lia.
  - intros K X. apply on_queue_in in X; auto. specialize (I2 K). intuition.
  - intro X. apply on_queue_in in X; auto. rewrite in_app_iff in H. intuition.
  - intro X. apply on_queue_in; auto. rewrite in_app_iff in H. intuition.
Qed.

(* qp.apply queues a fresh copy at the end of the active queue (removing the operands the copy shares) *)
Lemma apply_requeues : forall s r pre d c rest q,
  wf s -> plan_apply (heap s) r = Some (pre, d) ->
  stack s = c :: rest -> nth_error (queues s) c = Some q ->
  fst (exec (Apply r) s) = perform s pre d [] /\
  d = copy_desc (hget (heap s) (r mod hlen (heap s))) /\
  nth_error (queues (perform s pre d [])) c = Some (q_remove_all pre q ++ [hlen (heap s)]).
Proof.
  intros s r pre d c rest q W HP HS HQ. simpl. rewrite HP. rewrite HS. simpl. split; auto.
  split.
  - unfold plan_apply in HP. destruct (hlen (heap s) =? 0); inversion HP; auto.
  - rewrite (nth_error_perform_top s pre d [] c rest q HS HQ). f_equal.
    rewrite on_queue_eq; [reflexivity|]. eapply wf_nth; eauto.
Qed.

(* a new operator created in an active context is appended at the end of that context's queue *)
Lemma new_recorded : forall s m c rest q,
  wf s -> stack s = c :: rest -> nth_error (queues s) c = Some q ->
  nth_error (queues (fst (exec (New m) s))) c = Some (q ++ [hlen (heap s)]).
Proof.
  intros s m c rest q W HS HQ. simpl.
  rewrite (nth_error_perform_top s [] (new_desc m) [] c rest q HS HQ). f_equal.
  rewrite on_queue_eq; [reflexivity|]. eapply wf_nth; eauto.
Qed.

Lemma stop_nowith : forall b s, no_with b = true -> queues (fst (exec (Stop b) s)) = queues s.
Proof.
  intros b s H. pose proof (exec_nostack b (mk (heap s) (queues s) []) H eq_refl) as E.
  simpl in *. destruct (exec b _); exact E.
Qed.
