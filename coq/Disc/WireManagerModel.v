(* Model of pennylane/transforms/resolve_dynamic_wires.py (_WireManager, _new_ops, resolve_dynamic_wires)
   and of devices/preprocess.py:device_resolve_dynamic_wires, over an abstract gate alphabet
   (a gate = code + list of wires).  No proofs here: this file must keep running for the
   correspondence check even when a proof elsewhere breaks.

   Wire labels are integers.  Python lists used as stacks (append / pop at the END) are stored
   REVERSED here: the head of `zeroed m` is the wire `self._zeroed.pop()` would return. *)
From Coq Require Import List ZArith Bool.
Import ListNotations.
Open Scope Z_scope.

Inductive wire := St (z : Z)      (* a concrete label *)
                | Dy (d : Z).     (* a DynamicWire, identified by creation index *)
Inductive astate := AZero | AAny | AMagic.       (* AllocateState; both magic states = AMagic *)
Inductive reg := RZero | RAny.                   (* key of _registers *)
Inductive flag := FZero | FUnknown.              (* ghost: what is known about a concrete wire *)

Inductive op :=
| Alloc (ds : list Z) (s : astate) (restored : bool)
| Dealloc (ds : list Z)
| Gate (code : Z) (ws : list wire).

(* ---- python dicts with integer keys, as association lists (never iterated, order irrelevant) ---- *)
Section Assoc.
  Context {V : Type}.
  Fixpoint aget (k : Z) (l : list (Z * V)) : option V :=
    match l with [] => None | (k', v) :: r => if k =? k' then Some v else aget k r end.
  Fixpoint aremove (k : Z) (l : list (Z * V)) : list (Z * V) :=
    match l with [] => [] | (k', v) :: r => if k =? k' then aremove k r else (k', v) :: aremove k r end.
  Definition aset (k : Z) (v : V) (l : list (Z * V)) : list (Z * V) := (k, v) :: aremove k l.   (* d[k] = v *)
  Definition apop (k : Z) (l : list (Z * V)) : option (V * list (Z * V)) :=                    (* d.pop(k); None = KeyError *)
    match aget k l with Some v => Some (v, aremove k l) | None => None end.
End Assoc.

Fixpoint memZ (k : Z) (l : list Z) : bool := match l with [] => false | x :: r => (k =? x) || memZ k r end.
Definition is_nil {A} (l : list A) : bool := match l with [] => true | _ => false end.

(* ---- _WireManager ---- *)
Record mgr := mkMgr { zeroed : list Z; anyst : list Z; loaned : list (Z * reg);
                      min_int : option Z; allow_resets : bool }.

Definition reg_of (restored : bool) : reg := if restored then RZero else RAny.

(* _add_new_wire; None = AllocationError("no wires left to allocate.") *)
Definition add_new_wire (m : mgr) : option mgr :=
  match min_int m with
  | None => None
  | Some k => Some (mkMgr (k :: zeroed m) (anyst m) (loaned m) (Some (k + 1)) (allow_resets m))
  end.

(* w = self._zeroed.pop(); self._loaned[w] = r.   Result: (wire, manager, reset emitted?) *)
Definition take_zeroed (r : reg) (m : mgr) : option (Z * mgr * bool) :=
  match zeroed m with
  | w :: z' => Some (w, mkMgr z' (anyst m) (aset w r (loaned m)) (min_int m) (allow_resets m), false)
  | [] => None                                            (* IndexError: pop from empty list *)
  end.
Definition take_any (r : reg) (reset : bool) (m : mgr) : option (Z * mgr * bool) :=
  match anyst m with
  | w :: a' => Some (w, mkMgr (zeroed m) a' (aset w r (loaned m)) (min_int m) (allow_resets m), reset)
  | [] => None
  end.

(* _get_zeroed: the recursive call after _add_new_wire always ends in the first branch *)
Definition get_zeroed (restored : bool) (m : mgr) : option (Z * mgr * bool) :=
  match zeroed m with
  | _ :: _ => take_zeroed (reg_of restored) m
  | [] => if allow_resets m then take_any (reg_of restored) true m
          else match add_new_wire m with
               | Some m' => take_zeroed (reg_of restored) m'
               | None => None
               end
  end.

(* _get_any *)
Definition get_any (restored : bool) (m : mgr) : option (Z * mgr * bool) :=
  match anyst m with
  | _ :: _ => take_any RAny false m
  | [] => take_zeroed (reg_of restored) m
  end.

(* get_wire *)
Definition get_wire (s : astate) (restored : bool) (m : mgr) : option (Z * mgr * bool) :=
  match (if is_nil (zeroed m) && is_nil (anyst m) then add_new_wire m else Some m) with
  | None => None
  | Some m1 => match s with
               | AZero => get_zeroed restored m1
               | AAny => get_any restored m1
               | AMagic => None
               end
  end.

(* return_wire; None = KeyError *)
Definition return_wire (w : Z) (m : mgr) : option mgr :=
  match apop w (loaned m) with
  | None => None
  | Some (RZero, l') => Some (mkMgr (w :: zeroed m) (anyst m) l' (min_int m) (allow_resets m))
  | Some (RAny, l') => Some (mkMgr (zeroed m) (w :: anyst m) l' (min_int m) (allow_resets m))
  end.

(* ---- ghost flags: assoc list (latest binding first) over a default ----
   default: integer labels >= the initial min_int have never been used, hence |0>. *)
Definition gget (gdef : option Z) (g : list (Z * flag)) (w : Z) : flag :=
  match aget w g with
  | Some f => f
  | None => match gdef with Some m0 => if m0 <=? w then FZero else FUnknown | None => FUnknown end
  end.

Inductive event := EvAlloc (d c : Z) (s : astate) (f : flag).   (* dynamic d got concrete c, whose flag was f *)

(* ---- state of _new_ops ---- *)
Record st := mkSt {
  mg : mgr;
  wmap : list (Z * Z);               (* wire_map: dynamic id -> concrete label *)
  dealloc : list Z;                  (* deallocated *)
  out : list (Z * list wire);        (* emitted ops, most recent first; code -1 = measure(w, reset=True) *)
  (* ghost *)
  ghost : list (Z * flag);
  gdef : option Z;
  gloan : list (Z * (flag * bool));  (* concrete wire on loan -> (flag when handed out, restored promise) *)
  events : list event }.

Definition RESET : Z := -1.

(* one iteration of `for w in op.wires` of the Allocate branch *)
Definition alloc_one (s : astate) (restored : bool) (d : Z) (x : st) : option st :=
  match get_wire s restored (mg x) with
  | None => None
  | Some (c, m', reset) =>
      let g1 := if reset then (c, FZero) :: ghost x else ghost x in
      let f := gget (gdef x) g1 c in
      Some (mkSt m' (aset d c (wmap x)) (dealloc x)
                 (if reset then (RESET, [St c]) :: out x else out x)
                 g1 (gdef x) (aset c (f, restored) (gloan x)) (EvAlloc d c s f :: events x))
  end.

(* one iteration of the Deallocate branch *)
Definition dealloc_one (d : Z) (x : st) : option st :=
  match apop d (wmap x) with
  | None => None                                                       (* KeyError *)
  | Some (c, wm') =>
      match return_wire c (mg x) with
      | None => None
      | Some m' =>
          let g1 := match aget c (gloan x) with
                    | Some (f, true) => (c, f) :: ghost x        (* restored=True: back to the flag at allocation, by contract *)
                    | _ => ghost x
                    end in
          Some (mkSt m' wm' (d :: dealloc x) (out x) g1 (gdef x) (aremove c (gloan x)) (events x))
      end
  end.

Definition map_wire (wm : list (Z * Z)) (w : wire) : wire :=
  match w with
  | St z => St z
  | Dy d => match aget d wm with Some c => St c | None => Dy d end
  end.

Definition wire_eqb (a b : wire) : bool :=
  match a, b with St x, St y => x =? y | Dy x, Dy y => x =? y | _, _ => false end.
Fixpoint mem_wire (a : wire) (l : list wire) : bool :=
  match l with [] => false | b :: r => wire_eqb a b || mem_wire a r end.
Fixpoint has_dup (l : list wire) : bool :=
  match l with [] => false | a :: r => mem_wire a r || has_dup r end.
Definition uses_dealloc (dl : list Z) (ws : list wire) : bool :=
  existsb (fun w => match w with Dy d => memZ d dl | St _ => false end) ws.

(* `if wire_map: op = op.map_wires(wire_map)` (WireError on duplicate labels) then the use-after-free check *)
Definition map_gate (wm : list (Z * Z)) (dl : list Z) (ws : list wire) : option (list wire) :=
  let ws' := map (map_wire wm) ws in
  if negb (is_nil wm) && has_dup ws' then None
  else if uses_dealloc dl ws' then None
  else Some ws'.

(* ghost: a gate leaves every concrete wire it acts on in an unknown state *)
Fixpoint touch (ws : list wire) (g : list (Z * flag)) : list (Z * flag) :=
  match ws with
  | [] => g
  | St c :: r => (c, FUnknown) :: touch r g
  | Dy _ :: r => touch r g
  end.

Fixpoint fold_opt {A S : Type} (f : A -> S -> option S) (l : list A) (x : S) : option S :=
  match l with
  | [] => Some x
  | a :: r => match f a x with None => None | Some x' => fold_opt f r x' end
  end.

Definition step (o : op) (x : st) : option st :=
  match o with
  | Alloc ds s r => match s with
                    | AMagic => None                      (* AllocationError: magic states unsupported *)
                    | _ => fold_opt (alloc_one s r) ds x
                    end
  | Dealloc ds => fold_opt dealloc_one ds x
  | Gate code ws =>
      match map_gate (wmap x) (dealloc x) ws with
      | None => None
      | Some ws' => Some (mkSt (mg x) (wmap x) (dealloc x) ((code, ws') :: out x)
                               (touch ws' (ghost x)) (gdef x) (gloan x) (events x))
      end
  end.

Definition steps : list op -> st -> option st := fold_opt step.

(* registers are given in python order (last element is used first) *)
Definition init (z a : list Z) (mi : option Z) (ar : bool) : st :=
  mkSt (mkMgr (rev z) (rev a) [] mi ar) [] [] [] (map (fun w => (w, FZero)) z) mi [] [].

Definition ALLOC : Z := -2.
Definition DEALLOC : Z := -3.
Definition encode (o : op) : Z * list wire :=
  match o with
  | Alloc ds _ _ => (ALLOC, map Dy ds)
  | Dealloc ds => (DEALLOC, map Dy ds)
  | Gate c ws => (c, ws)
  end.

Fixpoint map_opt {A B : Type} (f : A -> option B) (l : list A) : option (list B) :=
  match l with
  | [] => Some []
  | a :: r => match f a, map_opt f r with Some b, Some r' => Some (b :: r') | _, _ => None end
  end.

(* resolve_dynamic_wires: None = any exception; Some (operations, measurement wires) *)
Definition resolve (z a : list Z) (mi : option Z) (ar : bool) (prog : list op) (meas : list (list wire))
  : option (list (Z * list wire) * list (list wire)) :=
  match steps prog (init z a mi ar) with
  | None => None
  | Some x =>
      match map_opt (map_gate (wmap x) (dealloc x)) meas with
      | None => None
      | Some ms => if is_nil (wmap x) && is_nil (dealloc x)
                   then Some (map encode prog, meas)          (* `return (tape,)`: the input tape itself *)
                   else Some (rev (out x), ms)
      end
  end.

(* ---- device_resolve_dynamic_wires ---- *)
Fixpoint statics_ws (ws : list wire) : list Z :=
  match ws with [] => [] | St z :: r => z :: statics_ws r | Dy _ :: r => statics_ws r end.
Definition statics_op (o : op) : list Z := match o with Gate _ ws => statics_ws ws | _ => [] end.
Definition statics (prog : list op) (meas : list (list wire)) : list Z :=
  flat_map statics_op prog ++ flat_map statics_ws meas.

Definition dev_registers (dw : option (list Z)) (prog : list op) (meas : list (list wire)) : list Z * option Z :=
  let sw := statics prog meas in
  match dw with
  | Some (w :: r) => (rev (filter (fun x => negb (memZ x sw)) (w :: r)), None)
  | _ => ([], Some (fold_right Z.max (-1) sw + 1))
  end.

Inductive cfg :=
| Direct (z a : list Z) (mi : option Z) (ar : bool)
| Device (dw : option (list Z)) (ar : bool).

Definition run_case (c : cfg) (prog : list op) (meas : list (list wire)) :=
  match c with
  | Direct z a mi ar => resolve z a mi ar prog meas
  | Device dw ar => let '(z, mi) := dev_registers dw prog meas in resolve z [] mi ar prog meas
  end.

(* ---- boolean precondition of the theorems (H1-H3 of the property) ----
   H1 the two registers together are duplicate free;
   H2 no label used by the static circuit is in a register;
   H3 if min_int is given, every register label and every static label is below it. *)
Fixpoint nodupZ (l : list Z) : bool := match l with [] => true | x :: r => negb (memZ x r) && nodupZ r end.
Definition below (mi : option Z) (w : Z) : bool := match mi with Some m => w <? m | None => true end.
Definition static_ok (z a : list Z) (mi : option Z) (w : Z) : bool := negb (memZ w (z ++ a)) && below mi w.
Definition pre_ok (z a : list Z) (mi : option Z) (prog : list op) (meas : list (list wire)) : bool :=
  nodupZ (z ++ a) && forallb (below mi) (z ++ a) && forallb (static_ok z a mi) (statics prog meas).

(* ---- executable forms of the proved statements, evaluated on every generated case as well ---- *)
Definition ev_zero_ok (e : event) : bool :=
  match e with EvAlloc _ _ AZero FUnknown => false | _ => true end.
Definition ev_origin_ok (z a : list Z) (mi : option Z) (e : event) : bool :=
  match e with EvAlloc _ c _ _ =>
    memZ c (z ++ a) || match mi with Some m => m <=? c | None => false end end.
Definition state_ok (z a : list Z) (mi : option Z) (x : st) : bool :=
  nodupZ (zeroed (mg x) ++ anyst (mg x) ++ map fst (loaned (mg x))) &&
  nodupZ (map snd (wmap x)) && nodupZ (map fst (wmap x)) &&
  forallb ev_zero_ok (events x) && forallb (ev_origin_ok z a mi) (events x).
(* model self-check on a case: whenever the precondition holds, every prefix state is ok *)
Fixpoint prefixes_ok (z a : list Z) (mi : option Z) (prog : list op) (x : st) : bool :=
  state_ok z a mi x &&
  match prog with
  | [] => true
  | o :: r => match step o x with None => true | Some x' => prefixes_ok z a mi r x' end
  end.

(* ---- correspondence ---- *)
Fixpoint eq_lw (a b : list wire) : bool :=
  match a, b with [], [] => true | x :: r, y :: s => wire_eqb x y && eq_lw r s | _, _ => false end.
Fixpoint eq_ops (a b : list (Z * list wire)) : bool :=
  match a, b with
  | [], [] => true
  | (c, w) :: r, (c', w') :: s => (c =? c') && eq_lw w w' && eq_ops r s
  | _, _ => false
  end.
Fixpoint eq_llw (a b : list (list wire)) : bool :=
  match a, b with [], [] => true | x :: r, y :: s => eq_lw x y && eq_llw r s | _, _ => false end.
Definition eq_res (a b : option (list (Z * list wire) * list (list wire))) : bool :=
  match a, b with
  | None, None => true
  | Some (o, m), Some (o', m') => eq_ops o o' && eq_llw m m'
  | _, _ => false
  end.

Definition self_ok (c : cfg) (prog : list op) (meas : list (list wire)) : bool :=
  let '(z, a, mi, ar) := match c with
                         | Direct z a mi ar => (z, a, mi, ar)
                         | Device dw ar => let '(z, mi) := dev_registers dw prog meas in (z, [], mi, ar)
                         end in
  if pre_ok z a mi prog meas then prefixes_ok z a mi prog (init z a mi ar) else true.

Definition check_case (c : (cfg * list op * list (list wire)) * option (list (Z * list wire) * list (list wire))) : bool :=
  let '((cf, prog, meas), expected) := c in
  eq_res (run_case cf prog meas) expected && self_ok cf prog meas.
