(* OpenQASM 2 programs: a small AST and its denotation as an exact circuit (list of (qubit indices, matrix)) over
   the qelib1.inc table Tab/QasmTable.v, plus the measured-register map; and the qelib1.inc gate BODIES, with the
   executable check that each body multiplies out to the matrix recorded in the table.  Definitions only. *)
From Coq Require Import List ZArith QArith String Bool.
From PLV Require Import Alg.Poly Lin.Vec Lin.PVec Tab.TrigSyms Tab.GateTable Tab.QasmTable.
Import ListNotations.
Open Scope string_scope.
Open Scope list_scope.
Open Scope nat_scope.

(* ------------------------------------------------------------------ angle expressions
   sum_t (n_t/d_t) * theta_{v_t}  +  k * pi/4       (theta_v: formal angles of the program / of the enclosing gate) *)
Record qang := QA { qa_terms : list (nat * Z * Z); qa_k : Z }.

Definition aV (j : nat) : qang := QA [(j, 1%Z, 1%Z)] 0%Z.                 (* theta_j *)
Definition aQ (j : nat) (n d : Z) : qang := QA [(j, n, d)] 0%Z.           (* (n/d) theta_j *)
Definition aPi4 (k : Z) : qang := QA [] k.                                (* k pi/4 *)
Definition a0 : qang := QA [] 0%Z.
Definition aAdd (a b : qang) : qang := QA (qa_terms a ++ qa_terms b) (qa_k a + qa_k b)%Z.

(* statements *)
Inductive qstmt :=
| QGate (name : string) (args : list qang) (qs : list nat)
| QMeasure (q c : nat)
| QBarrier.

Record qprog := QP { qp_nq : nat; qp_nc : nat; qp_body : list qstmt }.

(* ------------------------------------------------------------------ substituting angle expressions for a table entry's formal angles
   table variable j (exponent e of z_j = exp(i theta_j / 8)) is replaced by arg_j:
     z_j^e = exp(i e arg_j / 8) = prod_t z_{v_t}^{e n_t / d_t} * zeta^{e k / 8}     (zeta = e^{i pi/4}),
   defined only when every exponent is an integer (always the case for the table's half-angle symbols and the
   half/quarter angles of qelib1.inc); otherwise None. *)
Definition evar (v : nat) (x : Z) : list Z := (0%Z :: repeat 0%Z v) ++ [x].

Fixpoint sub_terms (e : Z) (ts : list (nat * Z * Z)) : option (list Z) :=
  match ts with
  | [] => Some []
  | (v, n, d) :: r =>
      match sub_terms e r with
      | None => None
      | Some acc =>
          let en := (e * n)%Z in
          if (d =? 0)%Z then None
          else if negb (en mod d =? 0)%Z then None
          else Some (eadd (evar v (en / d)) acc)
      end
  end.

Definition sub_arg (e : Z) (a : qang) : option (list Z) :=
  let ek := (e * qa_k a)%Z in
  if negb (ek mod 8 =? 0)%Z then None
  else match sub_terms e (qa_terms a) with
       | None => None
       | Some acc => Some (eadd [(ek / 8)%Z] acc)
       end.

Fixpoint sub_exps (args : list qang) (es : list Z) : option (list Z) :=
  match es with
  | [] => Some []
  | e :: es' =>
      match args with
      | [] => if (e =? 0)%Z then sub_exps [] es' else None
      | a :: args' =>
          match sub_arg e a, sub_exps args' es' with
          | Some x, Some y => Some (eadd x y)
          | _, _ => None
          end
      end
  end.

Definition sub_term (args : list qang) (t : term) : option term :=
  match snd t with
  | [] => Some t
  | e0 :: es => match sub_exps args es with
                | Some r => Some (fst t, eadd [e0] r)
                | None => None
                end
  end.

Fixpoint opt_all {A B} (f : A -> option B) (l : list A) : option (list B) :=
  match l with
  | [] => Some []
  | x :: r => match f x, opt_all f r with
              | Some y, Some ys => Some (y :: ys)
              | _, _ => None
              end
  end.

Definition sub_poly (args : list qang) (p : poly) : option poly :=
  match opt_all (sub_term args) p with Some q => Some (pnorm HZ q) | None => None end.
Definition sub_mat (args : list qang) (M : gt_mat) : option gt_mat := opt_all (opt_all (sub_poly args)) M.

(* ------------------------------------------------------------------ denotation *)
Fixpoint nodupb (l : list nat) : bool :=
  match l with [] => true | x :: r => negb (existsb (Nat.eqb x) r) && nodupb r end.

Definition qcirc := list (list nat * gt_mat).

(* one statement over `nq` qubits; measurements and barriers contribute no unitary *)
Definition stmt_den (nq : nat) (st : qstmt) : option qcirc :=
  match st with
  | QGate name args qs =>
      match qelib_entry name with
      | Some (np, k, M) =>
          if (Nat.eqb (List.length args) np && Nat.eqb (List.length qs) k && nodupb qs && forallb (fun q => Nat.ltb q nq) qs)%bool
          then match sub_mat args M with Some M' => Some [(qs, M')] | None => None end
          else None
      | None => None
      end
  | QMeasure q _ => if Nat.ltb q nq then Some [] else None
  | QBarrier => Some []
  end.

Fixpoint body_den (nq : nat) (l : list qstmt) : option qcirc :=
  match l with
  | [] => Some []
  | st :: r => match stmt_den nq st, body_den nq r with
               | Some a, Some b => Some (a ++ b)
               | _, _ => None
               end
  end.

Fixpoint measures (l : list qstmt) : list (nat * nat) :=
  match l with
  | [] => []
  | QMeasure q c' :: r => (q, c') :: measures r
  | _ :: r => measures r
  end.

Definition prog_den (p : qprog) : option (qcirc * list (nat * nat)) :=
  match body_den (qp_nq p) (qp_body p) with
  | Some c' => if forallb (fun qc => Nat.ltb (snd qc) (qp_nc p)) (measures (qp_body p)) then Some (c', measures (qp_body p)) else None
  | None => None
  end.

Definition seq_prog (p q : qprog) : qprog := QP (qp_nq p) (qp_nc p) (qp_body p ++ qp_body q).

(* ------------------------------------------------------------------ qelib1.inc: the gate bodies (transcribed from the file)
   inside `gate g(p0,p1,..) q0,q1,.. { ... }` the formal angle j is the j-th parameter and qubit i the i-th argument *)
Definition pi_ (n : Z) := aPi4 (4 * n)%Z.          (* n pi *)
Definition pi2 := aPi4 2%Z.                         (* pi/2 *)
Definition mpi2 := aPi4 (-2)%Z.
Definition g1 (name : string) (args : list qang) (q : nat) := QGate name args [q].
Definition cx_ (a b : nat) := QGate "cx" [] [a; b].

Definition qelib_bodies : list (string * list qstmt) := [
  ("u3",  [g1 "U" [aV 0; aV 1; aV 2] 0]);
  ("u",   [g1 "U" [aV 0; aV 1; aV 2] 0]);
  ("u2",  [g1 "U" [pi2; aV 0; aV 1] 0]);
  ("u1",  [g1 "U" [a0; a0; aV 0] 0]);
  ("p",   [g1 "U" [a0; a0; aV 0] 0]);
  ("cx",  [QGate "CX" [] [0; 1]]);
  ("id",  [g1 "U" [a0; a0; a0] 0]);
  ("x",   [g1 "u3" [pi_ 1; a0; pi_ 1] 0]);
  ("y",   [g1 "u3" [pi_ 1; pi2; pi2] 0]);
  ("z",   [g1 "u1" [pi_ 1] 0]);
  ("h",   [g1 "u2" [a0; pi_ 1] 0]);
  ("s",   [g1 "u1" [pi2] 0]);
  ("sdg", [g1 "u1" [mpi2] 0]);
  ("t",   [g1 "u1" [aPi4 1%Z] 0]);
  ("tdg", [g1 "u1" [aPi4 (-1)%Z] 0]);
  ("rx",  [g1 "u3" [aV 0; mpi2; pi2] 0]);
  ("ry",  [g1 "u3" [aV 0; a0; a0] 0]);
  ("rz",  [g1 "u1" [aV 0] 0]);
  ("sx",  [g1 "sdg" [] 0; g1 "h" [] 0; g1 "sdg" [] 0]);
  ("sxdg", [g1 "s" [] 0; g1 "h" [] 0; g1 "s" [] 0]);
  ("cz",  [g1 "h" [] 1; cx_ 0 1; g1 "h" [] 1]);
  ("cy",  [g1 "sdg" [] 1; cx_ 0 1; g1 "s" [] 1]);
  ("swap", [cx_ 0 1; cx_ 1 0; cx_ 0 1]);
  ("ch",  [g1 "h" [] 1; g1 "sdg" [] 1; cx_ 0 1; g1 "h" [] 1; g1 "t" [] 1; cx_ 0 1; g1 "t" [] 1; g1 "h" [] 1; g1 "s" [] 1; g1 "x" [] 1; g1 "s" [] 0]);
  ("ccx", [g1 "h" [] 2; cx_ 1 2; g1 "tdg" [] 2; cx_ 0 2; g1 "t" [] 2; cx_ 1 2; g1 "tdg" [] 2; cx_ 0 2; g1 "t" [] 1; g1 "t" [] 2; g1 "h" [] 2;
           cx_ 0 1; g1 "t" [] 0; g1 "tdg" [] 1; cx_ 0 1]);
  ("cswap", [cx_ 2 1; QGate "ccx" [] [0; 1; 2]; cx_ 2 1]);
  ("crx", [g1 "u1" [pi2] 1; cx_ 0 1; g1 "u3" [aQ 0 (-1) 2; a0; a0] 1; cx_ 0 1; g1 "u3" [aQ 0 1 2; mpi2; a0] 1]);
  ("cry", [g1 "ry" [aQ 0 1 2] 1; cx_ 0 1; g1 "ry" [aQ 0 (-1) 2] 1; cx_ 0 1]);
  ("crz", [g1 "rz" [aQ 0 1 2] 1; cx_ 0 1; g1 "rz" [aQ 0 (-1) 2] 1; cx_ 0 1]);
  ("cu1", [g1 "u1" [aQ 0 1 2] 0; cx_ 0 1; g1 "u1" [aQ 0 (-1) 2] 1; cx_ 0 1; g1 "u1" [aQ 0 1 2] 1]);
  ("cp",  [g1 "p" [aQ 0 1 2] 0; cx_ 0 1; g1 "p" [aQ 0 (-1) 2] 1; cx_ 0 1; g1 "p" [aQ 0 1 2] 1]);
  (* cu3(theta,phi,lambda) c,t { u1((lambda+phi)/2) c; u1((lambda-phi)/2) t; cx c,t; u3(-theta/2,0,-(phi+lambda)/2) t; cx c,t; u3(theta/2,phi,0) t; } *)
  ("cu3", [g1 "u1" [aAdd (aQ 2 1 2) (aQ 1 1 2)] 0; g1 "u1" [aAdd (aQ 2 1 2) (aQ 1 (-1) 2)] 1; cx_ 0 1;
           g1 "u3" [aQ 0 (-1) 2; a0; aAdd (aQ 1 (-1) 2) (aQ 2 (-1) 2)] 1; cx_ 0 1; g1 "u3" [aQ 0 1 2; aV 1; a0] 1]);
  (* rxx(theta) a,b { u3(pi/2, theta, 0) a; h b; cx a,b; u1(-theta) b; cx a,b; h b; u2(-pi, pi-theta) a; } *)
  ("rxx", [g1 "u3" [pi2; aV 0; a0] 0; g1 "h" [] 1; cx_ 0 1; g1 "u1" [aQ 0 (-1) 1] 1; cx_ 0 1; g1 "h" [] 1;
           g1 "u2" [pi_ (-1); aAdd (pi_ 1) (aQ 0 (-1) 1)] 0]);
  ("rzz", [cx_ 0 1; g1 "u1" [aV 0] 1; cx_ 0 1])
].

(* the body of gate `name`, run on its own k qubits, acts on every basis column exactly like the table's matrix *)
Definition body_ok (nb : string * list qstmt) : bool :=
  match qelib_entry (fst nb) with
  | Some (np, k, M) =>
      match body_den k (snd nb) with
      | Some circ => cols_ok HZ k circ (seq 0 k) M (all_cols k)
      | None => false
      end
  | None => false
  end.

(* every gate of the table except the built-ins U, CX and the OpenQASM-3 gphase has a body *)
Definition table_covered : bool :=
  forallb (fun e => (String.eqb (fst e) "U" || String.eqb (fst e) "CX" || String.eqb (fst e) "gphase"
                     || existsb (fun nb => String.eqb (fst nb) (fst e)) qelib_bodies)%bool) qelib_table.
