(* C33: lemmas about the preprocessing model. *)
From Coq Require Import List ZArith Bool Lia.
From PLV Require Import Disc.PreprocessModel.
Import ListNotations.
Open Scope Z_scope.

(* ------------------------------------------------------------------ bind_flat *)
Lemma bind_flat_Forall : forall A B (f : A -> result (list B)) (P : B -> Prop) l out,
  (forall x o, In x l -> f x = Ok o -> Forall P o) ->
  bind_flat f l = Ok out -> Forall P out.
Proof.
  induction l as [|x r IH]; intros out H E; cbn [bind_flat] in E.
  - inversion E; constructor.
  - destruct (f x) as [a|] eqn:Ea; [|discriminate].
    destruct (bind_flat f r) as [b|] eqn:Eb; [|discriminate].
    inversion E; subst. apply Forall_app; split.
    + eapply H; [left; reflexivity|exact Ea].
    + apply IH; [|reflexivity]. intros y o Hy. apply H. right; exact Hy.
Qed.

Lemma bind_flat_Forall_in : forall A B (f : A -> result (list B)) (P : A -> Prop) (Q : B -> Prop) l out,
  (forall x o, P x -> f x = Ok o -> Forall Q o) -> Forall P l ->
  bind_flat f l = Ok out -> Forall Q out.
Proof.
  intros A B f P Q l out H HP E. eapply bind_flat_Forall; [|exact E].
  intros x o Hin Ex. eapply H; [|exact Ex]. rewrite Forall_forall in HP. apply HP, Hin.
Qed.

(* ------------------------------------------------------------------ validators never alter the tape *)
Lemma complete_mp_spec : forall w m,
  (m_obs m = None /\ m_wires m = [] /\ complete_mp w m = mkMp (m_code m) None w) \/
  ((m_obs m <> None \/ m_wires m <> []) /\ complete_mp w m = m).
Proof.
  intros w [c o ws]; unfold complete_mp; cbn.
  destruct o as [z|]; [right; split; [left; discriminate|reflexivity]|].
  destruct ws as [|x r]; [left; auto|right; split; [right; discriminate|reflexivity]].
Qed.

Lemma complete_mp_code : forall w m, m_code (complete_mp w m) = m_code m.
Proof. intros w m; destruct (complete_mp_spec w m) as [(_ & _ & ->)|(_ & ->)]; reflexivity. Qed.
Lemma complete_mp_obs : forall w m, m_obs (complete_mp w m) = m_obs m.
Proof. intros w m; destruct (complete_mp_spec w m) as [(H & _ & ->)|(_ & ->)]; [cbn; auto|reflexivity]. Qed.

(* the tape a validator returns *)
Definition validated (s : stage) (t : tape) : tape :=
  match s with
  | SWires (Some (x :: r)) => mkTape (t_ops t) (map (complete_mp (x :: r)) (t_mps t)) (t_shots t)
  | _ => t
  end.

Lemma validator_returns : forall s t ts,
  is_validator s = true -> run_stage s t = Ok ts -> ts = [validated s t].
Proof.
  intros s t ts V E. destruct s; cbn in V; try discriminate; cbn [run_stage validated] in *.
  - unfold validate_device_wires in E. destruct dw as [[|x r]|]; try (inversion E; reflexivity).
    destruct (forallb _ _); [inversion E; reflexivity|discriminate].
  - unfold validate_measurements in E. destruct (forallb _ _); [inversion E; reflexivity|discriminate].
  - unfold validate_observables in E. destruct (forallb _ _); [inversion E; reflexivity|discriminate].
  - unfold no_sampling in E. destruct (t_shots t); [discriminate|inversion E; reflexivity].
  - unfold no_analytic in E. destruct (t_shots t); [inversion E; reflexivity|discriminate].
  - unfold flag_validator in E. destruct ok; [inversion E; reflexivity|discriminate].
Qed.

Lemma validated_ops : forall s t, t_ops (validated s t) = t_ops t.
Proof. intros s t; destruct s; try reflexivity. destruct dw as [[|x r]|]; reflexivity. Qed.
Lemma validated_shots : forall s t, t_shots (validated s t) = t_shots t.
Proof. intros s t; destruct s; try reflexivity. destruct dw as [[|x r]|]; reflexivity. Qed.
Lemma validated_codes : forall s t, map m_code (t_mps (validated s t)) = map m_code (t_mps t).
Proof.
  intros s t; destruct s; try reflexivity. destruct dw as [[|x r]|]; try reflexivity.
  cbn. rewrite map_map. apply map_ext. intros; apply complete_mp_code.
Qed.
Lemma validated_obs : forall s t, map m_obs (t_mps (validated s t)) = map m_obs (t_mps t).
Proof.
  intros s t; destruct s; try reflexivity. destruct dw as [[|x r]|]; try reflexivity.
  cbn. rewrite map_map. apply map_ext. intros; apply complete_mp_obs.
Qed.
Lemma validated_same : forall s t, (forall dw, s <> SWires dw) -> validated s t = t.
Proof. intros s t H; destruct s; try reflexivity. exfalso; eapply H; reflexivity. Qed.

(* reject_not_alter: a validator returns exactly one tape with the same operations, the same shots, the same
   measurement processes and observables (only wires of wire-less measurements may be filled in), or an error;
   every validator other than validate_device_wires returns the very same tape *)
Lemma reject_not_alter_lemma : forall s t,
  is_validator s = true ->
  run_stage s t = Err \/
  exists t', run_stage s t = Ok [t'] /\ t_ops t' = t_ops t /\ t_shots t' = t_shots t /\
             map m_code (t_mps t') = map m_code (t_mps t) /\ map m_obs (t_mps t') = map m_obs (t_mps t) /\
             ((forall dw, s <> SWires dw) -> t' = t).
Proof.
  intros s t V. destruct (run_stage s t) as [ts|] eqn:E; [right|left; reflexivity].
  pose proof (validator_returns s t ts V E) as ->. exists (validated s t).
  repeat split; auto using validated_ops, validated_shots, validated_codes, validated_obs, validated_same.
Qed.

(* wires_completed_only_for_wireless *)
Lemma wires_completed_lemma : forall dw t t',
  validate_device_wires dw t = Ok [t'] ->
  t_ops t' = t_ops t /\ t_shots t' = t_shots t /\ length (t_mps t') = length (t_mps t) /\
  forall i m, nth_error (t_mps t) i = Some m ->
    exists m', nth_error (t_mps t') i = Some m' /\
      ((m_obs m <> None \/ m_wires m <> []) -> m' = m) /\
      (m_obs m = None -> m_wires m = [] ->
         match dw with
         | Some (x :: r) => m' = mkMp (m_code m) None (x :: r)
         | _ => m' = m
         end).
Proof.
  intros dw t t' E. unfold validate_device_wires in E.
  assert (Hid : t' = t -> t_ops t' = t_ops t /\ t_shots t' = t_shots t /\ length (t_mps t') = length (t_mps t) /\
     forall i m, nth_error (t_mps t) i = Some m -> exists m', nth_error (t_mps t') i = Some m' /\
      ((m_obs m <> None \/ m_wires m <> []) -> m' = m) /\ (m_obs m = None -> m_wires m = [] -> m' = m)).
  { intros ->. repeat split; auto. intros i m H; exists m; auto. }
  destruct dw as [[|x r]|].
  - inversion E; subst. destruct (Hid eq_refl) as (a & b & c & d). repeat split; auto.
  - destruct (forallb _ _); [|discriminate]. inversion E; subst; cbn. repeat split; auto.
    + apply map_length.
    + intros i m H. exists (complete_mp (x :: r) m). split; [apply map_nth_error; exact H|].
      destruct (complete_mp_spec (x :: r) m) as [(Ho & Hw & ->)|(Hn & ->)]; split; auto.
      * intros [C|C]; contradiction.
      * intros Ho Hw. destruct Hn as [C|C]; contradiction.
  - inversion E; subst. destruct (Hid eq_refl) as (a & b & c & d). repeat split; auto.
Qed.

(* ------------------------------------------------------------------ decompose *)
Lemma dgen_accepted : forall fuel acc dec o out,
  dgen fuel acc dec o = Ok out -> Forall (fun x => acc (o_code x) = true) out.
Proof.
  induction fuel as [|f IH]; intros acc dec o out E; cbn [dgen] in E; [discriminate|].
  destruct (acc (o_code o)) eqn:Ea.
  - inversion E; subst. constructor; [exact Ea|constructor].
  - destruct (dec (o_code o)) as [d|]; [|discriminate].
    eapply bind_flat_Forall; [|exact E]. intros x o' _ Ex. eapply IH; exact Ex.
Qed.

Lemma Forall_forallb : forall A (p : A -> bool) l, Forall (fun x => p x = true) l -> forallb p l = true.
Proof. intros A p l H; induction H; cbn; [reflexivity|rewrite H, IHForall; reflexivity]. Qed.
Lemma forallb_Forall : forall A (p : A -> bool) l, forallb p l = true -> Forall (fun x => p x = true) l.
Proof. intros A p l; induction l; cbn; intros H; [constructor|apply andb_prop in H; destruct H; constructor; auto]. Qed.

Lemma ops_okb_prep_app : forall acc skip isprep p new,
  (p = [] \/ exists o, p = [o] /\ skip && isprep (o_code o) = true) ->
  forallb (fun o => acc (o_code o)) new = true ->
  ops_okb acc skip isprep (p ++ new) = true.
Proof.
  intros acc skip isprep p new Hp Hn. unfold ops_okb.
  destruct Hp as [->|(o & -> & Ho)].
  - cbn [app]. destruct new as [|x r]; [reflexivity|]. unfold split_prep.
    destruct (skip && isprep (o_code x)); cbn [snd]; [|exact Hn].
    cbn [forallb] in Hn. apply andb_prop in Hn; apply Hn.
  - cbn [app split_prep]. rewrite Ho. exact Hn.
Qed.

Lemma split_prep_shape : forall skip isprep ops p rest,
  split_prep skip isprep ops = (p, rest) ->
  ops = p ++ rest /\ (p = [] \/ exists o, p = [o] /\ skip && isprep (o_code o) = true).
Proof.
  intros skip isprep ops p rest E. unfold split_prep in E. destruct ops as [|o r].
  - inversion E; subst; split; [reflexivity|left; reflexivity].
  - destruct (skip && isprep (o_code o)) eqn:B; inversion E; subst.
    + split; [reflexivity|right; exists o; split; [reflexivity|exact B]].
    + split; [reflexivity|left; reflexivity].
Qed.

(* decompose_in_target: every operation of the output satisfies the stopping condition (except the allowed initial
   state preparation); measurements and shots untouched *)
Lemma decompose_output_lemma : forall fuel acc dec skip isprep t ts,
  decompose_stage fuel acc dec skip isprep t = Ok ts ->
  exists t', ts = [t'] /\ t_mps t' = t_mps t /\ t_shots t' = t_shots t /\
             ops_okb acc skip isprep (t_ops t') = true.
Proof.
  intros fuel acc dec skip isprep t ts E. unfold decompose_stage in E.
  destruct (split_prep skip isprep (t_ops t)) as [p rest] eqn:S.
  destruct (forallb (fun o => acc (o_code o)) rest) eqn:F.
  - inversion E; subst. exists t; repeat split. unfold ops_okb; rewrite S; exact F.
  - destruct (bind_flat (dgen fuel acc dec) rest) as [new|] eqn:B; [|discriminate].
    inversion E; subst. eexists; repeat split; cbn.
    destruct (split_prep_shape _ _ _ _ _ S) as [_ Hp].
    apply (ops_okb_prep_app acc skip isprep p new Hp).
    apply Forall_forallb. eapply bind_flat_Forall; [|exact B].
    intros x o _ Ex. eapply dgen_accepted; exact Ex.
Qed.

(* ------------------------------------------------------------------ invariants along a pipeline *)
Definition establishes (P : tape -> Prop) (s : stage) : Prop :=
  forall t ts, run_stage s t = Ok ts -> Forall P ts.
Definition preserves (P : tape -> Prop) (s : stage) : Prop :=
  forall t ts, P t -> run_stage s t = Ok ts -> Forall P ts.

Lemma run_pipeline_preserves : forall (P : tape -> Prop) p b out,
  Forall (preserves P) p -> Forall P b -> run_pipeline p b = Ok out -> Forall P out.
Proof.
  induction p as [|s r IH]; intros b out Hp Hb E; cbn [run_pipeline] in E.
  - inversion E; subst; exact Hb.
  - destruct (bind_flat (run_stage s) b) as [b'|] eqn:B; [|discriminate].
    inversion Hp; subst. eapply IH; [assumption| |exact E].
    eapply bind_flat_Forall_in; [|exact Hb|exact B]. intros x o Px Ex. eapply H1; eauto.
Qed.

Lemma run_pipeline_app : forall p q b out,
  run_pipeline (p ++ q) b = Ok out -> exists mid, run_pipeline p b = Ok mid /\ run_pipeline q mid = Ok out.
Proof.
  induction p as [|s r IH]; intros q b out E; cbn [app run_pipeline] in *.
  - exists b; split; [reflexivity|exact E].
  - destruct (bind_flat (run_stage s) b) as [b'|]; [|discriminate]. apply IH; exact E.
Qed.

(* the key pipeline lemma: the LAST stage that establishes an invariant, followed only by stages preserving it *)
Lemma run_pipeline_establishes : forall (P : tape -> Prop) pre s post b out,
  establishes P s -> Forall (preserves P) post ->
  run_pipeline (pre ++ s :: post) b = Ok out -> Forall P out.
Proof.
  intros P pre s post b out Hs Hpost E.
  destruct (run_pipeline_app _ _ _ _ E) as (mid & _ & E2). cbn [run_pipeline] in E2.
  destruct (bind_flat (run_stage s) mid) as [b'|] eqn:B; [|discriminate].
  eapply run_pipeline_preserves; [exact Hpost| |exact E2].
  eapply bind_flat_Forall; [|exact B]. intros x o _ Ex. eapply Hs; exact Ex.
Qed.

(* the three device predicates as tape properties *)
Definition ops_ok (acc : list Z) (skip : bool) (prep : list Z) (t : tape) : Prop :=
  ops_okb (fun c => zmem c acc) skip (fun c => zmem c prep) (t_ops t) = true.
Definition mps_ok (ana samp : list Z) (t : tape) : Prop := mps_okb ana samp t = true.
Definition obs_ok (ok : list Z) (t : tape) : Prop := obs_okb ok t = true.
Definition wires_ok (dw : option (list Z)) (t : tape) : Prop := wires_okb dw t = true.

Lemma decompose_establishes : forall acc dtab skip prep,
  establishes (ops_ok acc skip prep) (SDecompose acc dtab skip prep).
Proof.
  intros acc dtab skip prep t ts E. cbn [run_stage] in E.
  destruct (decompose_output_lemma _ _ _ _ _ _ _ E) as (t' & -> & _ & _ & H). constructor; [exact H|constructor].
Qed.

Lemma vmeas_establishes : forall ana samp, establishes (mps_ok ana samp) (SMeas ana samp).
Proof.
  intros ana samp t ts E. cbn [run_stage] in E. unfold validate_measurements in E.
  destruct (forallb _ _) eqn:F; [|discriminate]. inversion E; subst. constructor; [exact F|constructor].
Qed.

Lemma vobs_establishes : forall ok, establishes (obs_ok ok) (SObs ok).
Proof.
  intros ok t ts E. cbn [run_stage] in E. unfold validate_observables in E.
  destruct (forallb _ _) eqn:F; [|discriminate]. inversion E; subst. constructor; [exact F|constructor].
Qed.

Lemma forallb_app_l : forall A (p : A -> bool) a b, forallb p (a ++ b) = true -> forallb p a = true.
Proof. intros A p a b H. rewrite forallb_app in H. apply andb_prop in H; apply H. Qed.

Lemma completed_wires_in : forall w mps,
  forallb (fun x => zmem x w) w = true ->
  forallb (fun x => zmem x w) (flat_map m_wires mps) = true ->
  forallb (fun x => zmem x w) (flat_map m_wires (map (complete_mp w) mps)) = true.
Proof.
  intros w mps Hw. induction mps as [|m r IH]; cbn [map flat_map]; intros H; [reflexivity|].
  rewrite forallb_app in *. apply andb_prop in H; destruct H as [H1 H2]. rewrite (IH H2), andb_true_r.
  destruct (complete_mp_spec w m) as [(_ & _ & ->)|(_ & ->)]; [exact Hw|exact H1].
Qed.

Lemma zmem_self : forall w, forallb (fun x => zmem x w) w = true.
Proof.
  intros w. apply Forall_forallb. rewrite Forall_forall. intros x Hx. unfold zmem.
  apply existsb_exists. exists x; split; [exact Hx|apply Z.eqb_refl].
Qed.

Lemma vwires_establishes : forall dw, establishes (wires_ok dw) (SWires dw).
Proof.
  intros dw t ts E. cbn [run_stage] in E. unfold validate_device_wires in E. unfold wires_ok, wires_okb.
  destruct dw as [[|x r]|]; try (inversion E; subst; constructor; [reflexivity|constructor]).
  destruct (forallb _ (tape_wires t)) eqn:F; [|discriminate]. inversion E; subst. constructor; [|constructor].
  unfold tape_wires in *; cbn [t_ops t_mps]. rewrite forallb_app in *. apply andb_prop in F; destruct F as [F1 F2].
  rewrite F1. cbn [andb]. apply completed_wires_in; [apply zmem_self|exact F2].
Qed.

(* validators preserve the operation and measurement predicates (they return the same operations / codes) *)
Lemma forallb_map_eq : forall A B (f : A -> B) (p : B -> bool) l l',
  map f l = map f l' -> forallb (fun x => p (f x)) l = forallb (fun x => p (f x)) l'.
Proof.
  intros A B f p. induction l as [|x r IH]; destruct l' as [|y s]; cbn; intros H; try discriminate; [reflexivity|].
  inversion H. rewrite H1. f_equal. apply IH; assumption.
Qed.

Lemma validator_preserves_ops : forall acc skip prep s,
  is_validator s = true -> preserves (ops_ok acc skip prep) s.
Proof.
  intros acc skip prep s V t ts Pt E. rewrite (validator_returns s t ts V E). constructor; [|constructor].
  unfold ops_ok in *. rewrite validated_ops. exact Pt.
Qed.

Lemma validator_preserves_mps : forall ana samp s,
  is_validator s = true -> preserves (mps_ok ana samp) s.
Proof.
  intros ana samp s V t ts Pt E. rewrite (validator_returns s t ts V E). constructor; [|constructor].
  unfold mps_ok, mps_okb in *. rewrite validated_shots.
  rewrite (forallb_map_eq _ _ m_code (fun c => zmem c (if t_shots t then samp else ana)) _ (t_mps t)); [exact Pt|].
  apply validated_codes.
Qed.

Lemma validator_preserves_obs : forall ok s,
  is_validator s = true -> preserves (obs_ok ok) s.
Proof.
  intros ok s V t ts Pt E. rewrite (validator_returns s t ts V E). constructor; [|constructor].
  unfold obs_ok, obs_okb in *.
  rewrite (forallb_map_eq _ _ m_obs (fun o => match o with Some c => zmem c ok | None => true end) _ (t_mps t));
    [exact Pt|apply validated_obs].
Qed.

(* validators other than a validate_device_wires with different wires preserve the wire predicate *)
Lemma validator_preserves_wires : forall dw s,
  is_validator s = true -> (forall dw', s = SWires dw' -> dw' = dw) -> preserves (wires_ok dw) s.
Proof.
  intros dw s V Hd t ts Pt E. destruct s; try discriminate;
    try (rewrite (validator_returns _ t ts V E); cbn [validated]; constructor; [exact Pt|constructor]).
  rewrite (Hd dw0 eq_refl) in E. eapply vwires_establishes; exact E.
Qed.

(* decompose leaves measurements and shots alone *)
Lemma decompose_preserves_mps : forall ana samp acc dtab skip prep,
  preserves (mps_ok ana samp) (SDecompose acc dtab skip prep).
Proof.
  intros ana samp acc dtab skip prep t ts Pt E. cbn [run_stage] in E.
  destruct (decompose_output_lemma _ _ _ _ _ _ _ E) as (t' & -> & Hm & Hs & _). constructor; [|constructor].
  unfold mps_ok, mps_okb in *. rewrite Hm, Hs. exact Pt.
Qed.
Lemma decompose_preserves_obs : forall ok acc dtab skip prep,
  preserves (obs_ok ok) (SDecompose acc dtab skip prep).
Proof.
  intros ok acc dtab skip prep t ts Pt E. cbn [run_stage] in E.
  destruct (decompose_output_lemma _ _ _ _ _ _ _ E) as (t' & -> & Hm & _ & _). constructor; [|constructor].
  unfold obs_ok, obs_okb in *. rewrite Hm. exact Pt.
Qed.

(* decompose keeps the wires inside the device wires when the decomposer's table only mentions device wires *)
Definition dtab_wires_in (w : list Z) (dtab : list (Z * list aop)) : Prop :=
  Forall (fun e => Forall (fun o => forallb (fun x => zmem x w) (o_wires o) = true) (snd e)) dtab.

Lemma lookup_in : forall tab c d, lookup tab c = Some d -> In (c, d) tab.
Proof.
  induction tab as [|[c' v] r IH]; cbn; intros c d H; [discriminate|].
  destruct (c =? c') eqn:E; [inversion H; subst; left; f_equal; symmetry; apply Z.eqb_eq; exact E|right; apply IH; exact H].
Qed.

Lemma dgen_wires : forall w dtab, dtab_wires_in w dtab -> forall fuel acc o out,
  forallb (fun x => zmem x w) (o_wires o) = true ->
  dgen fuel acc (lookup dtab) o = Ok out ->
  Forall (fun o' => forallb (fun x => zmem x w) (o_wires o') = true) out.
Proof.
  intros w dtab Hd. induction fuel as [|f IH]; intros acc o out Ho E; cbn [dgen] in E; [discriminate|].
  destruct (acc (o_code o)).
  - inversion E; subst. constructor; [exact Ho|constructor].
  - destruct (lookup dtab (o_code o)) as [d|] eqn:L; [|discriminate].
    apply lookup_in in L. unfold dtab_wires_in in Hd. rewrite Forall_forall in Hd. specialize (Hd _ L). cbn in Hd.
    eapply bind_flat_Forall_in; [|exact Hd|exact E]. intros x o' Hx Ex. cbn beta in Hx. exact (IH acc x o' Hx Ex).
Qed.

Lemma forallb_flat_map : forall A B (f : A -> list B) (p : B -> bool) l,
  forallb p (flat_map f l) = forallb (fun x => forallb p (f x)) l.
Proof. intros A B f p; induction l as [|x r IH]; cbn; [reflexivity|rewrite forallb_app, IH; reflexivity]. Qed.

Lemma decompose_preserves_wires : forall w acc dtab skip prep,
  dtab_wires_in w dtab -> preserves (wires_ok (Some w)) (SDecompose acc dtab skip prep).
Proof.
  intros w acc dtab skip prep Hd t ts Pt E. cbn [run_stage] in E. unfold decompose_stage in E.
  destruct (split_prep skip (fun c => zmem c prep) (t_ops t)) as [p rest] eqn:S.
  destruct (forallb _ rest); [inversion E; subst; constructor; [exact Pt|constructor]|].
  destruct (bind_flat _ rest) as [new|] eqn:B; [|discriminate]. inversion E; subst. constructor; [|constructor].
  unfold wires_ok, wires_okb in *. destruct w as [|x0 r0]; [reflexivity|].
  unfold tape_wires in *; cbn [t_ops t_mps]. rewrite forallb_app in *. apply andb_prop in Pt; destruct Pt as [P1 P2].
  rewrite P2, andb_true_r. destruct (split_prep_shape _ _ _ _ _ S) as [Hops _]. rewrite Hops in P1.
  rewrite forallb_flat_map in *. rewrite forallb_app in *. apply andb_prop in P1; destruct P1 as [Pp Pr].
  rewrite Pp. cbn [andb]. apply Forall_forallb.
  eapply bind_flat_Forall_in; [|apply forallb_Forall; exact Pr|exact B].
  intros o out Ho Eo. cbn beta in Ho. exact (dgen_wires _ dtab Hd _ _ o out Ho Eo).
Qed.

(* preprocess_output_supported *)
Record devpred := mkDev { d_acc : list Z; d_skip : bool; d_prep : list Z; d_ana : list Z; d_samp : list Z;
                          d_wires : option (list Z) }.
Definition supported (D : devpred) (t : tape) : Prop :=
  ops_ok (d_acc D) (d_skip D) (d_prep D) t /\ mps_ok (d_ana D) (d_samp D) t /\ wires_ok (d_wires D) t.

Definition well_formed (D : devpred) (p : list stage) : Prop :=
  (exists pre dtab post, p = pre ++ SDecompose (d_acc D) dtab (d_skip D) (d_prep D) :: post /\
                         Forall (preserves (ops_ok (d_acc D) (d_skip D) (d_prep D))) post) /\
  (exists pre post, p = pre ++ SMeas (d_ana D) (d_samp D) :: post /\
                    Forall (preserves (mps_ok (d_ana D) (d_samp D))) post) /\
  (exists pre post, p = pre ++ SWires (d_wires D) :: post /\ Forall (preserves (wires_ok (d_wires D))) post).

Lemma preprocess_output_supported_lemma : forall D p b out,
  well_formed D p -> run_pipeline p b = Ok out -> Forall (supported D) out.
Proof.
  intros D p b out ((pre1 & dtab & post1 & E1 & H1) & (pre2 & post2 & E2 & H2) & (pre3 & post3 & E3 & H3)) R.
  assert (A1 : Forall (ops_ok (d_acc D) (d_skip D) (d_prep D)) out).
  { rewrite E1 in R. eapply run_pipeline_establishes; [apply decompose_establishes|exact H1|exact R]. }
  assert (A2 : Forall (mps_ok (d_ana D) (d_samp D)) out).
  { rewrite E2 in R. eapply run_pipeline_establishes; [apply vmeas_establishes|exact H2|exact R]. }
  assert (A3 : Forall (wires_ok (d_wires D)) out).
  { rewrite E3 in R. eapply run_pipeline_establishes; [apply vwires_establishes|exact H3|exact R]. }
  rewrite Forall_forall in *. intros t Ht. repeat split; auto.
Qed.

(* ------------------------------------------------------------------ the built-in programs contain the stages *)
Definition has (n : sname) (l : list sname) : bool := existsb (sname_eqb n) l.
Lemma builtin_programs_lemma : forall c,
  has NValidateDeviceWires (pipeline_names c) = true /\
  has NValidateMeasurements (pipeline_names c) = true /\
  (has NDecompose (pipeline_names c) = true \/ (c_dev c = DClifford /\ c_check c = false)).
Proof.
  intros [d g m w r k j]. destruct d, g, m, w, r, k, j; cbn; repeat split; auto.
Qed.

(* ------------------------------------------------------------------ semantics *)
Section DecomposeSem.
  Variables (U : Type) (one : U) (mul : U -> U -> U) (opsem : aop -> U).
  Hypothesis mul_assoc : forall a b c, mul a (mul b c) = mul (mul a b) c.
  Hypothesis mul_one_l : forall a, mul one a = a.
  Hypothesis mul_one_r : forall a, mul a one = a.

  (* circuit semantics: the product of the operator semantics, in order *)
  Fixpoint circ_sem (l : list aop) : U :=
    match l with [] => one | o :: r => mul (opsem o) (circ_sem r) end.

  Lemma circ_sem_app : forall a b, circ_sem (a ++ b) = mul (circ_sem a) (circ_sem b).
  Proof.
    induction a as [|o r IH]; intros b; cbn [app circ_sem]; [rewrite mul_one_l; reflexivity|].
    rewrite IH, mul_assoc; reflexivity.
  Qed.

  (* the decomposer is semantics preserving on every operator it is asked about *)
  Definition dec_sound (dec : Z -> option (list aop)) : Prop :=
    forall o d, dec (o_code o) = Some d -> circ_sem d = opsem o.

  Lemma bind_flat_sem : forall (f : aop -> result (list aop)) l out,
    (forall o d, f o = Ok d -> circ_sem d = opsem o) ->
    bind_flat f l = Ok out -> circ_sem out = circ_sem l.
  Proof.
    induction l as [|o r IH]; intros out H E; cbn [bind_flat] in E.
    - inversion E; reflexivity.
    - destruct (f o) as [a|] eqn:Ea; [|discriminate]. destruct (bind_flat f r) as [b|] eqn:Eb; [|discriminate].
      inversion E; subst. rewrite circ_sem_app. cbn [circ_sem]. rewrite (H _ _ Ea), (IH b H eq_refl). reflexivity.
  Qed.

  Lemma dgen_sem : forall dec, dec_sound dec -> forall fuel acc o out,
    dgen fuel acc dec o = Ok out -> circ_sem out = opsem o.
  Proof.
    intros dec Hd. induction fuel as [|f IH]; intros acc o out E; cbn [dgen] in E; [discriminate|].
    destruct (acc (o_code o)).
    - inversion E; subst. cbn [circ_sem]. apply mul_one_r.
    - destruct (dec (o_code o)) as [d|] eqn:L; [|discriminate].
      rewrite <- (Hd o d L). eapply bind_flat_sem; [|exact E]. intros o' d' E'. eapply IH; exact E'.
  Qed.

  Lemma decompose_sem_lemma : forall dec, dec_sound dec -> forall fuel acc skip isprep t ts,
    decompose_stage fuel acc dec skip isprep t = Ok ts ->
    exists t', ts = [t'] /\ circ_sem (t_ops t') = circ_sem (t_ops t) /\ t_mps t' = t_mps t /\ t_shots t' = t_shots t.
  Proof.
    intros dec Hd fuel acc skip isprep t ts E. unfold decompose_stage in E.
    destruct (split_prep skip isprep (t_ops t)) as [p rest] eqn:S.
    destruct (forallb _ rest); [inversion E; subst; exists t; auto|].
    destruct (bind_flat _ rest) as [new|] eqn:B; [|discriminate]. inversion E; subst.
    eexists; repeat split; cbn [t_ops]. destruct (split_prep_shape _ _ _ _ _ S) as [-> _].
    rewrite !circ_sem_app. f_equal. eapply bind_flat_sem; [|exact B]. intros o d Eo. eapply dgen_sem; eauto.
  Qed.
End DecomposeSem.

Section PipelineSem.
  (* abstract results R of a tape; a stage with post-processing returns tapes and a function of their results *)
  Variables (R : Type) (sem : tape -> R).
  Definition pstage := tape -> result (list tape * (list R -> R)).
  Definition sem_preserving (s : pstage) : Prop :=
    forall t ts f, s t = Ok (ts, f) -> f (map sem ts) = sem t.

  (* one stage over a batch: the tapes are concatenated, the slices are remembered (CompilePipeline.__call_tapes) *)
  Fixpoint run_batch_pp (s : pstage) (b : list tape) : result (list tape * list (nat * (list R -> R))) :=
    match b with
    | [] => Ok ([], [])
    | t :: r => match s t with
                | Err => Err
                | Ok (ts, f) => match run_batch_pp s r with
                                | Err => Err
                                | Ok (ts', fs) => Ok (ts ++ ts', (length ts, f) :: fs)
                                end
                end
    end.
  (* _batch_postprocessing: each function gets its slice *)
  Fixpoint batch_post (fs : list (nat * (list R -> R))) (rs : list R) : list R :=
    match fs with
    | [] => []
    | (n, f) :: r => f (firstn n rs) :: batch_post r (skipn n rs)
    end.
  (* the whole program; _apply_postprocessing_stack applies the stack in reverse order *)
  Fixpoint run_pp (p : list pstage) (b : list tape) : result (list tape * (list R -> list R)) :=
    match p with
    | [] => Ok (b, fun rs => rs)
    | s :: r => match run_batch_pp s b with
                | Err => Err
                | Ok (b', fs) => match run_pp r b' with
                                 | Err => Err
                                 | Ok (out, post) => Ok (out, fun rs => batch_post fs (post rs))
                                 end
                end
    end.

  Lemma run_batch_pp_sem : forall s, sem_preserving s -> forall b out fs,
    run_batch_pp s b = Ok (out, fs) -> batch_post fs (map sem out) = map sem b.
  Proof.
    intros s Hs. induction b as [|t r IH]; intros out fs E; cbn [run_batch_pp] in E.
    - inversion E; reflexivity.
    - destruct (s t) as [[ts f]|] eqn:Et; [|discriminate].
      destruct (run_batch_pp s r) as [[ts' fs']|] eqn:Er; [|discriminate]. inversion E; subst.
      cbn [batch_post map]. rewrite map_app.
      rewrite <- (map_length sem ts) at 1. rewrite firstn_app, Nat.sub_diag, firstn_all. cbn [firstn]. rewrite app_nil_r.
      rewrite (Hs _ _ _ Et). f_equal.
      rewrite <- (map_length sem ts). rewrite skipn_app, Nat.sub_diag, skipn_all. cbn [skipn app].
      apply IH; reflexivity.
  Qed.

  Lemma pipeline_sem_lemma : forall p, Forall sem_preserving p -> forall b out post,
    run_pp p b = Ok (out, post) -> post (map sem out) = map sem b.
  Proof.
    induction p as [|s r IH]; intros Hp b out post E; cbn [run_pp] in E.
    - inversion E; reflexivity.
    - destruct (run_batch_pp s b) as [[b' fs]|] eqn:Eb; [|discriminate].
      destruct (run_pp r b') as [[out' post']|] eqn:Er; [|discriminate]. inversion E; subst.
      inversion Hp; subst. rewrite (IH H2 _ _ _ Er). eapply run_batch_pp_sem; eauto.
  Qed.

  (* null_postprocessing stages: validators and decompose as sem-preserving stages *)
  Definition null_pp (s : stage) : pstage :=
    fun t => match run_stage s t with
             | Ok ts => Ok (ts, fun rs => match rs with r :: _ => r | [] => sem t end)
             | Err => Err
             end.

  Lemma validator_sem_preserving : forall s,
    is_validator s = true -> (forall t, sem (validated s t) = sem t) -> sem_preserving (null_pp s).
  Proof.
    intros s V Hw t ts f E. unfold null_pp in E. destruct (run_stage s t) as [ts'|] eqn:Es; [|discriminate].
    inversion E; subst. rewrite (validator_returns s t ts V Es). cbn. apply Hw.
  Qed.
End PipelineSem.

Section DecomposeStageSem.
  Variables (U : Type) (one : U) (mul : U -> U -> U) (opsem : aop -> U).
  Hypothesis mul_assoc : forall a b c, mul a (mul b c) = mul (mul a b) c.
  Hypothesis mul_one_l : forall a, mul one a = a.
  Hypothesis mul_one_r : forall a, mul a one = a.
  Variables (R : Type) (measure : U -> list amp -> bool -> R).
  (* results depend on the operations only through their product *)
  Definition tsem (t : tape) : R := measure (circ_sem U one mul opsem (t_ops t)) (t_mps t) (t_shots t).

  Lemma decompose_sem_preserving : forall acc dtab skip prep,
    dec_sound U one mul opsem (lookup dtab) -> sem_preserving R tsem (null_pp R tsem (SDecompose acc dtab skip prep)).
  Proof.
    intros acc dtab skip prep Hd t ts f E. unfold null_pp in E.
    destruct (run_stage (SDecompose acc dtab skip prep) t) as [ts'|] eqn:Es; [|discriminate]. inversion E; subst.
    cbn [run_stage] in Es.
    destruct (decompose_sem_lemma U one mul opsem mul_assoc mul_one_l mul_one_r _ Hd _ _ _ _ _ _ Es)
      as (t' & -> & Hc & Hm & Hs).
    cbn. unfold tsem. rewrite Hc, Hm, Hs. reflexivity.
  Qed.
End DecomposeStageSem.
