(* C33: lemmas about the preprocessing model. *)
From Coq Require Import List ZArith Bool Lia.
From PLV Require Import Disc.PreprocessModel.
Import ListNotations.
Open Scope Z_scope.

(* ------------------------------------------------------------------ bind_flat *)
Lemma bind_flat_Forall : forall A B (f : A -> result (list B)) (P : B -> Prop) l out,
  (forall x o, In x l -> f x = Ok o -> Forall P o) ->
  bind_flat f l = Ok out -> Forall P out.
Proof.
  induction l as [|x r IH]; intros out H E; cbn [bind_flat] in E.
  - inversion E; constructor.
  - destruct (f x) as [a|] eqn:Ea; [|discriminate].
    destruct (bind_flat f r) as [b|] eqn:Eb; [|discriminate].
    inversion E; subst. apply Forall_app; split.
    + eapply H; [left; reflexivity|exact Ea].
    + apply IH; [|reflexivity]. intros y o Hy. apply H. right; exact Hy.
Qed.

Lemma bind_flat_Forall_in : forall A B (f : A -> result (list B)) (P : A -> Prop) (Q : B -> Prop) l out,
  (forall x o, P x -> f x = Ok o -> Forall Q o) -> Forall P l ->
  bind_flat f l = Ok out -> Forall Q out.
Proof.
  intros A B f P Q l out H HP E. eapply bind_flat_Forall; [|exact E].
  intros x o Hin Ex. eapply H; [|exact Ex]. rewrite Forall_forall in HP. apply HP, Hin.
Qed.

(* ------------------------------------------------------------------ validators never alter the tape *)
Lemma complete_mp_spec : forall w m,
  (m_obs m = None /\ m_wires m = [] /\ complete_mp w m = mkMp (m_code m) None w) \/
  ((m_obs m <> None \/ m_wires m <> []) /\ complete_mp w m = m).
Proof.
  intros w [c o ws]; unfold complete_mp; cbn.
  destruct o as [z|]; [right; split; [left; discriminate|reflexivity]|].
  destruct ws as [|x r]; [left; auto|right; split; [right; discriminate|reflexivity]].
Qed.

Lemma complete_mp_code : forall w m, m_code (complete_mp w m) = m_code m.
Proof. intros w m; destruct (complete_mp_spec w m) as [(_ & _ & ->)|(_ & ->)]; reflexivity. Qed.
Lemma complete_mp_obs : forall w m, m_obs (complete_mp w m) = m_obs m.
Proof. intros w m; destruct (complete_mp_spec w m) as [(H & _ & ->)|(_ & ->)]; [cbn; auto|reflexivity]. Qed.

(* the tape a validator returns *)
Definition validated (s : stage) (t : tape) : tape :=
  match s with
  | SWires (Some (x :: r)) => mkTape (t_ops t) (map (complete_mp (x :: r)) (t_mps t)) (t_shots t)
  | _ => t
  end.

Lemma validator_returns : forall s t ts,
  is_validator s = true -> run_stage s t = Ok ts -> ts = [validated s t].
Proof.
  intros s t ts V E. destruct s; cbn in V; try discriminate; cbn [run_stage validated] in *.
  - unfold validate_device_wires in E. destruct dw as [[|x r]|]; try (inversion E; reflexivity).
    destruct (forallb _ _); [inversion E; reflexivity|discriminate].
  - unfold validate_measurements in E. destruct (forallb _ _); [inversion E; reflexivity|discriminate].
  - unfold validate_observables in E. destruct (forallb _ _); [inversion E; reflexivity|discriminate].
  - unfold no_sampling in E. destruct (t_shots t); [discriminate|inversion E; reflexivity].
  - unfold no_analytic in E. destruct (t_shots t); [inversion E; reflexivity|discriminate].
  - unfold flag_validator in E. destruct ok; [inversion E; reflexivity|discriminate].
Qed.

Lemma validated_ops : forall s t, t_ops (validated s t) = t_ops t.
Proof. intros s t; destruct s; try reflexivity. destruct dw as [[|x r]|]; reflexivity. Qed.
Lemma validated_shots : forall s t, t_shots (validated s t) = t_shots t.
Proof. intros s t; destruct s; try reflexivity. destruct dw as [[|x r]|]; reflexivity. Qed.
Lemma validated_codes : forall s t, map m_code (t_mps (validated s t)) = map m_code (t_mps t).
Proof.
  intros s t; destruct s; try reflexivity. destruct dw as [[|x r]|]; try reflexivity.
  cbn. rewrite map_map. apply map_ext. intros; apply complete_mp_code.
Qed.
Lemma validated_obs : forall s t, map m_obs (t_mps (validated s t)) = map m_obs (t_mps t).
Proof.
  intros s t; destruct s; try reflexivity. destruct dw as [[|x r]|]; try reflexivity.
  cbn. rewrite map_map. apply map_ext. intros; apply complete_mp_obs.
Qed.
Lemma validated_same : forall s t, (forall dw, s <> SWires dw) -> validated s t = t.
Proof. intros s t H; destruct s; try reflexivity. exfalso; eapply H; reflexivity. Qed.

(* reject_not_alter: a validator returns exactly one tape with the same operations, the same shots, the same
   measurement processes and observables (only wires of wire-less measurements may be filled in), or an error;
   every validator other than validate_device_wires returns the very same tape *)
Lemma reject_not_alter_lemma : forall s t,
  is_validator s = true ->
  run_stage s t = Err \/
  exists t', run_stage s t = Ok [t'] /\ t_ops t' = t_ops t /\ t_shots t' = t_shots t /\
             map m_code (t_mps t') = map m_code (t_mps t) /\ map m_obs (t_mps t') = map m_obs (t_mps t) /\
             ((forall dw, s <> SWires dw) -> t' = t).
Proof.
  intros s t V. destruct (run_stage s t) as [ts|] eqn:E; [right|left; reflexivity].
  pose proof (validator_returns s t ts V E) as ->. exists (validated s t).
  repeat split; auto using validated_ops, validated_shots, validated_codes, validated_obs, validated_same.
Qed.

(* wires_completed_only_for_wireless *)
Lemma wires_completed_lemma : forall dw t t',
  validate_device_wires dw t = Ok [t'] ->
  t_ops t' = t_ops t /\ t_shots t' = t_shots t /\ length (t_mps t') = length (t_mps t) /\
  forall i m, nth_error (t_mps t) i = Some m ->
    exists m', nth_error (t_mps t') i = Some m' /\
      ((m_obs m <> None \/ m_wires m <> []) -> m' = m) /\
      (m_obs m = None -> m_wires m = [] ->
         match dw with
         | Some (x :: r) => m' = mkMp (m_code m) None (x :: r)
         | _ => m' = m
         end).
Proof.
  intros dw t t' E. unfold validate_device_wires in E.
  assert (Hid : t' = t -> t_ops t' = t_ops t /\ t_shots t' = t_shots t /\ length (t_mps t') = length (t_mps t) /\
     forall i m, nth_error (t_mps t) i = Some m -> exists m', nth_error (t_mps t') i = Some m' /\
      ((m_obs m <> None \/ m_wires m <> []) -> m' = m) /\ (m_obs m = None -> m_wires m = [] -> m' = m)).
  { intros ->. repeat split; auto. intros i m H; exists m; auto. }
  destruct dw as [[|x r]|].
  - inversion E; subst. destruct (Hid eq_refl) as (a & b & c & d). repeat split; auto.
  - destruct (forallb _ _); [|discriminate]. inversion E; subst; cbn. repeat split; auto.
    + apply map_length.
    + intros i m H. exists (complete_mp (x :: r) m). split; [apply map_nth_error; exact H|].
      destruct (complete_mp_spec (x :: r) m) as [(Ho & Hw & ->)|(Hn & ->)]; split; auto.
      * intros [C|C]; contradiction.
      * intros Ho Hw. destruct Hn as [C|C]; contradiction.
  - inversion E; subst. destruct (Hid eq_refl) as (a & b & c & d). repeat split; auto.
Qed.

(* ------------------------------------------------------------------ decompose *)
Lemma dgen_accepted : forall fuel acc dec o out,
  dgen fuel acc dec o = Ok out -> Forall (fun x => acc (o_code x) = true) out.
Proof.
  induction fuel as [|f IH]; intros acc dec o out E; cbn [dgen] in E; [discriminate|].
  destruct (acc (o_code o)) eqn:Ea.
  - inversion E; subst. constructor; [exact Ea|constructor].
  - destruct (dec (o_code o)) as [d|]; [|discriminate].
    eapply bind_flat_Forall; [|exact E]. intros x o' _ Ex. eapply IH; exact Ex.
Qed.

Lemma Forall_forallb : forall A (p : A -> bool) l, Forall (fun x => p x = true) l -> forallb p l = true.
Proof. intros A p l H; induction H; cbn; [reflexivity|rewrite H, IHForall; reflexivity]. Qed.
Lemma forallb_Forall : forall A (p : A -> bool) l, forallb p l = true -> Forall (fun x => p x = true) l.
Proof. intros A p l; induction l; cbn; intros H; [constructor|apply andb_prop in H; destruct H; constructor; auto]. Qed.

Lemma ops_okb_prep_app : forall acc skip isprep p new,
  (p = [] \/ exists o, p = [o] /\ skip && isprep (o_code o) = true) ->
  forallb (fun o => acc (o_code o)) new = true ->
  ops_okb acc skip isprep (p ++ new) = true.
Proof.
  intros acc skip isprep p new Hp Hn. unfold ops_okb.
  destruct Hp as [->|(o & -> & Ho)].
  - cbn [app]. destruct new as [|x r]; [reflexivity|]. unfold split_prep.
    destruct (skip && isprep (o_code x)); cbn [snd]; [|exact Hn].
    cbn [forallb] in Hn. apply andb_prop in Hn; apply Hn.
  - cbn [app split_prep]. rewrite Ho. exact Hn.
Qed.

Lemma split_prep_shape : forall skip isprep ops p rest,
  split_prep skip isprep ops = (p, rest) ->
  ops = p ++ rest /\ (p = [] \/ exists o, p = [o] /\ skip && isprep (o_code o) = true).
Proof.
  intros skip isprep ops p rest E. unfold split_prep in E. destruct ops as [|o r].
  - inversion E; subst; split; [reflexivity|left; reflexivity].
  - destruct (skip && isprep (o_code o)) eqn:B; inversion E; subst.
    + split; [reflexivity|right; exists o; split; [reflexivity|exact B]].
    + split; [reflexivity|left; reflexivity].
Qed.

(* decompose_in_target: every operation of the output satisfies the stopping condition (except the allowed initial
   state preparation); measurements and shots untouched *)
Lemma decompose_output_lemma : forall fuel acc dec skip isprep t ts,
  decompose_stage fuel acc dec skip isprep t = Ok ts ->
  exists t', ts = [t'] /\ t_mps t' = t_mps t /\ t_shots t' = t_shots t /\
             ops_okb acc skip isprep (t_ops t') = true.
Proof.
  intros fuel acc dec skip isprep t ts E. unfold decompose_stage in E.
  destruct (split_prep skip isprep (t_ops t)) as [p rest] eqn:S.
  destruct (forallb (fun o => acc (o_code o)) rest) eqn:F.
  - inversion E; subst. exists t; repeat split. unfold ops_okb; rewrite S; exact F.
  - destruct (bind_flat (dgen fuel acc dec) rest) as [new|] eqn:B; [|discriminate].
    inversion E; subst. eexists; repeat split; cbn.
    destruct (split_prep_shape _ _ _ _ _ S) as [_ Hp].
    apply (ops_okb_prep_app acc skip isprep p new Hp).
    apply Forall_forallb. eapply bind_flat_Forall; [|exact B].
    intros x o _ Ex. eapply dgen_accepted; exact Ex.
Qed.
