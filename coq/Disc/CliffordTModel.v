(* C15: exact model of Clifford+T words as produced by rs_decomposition / sk_decomposition /
   clifford_t_decomposition (pennylane/ops/op_math/decompositions/{ross_selinger,solovay_kitaev,
   normal_forms}.py, pennylane/transforms/decompositions/clifford_t_transform.py).
   A word is denoted by a 2x2 matrix over Z[omega] with a power-of-sqrt2 denominator exponent (the
   repo's DyadicMatrix, without normalisation): `DM a b c d k` stands for [[a,b],[c,d]] / sqrt2^k.
   The number rings come from Disc/RingsModel.v (C16).  No proofs in this file. *)
From Coq Require Import List ZArith Bool QArith.
From PLV Require Import Disc.RingsModel.
Import ListNotations.
Open Scope Z_scope.

(* ------------------------------------------------------------------ generators *)
(* GW j : the scalar omega^j (a global phase that is an exact multiple of pi/4);
   GPh   : GlobalPhase with an arbitrary real angle -- a scalar of modulus one, irrelevant for the
           distance up to global phase, denoted by the identity;
   GOther: any operator name outside the Clifford+T alphabet *)
Inductive gate : Type := GH | GS | GT | GX | GY | GZ | GSd | GTd | GI | GW (j : Z) | GPh | GOther.

Definition z0 : zo := zo_zero.
Definition z1 : zo := zo_one.
Definition zm1 : zo := ZO 0 0 0 (-1).
Definition zi : zo := ZO 0 1 0 0.          (* i = omega^2 *)
Definition zmi : zo := ZO 0 (-1) 0 0.
Definition zw : zo := ZO 0 0 1 0.          (* omega = exp(i pi/4) *)
Definition zw7 : zo := ZO (-1) 0 0 0.      (* omega^7 = conj omega = - omega^3 *)
Definition zo_wpow (j : Z) : zo :=
  match j mod 8 with
  | 0 => z1 | 1 => zw | 2 => zi | 3 => ZO 1 0 0 0
  | 4 => zm1 | 5 => ZO 0 0 (-1) 0 | 6 => zmi | _ => zw7
  end.

Definition ct_id : dm := DM z1 z0 z0 z1 0.
Definition gate_mat (g : gate) : dm :=
  match g with
  | GH => DM z1 z1 z1 zm1 1
  | GS => DM z1 z0 z0 zi 0
  | GT => DM z1 z0 z0 zw 0
  | GX => DM z0 z1 z1 z0 0
  | GY => DM z0 zmi zi z0 0
  | GZ => DM z1 z0 z0 zm1 0
  | GSd => DM z1 z0 z0 zmi 0
  | GTd => DM z1 z0 z0 zw7 0
  | GI => ct_id
  | GW j => DM (zo_wpow j) z0 z0 (zo_wpow j) 0
  | GPh => ct_id
  | GOther => DM z0 z0 z0 z0 0
  end.

(* operators are listed in circuit order: the first gate of the word acts first, i.e. its matrix
   is the rightmost factor *)
Fixpoint word_denote (w : list gate) : dm :=
  match w with
  | [] => ct_id
  | g :: r => dm_matmul_raw (word_denote r) (gate_mat g)
  end.

(* the same product computed without general ring multiplications (right multiplication by a
   generator only permutes/negates coefficients or adds columns); proved equal to word_denote *)
Definition zo_muli (x : zo) : zo := ZO (oc x) (od x) (- oa x) (- ob x).      (* x * i *)
Definition zo_mulw (x : zo) : zo := ZO (ob x) (oc x) (od x) (- oa x).        (* x * omega *)
Definition zo_mulw7 (x : zo) : zo := ZO (- od x) (oa x) (ob x) (oc x).       (* x * omega^7 *)
Definition dm_mul_gate (m : dm) (g : gate) : dm :=
  let '(DM a b c d k) := m in
  match g with
  | GH => DM (zo_add a b) (zo_sub a b) (zo_add c d) (zo_sub c d) (k + 1)
  | GS => DM a (zo_muli b) c (zo_muli d) (k + 0)
  | GT => DM a (zo_mulw b) c (zo_mulw d) (k + 0)
  | GX => DM b a d c (k + 0)
  | GY => DM (zo_muli b) (zo_neg (zo_muli a)) (zo_muli d) (zo_neg (zo_muli c)) (k + 0)
  | GZ => DM a (zo_neg b) c (zo_neg d) (k + 0)
  | GSd => DM a (zo_neg (zo_muli b)) c (zo_neg (zo_muli d)) (k + 0)
  | GTd => DM a (zo_mulw7 b) c (zo_mulw7 d) (k + 0)
  | GI | GPh => DM a b c d (k + 0)
  | _ => dm_matmul_raw m (gate_mat g)
  end.
Fixpoint word_denote_fast (w : list gate) : dm :=
  match w with
  | [] => ct_id
  | g :: r => dm_mul_gate (word_denote_fast r) g
  end.

Definition in_set (g : gate) : bool := match g with GOther => false | _ => true end.
Definition gates_in_set (w : list gate) : bool := forallb in_set w.

(* ------------------------------------------------------------------ unitarity, exactly *)
Definition dm_dagger (m : dm) : dm := DM (zo_conj (ma m)) (zo_conj (mc m)) (zo_conj (mb m)) (zo_conj (md m)) (mk m).
Definition dm_scalar (s : zo) (k : Z) : dm := DM s z0 z0 s k.
Definition zo_int (n : Z) : zo := ZO 0 0 0 n.
(* (A/sqrt2^k)^dagger (A/sqrt2^k) = I   <->   A^dagger A = 2^k I *)
Definition dm_unitaryb (m : dm) : bool :=
  (0 <=? mk m) && dm_eq (dm_matmul_raw (dm_dagger m) m) (dm_scalar (zo_int (2 ^ mk m)) (mk m + mk m)).

(* the Ross-Selinger candidate built from a grid solution u and a Diophantine solution t *)
Definition rs_candidate (u t : zo) (k : Z) : dm := DM u (zo_neg (zo_conj t)) t (zo_conj u) k.

(* two matrices that are proportional entry by entry (all 2x2 minors of the 2x4 array vanish):
   for unitary matrices this is equality up to a global phase *)
Definition dm_entries (m : dm) : list zo := [ma m; mb m; mc m; md m].
Definition minors_zero (x y : list zo) : bool :=
  forallb (fun p => forallb (fun q => zo_eq (zo_mul (fst p) (snd q)) (zo_mul (fst q) (snd p))) (combine x y)) (combine x y).
Definition dm_proportional (m1 m2 : dm) : bool := minors_zero (dm_entries m1) (dm_entries m2).

(* ------------------------------------------------------------------ real and imaginary parts *)
(* x = a w^3 + b w^2 + c w + d with w = (1+i)/sqrt2:
   2 Re x = 2d + (c-a) sqrt2,  2 Im x = 2b + (c+a) sqrt2, as elements of Z[sqrt2] *)
Definition re2 (x : zo) : zs := ZS (2 * od x) (oc x - oa x).
Definition im2 (x : zo) : zs := ZS (2 * ob x) (oc x + oa x).

(* ------------------------------------------------------------------ distance up to global phase *)
(* Target T = [[t00,t01],[t10,t11]] (complex).  For W = M / sqrt2^k unitary the operator-norm
   distance up to a global phase satisfies  min_phi |T - e^{i phi} W| <= eps  iff
   |tr(W^dagger T)| >= 2 - eps^2, i.e.  |tr(M^dagger T)|^2 >= 2^k (2 - eps^2)^2.
   The unknown reals are, per entry e of T:  Re e, Im e, sqrt2*Re e, sqrt2*Im e  (16 numbers);
   2 Re tr(M^dagger T) and 2 Im tr(M^dagger T) are integer linear forms in them. *)
Definition coefX_entry (x : zo) : list Z := [2 * od x; 2 * ob x; oc x - oa x; oc x + oa x].
Definition coefY_entry (x : zo) : list Z := [- (2 * ob x); 2 * od x; - (oc x + oa x); oc x - oa x].
Definition coefX (m : dm) : list Z := flat_map coefX_entry (dm_entries m).
Definition coefY (m : dm) : list Z := flat_map coefY_entry (dm_entries m).

Open Scope Q_scope.
Definition qz (n : Z) : Q := inject_Z n.
Fixpoint lin_val (ns : list Z) (xs : list Q) : Q :=
  match ns, xs with n :: nr, x :: xr => qz n * x + lin_val nr xr | _, _ => 0 end.
Fixpoint lin_lo (ns : list Z) (enc : list (Q * Q)) : Q :=
  match ns, enc with
  | n :: nr, (lo, hi) :: er => (if (0 <=? n)%Z then qz n * lo else qz n * hi) + lin_lo nr er
  | _, _ => 0 end.
Fixpoint lin_hi (ns : list Z) (enc : list (Q * Q)) : Q :=
  match ns, enc with
  | n :: nr, (lo, hi) :: er => (if (0 <=? n)%Z then qz n * hi else qz n * lo) + lin_hi nr er
  | _, _ => 0 end.
(* lower bound of x^2 for lo <= x <= hi *)
Definition sq_lo (lo hi : Q) : Q :=
  if Qle_bool 0 lo then lo * lo else if Qle_bool hi 0 then hi * hi else 0.
Definition encl_ok (enc : list (Q * Q)) : bool := forallb (fun e => Qle_bool (fst e) (snd e)) enc.
Definition threshold (k : Z) (eps2 : Q) : Q := (4 * qz (2 ^ k)) * ((2 - eps2) * (2 - eps2)).
(* the enclosures are given for the target numbers multiplied by a positive integer scale S
   (fixed point: integer end points), so that all arithmetic stays on small integers *)
Definition dist_ok (m : dm) (S : Z) (enc : list (Q * Q)) (eps2 : Q) : bool :=
  (0 <? S)%Z &&
  if Qle_bool 0 (2 - eps2) then
    Qle_bool (threshold (mk m) eps2 * (qz S * qz S))
             (sq_lo (lin_lo (coefX m) enc) (lin_hi (coefX m) enc) + sq_lo (lin_lo (coefY m) enc) (lin_hi (coefY m) enc))
  else true.
Close Scope Q_scope.

(* ------------------------------------------------------------------ words as numbers *)
(* A word is transmitted as a hexadecimal number: one nibble per operator, first operator in the
   least significant nibble, a sentinel nibble 1 on top (a list of such numbers for long words):
   1=H 2=S 3=T 4=X 5=Y 6=Z 7=Adjoint(S) 8=Adjoint(T) 9=Identity a=GlobalPhase, anything else =
   outside the alphabet.  Decoding is structural on the binary representation (linear time). *)
Fixpoint parse_pos (p : positive) : list gate :=
  match p with
  | xH => []
  | xO (xO (xO (xO r))) => GOther :: parse_pos r
  | xI (xO (xO (xO r))) => GH :: parse_pos r
  | xO (xI (xO (xO r))) => GS :: parse_pos r
  | xI (xI (xO (xO r))) => GT :: parse_pos r
  | xO (xO (xI (xO r))) => GX :: parse_pos r
  | xI (xO (xI (xO r))) => GY :: parse_pos r
  | xO (xI (xI (xO r))) => GZ :: parse_pos r
  | xI (xI (xI (xO r))) => GSd :: parse_pos r
  | xO (xO (xO (xI r))) => GTd :: parse_pos r
  | xI (xO (xO (xI r))) => GI :: parse_pos r
  | xO (xI (xO (xI r))) => GPh :: parse_pos r
  | xI (xI (xO (xI r))) => GOther :: parse_pos r
  | xO (xO (xI (xI r))) => GOther :: parse_pos r
  | xI (xO (xI (xI r))) => GOther :: parse_pos r
  | xO (xI (xI (xI r))) => GOther :: parse_pos r
  | xI (xI (xI (xI r))) => GOther :: parse_pos r
  | _ => [GOther]
  end.
Definition parse_chunk (n : Z) : list gate := match n with Zpos p => parse_pos p | _ => [GOther] end.
(* long words are cut into chunks (consecutive pieces of the circuit) to keep the literals small *)
Definition parse (l : list Z) : list gate := flat_map parse_chunk l.

(* ------------------------------------------------------------------ correspondence *)
(* a case: the word returned by the implementation, enclosures of the 16 target numbers, eps^2
   multiplied by the scale S (integer end points), S, eps^2 (exact square of the float), eps^2 plus
   the float-resolution allowance, and (rs only) the exact
   DyadicMatrix the implementation handed to _ma_normal_form (16 coefficients and k) *)
Definition ct_case : Type := (list Z * list (Z * Z) * Z * Q * Q * option (list Z * Z))%type.
Definition enc_q (l : list (Z * Z)) : list (Q * Q) := map (fun e => (inject_Z (fst e), inject_Z (snd e))) l.
Definition dm_transpose (m : dm) : dm := DM (ma m) (mc m) (mb m) (md m) (mk m).
(* exact-stage tie for rs_decomposition: _ma_normal_form lists the factors of the exact matrix
   from left to right and the list is returned as the circuit, so the circuit's matrix is the
   reversed product; all generators except Y are symmetric and Y^T = -Y, so it is the transpose
   up to a sign: the word must denote, up to a global phase, the transpose of that matrix (an
   equally good approximation of a diagonal target), and the matrix must be exactly unitary *)
Definition stage_ok (m : dm) (st : option (list Z * Z)) : bool :=
  match st with
  | None => true
  | Some ([a1; a2; a3; a4; b1; b2; b3; b4; c1; c2; c3; c4; d1; d2; d3; d4], k) =>
      let e := DM (ZO a1 a2 a3 a4) (ZO b1 b2 b3 b4) (ZO c1 c2 c3 c4) (ZO d1 d2 d3 d4) k in
      dm_unitaryb e && dm_proportional m (dm_transpose e)
  | Some _ => false
  end.
Definition bit (b : bool) (v : Z) : Z := if b then 0 else v.
(* 0 = everything holds; otherwise the sum of: 1 alphabet, 2 exact unitarity, 4 malformed
   enclosures, 8 distance (with allowance), 16 distance (strict eps), 32 exact stage *)
Definition ct_code (c : ct_case) : Z :=
  let '(n, encz, sc, e2, e2a, st) := c in
  let enc := enc_q encz in
  let w := parse n in
  let m := word_denote_fast w in
  bit (gates_in_set w) 1 + bit (dm_unitaryb m) 2 + bit (encl_ok enc && (List.length enc =? 16)%nat) 4
  + bit (dist_ok m sc enc e2a) 8 + bit (dist_ok m sc enc e2) 16 + bit (stage_ok m st) 32.
Definition ct_check_case (c : ct_case) : bool := ct_code c =? 0.
(* the same with the strict distance failure ignored: the documented bound up to float64 resolution *)
Definition ct_check_allow (c : ct_case) : bool := let v := ct_code c in (v =? 0) || (v =? 16).
